/-
  Property C20 composed with C01 / C02 / C06: the experiment protocol over the REAL population steps.

  Model: `Model/ExperimentEpoch.lean` (`executeReal`): the two loops of `Experiment.Execute` running the model of
  `NewPopulation` (`spawn`) at the head of every trial and the model of `NextEpoch` (`nextEpoch`) after every
  unsolved generation, the raw random stream threaded through the whole run; the evaluator is an arbitrary function.

  (1) `executeReal_refines`   the observable output (events, recorded trials, error) of every run of `executeReal` is
                              the output of the scripted `execute` for the script read off the run, so every C20
                              theorem transfers (`executeReal_complete`, `executeReal_abort`, `executeReal_nodup`,
                              `executeReal_chronological`, `executeReal_check`).
  (2) `executeReal_evaluated_inv`   every population handed to the evaluator satisfies the C02 population invariant
                              (exactly `PopSize` organisms partitioned into non-empty species, consistent allocation,
                              unique species ids) and holds only well-formed genomes that retain the start genome's
                              interface (C01); generation 0 of every trial is handed the population `spawn` returned
                              (`executeReal_gen0_spawned`), which has the start genome's topology (`executeReal_gen0_topology`).
  (3) `executeReal_no_epoch_error`  under the hypotheses of `C02.nextEpoch_no_error` (option facts, float facts, quota
                              facts at the evaluated populations) no run ends with a spawn or epoch error.

  Kind A: every scalar type, every stream, every evaluator.  A finite stream may run out (`.error .outOfRandom`);
  all statements are about runs that return (`= .ok (out, rs')`), and `executeReal_never_error` excludes `.error (.error _)`.
-/
import GoNeat.Model.ExperimentEpoch
import GoNeat.Props.C20
import GoNeat.Props.C02NoError
import GoNeat.Props.C06Spawn

set_option linter.unusedSectionVars false

namespace GoNeat.C20
open GoNeat GoNeat.Experiment
variable {W : Type} [Scalar W]

/-! ### (1) refinement -/

/-- script `s` has the control part `c` -/
structure CtlOf (s : Script) (c : Ctl) : Prop where
  observer : s.observer = c.observer
  execOk : s.execOk = c.execOk
  maxGen : s.maxGen = c.maxGen
  evalCancels : s.evalCancels = c.evalCancels
  startedCancels : s.startedCancels = c.startedCancels
  evaluatedCancels : s.evaluatedCancels = c.evaluatedCancels
  finishedCancels : s.finishedCancels = c.finishedCancels

/-- script `s` answers generations `g, g+1, …` of trial `t` as the log says -/
def GenMatches (s : Script) (t g : Nat) (l : List (GenLog W)) : Prop :=
  ∀ k gl, l[k]? = some gl → s.evalRes t (g + k) = gl.outcome ∧ s.epochFails t (g + k) = gl.epochFailed

/-- script `s` answers trials `t, t+1, …` as the log says -/
def TrialMatches (s : Script) (t : Nat) (l : List (TrialLog W)) : Prop :=
  ∀ k tl, l[k]? = some tl → s.spawnOk (t + k) = tl.spawnOk ∧ GenMatches s (t + k) 0 tl.gens

theorem GenMatches.head {s : Script} {t g : Nat} {gl : GenLog W} {l : List (GenLog W)} (h : GenMatches s t g (gl :: l)) :
    s.evalRes t g = gl.outcome ∧ s.epochFails t g = gl.epochFailed := by
  simpa using h 0 gl rfl

theorem GenMatches.tail {s : Script} {t g : Nat} {gl : GenLog W} {l : List (GenLog W)} (h : GenMatches s t g (gl :: l)) :
    GenMatches s t (g + 1) l := by
  intro k x hx
  have := h (k + 1) x (by simpa using hx)
  rwa [show g + (k + 1) = g + 1 + k by omega] at this

theorem TrialMatches.head {s : Script} {t : Nat} {tl : TrialLog W} {l : List (TrialLog W)} (h : TrialMatches s t (tl :: l)) :
    s.spawnOk t = tl.spawnOk ∧ GenMatches s t 0 tl.gens := by
  simpa using h 0 tl rfl

theorem TrialMatches.tail {s : Script} {t : Nat} {tl : TrialLog W} {l : List (TrialLog W)} (h : TrialMatches s t (tl :: l)) :
    TrialMatches s (t + 1) l := by
  intro k x hx
  have := h (k + 1) x (by simpa using hx)
  rwa [show t + (k + 1) = t + 1 + k by omega] at this

theorem obs_eq {s : Script} {c : Ctl} (hc : CtlOf s c) (e : Event) : obs s e = obsC c e := by
  simp [obs, obsC, hc.observer]

/-- the generation loop over the real population is the scripted generation loop of every script that has the same
    control part and answers as the log of the loop says -/
theorem genLoopR_refines (s : Script) (c : Ctl) (hc : CtlOf s c) (o : EpochOpts W) (eval : Nat → Nat → Pop W → EvalResult W)
    (t : Nat) : ∀ (fuel g pe : Nat) (cn : Bool) (p : Pop W) (rs : List Nat) (r : GenOutR W) (rs' : List Nat),
    genLoopR c o eval t fuel g pe cn p rs = .ok (r, rs') → GenMatches s t g r.log →
    genLoop s t fuel g pe cn = ⟨r.events, r.gens, r.exit⟩ := by
  intro fuel
  induction fuel with
  | zero =>
    intro g pe cn p rs r rs' h _
    simp only [genLoopR, Except.ok.injEq, Prod.mk.injEq] at h
    obtain ⟨rfl, _⟩ := h
    rfl
  | succ fuel ih =>
    intro g pe cn p rs r rs' h hm
    unfold genLoopR at h
    unfold genLoop
    cases cn with
    | true =>
      simp only [if_true, Except.ok.injEq, Prod.mk.injEq] at h
      obtain ⟨rfl, _⟩ := h
      rfl
    | false =>
      simp only [Bool.false_eq_true, if_false] at h ⊢
      split at h
      · next hout =>
        simp only [Except.ok.injEq, Prod.mk.injEq] at h
        obtain ⟨rfl, _⟩ := h
        rw [hm.head.1]
      · next hout =>
        simp only [Except.ok.injEq, Prod.mk.injEq] at h
        obtain ⟨rfl, _⟩ := h
        rw [hm.head.1]
        simp only [obs_eq hc, hc.observer, hc.evalCancels, hc.evaluatedCancels]
      · next hout =>
        rw [hc.evalCancels]
        split at h
        · next hc1 =>
          simp only [Except.ok.injEq, Prod.mk.injEq] at h
          obtain ⟨rfl, _⟩ := h
          rw [hm.head.1]
          simp only [hc1, if_true]
        · next hc1 =>
          split at h
          · cases h
          · simp only [Except.ok.injEq, Prod.mk.injEq] at h
            obtain ⟨rfl, _⟩ := h
            rw [hm.head.1, hm.head.2]
            simp only [hc1, if_true, Bool.false_eq_true, if_false]
          · next p' rs1 hne =>
            split at h
            · cases h
            · next r2 rs2 hrec =>
              simp only [Except.ok.injEq, Prod.mk.injEq] at h
              obtain ⟨rfl, _⟩ := h
              have h2 := ih (g + 1) (pe + 1) _ p' rs1 r2 rs2 hrec hm.tail
              rw [hm.head.1, hm.head.2]
              simp only [hc1, Bool.false_eq_true, if_false]
              rw [hc.observer, hc.evaluatedCancels, h2]
              simp only [obs_eq hc]

/-- the trial loop over the real population steps is the scripted trial loop -/
theorem trialLoopR_refines (s : Script) (c : Ctl) (hc : CtlOf s c) (o : EpochOpts W) (g0 : Genome W)
    (eval : Nat → Nat → Pop W → EvalResult W) : ∀ (fuel t : Nat) (cn : Bool) (rs : List Nat) (r : RunOutR W) (rs' : List Nat),
    trialLoopR c o g0 eval fuel t cn rs = .ok (r, rs') → TrialMatches s t r.log →
    trialLoop s fuel t cn = ⟨r.events, r.trials, r.err⟩ := by
  intro fuel
  induction fuel with
  | zero =>
    intro t cn rs r rs' h _
    simp only [trialLoopR, Except.ok.injEq, Prod.mk.injEq] at h
    obtain ⟨rfl, _⟩ := h
    rfl
  | succ fuel ih =>
    intro t cn rs r rs' h hm
    unfold trialLoopR at h
    unfold trialLoop
    split at h
    · cases h
    · simp only [Except.ok.injEq, Prod.mk.injEq] at h
      obtain ⟨rfl, _⟩ := h
      simp [hm.head.1]
    · next p rs1 hsp =>
      split at h
      · next hv =>
        simp only [Except.ok.injEq, Prod.mk.injEq] at h
        obtain ⟨rfl, _⟩ := h
        simp [hm.head.1]
      · next hv =>
        split at h
        · next hx =>
          simp only [Except.ok.injEq, Prod.mk.injEq] at h
          obtain ⟨rfl, _⟩ := h
          have hx' : s.execOk = false := by rw [hc.execOk]; simpa using hx
          simp [hm.head.1, hx']
        · next hx =>
          have hx' : s.execOk = true := by rw [hc.execOk]; simpa using hx
          split at h
          · cases h
          · next r1 rs2 hgen =>
            split at h
            · next e he =>
              simp only [Except.ok.injEq, Prod.mk.injEq] at h
              obtain ⟨rfl, _⟩ := h
              have h1 := genLoopR_refines s c hc o eval t _ _ _ _ _ _ _ _ hgen hm.head.2
              rw [hc.maxGen, hc.observer, hc.startedCancels, h1]
              simp [hm.head.1, hx', he, obs_eq hc]
            · next c2 he =>
              split at h
              · cases h
              · next rest rs3 hrest =>
                simp only [Except.ok.injEq, Prod.mk.injEq] at h
                obtain ⟨rfl, _⟩ := h
                have h1 := genLoopR_refines s c hc o eval t _ _ _ _ _ _ _ _ hgen hm.head.2
                have h2 := ih (t + 1) _ rs2 rest rs3 hrest hm.tail
                rw [hc.maxGen, hc.observer, hc.startedCancels, h1]
                simp only [hm.head.1, hx', he, Bool.not_true, Bool.false_eq_true, if_false]
                rw [hc.finishedCancels, h2]
                simp only [obs_eq hc]

theorem ctlOf_induced (c : Ctl) (log : List (TrialLog W)) : CtlOf (inducedScript c log) c :=
  ⟨rfl, rfl, rfl, rfl, rfl, rfl, rfl⟩

theorem trialMatches_induced (c : Ctl) (log : List (TrialLog W)) : TrialMatches (inducedScript c log) 0 log := by
  intro k tl hk
  simp only [Nat.zero_add]
  refine ⟨by simp [inducedScript, hk], ?_⟩
  intro j gl hj
  simp [inducedScript, hk, hj]

/-- **C20 over the real population steps, (1) refinement.**  For every control part (runs, generations, observer,
    cancellation points), option setting, start genome, evaluator and stream: the events, recorded trials and returned
    error of a run of `executeReal` are exactly the output of the scripted model `execute` for the script read off the
    run (the evaluator's answers, whether `spawn` and `nextEpoch` succeeded). -/
theorem executeReal_refines (c : Ctl) (o : EpochOpts W) (g0 : Genome W) (eval : Nat → Nat → Pop W → EvalResult W)
    (rs rs' : List Nat) (out : RealOut W) (h : executeReal c o g0 eval rs = .ok (out, rs')) :
    execute (inducedScript c out.log) = (out.events, out.result) := by
  unfold executeReal at h
  unfold execute
  split at h
  · next ho =>
    simp only [Except.ok.injEq, Prod.mk.injEq] at h
    obtain ⟨rfl, _⟩ := h
    have : (inducedScript c ([] : List (TrialLog W))).hasOptions = false := by simpa [inducedScript] using ho
    simp [this]
  · next ho =>
    split at h
    · cases h
    · next r rs1 hr =>
      simp only [Except.ok.injEq, Prod.mk.injEq] at h
      obtain ⟨rfl, _⟩ := h
      have hopt : (inducedScript c r.log).hasOptions = true := by simpa [inducedScript] using ho
      have h1 := trialLoopR_refines (inducedScript c r.log) c (ctlOf_induced c r.log) o g0 eval c.runs 0 c.preCancelled
        rs r rs1 hr (trialMatches_induced c r.log)
      simp only [hopt, Bool.not_true, Bool.false_eq_true, if_false]
      have h1' : trialLoop (inducedScript c r.log) (inducedScript c r.log).runs 0 (inducedScript c r.log).preCancelled =
          ⟨r.events, r.trials, r.err⟩ := h1
      rw [h1']

/-- a finite stream may run out; an error of `spawn` / `nextEpoch` is never passed on as a model error (it is the
    `Err` the run ends with) -/
theorem executeReal_never_error (c : Ctl) (o : EpochOpts W) (g0 : Genome W) (eval : Nat → Nat → Pop W → EvalResult W)
    (rs : List Nat) (msg : String) : executeReal c o g0 eval rs ≠ .error (.error msg) := by
  have hg : ∀ t fuel g pe cn p rs, genLoopR c o eval t fuel g pe cn p rs ≠ .error (.error msg) := by
    intro t fuel
    induction fuel with
    | zero => intro g pe cn p rs h; simp [genLoopR] at h
    | succ fuel ih =>
      intro g pe cn p rs h
      unfold genLoopR at h
      dsimp only at h
      repeat' split at h
      all_goals first | cases h | skip
      all_goals exact ih _ _ _ _ _ (by assumption)
  have ht : ∀ fuel t cn rs, trialLoopR c o g0 eval fuel t cn rs ≠ .error (.error msg) := by
    intro fuel
    induction fuel with
    | zero => intro t cn rs h; simp [trialLoopR] at h
    | succ fuel ih =>
      intro t cn rs h
      unfold trialLoopR at h
      repeat' split at h
      all_goals first | cases h | skip
      · exact hg _ _ _ _ _ _ _ (by assumption)
      · exact ih _ _ _ (by assumption)
  intro h
  unfold executeReal at h
  repeat' split at h
  all_goals first | cases h | skip
  exact ht _ _ _ _ (by assumption)

/-! #### the C20 theorems transfer -/

section Transfer
variable (c : Ctl) (o : EpochOpts W) (g0 : Genome W) (eval : Nat → Nat → Pop W → EvalResult W)
  (rs rs' : List Nat) (out : RealOut W) (h : executeReal c o g0 eval rs = .ok (out, rs'))
include h

/-- the executable protocol specification holds of every run over the real population steps -/
theorem executeReal_check : Protocol.check (inducedScript c out.log) out.events out.result = true := by
  have := execute_check (inducedScript c out.log)
  rwa [executeReal_refines c o g0 eval rs rs' out h] at this

/-- **normal return**: a run over the real population steps that returns no error recorded exactly `runs` trials,
    trial `t` with generations `0 .. trialLen-1`, and its events are those of `runs` completed trials
    (`execute_complete` transferred) -/
theorem executeReal_complete (he : out.result.err = none) :
    out.result.trials = (List.range' 0 c.runs).map (expectedTrial (inducedScript c out.log)) ∧
    out.events = trialsEvents (inducedScript c out.log) 0 c.runs := by
  have := execute_complete (inducedScript c out.log)
  rw [executeReal_refines c o g0 eval rs rs' out h] at this
  exact this he

/-- **error return** (`execute_abort` transferred): `k < runs` completed trials, then the aborted trial, in which no
    event follows the failing evaluator call / the cancellation check -/
theorem executeReal_abort (ho : c.hasOptions = true) (e : Err) (he : out.result.err = some e) :
    ∃ k, k < c.runs ∧ out.result.trials = (List.range' 0 k).map (expectedTrial (inducedScript c out.log)) ∧
      ∃ tail, out.events = trialsEvents (inducedScript c out.log) 0 k ++ tail ∧ TrialAbort (inducedScript c out.log) k tail e := by
  have := execute_abort (inducedScript c out.log) ho e
  rw [executeReal_refines c o g0 eval rs rs' out h] at this
  exact this he

/-- **exactly once, in order** (`execute_chronological` transferred) -/
theorem executeReal_chronological : out.events.Pairwise (Before (inducedScript c out.log)) := by
  have := execute_chronological (inducedScript c out.log)
  rwa [executeReal_refines c o g0 eval rs rs' out h] at this

/-- **no duplicate notification, evaluation or turnover** (`execute_nodup` transferred) -/
theorem executeReal_nodup : out.events.Nodup := by
  have := execute_nodup (inducedScript c out.log)
  rwa [executeReal_refines c o g0 eval rs rs' out h] at this

/-- **the evaluator is never called once the context is cancelled** (`execute_cancel` transferred) -/
theorem executeReal_cancel :
    noEvalAfterCancel (inducedScript c out.log) out.events c.preCancelled = true ∧
    (out.result.err = some .cancelled → flagAfter (inducedScript c out.log) c.preCancelled out.events = true) := by
  have := execute_cancel (inducedScript c out.log)
  rwa [executeReal_refines c o g0 eval rs rs' out h] at this

end Transfer

/-! ### generic induction over both loops

`I p rs`: invariant of (population handed to the evaluator, stream at that point); `V rs`: what is known of the stream
between trials; `Q`: what is assumed of every evaluated population of the log; `E`: what follows if `spawn` or
`nextEpoch` returns an error of its own. -/

section Generic
variable (c : Ctl) (o : EpochOpts W) (g0 : Genome W) (eval : Nat → Nat → Pop W → EvalResult W)
  (I : Pop W → List Nat → Prop) (V : List Nat → Prop) (Q : Pop W → Prop) (E : Prop)

theorem genLoopR_inv (hIV : ∀ p rs, I p rs → V rs)
    (hstep : ∀ t g p rs, I p rs → Q (eval t g p).pop →
      ((∃ msg, nextEpoch o (g : Int) (eval t g p).pop rs = .error (.error msg)) → E) ∧
      ∀ p' rs', nextEpoch o (g : Int) (eval t g p).pop rs = .ok (p', rs') → I p' rs')
    (t : Nat) : ∀ (fuel g pe : Nat) (cn : Bool) (p : Pop W) (rs : List Nat) (r : GenOutR W) (rs' : List Nat),
    I p rs → genLoopR c o eval t fuel g pe cn p rs = .ok (r, rs') → (∀ gl ∈ r.log, Q gl.after) →
    (∀ gl ∈ r.log, ∃ rs0, I gl.pop rs0) ∧ V rs' ∧ (r.exit = .error .epochFailed → E) ∧ r.exit ≠ .error .spawnFailed ∧
    (∀ gl, r.log.head? = some gl → gl.pop = p) := by
  intro fuel
  induction fuel with
  | zero =>
    intro g pe cn p rs r rs' hi h _
    simp only [genLoopR, Except.ok.injEq, Prod.mk.injEq] at h
    obtain ⟨rfl, rfl⟩ := h
    exact ⟨by simp, hIV _ _ hi, by simp, by simp, by simp⟩
  | succ fuel ih =>
    intro g pe cn p rs r rs' hi h hq
    unfold genLoopR at h
    dsimp only at h
    split at h
    · simp only [Except.ok.injEq, Prod.mk.injEq] at h
      obtain ⟨rfl, rfl⟩ := h
      exact ⟨by simp, hIV _ _ hi, by simp, by simp, by simp⟩
    · have hone : ∀ (x y : GenLog W), x.pop = p → (∀ gl ∈ [x], ∃ rs0, I gl.pop rs0) ∧ (∀ gl, [x].head? = some gl → gl.pop = p) := by
        intro x _ hx
        refine ⟨fun gl hgl => ?_, fun gl hgl => ?_⟩
        · simp only [List.mem_singleton] at hgl; subst hgl; exact ⟨rs, hx ▸ hi⟩
        · simp only [List.head?_cons, Option.some.injEq] at hgl; subst hgl; exact hx
      split at h
      · simp only [Except.ok.injEq, Prod.mk.injEq] at h
        obtain ⟨rfl, rfl⟩ := h
        exact ⟨(hone _ ⟨p, p, .fail, false⟩ rfl).1, hIV _ _ hi, by simp, by simp, (hone _ ⟨p, p, .fail, false⟩ rfl).2⟩
      · simp only [Except.ok.injEq, Prod.mk.injEq] at h
        obtain ⟨rfl, rfl⟩ := h
        exact ⟨(hone _ ⟨p, p, .fail, false⟩ rfl).1, hIV _ _ hi, by simp, by simp, (hone _ ⟨p, p, .fail, false⟩ rfl).2⟩
      · split at h
        · simp only [Except.ok.injEq, Prod.mk.injEq] at h
          obtain ⟨rfl, rfl⟩ := h
          exact ⟨(hone _ ⟨p, p, .fail, false⟩ rfl).1, hIV _ _ hi, by simp, by simp, (hone _ ⟨p, p, .fail, false⟩ rfl).2⟩
        · split at h
          · cases h
          · next msg hne =>
            simp only [Except.ok.injEq, Prod.mk.injEq] at h
            obtain ⟨rfl, rfl⟩ := h
            have hQ : Q (eval t g p).pop := hq _ List.mem_cons_self
            exact ⟨(hone _ ⟨p, p, .fail, false⟩ rfl).1, hIV _ _ hi, fun _ => (hstep t g p rs hi hQ).1 ⟨msg, hne⟩, by simp,
              (hone _ ⟨p, p, .fail, false⟩ rfl).2⟩
          · next p' rs1 hne =>
            split at h
            · cases h
            · next r2 rs2 hrec =>
              simp only [Except.ok.injEq, Prod.mk.injEq] at h
              obtain ⟨rfl, rfl⟩ := h
              have hQ : Q (eval t g p).pop := hq _ List.mem_cons_self
              have hi' := (hstep t g p rs hi hQ).2 p' rs1 hne
              obtain ⟨a1, a2, a3, a4, _⟩ := ih (g + 1) (pe + 1) _ p' rs1 r2 rs2 hi' hrec
                (fun gl hgl => hq gl (List.mem_cons_of_mem _ hgl))
              refine ⟨fun gl hgl => ?_, a2, a3, a4, fun gl hgl => ?_⟩
              · rcases List.mem_cons.mp hgl with rfl | hgl
                · exact ⟨rs, hi⟩
                · exact a1 gl hgl
              · simp only [List.head?_cons, Option.some.injEq] at hgl; subst hgl; rfl

theorem trialLoopR_inv (hIV : ∀ p rs, I p rs → V rs)
    (hstep : ∀ t g p rs, I p rs → Q (eval t g p).pop →
      ((∃ msg, nextEpoch o (g : Int) (eval t g p).pop rs = .error (.error msg)) → E) ∧
      ∀ p' rs', nextEpoch o (g : Int) (eval t g p).pop rs = .ok (p', rs') → I p' rs')
    (hspawn : ∀ rs, V rs → ((∃ msg, spawn o g0 rs = .error (.error msg)) → E) ∧
      ∀ p rs', spawn o g0 rs = .ok (p, rs') → I p rs') :
    ∀ (fuel t : Nat) (cn : Bool) (rs : List Nat) (r : RunOutR W) (rs' : List Nat),
    V rs → trialLoopR c o g0 eval fuel t cn rs = .ok (r, rs') → (∀ tl ∈ r.log, ∀ gl ∈ tl.gens, Q gl.after) →
    (∀ tl ∈ r.log, ∀ gl ∈ tl.gens, ∃ rs0, I gl.pop rs0) ∧ (r.err = some .epochFailed → E) ∧
    (r.err = some .spawnFailed → E ∨ ∃ t, c.verifyOk t = false) ∧
    (∀ tl ∈ r.log, ∀ p, tl.spawned = some p → (∃ rs0 rs1, spawn o g0 rs0 = .ok (p, rs1)) ∧
      ∀ gl, tl.gens.head? = some gl → gl.pop = p) ∧
    (∀ tl ∈ r.log, tl.spawned = none → tl.gens = []) := by
  intro fuel
  induction fuel with
  | zero =>
    intro t cn rs r rs' _ h _
    simp only [trialLoopR, Except.ok.injEq, Prod.mk.injEq] at h
    obtain ⟨rfl, rfl⟩ := h
    exact ⟨by simp, by simp, by simp, by simp, by simp⟩
  | succ fuel ih =>
    intro t cn rs r rs' hv h hq
    unfold trialLoopR at h
    split at h
    · cases h
    · next msg hsp =>
      simp only [Except.ok.injEq, Prod.mk.injEq] at h
      obtain ⟨rfl, rfl⟩ := h
      exact ⟨by simp, by simp, fun _ => .inl ((hspawn rs hv).1 ⟨msg, hsp⟩), by simp, by simp⟩
    · next p rs1 hsp =>
      have hi := (hspawn rs hv).2 p rs1 hsp
      split at h
      · next hver =>
        simp only [Except.ok.injEq, Prod.mk.injEq] at h
        obtain ⟨rfl, rfl⟩ := h
        refine ⟨by simp, by simp, fun _ => .inr ⟨t, by simpa using hver⟩, ?_, by simp⟩
        intro tl htl q hq'
        simp only [List.mem_singleton] at htl; subst htl
        simp only [Option.some.injEq] at hq'; subst hq'
        exact ⟨⟨rs, _, hsp⟩, by simp⟩
      · split at h
        · simp only [Except.ok.injEq, Prod.mk.injEq] at h
          obtain ⟨rfl, rfl⟩ := h
          refine ⟨by simp, by simp, by simp, ?_, by simp⟩
          intro tl htl q hq'
          simp only [List.mem_singleton] at htl; subst htl
          simp only [Option.some.injEq] at hq'; subst hq'
          exact ⟨⟨rs, _, hsp⟩, by simp⟩
        · split at h
          · cases h
          · next r1 rs2 hgen =>
            split at h
            · next e he =>
              simp only [Except.ok.injEq, Prod.mk.injEq] at h
              obtain ⟨rfl, rfl⟩ := h
              obtain ⟨a1, _, a3, a4, a5⟩ := genLoopR_inv c o eval I V Q E hIV hstep t _ _ _ _ _ _ _ _ hi hgen
                (fun gl hgl => hq _ List.mem_cons_self gl hgl)
              refine ⟨?_, ?_, ?_, ?_, by simp⟩
              · intro tl htl; simp only [List.mem_singleton] at htl; subst htl; exact a1
              · intro h'; simp only [Option.some.injEq] at h'; subst h'; exact a3 he
              · intro h'; simp only [Option.some.injEq] at h'; subst h'; exact absurd he a4
              · intro tl htl q hq'
                simp only [List.mem_singleton] at htl; subst htl
                simp only [Option.some.injEq] at hq'; subst hq'
                exact ⟨⟨rs, _, hsp⟩, a5⟩
            · next c2 he =>
              split at h
              · cases h
              · next rest rs3 hrest =>
                simp only [Except.ok.injEq, Prod.mk.injEq] at h
                obtain ⟨rfl, rfl⟩ := h
                obtain ⟨a1, a2, _, _, a5⟩ := genLoopR_inv c o eval I V Q E hIV hstep t _ _ _ _ _ _ _ _ hi hgen
                  (fun gl hgl => hq _ List.mem_cons_self gl hgl)
                obtain ⟨b1, b2, b3, b4, b5⟩ := ih (t + 1) _ rs2 rest _ a2 hrest
                  (fun tl htl => hq tl (List.mem_cons_of_mem _ htl))
                refine ⟨?_, b2, b3, ?_, ?_⟩
                rotate_left 2
                · intro tl htl hn
                  rcases List.mem_cons.mp htl with rfl | htl
                  · cases hn
                  · exact b5 tl htl hn
                · intro tl htl
                  rcases List.mem_cons.mp htl with rfl | htl
                  · exact a1
                  · exact b1 tl htl
                · intro tl htl q hq'
                  rcases List.mem_cons.mp htl with rfl | htl
                  · simp only [Option.some.injEq] at hq'; subst hq'
                    exact ⟨⟨rs, _, hsp⟩, a5⟩
                  · exact b4 tl htl q hq'

end Generic

/-! ### (2) the invariant at every evaluation -/

open GoNeat.C01 GoNeat.C02 GoNeat.NoErr Scalar

/-- what holds of every population handed to the evaluator: the C02 population invariant — consistent allocation,
    unique species ids not above `LastSpecies`, exactly `PopSize` organisms, each listed by exactly one species
    (the species lists are a duplicate-free rearrangement of `Organisms`), no empty species — and the C01 pool
    invariant of its genomes together with the start genome -/
structure EvalInv (o : EpochOpts W) (g0 : Genome W) (p : Pop W) : Prop where
  uid : UidInv p
  spid : SpIdInv p
  size : p.organisms.length = o.popSize
  perm : (orgUids p.species).Perm p.organisms
  nodup : p.organisms.Nodup
  nonempty : ∀ s ∈ p.species, s.orgs ≠ []
  pool : PoolOk p.reg ([g0] ++ genomesOfPop p)

/-- every genome of such a population is well-formed, retains the start genome's input/bias/output nodes, passes
    every error exit of `Genesis` and shares the start genome's first gene (as `C01.evolution_wf`) -/
theorem EvalInv.genomes {o : EpochOpts W} {g0 : Genome W} {p : Pop W} (h : EvalInv o g0 p) :
    ∀ x ∈ genomesOfPop p, WFT x ∧ Retains g0 x ∧ genesisErr x = none ∧ SharedHead x g0 := by
  intro x hx
  have f := h.pool x (List.mem_append_right _ hx)
  exact ⟨f.wft, retains_of_nodeLineage g0 x (f.nodes g0 (by simp)), genesis_ok x f.wft.wf, f.head g0 (by simp)⟩

theorem evalInv_spawn (o : EpochOpts W) (g0 : Genome W) (rs rs' : List Nat) (p : Pop W) (hw : WFT g0) (hm : g0.modules = [])
    (h : spawn o g0 rs = .ok (p, rs')) : EvalInv o g0 p :=
  have k := spawn_popOk o g0 rs rs' p hw hm h
  ⟨k.uid, k.spid, k.size, k.perm, k.nodup, k.nonempty, spawn_poolOk o g0 rs rs' p hw hm h⟩

theorem pool_eval {g0 : Genome W} {q q' : Pop W} (hp : PoolOk q.reg ([g0] ++ genomesOfPop q)) (he : EvalOk q q') :
    PoolOk q'.reg ([g0] ++ genomesOfPop q') := by
  obtain ⟨_, hg, hreg⟩ := he
  rw [hreg]
  apply hp.subset
  intro g hg'
  rcases List.mem_append.mp hg' with hx | hx
  · exact List.mem_append_left _ hx
  · exact List.mem_append_right _ (hg g hx)

theorem evalInv_step (o : EpochOpts W) (g0 : Genome W) (gen : Int) (q q' p' : Pop W) (rs rs' : List Nat)
    (hi : EvalInv o g0 q) (he : EvalOk q q') (h : nextEpoch o gen q' rs = .ok (p', rs')) : EvalInv o g0 p' := by
  obtain ⟨hu0, hs0⟩ := sameShape_inv q q' he.1 hi.uid hi.spid
  obtain ⟨⟨a1, a2, a3, a4, _, _⟩, hu1, hs1⟩ := nextEpoch_popInv o gen q' p' rs rs' hu0 hs0 h
  exact ⟨hu1, hs1, a1, a3 ▸ List.Perm.refl _, a2, a4, nextEpoch_closed [g0] o gen q' p' rs rs' (pool_eval hi.pool he) h⟩

section Weak
variable (c : Ctl) (o : EpochOpts W) (g0 : Genome W) (eval : Nat → Nat → Pop W → EvalResult W)
  (hw : WFT g0) (hm : g0.modules = []) (hev : ∀ t g q, EvalOk q (eval t g q).pop)
  (rs rs' : List Nat) (out : RealOut W) (h : executeReal c o g0 eval rs = .ok (out, rs'))
include hw hm hev h

theorem executeReal_weak :
    (∀ tl ∈ out.log, ∀ gl ∈ tl.gens, EvalInv o g0 gl.pop) ∧
    (∀ tl ∈ out.log, ∀ p, tl.spawned = some p → (∃ rs0 rs1, spawn o g0 rs0 = .ok (p, rs1)) ∧
      ∀ gl, tl.gens.head? = some gl → gl.pop = p) ∧
    (∀ tl ∈ out.log, tl.spawned = none → tl.gens = []) := by
  unfold executeReal at h
  split at h
  · simp only [Except.ok.injEq, Prod.mk.injEq] at h
    obtain ⟨rfl, _⟩ := h
    exact ⟨by simp, by simp, by simp⟩
  · split at h
    · cases h
    · next r rs1 hr =>
      simp only [Except.ok.injEq, Prod.mk.injEq] at h
      obtain ⟨rfl, _⟩ := h
      obtain ⟨a1, _, _, a4, a5⟩ := trialLoopR_inv c o g0 eval (fun p _ => EvalInv o g0 p) (fun _ => True) (fun _ => True) True
        (fun _ _ _ => trivial)
        (fun t g p rs hi _ => ⟨fun _ => trivial, fun p' rs' he => evalInv_step o g0 _ p _ p' rs rs' hi (hev t g p) he⟩)
        (fun rs _ => ⟨fun _ => trivial, fun p rs' he => evalInv_spawn o g0 rs rs' p hw hm he⟩)
        c.runs 0 c.preCancelled rs r rs1 trivial hr (fun _ _ _ _ => trivial)
      exact ⟨fun tl htl gl hgl => (a1 tl htl gl hgl).elim (fun _ x => x), a4, a5⟩

/-- **C20 over the real population steps, (2) the invariant at every evaluation.**  For every control part, option
    setting, well-formed non-modular start genome, stream, and every evaluator that touches no genome, not the
    registry and not which organisms sit where (`EvalOk`: it assigns fitness values and the like): EVERY population
    handed to the evaluator — in every generation of every trial — satisfies the C02 population invariant (`EvalInv`)
    and all its genomes are well-formed (C01).  No float fact is needed. -/
theorem executeReal_evaluated_inv : ∀ tl ∈ out.log, ∀ gl ∈ tl.gens,
    EvalInv o g0 gl.pop ∧ ∀ x ∈ genomesOfPop gl.pop, WFT x ∧ Retains g0 x ∧ genesisErr x = none ∧ SharedHead x g0 :=
  fun tl htl gl hgl =>
    have k := (executeReal_weak c o g0 eval hw hm hev rs rs' out h).1 tl htl gl hgl
    ⟨k, k.genomes⟩

/-- **generation 0 of every trial is evaluated on the freshly spawned population**: the population handed to the
    first evaluator call of a trial is what `spawn` returned from the start genome (at the stream position the run
    had reached) — no trial inherits a population -/
theorem executeReal_gen0_spawned : ∀ tl ∈ out.log, ∀ gl, tl.gens.head? = some gl →
    tl.spawned = some gl.pop ∧ ∃ rs0 rs1, spawn o g0 rs0 = .ok (gl.pop, rs1) := by
  intro tl htl gl hgl
  obtain ⟨_, a, b⟩ := executeReal_weak c o g0 eval hw hm hev rs rs' out h
  cases hs : tl.spawned with
  | none => rw [b tl htl hs] at hgl; cases hgl
  | some p =>
    obtain ⟨hsp, hp⟩ := a tl htl p hs
    rw [hp gl hgl]; exact ⟨rfl, hsp⟩

/-- **C06 applies to generation 0**: every organism evaluated in generation 0 of a trial has exactly the start
    genome's traits, nodes and genes up to weights, and there are exactly `PopSize` of them, genome ids `0 … PopSize-1` -/
theorem executeReal_gen0_topology : ∀ tl ∈ out.log, ∀ gl, tl.gens.head? = some gl →
    (∀ s ∈ gl.pop.species, ∀ m ∈ s.orgs, C06.SameTopology g0 m.genome) ∧
    ∃ orgs : List (Org W), orgs.length = o.popSize ∧
      orgs.map (·.genome.id) = (List.range o.popSize).map (fun (i : Nat) => (i : Int)) ∧
      (∀ x ∈ orgs, ∃ s ∈ gl.pop.species, x ∈ s.orgs) ∧ (∀ s ∈ gl.pop.species, ∀ m ∈ s.orgs, m ∈ orgs) := by
  intro tl htl gl hgl
  obtain ⟨_, rs0, rs1, hsp⟩ := executeReal_gen0_spawned c o g0 eval hw hm hev rs rs' out h tl htl gl hgl
  have hrefs : C06.RefsOk g0 := by
    refine ⟨hw.wf.traitRefs, hw.wf.endpoints, ?_, ?_⟩ <;> simp [hm]
  exact C06.spawn_topology o g0 hrefs gl.pop rs0 rs1 hsp

end Weak

/-! ### (3) no spawn / epoch error -/

theorem safe_spawnLoop (g : Genome W) (hw : WFT g) (hm : g.modules = []) :
    ∀ (n : Nat) (count : Int) (uid : Nat) (rs : List Nat), Safe (fun orgs => orgs.length = n) (spawnLoop g n count uid rs) := by
  intro n
  induction n with
  | zero => intro count uid rs; simp [spawnLoop, Safe]
  | succ n ih =>
    intro count uid rs
    unfold spawnLoop
    obtain ⟨d, hd, hde, _⟩ := duplicate_wf g count hw hm
    rw [hd]
    simp only
    have h1 := safe_mutateLinkWeights d one one .gaussian rs (by rw [hde]; exact hw.wf.hasGene)
    split
    · next e he => rw [he] at h1; exact h1.of_error
    · next d' rs1 he =>
      have h2 := ih (count + 1) (uid + 1) rs1
      split
      · next e he2 => rw [he2] at h2; exact h2.of_error
      · next rest rs2 hr =>
        rw [hr] at h2
        simp only [Safe] at h2 ⊢
        simp [h2]

/-- **`NewPopulation` never fails** on a well-formed non-modular start genome with `PopSize ≥ 1` and a non-zero
    compatibility threshold (running out of a finite stream aside) -/
theorem safe_spawn (o : EpochOpts W) (g0 : Genome W) (ho : OptsOk o) (hw : WFT g0) (hm : g0.modules = []) (rs : List Nat) :
    Safe (fun _ => True) (spawn o g0 rs) := by
  unfold spawn
  rw [if_neg (by have := ho.popSize; omega)]
  have h1 := safe_spawnLoop g0 hw hm o.popSize 0 0 rs
  split
  · next e he => rw [he] at h1; exact h1.of_error
  · next orgs rs1 he =>
    rw [he] at h1
    have hlen : orgs.length = o.popSize := h1
    split
    · next e hl =>
      exfalso
      unfold Genome.lastNodeId at hl
      split at hl
      · next hnone =>
        obtain ⟨n, hn, _⟩ := hw.wf.hasOutput
        rw [List.getLast?_eq_none_iff] at hnone
        rw [hnone] at hn; cases hn
      · cases hl
    · split
      · next e hl =>
        exfalso
        unfold Genome.nextGeneInnov at hl
        split at hl
        · next hnone =>
          rw [List.getLast?_eq_none_iff] at hnone
          exact hw.wf.hasGene hnone
        · cases hl
      · simp only
        have hne : orgs ≠ [] := by intro e; rw [e] at hlen; have := ho.popSize; simp at hlen; omega
        split
        · next e hs =>
          have h2 : ∀ p, SafeE (fun _ => True) (speciate o p orgs) := fun p => safe_speciate o p orgs hne ho.compat
          exact (hs ▸ h2 _ : SafeE (fun _ => True) (Except.error e : Except Stop (Pop W))).of_error
        · trivial

section Strong
variable (hff : FloatFacts W) (c : Ctl) (o : EpochOpts W) (g0 : Genome W) (eval : Nat → Nat → Pop W → EvalResult W)
  (ho : OptsOk o) (hw : WFT g0) (hm : g0.modules = []) (hev : ∀ t g q, EvalOk q (eval t g q).pop)
  (rs rs' : List Nat) (hv : Valid rs) (out : RealOut W) (h : executeReal c o g0 eval rs = .ok (out, rs'))
  (hq : ∀ tl ∈ out.log, ∀ gl ∈ tl.gens, QuotaOk o gl.after)
include hff ho hw hm hev hv h hq

theorem executeReal_strong :
    (∀ tl ∈ out.log, ∀ gl ∈ tl.gens, PopOk (shape g0) o gl.pop) ∧ out.result.err ≠ some .epochFailed ∧
    (out.result.err = some .spawnFailed → ∃ t, c.verifyOk t = false) := by
  unfold executeReal at h
  split at h
  · simp only [Except.ok.injEq, Prod.mk.injEq] at h
    obtain ⟨rfl, _⟩ := h
    exact ⟨by simp, by simp, by simp⟩
  · split at h
    · cases h
    · next r rs1 hr =>
      simp only [Except.ok.injEq, Prod.mk.injEq] at h
      obtain ⟨rfl, _⟩ := h
      obtain ⟨a1, a2, a3, _⟩ := trialLoopR_inv c o g0 eval
        (fun p rs => PopOk (shape g0) o p ∧ PoolOk p.reg ([g0] ++ genomesOfPop p) ∧ Valid rs) Valid (QuotaOk o) False
        (fun _ _ hi => hi.2.2)
        (fun t g p rs hi hQ => by
          obtain ⟨hp, hpool, hvr⟩ := hi
          have hyp : Hyp (shape g0) o (eval t g p).pop := ⟨ho, popOk_eval _ o p _ hp (hev t g p), hQ⟩
          refine ⟨fun ⟨msg, hm'⟩ => nextEpoch_no_error hff _ o _ hyp _ rs hvr msg hm', fun p' rs' he => ?_⟩
          exact ⟨nextEpoch_popOk hff _ o _ hyp _ rs rs' hvr p' he,
            nextEpoch_closed [g0] o _ _ p' rs rs' (pool_eval hpool (hev t g p)) he,
            valid_of_ok (nextEpoch_prefixDet o _ _) hvr he⟩)
        (fun rs hvr => ⟨fun ⟨msg, hm'⟩ => (safe_spawn o g0 ho hw hm rs).ne msg hm', fun p rs' he =>
          ⟨spawn_popOk o g0 rs rs' p hw hm he, spawn_poolOk o g0 rs rs' p hw hm he, valid_of_ok (spawn_prefixDet o g0) hvr he⟩⟩)
        c.runs 0 c.preCancelled rs r rs1 hv hr hq
      refine ⟨fun tl htl gl hgl => (a1 tl htl gl hgl).elim (fun _ x => x.1), fun e => a2 e, fun e => ?_⟩
      rcases a3 e with f | f
      · exact f.elim
      · exact f

/-- **C20 over the real population steps, (3) no spawn / epoch error.**  Under the hypotheses of
    `C02.nextEpoch_no_error` — the option facts `OptsOk`, the float facts, a stream of 63-bit values, the C09 quota
    facts at every population the evaluator returned in this run (what non-negative finite fitness values give in
    exact arithmetic; decidable on the log) — with a well-formed non-modular start genome, an evaluator that only
    assigns fitness values (`EvalOk`), and `Verify` succeeding: NO run ends with a spawn error or an epoch error, and
    every population handed to the evaluator satisfies the full hypothesis `PopOk` of the C02 no-error theorem. -/
theorem executeReal_no_epoch_error (hver : ∀ t, c.verifyOk t = true) :
    out.result.err ≠ some .epochFailed ∧ out.result.err ≠ some .spawnFailed ∧
    ∀ tl ∈ out.log, ∀ gl ∈ tl.gens, PopOk (shape g0) o gl.pop := by
  obtain ⟨a, b, d⟩ := executeReal_strong hff c o g0 eval ho hw hm hev rs rs' hv out h hq
  refine ⟨b, fun e => ?_, a⟩
  obtain ⟨t, ht⟩ := d e
  rw [hver t] at ht; cases ht

/-- **how a run can end**: with options present, a supported executor type and the hypotheses above, a run of
    `Execute` over the real population steps ends in exactly one of three ways — all `runs` trials completed and
    recorded (nil), the context's error (cancellation), or the evaluator's own error for the generation it failed in -/
theorem executeReal_ends (hver : ∀ t, c.verifyOk t = true) (hopt : c.hasOptions = true) (hex : c.execOk = true) :
    (out.result.err = none ∧ out.result.trials.length = c.runs) ∨ out.result.err = some .cancelled ∨
    ∃ t g, out.result.err = some (.evalFailed t g) ∧ (inducedScript c out.log).evalRes t g = .fail := by
  obtain ⟨n1, n2, _⟩ := executeReal_no_epoch_error hff c o g0 eval ho hw hm hev rs rs' hv out h hq hver
  cases he : out.result.err with
  | none =>
    have := (executeReal_complete c o g0 eval rs rs' out h he).1
    exact .inl ⟨rfl, by rw [this]; simp⟩
  | some e =>
    obtain ⟨k, _, _, tail, _, hab⟩ := executeReal_abort c o g0 eval rs rs' out h hopt e he
    rcases hab with ⟨rfl, _⟩ | ⟨_, hx, _⟩ | ⟨m, _, evs, hga, _⟩
    · exact absurd he n2
    · have : c.execOk = false := hx
      rw [hex] at this; cases this
    · rcases hga with ⟨rfl, _⟩ | ⟨rfl, hf, _⟩ | ⟨rfl, _⟩
      · exact .inr (.inl rfl)
      · exact .inr (.inr ⟨k, 0 + m, rfl, hf⟩)
      · exact absurd he n1

end Strong

/-! ### evaluators that assign fitness values satisfy `EvalOk` -/

theorem evalOk_fitnessEval (fit : Nat → Nat → Org W → W) (solved : Nat → Nat → Pop W → Bool) (t g : Nat) (q : Pop W) :
    EvalOk q (fitnessEval fit solved t g q).pop := by
  refine ⟨⟨rfl, rfl, rfl, ?_⟩, ?_, rfl⟩
  · simp only [fitnessEval, List.map_map]
    apply List.map_congr_left
    intro s _
    simp [C02.ukey, C02.skey, List.map_map, Function.comp_def]
  · intro x hx
    obtain ⟨s', hs', x', hx', rfl⟩ := C01.mem_genomesOfPop.mp hx
    obtain ⟨s, hs, rfl⟩ := List.mem_map.mp hs'
    obtain ⟨y, hy, rfl⟩ := List.mem_map.mp hx'
    exact C01.mem_genomesOfPop.mpr ⟨s, hs, y, hy, rfl⟩

/-! ### non-vacuity: a concrete run of 2 trials x 2 generations over the toy integer scalar satisfies every hypothesis

Three organisms spawned from the evolved genome `C01.ev1`; fitness by allocation id, trial and generation; trial 0
runs both generations unsolved (two turnovers), trial 1 is solved in its generation 0 (no turnover). -/
section NonVacuity
open GoNeat.ExactInt
attribute [local instance] intScalar

def exOpts : EpochOpts Int :=
  { popSize := 3, dropOffAge := 15, ageSignificance := 1, survivalThresh := 1, babiesStolen := 0, compatThreshold := 3,
    compat := ⟨1, 1, 1, false⟩, mutateOnlyProb := 100, mutateAddNodeProb := 100, mutateAddLinkProb := 0,
    mutateConnectSensors := 0, interspeciesMateRate := 0, mateMultipointProb := 0, mateMultipointAvgProb := 0,
    mateSinglepointProb := 0, mateOnlyProb := 0, mopts := C01.mo }

def exCtl : Ctl := { runs := 2, maxGen := 2, observer := true }

def exEval : Nat → Nat → Pop Int → EvalResult Int :=
  fitnessEval (fun t g x => 8 * (((x.uid % 3 : Nat) : Int) + 1) + t + g) (fun t g _ => t == 1 && g == 0)

def exStream : List Nat := List.replicate 300 2

def exRun : R (RealOut Int) := executeReal exCtl exOpts C01.ev1 exEval exStream

theorem floatFacts_int : FloatFacts Int :=
  ⟨fun x t _ _ h => by simpa [Scalar.le, Scalar.mul, Scalar.ofUnit63, Scalar.zero, intScalar] using h,
   fun x n _ hn _ => by simp [Scalar.floorInt, Scalar.mul, Scalar.div, Scalar.ofUnit63, Scalar.ofInt]; omega⟩

/-- the run returns: its events, its result, and the quota facts hold at every evaluated population (kernel evaluation) -/
theorem exRun_view :
    (match exRun with
     | .ok (out, _) =>
       decide (out.events = [.started 0, .eval 0 0 0 0, .epoch 0 0, .evaluated 0 0, .eval 0 1 0 1, .epoch 0 1, .evaluated 0 1,
                             .finished 0, .started 1, .eval 1 0 1 0, .evaluated 1 0, .finished 1]) &&
       decide (out.result = ⟨[⟨0, [⟨0, 0, false⟩, ⟨1, 0, false⟩]⟩, ⟨1, [⟨0, 1, true⟩]⟩], none⟩) &&
       decide (∀ tl ∈ out.log, ∀ gl ∈ tl.gens, QuotaOk exOpts gl.after) &&
       decide (out.log.map (fun (tl : TrialLog Int) => tl.gens.map (fun (gl : GenLog Int) => gl.pop.organisms)) = [[[0, 1, 2], [3, 4, 5]], [[0, 1, 2]]])
     | .error _ => false) = true := by decide +kernel

/-- every hypothesis of `executeReal_ends` / `executeReal_no_epoch_error` / `executeReal_evaluated_inv` holds of this
    run, and the conclusions are instantiated: it completes both trials without error, and each of the three
    populations handed to the evaluator satisfies `PopOk` and `EvalInv` -/
example : ∃ out rs', exRun = .ok (out, rs') ∧ out.result.err = none ∧ out.result.trials.length = 2 ∧
    (out.log.map (fun (tl : TrialLog Int) => tl.gens.length)) = [2, 1] ∧
    (∀ tl ∈ out.log, ∀ gl ∈ tl.gens, PopOk (shape C01.ev1) exOpts gl.pop ∧ EvalInv exOpts C01.ev1 gl.pop) := by
  have hview := exRun_view
  cases hrun : exRun with
  | error e => rw [hrun] at hview; cases hview
  | ok v =>
    obtain ⟨out, rs'⟩ := v
    rw [hrun] at hview
    simp only [Bool.and_eq_true, decide_eq_true_eq] at hview
    obtain ⟨⟨⟨_, hres⟩, hq⟩, hlog⟩ := hview
    have hw : WFT C01.ev1 := by decide
    have hev : ∀ t g q, EvalOk q (exEval t g q).pop := fun t g q => evalOk_fitnessEval _ _ t g q
    have hopts : OptsOk exOpts := by decide +kernel
    have hvs : Valid exStream := by
      intro x hx
      obtain ⟨_, rfl⟩ := List.mem_replicate.mp hx
      decide
    have hno := executeReal_no_epoch_error floatFacts_int exCtl exOpts C01.ev1 exEval hopts hw rfl hev exStream rs'
      hvs out hrun hq (fun _ => rfl)
    have hinv := executeReal_evaluated_inv exCtl exOpts C01.ev1 exEval hw rfl hev exStream rs' out hrun
    have _hends := executeReal_ends floatFacts_int exCtl exOpts C01.ev1 exEval hopts hw rfl hev exStream rs'
      hvs out hrun hq (fun _ => rfl) rfl rfl
    refine ⟨out, rs', rfl, by rw [hres], by rw [hres]; rfl, ?_, fun tl htl gl hgl => ⟨hno.2.2 tl htl gl hgl, (hinv tl htl gl hgl).1⟩⟩
    have := congrArg (List.map (fun l => l.length)) hlog
    simpa [List.map_map, Function.comp_def] using this

end NonVacuity

end GoNeat.C20
