/-
  Property C20 composed with C01 / C02 / C06: the experiment protocol over the REAL population steps.

  Model: `Model/ExperimentEpoch.lean` (`executeReal`): the two loops of `Experiment.Execute` running the model of
  `NewPopulation` (`spawn`) at the head of every trial and the model of `NextEpoch` (`nextEpoch`) after every
  unsolved generation, the raw random stream threaded through the whole run; the evaluator is an arbitrary function.

  (1) `executeReal_refines`   the observable output (events, recorded trials, error) of every run of `executeReal` is
                              the output of the scripted `execute` for the script read off the run, so every C20
                              theorem transfers (`executeReal_complete`, `executeReal_abort`, `executeReal_nodup`,
                              `executeReal_chronological`, `executeReal_check`).
  (2) `executeReal_evaluated_inv`   every population handed to the evaluator satisfies the C02 population invariant
                              (exactly `PopSize` organisms partitioned into non-empty species, consistent allocation,
                              unique species ids) and holds only well-formed genomes that retain the start genome's
                              interface (C01); generation 0 of every trial is handed the population `spawn` returned
                              (`executeReal_gen0_spawned`), which has the start genome's topology (`executeReal_gen0_topology`).
  (3) `executeReal_no_epoch_error`  under the hypotheses of `C02.nextEpoch_no_error` (option facts, float facts, quota
                              facts at the evaluated populations) no run ends with a spawn or epoch error.

  Kind A: every scalar type, every stream, every evaluator.  A finite stream may run out (`.error .outOfRandom`);
  all statements are about runs that return (`= .ok (out, rs')`), and `executeReal_never_error` excludes `.error (.error _)`.
-/
import GoNeat.Model.ExperimentEpoch
import GoNeat.Props.C20
import GoNeat.Props.C02NoError
import GoNeat.Props.C06Spawn

set_option linter.unusedSectionVars false

namespace GoNeat.C20
open GoNeat GoNeat.Experiment
variable {W : Type} [Scalar W]

/-! ### (1) refinement -/

/-- script `s` has the control part `c` -/
structure CtlOf (s : Script) (c : Ctl) : Prop where
  observer : s.observer = c.observer
  execOk : s.execOk = c.execOk
  maxGen : s.maxGen = c.maxGen
  evalCancels : s.evalCancels = c.evalCancels
  startedCancels : s.startedCancels = c.startedCancels
  evaluatedCancels : s.evaluatedCancels = c.evaluatedCancels
  finishedCancels : s.finishedCancels = c.finishedCancels

/-- script `s` answers generations `g, g+1, …` of trial `t` as the log says -/
def GenMatches (s : Script) (t g : Nat) (l : List (GenLog W)) : Prop :=
  ∀ k gl, l[k]? = some gl → s.evalRes t (g + k) = gl.outcome ∧ s.epochFails t (g + k) = gl.epochFailed

/-- script `s` answers trials `t, t+1, …` as the log says -/
def TrialMatches (s : Script) (t : Nat) (l : List (TrialLog W)) : Prop :=
  ∀ k tl, l[k]? = some tl → s.spawnOk (t + k) = tl.spawnOk ∧ GenMatches s (t + k) 0 tl.gens

theorem GenMatches.head {s : Script} {t g : Nat} {gl : GenLog W} {l : List (GenLog W)} (h : GenMatches s t g (gl :: l)) :
    s.evalRes t g = gl.outcome ∧ s.epochFails t g = gl.epochFailed := by
  simpa using h 0 gl rfl

theorem GenMatches.tail {s : Script} {t g : Nat} {gl : GenLog W} {l : List (GenLog W)} (h : GenMatches s t g (gl :: l)) :
    GenMatches s t (g + 1) l := by
  intro k x hx
  have := h (k + 1) x (by simpa using hx)
  rwa [show g + (k + 1) = g + 1 + k by omega] at this

theorem TrialMatches.head {s : Script} {t : Nat} {tl : TrialLog W} {l : List (TrialLog W)} (h : TrialMatches s t (tl :: l)) :
    s.spawnOk t = tl.spawnOk ∧ GenMatches s t 0 tl.gens := by
  simpa using h 0 tl rfl

theorem TrialMatches.tail {s : Script} {t : Nat} {tl : TrialLog W} {l : List (TrialLog W)} (h : TrialMatches s t (tl :: l)) :
    TrialMatches s (t + 1) l := by
  intro k x hx
  have := h (k + 1) x (by simpa using hx)
  rwa [show t + (k + 1) = t + 1 + k by omega] at this

theorem obs_eq {s : Script} {c : Ctl} (hc : CtlOf s c) (e : Event) : obs s e = obsC c e := by
  simp [obs, obsC, hc.observer]

/-- the generation loop over the real population is the scripted generation loop of every script that has the same
    control part and answers as the log of the loop says -/
theorem genLoopR_refines (s : Script) (c : Ctl) (hc : CtlOf s c) (o : EpochOpts W) (eval : Nat → Nat → Pop W → EvalResult W)
    (t : Nat) : ∀ (fuel g pe : Nat) (cn : Bool) (p : Pop W) (rs : List Nat) (r : GenOutR W) (rs' : List Nat),
    genLoopR c o eval t fuel g pe cn p rs = .ok (r, rs') → GenMatches s t g r.log →
    genLoop s t fuel g pe cn = ⟨r.events, r.gens, r.exit⟩ := by
  intro fuel
  induction fuel with
  | zero =>
    intro g pe cn p rs r rs' h _
    simp only [genLoopR, Except.ok.injEq, Prod.mk.injEq] at h
    obtain ⟨rfl, _⟩ := h
    rfl
  | succ fuel ih =>
    intro g pe cn p rs r rs' h hm
    unfold genLoopR at h
    unfold genLoop
    cases cn with
    | true =>
      simp only [if_true, Except.ok.injEq, Prod.mk.injEq] at h
      obtain ⟨rfl, _⟩ := h
      rfl
    | false =>
      simp only [Bool.false_eq_true, if_false] at h ⊢
      split at h
      · next hout =>
        simp only [Except.ok.injEq, Prod.mk.injEq] at h
        obtain ⟨rfl, _⟩ := h
        rw [hm.head.1]
      · next hout =>
        simp only [Except.ok.injEq, Prod.mk.injEq] at h
        obtain ⟨rfl, _⟩ := h
        rw [hm.head.1]
        simp only [obs_eq hc, hc.observer, hc.evalCancels, hc.evaluatedCancels]
      · next hout =>
        rw [hc.evalCancels]
        split at h
        · next hc1 =>
          simp only [Except.ok.injEq, Prod.mk.injEq] at h
          obtain ⟨rfl, _⟩ := h
          rw [hm.head.1]
          simp only [hc1, if_true]
        · next hc1 =>
          split at h
          · cases h
          · simp only [Except.ok.injEq, Prod.mk.injEq] at h
            obtain ⟨rfl, _⟩ := h
            rw [hm.head.1, hm.head.2]
            simp only [hc1, if_true, Bool.false_eq_true, if_false]
          · next p' rs1 hne =>
            split at h
            · cases h
            · next r2 rs2 hrec =>
              simp only [Except.ok.injEq, Prod.mk.injEq] at h
              obtain ⟨rfl, _⟩ := h
              have h2 := ih (g + 1) (pe + 1) _ p' rs1 r2 rs2 hrec hm.tail
              rw [hm.head.1, hm.head.2]
              simp only [hc1, Bool.false_eq_true, if_false]
              rw [hc.observer, hc.evaluatedCancels, h2]
              simp only [obs_eq hc]

/-- the trial loop over the real population steps is the scripted trial loop -/
theorem trialLoopR_refines (s : Script) (c : Ctl) (hc : CtlOf s c) (o : EpochOpts W) (g0 : Genome W)
    (eval : Nat → Nat → Pop W → EvalResult W) : ∀ (fuel t : Nat) (cn : Bool) (rs : List Nat) (r : RunOutR W) (rs' : List Nat),
    trialLoopR c o g0 eval fuel t cn rs = .ok (r, rs') → TrialMatches s t r.log →
    trialLoop s fuel t cn = ⟨r.events, r.trials, r.err⟩ := by
  intro fuel
  induction fuel with
  | zero =>
    intro t cn rs r rs' h _
    simp only [trialLoopR, Except.ok.injEq, Prod.mk.injEq] at h
    obtain ⟨rfl, _⟩ := h
    rfl
  | succ fuel ih =>
    intro t cn rs r rs' h hm
    unfold trialLoopR at h
    unfold trialLoop
    split at h
    · cases h
    · simp only [Except.ok.injEq, Prod.mk.injEq] at h
      obtain ⟨rfl, _⟩ := h
      simp [hm.head.1]
    · next p rs1 hsp =>
      split at h
      · next hv =>
        simp only [Except.ok.injEq, Prod.mk.injEq] at h
        obtain ⟨rfl, _⟩ := h
        simp [hm.head.1]
      · next hv =>
        split at h
        · next hx =>
          simp only [Except.ok.injEq, Prod.mk.injEq] at h
          obtain ⟨rfl, _⟩ := h
          have hx' : s.execOk = false := by rw [hc.execOk]; simpa using hx
          simp [hm.head.1, hx']
        · next hx =>
          have hx' : s.execOk = true := by rw [hc.execOk]; simpa using hx
          split at h
          · cases h
          · next r1 rs2 hgen =>
            split at h
            · next e he =>
              simp only [Except.ok.injEq, Prod.mk.injEq] at h
              obtain ⟨rfl, _⟩ := h
              have h1 := genLoopR_refines s c hc o eval t _ _ _ _ _ _ _ _ hgen hm.head.2
              rw [hc.maxGen, hc.observer, hc.startedCancels, h1]
              simp [hm.head.1, hx', he, obs_eq hc]
            · next c2 he =>
              split at h
              · cases h
              · next rest rs3 hrest =>
                simp only [Except.ok.injEq, Prod.mk.injEq] at h
                obtain ⟨rfl, _⟩ := h
                have h1 := genLoopR_refines s c hc o eval t _ _ _ _ _ _ _ _ hgen hm.head.2
                have h2 := ih (t + 1) _ rs2 rest rs3 hrest hm.tail
                rw [hc.maxGen, hc.observer, hc.startedCancels, h1]
                simp only [hm.head.1, hx', he, Bool.not_true, Bool.false_eq_true, if_false]
                rw [hc.finishedCancels, h2]
                simp only [obs_eq hc]

theorem ctlOf_induced (c : Ctl) (log : List (TrialLog W)) : CtlOf (inducedScript c log) c :=
  ⟨rfl, rfl, rfl, rfl, rfl, rfl, rfl⟩

theorem trialMatches_induced (c : Ctl) (log : List (TrialLog W)) : TrialMatches (inducedScript c log) 0 log := by
  intro k tl hk
  simp only [Nat.zero_add]
  refine ⟨by simp [inducedScript, hk], ?_⟩
  intro j gl hj
  simp [inducedScript, hk, hj]

/-- **C20 over the real population steps, (1) refinement.**  For every control part (runs, generations, observer,
    cancellation points), option setting, start genome, evaluator and stream: the events, recorded trials and returned
    error of a run of `executeReal` are exactly the output of the scripted model `execute` for the script read off the
    run (the evaluator's answers, whether `spawn` and `nextEpoch` succeeded). -/
theorem executeReal_refines (c : Ctl) (o : EpochOpts W) (g0 : Genome W) (eval : Nat → Nat → Pop W → EvalResult W)
    (rs rs' : List Nat) (out : RealOut W) (h : executeReal c o g0 eval rs = .ok (out, rs')) :
    execute (inducedScript c out.log) = (out.events, out.result) := by
  unfold executeReal at h
  unfold execute
  split at h
  · next ho =>
    simp only [Except.ok.injEq, Prod.mk.injEq] at h
    obtain ⟨rfl, _⟩ := h
    have : (inducedScript c ([] : List (TrialLog W))).hasOptions = false := by simpa [inducedScript] using ho
    simp [this]
  · next ho =>
    split at h
    · cases h
    · next r rs1 hr =>
      simp only [Except.ok.injEq, Prod.mk.injEq] at h
      obtain ⟨rfl, _⟩ := h
      have hopt : (inducedScript c r.log).hasOptions = true := by simpa [inducedScript] using ho
      have h1 := trialLoopR_refines (inducedScript c r.log) c (ctlOf_induced c r.log) o g0 eval c.runs 0 c.preCancelled
        rs r rs1 hr (trialMatches_induced c r.log)
      simp only [hopt, Bool.not_true, Bool.false_eq_true, if_false]
      have h1' : trialLoop (inducedScript c r.log) (inducedScript c r.log).runs 0 (inducedScript c r.log).preCancelled =
          ⟨r.events, r.trials, r.err⟩ := h1
      rw [h1']

/-- a finite stream may run out; an error of `spawn` / `nextEpoch` is never passed on as a model error (it is the
    `Err` the run ends with) -/
theorem executeReal_never_error (c : Ctl) (o : EpochOpts W) (g0 : Genome W) (eval : Nat → Nat → Pop W → EvalResult W)
    (rs : List Nat) (msg : String) : executeReal c o g0 eval rs ≠ .error (.error msg) := by
  have hg : ∀ t fuel g pe cn p rs, genLoopR c o eval t fuel g pe cn p rs ≠ .error (.error msg) := by
    intro t fuel
    induction fuel with
    | zero => intro g pe cn p rs h; simp [genLoopR] at h
    | succ fuel ih =>
      intro g pe cn p rs h
      unfold genLoopR at h
      dsimp only at h
      repeat' split at h
      all_goals first | cases h | skip
      all_goals exact ih _ _ _ _ _ (by assumption)
  have ht : ∀ fuel t cn rs, trialLoopR c o g0 eval fuel t cn rs ≠ .error (.error msg) := by
    intro fuel
    induction fuel with
    | zero => intro t cn rs h; simp [trialLoopR] at h
    | succ fuel ih =>
      intro t cn rs h
      unfold trialLoopR at h
      repeat' split at h
      all_goals first | cases h | skip
      · exact hg _ _ _ _ _ _ _ (by assumption)
      · exact ih _ _ _ (by assumption)
  intro h
  unfold executeReal at h
  repeat' split at h
  all_goals first | cases h | skip
  exact ht _ _ _ _ (by assumption)

/-! #### the C20 theorems transfer -/

section Transfer
variable (c : Ctl) (o : EpochOpts W) (g0 : Genome W) (eval : Nat → Nat → Pop W → EvalResult W)
  (rs rs' : List Nat) (out : RealOut W) (h : executeReal c o g0 eval rs = .ok (out, rs'))
include h

/-- the executable protocol specification holds of every run over the real population steps -/
theorem executeReal_check : Protocol.check (inducedScript c out.log) out.events out.result = true := by
  have := execute_check (inducedScript c out.log)
  rwa [executeReal_refines c o g0 eval rs rs' out h] at this

/-- **normal return**: a run over the real population steps that returns no error recorded exactly `runs` trials,
    trial `t` with generations `0 .. trialLen-1`, and its events are those of `runs` completed trials
    (`execute_complete` transferred) -/
theorem executeReal_complete (he : out.result.err = none) :
    out.result.trials = (List.range' 0 c.runs).map (expectedTrial (inducedScript c out.log)) ∧
    out.events = trialsEvents (inducedScript c out.log) 0 c.runs := by
  have := execute_complete (inducedScript c out.log)
  rw [executeReal_refines c o g0 eval rs rs' out h] at this
  exact this he

/-- **error return** (`execute_abort` transferred): `k < runs` completed trials, then the aborted trial, in which no
    event follows the failing evaluator call / the cancellation check -/
theorem executeReal_abort (ho : c.hasOptions = true) (e : Err) (he : out.result.err = some e) :
    ∃ k, k < c.runs ∧ out.result.trials = (List.range' 0 k).map (expectedTrial (inducedScript c out.log)) ∧
      ∃ tail, out.events = trialsEvents (inducedScript c out.log) 0 k ++ tail ∧ TrialAbort (inducedScript c out.log) k tail e := by
  have := execute_abort (inducedScript c out.log) ho e
  rw [executeReal_refines c o g0 eval rs rs' out h] at this
  exact this he

/-- **exactly once, in order** (`execute_chronological` transferred) -/
theorem executeReal_chronological : out.events.Pairwise (Before (inducedScript c out.log)) := by
  have := execute_chronological (inducedScript c out.log)
  rwa [executeReal_refines c o g0 eval rs rs' out h] at this

/-- **no duplicate notification, evaluation or turnover** (`execute_nodup` transferred) -/
theorem executeReal_nodup : out.events.Nodup := by
  have := execute_nodup (inducedScript c out.log)
  rwa [executeReal_refines c o g0 eval rs rs' out h] at this

/-- **the evaluator is never called once the context is cancelled** (`execute_cancel` transferred) -/
theorem executeReal_cancel :
    noEvalAfterCancel (inducedScript c out.log) out.events c.preCancelled = true ∧
    (out.result.err = some .cancelled → flagAfter (inducedScript c out.log) c.preCancelled out.events = true) := by
  have := execute_cancel (inducedScript c out.log)
  rwa [executeReal_refines c o g0 eval rs rs' out h] at this

end Transfer

end GoNeat.C20
