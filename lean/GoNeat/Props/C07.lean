/-
  Property C07 — compatibility distance equals the NEAT formula under both methods.

  Kind A (every scalar type): the *counting* logic of the linear walk — for genes sorted by innovation
  number the walk counts exactly E (excess), D (disjoint) and M (matching) as defined independently from the
  sets of innovation numbers (`Spec/Compat.lean`), and the counts are symmetric in the two genomes.
  Kind B (exact ordered-field arithmetic) statements live in `Props/C07Exact.lean`.
-/
import GoNeat.Spec.Compat
import GoNeat.Spec.WF
import GoNeat.Model.Legacy

namespace GoNeat.C07
open GoNeat Scalar
variable {W : Type} [Scalar W]

def inns (l : List (Gene W)) : List Int := l.map (·.inn)

/-- strictly ascending innovation numbers -/
def Asc (l : List Int) : Prop := l.Pairwise (· < ·)

theorem asc_tail {x : Int} {xs : List Int} (h : Asc (x :: xs)) : Asc xs := (List.pairwise_cons.mp h).2
theorem asc_head_lt {x : Int} {xs : List Int} (h : Asc (x :: xs)) : ∀ y ∈ xs, x < y := (List.pairwise_cons.mp h).1

/-! classification of an element against a list with a new smaller head -/

theorem class_cons_small (ys : List Int) (y x : Int) (h : y < x) :
    isMatch (y :: ys) x = isMatch ys x ∧ isExcess (y :: ys) x = isExcess ys x ∧ isDisjoint (y :: ys) x = isDisjoint ys x := by
  have hne : x ≠ y := by omega
  have hnlt : ¬ x < y := by omega
  refine ⟨?_, ?_, ?_⟩
  · simp [isMatch, hne]
  · simp [isExcess, hne, h]
  · simp [isDisjoint, hne, hnlt]

theorem countP_congr' {α} (l : List α) (p q : α → Bool) (h : ∀ a ∈ l, p a = q a) : l.countP p = l.countP q := by
  induction l with
  | nil => rfl
  | cons a l ih =>
    simp only [List.countP_cons, h a (by simp)]
    rw [ih (fun b hb => h b (by simp [hb]))]

/-- dropping a head `y` that is below every element of `xs` does not change how `xs` is classified -/
theorem counts_drop_small_head (xs ys : List Int) (y : Int) (h : ∀ x ∈ xs, y < x) :
    xs.countP (isMatch (y :: ys)) = xs.countP (isMatch ys) ∧
    xs.countP (isExcess (y :: ys)) = xs.countP (isExcess ys) ∧
    xs.countP (isDisjoint (y :: ys)) = xs.countP (isDisjoint ys) :=
  ⟨countP_congr' _ _ _ (fun x hx => (class_cons_small ys y x (h x hx)).1),
   countP_congr' _ _ _ (fun x hx => (class_cons_small ys y x (h x hx)).2.1),
   countP_congr' _ _ _ (fun x hx => (class_cons_small ys y x (h x hx)).2.2)⟩

theorem not_mem_of_lt_all (ys : List Int) (x : Int) (h : ∀ y ∈ ys, x < y) : x ∉ ys := by
  intro hx; have := h x hx; omega

/-- specification counts, unfolded one step for each shape of the two sorted lists -/
theorem spec_nil_nil : specCounts [] [] = {} := rfl

theorem spec_nil_cons (y : Int) (ys : List Int) (h : Asc (y :: ys)) :
    specCounts [] (y :: ys) = (specCounts [] ys).add { excess := 1 } := by
  simp [specCounts, Counts.add, isExcess, isDisjoint, isMatch, List.countP_cons]

theorem spec_cons_nil (x : Int) (xs : List Int) (h : Asc (x :: xs)) :
    specCounts (x :: xs) [] = (specCounts xs []).add { excess := 1 } := by
  simp [specCounts, Counts.add, isExcess, isDisjoint, isMatch, List.countP_cons]

theorem spec_match (x : Int) (xs ys : List Int) (hx : Asc (x :: xs)) (hy : Asc (x :: ys)) :
    specCounts (x :: xs) (x :: ys) = (specCounts xs ys).add { matching := 1 } := by
  obtain ⟨m1, e1, d1⟩ := counts_drop_small_head xs ys x (asc_head_lt hx)
  obtain ⟨_, e2, d2⟩ := counts_drop_small_head ys xs x (asc_head_lt hy)
  simp only [specCounts, Counts.add, List.countP_cons, m1, e1, d1, e2, d2]
  simp [isMatch, isExcess, isDisjoint]

/-- an element below every element of `l`, and not in it, is disjoint w.r.t. a non-empty `l` -/
theorem class_below (l : List Int) (z x : Int) (hz : z ∈ l) (h : ∀ y ∈ l, x < y) :
    isMatch l x = false ∧ isExcess l x = false ∧ isDisjoint l x = true := by
  have hnm : x ∉ l := not_mem_of_lt_all l x h
  refine ⟨by simp [isMatch, hnm], ?_, ?_⟩
  · simp only [isExcess, hnm, decide_false, Bool.not_false, Bool.true_and]
    rw [Bool.eq_false_iff]; intro hall
    have := (List.all_eq_true.mp hall) z hz
    have := h z hz
    simp at *; omega
  · simp only [isDisjoint, hnm, decide_false, Bool.not_false, Bool.true_and]
    exact List.any_eq_true.mpr ⟨z, hz, by simp [h z hz]⟩

theorem spec_lt (x y : Int) (xs ys : List Int) (hx : Asc (x :: xs)) (hy : Asc (y :: ys)) (hlt : x < y) :
    specCounts (x :: xs) (y :: ys) = (specCounts xs (y :: ys)).add { disjoint := 1 } := by
  have hall : ∀ z ∈ y :: ys, x < z := by
    intro z hz
    rcases List.mem_cons.mp hz with rfl | hz'
    · exact hlt
    · have := asc_head_lt hy z hz'; omega
  obtain ⟨_, e2, d2⟩ := counts_drop_small_head (y :: ys) xs x hall
  obtain ⟨hxm, hxe, hxd⟩ := class_below (y :: ys) y x (by simp) hall
  simp only [specCounts, Counts.add, e2, d2]
  rw [List.countP_cons (l := xs), List.countP_cons (l := xs), List.countP_cons (l := xs), hxm, hxe, hxd]
  simp
  omega

/-- symmetry of the specification counts -/
theorem spec_symm_ED (a b : List Int) :
    (specCounts a b).excess = (specCounts b a).excess ∧ (specCounts a b).disjoint = (specCounts b a).disjoint := by
  simp [specCounts, Nat.add_comm]

theorem spec_gt (x y : Int) (xs ys : List Int) (hx : Asc (x :: xs)) (hy : Asc (y :: ys)) (hgt : y < x) :
    specCounts (x :: xs) (y :: ys) = (specCounts (x :: xs) ys).add { disjoint := 1 } := by
  have hall : ∀ z ∈ x :: xs, y < z := by
    intro z hz
    rcases List.mem_cons.mp hz with rfl | hz'
    · exact hgt
    · have := asc_head_lt hx z hz'; omega
  obtain ⟨m1, e1, d1⟩ := counts_drop_small_head (x :: xs) ys y hall
  obtain ⟨_, hye, hyd⟩ := class_below (x :: xs) x y (by simp) hall
  simp only [specCounts, Counts.add, m1, e1, d1]
  rw [List.countP_cons (l := ys), List.countP_cons (l := ys), hye, hyd]
  simp
  omega

/-- **C07, counting (linear method).** For gene lists sorted by innovation number the linear walk counts exactly
    the excess, disjoint and matching genes of the NEAT formula — for lists of every length and shape
    (empty overlap, interleaved genes, long excess tails, prefixes). -/
theorem linear_counts (xs ys : List (Gene W)) (a : LinAcc W) (hx : Asc (inns xs)) (hy : Asc (inns ys)) :
    (linWalk xs ys a).cnt = a.cnt.add (specCounts (inns xs) (inns ys)) := by
  fun_induction linWalk xs ys a with
  | case1 a => simp [inns, specCounts, Counts.add]
  | case2 y ys a ih =>
    rw [ih hx (asc_tail hy)]
    simp only [inns, List.map_cons, List.map_nil] at hy ⊢
    rw [spec_nil_cons _ _ hy]
    simp [Counts.add]; omega
  | case3 x xs a ih =>
    rw [ih (asc_tail hx) hy]
    simp only [inns, List.map_cons, List.map_nil] at hx ⊢
    rw [spec_cons_nil _ _ hx]
    simp [Counts.add]; omega
  | case4 x xs y ys a heq ih =>
    rw [ih (asc_tail hx) (asc_tail hy)]
    simp only [inns, List.map_cons] at hx hy ⊢
    rw [← heq] at hy ⊢
    rw [spec_match _ _ _ hx hy]
    simp [Counts.add]; omega
  | case5 x xs y ys a hne hlt ih =>
    rw [ih (asc_tail hx) hy]
    simp only [inns, List.map_cons] at hx hy ⊢
    rw [spec_lt _ _ _ _ hx hy hlt]
    simp [Counts.add]; omega
  | case6 x xs y ys a hne hnlt ih =>
    rw [ih hx (asc_tail hy)]
    simp only [inns, List.map_cons] at hx hy ⊢
    rw [spec_gt _ _ _ _ hx hy (by omega)]
    simp [Counts.add]; omega

/-- the counts of the linear method for two genomes (ghost counters start at zero) -/
theorem compatLinear_counts (g og : Genome W) (hg : GenesSorted g.genes) (ho : GenesSorted og.genes) :
    (compatLinearAcc g og).cnt = specCounts (inns g.genes) (inns og.genes) := by
  have h1 : Asc (inns g.genes) := by
    unfold Asc inns; rw [List.pairwise_map]; exact hg
  have h2 : Asc (inns og.genes) := by
    unfold Asc inns; rw [List.pairwise_map]; exact ho
  unfold compatLinearAcc
  rw [linear_counts _ _ _ h1 h2]
  simp [LinAcc.init, Counts.add]

/-- matching is symmetric for duplicate-free lists -/
theorem spec_matching_symm (a b : List Int) (ha : Asc a) (hb : Asc b) :
    (specCounts a b).matching = (specCounts b a).matching := by
  induction a generalizing b with
  | nil =>
    simp only [specCounts, List.countP_nil]
    symm; rw [List.countP_eq_zero]; intro x _; simp [isMatch]
  | cons x xs ih =>
    have hxs := asc_tail ha
    have hnx : x ∉ xs := not_mem_of_lt_all xs x (asc_head_lt ha)
    simp only [specCounts, List.countP_cons] at ih ⊢
    have h1 : b.countP (isMatch (x :: xs)) = b.countP (isMatch xs) + (if x ∈ b then 1 else 0) := by
      clear ih
      induction b with
      | nil => simp
      | cons y ys ihb =>
        have hny : y ∉ ys := not_mem_of_lt_all ys y (asc_head_lt hb)
        simp only [List.countP_cons, ihb (asc_tail hb)]
        by_cases hyx : y = x
        · subst hyx
          simp [isMatch, hnx, hny]
        · have hxy : ¬ x = y := fun h => hyx h.symm
          simp [isMatch, hyx, hxy]
          omega
    rw [h1, ← ih b hxs hb]
    simp [isMatch]

/-- **C07, symmetry of the counts**: swapping the genomes leaves E, D and M unchanged -/
theorem linear_counts_symm (g og : Genome W) (hg : GenesSorted g.genes) (ho : GenesSorted og.genes) :
    (compatLinearAcc g og).cnt = (compatLinearAcc og g).cnt := by
  rw [compatLinear_counts g og hg ho, compatLinear_counts og g ho hg]
  have h1 : Asc (inns g.genes) := by unfold Asc inns; rw [List.pairwise_map]; exact hg
  have h2 : Asc (inns og.genes) := by unfold Asc inns; rw [List.pairwise_map]; exact ho
  have hs := spec_symm_ED (inns g.genes) (inns og.genes)
  have hm := spec_matching_symm _ _ h1 h2
  cases hA : specCounts (inns g.genes) (inns og.genes)
  cases hB : specCounts (inns og.genes) (inns g.genes)
  simp_all

/-- a genome against itself (or its exact duplicate): no excess, no disjoint gene, every gene matches -/
theorem linear_counts_self (g : Genome W) (hg : GenesSorted g.genes) :
    (compatLinearAcc g g).cnt = { excess := 0, disjoint := 0, matching := g.genes.length } := by
  rw [compatLinear_counts g g hg hg]
  have key : ∀ l : List Int, l.countP (isExcess l) = 0 ∧ l.countP (isDisjoint l) = 0 ∧ l.countP (isMatch l) = l.length := by
    intro l
    refine ⟨?_, ?_, ?_⟩
    · rw [List.countP_eq_zero]; intro x hx; simp [isExcess, hx]
    · rw [List.countP_eq_zero]; intro x hx; simp [isDisjoint, hx]
    · rw [List.countP_eq_length]; intro x hx; simp [isMatch, hx]
  obtain ⟨e, d, m⟩ := key (inns g.genes)
  simp only [specCounts, e, d, m]
  simp [inns]

/-! ### non-vacuity and the repaired defect -/

/-- genes [1,2,3] vs [1,2,5,6]: M = 2, D = 1 (gene 3), E = 2 (genes 5,6) -/
example : specCounts [1, 2, 3] [1, 2, 5, 6] = { excess := 2, disjoint := 1, matching := 2 } := by decide

example : Asc [1, 2, 3] ∧ Asc [1, 2, 5, 6] := by unfold Asc; decide

end GoNeat.C07

/-! ### the repaired defect (F2), machine-checked against the frozen legacy definition -/
namespace GoNeat.C07
open GoNeat

/-- pre-fix linear walk on genes [1,2,3] vs [1,2,5,6] stops after max(len)=4 steps and counts
    2 mismatching genes where the formula has 3 (D = 1, E = 2) -/
theorem C07_linear_counterexample₁ :
    (Legacy.linCounts [1, 2, 3] [1, 2, 5, 6]).excess + (Legacy.linCounts [1, 2, 3] [1, 2, 5, 6]).disjoint = 2 ∧
    (specCounts [1, 2, 3] [1, 2, 5, 6]).excess + (specCounts [1, 2, 3] [1, 2, 5, 6]).disjoint = 3 := by decide

/-- pre-fix: [1,3] vs [2,4] has no matching gene, so the unguarded `mutDiffTotal / numMatching` was 0/0 -/
theorem C07_linear_counterexample₂ : (Legacy.linCounts [1, 3] [2, 4]).matching = 0 := by decide

end GoNeat.C07
