/-
  Property C19 (Kind A part): statements about the statistics model that hold for EVERY scalar type `W` with
  `[Scalar W]` - no arithmetic law is used: results for the empty series, StdDev/Variance/MeanVariance consistency,
  the quantile never fails with "unsorted" when the sorting routine returns a sorted list and returns an element of
  the series, it depends on the series only through its sorted copy; the experiment/trial aggregates (written as the
  loops of the Go code) equal the direct recomputation from the recorded generations (`Spec/Stats.lean`).
  The arithmetic content (mean, variance, minimum, quantile rank, permutation invariance) is in `Props/C19Exact.lean`.
-/
import GoNeat.Spec.Stats
import GoNeat.Model.LegacyStats
import GoNeat.Proofs.ScalarInt

namespace GoNeat.C19
open GoNeat GoNeat.Stats Scalar

variable {W : Type} [Scalar W]

/-! ### empty series: NaN (`none`), 0 for the sum; never an error -/

/-- **C19 (empty series).** Every statistic of the empty series is NaN (`none`), the sum is 0, and no quantile fails. -/
theorem empty_series [HasSqrt W] :
    fMin ([] : List W) = none ∧ fMax ([] : List W) = none ∧ fSum ([] : List W) = zero ∧ fMean ([] : List W) = none ∧
    fMeanVariance ([] : List W) = none ∧ fVariance ([] : List W) = none ∧ fStdDev ([] : List W) = none ∧
    fMedian ([] : List W) = .ok none ∧ fQ25 ([] : List W) = .ok none ∧ fQ75 ([] : List W) = .ok none := by
  refine ⟨rfl, rfl, rfl, rfl, rfl, rfl, rfl, rfl, rfl, rfl⟩

/-- **C19 (non-empty series are never NaN by construction).** Min, Max, Mean, MeanVariance, Variance, StdDev of a
    non-empty series are values (`some`). -/
theorem nonempty_defined [HasSqrt W] (x : W) (xs : List W) :
    (fMin (x :: xs)).isSome ∧ (fMax (x :: xs)).isSome ∧ (fMean (x :: xs)).isSome ∧ (fMeanVariance (x :: xs)).isSome ∧
    (fVariance (x :: xs)).isSome ∧ (fStdDev (x :: xs)).isSome := by
  refine ⟨rfl, rfl, rfl, rfl, rfl, rfl⟩

/-- **C19 (consistency).** StdDev is the square root of Variance; MeanVariance returns Mean and Variance. -/
theorem stddev_variance_mean [HasSqrt W] (xs : List W) :
    fStdDev xs = (fVariance xs).map HasSqrt.sqrt ∧ (fMeanVariance xs).map (·.1) = fMean xs ∧
    (fMeanVariance xs).map (·.2) = fVariance xs := by
  refine ⟨rfl, ?_, rfl⟩
  cases xs <;> rfl

/-! ### quantiles -/

theorem empiricalLoop_mem (fidx : W) (ys : List W) (c v : W) (h : empiricalLoop fidx ys c = some v) : v ∈ ys := by
  induction ys generalizing c with
  | nil => simp [empiricalLoop] at h
  | cons y ys ih =>
    unfold empiricalLoop at h
    simp only at h
    split at h
    · simp only [Option.some.injEq] at h; simp [h]
    · exact List.mem_cons_of_mem _ (ih _ h)

/-- **C19 (quantiles never hit gonum's "unsorted" panic, and return an element of the series).** For every sorting
    routine whose output passes `sort.Float64sAreSorted` and only contains elements of its input: the quantile of a
    series (in ANY order) is not the `unsorted` error, and a returned value is an element of the series. -/
theorem quantile_no_unsorted_panic (sort : List W → List W) (p : W) (xs : List W)
    (hs : isSorted (sort xs) = true) (hsub : ∀ v ∈ sort xs, v ∈ xs) :
    fQuantileWith sort p xs ≠ .error .unsorted ∧
    ∀ v, fQuantileWith sort p xs = .ok (some v) → v ∈ xs := by
  cases xs with
  | nil => simp [fQuantileWith]
  | cons x xs =>
    simp only [fQuantileWith, gonumQuantile, hs, Bool.not_true, Bool.false_eq_true, ↓reduceIte]
    cases hl : empiricalLoop (mul p (ofInt (sort (x :: xs)).length)) (sort (x :: xs)) zero with
    | none => simp [Except.map]
    | some v =>
      refine ⟨by simp [Except.map], ?_⟩
      intro v' hv'
      simp only [Except.map, Except.ok.injEq, Option.some.injEq] at hv'
      subst hv'
      exact hsub _ (empiricalLoop_mem _ _ _ _ hl)

/-- **C19 (order enters only through the sorted copy).** Two series with the same sorted copy have the same
    quantiles (with `C19Exact.sortAsc_perm_eq`: any two orders of the same values). -/
theorem quantile_depends_on_sorted (sort : List W → List W) (p : W) (xs ys : List W)
    (h : sort xs = sort ys) (hne : xs = [] ↔ ys = []) : fQuantileWith sort p xs = fQuantileWith sort p ys := by
  cases xs with
  | nil => have := hne.mp rfl; subst this; rfl
  | cons x xs =>
    cases ys with
    | nil => have := hne.mpr rfl; simp at this
    | cons y ys => simp only [fQuantileWith, h]

/-! ### the repaired defect (227b966): counterexample against the frozen pre-fix definition -/

section
open GoNeat.ExactInt

/-- pre-fix `Floats.Median/Q25/Q75` on the series 3, 1, 2 (any `p`): gonum's `panic("x data are not sorted")`;
    the repaired accessor sorts a copy and returns an element -/
theorem C19_quantile_unsorted_counterexample (p : Int) :
    Legacy.fQuantile p [3, 1, 2] = .error .unsorted ∧
    fQuantileWith sortAsc p [3, 1, 2] ≠ .error .unsorted ∧ sortAsc ([3, 1, 2] : List Int) = [1, 2, 3] := by
  refine ⟨rfl, ?_, by decide⟩
  exact (quantile_no_unsorted_panic sortAsc p [3, 1, 2] (by decide) (by decide)).1

/-- non-vacuity (integer instance): statistics of 3, 1, 2, 6 -/
example : fMin ([3, 1, 2, 6] : List Int) = some 1 ∧ fMax ([3, 1, 2, 6] : List Int) = some 6 ∧ fSum ([3, 1, 2, 6] : List Int) = 12 ∧
    fMean ([3, 1, 2, 6] : List Int) = some 3 ∧ fQuantileWith sortAsc 1 ([3, 1, 2, 6] : List Int) = .ok (some 6) :=
  ⟨rfl, rfl, rfl, rfl, rfl⟩
end

/-! ### aggregates = direct recomputation from the recorded generations -/

theorem foldl_count (p : Trial W → Bool) (ts : List (Trial W)) (c : Nat) :
    ts.foldl (fun c t => if p t then c + 1 else c) c = c + (ts.filter p).length := by
  induction ts generalizing c with
  | nil => simp
  | cons t ts ih =>
    simp only [List.foldl_cons, ih, List.filter_cons]
    split <;> simp <;> omega

/-- **C19 (solved count).** `TrialsSolved` = number of trials with a solved generation. -/
theorem trialsSolved_eq (e : Experiment W) : trialsSolved e = specTrialsSolved e := by
  simp [trialsSolved, specTrialsSolved, foldl_count]

/-- **C19 (success rate).** `SuccessRate` = solved trials / trials (0 without trials). -/
theorem successRate_eq (e : Experiment W) : successRate e = specSuccessRate e := by
  unfold successRate specSuccessRate
  rw [trialsSolved_eq]
  cases h : e.trials with
  | nil => simp
  | cons t ts => simp

theorem winnerLoop_eq (gs : List (Gen W)) :
    winnerLoop gs = match gs.find? (·.solved) with
      | some e => (e.winnerNodes, e.winnerGenes, e.winnerEvals, e.diversity)
      | none => (0, 0, 0, 0) := by
  induction gs with
  | nil => rfl
  | cons g gs ih =>
    unfold winnerLoop
    by_cases h : g.solved = true
    · simp [h]
    · simp only [h, Bool.false_eq_true, ↓reduceIte, List.find?_cons]
      simpa using ih

/-- **C19 (winner statistics of a trial).** Those of the first solved generation; zeros when no generation is solved;
    -1 for a trial without generations. -/
theorem winnerStatistics_eq (t : Trial W) : winnerStatistics t = specWinner t := by
  unfold winnerStatistics specWinner
  cases h : t.gens with
  | nil => simp
  | cons g gs =>
    simp only [winnerLoop_eq]
    cases List.find? (·.solved) (g :: gs) <;> simp

theorem winnerTotals_fold (ts : List (Trial W)) (acc : Int × Int × Int × Int × Nat) :
    ts.foldl (fun acc t =>
      if trialSolved t then
        let w := winnerStatistics t
        (acc.1 + w.1, acc.2.1 + w.2.1, acc.2.2.1 + w.2.2.1, acc.2.2.2.1 + w.2.2.2, acc.2.2.2.2 + 1)
      else acc) acc =
    (acc.1 + (((ts.filter trialSolved).map specWinner).map (·.1)).sum,
     acc.2.1 + (((ts.filter trialSolved).map specWinner).map (·.2.1)).sum,
     acc.2.2.1 + (((ts.filter trialSolved).map specWinner).map (·.2.2.1)).sum,
     acc.2.2.2.1 + (((ts.filter trialSolved).map specWinner).map (·.2.2.2)).sum,
     acc.2.2.2.2 + ((ts.filter trialSolved).map specWinner).length) := by
  induction ts generalizing acc with
  | nil => simp
  | cons t ts ih =>
    simp only [List.foldl_cons]
    rw [ih]
    by_cases h : trialSolved t = true
    · simp only [h, ↓reduceIte, List.filter_cons, List.map_cons, List.sum_cons, List.length_cons, winnerStatistics_eq]
      ext <;> simp <;> omega
    · simp [h]

/-- **C19 (average winner statistics).** Averages of nodes, genes, evaluations and diversity of the winner generation
    over the solved trials; -1 when no trial is solved. -/
theorem avgWinnerStatistics_eq (e : Experiment W) : avgWinnerStatistics e = specAvgWinner e := by
  unfold avgWinnerStatistics specAvgWinner winnerTotals
  rw [winnerTotals_fold]
  simp

/-- the per-trial series are maps over the recorded generations (definitional): champion fitness (0 without
    champion), champion species age, champion complexity, number of species; epochs per trial = number of recorded
    generations; average diversity = mean of the trial's diversity series -/
theorem per_trial_series (e : Experiment W) (t : Trial W) :
    (championsFitness t).length = t.gens.length ∧ (diversity t) = t.gens.map (fun g => ofInt g.diversity) ∧
    epochsPerTrial e = e.trials.map (fun t => ofInt t.gens.length) ∧
    avgDiversity e = e.trials.map (fun t => fMean (diversity t)) := by
  refine ⟨by simp [championsFitness], rfl, rfl, rfl⟩

/-! ### best organism of a trial -/

/-- order facts about `<` used by the best-champion scan -/
structure LtOrder (W : Type) [Scalar W] : Prop where
  irrefl : ∀ a : W, lt a a = false
  trans : ∀ a b c : W, lt a b = true → lt b c = true → lt a c = true

theorem bestLoop_spec (ho : LtOrder W) (cs : List (Champ W)) (cur : Champ W) :
    (bestLoop cur cs = cur ∨ bestLoop cur cs ∈ cs) ∧
    (∀ x : Champ W, lt cur.fitness x.fitness = false → lt (bestLoop cur cs).fitness x.fitness = false) ∧
    lt (bestLoop cur cs).fitness cur.fitness = false ∧
    ∀ c' ∈ cs, lt (bestLoop cur cs).fitness c'.fitness = false := by
  induction cs generalizing cur with
  | nil => simp [bestLoop, ho.irrefl]
  | cons c cs ih =>
    have hunf : bestLoop cur (c :: cs) = bestLoop (if lt cur.fitness c.fitness then c else cur) cs := by
      simp [bestLoop]
    rw [hunf]
    by_cases h : lt cur.fitness c.fitness = true
    · simp only [h, ↓reduceIte]
      obtain ⟨i1, i2, i3, i4⟩ := ih c
      -- everything not above cur is not above c
      have up : ∀ x : Champ W, lt cur.fitness x.fitness = false → lt c.fitness x.fitness = false := by
        intro x hx
        cases hcx : lt c.fitness x.fitness with
        | false => rfl
        | true => have := ho.trans _ _ _ h hcx; simp [this] at hx
      refine ⟨?_, ?_, ?_, ?_⟩
      · rcases i1 with i1 | i1
        · right; rw [i1]; simp
        · right; exact List.mem_cons_of_mem _ i1
      · intro x hx; exact i2 x (up x hx)
      · exact i2 cur (up cur (ho.irrefl _))
      · intro c' hc'
        rcases List.mem_cons.mp hc' with rfl | hm
        · exact i3
        · exact i4 c' hm
    · have h' : lt cur.fitness c.fitness = false := by simpa using h
      simp only [h', Bool.false_eq_true, ↓reduceIte]
      obtain ⟨i1, i2, i3, i4⟩ := ih cur
      refine ⟨?_, i2, i3, ?_⟩
      · rcases i1 with i1 | i1
        · left; exact i1
        · right; exact List.mem_cons_of_mem _ i1
      · intro c' hc'
        rcases List.mem_cons.mp hc' with rfl | hm
        · exact i2 c' h'
        · exact i4 c' hm

/-- **C19 (best organism of a trial).** For every scalar type on which `<` is irreflexive and transitive:
    `Trial.BestOrganism(false)` returns one of the trial's champions and no champion of the trial is fitter;
    it returns nothing exactly when the trial has no champion.  (Hence `BestFitness` is the maximal champion
    fitness; `BestSpeciesAge` / `BestComplexity` are those of a fittest champion.) -/
theorem bestOrganism_spec (ho : LtOrder W) (t : Trial W) :
    match bestOrganism false t with
    | none => champions t = []
    | some c => c ∈ champions t ∧ ∀ c' ∈ champions t, lt c.fitness c'.fitness = false := by
  have hc : t.gens.filterMap (fun e => if !false || e.solved then e.champion else none) = champions t := by
    simp [champions]
  unfold bestOrganism
  rw [hc]
  cases h : champions t with
  | nil => simp
  | cons c cs =>
    obtain ⟨i1, _, i3, i4⟩ := bestLoop_spec ho cs c
    refine ⟨?_, ?_⟩
    · rcases i1 with i1 | i1
      · rw [i1]; simp
      · exact List.mem_cons_of_mem _ i1
    · intro c' hc'
      rcases List.mem_cons.mp hc' with rfl | hm
      · exact i3
      · exact i4 c' hm

section
open GoNeat.ExactInt
/-- non-vacuity: the integers satisfy `LtOrder` -/
example : LtOrder Int := ⟨fun a => by simp [Scalar.lt], fun a b c h1 h2 => by simp [Scalar.lt] at *; omega⟩
end

end GoNeat.C19
