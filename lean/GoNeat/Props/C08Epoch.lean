/-
  Property C08, END TO END over the whole epoch `nextEpoch` = prepare ; reproduce ; speciate the babies ; finalise,
  and over `spawn`.

  Ghost information: the placement log of Model/SpeciateLog.lean (`speciateLoopLog`: per arriving organism the population
  it arrived at and the organism), proved to compute exactly `speciateLoop` (`speciateLoopLog_result`).

  Kind A (every scalar type, stream, registry, option setting; no order law):
    `speciateLoopLog_structure`   what one `speciate` call leaves, position by position: every species is an old species
                                  with the arrivals that joined it appended, or a species founded by an arrival with the
                                  arrivals that joined it behind the founder; each joiner was within the threshold of the
                                  species' first organism — which is still the first organism afterwards;
    `nextEpoch_speciates_babies`  the stages of `nextEpoch` with the babies (in order of creation) and the intermediate
                                  population as explicit witnesses: exactly one `speciate` call, then the purge;
    `nextEpoch_placed`            every organism of the new generation is the founder of a species founded during this
                                  turnover (fresh id above the old `LastSpecies`, still its first organism) or joined a
                                  species whose representative at that moment — an old-generation organism (first organism
                                  of the prepared species, removed only afterwards) or the founder baby — was within the
                                  threshold;
    `spawn_placed`                the same for `spawn`, starting from an empty species list.
  Kind A over a strict weak order (`StrictWeak`, as the per-call theorems of Props/C08.lean):
    `placeTarget_nearest`, `nextEpoch_nearest`   each placement follows the nearest-compatible rule of `bestCompatible_spec`
                                  at the species list of that moment.
-/
import GoNeat.Model.SpeciateLog
import GoNeat.Spec.Placed
import GoNeat.Props.C08Batch
import GoNeat.Props.C02Epoch
import GoNeat.Proofs.ChampionChain

namespace GoNeat.C08
open GoNeat Scalar
variable {W : Type} [Scalar W]

/-! ### the placement log computes `speciateLoop` -/

/-- **the log variant has the same result (and the same errors) as `speciateLoop`** -/
theorem speciateLoopLog_result (o : EpochOpts W) (p : Pop W) (orgs : List (Org W)) :
    (match speciateLoopLog o p orgs with
     | .ok (q, _) => Except.ok q
     | .error e => .error e) = speciateLoop o p orgs := by
  induction orgs generalizing p with
  | nil => rfl
  | cons org rest ih =>
    unfold speciateLoopLog speciateLoop
    cases speciateOne o p org with
    | error e => rfl
    | ok p1 =>
      simp only
      rw [← ih p1]
      cases speciateLoopLog o p1 rest with
      | error e => rfl
      | ok r => rfl

theorem speciateLoop_of_log (o : EpochOpts W) (p p' : Pop W) (orgs : List (Org W)) (log : List (Pop W × Org W))
    (h : speciateLoopLog o p orgs = .ok (p', log)) : speciateLoop o p orgs = .ok p' := by
  rw [← speciateLoopLog_result, h]

theorem log_of_speciateLoop (o : EpochOpts W) (p p' : Pop W) (orgs : List (Org W))
    (h : speciateLoop o p orgs = .ok p') : ∃ log, speciateLoopLog o p orgs = .ok (p', log) := by
  rw [← speciateLoopLog_result] at h
  cases hl : speciateLoopLog o p orgs with
  | error e => rw [hl] at h; cases h
  | ok r =>
    obtain ⟨q, log⟩ := r
    rw [hl] at h
    simp only [Except.ok.injEq] at h
    exact ⟨log, by rw [h]⟩

/-- the log lists the arrivals in order -/
theorem speciateLoopLog_orgs (o : EpochOpts W) (p p' : Pop W) (orgs : List (Org W)) (log : List (Pop W × Org W))
    (h : speciateLoopLog o p orgs = .ok (p', log)) : log.map (·.2) = orgs := by
  induction orgs generalizing p log with
  | nil => simp only [speciateLoopLog, Except.ok.injEq, Prod.mk.injEq] at h; rw [← h.2]; rfl
  | cons org rest ih =>
    unfold speciateLoopLog at h
    split at h
    · cases h
    · rename_i p1 h1
      split at h
      · cases h
      · rename_i q log' hrest
        simp only [Except.ok.injEq, Prod.mk.injEq] at h
        obtain ⟨rfl, rfl⟩ := h
        rw [List.map_cons, ih p1 log' hrest]

/-- the log is a chain of `speciateOne` steps from `p` to the result -/
def LogChain (o : EpochOpts W) : Pop W → List (Pop W × Org W) → Pop W → Prop
  | p, [], p' => p' = p
  | p, (q, b) :: rest, p' => q = p ∧ ∃ p1, speciateOne o p b = .ok p1 ∧ LogChain o p1 rest p'

theorem speciateLoopLog_chain (o : EpochOpts W) (p p' : Pop W) (orgs : List (Org W)) (log : List (Pop W × Org W))
    (h : speciateLoopLog o p orgs = .ok (p', log)) : LogChain o p log p' := by
  induction orgs generalizing p log with
  | nil => simp only [speciateLoopLog, Except.ok.injEq, Prod.mk.injEq] at h; rw [← h.2, ← h.1]; rfl
  | cons org rest ih =>
    unfold speciateLoopLog at h
    split at h
    · cases h
    · rename_i p1 h1
      split at h
      · cases h
      · rename_i q log' hrest
        simp only [Except.ok.injEq, Prod.mk.injEq] at h
        obtain ⟨rfl, rfl⟩ := h
        exact ⟨rfl, p1, h1, ih p1 log' hrest⟩

/-! ### what `placeTarget` says about one step -/

theorem placeTarget_of_join (o : EpochOpts W) (p : Pop W) (org : Org W) (i : Nat) (he : p.species.isEmpty = false)
    (hb : bestCompatible o org.genome p.species 0 none maxVal = some i) : placeTarget o p org = some i := by
  unfold placeTarget; rw [he]; exact hb

theorem placeTarget_of_found (o : EpochOpts W) (p : Pop W) (org : Org W)
    (h : p.species.isEmpty = true ∨ bestCompatible o org.genome p.species 0 none maxVal = none) : placeTarget o p org = none := by
  unfold placeTarget
  rcases h with h | h
  · rw [h]; rfl
  · split
    · rfl
    · exact h

/-! ### the structure one `speciate` call leaves, position by position -/

/-- organism `y` arrived (log entry `(q, y)`) when the species now at position `j` was at position `j` of `q` with the
    first organism `rep` that `s'` still has, `rep` was within the threshold, and the search chose position `j` -/
def JoinedAt (o : EpochOpts W) (log : List (Pop W × Org W)) (j : Nat) (s' : Species W) (y : Org W) : Prop :=
  ∃ q, (q, y) ∈ log ∧ placeTarget o q y = some j ∧ ∃ sq rep, q.species[j]? = some sq ∧ sq.id = s'.id ∧
    sq.orgs.head? = some rep ∧ s'.orgs.head? = some rep ∧
    lt (compatibility o.compat y.genome rep.genome) o.compatThreshold = true

/-- organism `f` arrived (log entry `(q, f)`) when no species was chosen, and founded `s'` with the fresh id
    `q.lastSpecies + 1`, above `base` -/
def FoundedAt (o : EpochOpts W) (log : List (Pop W × Org W)) (base : Int) (s' : Species W) (f : Org W) : Prop :=
  ∃ q, (q, f) ∈ log ∧ placeTarget o q f = none ∧ s'.id = q.lastSpecies + 1 ∧ base ≤ q.lastSpecies

theorem JoinedAt.mono {o : EpochOpts W} {log : List (Pop W × Org W)} {j : Nat} {s' : Species W} {y : Org W}
    (e : Pop W × Org W) (h : JoinedAt o log j s' y) : JoinedAt o (e :: log) j s' y := by
  obtain ⟨q, hq, r⟩ := h
  exact ⟨q, List.mem_cons_of_mem _ hq, r⟩

theorem head?_append_of_head? {α} {l : List α} {a : α} (t : List α) (h : l.head? = some a) : (l ++ t).head? = some a := by
  cases l with
  | nil => cases h
  | cons b l' => simpa using h

/-- **structure of one `speciate` call.**  If speciating the batch `orgs` into `p` returns `p'` with placement log `log`,
    then the species at every position `j` of `p'` is
    * the species at position `j` of `p` (same id) with the arrivals that joined it appended, or
    * a species beyond the old list, founded by an arrival `f` with a fresh id above `p.lastSpecies`; `f` is its first
      organism and the arrivals that joined it follow;
    and every joiner was, at its arrival, within the threshold of the organism that was then — and still is — the first
    organism of that species. -/
theorem speciateLoopLog_structure (o : EpochOpts W) (p p' : Pop W) (orgs : List (Org W)) (log : List (Pop W × Org W))
    (h : speciateLoopLog o p orgs = .ok (p', log)) :
    ∀ j s', p'.species[j]? = some s' →
      (∃ s t, p.species[j]? = some s ∧ s'.id = s.id ∧ s'.orgs = s.orgs ++ t ∧ ∀ y ∈ t, JoinedAt o log j s' y) ∨
      (p.species.length ≤ j ∧ ∃ f t, s'.orgs = f :: t ∧ FoundedAt o log p.lastSpecies s' f ∧ ∀ y ∈ t, JoinedAt o log j s' y) := by
  induction orgs generalizing p log with
  | nil =>
    simp only [speciateLoopLog, Except.ok.injEq, Prod.mk.injEq] at h
    obtain ⟨rfl, rfl⟩ := h
    intro j s' hj
    exact Or.inl ⟨s', [], hj, rfl, by simp, by intro y hy; cases hy⟩
  | cons org rest ih =>
    unfold speciateLoopLog at h
    split at h
    · cases h
    · rename_i p1 h1
      split at h
      · cases h
      · rename_i q log' hrest
        simp only [Except.ok.injEq, Prod.mk.injEq] at h
        obtain ⟨rfl, rfl⟩ := h
        intro j s' hj
        have hih := ih p1 log' hrest j s' hj
        rcases speciateOne_spec o p p1 org h1 with ⟨i, ⟨he, hb⟩, hsp, hlast⟩ | ⟨hnone, hlast, sn, hsp, hid, horgs, _, _⟩
        · -- the arrival joined the species at position `i`
          have htar := placeTarget_of_join o p org i he hb
          rcases hih with ⟨s1, t1, hs1, hid1, ho1, hj1⟩ | ⟨hlen, f, t, ho, hf, hjn⟩
          · rw [hsp] at hs1
            by_cases hij : i = j
            · subst hij
              rw [List.getElem?_modify_eq] at hs1
              cases hpj : p.species[i]? with
              | none => rw [hpj] at hs1; cases hs1
              | some s =>
                rw [hpj] at hs1
                simp only [Option.map_eq_map, Option.map_some, Option.some.injEq] at hs1
                subst hs1
                rcases bestCompatible_within o org.genome p.species 0 none maxVal i hb with h0 | ⟨_, s0, rep, hs0, hrep, hlt⟩
                · cases h0
                · simp only [Nat.sub_zero] at hs0
                  rw [hpj] at hs0
                  cases hs0
                  refine Or.inl ⟨s, org :: t1, rfl, hid1, by rw [ho1]; simp, ?_⟩
                  intro y hy
                  rcases List.mem_cons.mp hy with rfl | hy'
                  · refine ⟨p, List.mem_cons_self, htar, s, rep, hpj, hid1.symm, hrep, ?_, hlt⟩
                    rw [ho1]
                    exact head?_append_of_head? _ (head?_append_of_head? _ hrep)
                  · exact (hj1 y hy').mono _
            · rw [List.getElem?_modify_ne _ _ hij] at hs1
              exact Or.inl ⟨s1, t1, hs1, hid1, ho1, fun y hy => (hj1 y hy).mono _⟩
          · refine Or.inr ⟨by rw [hsp, List.length_modify] at hlen; exact hlen, f, t, ho, ?_, fun y hy => (hjn y hy).mono _⟩
            obtain ⟨q0, hq0, a, b, c⟩ := hf
            exact ⟨q0, List.mem_cons_of_mem _ hq0, a, b, by rw [← hlast]; exact c⟩
        · -- the arrival founded a species
          have htar := placeTarget_of_found o p org hnone
          rcases hih with ⟨s1, t1, hs1, hid1, ho1, hj1⟩ | ⟨hlen, f, t, ho, hf, hjn⟩
          · rw [hsp] at hs1
            by_cases hjl : j < p.species.length
            · rw [List.getElem?_append_left hjl] at hs1
              exact Or.inl ⟨s1, t1, hs1, hid1, ho1, fun y hy => (hj1 y hy).mono _⟩
            · rw [List.getElem?_append_right (by omega)] at hs1
              obtain ⟨_, rfl⟩ := singleton_getElem?_some _ _ _ hs1
              refine Or.inr ⟨by omega, org, t1, by rw [ho1, horgs]; rfl, ?_, fun y hy => (hj1 y hy).mono _⟩
              exact ⟨p, List.mem_cons_self, htar, by rw [hid1, hid], Int.le_refl _⟩
          · refine Or.inr ⟨by rw [hsp] at hlen; simp at hlen; omega, f, t, ho, ?_, fun y hy => (hjn y hy).mono _⟩
            obtain ⟨q0, hq0, a, b, c⟩ := hf
            exact ⟨q0, List.mem_cons_of_mem _ hq0, a, b, by omega⟩

/-! ### the nearest-compatible rule at the moment of arrival (strict weak order) -/

/-- the rule of the property for organism `b` arriving at the species list `ss`: `some i` — the species at position `i` has a
    representative within the threshold, no compatible representative is nearer and every EARLIER compatible one is
    strictly farther; `none` — no representative is within the threshold -/
def Nearest (o : EpochOpts W) (ss : List (Species W)) (b : Org W) : Option Nat → Prop
  | none => ∀ s ∈ ss, ∀ rep, s.orgs.head? = some rep →
      lt (compatibility o.compat b.genome rep.genome) o.compatThreshold = false
  | some i => ∃ s rep, ss[i]? = some s ∧ s.orgs.head? = some rep ∧
      lt (compatibility o.compat b.genome rep.genome) o.compatThreshold = true ∧
      ∀ j sj rj, ss[j]? = some sj → sj.orgs.head? = some rj →
        lt (compatibility o.compat b.genome rj.genome) o.compatThreshold = true →
        lt (compatibility o.compat b.genome rj.genome) (compatibility o.compat b.genome rep.genome) = false ∧
        (j < i → lt (compatibility o.compat b.genome rep.genome) (compatibility o.compat b.genome rj.genome) = true)

/-- every distance from `b` to a representative of `ss` is below the sentinel the search starts from (executable) -/
def finiteAt (o : EpochOpts W) (ss : List (Species W)) (b : Org W) : Bool :=
  ss.all (fun s => match s.orgs.head? with
    | none => true
    | some rep => lt (compatibility o.compat b.genome rep.genome) maxVal)

theorem dists_getElem (o : EpochOpts W) (g : Genome W) (ss : List (Species W)) (j : Nat) (c : W) :
    (dists o g ss)[j]? = some (some c) ↔
      ∃ s rep, ss[j]? = some s ∧ s.orgs.head? = some rep ∧ compatibility o.compat g rep.genome = c := by
  unfold dists
  rw [List.getElem?_map]
  constructor
  · intro h
    cases hs : ss[j]? with
    | none => rw [hs] at h; cases h
    | some s =>
      rw [hs] at h
      simp only [Option.map_some, Option.some.injEq] at h
      cases hr : s.orgs.head? with
      | none => rw [hr] at h; cases h
      | some rep =>
        rw [hr] at h
        simp only [Option.map_some, Option.some.injEq] at h
        exact ⟨s, rep, rfl, hr, h⟩
  · rintro ⟨s, rep, hs, hr, rfl⟩
    rw [hs]; simp only [Option.map_some, hr]

/-- **C08 at the moment of arrival.**  Over a strict weak order, with all distances below the sentinel: the decision taken
    for `b` at population `q` follows the nearest-compatible rule on `q`'s species list. -/
theorem placeTarget_nearest (hw : StrictWeak W) (o : EpochOpts W) (q : Pop W) (b : Org W)
    (hfin : finiteAt o q.species b = true) : Nearest o q.species b (placeTarget o q b) := by
  unfold placeTarget
  split
  · rename_i he
    have : q.species = [] := by simpa using he
    intro s hs; rw [this] at hs; cases hs
  · have hfin' : ∀ c, some c ∈ dists o b.genome q.species → lt c maxVal = true := by
      intro c hc
      obtain ⟨j, hj⟩ := List.getElem?_of_mem hc
      obtain ⟨s, rep, hs, hr, rfl⟩ := (dists_getElem o b.genome q.species j c).mp hj
      have := List.all_eq_true.mp hfin s (List.mem_of_getElem? hs)
      rw [hr] at this
      exact this
    have hs := bestCompatible_spec hw o b.genome q.species hfin'
    simp only at hs
    cases hb : bestCompatible o b.genome q.species 0 none maxVal with
    | none =>
      rw [hb] at hs
      simp only at hs
      intro s hsm rep hrep
      obtain ⟨j, hj⟩ := List.getElem?_of_mem hsm
      exact hs _ (List.mem_of_getElem? ((dists_getElem o b.genome q.species j _).mpr ⟨s, rep, hj, hrep, rfl⟩))
    | some i =>
      rw [hb] at hs
      simp only at hs
      obtain ⟨d, hd, hlt, hmin⟩ := hs
      obtain ⟨s, rep, hsi, hr, rfl⟩ := (dists_getElem o b.genome q.species i d).mp hd
      refine ⟨s, rep, hsi, hr, hlt, ?_⟩
      intro j sj rj hsj hrj hltj
      exact hmin j _ ((dists_getElem o b.genome q.species j _).mpr ⟨sj, rj, hsj, hrj, rfl⟩) hltj

/-! ### (a) the stages of `nextEpoch`: one `speciate` call on the babies in order of creation, then the purge -/

/-- the species list `reproducePhase` mates across (the executor's sorted list, resolved in the prepared population) -/
def sortedOf (ex : ExecState) (p1 : Pop W) : List (Species W) :=
  ex.sortedIds.filterMap (fun i => p1.species.find? (·.id == i))

/-- the stages of one turnover with every intermediate value named: `p1` after preparation, the `babies` with the registry
    and allocation counter after reproduction, `p2` after the ONE `speciate` call on the babies (with its placement log),
    `p'` after the final purge -/
structure Stages (o : EpochOpts W) (gen : Int) (p : Pop W) (rs : List Nat) (p1 : Pop W) (ex : ExecState) (rs1 : List Nat)
    (babies : List (Org W)) (reg : Reg W) (uid : Nat) (p2 : Pop W) (log : List (Pop W × Org W)) (p' : Pop W) (rs' : List Nat) : Prop where
  prep : prepareForReproduction o p rs = .ok ((p1, ex), rs1)
  repro : reproduceAll o gen (sortedOf ex p1) p1.species p1.reg p1.nextUid [] rs1 = .ok ((babies, reg, uid), rs')
  size : babies.length = o.popSize
  spec : speciate o { p1 with reg := reg, nextUid := uid } babies = .ok p2
  log : speciateLoopLog o { p1 with reg := reg, nextUid := uid } babies = .ok (p2, log)
  fin : p' = finalizeReproduction p2

/-- `blocks` are the lists `reproduceSpecies` returns for the species `ss` one after the other (registry, allocation
    counter and stream threaded through), ending in `fin` -/
def ReproBlocks (o : EpochOpts W) (gen : Int) (sorted : List (Species W)) :
    List (Species W) → Reg W → Nat → List Nat → List (List (Org W)) → Reg W × Nat × List Nat → Prop
  | [], reg, uid, rs, blocks, fin => blocks = [] ∧ fin = (reg, uid, rs)
  | s :: ss, reg, uid, rs, blocks, fin =>
    ∃ bs reg1 uid1 rs1 rest, reproduceSpecies o gen s sorted reg uid rs = .ok ((bs, reg1, uid1), rs1) ∧
      blocks = bs :: rest ∧ ReproBlocks o gen sorted ss reg1 uid1 rs1 rest fin

/-- the babies are the concatenation, in species order, of what each species' `reproduce` returned -/
theorem reproduceAll_blocks (o : EpochOpts W) (gen : Int) (sorted ss : List (Species W)) (reg reg' : Reg W) (uid uid' : Nat)
    (acc babies : List (Org W)) (rs rs' : List Nat)
    (h : reproduceAll o gen sorted ss reg uid acc rs = .ok ((babies, reg', uid'), rs')) :
    ∃ blocks, ReproBlocks o gen sorted ss reg uid rs blocks (reg', uid', rs') ∧ babies = acc ++ blocks.flatten := by
  induction ss generalizing reg uid acc rs with
  | nil =>
    simp only [reproduceAll, Except.ok.injEq, Prod.mk.injEq] at h
    obtain ⟨⟨rfl, rfl, rfl⟩, rfl⟩ := h
    exact ⟨[], ⟨rfl, rfl⟩, by simp⟩
  | cons s ss ih =>
    unfold reproduceAll at h
    split at h
    · cases h
    · rename_i bs reg1 uid1 rs1 hs
      obtain ⟨blocks, hb, e⟩ := ih _ _ _ _ h
      exact ⟨bs :: blocks, ⟨bs, reg1, uid1, rs1, blocks, hs, rfl, hb⟩, by rw [e]; simp⟩

/-- allocation ids are handed out consecutively in order of creation -/
theorem reproduceAll_consecutive (o : EpochOpts W) (gen : Int) (sorted ss : List (Species W)) (reg reg' : Reg W) (uid uid' : Nat)
    (acc babies : List (Org W)) (rs rs' : List Nat)
    (h : reproduceAll o gen sorted ss reg uid acc rs = .ok ((babies, reg', uid'), rs')) :
    ∃ n, babies.map (·.uid) = acc.map (·.uid) ++ (List.range n).map (· + uid) ∧ babies.length = acc.length + n := by
  induction ss generalizing reg uid acc rs with
  | nil =>
    simp only [reproduceAll, Except.ok.injEq, Prod.mk.injEq] at h
    obtain ⟨⟨rfl, rfl, rfl⟩, rfl⟩ := h
    exact ⟨0, by simp, rfl⟩
  | cons s ss ih =>
    unfold reproduceAll at h
    split at h
    · cases h
    · rename_i bs reg1 uid1 rs1 hs
      obtain ⟨hb1, hb2⟩ := C02.reproduceSpecies_uids _ _ _ _ _ _ _ _ _ _ _ hs
      obtain ⟨n, e1, e2⟩ := ih _ _ _ _ h
      refine ⟨bs.length + n, ?_, by rw [e2, List.length_append]; omega⟩
      rw [e1, List.map_append, hb1, hb2, List.append_assoc, List.range_add, List.map_append, List.map_map]
      congr 2
      apply List.map_congr_left
      intro a _
      simp only [Function.comp]
      omega

/-- **C08 over the epoch, (a): the epoch hands the babies to `speciate` once, in order of creation.**  If
    `nextEpoch o gen p rs` returns `(p', rs')` then there are: the prepared population `p1`; the list `babies` that
    `reproduceAll` returned — the concatenation `blocks.flatten`, in the order of `p1.species`, of the lists each species'
    `reproduce` returned, carrying the consecutive allocation ids `p1.nextUid, p1.nextUid + 1, …` (allocation = creation);
    the population `p2` that exactly one call `speciate o {p1 with reg, nextUid} babies` returned, with its placement
    log (one entry per baby, in that order); and `p' = finalizeReproduction p2` (purgeOldGeneration, purgeOrAgeSpecies,
    forgetting the innovation records). -/
theorem nextEpoch_speciates_babies (o : EpochOpts W) (gen : Int) (p p' : Pop W) (rs rs' : List Nat)
    (h : nextEpoch o gen p rs = .ok (p', rs')) :
    ∃ p1 ex rs1 babies reg uid p2 log blocks, Stages o gen p rs p1 ex rs1 babies reg uid p2 log p' rs' ∧
      ReproBlocks o gen (sortedOf ex p1) p1.species p1.reg p1.nextUid rs1 blocks (reg, uid, rs') ∧
      babies = blocks.flatten ∧
      babies.map (·.uid) = (List.range o.popSize).map (· + p1.nextUid) ∧
      log.map (·.2) = babies := by
  unfold nextEpoch at h
  split at h
  · cases h
  · rename_i p1 ex rs1 hprep
    split at h
    · cases h
    · rename_i p2 rs2 hrep
      simp only [Except.ok.injEq, Prod.mk.injEq] at h
      obtain ⟨rfl, rfl⟩ := h
      unfold reproducePhase at hrep
      simp only at hrep
      split at hrep
      · cases hrep
      · rename_i babies reg uid rs3 hall
        split at hrep
        · cases hrep
        · rename_i hlen
          split at hrep
          · cases hrep
          · rename_i p2' hsp
            simp only [Except.ok.injEq, Prod.mk.injEq] at hrep
            obtain ⟨rfl, rfl⟩ := hrep
            have hlen' : babies.length = o.popSize := by simpa using hlen
            have hloop : speciateLoop o { p1 with reg := reg, nextUid := uid } babies = .ok p2' := by
              unfold speciate at hsp
              split at hsp
              · cases hsp
              · exact hsp
            obtain ⟨log, hlog⟩ := log_of_speciateLoop o _ _ _ hloop
            obtain ⟨blocks, hblocks, hflat⟩ := reproduceAll_blocks o gen _ _ _ _ _ _ _ _ _ _ hall
            obtain ⟨n, hn1, hn2⟩ := reproduceAll_consecutive o gen _ _ _ _ _ _ _ _ _ _ hall
            simp only [List.map_nil, List.nil_append, List.length_nil, Nat.zero_add] at hn1 hn2
            refine ⟨p1, ex, rs1, babies, reg, uid, p2', log, blocks, ⟨hprep, hall, hlen', hsp, hlog, rfl⟩, hblocks,
              by simpa using hflat, by rw [hn1, ← hn2, hlen'], speciateLoopLog_orgs o _ _ _ _ hlog⟩

/-! ### (b) every organism of the new generation was placed by the rule -/

omit [Scalar W] in
theorem mem_of_head?' {α} {l : List α} {a : α} (h : l.head? = some a) : a ∈ l := by
  cases l with
  | nil => cases h
  | cons b t => simp only [List.head?_cons, Option.some.injEq] at h; subst h; exact List.mem_cons_self

omit [Scalar W] in
theorem purgeOrAgeLoop_shape (ss : List (Species W)) (k : Int) :
    ∀ s' ∈ purgeOrAgeLoop ss k, ∃ s ∈ ss, ∃ k', s'.id = s.id ∧ s'.orgs = renumber s.orgs k' := by
  induction ss generalizing k with
  | nil => intro s hs; simp [purgeOrAgeLoop] at hs
  | cons a t ih =>
    intro s' hs'
    unfold purgeOrAgeLoop at hs'
    split at hs'
    · obtain ⟨s, hs, r⟩ := ih _ s' hs'
      exact ⟨s, List.mem_cons_of_mem _ hs, r⟩
    · rcases List.mem_cons.mp hs' with rfl | h'
      · exact ⟨a, List.mem_cons_self, k, rfl, rfl⟩
      · obtain ⟨s, hs, r⟩ := ih _ s' h'
        exact ⟨s, List.mem_cons_of_mem _ hs, r⟩

omit [Scalar W] in
/-- the final purge, species by species: a species of the new population is a species of the population after speciation
    (same id) with the old generation filtered out and the genome ids renumbered — order kept -/
theorem finalize_shape (p2 : Pop W) : ∀ s' ∈ (finalizeReproduction p2).species,
    ∃ (j : Nat) (s2 : Species W) (k : Int), p2.species[j]? = some s2 ∧ s'.id = s2.id ∧
      s'.orgs = renumber (s2.orgs.filter (fun o => !p2.organisms.contains o.uid)) k := by
  intro s' hs'
  have hs'' : s' ∈ purgeOrAgeLoop (purgeOldGeneration p2).species 0 := hs'
  obtain ⟨s, hs, k, hid, ho⟩ := purgeOrAgeLoop_shape _ _ s' hs''
  unfold purgeOldGeneration at hs
  obtain ⟨s2, hs2, rfl⟩ := List.mem_map.mp hs
  obtain ⟨j, hj⟩ := List.getElem?_of_mem hs2
  exact ⟨j, s2, k, hj, hid, ho⟩

/-- baby `b` (log entry `(q, b)`) is organism `x` of the new generation (genome id renumbered by the final purge); at its
    arrival the search chose position `i` of `q.species`, holding the species with id `sid`, whose first organism at that
    moment, `rep`, was within the threshold -/
def JoinedE (o : EpochOpts W) (babies : List (Org W)) (log : List (Pop W × Org W)) (sid : Int) (i : Nat) (rep x : Org W) : Prop :=
  ∃ q b, (q, b) ∈ log ∧ b ∈ babies ∧ x = { b with genome := { b.genome with id := x.genome.id } } ∧
    placeTarget o q b = some i ∧ ∃ sq, q.species[i]? = some sq ∧ sq.id = sid ∧ sq.orgs.head? = some rep ∧
    lt (compatibility o.compat b.genome rep.genome) o.compatThreshold = true

/-- baby `f` (log entry `(q, f)`) found no species at its arrival and founded the species with the fresh id `sid` -/
def FounderE (o : EpochOpts W) (babies : List (Org W)) (log : List (Pop W × Org W)) (sid : Int) (f : Org W) : Prop :=
  ∃ q, (q, f) ∈ log ∧ f ∈ babies ∧ placeTarget o q f = none ∧ sid = q.lastSpecies + 1

/-- **C08 over the epoch, (b), species by species.**  Let `p` be a consistently allocated population (`UidInv`) with unique
    species ids and let the turnover run through the stages `st` (`nextEpoch_speciates_babies` provides them whenever
    `nextEpoch` returns).  Then every species `s'` of the new population is
    * a SURVIVOR: the species at some position `i` of the prepared population `p1` has the same id; its first organism
      `rep` is an old-generation organism (listed in `p1.organisms`, which `purgeOldGeneration` removes only afterwards), and
      EVERY organism of `s'` is a baby that joined position `i` when `rep` was the representative there and within the
      threshold; or
    * FOUNDED during this turnover, with an id above the `LastSpecies` the turnover started with and a position beyond the old
      list: its first organism is the founder baby `f` (no species was chosen at `f`'s arrival; fresh id
      `lastSpecies + 1` of that moment), and every other organism is a baby that joined that position when `f` was the
      representative and within the threshold.
    For every scalar type, stream, registry and option setting. -/
theorem nextEpoch_species_placed (o : EpochOpts W) (gen : Int) (p p' p1 p2 : Pop W) (ex : ExecState) (rs rs1 rs' : List Nat)
    (babies : List (Org W)) (reg : Reg W) (uid : Nat) (log : List (Pop W × Org W))
    (hu : C02.UidInv p) (hnd : (p.species.map (·.id)).Nodup)
    (st : Stages o gen p rs p1 ex rs1 babies reg uid p2 log p' rs') :
    ∀ s' ∈ p'.species,
      (∃ i s1 rep, p1.species[i]? = some s1 ∧ s1.id = s'.id ∧ s1.orgs.head? = some rep ∧ rep.uid ∈ p1.organisms ∧
        ∀ x ∈ s'.orgs, JoinedE o babies log s'.id i rep x) ∨
      (p.lastSpecies < s'.id ∧ ∃ i f x0 t', p1.species.length ≤ i ∧ s'.orgs = x0 :: t' ∧
        x0 = { f with genome := { f.genome with id := x0.genome.id } } ∧ FounderE o babies log s'.id f ∧
        ∀ x ∈ t', JoinedE o babies log s'.id i f x) := by
  have hu1 := (C02.prepare_uidInv o p p1 ex rs rs1 hnd hu st.prep).1
  have hlast : p1.lastSpecies = p.lastSpecies := (C02.prepare_spec o p p1 ex rs rs1 hnd st.prep).1
  have hheads := C10.reproduceAll_heads o gen _ _ _ _ _ _ _ _ _ _ st.repro
  obtain ⟨_, _, hge⟩ := C02.reproduceAll_uids o gen _ _ _ _ _ _ [] babies _ _ st.repro (by simp) (by simp)
  have hloop := speciateLoop_of_log o _ _ _ _ st.log
  have horg : p2.organisms = p1.organisms := (C02.speciateLoop_uids o _ _ _ hloop).2.1
  have hlogorgs := speciateLoopLog_orgs o _ _ _ _ st.log
  have hstruct := speciateLoopLog_structure o _ p2 babies log st.log
  have hbaby : ∀ q b, (q, b) ∈ log → b ∈ babies := by
    intro q b hqb
    rw [← hlogorgs]; exact List.mem_map.mpr ⟨(q, b), hqb, rfl⟩
  have hnew : ∀ b ∈ babies, b.uid ∉ p2.organisms := by
    intro b hb hmem
    rw [horg] at hmem
    have := hu1.below _ hmem
    rcases hge b.uid (List.mem_map_of_mem hb) with h' | h'
    · simp at h'
    · omega
  have hold : ∀ s1 ∈ p1.species, ∀ y ∈ s1.orgs, y.uid ∈ p2.organisms := by
    intro s1 hs1 y hy
    rw [horg]
    apply hu1.listed
    simp only [C02.orgUids, List.mem_flatMap, List.mem_map]
    exact ⟨s1, hs1, y, hy, rfl⟩
  intro s' hs'
  rw [st.fin] at hs'
  obtain ⟨j, s2, k, hj, hid, ho⟩ := finalize_shape p2 s' hs'
  rcases hstruct j s2 hj with ⟨s1, t, hs1, hid1, ho1, hjoin⟩ | ⟨hlen, f, t, hof, hfound, hjoin⟩
  · -- a species surviving from the old generation
    left
    have hs1' : p1.species[j]? = some s1 := hs1
    have hs1m := List.mem_of_getElem? hs1'
    obtain ⟨c, hc⟩ := hheads s1 hs1m
    have hh : s2.orgs.head? = some c := by rw [ho1]; exact head?_append_of_head? _ hc
    refine ⟨j, s1, c, hs1', by rw [hid, hid1], hc, by rw [← horg]; exact hold s1 hs1m c (mem_of_head?' hc), ?_⟩
    intro x hx
    rw [ho] at hx
    obtain ⟨y, hy, e⟩ := C10.renumber_bwd _ _ x hx
    simp only [List.mem_filter, Bool.not_eq_true', List.contains_eq_mem, decide_eq_false_iff_not] at hy
    obtain ⟨hy1, hy2⟩ := hy
    rw [ho1] at hy1
    rcases List.mem_append.mp hy1 with hyo | hyt
    · exact absurd (hold s1 hs1m y hyo) hy2
    · obtain ⟨q, hq, htar, sq, rep, hsq, hsqid, hrep, hhead, hlt⟩ := hjoin y hyt
      rw [hh] at hhead
      cases hhead
      exact ⟨q, y, hq, hbaby q y hq, e, htar, sq, hsq, by rw [hsqid, hid], hrep, hlt⟩
  · -- a species founded during this turnover
    right
    obtain ⟨q0, hq0, htar0, hid0, hbase⟩ := hfound
    have hbase' : p1.lastSpecies ≤ q0.lastSpecies := hbase
    have hlen' : p1.species.length ≤ j := hlen
    have hfb := hbaby q0 f hq0
    have hfnew := hnew f hfb
    have hidgt : p.lastSpecies < s'.id := by rw [hid, hid0, ← hlast]; omega
    have hfilter : s2.orgs.filter (fun o => !p2.organisms.contains o.uid) =
        f :: t.filter (fun o => !p2.organisms.contains o.uid) := by
      rw [hof, List.filter_cons_of_pos]; simpa using hfnew
    rw [hfilter] at ho
    have ho' : s'.orgs = { f with genome := { f.genome with id := k } } ::
        renumber (t.filter (fun o => !p2.organisms.contains o.uid)) (k + 1) := by
      rw [ho]; rfl
    refine ⟨hidgt, j, f, _, _, hlen', ho', rfl, ⟨q0, hq0, hfb, htar0, by rw [hid, hid0]⟩, ?_⟩
    intro x hx'
    obtain ⟨y, hy, e⟩ := C10.renumber_bwd _ _ x hx'
    have hyt := (List.mem_filter.mp hy).1
    obtain ⟨q, hq, htar, sq, rep, hsq, hsqid, hrep, hhead, hlt⟩ := hjoin y hyt
    rw [hof] at hhead
    simp only [List.head?_cons, Option.some.injEq] at hhead
    subst hhead
    exact ⟨q, y, hq, hbaby q y hq, e, htar, sq, hsq, by rw [hsqid, hid], hrep, hlt⟩

/-- how organism `x` of species `s'` of the new generation got there: it is baby `b` (genome id renumbered by the final
    purge) with log entry `(q, b)`, and either
    * FOUNDER: no species was chosen at `q`; `s'` carries the fresh id `q.lastSpecies + 1`, above the `LastSpecies` the
      turnover started with, and `x` is still the first organism of `s'`; or
    * JOINED: the search chose position `i` of `q.species`, holding the species with the id of `s'`, whose first organism
      at that moment, `rep`, was within the threshold; and `rep` is
        - an OLD-GENERATION organism: the first organism of the species at the same position `i` of the prepared
          population `p1`, listed in `p1.organisms` (what `purgeOldGeneration` removes afterwards), or
        - the FOUNDER baby of `s'` (a species founded during this turnover, beyond the old list), which is still the first
          organism of `s'` (genome id renumbered). -/
def PlacedInEpoch (o : EpochOpts W) (p p1 : Pop W) (babies : List (Org W)) (log : List (Pop W × Org W))
    (s' : Species W) (x : Org W) : Prop :=
  ∃ q b, (q, b) ∈ log ∧ b ∈ babies ∧ x = { b with genome := { b.genome with id := x.genome.id } } ∧
    ((placeTarget o q b = none ∧ s'.id = q.lastSpecies + 1 ∧ p.lastSpecies < s'.id ∧ s'.orgs.head? = some x) ∨
     (∃ i sq rep, placeTarget o q b = some i ∧ q.species[i]? = some sq ∧ sq.id = s'.id ∧ sq.orgs.head? = some rep ∧
        lt (compatibility o.compat b.genome rep.genome) o.compatThreshold = true ∧
        ((∃ s1, p1.species[i]? = some s1 ∧ s1.id = s'.id ∧ s1.orgs.head? = some rep ∧ rep.uid ∈ p1.organisms) ∨
         (p.lastSpecies < s'.id ∧ rep ∈ babies ∧ p1.species.length ≤ i ∧
           ∃ x0, s'.orgs.head? = some x0 ∧ x0 = { rep with genome := { rep.genome with id := x0.genome.id } }))))

/-- **C08 over the epoch, (b), organism by organism.**  Under the hypotheses of `nextEpoch_species_placed`, EVERY organism
    of EVERY species of the new population was placed as `PlacedInEpoch` says: founder of a species founded during this
    turnover with a fresh id, or joined a species whose representative at that moment (an old-generation organism, or the
    founder baby) was within the threshold. -/
theorem nextEpoch_placed (o : EpochOpts W) (gen : Int) (p p' p1 p2 : Pop W) (ex : ExecState) (rs rs1 rs' : List Nat)
    (babies : List (Org W)) (reg : Reg W) (uid : Nat) (log : List (Pop W × Org W))
    (hu : C02.UidInv p) (hnd : (p.species.map (·.id)).Nodup)
    (st : Stages o gen p rs p1 ex rs1 babies reg uid p2 log p' rs') :
    ∀ s' ∈ p'.species, ∀ x ∈ s'.orgs, PlacedInEpoch o p p1 babies log s' x := by
  intro s' hs' x hx
  rcases nextEpoch_species_placed o gen p p' p1 p2 ex rs rs1 rs' babies reg uid log hu hnd st s' hs' with
    ⟨i, s1, rep, h1, h2, h3, h4, hall⟩ | ⟨hgt, i, f, x0, t', hlen, ho, hx0, ⟨q0, hq0, hfb, htar0, hid0⟩, hall⟩
  · obtain ⟨q, b, hq, hb, e, htar, sq, hsq, hsqid, hrep, hlt⟩ := hall x hx
    exact ⟨q, b, hq, hb, e, Or.inr ⟨i, sq, rep, htar, hsq, hsqid, hrep, hlt, Or.inl ⟨s1, h1, h2, h3, h4⟩⟩⟩
  · rw [ho] at hx
    rcases List.mem_cons.mp hx with rfl | hx'
    · exact ⟨q0, f, hq0, hfb, hx0, Or.inl ⟨htar0, hid0, hgt, by rw [ho]; rfl⟩⟩
    · obtain ⟨q, b, hq, hb, e, htar, sq, hsq, hsqid, hrep, hlt⟩ := hall x hx'
      exact ⟨q, b, hq, hb, e, Or.inr ⟨i, sq, f, htar, hsq, hsqid, hrep, hlt,
        Or.inr ⟨hgt, hfb, hlen, x0, by rw [ho]; rfl, hx0⟩⟩⟩

/-- **C08 over the epoch, (b) with the nearest-compatible rule.**  Over a strict weak order, with all distances met by the
    search below its sentinel: every organism `x` of the new generation is a baby `b` whose placement — at the species list
    `q.species` of the moment of its arrival — followed the rule of `bestCompatible_spec` (`Nearest`): it joined the FIRST
    species attaining the minimal distance among the representatives within the threshold, the species having the id of
    the species that holds `x` now; or no representative was within the threshold and it founded the species that holds
    it now, with a fresh id above the old `LastSpecies`, of which it still is the first organism. -/
theorem nextEpoch_placed_nearest (hw : StrictWeak W) (o : EpochOpts W) (gen : Int) (p p' p1 p2 : Pop W) (ex : ExecState)
    (rs rs1 rs' : List Nat) (babies : List (Org W)) (reg : Reg W) (uid : Nat) (log : List (Pop W × Org W))
    (hu : C02.UidInv p) (hnd : (p.species.map (·.id)).Nodup)
    (st : Stages o gen p rs p1 ex rs1 babies reg uid p2 log p' rs')
    (hfin : ∀ e ∈ log, finiteAt o e.1.species e.2 = true) :
    ∀ s' ∈ p'.species, ∀ x ∈ s'.orgs, ∃ q b, (q, b) ∈ log ∧ x = { b with genome := { b.genome with id := x.genome.id } } ∧
      Nearest o q.species b (placeTarget o q b) ∧
      match placeTarget o q b with
      | none => s'.id = q.lastSpecies + 1 ∧ p.lastSpecies < s'.id ∧ s'.orgs.head? = some x
      | some i => ∃ sq, q.species[i]? = some sq ∧ sq.id = s'.id := by
  intro s' hs' x hx
  obtain ⟨q, b, hq, _, e, hcase⟩ := nextEpoch_placed o gen p p' p1 p2 ex rs rs1 rs' babies reg uid log hu hnd st s' hs' x hx
  refine ⟨q, b, hq, e, placeTarget_nearest hw o q b (hfin _ hq), ?_⟩
  rcases hcase with ⟨h1, h2, h3, h4⟩ | ⟨i, sq, rep, h1, h2, h3, _⟩
  · rw [h1]; exact ⟨h2, h3, h4⟩
  · rw [h1]; exact ⟨sq, h2, h3⟩

/-! ### (c) `spawn`: the same rule, starting from an empty species list -/

theorem speciateLoop_of_speciate {o : EpochOpts W} {p0 p' : Pop W} {orgs : List (Org W)}
    (h : speciate o p0 orgs = .ok p') : speciateLoop o p0 orgs = .ok p' := by
  unfold speciate at h
  split at h
  · cases h
  · exact h

/-- **C08 for `spawn`.**  If `spawn o g rs` returns `p`, then `p` is the result of exactly one `speciate` call on the spawned
    organisms `orgs` (in order of creation) into a population `p0` WITHOUT species and `LastSpecies = 0`; every species of `p`
    was founded by one of them (`FoundedAt`: no species chosen at its arrival, fresh id), which is its first organism, and
    every other member joined when that founder was within the threshold (`JoinedAt`). -/
theorem spawn_placed (o : EpochOpts W) (g : Genome W) (p : Pop W) (rs rs' : List Nat) (h : spawn o g rs = .ok (p, rs')) :
    ∃ orgs p0 log, spawnLoop g o.popSize 0 0 rs = .ok (orgs, rs') ∧ p0.species = [] ∧ p0.lastSpecies = 0 ∧
      speciate o p0 orgs = .ok p ∧ speciateLoopLog o p0 orgs = .ok (p, log) ∧ log.map (·.2) = orgs ∧
      ∀ j s', p.species[j]? = some s' →
        ∃ f t, s'.orgs = f :: t ∧ FoundedAt o log 0 s' f ∧ ∀ y ∈ t, JoinedAt o log j s' y := by
  unfold spawn at h
  split at h
  · cases h
  · split at h
    · cases h
    · rename_i orgs rs1 hloop
      split at h
      · cases h
      · rename_i lastNode hln
        split at h
        · cases h
        · rename_i nextInn hni
          simp only at h
          split at h
          · cases h
          · rename_i p' hsp
            simp only [Except.ok.injEq, Prod.mk.injEq] at h
            obtain ⟨rfl, rfl⟩ := h
            have hl := speciateLoop_of_speciate hsp
            obtain ⟨log, hlog⟩ := log_of_speciateLoop o _ _ _ hl
            refine ⟨orgs, _, log, hloop, rfl, rfl, hsp, hlog, speciateLoopLog_orgs o _ _ _ _ hlog, ?_⟩
            intro j s' hj
            rcases speciateLoopLog_structure o _ _ _ _ hlog j s' hj with ⟨s, t, hs, _⟩ | ⟨_, r⟩
            · simp at hs
            · exact r

/-- the nearest-compatible rule for every entry of a placement log (of an epoch or of `spawn`) -/
theorem log_nearest (hw : StrictWeak W) (o : EpochOpts W) (log : List (Pop W × Org W))
    (hfin : ∀ e ∈ log, finiteAt o e.1.species e.2 = true) :
    ∀ e ∈ log, Nearest o e.1.species e.2 (placeTarget o e.1 e.2) :=
  fun e he => placeTarget_nearest hw o e.1 e.2 (hfin e he)

/-! ### (d) the executable predicate `PopSpec.placedWhy` accepts the model's epoch -/

theorem compat_congr_left (c : CompatOpts W) (g1 g2 g' : Genome W) (h : g1.genes = g2.genes) :
    compatibility c g1 g' = compatibility c g2 g' := by
  obtain ⟨i1, t1, n1, ge1, m1⟩ := g1
  obtain ⟨i2, t2, n2, ge2, m2⟩ := g2
  simp only at h
  subst h
  rfl

theorem compat_congr_right (c : CompatOpts W) (g g1 g2 : Genome W) (h : g1.genes = g2.genes) :
    compatibility c g g1 = compatibility c g g2 := by
  obtain ⟨i1, t1, n1, ge1, m1⟩ := g1
  obtain ⟨i2, t2, n2, ge2, m2⟩ := g2
  simp only at h
  subst h
  rfl

theorem genes_of_renum (x b : Org W) (e : x = { b with genome := { b.genome with id := x.genome.id } }) :
    x.genome.genes = b.genome.genes := by rw [e]

/-- positions, ids and first organisms of the species list are kept by every arrival -/
theorem speciateOne_ext (o : EpochOpts W) (p p1 : Pop W) (org : Org W) (h : speciateOne o p org = .ok p1) :
    ∀ (j : Nat) (s : Species W) (r : Org W), p.species[j]? = some s → s.orgs.head? = some r →
      ∃ s1 : Species W, p1.species[j]? = some s1 ∧ s1.orgs.head? = some r := by
  intro j s r hs hr
  rcases speciateOne_spec o p p1 org h with ⟨i, _, hsp, _⟩ | ⟨_, _, sn, hsp, _⟩
  · rw [hsp]
    by_cases hij : i = j
    · subst hij
      rw [List.getElem?_modify_eq, hs]
      exact ⟨_, rfl, head?_append_of_head? _ hr⟩
    · rw [List.getElem?_modify_ne _ _ hij]
      exact ⟨s, hs, hr⟩
  · rw [hsp, List.getElem?_append_left (List.getElem?_eq_some_iff.mp hs).1]
    exact ⟨s, hs, hr⟩

/-- at every moment of a `speciate` call, the species the call started with are at their positions with their first
    organisms -/
theorem speciateLoopLog_ext (o : EpochOpts W) (p p' : Pop W) (orgs : List (Org W)) (log : List (Pop W × Org W))
    (h : speciateLoopLog o p orgs = .ok (p', log)) :
    ∀ e ∈ log, ∀ (j : Nat) (s : Species W) (r : Org W), p.species[j]? = some s → s.orgs.head? = some r →
      ∃ sq : Species W, e.1.species[j]? = some sq ∧ sq.orgs.head? = some r := by
  induction orgs generalizing p log with
  | nil =>
    simp only [speciateLoopLog, Except.ok.injEq, Prod.mk.injEq] at h
    obtain ⟨rfl, rfl⟩ := h
    intro e he; cases he
  | cons org rest ih =>
    unfold speciateLoopLog at h
    split at h
    · cases h
    · rename_i p1 h1
      split at h
      · cases h
      · rename_i q log' hrest
        simp only [Except.ok.injEq, Prod.mk.injEq] at h
        obtain ⟨rfl, rfl⟩ := h
        intro e he j s r hs hr
        rcases List.mem_cons.mp he with rfl | he'
        · exact ⟨s, hs, hr⟩
        · obtain ⟨s1, hs1, hr1⟩ := speciateOne_ext o p p1 org h1 j s r hs hr
          exact ih p1 log' hrest e he' j s1 r hs1 hr1

/-- the nearest rule at the moment of arrival (`q`), read against the species list `ap` the `speciate` call started from:
    `ap`'s species are at their positions in `q` with their first organisms (`hext`) -/
theorem oldOk_of_nearest (o : EpochOpts W) (ap q : Pop W) (b x rep : Org W) (sq : Species W) (i i' : Nat)
    (hx : x.genome.genes = b.genome.genes)
    (hext : ∀ (j : Nat) (s : Species W) (r : Org W), ap.species[j]? = some s → s.orgs.head? = some r →
      ∃ sj : Species W, q.species[j]? = some sj ∧ sj.orgs.head? = some r)
    (hn : Nearest o q.species b (some i)) (hsq : q.species[i]? = some sq) (hrep : sq.orgs.head? = some rep)
    (hi : ∀ j, j < ap.species.length → ¬ i' ≤ j → j < i) :
    PopSpec.oldOk o ap x rep i' = true := by
  obtain ⟨s0, rep0, hs0, hrep0, _, hmin⟩ := hn
  rw [hsq] at hs0
  cases hs0
  rw [hrep] at hrep0
  cases hrep0
  unfold PopSpec.oldOk
  rw [List.all_eq_true]
  intro j hj
  have hjl := List.mem_range.mp hj
  cases hsj : ap.species[j]? with
  | none => rfl
  | some s =>
    simp only
    cases hr : s.orgs.head? with
    | none => rfl
    | some r =>
      simp only
      obtain ⟨sj, hsj', hrj⟩ := hext j s r hsj hr
      have e1 : ∀ g', compatibility o.compat x.genome g' = compatibility o.compat b.genome g' :=
        fun g' => compat_congr_left _ _ _ _ hx
      unfold PopSpec.within
      simp only [e1]
      cases hlt : lt (compatibility o.compat b.genome r.genome) o.compatThreshold with
      | false => rfl
      | true =>
        obtain ⟨h1, h2⟩ := hmin j sj r hsj' hrj hlt
        rw [h1]
        simp only [Bool.not_true, Bool.false_or, Bool.not_false, Bool.true_and]
        by_cases hle : i' ≤ j
        · simp [hle]
        · simp [hle, h2 (hi j hjl hle)]

theorem founderOk_of_nearest (o : EpochOpts W) (ap q : Pop W) (b x : Org W)
    (hx : x.genome.genes = b.genome.genes)
    (hext : ∀ (j : Nat) (s : Species W) (r : Org W), ap.species[j]? = some s → s.orgs.head? = some r →
      ∃ sj : Species W, q.species[j]? = some sj ∧ sj.orgs.head? = some r)
    (hn : Nearest o q.species b none) : PopSpec.founderOk o ap x = true := by
  unfold PopSpec.founderOk
  rw [List.all_eq_true]
  intro s hs
  obtain ⟨j, hj⟩ := List.getElem?_of_mem hs
  cases hr : s.orgs.head? with
  | none => rfl
  | some r =>
    simp only
    obtain ⟨sj, hsj', hrj⟩ := hext j s r hj hr
    have := hn sj (List.mem_of_getElem? hsj') r hrj
    unfold PopSpec.within
    rw [compat_congr_left _ _ _ _ hx, this]; rfl

/-- every species of the model's new generation passes the executable per-species check against the prepared population -/
theorem speciesPlacedOk_model (hw : StrictWeak W) (o : EpochOpts W) (gen : Int) (p p' p1 p2 : Pop W) (ex : ExecState)
    (rs rs1 rs' : List Nat) (babies : List (Org W)) (reg : Reg W) (uid : Nat) (log : List (Pop W × Org W))
    (hu : C02.UidInv p) (hnd : (p.species.map (·.id)).Nodup)
    (st : Stages o gen p rs p1 ex rs1 babies reg uid p2 log p' rs')
    (hfin : ∀ e ∈ log, finiteAt o e.1.species e.2 = true) :
    ∀ s' ∈ p'.species, PopSpec.speciesPlacedOk o p1 s' = true := by
  have hextAll : ∀ e ∈ log, ∀ (j : Nat) (s : Species W) (r : Org W), p1.species[j]? = some s → s.orgs.head? = some r →
      ∃ sq : Species W, e.1.species[j]? = some sq ∧ sq.orgs.head? = some r :=
    speciateLoopLog_ext o { p1 with reg := reg, nextUid := uid } p2 babies log st.log
  have hlast : p1.lastSpecies = p.lastSpecies := (C02.prepare_spec o p p1 ex rs rs1 hnd st.prep).1
  intro s' hs'
  unfold PopSpec.speciesPlacedOk
  rcases nextEpoch_species_placed o gen p p' p1 p2 ex rs rs1 rs' babies reg uid log hu hnd st s' hs' with
    ⟨i, s1, rep, h1, h2, h3, _, hall⟩ | ⟨hgt, i, f, x0, t', hlen, ho, hx0, ⟨q0, hq0, hfb, htar0, hid0⟩, hall⟩
  · apply Bool.or_eq_true_iff.mpr
    left
    rw [List.any_eq_true]
    refine ⟨i, List.mem_range.mpr (List.getElem?_eq_some_iff.mp h1).1, ?_⟩
    simp only [h1, h2, h3, beq_self_eq_true, Bool.true_and]
    rw [List.all_eq_true]
    intro x hx
    obtain ⟨q, b, hq, hb, e, htar, sq, hsq, hsqid, hrep, hlt⟩ := hall x hx
    have hg := genes_of_renum x b e
    have hn := placeTarget_nearest hw o q b (hfin _ hq)
    rw [htar] at hn
    rw [Bool.and_eq_true]
    refine ⟨?_, oldOk_of_nearest o p1 q b x rep sq i i hg (hextAll (q, b) hq) hn hsq hrep (fun j _ h => by omega)⟩
    unfold PopSpec.within
    rw [compat_congr_left _ _ _ _ hg]; exact hlt
  · apply Bool.or_eq_true_iff.mpr
    right
    rw [Bool.and_eq_true]
    refine ⟨by simp only [decide_eq_true_eq]; rw [hlast]; exact hgt, ?_⟩
    rw [ho]
    simp only
    rw [Bool.and_eq_true]
    have hgf := genes_of_renum x0 f hx0
    constructor
    · have hn := placeTarget_nearest hw o q0 f (hfin _ hq0)
      rw [htar0] at hn
      exact founderOk_of_nearest o p1 q0 f x0 hgf (hextAll (q0, f) hq0) hn
    · rw [List.all_eq_true]
      intro y hy
      obtain ⟨q, b, hq, hb, e, htar, sq, hsq, hsqid, hrep, hlt⟩ := hall y hy
      have hg := genes_of_renum y b e
      have hn := placeTarget_nearest hw o q b (hfin _ hq)
      rw [htar] at hn
      rw [Bool.and_eq_true]
      have hok := oldOk_of_nearest o p1 q b y f sq i p1.species.length hg (hextAll (q, b) hq) hn hsq hrep
        (fun j hj _ => by omega)
      constructor
      · unfold PopSpec.within
        rw [compat_congr_left _ _ _ _ hg, compat_congr_right _ _ _ _ hgf]; exact hlt
      · have : PopSpec.oldOk o p1 y x0 p1.species.length = PopSpec.oldOk o p1 y f p1.species.length := by
          unfold PopSpec.oldOk
          simp only [compat_congr_right o.compat y.genome x0.genome f.genome hgf]
        rw [this]; exact hok

/-- **C08 over the epoch, (d): the model's epoch passes `PopSpec.placedWhy`** — the predicate the driver evaluates on the
    implementation's populations (after preparation / after the epoch).  Over a strict weak order with all distances met
    by the search below its sentinel. -/
theorem placedWhy_model (hw : StrictWeak W) (o : EpochOpts W) (gen : Int) (p p' p1 p2 : Pop W) (ex : ExecState)
    (rs rs1 rs' : List Nat) (babies : List (Org W)) (reg : Reg W) (uid : Nat) (log : List (Pop W × Org W))
    (hu : C02.UidInv p) (hnd : (p.species.map (·.id)).Nodup)
    (st : Stages o gen p rs p1 ex rs1 babies reg uid p2 log p' rs')
    (hfin : ∀ e ∈ log, finiteAt o e.1.species e.2 = true) : PopSpec.placedWhy o p1 p' = "" := by
  have hk := speciesPlacedOk_model hw o gen p p' p1 p2 ex rs rs1 rs' babies reg uid log hu hnd st hfin
  unfold PopSpec.placedWhy
  split
  · rename_i s' hfind
    exfalso
    have hs := List.mem_of_find?_eq_some hfind
    have hp := List.find?_some hfind
    rw [hk s' hs] at hp
    simp at hp
  · rfl

/-! ### non-vacuity: a concrete turnover over the toy integer scalar in which a baby joins the surviving species, another
    founds a new species, and a third joins that new species -/

/-- executable replay of the stages: (prepared population, new population, placement log) -/
def epochLog (o : EpochOpts W) (gen : Int) (p : Pop W) (rs : List Nat) : Option (Pop W × Pop W × List (Pop W × Org W)) :=
  match prepareForReproduction o p rs with
  | .error _ => none
  | .ok ((p1, ex), rs1) =>
    match reproduceAll o gen (sortedOf ex p1) p1.species p1.reg p1.nextUid [] rs1 with
    | .error _ => none
    | .ok ((babies, reg, uid), _) =>
      match speciateLoopLog o { p1 with reg := reg, nextUid := uid } babies with
      | .error _ => none
      | .ok (p2, log) => some (p1, finalizeReproduction p2, log)

theorem epochLog_of_stages (o : EpochOpts W) (gen : Int) (p p' p1 p2 : Pop W) (ex : ExecState) (rs rs1 rs' : List Nat)
    (babies : List (Org W)) (reg : Reg W) (uid : Nat) (log : List (Pop W × Org W))
    (st : Stages o gen p rs p1 ex rs1 babies reg uid p2 log p' rs') : epochLog o gen p rs = some (p1, p', log) := by
  unfold epochLog
  rw [st.prep]
  simp only
  rw [st.repro]
  simp only
  rw [st.log, st.fin]

/-- every distance the search met during the turnover was below its sentinel (the decidable hypothesis `hfin`) -/
def epochFinite (o : EpochOpts W) (gen : Int) (p : Pop W) (rs : List Nat) : Bool :=
  match epochLog o gen p rs with
  | some (_, _, log) => log.all (fun e => finiteAt o e.1.species e.2)
  | none => false

section NonVacuity
open GoNeat.ExactInt
attribute [local instance] intScalar

theorem strictWeak_int : StrictWeak Int := by
  refine ⟨?_, ?_, ?_⟩
  · intro a; simp [Scalar.lt, intScalar]
  · intro a b c; simp only [Scalar.lt, intScalar, decide_eq_true_eq]; omega
  · intro a b c; simp only [Scalar.lt, intScalar, decide_eq_true_eq]; omega

/-- PopSize 4, threshold 3, distance = difference of the mutation numbers of the single gene; offspring are unmodified
    copies of a randomly chosen parent (all mutation probabilities zero) -/
def xOpts : EpochOpts Int :=
  { popSize := 4, dropOffAge := 15, ageSignificance := 1, survivalThresh := 1, babiesStolen := 0, compatThreshold := 3,
    compat := ⟨1, 1, 1, false⟩, mutateOnlyProb := 100, mutateAddNodeProb := 0, mutateAddLinkProb := 0,
    mutateConnectSensors := 0, interspeciesMateRate := 0, mateMultipointProb := 0, mateMultipointAvgProb := 0,
    mateSinglepointProb := 0, mateOnlyProb := 0,
    mopts := { recurOnlyProb := 0, newLinkTries := 3, activators := [4], activatorProbs := [1], traitMutationPower := 0,
               traitParamMutProb := 0, weightMutPower := 0, mutateRandomTraitProb := 0, mutateLinkTraitProb := 0,
               mutateNodeTraitProb := 0, mutateLinkWeightsProb := 0, mutateToggleEnableProb := 0,
               mutateGeneReenableProb := 0 } }

def xG (id : Int) (m : Int) : Genome Int :=
  { id := id, traits := [⟨1, [0]⟩], nodes := [⟨1, Kind.input, 4, some 1⟩, ⟨2, Kind.output, 4, some 1⟩],
    genes := [⟨1, 1, 2, false, m, m, true, some 1⟩] }

def xOrg (uid : Nat) (fit m : Int) : Org Int :=
  { uid := uid, fitness := fit, genome := xG uid m, expectedOffspring := 0, generation := 1, originalFitness := 0,
    highestFitness := 0 }

/-- one species (id 1) of four organisms with mutation numbers 0, 10, 1, 11; its representative is organism 0 -/
def xPop : Pop Int :=
  { species := [{ id := 1, age := 3, maxFitnessEver := 0, expectedOffspring := 0, isNovel := false, ageOfLastImprovement := 0,
                  orgs := [xOrg 0 8 0, xOrg 1 8 10, xOrg 2 8 1, xOrg 3 8 11] }],
    organisms := [0, 1, 2, 3], lastSpecies := 1, highestFitness := 0, epochsHighestLastChanged := 0,
    reg := { records := [], nextInn := 1, nextNode := 2 }, nextUid := 4 }

/-- the parents drawn are organisms 1, 0, 3, 2 in this order -/
def stX : List Nat := (List.range 200).map (fun i => (i % 4) <<< 32)

/-- a population, species by species: (species id, [(allocation id, genome id, mutation numbers)]); `[]` on error -/
def xView (r : R (Pop Int)) : List (Int × List (Nat × Int × List Int)) :=
  match r with
  | .ok (q, _) => q.species.map (fun (s : Species Int) =>
      (s.id, s.orgs.map (fun (x : Org Int) => (x.uid, x.genome.id, x.genome.genes.map (fun (g : Gene Int) => g.mnum)))))
  | .error _ => []

/-- the placement log: (ids of the species at the moment of arrival, allocation id of the baby, decision) -/
def xLogView (o : EpochOpts Int) (l : Option (Pop Int × Pop Int × List (Pop Int × Org Int))) : List (List Int × Nat × Option Nat) :=
  match l with
  | some (_, _, log) => log.map (fun e => (e.1.species.map (fun (s : Species Int) => s.id), e.2.uid, placeTarget o e.1 e.2))
  | none => []

/-- the hypotheses of the theorems of this file hold for the example … -/
theorem exX_hyps : C02.UidInv xPop ∧ (xPop.species.map (·.id)).Nodup ∧ epochFinite xOpts 1 xPop stX = true :=
  ⟨⟨by decide, by decide⟩, by decide, by decide +kernel⟩

/-- … the turnover returns: baby 4 (mutation number 10, distance 10 from the representative) FOUNDS species 2 with the fresh id
    `lastSpecies + 1`; baby 5 (0) JOINS the surviving species 1, whose representative at that moment is the old-generation
    organism 0; baby 6 (11) joins species 2, whose representative is the founder baby 4 (distance 1; distance 11 from the old
    representative); baby 7 (1) joins species 1 (distance 1; distance 9 from baby 4).  The old generation is gone. -/
theorem exX_views :
    xView (nextEpoch xOpts 1 xPop stX) = [(1, [(5, 0, [0]), (7, 1, [1])]), (2, [(4, 2, [10]), (6, 3, [11])])] ∧
    xLogView xOpts (epochLog xOpts 1 xPop stX) =
      [([1], 4, none), ([1, 2], 5, some 0), ([1, 2], 6, some 1), ([1, 2], 7, some 0)] := by
  decide +kernel

/-- the executable predicate accepts the model's turnover (evaluated by the kernel, independently of `placedWhy_model`) … -/
example : (epochLog xOpts 1 xPop stX).map (fun r => PopSpec.placedWhy xOpts r.1 r.2.1) = some "" := by decide +kernel

/-- … and rejects it once baby 6 (mutation number 11) is moved into species 1, whose representative is at distance 11, or
    once the founder of species 2 is exchanged for an organism within the threshold of the old representative: it bites -/
example : (epochLog xOpts 1 xPop stX).map (fun r => PopSpec.placedWhy xOpts r.1
      { r.2.1 with species := r.2.1.species.map (fun s =>
          if s.id = 1 then { s with orgs := s.orgs ++ [xOrg 6 0 11] } else { s with orgs := s.orgs.take 1 }) }) ≠ some "" ∧
    (epochLog xOpts 1 xPop stX).map (fun r => PopSpec.placedWhy xOpts r.1
      { r.2.1 with species := r.2.1.species.map (fun s =>
          if s.id = 2 then { s with orgs := [xOrg 4 0 2] } else s) }) ≠ some "" := by decide +kernel

theorem xView_ok {r : R (Pop Int)} (h : xView r ≠ []) : ∃ p' rs', r = .ok (p', rs') := by
  match r, h with
  | .ok (q, rs1), _ => exact ⟨q, rs1, rfl⟩
  | .error _, h => exact absurd rfl h

/-- the conclusions of (a), (b), (d) instantiated for the example: the stages exist, every species of the new generation is a
    survivor whose members joined under its old representative or was founded during the turnover, and the executable
    predicate accepts -/
example : ∃ p' rs' p1 ex rs1 babies reg uid p2 log,
    Stages xOpts 1 xPop stX p1 ex rs1 babies reg uid p2 log p' rs' ∧
    babies.map (·.uid) = [4, 5, 6, 7] ∧ log.map (·.2) = babies ∧
    (∀ s' ∈ p'.species,
      (∃ i s1 rep, p1.species[i]? = some s1 ∧ s1.id = s'.id ∧ s1.orgs.head? = some rep ∧ rep.uid ∈ p1.organisms ∧
        ∀ x ∈ s'.orgs, JoinedE xOpts babies log s'.id i rep x) ∨
      (xPop.lastSpecies < s'.id ∧ ∃ i f x0 t', p1.species.length ≤ i ∧ s'.orgs = x0 :: t' ∧
        x0 = { f with genome := { f.genome with id := x0.genome.id } } ∧ FounderE xOpts babies log s'.id f ∧
        ∀ x ∈ t', JoinedE xOpts babies log s'.id i f x)) ∧
    (∀ e ∈ log, Nearest xOpts e.1.species e.2 (placeTarget xOpts e.1 e.2)) ∧
    PopSpec.placedWhy xOpts p1 p' = "" := by
  obtain ⟨hu, hnd, hfinB⟩ := exX_hyps
  obtain ⟨p', rs', he⟩ := xView_ok (r := nextEpoch xOpts 1 xPop stX) (by rw [exX_views.1]; simp)
  obtain ⟨p1, ex, rs1, babies, reg, uid, p2, log, blocks, st, _, _, huids, hlogb⟩ := nextEpoch_speciates_babies xOpts 1 xPop p' stX rs' he
  have hlog := epochLog_of_stages xOpts 1 xPop p' p1 p2 ex stX rs1 rs' babies reg uid log st
  have hfin : ∀ e ∈ log, finiteAt xOpts e.1.species e.2 = true := by
    unfold epochFinite at hfinB
    rw [hlog] at hfinB
    exact List.all_eq_true.mp hfinB
  have hnu : p1.nextUid = 4 := (C02.prepare_spec xOpts xPop p1 ex stX rs1 hnd st.prep).2.1
  refine ⟨p', rs', p1, ex, rs1, babies, reg, uid, p2, log, st, by rw [huids, hnu]; rfl, hlogb,
    nextEpoch_species_placed xOpts 1 xPop p' p1 p2 ex stX rs1 rs' babies reg uid log hu hnd st,
    log_nearest strictWeak_int xOpts log hfin,
    placedWhy_model strictWeak_int xOpts 1 xPop p' p1 p2 ex stX rs1 rs' babies reg uid log hu hnd st hfin⟩

/-- `spawn`: four copies of one genome (weight-mutation power 1, all draws 0) speciate into one species founded by the first -/
example : ∃ p rs' orgs p0 log, spawn xOpts (xG 0 0) stX = .ok (p, rs') ∧ speciateLoopLog xOpts p0 orgs = .ok (p, log) ∧
    p.species.length = 1 ∧
    ∀ j s', p.species[j]? = some s' →
      ∃ f t, s'.orgs = f :: t ∧ FoundedAt xOpts log 0 s' f ∧ ∀ y ∈ t, JoinedAt xOpts log j s' y := by
  have hv : (xView (spawn xOpts (xG 0 0) stX)).map (fun r => (r.1, r.2.length)) = [(1, 4)] := by decide +kernel
  obtain ⟨p, rs', he⟩ := xView_ok (r := spawn xOpts (xG 0 0) stX) (by intro h0; rw [h0] at hv; cases hv)
  obtain ⟨orgs, p0, log, _, _, _, _, hlog, _, hall⟩ := spawn_placed xOpts (xG 0 0) p stX rs' he
  refine ⟨p, rs', orgs, p0, log, he, hlog, ?_, hall⟩
  rw [he] at hv
  simp only [xView, List.map_map] at hv
  have := congrArg List.length hv
  simpa using this

end NonVacuity

end GoNeat.C08
