/-
  Property C10, END TO END over the whole epoch `nextEpoch` = prepare ; reproduce ; speciate ; finalise.

  Kind A (every scalar type, stream, registry, option setting):
    `nextEpoch_keeps_champion`  for every species of the prepared population with quota > 5, the population `nextEpoch`
                                returns holds (in a species and in its organism list) an organism whose genome equals the
                                genome of that species' first organism in everything but the id;
    `championWhy_model`         the executable predicate `PopSpec.championWhy` accepts the model's epoch;
    `runEpochs_keeps_champions` the same in every generation of a run with arbitrary evaluations in between.
  The bound "super-champion reservation ≤ quota" that `Species.reproduce` needs is DERIVED from the preparation phase
  (Proofs/ChampionChain.lean, `prepare_sc_le`), not assumed.

  Kind B (exact ordered-field arithmetic):
    `prepared_head_is_fittest`  the first organism of a prepared species is an organism of the ORIGINAL species whose raw
                                fitness no member exceeds (non-negative fitness, positive age significance, non-negative
                                survival threshold);
    `nextEpoch_keeps_fittest`   hence the preserved genome is that of a fittest organism of the original species;
    `fittestWhy_model`          the executable predicate `PopSpec.fittestWhy` accepts the model's epoch.
-/
import GoNeat.Proofs.ChampionChain
import GoNeat.Props.C10Exact
import GoNeat.Props.C09ParentsExact
import GoNeat.Props.C01
import GoNeat.Spec.PopInv
import GoNeat.Props.C09Expected

namespace GoNeat.C10
open GoNeat Scalar
variable {W : Type} [Scalar W]

/-! ### hypotheses (all decidable) -/

/-- no organism enters the epoch with champion clones reserved (every newborn: `reproduce_finalize_allZ`) -/
def ScZero (p : Pop W) : Prop := ∀ s ∈ p.species, ∀ x ∈ s.orgs, x.superChampOffspring = 0
instance (p : Pop W) : Decidable (ScZero p) := by unfold ScZero; infer_instance

instance (g : Genome W) : Decidable (C06.RefsOk g) :=
  if h : TraitRefsOwned g ∧ EndpointsOwned g ∧ (∀ m ∈ g.modules, TraitRefOk g m.ctrl.trait) ∧
      (∀ m ∈ g.modules, (∀ w ∈ m.ins, w.node ∈ nodeIds g) ∧ (∀ w ∈ m.outs, w.node ∈ nodeIds g))
  then isTrue ⟨h.1, h.2.1, h.2.2.1, h.2.2.2⟩ else isFalse (fun r => h ⟨r.1, r.2, r.3, r.4⟩)

/-- every genome's references resolve inside the genome (part of C01 well-formedness; what `Genome.duplicate` needs to
    be exact, C06) -/
def RefsOkPop (p : Pop W) : Prop := ∀ s ∈ p.species, ∀ x ∈ s.orgs, C06.RefsOk x.genome
instance (p : Pop W) : Decidable (RefsOkPop p) := by unfold RefsOkPop; infer_instance

omit [Scalar W] in
theorem mem_of_head? {α} {l : List α} {a : α} (h : l.head? = some a) : a ∈ l := by
  cases l with
  | nil => cases h
  | cons b t => simp only [List.head?_cons, Option.some.injEq] at h; subst h; exact List.mem_cons_self

theorem reproducePhase_heads (o : EpochOpts W) (gen : Int) (p1 p2 : Pop W) (ex : ExecState) (rs rs' : List Nat)
    (h : reproducePhase o gen p1 ex rs = .ok (p2, rs')) : ∀ s ∈ p1.species, ∃ champ, s.orgs.head? = some champ := by
  unfold reproducePhase at h
  simp only at h
  split at h
  · cases h
  · rename_i babies reg uid rs1 hall
    exact reproduceAll_heads _ _ _ _ _ _ _ _ _ _ _ _ hall

/-! ### Kind A: the champion's genome survives the whole epoch -/

/-- **C10, end to end (Kind A).**  Let `p` be a consistently allocated population (`UidInv`) with unique species ids, whose
    organisms carry no reservation of champion clones (true of every newborn) and whose genomes have resolvable
    references (C01).  If `nextEpoch o gen p rs` returns `p'`, and `p1` is the population the epoch's preparation phase
    `prepareForReproduction o p rs` produced (fitness adjustment, quotas, stolen babies / delta coding, removal of the
    marked organisms), then for EVERY species `s` of `p1` whose offspring quota exceeds five, `s` has a first organism
    `champ` — the champion `Species.reproduce` clones — and some organism `x` of `p'`, member of a species of `p'` and
    listed in `p'.organisms`, carries `champ`'s genome unmodified: equal traits, nodes, genes and modules, own id.
    For every scalar type, random stream, registry and option setting. -/
theorem nextEpoch_keeps_champion (o : EpochOpts W) (gen : Int) (p p' p1 : Pop W) (ex : ExecState) (rs rs1 rs' : List Nat)
    (hu : C02.UidInv p) (hnd : (p.species.map (·.id)).Nodup) (hz : ScZero p) (hrefs : RefsOkPop p)
    (hprep : prepareForReproduction o p rs = .ok ((p1, ex), rs1))
    (h : nextEpoch o gen p rs = .ok (p', rs')) :
    ∀ s ∈ p1.species, s.expectedOffspring > 5 → ∃ champ, s.orgs.head? = some champ ∧
      ∃ s' ∈ p'.species, ∃ x ∈ s'.orgs, x.uid ∈ p'.organisms ∧ IsCopy champ x := by
  unfold nextEpoch at h
  rw [hprep] at h
  simp only at h
  split at h
  · cases h
  · rename_i p2 rs2 hrep
    simp only [Except.ok.injEq, Prod.mk.injEq] at h
    obtain ⟨rfl, _⟩ := h
    have hu1 := (C02.prepare_uidInv o p p1 ex rs rs1 hnd hu hprep).1
    have hle := prepare_sc_le o p p1 ex rs rs1 hnd hz hprep
    have hgen := (C01.prepare_genomes o p p1 ex rs rs1 hprep).1
    intro s hs hq
    obtain ⟨champ, hc⟩ := reproducePhase_heads o gen p1 p2 ex rs1 rs2 hrep s hs
    have hcm := mem_of_head? hc
    obtain ⟨s0, hs0, y, hy, e⟩ := hgen s hs champ hcm
    have hr : C06.RefsOk champ.genome := e ▸ hrefs s0 hs0 y hy
    exact ⟨champ, hc, reproduce_finalize_has_copy o gen p1 p2 ex rs1 rs2 hu1 hrep s hs champ hc hr hq (hle s hs champ hcm).2⟩

/-! ### the executable predicate of the driver -/

omit [Scalar W] in
theorem zip_self_all {α} (l : List α) (q : α × α → Bool) (h : ∀ a, q (a, a) = true) : (List.zip l l).all q = true := by
  induction l with
  | nil => rfl
  | cons a t ih => simp [List.zip_cons_cons, h a, ih]

omit [Scalar W] in
theorem traitsEq_self (weq : W → W → Bool) (hweq : ∀ a, weq a a = true) (l : List (Trait W)) :
    MutationSpec.traitsEq weq l l = true := by
  unfold MutationSpec.traitsEq
  simp only [beq_self_eq_true, Bool.true_and]
  apply zip_self_all
  intro t
  unfold MutationSpec.traitEq
  simp only [beq_self_eq_true, Bool.true_and]
  exact zip_self_all _ _ (fun a => hweq a)

omit [Scalar W] in
theorem genesEq_self (weq : W → W → Bool) (hweq : ∀ a, weq a a = true) (l : List (Gene W)) :
    MutationSpec.genesEq weq l l = true := by
  unfold MutationSpec.genesEq
  simp only [beq_self_eq_true, Bool.true_and]
  apply zip_self_all
  intro g
  unfold MutationSpec.geneEq MutationSpec.optEq
  simp [hweq]

omit [Scalar W] in
/-- an unmodified copy passes the driver's comparison `genomeEqModId` for every reflexive scalar comparison (the driver
    uses bit equality of float64) -/
theorem genomeEqModId_of_isCopy (weq : W → W → Bool) (hweq : ∀ a, weq a a = true) (champ x : Org W) (h : IsCopy champ x) :
    PopSpec.genomeEqModId weq champ.genome x.genome = true := by
  obtain ⟨id, hid⟩ := h
  rw [hid]
  unfold PopSpec.genomeEqModId
  simp only [traitsEq_self weq hweq, genesEq_self weq hweq, beq_self_eq_true, Bool.and_self]

/-- **C10: the model's epoch passes `PopSpec.championWhy`** — the predicate the driver evaluates on the implementation's
    populations (after preparation / after the epoch), for every reflexive scalar comparison `weq`. -/
theorem championWhy_model (weq : W → W → Bool) (hweq : ∀ a, weq a a = true)
    (o : EpochOpts W) (gen : Int) (p p' p1 : Pop W) (ex : ExecState) (rs rs1 rs' : List Nat)
    (hu : C02.UidInv p) (hnd : (p.species.map (·.id)).Nodup) (hz : ScZero p) (hrefs : RefsOkPop p)
    (hprep : prepareForReproduction o p rs = .ok ((p1, ex), rs1))
    (h : nextEpoch o gen p rs = .ok (p', rs')) : PopSpec.championWhy weq p1 p' = "" := by
  have hk := nextEpoch_keeps_champion o gen p p' p1 ex rs rs1 rs' hu hnd hz hrefs hprep h
  unfold PopSpec.championWhy
  split
  · rename_i s hfind
    exfalso
    have hs := List.mem_of_find?_eq_some hfind
    have hp := List.find?_some hfind
    simp only [Bool.and_eq_true, decide_eq_true_eq] at hp
    obtain ⟨hq, hm⟩ := hp
    obtain ⟨champ, hc, s', hs', x, hx, _, hcopy⟩ := hk s hs hq
    rw [hc] at hm
    have hany : (PopSpec.allOrgs p').any (fun o => PopSpec.genomeEqModId weq champ.genome o.genome) = true :=
      List.any_eq_true.mpr ⟨x, List.mem_flatMap.mpr ⟨s', hs', hx⟩, genomeEqModId_of_isCopy weq hweq champ x hcopy⟩
    simp only [hany, Bool.not_true] at hm
    cases hm
  · rfl

/-! ### the champion is the head of the adjusted species (Kind A), which is a fittest organism (Kind B) -/

/-- what identifies an organism through the preparation phase: allocation id, genome, elimination mark -/
def hkey (x : Org W) : Nat × Genome W × Bool := (x.uid, x.genome, x.toEliminate)

/-- **the first organism of a prepared species is the first organism of the species as `adjustFitness` sorted it**
    (same allocation id, same genome) — provided allocation ids are pairwise distinct, no organism enters the epoch marked
    for elimination, and the parent cut keeps at least one organism (`numParents ≥ 1`; C09ParentsExact: true in exact
    arithmetic for a non-negative survival threshold).  Kind A. -/
theorem prepared_head_is_adjusted_head (o : EpochOpts W) (p p1 : Pop W) (ex : ExecState) (rs rs1 : List Nat)
    (hnd : (p.species.map (·.id)).Nodup) (hundup : (C02.orgUids p.species).Nodup)
    (hun : ∀ s ∈ p.species, ∀ x ∈ s.orgs, x.toEliminate = false)
    (hpar : ∀ s ∈ p.species, 1 ≤ C09.numParents o s.orgs.length)
    (hprep : prepareForReproduction o p rs = .ok ((p1, ex), rs1)) :
    ∀ s ∈ p1.species, ∀ champ, s.orgs.head? = some champ →
      ∃ s0 ∈ p.species, s0.id = s.id ∧ ∃ sa top rest, adjustFitness o s0 = .ok sa ∧ sa.orgs = top :: rest ∧
        champ.uid = top.uid ∧ champ.genome = top.genome := by
  obtain ⟨species1, best, tail, e, sorted2, ehlc, doomed, pre, hadj, hsorted, hred, hpre, _, hdoomed, hsp, _, _⟩ :=
    prepare_decomp o p p1 ex rs rs1 hprep
  obtain ⟨_, _, hsub, hwb⟩ := chain_gkeys (hkey (W := W)) (by intro t v; rfl) (by intro t; rfl) (by intro t v; rfl)
    o p species1 best tail e rs sorted2 ehlc rs1 hnd hadj hsorted hred
  have hmid : (pre.species.map (gkey hkey)).Sublist (species1.map (gkey hkey)) := by rw [hpre, hwb]; exact hsub
  have hnd1 : (C02.orgUids species1).Nodup := (C02.adjustAll_uids o _ _ hadj).nodup_iff.mpr hundup
  have hndpre : (C02.orgUids pre.species).Nodup := by
    rw [uids_of_gkeys hkey (·.1) (fun _ => rfl)] at hnd1 ⊢
    exact (C09.sublist_flatMap _ hmid).nodup hnd1
  intro s hs champ hc
  rw [hsp] at hs
  obtain ⟨m, hm, rfl⟩ := List.mem_map.mp hs
  simp only at hc
  obtain ⟨sa, hsa, hka⟩ := List.mem_map.mp (hmid.subset (List.mem_map_of_mem hm))
  obtain ⟨s0, hs0, hadj0⟩ := C09.adjustAll_mem o _ _ hadj sa hsa
  have hid0 : sa.id = s0.id := (C09.adjustFitness_orgs o s0 sa hadj0).1
  simp only [gkey, Prod.mk.injEq] at hka
  obtain ⟨hid, horgs⟩ := hka
  have hcm : champ ∈ m.orgs := (List.mem_filter.mp (mem_of_head? hc)).1
  cases hmo : m.orgs with
  | nil => rw [hmo] at hcm; cases hcm
  | cons tm restm =>
    cases hso : sa.orgs with
    | nil => rw [hmo, hso] at horgs; simp at horgs
    | cons top rest =>
      rw [hmo, hso] at horgs
      simp only [List.map_cons, List.cons.injEq, hkey, Prod.mk.injEq] at horgs
      obtain ⟨⟨e1, e2, e3⟩, _⟩ := horgs
      obtain ⟨y, hy, _, _, _, hte⟩ := adjustFitness_head o s0 sa top rest hadj0 hso
      have htop : top.toEliminate = false := by rw [hte (hpar s0 hs0)]; exact hun s0 hs0 y hy
      have htm : tm.toEliminate = false := by rw [← e3]; exact htop
      have hnd' := not_doomed pre hndpre m hm tm (by rw [hmo]; simp) htm
      rw [← hdoomed] at hnd'
      rw [hmo] at hc
      simp only [List.filter_cons, hnd', Bool.not_false, ↓reduceIte, List.head?_cons, Option.some.injEq] at hc
      subst hc
      exact ⟨s0, hs0, by show s0.id = m.id; rw [← hid0, hid], sa, top, rest, hadj0, hso, e1.symm, e2.symm⟩

section KindB
variable {K : Type} [Field K] [LinearOrder K] [IsStrictOrderedRing K] [FloorRing K]

/-- **C10 (Kind B): the champion of a prepared species is a fittest organism of the ORIGINAL species.**  In exact
    arithmetic, for non-negative raw fitness values, positive age significance and a non-negative survival threshold,
    pairwise distinct allocation ids, unique species ids and no organism marked on entry: the first organism of every
    species left after `prepareForReproduction` has the allocation id and the genome of an organism `y` of the species
    with the same id in the population BEFORE the turnover, and no member of that species has a raw fitness above `y`'s. -/
theorem prepared_head_is_fittest (o : EpochOpts K) (p p1 : Pop K) (ex : ExecState) (rs rs1 : List Nat)
    (hnd : (p.species.map (·.id)).Nodup) (hundup : (C02.orgUids p.species).Nodup)
    (hun : ∀ s ∈ p.species, ∀ x ∈ s.orgs, x.toEliminate = false)
    (hnn : ∀ s ∈ p.species, ∀ x ∈ s.orgs, 0 ≤ x.fitness) (ha : 0 < o.ageSignificance) (hst : 0 ≤ o.survivalThresh)
    (hprep : prepareForReproduction o p rs = .ok ((p1, ex), rs1)) :
    ∀ s ∈ p1.species, ∀ champ, s.orgs.head? = some champ →
      ∃ s0 ∈ p.species, s0.id = s.id ∧ ∃ y ∈ s0.orgs, champ.uid = y.uid ∧ champ.genome = y.genome ∧
        ∀ x ∈ s0.orgs, x.fitness ≤ y.fitness := by
  intro s hs champ hc
  obtain ⟨s0, hs0, hid, sa, top, rest, hadj0, hso, e1, e2⟩ :=
    prepared_head_is_adjusted_head o p p1 ex rs rs1 hnd hundup hun (fun s _ => C09.numParents_pos o _ hst) hprep s hs champ hc
  obtain ⟨y, hy, u1, u2, u3, _⟩ := adjustFitness_head o s0 sa top rest hadj0 hso
  have hmax := (champion_is_fittest o s0 sa top rest hadj0 hso (hnn s0 hs0) ha).2
  exact ⟨s0, hs0, hid, y, hy, e1.trans u1, e2.trans u2, fun x hx => u3 ▸ hmax x hx⟩

/-- **C10, end to end, stated from the population BEFORE the turnover (Kind B).**  Under the hypotheses of
    `nextEpoch_keeps_champion` and `prepared_head_is_fittest`: for every species of the prepared population whose quota
    exceeds five, the species `s0` with the same id in the ORIGINAL population has an organism `y` whose raw fitness no
    member of `s0` exceeds (the fittest organism; unique when the values are distinct) such that the population returned
    by `nextEpoch` holds an organism — in one of its species and in its organism list — carrying `y`'s genome
    unmodified (own id). -/
theorem nextEpoch_keeps_fittest (o : EpochOpts K) (gen : Int) (p p' p1 : Pop K) (ex : ExecState) (rs rs1 rs' : List Nat)
    (hu : C02.UidInv p) (hnd : (p.species.map (·.id)).Nodup) (hundup : (C02.orgUids p.species).Nodup)
    (hz : ScZero p) (hrefs : RefsOkPop p) (hun : ∀ s ∈ p.species, ∀ x ∈ s.orgs, x.toEliminate = false)
    (hnn : ∀ s ∈ p.species, ∀ x ∈ s.orgs, 0 ≤ x.fitness) (ha : 0 < o.ageSignificance) (hst : 0 ≤ o.survivalThresh)
    (hprep : prepareForReproduction o p rs = .ok ((p1, ex), rs1))
    (h : nextEpoch o gen p rs = .ok (p', rs')) :
    ∀ s ∈ p1.species, s.expectedOffspring > 5 →
      ∃ s0 ∈ p.species, s0.id = s.id ∧ ∃ y ∈ s0.orgs, (∀ x ∈ s0.orgs, x.fitness ≤ y.fitness) ∧
        ∃ s' ∈ p'.species, ∃ x ∈ s'.orgs, x.uid ∈ p'.organisms ∧ IsCopy y x := by
  intro s hs hq
  obtain ⟨champ, hc, s', hs', x, hx, hlist, hcopy⟩ :=
    nextEpoch_keeps_champion o gen p p' p1 ex rs rs1 rs' hu hnd hz hrefs hprep h s hs hq
  obtain ⟨s0, hs0, hid, y, hy, _, hg, hmax⟩ :=
    prepared_head_is_fittest o p p1 ex rs rs1 hnd hundup hun hnn ha hst hprep s hs champ hc
  refine ⟨s0, hs0, hid, y, hy, hmax, s', hs', x, hx, hlist, ?_⟩
  obtain ⟨i, hi⟩ := hcopy
  exact ⟨i, by rw [hi, hg]⟩

/-- **C10 (Kind B): the model's epoch passes `PopSpec.fittestWhy`** — the predicate the driver evaluates on the
    implementation's populations before the turnover / after preparation / after the epoch — for every reflexive scalar
    comparison `weq`. -/
theorem fittestWhy_model (weq : K → K → Bool) (hweq : ∀ a, weq a a = true)
    (o : EpochOpts K) (gen : Int) (p p' p1 : Pop K) (ex : ExecState) (rs rs1 rs' : List Nat)
    (hu : C02.UidInv p) (hnd : (p.species.map (·.id)).Nodup) (hundup : (C02.orgUids p.species).Nodup)
    (hz : ScZero p) (hrefs : RefsOkPop p) (hun : ∀ s ∈ p.species, ∀ x ∈ s.orgs, x.toEliminate = false)
    (hnn : ∀ s ∈ p.species, ∀ x ∈ s.orgs, 0 ≤ x.fitness) (ha : 0 < o.ageSignificance) (hst : 0 ≤ o.survivalThresh)
    (hprep : prepareForReproduction o p rs = .ok ((p1, ex), rs1))
    (h : nextEpoch o gen p rs = .ok (p', rs')) : PopSpec.fittestWhy weq p p1 p' = "" := by
  have hk := nextEpoch_keeps_fittest o gen p p' p1 ex rs rs1 rs' hu hnd hundup hz hrefs hun hnn ha hst hprep h
  unfold PopSpec.fittestWhy
  split
  · rename_i s hfind
    exfalso
    have hs := List.mem_of_find?_eq_some hfind
    have hp := List.find?_some hfind
    simp only [Bool.and_eq_true, decide_eq_true_eq] at hp
    obtain ⟨hq, hm⟩ := hp
    obtain ⟨s0, hs0, hid, y, hy, hmax, s', hs', x, hx, _, hcopy⟩ := hk s hs hq
    have hf : p.species.find? (fun b => b.id == s.id) = some s0 := by
      rw [← hid]; exact C09.find_by_own_id p.species hnd s0 hs0
    rw [hf] at hm
    simp only [Bool.and_eq_true, Bool.not_eq_true'] at hm
    have hyf : y ∈ s0.orgs.filter (fun x => s0.orgs.all (fun z => !(Scalar.lt x.fitness z.fitness))) := by
      refine List.mem_filter.mpr ⟨hy, ?_⟩
      rw [List.all_eq_true]
      intro z hz'
      simp only [Exact.lt_eq, Bool.not_eq_true', decide_eq_false_iff_not, not_lt]
      exact hmax z hz'
    have hany : (s0.orgs.filter (fun x => s0.orgs.all (fun z => !(Scalar.lt x.fitness z.fitness)))).any
        (fun champ => (PopSpec.allOrgs p').any (fun o => PopSpec.genomeEqModId weq champ.genome o.genome)) = true :=
      List.any_eq_true.mpr ⟨y, hyf, List.any_eq_true.mpr
        ⟨x, List.mem_flatMap.mpr ⟨s', hs', hx⟩, genomeEqModId_of_isCopy weq hweq y x hcopy⟩⟩
    rw [hany] at hm
    cases hm.2
  · rfl

end KindB

/-! ### every generation of a run -/

/-- what C10 needs of a population entering an epoch — an invariant of `nextEpoch` (`nextEpoch_champInv`): the C02
    allocation and species-id invariants, no reservation of champion clones, the C01 pool invariant (which contains
    "references resolve") -/
structure ChampInv (p : Pop W) : Prop where
  uid : C02.UidInv p
  spid : C02.SpIdInv p
  sc : ScZero p
  pool : C01.PoolOk p.reg (C01.genomesOfPop p)

theorem refsOk_of_pool (p : Pop W) (h : C01.PoolOk p.reg (C01.genomesOfPop p)) : RefsOkPop p := by
  intro s hs x hx
  have f := h x.genome (C01.mem_genomesOfPop.mpr ⟨s, hs, x, hx, rfl⟩)
  exact ⟨f.wft.wf.traitRefs, f.wft.wf.endpoints, (by rw [f.nomod]; intro m hm; cases hm), (by rw [f.nomod]; intro m hm; cases hm)⟩

/-- the invariant is re-established by every epoch (C02 `nextEpoch_popInv`, C01 `nextEpoch_closed`, newborns carry no
    reservation) -/
theorem nextEpoch_champInv (o : EpochOpts W) (gen : Int) (p p' : Pop W) (rs rs' : List Nat) (hinv : ChampInv p)
    (h : nextEpoch o gen p rs = .ok (p', rs')) : ChampInv p' := by
  obtain ⟨_, hu', hs'⟩ := C02.nextEpoch_popInv o gen p p' rs rs' hinv.uid hinv.spid h
  have hpool := C01.nextEpoch_closed [] o gen p p' rs rs' (by simpa using hinv.pool) h
  refine ⟨hu', hs', ?_, by simpa using hpool⟩
  unfold nextEpoch at h
  split at h
  · cases h
  · rename_i p1 ex rs1 hprep
    split at h
    · cases h
    · rename_i p2 rs2 hrep
      simp only [Except.ok.injEq, Prod.mk.injEq] at h
      obtain ⟨rfl, _⟩ := h
      have hu1 := (C02.prepare_uidInv o p p1 ex rs rs1 hinv.spid.nodup hinv.uid hprep).1
      exact reproduce_finalize_allZ o gen p1 p2 ex rs1 rs2 hu1 hrep

/-- what an evaluation between two epochs may do: assign fitness values and the like (`C02.SameShape`), touch no genome,
    not the registry, and reserve no champion clones -/
def EvalKeeps (q q' : Pop W) : Prop :=
  C02.SameShape q q' ∧ (∀ g ∈ C01.genomesOfPop q', g ∈ C01.genomesOfPop q) ∧ q'.reg = q.reg ∧ (ScZero q → ScZero q')

theorem champInv_eval (q q' : Pop W) (he : EvalKeeps q q') (h : ChampInv q) : ChampInv q' := by
  obtain ⟨hsh, hg, hreg, hsc⟩ := he
  obtain ⟨hu', hs'⟩ := C02.sameShape_inv q q' hsh h.uid h.spid
  exact ⟨hu', hs', hsc h.sc, by rw [hreg]; exact h.pool.subset hg⟩

/-- one epoch from `q` with stream `rs` to `q'` keeps the champion of every sizeable species (the statement of
    `nextEpoch_keeps_champion`) -/
def KeepsChampions (o : EpochOpts W) (q : Pop W) (rs : List Nat) (q' : Pop W) : Prop :=
  ∀ p1 ex rs1, prepareForReproduction o q rs = .ok ((p1, ex), rs1) →
    ∀ s ∈ p1.species, s.expectedOffspring > 5 → ∃ champ, s.orgs.head? = some champ ∧
      ∃ s' ∈ q'.species, ∃ x ∈ s'.orgs, x.uid ∈ q'.organisms ∧ IsCopy champ x

/-- the epochs `C02.runEpochs` performs: (evaluated population entering the epoch, stream, population returned) -/
def runSteps (o : EpochOpts W) : List (Pop W → Pop W) → Int → Pop W → List Nat → List (Pop W × List Nat × Pop W)
  | [], _, _, _ => []
  | ev :: evs, gen, p, rs =>
    match nextEpoch o gen (ev p) rs with
    | .error _ => []
    | .ok (p', rs') => (ev p, rs, p') :: runSteps o evs (gen + 1) p' rs'

/-- **C10 over whole runs.**  Starting from a population that satisfies the invariant, in EVERY generation of a run of
    any length — evaluate, turn over, evaluate, turn over, … with arbitrary evaluations that only assign fitness values —
    the champion of every species whose quota exceeds five is preserved unmodified into the next generation; the
    invariant holds for every population entering an epoch and for the final one, which (C02 `runEpochs_inv`) again
    holds exactly `PopSize` organisms partitioned into non-empty species. -/
theorem runEpochs_keeps_champions (o : EpochOpts W) (evs : List (Pop W → Pop W)) (gen : Int) (p p' : Pop W) (rs rs' : List Nat)
    (hev : ∀ ev ∈ evs, ∀ q, EvalKeeps q (ev q)) (hinv : ChampInv p)
    (h : C02.runEpochs o evs gen p rs = .ok (p', rs')) :
    ChampInv p' ∧ (runSteps o evs gen p rs).length = evs.length ∧
    (∀ st ∈ runSteps o evs gen p rs, ChampInv st.1 ∧ KeepsChampions o st.1 st.2.1 st.2.2) ∧
    (evs ≠ [] → p'.organisms.length = o.popSize ∧ p'.organisms.Nodup ∧ p'.organisms = C02.orgUids p'.species ∧
      ∀ s ∈ p'.species, s.orgs ≠ []) := by
  have hinvC02 := C02.runEpochs_inv o evs gen p p' rs rs' (fun ev he q => (hev ev he q).1) hinv.uid hinv.spid h
  refine ⟨?_, ?_, ?_, fun hne => by obtain ⟨a1, a2, a3, a4, _⟩ := hinvC02.2.2.2 hne; exact ⟨a1, a2, a3, a4⟩⟩
  all_goals
    induction evs generalizing gen p rs with
    | nil =>
      simp only [C02.runEpochs, Except.ok.injEq, Prod.mk.injEq] at h
      obtain ⟨rfl, _⟩ := h
      first
        | exact hinv
        | rfl
        | (intro st hst; cases hst)
    | cons ev evs ih =>
      simp only [C02.runEpochs] at h
      split at h
      · cases h
      · rename_i q1 rs1 h1
        have hinv0 := champInv_eval p (ev p) (hev ev (by simp) p) hinv
        have hinv1 := nextEpoch_champInv o gen (ev p) q1 rs rs1 hinv0 h1
        have hinvC02' := C02.runEpochs_inv o evs (gen + 1) q1 p' rs1 rs' (fun e he q => (hev e (by simp [he]) q).1) hinv1.uid hinv1.spid h
        have ih' := ih (gen + 1) q1 rs1 (fun e he => hev e (by simp [he])) hinv1 h hinvC02'
        first
          | exact ih'
          | (simp only [runSteps, h1, List.length_cons]; rw [ih'])
          | (intro st hst
             simp only [runSteps, h1, List.mem_cons] at hst
             rcases hst with rfl | hst
             · refine ⟨hinv0, ?_⟩
               intro p1 ex rs1' hprep
               exact nextEpoch_keeps_champion o gen (ev p) q1 p1 ex rs rs1' rs1 hinv0.uid hinv0.spid.nodup hinv0.sc
                 (refsOk_of_pool _ hinv0.pool) hprep h1
             · exact ih' st hst)

/-! ### evaluations that assign fitness values satisfy `EvalKeeps` -/

/-- an evaluation: every organism gets the fitness `f` computes for it, nothing else changes -/
def setFitness (f : Org W → W) (p : Pop W) : Pop W :=
  { p with species := p.species.map (fun s => { s with orgs := s.orgs.map (fun x => { x with fitness := f x }) }) }

theorem evalKeeps_setFitness (f : Org W → W) (q : Pop W) : EvalKeeps q (setFitness f q) := by
  refine ⟨⟨rfl, rfl, rfl, ?_⟩, ?_, rfl, ?_⟩
  · simp only [setFitness, List.map_map]
    apply List.map_congr_left
    intro s _
    simp [C02.ukey, C02.skey, List.map_map, Function.comp_def]
  · intro g hg
    obtain ⟨s', hs', x', hx', rfl⟩ := C01.mem_genomesOfPop.mp hg
    obtain ⟨s, hs, rfl⟩ := List.mem_map.mp hs'
    obtain ⟨x, hx, rfl⟩ := List.mem_map.mp hx'
    exact C01.mem_genomesOfPop.mpr ⟨s, hs, x, hx, rfl⟩
  · intro hz s' hs' x' hx'
    obtain ⟨s, hs, rfl⟩ := List.mem_map.mp hs'
    obtain ⟨x, hx, rfl⟩ := List.mem_map.mp hx'
    exact hz s hs x hx

/-! ### non-vacuity: concrete epochs over ℚ (exact arithmetic) satisfy every hypothesis, for each of the three ways the
    preparation phase can end (nothing redistributed / delta coding / stolen babies), and a two-generation run -/
section NonVacuity
open GoNeat.C09 (ratScalar ratScalar_eq qOpts)

/-- after preparation: (species id, quota, [(allocation id, reservation)] of the organisms left as parents); `[]` on error -/
def prepView {W} (r : R (Pop W × ExecState)) : List (Int × Int × List (Nat × Int)) :=
  match r with
  | .ok ((q, _), _) => q.species.map (fun (s : Species W) =>
      (s.id, s.expectedOffspring, s.orgs.map (fun (x : Org W) => (x.uid, x.superChampOffspring))))
  | .error _ => []

/-- a population, one row per organism: (species id, allocation id, [(innovation number, weight)] of the genome);
    `[]` on error -/
def popView {W} (r : R (Pop W)) : List (Int × Nat × List (Int × W)) :=
  match r with
  | .ok (q, _) => q.species.flatMap (fun (s : Species W) =>
      s.orgs.map (fun (x : Org W) => (s.id, x.uid, x.genome.genes.map (fun (g : Gene W) => (g.inn, g.w)))))
  | .error _ => []

/-- the two executable C10 predicates of the driver on the results of the two phases -/
def whyView {W} [Scalar W] (weq : W → W → Bool) (before : Pop W) (r1 : R (Pop W × ExecState)) (r2 : R (Pop W)) :
    Option (String × String) :=
  match r1, r2 with
  | .ok ((p1, _), _), .ok (p', _) => some (PopSpec.championWhy weq p1 p', PopSpec.fittestWhy weq before p1 p')
  | _, _ => none

theorem prepView_ok {W} {r : R (Pop W × ExecState)} (h : prepView r ≠ []) :
    ∃ p1 ex rs1, r = .ok ((p1, ex), rs1) ∧
      prepView r = p1.species.map (fun (s : Species W) => (s.id, s.expectedOffspring, s.orgs.map (fun (x : Org W) => (x.uid, x.superChampOffspring)))) := by
  match r, h with
  | .ok ((q, ex), rs1), _ => exact ⟨q, ex, rs1, rfl, rfl⟩
  | .error _, h => exact absurd rfl h

theorem popView_ok {W} {r : R (Pop W)} (h : popView r ≠ []) : ∃ p' rs', r = .ok (p', rs') := by
  match r, h with
  | .ok (q, rs1), _ => exact ⟨q, rs1, rfl⟩
  | .error _, h => exact absurd rfl h

def qOrg8 (uid : Nat) (f : ℚ) : Org ℚ :=
  { uid := uid, fitness := f, expectedOffspring := 0, generation := 0, originalFitness := 0, highestFitness := 0,
    genome := { id := uid, traits := [⟨1, []⟩], nodes := [⟨1, Kind.input, 4, none⟩, ⟨2, Kind.output, 4, none⟩],
                genes := [⟨1, 1, 2, false, uid, 0, true, none⟩] } }

/-- PopSize 8, survival threshold 1/2, no stolen babies, every organism that is not a champion copy gets an add-node
    mutation -/
def qOpts8 : EpochOpts ℚ := { qOpts with popSize := 8 }

/-- one species of eight organisms with raw fitness 1, 9, 2, 3, …, 7: the fittest is organism 1, whose single gene has
    weight 1 (organism `i`'s gene has weight `i`) -/
def qPop8 : Pop ℚ :=
  { species := [{ id := 1, age := 3, maxFitnessEver := 0, expectedOffspring := 0, isNovel := false,
                  orgs := [qOrg8 0 1, qOrg8 1 9, qOrg8 2 2, qOrg8 3 3, qOrg8 4 4, qOrg8 5 5, qOrg8 6 6, qOrg8 7 7],
                  ageOfLastImprovement := 0 }],
    organisms := [0, 1, 2, 3, 4, 5, 6, 7], lastSpecies := 1, highestFitness := 0, epochsHighestLastChanged := 0,
    reg := { records := [], nextInn := 1, nextNode := 2 }, nextUid := 8 }

/-- the same population long after its last record: delta coding runs -/
def qPop8d : Pop ℚ := { qPop8 with highestFitness := 1000, epochsHighestLastChanged := 30 }

/-- two old species of eight; two babies are stolen -/
def qOpts16 : EpochOpts ℚ := { qOpts with popSize := 16, babiesStolen := 2 }
def qPop16 : Pop ℚ :=
  { species := [{ id := 1, age := 8, maxFitnessEver := 0, expectedOffspring := 0, isNovel := false, ageOfLastImprovement := 7,
                  orgs := [qOrg8 0 10, qOrg8 1 8, qOrg8 2 9, qOrg8 3 3, qOrg8 8 10, qOrg8 9 8, qOrg8 10 9, qOrg8 11 12] },
                { id := 2, age := 8, maxFitnessEver := 0, expectedOffspring := 0, isNovel := false, ageOfLastImprovement := 7,
                  orgs := [qOrg8 4 4, qOrg8 5 5, qOrg8 6 6, qOrg8 7 7, qOrg8 12 4, qOrg8 13 5, qOrg8 14 6, qOrg8 15 7] }],
    organisms := [0, 1, 2, 3, 4, 5, 6, 7, 8, 9, 10, 11, 12, 13, 14, 15], lastSpecies := 2, highestFitness := 0,
    epochsHighestLastChanged := 0, reg := { records := [], nextInn := 1, nextNode := 2 }, nextUid := 16 }

/-- every raw draw is 2^62: every unit draw is 1/2 -/
def st8 : List Nat := List.replicate 200 (2 ^ 62)

/-- the decidable hypotheses of ALL theorems of this file, bundled -/
def AllHyps (o : EpochOpts ℚ) (p : Pop ℚ) : Prop :=
  C02.UidInv p ∧ (p.species.map (·.id)).Nodup ∧ (C02.orgUids p.species).Nodup ∧ ScZero p ∧ RefsOkPop p ∧
  (∀ s ∈ p.species, ∀ x ∈ s.orgs, x.toEliminate = false) ∧ (∀ s ∈ p.species, ∀ x ∈ s.orgs, 0 ≤ x.fitness) ∧
  0 < o.ageSignificance ∧ 0 ≤ o.survivalThresh

theorem exHyps8 : AllHyps qOpts8 qPop8 ∧ AllHyps qOpts8 qPop8d ∧ AllHyps qOpts16 qPop16 := by
  refine ⟨⟨⟨by decide, by decide⟩, by decide, by decide, by decide, by decide +kernel, by decide, by decide +kernel, ?_, ?_⟩,
          ⟨⟨by decide, by decide⟩, by decide, by decide, by decide, by decide +kernel, by decide, by decide +kernel, ?_, ?_⟩,
          ⟨⟨by decide, by decide⟩, by decide, by decide, by decide, by decide +kernel, by decide, by decide +kernel, ?_, ?_⟩⟩ <;>
    norm_num [qOpts8, qOpts16, qOpts]

/-- **(A) nothing redistributed**: quota 8, no reservation, five parents left (floor(8/2)+1), the first is organism 1 —
    the fittest; in the next generation organism 8 carries its genome (weight 1) unmodified, the seven others are
    mutated offspring of organism 4. -/
theorem exA_views :
    prepView (prepareForReproduction qOpts8 qPop8 st8) = [(1, 8, [(1, 0), (7, 0), (6, 0), (5, 0), (4, 0)])] ∧
    popView (nextEpoch qOpts8 1 qPop8 st8) =
      [(2, 8, [(1, 1)]), (3, 9, [(1, 4), (2, 1), (3, 4)]), (4, 10, [(1, 4), (2, 1), (3, 4)]),
            (5, 11, [(1, 4), (2, 1), (3, 4)]), (6, 12, [(1, 4), (2, 1), (3, 4)]), (7, 13, [(1, 4), (2, 1), (3, 4)]),
            (8, 14, [(1, 4), (2, 1), (3, 4)]), (9, 15, [(1, 4), (2, 1), (3, 4)])] := by
  rw [ratScalar_eq]; decide +kernel

/-- **(B) delta coding**: the champion gets reservation 8 = quota 8 (`prepare_sc_le` holds with equality); the last
    super-champion clone is the exact copy. -/
theorem exB_views :
    prepView (prepareForReproduction qOpts8 qPop8d st8) = [(1, 8, [(1, 8), (7, 0), (6, 0), (5, 0), (4, 0)])] ∧
    (popView (nextEpoch qOpts8 1 qPop8d st8)).map (fun row => (row.2.1, row.2.2)) =
      [(8, [(1, 1)]), (9, [(1, 1)]), (10, [(1, 1)]), (11, [(1, 1)]), (12, [(1, 1)]), (13, [(1, 1)]), (14, [(1, 1)]),
            (15, [(1, 1)])] := by
  rw [ratScalar_eq]; decide +kernel

/-- **(C) stolen babies**: species 1 ends with quota 11 and reservation 2 on its champion (organism 11, raw fitness 12,
    the fittest), species 2 with quota 5 (not above five: no claim); organisms 16–18 of the next generation carry the
    champion's genome (weight 11): two super-champion clones (weight-mutation power 0) and the champion clone. -/
theorem exC_views :
    prepView (prepareForReproduction qOpts16 qPop16 st8) =
      [(1, 11, [(11, 2), (0, 0), (8, 0), (2, 0), (10, 0)]), (2, 5, [(7, 0), (15, 0), (6, 0), (14, 0), (5, 0)])] ∧
    ((popView (nextEpoch qOpts16 1 qPop16 st8)).take 4).map (·.2) =
      [(16, [(1, 11)]), (17, [(1, 11)]), (18, [(1, 11)]), (19, [(1, 10), (2, 1), (3, 10)])] := by
  rw [ratScalar_eq]; decide +kernel

/-- the executable predicates accept the three model epochs (evaluated by the kernel, independently of
    `championWhy_model` / `fittestWhy_model`) … -/
example :
    whyView (fun a b => decide (a = b)) qPop8 (prepareForReproduction qOpts8 qPop8 st8) (nextEpoch qOpts8 1 qPop8 st8) = some ("", "") ∧
    whyView (fun a b => decide (a = b)) qPop8d (prepareForReproduction qOpts8 qPop8d st8) (nextEpoch qOpts8 1 qPop8d st8) = some ("", "") ∧
    whyView (fun a b => decide (a = b)) qPop16 (prepareForReproduction qOpts16 qPop16 st8) (nextEpoch qOpts16 1 qPop16 st8) = some ("", "") := by
  rw [ratScalar_eq]; decide +kernel

/-- … and reject the first epoch once the species holding the copy (organism 8) is removed from the result: the
    predicates bite -/
example :
    whyView (fun a b => decide (a = b)) qPop8 (prepareForReproduction qOpts8 qPop8 st8)
      (match nextEpoch qOpts8 1 qPop8 st8 with
       | .ok (q, rs) => .ok ({ q with species := q.species.drop 1 }, rs)
       | .error e => .error e) ≠ some ("", "") := by
  rw [ratScalar_eq]; decide +kernel

/-- the conclusions of the end-to-end theorems, instantiated for the three epochs: both phases return, a species with
    quota above five exists, and a fittest organism of its original species has an unmodified copy in the next generation -/
theorem exConclusion (o : EpochOpts ℚ) (p : Pop ℚ) (hyp : AllHyps o p)
    (h1 : ∃ e ∈ prepView (prepareForReproduction o p st8), e.2.1 > 5) (h2 : popView (nextEpoch o 1 p st8) ≠ []) :
    ∃ p1 ex rs1 p' rs', prepareForReproduction o p st8 = .ok ((p1, ex), rs1) ∧ nextEpoch o 1 p st8 = .ok (p', rs') ∧
      (∃ s ∈ p1.species, s.expectedOffspring > 5) ∧
      (∀ s ∈ p1.species, s.expectedOffspring > 5 → ∃ s0 ∈ p.species, s0.id = s.id ∧ ∃ y ∈ s0.orgs,
        (∀ x ∈ s0.orgs, x.fitness ≤ y.fitness) ∧ ∃ s' ∈ p'.species, ∃ x ∈ s'.orgs, x.uid ∈ p'.organisms ∧ IsCopy y x) ∧
      PopSpec.championWhy (fun a b => decide (a = b)) p1 p' = "" ∧
      PopSpec.fittestWhy (fun a b => decide (a = b)) p p1 p' = "" := by
  obtain ⟨e, hev, hgt⟩ := h1
  obtain ⟨p1, ex, rs1, hp, hv⟩ := prepView_ok (r := prepareForReproduction o p st8) (by intro h0; rw [h0] at hev; cases hev)
  obtain ⟨p', rs', he⟩ := popView_ok h2
  obtain ⟨hu, hnd, hundup, hz, hrefs, hun, hnn, ha, hst⟩ := hyp
  refine ⟨p1, ex, rs1, p', rs', hp, he, ?_, nextEpoch_keeps_fittest o 1 p p' p1 ex st8 rs1 rs' hu hnd hundup hz hrefs hun hnn ha hst hp he,
    championWhy_model _ (by simp) o 1 p p' p1 ex st8 rs1 rs' hu hnd hz hrefs hp he,
    fittestWhy_model _ (by simp) o 1 p p' p1 ex st8 rs1 rs' hu hnd hundup hz hrefs hun hnn ha hst hp he⟩
  rw [hv] at hev
  obtain ⟨s, hs, rfl⟩ := List.mem_map.mp hev
  exact ⟨s, hs, hgt⟩

example := exConclusion qOpts8 qPop8 exHyps8.1 (by rw [exA_views.1]; exact ⟨_, List.mem_cons_self, by decide⟩)
  (by rw [exA_views.2]; simp)
example := exConclusion qOpts8 qPop8d exHyps8.2.1 (by rw [exB_views.1]; exact ⟨_, List.mem_cons_self, by decide⟩)
  (by intro h0; have := exB_views.2; rw [h0] at this; cases this)
example := exConclusion qOpts16 qPop16 exHyps8.2.2 (by rw [exC_views.1]; exact ⟨_, List.mem_cons_self, by decide⟩)
  (by intro h0; have := exC_views.2; rw [h0] at this; cases this)

end NonVacuity

/-! a two-generation run (toy integer scalar, whose speciation keeps the babies in one species; over `exactScalar` the
    sentinel `maxVal = 0` makes every baby found its own species, so no second-generation species exceeds five) -/
section RunExample
open GoNeat.ExactInt
attribute [local instance] intScalar

def iOpts8 : EpochOpts Int :=
  { popSize := 8, dropOffAge := 15, ageSignificance := 1, survivalThresh := 1, babiesStolen := 0, compatThreshold := 3,
    compat := ⟨1, 1, 1, false⟩, mutateOnlyProb := 100, mutateAddNodeProb := 100, mutateAddLinkProb := 0,
    mutateConnectSensors := 0, interspeciesMateRate := 0, mateMultipointProb := 0, mateMultipointAvgProb := 0,
    mateSinglepointProb := 0, mateOnlyProb := 0, mopts := C01.mo }

def iOrg8 (uid : Nat) (fit : Int) : Org Int :=
  { uid := uid, fitness := fit, genome := { C01.ev1 with id := uid }, expectedOffspring := 0, generation := 1,
    originalFitness := 0, highestFitness := 0 }

def iPop8 : Pop Int :=
  { species := [{ id := 1, age := 3, maxFitnessEver := 0, expectedOffspring := 0, isNovel := false, ageOfLastImprovement := 0,
                  orgs := [iOrg8 0 8, iOrg8 1 64, iOrg8 2 16, iOrg8 3 24, iOrg8 4 32, iOrg8 5 40, iOrg8 6 48, iOrg8 7 56] }],
    organisms := [0, 1, 2, 3, 4, 5, 6, 7], lastSpecies := 1, highestFitness := 0, epochsHighestLastChanged := 0,
    reg := { records := [], nextInn := 7, nextNode := 5 }, nextUid := 8 }

/-- the evaluation between the epochs: fitness 8, 16, …, 64 by allocation id -/
def iEval : Pop Int → Pop Int := setFitness (fun x => 8 * (((x.uid % 8 : Nat) : Int) + 1))

def stR : List Nat := List.replicate 400 2

/-- the invariant `runEpochs_keeps_champions` starts from holds (incl. the C01 pool invariant, decided by the kernel) -/
theorem exRun_inv : ChampInv iPop8 := ⟨⟨by decide, by decide⟩, ⟨by decide, by decide⟩, by decide, by decide +kernel⟩

/-- both generations of the run have a species with quota 8 (> 5), and the run returns organisms 16–23 in species 1 -/
theorem exRun_views :
    (runSteps iOpts8 [iEval, iEval] 1 iPop8 stR).map (fun st => prepView (prepareForReproduction iOpts8 st.1 st.2.1)) =
      [[(1, 8, [(7, 0), (6, 0), (5, 0), (4, 0), (3, 0), (2, 0), (1, 0), (0, 0)])],
       [(1, 8, [(15, 0), (14, 0), (13, 0), (12, 0), (11, 0), (10, 0), (9, 0), (8, 0)])]] ∧
    (popView (C02.runEpochs iOpts8 [iEval, iEval] 1 iPop8 stR)).map (fun r => (r.1, r.2.1)) =
      [(1, 16), (1, 17), (1, 18), (1, 19), (1, 20), (1, 21), (1, 22), (1, 23)] := by decide +kernel

/-- the conclusion of `runEpochs_keeps_champions`, instantiated: two epochs ran, and in each the champion of every
    sizeable species was preserved -/
example : ∃ p' rs', C02.runEpochs iOpts8 [iEval, iEval] 1 iPop8 stR = .ok (p', rs') ∧ ChampInv p' ∧
    (runSteps iOpts8 [iEval, iEval] 1 iPop8 stR).length = 2 ∧
    ∀ st ∈ runSteps iOpts8 [iEval, iEval] 1 iPop8 stR, ChampInv st.1 ∧ KeepsChampions iOpts8 st.1 st.2.1 st.2.2 := by
  obtain ⟨p', rs', h⟩ := popView_ok (r := C02.runEpochs iOpts8 [iEval, iEval] 1 iPop8 stR)
    (by intro h0; have := exRun_views.2; rw [h0] at this; cases this)
  obtain ⟨a, b, c, _⟩ := runEpochs_keeps_champions iOpts8 [iEval, iEval] 1 iPop8 p' stR rs'
    (by intro ev hev q
        simp only [List.mem_cons, List.not_mem_nil, or_false, or_self] at hev
        subst hev; exact evalKeeps_setFitness _ q) exRun_inv h
  exact ⟨p', rs', h, a, b, c⟩

end RunExample

end GoNeat.C10
