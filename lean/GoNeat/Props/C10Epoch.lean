/-
  Property C10, END TO END over the whole epoch `nextEpoch` = prepare ; reproduce ; speciate ; finalise.

  Kind A (every scalar type, stream, registry, option setting):
    `nextEpoch_keeps_champion`  for every species of the prepared population with quota > 5, the population `nextEpoch`
                                returns holds (in a species and in its organism list) an organism whose genome equals the
                                genome of that species' first organism in everything but the id;
    `championWhy_model`         the executable predicate `PopSpec.championWhy` accepts the model's epoch;
    `runEpochs_keeps_champions` the same in every generation of a run with arbitrary evaluations in between.
  The bound "super-champion reservation ≤ quota" that `Species.reproduce` needs is DERIVED from the preparation phase
  (Proofs/ChampionChain.lean, `prepare_sc_le`), not assumed.

  Kind B (exact ordered-field arithmetic):
    `prepared_head_is_fittest`  the first organism of a prepared species is an organism of the ORIGINAL species whose raw
                                fitness no member exceeds (non-negative fitness, positive age significance, non-negative
                                survival threshold);
    `nextEpoch_keeps_fittest`   hence the preserved genome is that of a fittest organism of the original species;
    `fittestWhy_model`          the executable predicate `PopSpec.fittestWhy` accepts the model's epoch.
-/
import GoNeat.Proofs.ChampionChain
import GoNeat.Props.C10Exact
import GoNeat.Props.C09ParentsExact
import GoNeat.Props.C01
import GoNeat.Spec.PopInv

namespace GoNeat.C10
open GoNeat Scalar
variable {W : Type} [Scalar W]

/-! ### hypotheses (all decidable) -/

/-- no organism enters the epoch with champion clones reserved (every newborn: `reproduce_finalize_allZ`) -/
def ScZero (p : Pop W) : Prop := ∀ s ∈ p.species, ∀ x ∈ s.orgs, x.superChampOffspring = 0
instance (p : Pop W) : Decidable (ScZero p) := by unfold ScZero; infer_instance

instance (g : Genome W) : Decidable (C06.RefsOk g) :=
  if h : TraitRefsOwned g ∧ EndpointsOwned g ∧ (∀ m ∈ g.modules, TraitRefOk g m.ctrl.trait) ∧
      (∀ m ∈ g.modules, (∀ w ∈ m.ins, w.node ∈ nodeIds g) ∧ (∀ w ∈ m.outs, w.node ∈ nodeIds g))
  then isTrue ⟨h.1, h.2.1, h.2.2.1, h.2.2.2⟩ else isFalse (fun r => h ⟨r.1, r.2, r.3, r.4⟩)

/-- every genome's references resolve inside the genome (part of C01 well-formedness; what `Genome.duplicate` needs to
    be exact, C06) -/
def RefsOkPop (p : Pop W) : Prop := ∀ s ∈ p.species, ∀ x ∈ s.orgs, C06.RefsOk x.genome
instance (p : Pop W) : Decidable (RefsOkPop p) := by unfold RefsOkPop; infer_instance

omit [Scalar W] in
theorem mem_of_head? {α} {l : List α} {a : α} (h : l.head? = some a) : a ∈ l := by
  cases l with
  | nil => cases h
  | cons b t => simp only [List.head?_cons, Option.some.injEq] at h; subst h; exact List.mem_cons_self

theorem reproducePhase_heads (o : EpochOpts W) (gen : Int) (p1 p2 : Pop W) (ex : ExecState) (rs rs' : List Nat)
    (h : reproducePhase o gen p1 ex rs = .ok (p2, rs')) : ∀ s ∈ p1.species, ∃ champ, s.orgs.head? = some champ := by
  unfold reproducePhase at h
  simp only at h
  split at h
  · cases h
  · rename_i babies reg uid rs1 hall
    exact reproduceAll_heads _ _ _ _ _ _ _ _ _ _ _ _ hall

/-! ### Kind A: the champion's genome survives the whole epoch -/

/-- **C10, end to end (Kind A).**  Let `p` be a consistently allocated population (`UidInv`) with unique species ids, whose
    organisms carry no reservation of champion clones (true of every newborn) and whose genomes have resolvable
    references (C01).  If `nextEpoch o gen p rs` returns `p'`, and `p1` is the population the epoch's preparation phase
    `prepareForReproduction o p rs` produced (fitness adjustment, quotas, stolen babies / delta coding, removal of the
    marked organisms), then for EVERY species `s` of `p1` whose offspring quota exceeds five, `s` has a first organism
    `champ` — the champion `Species.reproduce` clones — and some organism `x` of `p'`, member of a species of `p'` and
    listed in `p'.organisms`, carries `champ`'s genome unmodified: equal traits, nodes, genes and modules, own id.
    For every scalar type, random stream, registry and option setting. -/
theorem nextEpoch_keeps_champion (o : EpochOpts W) (gen : Int) (p p' p1 : Pop W) (ex : ExecState) (rs rs1 rs' : List Nat)
    (hu : C02.UidInv p) (hnd : (p.species.map (·.id)).Nodup) (hz : ScZero p) (hrefs : RefsOkPop p)
    (hprep : prepareForReproduction o p rs = .ok ((p1, ex), rs1))
    (h : nextEpoch o gen p rs = .ok (p', rs')) :
    ∀ s ∈ p1.species, s.expectedOffspring > 5 → ∃ champ, s.orgs.head? = some champ ∧
      ∃ s' ∈ p'.species, ∃ x ∈ s'.orgs, x.uid ∈ p'.organisms ∧ IsCopy champ x := by
  unfold nextEpoch at h
  rw [hprep] at h
  simp only at h
  split at h
  · cases h
  · rename_i p2 rs2 hrep
    simp only [Except.ok.injEq, Prod.mk.injEq] at h
    obtain ⟨rfl, _⟩ := h
    have hu1 := (C02.prepare_uidInv o p p1 ex rs rs1 hnd hu hprep).1
    have hle := prepare_sc_le o p p1 ex rs rs1 hnd hz hprep
    have hgen := (C01.prepare_genomes o p p1 ex rs rs1 hprep).1
    intro s hs hq
    obtain ⟨champ, hc⟩ := reproducePhase_heads o gen p1 p2 ex rs1 rs2 hrep s hs
    have hcm := mem_of_head? hc
    obtain ⟨s0, hs0, y, hy, e⟩ := hgen s hs champ hcm
    have hr : C06.RefsOk champ.genome := e ▸ hrefs s0 hs0 y hy
    exact ⟨champ, hc, reproduce_finalize_has_copy o gen p1 p2 ex rs1 rs2 hu1 hrep s hs champ hc hr hq (hle s hs champ hcm)⟩

/-! ### the executable predicate of the driver -/

omit [Scalar W] in
theorem zip_self_all {α} (l : List α) (q : α × α → Bool) (h : ∀ a, q (a, a) = true) : (List.zip l l).all q = true := by
  induction l with
  | nil => rfl
  | cons a t ih => simp [List.zip_cons_cons, h a, ih]

omit [Scalar W] in
theorem traitsEq_self (weq : W → W → Bool) (hweq : ∀ a, weq a a = true) (l : List (Trait W)) :
    MutationSpec.traitsEq weq l l = true := by
  unfold MutationSpec.traitsEq
  simp only [beq_self_eq_true, Bool.true_and]
  apply zip_self_all
  intro t
  unfold MutationSpec.traitEq
  simp only [beq_self_eq_true, Bool.true_and]
  exact zip_self_all _ _ (fun a => hweq a)

omit [Scalar W] in
theorem genesEq_self (weq : W → W → Bool) (hweq : ∀ a, weq a a = true) (l : List (Gene W)) :
    MutationSpec.genesEq weq l l = true := by
  unfold MutationSpec.genesEq
  simp only [beq_self_eq_true, Bool.true_and]
  apply zip_self_all
  intro g
  unfold MutationSpec.geneEq MutationSpec.optEq
  simp [hweq]

omit [Scalar W] in
/-- an unmodified copy passes the driver's comparison `genomeEqModId` for every reflexive scalar comparison (the driver
    uses bit equality of float64) -/
theorem genomeEqModId_of_isCopy (weq : W → W → Bool) (hweq : ∀ a, weq a a = true) (champ x : Org W) (h : IsCopy champ x) :
    PopSpec.genomeEqModId weq champ.genome x.genome = true := by
  obtain ⟨id, hid⟩ := h
  rw [hid]
  unfold PopSpec.genomeEqModId
  simp only [traitsEq_self weq hweq, genesEq_self weq hweq, beq_self_eq_true, Bool.and_self]

/-- **C10: the model's epoch passes `PopSpec.championWhy`** — the predicate the driver evaluates on the implementation's
    populations (after preparation / after the epoch), for every reflexive scalar comparison `weq`. -/
theorem championWhy_model (weq : W → W → Bool) (hweq : ∀ a, weq a a = true)
    (o : EpochOpts W) (gen : Int) (p p' p1 : Pop W) (ex : ExecState) (rs rs1 rs' : List Nat)
    (hu : C02.UidInv p) (hnd : (p.species.map (·.id)).Nodup) (hz : ScZero p) (hrefs : RefsOkPop p)
    (hprep : prepareForReproduction o p rs = .ok ((p1, ex), rs1))
    (h : nextEpoch o gen p rs = .ok (p', rs')) : PopSpec.championWhy weq p1 p' = "" := by
  have hk := nextEpoch_keeps_champion o gen p p' p1 ex rs rs1 rs' hu hnd hz hrefs hprep h
  unfold PopSpec.championWhy
  split
  · rename_i s hfind
    exfalso
    have hs := List.mem_of_find?_eq_some hfind
    have hp := List.find?_some hfind
    simp only [Bool.and_eq_true, decide_eq_true_eq] at hp
    obtain ⟨hq, hm⟩ := hp
    obtain ⟨champ, hc, s', hs', x, hx, _, hcopy⟩ := hk s hs hq
    rw [hc] at hm
    have hany : (PopSpec.allOrgs p').any (fun o => PopSpec.genomeEqModId weq champ.genome o.genome) = true :=
      List.any_eq_true.mpr ⟨x, List.mem_flatMap.mpr ⟨s', hs', hx⟩, genomeEqModId_of_isCopy weq hweq champ x hcopy⟩
    simp only [hany, Bool.not_true] at hm
    cases hm
  · rfl

end GoNeat.C10
