/-
  Property C05, closing the loop: the genome the MODEL produces satisfies the executable relations of
  `Spec/Mutation.lean` that the driver (`Driver/Operators.lean`, `mutationHandler`) evaluates on the genomes the
  IMPLEMENTATION produced.  So what the check decides on Go's output is a consequence of the theorems of
  `Props/C05.lean` / `Props/C05More.lean`; a disagreement between Go and a relation is a disagreement with the model.

  One theorem `μ_check` per mutator, stated on the very expression the driver evaluates for that op:
    mutAddNode         `if res then addNodeRel weq g g' else none`
    mutAddLink         `if res then addLinkRel weq g g' else none`
    mutConnectSensors  `connectSensorsRel weq g g' res`
    mutToggleEnable    `(paramOnlyRel g g').orElse (fun _ => toggleRel g g')`
    mutGeneReEnable    `(paramOnlyRel g g').orElse (fun _ => reenableRel weq g g')`
    the other five     `paramOnlyRel g g'`
  (`none` = the relation holds).  Hypotheses: `weq` reflexive (the driver passes bit equality); for the three
  structural mutators the decidable invariants of C01: `WFT g` and `RegInv reg g` - the relations recognise the new
  genes / the new node by "number not among the old ones", and only the registry invariant makes the numbers a
  mutator obtains new (`addNode_check_needs_regInv` shows the hypothesis is necessary).  The seven parametric
  mutators need no hypothesis at all.

  Also the two clauses the relations test beyond `mutateToggleEnable_spec` / `mutateGeneReEnable_spec`:
  `mutateToggleEnable_genes` (every gene is untouched or an enabled gene with only its flag cleared: nothing is ever
  enabled, weights / mutation numbers / trait references untouched) and `mutateGeneReEnable_genes`.
-/
import GoNeat.Proofs.MutationCheck
import GoNeat.Props.C05More
import GoNeat.Props.C01

namespace GoNeat.C05
open GoNeat Scalar MutationSpec
variable {W : Type} [Scalar W]

/-! ## the five purely parametric mutators: `paramOnlyRel` -/

omit [Scalar W] in
theorem paramOnlyRel_of {g g' : Genome W} (h : ParamOnly g g') : paramOnlyRel g g' = none :=
  paramOnlyRel_none g g' h.nodes h.genes h.traits

theorem mutateLinkWeights_check (g g' : Genome W) (power rate : W) (mt : WeightMutator) (rs rs' : List Nat)
    (h : mutateLinkWeights g power rate mt rs = .ok (g', rs')) : paramOnlyRel g g' = none := by
  obtain ⟨_, x1, x2, x3, x4, _⟩ := mutateLinkWeights_paramOnly _ _ _ _ _ _ _ h
  exact paramOnlyRel_of ⟨by rw [x1], (core_to_skel _ _ x4).1, by rw [x2], x3⟩

theorem mutateRandomTrait_check (g g' : Genome W) (o : MutOpts W) (rs rs' : List Nat)
    (h : mutateRandomTrait g o rs = .ok (g', rs')) : paramOnlyRel g g' = none := by
  obtain ⟨x1, x2, x3, x4⟩ := mutateRandomTrait_paramOnly _ _ _ _ _ h
  exact paramOnlyRel_of ⟨by rw [x1], by rw [x2], x4, x3⟩

theorem mutateLinkTrait_check (times : Nat) (g g' : Genome W) (rs rs' : List Nat)
    (h : mutateLinkTrait g times rs = .ok (g', rs')) : paramOnlyRel g g' = none := by
  obtain ⟨x1, x2, x3, x4, _, _⟩ := mutateLinkTrait_paramOnly _ _ _ _ _ h
  exact paramOnlyRel_of ⟨by rw [x1], x4, by rw [x2], x3⟩

theorem mutateNodeTrait_check (times : Nat) (g g' : Genome W) (rs rs' : List Nat)
    (h : mutateNodeTrait g times rs = .ok (g', rs')) : paramOnlyRel g g' = none := by
  obtain ⟨x1, x2, x3, x4⟩ := mutateNodeTrait_paramOnly _ _ _ _ _ h
  exact paramOnlyRel_of ⟨x4, by rw [x1], by rw [x2], x3⟩

theorem mutateAllNonstructural_check (g g' : Genome W) (o : MutOpts W) (rs rs' : List Nat)
    (h : mutateAllNonstructural g o rs = .ok (g', rs')) : paramOnlyRel g g' = none :=
  paramOnlyRel_of (mutateAllNonstructural_paramOnly g g' o rs rs' h)

/-! ## toggle-enable -/

/-- what toggle-enable may do to one gene: nothing, or clear the flag of an enabled gene (every other field kept) -/
def ToggledFrom (a b : Gene W) : Prop := b = a ∨ (a.en = true ∧ b = { a with en := false })

omit [Scalar W] in
theorem ToggledFrom.trans {a b c : Gene W} (h1 : ToggledFrom a b) (h2 : ToggledFrom b c) : ToggledFrom a c := by
  rcases h1 with rfl | ⟨ha, rfl⟩
  · exact h2
  · rcases h2 with rfl | ⟨hb, _⟩
    · exact .inr ⟨ha, rfl⟩
    · cases hb

/-- **C05 (toggle-enable, per gene).** For every number of rounds and every stream: the gene list keeps its length
    and, position by position, a gene is either untouched or was enabled and has only its enabled flag cleared.
    Hence toggle-enable never ENABLES a gene and never touches a weight, mutation number or trait reference. -/
theorem mutateToggleEnable_genes (times : Nat) (g g' : Genome W) (rs rs' : List Nat)
    (h : mutateToggleEnable g times rs = .ok (g', rs')) :
    g'.genes.length = g.genes.length ∧
    ∀ (i : Nat) (a b : Gene W), g.genes[i]? = some a → g'.genes[i]? = some b → ToggledFrom a b := by
  induction times generalizing g rs with
  | zero =>
    unfold mutateToggleEnable at h
    split at h
    · cases h
    · cases h; exact ⟨rfl, fun i a b ha hb => .inl (by rw [ha] at hb; exact (Option.some.inj hb).symm)⟩
  | succ n ih =>
    unfold mutateToggleEnable at h
    split at h
    · cases h
    · split at h
      · cases h
      · rename_i k rs1 _
        split at h
        · cases h
        · rename_i gene hk
          simp only at h
          split at h
          · rename_i hcond
            obtain ⟨h1, h2⟩ := ih _ _ h
            simp only [Bool.and_eq_true] at hcond
            refine ⟨by rw [h1]; exact List.length_modify _ _ _, ?_⟩
            intro i a b ha hb
            cases hm : (setEnabledAt g.genes k false)[i]? with
            | none =>
              have hlen : (setEnabledAt g.genes k false).length = g.genes.length := List.length_modify _ _ _
              have h3 := List.getElem?_eq_none_iff.mp hm
              have h4 := (List.getElem?_eq_some_iff.mp ha).1
              omega
            | some m =>
              have hmb := h2 i m b hm hb
              refine ToggledFrom.trans ?_ hmb
              rw [setEnabledAt_getElem?] at hm
              split at hm
              · rename_i hki
                subst hki
                rw [ha] at hm hk
                simp only [Option.map_some, Option.some.injEq] at hm hk
                subst hk
                exact .inr ⟨hcond.1, hm.symm⟩
              · rw [ha] at hm; exact .inl (Option.some.inj hm).symm
          · exact ih _ _ h

omit [Scalar W] in
/-- the clauses of `toggleRel` from the two facts proved about toggle-enable -/
theorem toggleRel_none (g g' : Genome W) (hout : ∀ s, HasOutlet g.genes s → HasOutlet g'.genes s)
    (hgen : ∀ (i : Nat) (a b : Gene W), g.genes[i]? = some a → g'.genes[i]? = some b → ToggledFrom a b) : toggleRel g g' = none := by
  have h1 : ((g.genes.filter (·.en)).map (·.src)).all (fun s => g'.genes.any (fun x => x.src == s && x.en)) = true := by
    rw [List.all_eq_true]
    intro s hs
    obtain ⟨x, hx, rfl⟩ := List.mem_map.mp hs
    have hx' := List.mem_filter.mp hx
    obtain ⟨y, hy, hys, hye⟩ := hout x.src ⟨x, hx'.1, rfl, hx'.2⟩
    exact List.any_eq_true.mpr ⟨y, hy, by simp [hys, hye]⟩
  have h2 : (List.zip g.genes g'.genes).any (fun (a, b) => !a.en && b.en) = false := by
    rw [List.any_eq_false]
    rintro ⟨a, b⟩ hab
    obtain ⟨i, hi⟩ := List.getElem?_of_mem hab
    rw [List.getElem?_zip_eq_some] at hi
    rcases hgen i a b hi.1 hi.2 with rfl | ⟨_, rfl⟩ <;> simp
  unfold toggleRel
  simp only [h1, h2, Bool.not_true, Bool.false_eq_true, ↓reduceIte]

/-- **toggle-enable**: the model's genome passes the relation the driver evaluates for `mutToggleEnable` -/
theorem mutateToggleEnable_check (times : Nat) (g g' : Genome W) (rs rs' : List Nat)
    (h : mutateToggleEnable g times rs = .ok (g', rs')) :
    (paramOnlyRel g g').orElse (fun _ => toggleRel g g') = none := by
  obtain ⟨x1, x2, x3, x4, x5⟩ := mutateToggleEnable_spec _ _ _ _ _ h
  rw [paramOnlyRel_of ⟨by rw [x1], x4, by rw [x2], x3⟩]
  exact toggleRel_none g g' x5 (mutateToggleEnable_genes _ _ _ _ _ h).2

/-! ## re-enable -/

omit [Scalar W] in
/-- `reenableFirst` changes nothing but enabled flags, and never clears one -/
theorem reenableFirst_genes (genes : List (Gene W)) :
    (reenableFirst genes).length = genes.length ∧
    ∀ (i : Nat) (a b : Gene W), genes[i]? = some a → (reenableFirst genes)[i]? = some b → b = a ∨ (a.en = false ∧ b = { a with en := true }) := by
  induction genes with
  | nil => exact ⟨rfl, fun i a b ha => by simp at ha⟩
  | cons x xs ih =>
    by_cases hx : x.en = true
    · have e : reenableFirst (x :: xs) = x :: reenableFirst xs := by simp [reenableFirst, hx]
      rw [e]
      refine ⟨by simp [ih.1], fun i a b ha hb => ?_⟩
      cases i with
      | zero =>
        simp only [List.getElem?_cons_zero, Option.some.injEq] at ha hb
        subst ha; subst hb; exact .inl rfl
      | succ i =>
        simp only [List.getElem?_cons_succ] at ha hb
        exact ih.2 i a b ha hb
    · have hx' : x.en = false := by simpa using hx
      have e : reenableFirst (x :: xs) = { x with en := true } :: xs := by simp [reenableFirst, hx']
      rw [e]
      refine ⟨rfl, fun i a b ha hb => ?_⟩
      cases i with
      | zero =>
        simp only [List.getElem?_cons_zero, Option.some.injEq] at ha hb
        subst ha; subst hb
        exact .inr ⟨hx', rfl⟩
      | succ i =>
        simp only [List.getElem?_cons_succ] at ha hb
        rw [ha] at hb; exact .inl (Option.some.inj hb).symm

/-- **C05 (re-enable, per gene).** Position by position a gene is untouched or was disabled and has only its enabled
    flag set: re-enable never disables a gene and never touches a weight, mutation number or trait reference
    (which gene is enabled - the first disabled one - is `mutateGeneReEnable_spec` + `reenableFirst_spec`). -/
theorem mutateGeneReEnable_genes (g g' : Genome W) (h : mutateGeneReEnable g = .ok g') :
    g'.genes.length = g.genes.length ∧
    ∀ (i : Nat) (a b : Gene W), g.genes[i]? = some a → g'.genes[i]? = some b → b = a ∨ (a.en = false ∧ b = { a with en := true }) := by
  obtain ⟨_, _, _, e⟩ := mutateGeneReEnable_spec g g' h
  rw [e]; exact reenableFirst_genes g.genes

/-- **re-enable**: the model's genome passes the relation the driver evaluates for `mutGeneReEnable` -/
theorem mutateGeneReEnable_check (weq : W → W → Bool) (hrefl : ∀ a, weq a a = true) (g g' : Genome W)
    (h : mutateGeneReEnable g = .ok g') :
    (paramOnlyRel g g').orElse (fun _ => reenableRel weq g g') = none := by
  obtain ⟨x1, x2, x3, x4⟩ := mutateGeneReEnable_spec g g' h
  rw [paramOnlyRel_of ⟨by rw [x1], by rw [x4]; exact reenableFirst_skel _, by rw [x2], x3⟩]
  show reenableRel weq g g' = none
  unfold reenableRel
  rw [x4, genesEq_refl weq hrefl]; rfl

/-! ## the three structural mutators -/

/-- **add-link**: the model's genome passes the relation the driver evaluates for `mutAddLink` -/
theorem mutateAddLink_check (weq : W → W → Bool) (hrefl : ∀ a, weq a a = true)
    (g g' : Genome W) (reg reg' : Reg W) (o : MutOpts W) (rs rs' : List Nat) (res : Bool)
    (hw : C01.WFT g) (hi : C01.RegInv reg g)
    (h : mutateAddLink g reg o rs = .ok ((g', reg', res), rs')) :
    (if res then addLinkRel weq g g' else none) = none := by
  cases res with
  | false => rfl
  | true =>
    obtain ⟨gene, hg, hn, ht, _, _, ⟨n1, hn1, e1⟩, ⟨n2, hn2, e2, hsens⟩, hdup⟩ := mutateAddLink_spec g g' reg reg' o rs rs' h
    have hwf := (C01.mutateAddLink_wf g g' reg reg' o rs rs' true hw hi h).1
    -- the new number is not among the old ones: the result is strictly ascending
    have hnd := sorted_inns_nodup _ hwf.wf.genesSorted
    rw [hg] at hnd
    have hnew : gene.inn ∉ g.genes.map (·.inn) :=
      (List.nodup_cons.mp ((((MutateLemmas.geneInsert_perm g.genes gene).map (·.inn)).nodup_iff).mp hnd)).1
    have hp : oldP g gene = false := by simpa [oldP] using hnew
    refine addLinkRel_none weq hrefl g g' gene ht hn ?_ ?_ ?_ ?_ ?_ ?_
    · rw [hg]; unfold geneInsert
      rw [C01.insertAt_filter_of_neg _ _ _ (oldP g) hp]; exact filter_oldP_self g
    · rw [hg]; unfold geneInsert
      exact filter_insertAt_pos _ _ _ _ (by show (!oldP g gene) = true; rw [hp]; rfl)
        (fun x hx => by simpa [oldP] using ⟨x, hx, rfl⟩)
    · exact List.any_eq_true.mpr ⟨n1, hn1, by simp [e1]⟩
    · exact List.any_eq_true.mpr ⟨n2, hn2, by simp [e2]⟩
    · rw [List.any_eq_false]
      intro y hy hc
      simp only [Bool.and_eq_true, beq_iff_eq] at hc
      exact hdup y hy ⟨hc.1.1, hc.1.2, hc.2⟩
    · rw [List.any_eq_false]
      intro m hm hc
      simp only [Bool.and_eq_true, beq_iff_eq] at hc
      have := C01.node_unique g.nodes hw.wf.nodesSorted m n2 hm hn2 (by rw [hc.1, e2])
      rw [this, hsens] at hc; exact Bool.false_ne_true hc.2

/-- **connect-sensors**: the model's genome passes the relation the driver evaluates for `mutConnectSensors`
    (both results) -/
theorem mutateConnectSensors_check (weq : W → W → Bool) (hrefl : ∀ a, weq a a = true)
    (g g' : Genome W) (reg reg' : Reg W) (rs rs' : List Nat) (res : Bool)
    (hw : C01.WFT g) (hi : C01.RegInv reg g)
    (h : mutateConnectSensors g reg rs = .ok ((g', reg', res), rs')) :
    connectSensorsRel weq g g' res = none := by
  have hspec := mutateConnectSensors_spec g g' reg reg' res rs rs' h
  cases res with
  | false => rw [(hspec.2 rfl).1]; exact connectSensorsRel_none_false weq hrefl g
  | true =>
    obtain ⟨_, hn, ht, _, sensor, hs, hsens, hun, new, hne, hg, _, hperm, hall, hnd, hcover, htgt, _⟩ := hspec.1 rfl
    have hwf := (C01.mutateConnectSensors_wf g g' reg reg' rs rs' true hw hi h).1
    have hndi := (((hperm.map (·.inn)).nodup_iff).mp (sorted_inns_nodup _ hwf.wf.genesSorted))
    rw [List.map_append, List.nodup_append] at hndi
    have hp : ∀ x ∈ new, oldP g x = false := by
      intro x hx
      have hnot : x.inn ∉ g.genes.map (·.inn) := fun hm => hndi.2.2 x.inn hm x.inn (List.mem_map_of_mem hx) rfl
      simpa [oldP] using hnot
    have hnewf : (g'.genes.filter (fun y => !oldP g y)).Perm new := by
      refine (hperm.filter _).trans ?_
      rw [List.filter_append, filter_not_oldP_self, List.nil_append]
      rw [List.filter_eq_self.mpr (fun x hx => by show (!oldP g x) = true; rw [hp x hx]; rfl)]
    have hmem : ∀ x, x ∈ g'.genes.filter (fun y => !oldP g y) ↔ x ∈ new := fun x => hnewf.mem_iff
    refine connectSensorsRel_none_true weq hrefl g g' _ sensor ht hn ?_ rfl ?_ ?_ hs hsens hun ?_ ?_ ?_
    · rw [hg, filter_foldl_geneInsert_neg new g.genes _ hp]; exact filter_oldP_self g
    · intro he; rw [he] at hnewf; exact hne hnewf.symm.eq_nil
    · exact fun x hx => (hall x ((hmem x).mp hx)).1
    · intro x hx
      obtain ⟨o, ho, e⟩ := htgt x ((hmem x).mp hx)
      have ho' := List.mem_filter.mp ho
      exact ⟨o, ho'.1, by simpa using ho'.2, e⟩
    · exact (((hnewf.map (·.dst)).nodup_iff).mpr hnd)
    · intro o ho hos
      have : o ∈ nonSensors g := List.mem_filter.mpr ⟨ho, by simp [hos]⟩
      obtain ⟨x, hx, e⟩ := List.mem_map.mp (hcover o this)
      exact ⟨x, (hmem x).mpr hx, e⟩

/-- **add-node**: the model's genome passes the relation the driver evaluates for `mutAddNode` -/
theorem mutateAddNode_check (weq : W → W → Bool) (hrefl : ∀ a, weq a a = true)
    (g g' : Genome W) (reg reg' : Reg W) (o : MutOpts W) (rs rs' : List Nat) (res : Bool)
    (hw : C01.WFT g) (hi : C01.RegInv reg g)
    (h : mutateAddNode g reg o rs = .ok ((g', reg', res), rs')) :
    (if res then addNodeRel weq g g' else none) = none := by
  cases res with
  | false => rfl
  | true =>
    obtain ⟨⟨k, old, n, i1, i2, hk, hen, hbias, hkind, hnodes, hgenes⟩, ht, _⟩ := mutateAddNode_spec g g' reg reg' o rs rs' h
    have hwf := (C01.mutateAddNode_wf g g' reg reg' o rs rs' true hw hi h).1
    -- the new numbers / the new id are not among the old ones: the result is strictly ascending
    have hinns : (setEnabledAt g.genes k false).map (·.inn) = g.genes.map (·.inn) :=
      modify_map_of_eq _ _ _ _ (fun _ => rfl)
    have hnd := sorted_inns_nodup _ hwf.wf.genesSorted
    rw [hgenes] at hnd
    have hnd2 := (((((MutateLemmas.geneInsert_perm _ _).trans
      ((MutateLemmas.geneInsert_perm _ _).cons _)).map (·.inn)).nodup_iff).mp hnd)
    simp only [List.map_cons, List.nodup_cons, List.mem_cons, not_or, hinns] at hnd2
    obtain ⟨⟨_, h2⟩, h1, _⟩ := hnd2
    have hndn := sorted_ids_nodup _ hwf.wf.nodesSorted
    rw [hnodes] at hndn
    have hnid : n.id ∉ g.nodes.map (·.id) := by
      have := (((C01.insertAt_perm g.nodes (insertIndex (g.nodes.map (·.id)) n.id) n).map (·.id)).nodup_iff).mp hndn
      exact (List.nodup_cons.mp this).1
    have hmemL : ∀ x ∈ setEnabledAt g.genes k false, oldP g x = true := by
      intro x hx
      have : x.inn ∈ g.genes.map (·.inn) := by rw [← hinns]; exact List.mem_map_of_mem hx
      simpa [oldP] using this
    have hq : ∀ m ∈ g.nodes, g.nodes.any (·.id == m.id) = true :=
      fun m hm => List.any_eq_true.mpr ⟨m, hm, by simp⟩
    have hqn : g.nodes.any (·.id == n.id) = false := by
      rw [List.any_eq_false]; intro m hm hc
      exact hnid (List.mem_map.mpr ⟨m, hm, by simpa using hc⟩)
    have holdmem : old ∈ g.genes := List.mem_of_getElem? hk
    refine addNodeRel_none weq hrefl g g' n
      { inn := i1, src := old.src, dst := n.id, recur := old.recur, w := one, mnum := zero, en := true, trait := old.trait }
      { inn := i2, src := n.id, dst := old.dst, recur := false, w := old.w, mnum := zero, en := true, trait := old.trait }
      old k ht ?_ ?_ ?_ ?_ hk hen hbias hkind
      ⟨rfl, rfl, rfl, rfl, rfl⟩ ⟨rfl, rfl, rfl, rfl, rfl⟩ ?_
    · rw [hnodes]; unfold nodeInsert
      exact filter_insertAt_pos _ _ _ _ (by simp [hqn]) (fun m hm => by simp [hq m hm])
    · rw [hnodes]; unfold nodeInsert
      rw [C01.insertAt_filter_of_neg _ _ _ (fun m : Node => g.nodes.any (·.id == m.id)) hqn]
      exact List.filter_eq_self.mpr hq
    · rw [hgenes]; unfold geneInsert
      rw [C01.insertAt_filter_of_neg _ _ _ (oldP g) (by simpa [oldP] using h2),
        C01.insertAt_filter_of_neg _ _ _ (oldP g) (by simpa [oldP] using h1)]
      exact List.filter_eq_self.mpr hmemL
    · rw [hgenes]
      refine filter_insertAt_two _ _ _ _ _ ?_ (by simpa [oldP] using h2)
      exact filter_insertAt_pos _ _ _ _ (by simpa [oldP] using h1) (fun x hx => by show (!oldP g x) = false; rw [hmemL x hx]; rfl)
    · intro e
      exact hnid (e ▸ (hw.wf.endpoints old holdmem).2)

/-! ## non-vacuity, necessity of the registry hypothesis, and what the relations do not ask -/

section Examples
attribute [local instance] C01.drawScalar

/-- the equality test on the example scalar (the driver passes bit equality on `Float`) -/
def ieq : Int → Int → Bool := fun a b => decide (a = b)

example : ∀ a, ieq a a = true := by simp [ieq]

/-- the hypotheses of the three structural `_check` theorems hold of evolved genomes under a registry with records
    of both kinds (`Props/C01.lean`) -/
example : C01.WFT C01.ev2 ∧ C01.RegInv C01.evReg C01.ev2 ∧ C01.WFT C01.cs ∧ C01.RegInv C01.evReg C01.cs := by decide

/-- successful runs exist, and the relations evaluate to `none` on them (here by evaluation, in general by the theorems) -/
example : (match mutateAddNode C01.ev2 C01.evReg C01.mo [2, 2, 2] with
           | .ok ((g', _, res), _) => res && (addNodeRel ieq C01.ev2 g').isNone
           | .error _ => false) = true := by decide
example : (match mutateAddLink C01.ev2 C01.evReg C01.mo [5, 1<<<32, 1<<<32, 1<<<32, 2<<<32, 3<<<32] with
           | .ok ((g', _, res), _) => res && (addLinkRel ieq C01.ev2 g').isNone
           | .error _ => false) = true := by decide
example : (match mutateConnectSensors C01.cs C01.evReg [0, 0, 1, 3] with
           | .ok ((g', _, res), _) => res && (connectSensorsRel ieq C01.cs g' res).isNone
           | .error _ => false) = true := by decide
/-- toggle-enable really disables a gene here (gene 2, 2→3: gene 6 still leaves node 2) -/
example : (match mutateToggleEnable C01.ev1 2 [1 <<< 32, 0] with
           | .ok (g', _) => g'.genes.map (·.en) == [false, false, true, true, true] &&
                            ((paramOnlyRel C01.ev1 g').orElse (fun _ => toggleRel C01.ev1 g')).isNone
           | .error _ => false) = true := by decide
example : (match mutateGeneReEnable C01.ev1 with
           | .ok g' => g'.genes.map (·.en) == [true, true, true, true, true] &&
                       ((paramOnlyRel C01.ev1 g').orElse (fun _ => reenableRel ieq C01.ev1 g')).isNone
           | .error _ => false) = true := by decide

/-- a well-formed genome and a registry that is consistent in itself (`RegOk`) and above the genome's numbers
    (`CounterAbove`) but whose node-split record for gene 1 carries the number 2 that gene 2 (another link) already
    has: only `RegCompat` fails -/
def clashG : Genome Int :=
  { id := 1, traits := [⟨1, []⟩],
    nodes := [⟨1, Kind.input, 4, none⟩, ⟨2, Kind.output, 4, none⟩, ⟨3, Kind.hidden, 4, none⟩],
    genes := [⟨1, 1, 2, false, 5, 0, true, none⟩, ⟨2, 1, 3, false, 0, 0, true, none⟩] }
def clashReg : Reg Int := { records := [⟨1, 1, 2, 2, 7, 0, 0, 5, 1, false⟩], nextInn := 7, nextNode := 5 }

/-- **the registry hypothesis of `mutateAddNode_check` is necessary** (and the driver, which guards the C05 relations
    with `WF` of the input only, relies on its generators handing it registries of really evolved populations):
    on `clashG` / `clashReg` the MODEL's successful add-node yields the numbers [1, 2, 2, 7], and `addNodeRel`
    - which finds the new genes by "number not among the old ones" - rejects it. -/
theorem addNode_check_needs_regInv :
    C01.WFT clashG ∧ C01.RegOk clashReg ∧ C01.CounterAbove clashReg clashG ∧ ¬ C01.RegCompat clashReg clashG ∧
    (match mutateAddNode clashG clashReg C01.mo [5] with
     | .ok ((g', _, res), _) => res && g'.genes.map (·.inn) == [1, 2, 2, 7] && (addNodeRel ieq clashG g').isSome
     | .error _ => false) = true := by decide

/-- **what `connectSensorsRel` does not ask** (DESIGN §3 says "result `false` ⇒ genome unchanged"; the theorem
    `mutateConnectSensors_spec` proves it of the model; the relation does not test it): a result `false` together
    with ONE added gene from the unconnected bias node 1 of `cutOff` (non-sensor nodes 3 and 4) passes; the same
    genomes with result `true` do not.  For `mutAddLink` / `mutAddNode` the driver evaluates no relation at all on a
    `false` result.  Such a deviation of the code is caught by the correspondence (model: unchanged), not by `spec`. -/
example :
    connectSensorsRel ieq cutOff { cutOff with genes := cutOff.genes ++ [⟨3, 1, 3, false, 0, 0, true, none⟩] } false = none ∧
    connectSensorsRel ieq cutOff { cutOff with genes := cutOff.genes ++ [⟨3, 1, 3, false, 0, 0, true, none⟩] } true =
      some "not-one-to-every-non-sensor" := by decide

end Examples

end GoNeat.C05

/-! ### result `false`: the relations the driver evaluates on a `false` result -/
namespace GoNeat.C05
open GoNeat Scalar MutationSpec
variable {W : Type} [Scalar W]

theorem unchangedRel_refl (weq : W → W → Bool) (hrefl : ∀ a, weq a a = true) (g : Genome W) : unchangedRel weq g g = none := by
  simp [unchangedRel, traitsEq_refl weq hrefl, genesEq_refl weq hrefl]

/-- add-link returning `false` passes the driver's `unchangedRel` -/
theorem mutateAddLink_check_false (weq : W → W → Bool) (hrefl : ∀ a, weq a a = true) (g g' : Genome W) (reg reg' : Reg W)
    (o : MutOpts W) (rs rs' : List Nat) (h : mutateAddLink g reg o rs = .ok ((g', reg', false), rs')) :
    unchangedRel weq g g' = none := by
  obtain ⟨rfl, _⟩ := mutateAddLink_false g g' reg reg' o rs rs' h
  exact unchangedRel_refl weq hrefl _

/-- connect-sensors returning `false` passes the driver's `unchangedRel` -/
theorem mutateConnectSensors_check_false (weq : W → W → Bool) (hrefl : ∀ a, weq a a = true) (g g' : Genome W) (reg reg' : Reg W)
    (rs rs' : List Nat) (h : mutateConnectSensors g reg rs = .ok ((g', reg', false), rs')) :
    unchangedRel weq g g' = none := by
  obtain ⟨rfl, _⟩ := (mutateConnectSensors_spec g g' reg reg' false rs rs' h).2 rfl
  exact unchangedRel_refl weq hrefl _

theorem mem_zip_self {α} (l : List α) (x y : α) (h : (x, y) ∈ l.zip l) : x = y := by
  induction l with
  | nil => simp at h
  | cons b bs ih =>
    simp only [List.zip_cons_cons, List.mem_cons, Prod.mk.injEq] at h
    rcases h with ⟨rfl, rfl⟩ | h
    · rfl
    · exact ih h

theorem filter_zip_self (weq : W → W → Bool) (hrefl : ∀ a, weq a a = true) (l : List (Gene W)) :
    (List.zip l l).filter (fun (x, y) => !geneEq weq x y) = [] := by
  rw [List.filter_eq_nil_iff]
  rintro ⟨x, y⟩ hp
  have := mem_zip_self l x y hp
  subst this
  simp [geneEq_refl weq hrefl]

theorem zip_modify_diff (weq : W → W → Bool) (hrefl : ∀ a, weq a a = true) (l : List (Gene W)) (k : Nat) (old : Gene W)
    (hk : l[k]? = some old) (hen : old.en = true) :
    ((List.zip l (l.modify k (fun x => { x with en := false }))).filter (fun (x, y) => !geneEq weq x y)) =
      [(old, { old with en := false })] := by
  induction l generalizing k with
  | nil => simp at hk
  | cons a as ih =>
    cases k with
    | zero =>
      simp only [List.getElem?_cons_zero, Option.some.injEq] at hk
      subst hk
      have hne : geneEq weq a { a with en := false } = false := by simp [geneEq, hen]
      simp [List.modify, hne, filter_zip_self weq hrefl as]
    | succ k =>
      simp only [List.getElem?_cons_succ] at hk
      simp only [List.modify_succ_cons, List.zip_cons_cons, List.filter_cons, geneEq_refl weq hrefl, Bool.not_true,
        Bool.false_eq_true, ↓reduceIte]
      exact ih k hk

/-- add-node returning `false` passes the driver's `addNodeFalseRel` -/
theorem mutateAddNode_check_false (weq : W → W → Bool) (hrefl : ∀ a, weq a a = true) (g g' : Genome W) (reg reg' : Reg W)
    (o : MutOpts W) (rs rs' : List Nat) (h : mutateAddNode g reg o rs = .ok ((g', reg', false), rs')) :
    addNodeFalseRel weq g g' = none := by
  obtain ⟨_, _, hn, ht, _, hg⟩ := mutateAddNode_false g g' reg reg' o rs rs' h
  rcases hg with rfl | ⟨k, old, _, hk, hen, hgenes, _⟩
  · unfold addNodeFalseRel
    simp only [traitsEq_refl weq hrefl, Bool.not_true, Bool.false_eq_true, ↓reduceIte, bne_self_eq_false,
      filter_zip_self weq hrefl g'.genes, List.isEmpty_nil]
  · unfold addNodeFalseRel
    have hdiff := zip_modify_diff weq hrefl g.genes k old hk hen
    rw [ht, hn, hgenes]
    simp only [traitsEq_refl weq hrefl, Bool.not_true, Bool.false_eq_true, ↓reduceIte, bne_self_eq_false, setEnabledAt,
      List.length_modify, hdiff]
    simp [hen, geneEq_refl weq hrefl]

end GoNeat.C05
