/-
  Property C06, spawn clause — a population spawned from a start genome has exactly its topology and enabled
  flags and differs from it only in connection weights and the mutation numbers that mirror them.
  Kind A: every scalar type, every random stream, every population size, all options.
-/
import GoNeat.Props.C06
import GoNeat.Props.C05
import GoNeat.Props.C08Batch
import GoNeat.Proofs.MutateLemmas
import GoNeat.Proofs.ScalarInt

namespace GoNeat.C06
open GoNeat Scalar MutateLemmas
variable {W : Type} [Scalar W]

/-- genome `m` is the start genome `g` up to weights: same traits (ids and parameters), same nodes (ids, roles,
    activation types, trait references), same modules, and gene by gene the same innovation number, endpoints,
    recurrence flag, enabled flag and trait reference; every mutation number mirrors its weight -/
structure SameTopology (g m : Genome W) : Prop where
  traits : m.traits = g.traits
  nodes : m.nodes = g.nodes
  modules : m.modules = g.modules
  genes : m.genes.map C05.Gene.core = g.genes.map C05.Gene.core
  mirror : ∀ x ∈ m.genes, x.mnum = x.w

/-- the spawn loop: member `i` is a duplicate of `g` under id `count + i` with perturbed weights only -/
theorem spawnLoop_topology (g : Genome W) (hr : RefsOk g) (n : Nat) (count : Int) (uid : Nat) (orgs : List (Org W))
    (rs rs' : List Nat) (h : spawnLoop g n count uid rs = .ok (orgs, rs')) :
    orgs.map (·.genome.id) = (List.range n).map (fun (i : Nat) => count + (i : Int)) ∧
    ∀ x ∈ orgs, SameTopology g x.genome := by
  induction n generalizing count uid orgs rs rs' with
  | zero => simp only [spawnLoop, Except.ok.injEq, Prod.mk.injEq] at h; obtain ⟨rfl, _⟩ := h; simp
  | succ n ih =>
    simp only [spawnLoop] at h
    rw [duplicate_exact g count hr] at h
    simp only at h
    split at h
    · cases h
    · rename_i d' rs1 hw
      split at h
      · cases h
      · rename_i rest rs2 hrest
        simp only [Except.ok.injEq, Prod.mk.injEq] at h
        obtain ⟨rfl, _⟩ := h
        obtain ⟨hid, hnodes, htraits, hmods, hcore, hmirror⟩ := C05.mutateLinkWeights_paramOnly _ _ _ _ _ _ _ hw
        obtain ⟨ih1, ih2⟩ := ih _ _ _ _ _ hrest
        refine ⟨?_, ?_⟩
        · rw [List.range_succ_eq_map]
          simp only [List.map_cons, List.map_map, ih1, newOrganism, hid, List.cons.injEq]
          refine ⟨by simp, ?_⟩
          apply List.map_congr_left
          intro a _; simp only [Function.comp]; omega
        · intro x hx
          rcases List.mem_cons.mp hx with rfl | hx
          · exact ⟨htraits, hnodes, hmods, hcore, hmirror⟩
          · exact ih2 x hx

/-- **C06 (spawn).** For every start genome whose references resolve, every population size, every option setting
    and every stream: a successful `spawn` consists of exactly `PopSize` organisms (`orgs`, with genome ids
    `0 … PopSize-1`), each of which sits in a species of the population and no species holds anything else, and every
    member's genome has exactly the start genome's traits, nodes, modules and genes up to weight / mutation number
    (same innovation number, endpoints, recurrence flag, enabled flag, trait reference), the mutation number
    mirroring the weight. -/
theorem spawn_topology (o : EpochOpts W) (g : Genome W) (hr : RefsOk g) (p : Pop W) (rs rs' : List Nat)
    (h : spawn o g rs = .ok (p, rs')) :
    (∀ s ∈ p.species, ∀ m ∈ s.orgs, SameTopology g m.genome) ∧
    ∃ orgs : List (Org W), orgs.length = o.popSize ∧
      orgs.map (·.genome.id) = (List.range o.popSize).map (fun (i : Nat) => (i : Int)) ∧
      (∀ x ∈ orgs, ∃ s ∈ p.species, x ∈ s.orgs) ∧ (∀ s ∈ p.species, ∀ m ∈ s.orgs, m ∈ orgs) := by
  unfold spawn at h
  split at h
  · cases h
  · split at h
    · cases h
    · rename_i orgs rs1 hloop
      split at h
      · cases h
      · split at h
        · cases h
        · simp only at h
          split at h
          · cases h
          · rename_i p1 hsp
            simp only [Except.ok.injEq, Prod.mk.injEq] at h
            obtain ⟨rfl, _⟩ := h
            obtain ⟨hids, htop⟩ := spawnLoop_topology g hr _ _ _ _ _ _ hloop
            unfold speciate at hsp
            split at hsp
            · cases hsp
            · have hmem : ∀ s ∈ p1.species, ∀ m ∈ s.orgs, m ∈ orgs := by
                intro s hs m hm
                rcases speciateLoop_members o _ _ _ hsp s hs m hm with h | ⟨s0, hs0, _⟩
                · exact h
                · simp at hs0
              refine ⟨fun s hs m hm => htop m (hmem s hs m hm), orgs, ?_, ?_, ?_, hmem⟩
              · have := congrArg List.length hids
                simpa using this
              · simpa using hids
              · intro x hx
                obtain ⟨s, hs, hxs, _⟩ := (C08.speciateLoop_placed o _ _ _ hsp).1 x hx
                exact ⟨s, hs, hxs⟩

/-! ### non-vacuity: `sample` (disabled gene, recurrent gene, nil trait; Props/C06.lean) without its module spawns -/
section NonVacuity

@[instance_reducible] def rawScalar : Scalar Int := { ExactInt.intScalar with ofUnit63 := fun x => (x : Int) }
attribute [local instance] rawScalar

def start : Genome Int := { sample with modules := [] }

def mo : MutOpts Int :=
  { recurOnlyProb := 0, newLinkTries := 3, activators := [4], activatorProbs := [1], traitMutationPower := 1,
    traitParamMutProb := 0, weightMutPower := 1, mutateRandomTraitProb := 0, mutateLinkTraitProb := 0,
    mutateNodeTraitProb := 0, mutateLinkWeightsProb := 0, mutateToggleEnableProb := 0, mutateGeneReenableProb := 0 }

def eo : EpochOpts Int :=
  { popSize := 2, dropOffAge := 15, ageSignificance := 1, survivalThresh := 1, babiesStolen := 0, compatThreshold := 3,
    compat := { disjointCoeff := 1, excessCoeff := 1, mutdiffCoeff := 1, linear := true },
    mutateOnlyProb := 0, mutateAddNodeProb := 0, mutateAddLinkProb := 0, mutateConnectSensors := 0,
    interspeciesMateRate := 0, mateMultipointProb := 0, mateMultipointAvgProb := 0, mateSinglepointProb := 0,
    mateOnlyProb := 0, mopts := mo }

example : RefsOk start := ⟨by decide, by decide, by decide, by decide⟩

example : (match spawn eo start (List.replicate 40 3) with
           | .ok (p, _) => p.organisms.length == 2
           | .error _ => false) = true := by decide +kernel

end NonVacuity

end GoNeat.C06
