/-
  Property C20 over the real population steps, for evaluators that RE-ORDER the organisms inside the species.

  Every evaluator shipped with goNEAT (/repo/examples/*) ends with `Generation.FillPopulationStatistics(pop)`, which
  sorts every species' organism list in place before `NextEpoch` runs.  Props/C20Epoch.lean (2)/(3) took the evaluator
  hypothesis `C02.EvalOk`, which fixes the ORDER of the organisms inside each species, so those runs were covered by
  the refinement (1) only.  Here (2) and (3) are proved under `C02.EvalOkPerm` (Props/C02Perm.lean: the evaluator may
  assign fitness values AND permute the organisms inside each species; no genome, the registry, `organisms`, the
  counters and the species' ids / ages / flags are untouched).  `EvalOk → EvalOkPerm` (`C02.EvalOk.toPerm`), so the
  theorems of C20Epoch are instances (`example`s below).

  Which hypotheses of the C01 / C02 / C09 / C10 epoch theorems a within-species permutation breaks: see the table in
  the header of Props/C02Perm.lean.  Summary: NONE of the single-epoch hypotheses (`UidInv`, `SpIdInv`, `PopOk`,
  `PoolOk`, ids `Nodup`, `ScZero`, `RefsOkPop`) - they are membership / permutation statements already; the only
  order-sensitive hypothesis was the evaluator relation `SameShape` ⊆ `EvalOk` / `EvalKeeps` of the multi-epoch
  theorems and of C20 (2)/(3).  `QuotaOk` (rounded quota computation) is a fact about the population that enters the
  epoch and is stated on it (here: on `gl.after`, the population the evaluator returned - already re-ordered).

  * `fill_speciesPerm`            `FillPopulationStatistics` is a `SpeciesPerm`
  * `nextEpoch_popInv_fill`, `nextEpoch_no_error_fill`, `nextEpoch_popOk_fill`
                                  the C02 epoch theorems for `(fillPopulationStatistics p).2` from the hypotheses on `p`
  * `evalOkPerm_fill`             `fitnessEval` followed by `FillPopulationStatistics` (`fillEval`) satisfies `EvalOkPerm`
  * `executeReal_evaluated_inv_perm`, `executeReal_gen0_spawned_perm`, `executeReal_gen0_topology_perm`   (2)
  * `executeReal_no_epoch_error_perm`, `executeReal_ends_perm`                                             (3)
  Kind A.
-/
import GoNeat.Model.ExperimentFill
import GoNeat.Props.C20Epoch
import GoNeat.Props.C02Perm
import GoNeat.Props.C19Gen

set_option linter.unusedSectionVars false

namespace GoNeat.C20
open GoNeat GoNeat.Experiment GoNeat.C01 GoNeat.C02 GoNeat.NoErr Scalar GoNeat.GenStatsModel
variable {W : Type} [Scalar W]

/-! ### `FillPopulationStatistics` is a within-species permutation; the C02 epoch theorems after it -/

/-- **what `Generation.FillPopulationStatistics` does to the population is a `SpeciesPerm`** (C19Gen `fill_population`
    in the form the C02 theorems take) -/
theorem fill_speciesPerm (solved : Bool) (ch0 : Option (Org W)) (p p' : Pop W) (st : GenStats W)
    (h : fillFrom solved ch0 p = .ok (st, p')) : SpeciesPerm p p' := by
  obtain ⟨_, hp', _⟩ := C19.fillFrom_spec solved ch0 p p' st h
  subst hp'
  exact ⟨rfl, forall₂_map_self C19.sortSpecies (fun s => ⟨rfl, C10.sortOrgsDesc_perm s.orgs⟩) p.species⟩

/-- **C02 (one whole epoch) after `FillPopulationStatistics`**: the hypotheses of `C02.nextEpoch_popInv` on `p` give
    its conclusions for `NextEpoch` run on the population the recording call left -/
theorem nextEpoch_popInv_fill (o : EpochOpts W) (gen : Int) (p q p' : Pop W) (st : GenStats W) (rs rs' : List Nat)
    (hu : UidInv p) (hs : SpIdInv p) (hf : fillPopulationStatistics p = .ok (st, q))
    (h : nextEpoch o gen q rs = .ok (p', rs')) :
    (p'.organisms.length = o.popSize ∧ p'.organisms.Nodup ∧ p'.organisms = orgUids p'.species ∧
     (∀ s ∈ p'.species, s.orgs ≠ []) ∧ (∀ u ∈ p'.organisms, u ∉ p.organisms) ∧ (genomeIds p'.species).Nodup) ∧
    UidInv p' ∧ SpIdInv p' :=
  nextEpoch_popInv_perm o gen p q p' rs rs' hu hs (fill_speciesPerm false none p q st hf).sameShape h

/-- **C02 "succeeds without error" after `FillPopulationStatistics`**: `PopOk` on `p` (the quota facts on the
    population that enters the epoch) -/
theorem nextEpoch_no_error_fill (hff : FloatFacts W) (S : List Nat) (o : EpochOpts W) (p q : Pop W) (st : GenStats W)
    (ho : OptsOk o) (hp : PopOk S o p) (hf : fillPopulationStatistics p = .ok (st, q)) (hq : QuotaOk o q) (gen : Int) :
    ∀ rs, Valid rs → ∀ msg, nextEpoch o gen q rs ≠ .error (.error msg) :=
  nextEpoch_no_error_perm hff S o p q ho hp (fill_speciesPerm false none p q st hf).evalOkPerm hq gen

theorem nextEpoch_popOk_fill (hff : FloatFacts W) (S : List Nat) (o : EpochOpts W) (p q : Pop W) (st : GenStats W)
    (ho : OptsOk o) (hp : PopOk S o p) (hf : fillPopulationStatistics p = .ok (st, q)) (hq : QuotaOk o q) (gen : Int)
    (rs rs' : List Nat) (hv : Valid rs) (p' : Pop W) (he : nextEpoch o gen q rs = .ok (p', rs')) : PopOk S o p' :=
  nextEpoch_popOk_perm hff S o p q ho hp (fill_speciesPerm false none p q st hf).evalOkPerm hq gen rs rs' hv p' he

/-- **an evaluator written as the shipped ones - assign fitness values, then `FillPopulationStatistics` - satisfies
    `EvalOkPerm`** (it does NOT satisfy `EvalOk`: `exRunFill_view` shows the member order changing) -/
theorem evalOkPerm_fill (fit : Nat → Nat → Org W → W) (solved : Nat → Nat → Pop W → Bool) (t g : Nat) (q : Pop W) :
    EvalOkPerm q (fillEval fit solved t g q).pop := by
  have h1 := (evalOk_fitnessEval fit solved t g q).toPerm
  unfold fillEval
  simp only
  split
  · next st p' hf => exact h1.trans (fill_speciesPerm _ _ _ p' st hf).evalOkPerm
  · exact h1

/-! ### (2) the invariant at every evaluation, evaluators may re-order -/

theorem pool_evalPerm {g0 : Genome W} {q q' : Pop W} (hp : PoolOk q.reg ([g0] ++ genomesOfPop q)) (he : EvalOkPerm q q') :
    PoolOk q'.reg ([g0] ++ genomesOfPop q') := by
  obtain ⟨_, hg, hreg⟩ := he
  rw [hreg]
  apply hp.subset
  intro g hg'
  rcases List.mem_append.mp hg' with hx | hx
  · exact List.mem_append_left _ hx
  · exact List.mem_append_right _ (hg g hx)

theorem evalInv_step_perm (o : EpochOpts W) (g0 : Genome W) (gen : Int) (q q' p' : Pop W) (rs rs' : List Nat)
    (hi : EvalInv o g0 q) (he : EvalOkPerm q q') (h : nextEpoch o gen q' rs = .ok (p', rs')) : EvalInv o g0 p' := by
  obtain ⟨⟨a1, a2, a3, a4, _, _⟩, hu1, hs1⟩ := nextEpoch_popInv_perm o gen q q' p' rs rs' hi.uid hi.spid he.1 h
  exact ⟨hu1, hs1, a1, a3 ▸ List.Perm.refl _, a2, a4, nextEpoch_closed [g0] o gen q' p' rs rs' (pool_evalPerm hi.pool he) h⟩

section WeakPerm
variable (c : Ctl) (o : EpochOpts W) (g0 : Genome W) (eval : Nat → Nat → Pop W → EvalResult W)
  (hw : WFT g0) (hm : g0.modules = []) (hev : ∀ t g q, EvalOkPerm q (eval t g q).pop)
  (rs rs' : List Nat) (out : RealOut W) (h : executeReal c o g0 eval rs = .ok (out, rs'))
include hw hm hev h

theorem executeReal_weak_perm :
    (∀ tl ∈ out.log, ∀ gl ∈ tl.gens, EvalInv o g0 gl.pop) ∧
    (∀ tl ∈ out.log, ∀ p, tl.spawned = some p → (∃ rs0 rs1, spawn o g0 rs0 = .ok (p, rs1)) ∧
      ∀ gl, tl.gens.head? = some gl → gl.pop = p) ∧
    (∀ tl ∈ out.log, tl.spawned = none → tl.gens = []) := by
  unfold executeReal at h
  split at h
  · simp only [Except.ok.injEq, Prod.mk.injEq] at h
    obtain ⟨rfl, _⟩ := h
    exact ⟨by simp, by simp, by simp⟩
  · split at h
    · cases h
    · next r rs1 hr =>
      simp only [Except.ok.injEq, Prod.mk.injEq] at h
      obtain ⟨rfl, _⟩ := h
      obtain ⟨a1, _, _, a4, a5⟩ := trialLoopR_inv c o g0 eval (fun p _ => EvalInv o g0 p) (fun _ => True) (fun _ => True) True
        (fun _ _ _ => trivial)
        (fun t g p rs hi _ => ⟨fun _ => trivial, fun p' rs' he => evalInv_step_perm o g0 _ p _ p' rs rs' hi (hev t g p) he⟩)
        (fun rs _ => ⟨fun _ => trivial, fun p rs' he => evalInv_spawn o g0 rs rs' p hw hm he⟩)
        c.runs 0 c.preCancelled rs r rs1 trivial hr (fun _ _ _ _ => trivial)
      exact ⟨fun tl htl gl hgl => (a1 tl htl gl hgl).elim (fun _ x => x), a4, a5⟩

/-- **C20 over the real population steps, (2) the invariant at every evaluation - evaluators may re-order inside the
    species.**  For every control part, option setting, well-formed non-modular start genome, stream, and every
    evaluator that touches no genome, not the registry, not `Organisms`, and moves no organism to another species
    (`EvalOkPerm`: it assigns fitness values and may re-order each species' organism list, as
    `Generation.FillPopulationStatistics` does): EVERY population handed to the evaluator - in every generation of every
    trial - satisfies the C02 population invariant (`EvalInv`) and all its genomes are well-formed (C01). -/
theorem executeReal_evaluated_inv_perm : ∀ tl ∈ out.log, ∀ gl ∈ tl.gens,
    EvalInv o g0 gl.pop ∧ ∀ x ∈ genomesOfPop gl.pop, WFT x ∧ Retains g0 x ∧ genesisErr x = none ∧ SharedHead x g0 :=
  fun tl htl gl hgl =>
    have k := (executeReal_weak_perm c o g0 eval hw hm hev rs rs' out h).1 tl htl gl hgl
    ⟨k, k.genomes⟩

/-- generation 0 of every trial is evaluated on the freshly spawned population (as `executeReal_gen0_spawned`) -/
theorem executeReal_gen0_spawned_perm : ∀ tl ∈ out.log, ∀ gl, tl.gens.head? = some gl →
    tl.spawned = some gl.pop ∧ ∃ rs0 rs1, spawn o g0 rs0 = .ok (gl.pop, rs1) := by
  intro tl htl gl hgl
  obtain ⟨_, a, b⟩ := executeReal_weak_perm c o g0 eval hw hm hev rs rs' out h
  cases hs : tl.spawned with
  | none => rw [b tl htl hs] at hgl; cases hgl
  | some p =>
    obtain ⟨hsp, hp⟩ := a tl htl p hs
    rw [hp gl hgl]; exact ⟨rfl, hsp⟩

/-- C06 applies to generation 0 (as `executeReal_gen0_topology`) -/
theorem executeReal_gen0_topology_perm : ∀ tl ∈ out.log, ∀ gl, tl.gens.head? = some gl →
    (∀ s ∈ gl.pop.species, ∀ m ∈ s.orgs, C06.SameTopology g0 m.genome) ∧
    ∃ orgs : List (Org W), orgs.length = o.popSize ∧
      orgs.map (·.genome.id) = (List.range o.popSize).map (fun (i : Nat) => (i : Int)) ∧
      (∀ x ∈ orgs, ∃ s ∈ gl.pop.species, x ∈ s.orgs) ∧ (∀ s ∈ gl.pop.species, ∀ m ∈ s.orgs, m ∈ orgs) := by
  intro tl htl gl hgl
  obtain ⟨_, rs0, rs1, hsp⟩ := executeReal_gen0_spawned_perm c o g0 eval hw hm hev rs rs' out h tl htl gl hgl
  have hrefs : C06.RefsOk g0 := by
    refine ⟨hw.wf.traitRefs, hw.wf.endpoints, ?_, ?_⟩ <;> simp [hm]
  exact C06.spawn_topology o g0 hrefs gl.pop rs0 rs1 hsp

end WeakPerm

/-! ### (3) no spawn / epoch error, evaluators may re-order -/

section StrongPerm
variable (hff : FloatFacts W) (c : Ctl) (o : EpochOpts W) (g0 : Genome W) (eval : Nat → Nat → Pop W → EvalResult W)
  (ho : OptsOk o) (hw : WFT g0) (hm : g0.modules = []) (hev : ∀ t g q, EvalOkPerm q (eval t g q).pop)
  (rs rs' : List Nat) (hv : Valid rs) (out : RealOut W) (h : executeReal c o g0 eval rs = .ok (out, rs'))
  (hq : ∀ tl ∈ out.log, ∀ gl ∈ tl.gens, QuotaOk o gl.after)
include hff ho hw hm hev hv h hq

theorem executeReal_strong_perm :
    (∀ tl ∈ out.log, ∀ gl ∈ tl.gens, PopOk (shape g0) o gl.pop) ∧ out.result.err ≠ some .epochFailed ∧
    (out.result.err = some .spawnFailed → ∃ t, c.verifyOk t = false) := by
  unfold executeReal at h
  split at h
  · simp only [Except.ok.injEq, Prod.mk.injEq] at h
    obtain ⟨rfl, _⟩ := h
    exact ⟨by simp, by simp, by simp⟩
  · split at h
    · cases h
    · next r rs1 hr =>
      simp only [Except.ok.injEq, Prod.mk.injEq] at h
      obtain ⟨rfl, _⟩ := h
      obtain ⟨a1, a2, a3, _⟩ := trialLoopR_inv c o g0 eval
        (fun p rs => PopOk (shape g0) o p ∧ PoolOk p.reg ([g0] ++ genomesOfPop p) ∧ Valid rs) Valid (QuotaOk o) False
        (fun _ _ hi => hi.2.2)
        (fun t g p rs hi hQ => by
          obtain ⟨hp, hpool, hvr⟩ := hi
          have hyp : Hyp (shape g0) o (eval t g p).pop := ⟨ho, popOk_evalPerm _ o p _ hp (hev t g p), hQ⟩
          refine ⟨fun ⟨msg, hm'⟩ => nextEpoch_no_error hff _ o _ hyp _ rs hvr msg hm', fun p' rs' he => ?_⟩
          exact ⟨nextEpoch_popOk hff _ o _ hyp _ rs rs' hvr p' he,
            nextEpoch_closed [g0] o _ _ p' rs rs' (pool_evalPerm hpool (hev t g p)) he,
            valid_of_ok (nextEpoch_prefixDet o _ _) hvr he⟩)
        (fun rs hvr => ⟨fun ⟨msg, hm'⟩ => (safe_spawn o g0 ho hw hm rs).ne msg hm', fun p rs' he =>
          ⟨spawn_popOk o g0 rs rs' p hw hm he, spawn_poolOk o g0 rs rs' p hw hm he, valid_of_ok (spawn_prefixDet o g0) hvr he⟩⟩)
        c.runs 0 c.preCancelled rs r rs1 hv hr hq
      refine ⟨fun tl htl gl hgl => (a1 tl htl gl hgl).elim (fun _ x => x.1), fun e => a2 e, fun e => ?_⟩
      rcases a3 e with f | f
      · exact f.elim
      · exact f

/-- **C20 over the real population steps, (3) no spawn / epoch error - evaluators may re-order inside the species.**
    Under the hypotheses of `C02.nextEpoch_no_error` - `OptsOk`, the float facts, a stream of 63-bit values, the C09
    quota facts at every population the evaluator RETURNED in this run (so: at the re-ordered populations that really
    enter `NextEpoch`; decidable on the log) - with a well-formed non-modular start genome, an evaluator that assigns
    fitness values and may re-order the organisms inside each species (`EvalOkPerm`; e.g. one that calls
    `FillPopulationStatistics`: `evalOkPerm_fill`), and `Verify` succeeding: NO run ends with a spawn error or an epoch
    error, and every population handed to the evaluator satisfies `PopOk`. -/
theorem executeReal_no_epoch_error_perm (hver : ∀ t, c.verifyOk t = true) :
    out.result.err ≠ some .epochFailed ∧ out.result.err ≠ some .spawnFailed ∧
    ∀ tl ∈ out.log, ∀ gl ∈ tl.gens, PopOk (shape g0) o gl.pop := by
  obtain ⟨a, b, d⟩ := executeReal_strong_perm hff c o g0 eval ho hw hm hev rs rs' hv out h hq
  refine ⟨b, fun e => ?_, a⟩
  obtain ⟨t, ht⟩ := d e
  rw [hver t] at ht; cases ht

/-- **how a run can end** (as `executeReal_ends`), evaluators may re-order inside the species -/
theorem executeReal_ends_perm (hver : ∀ t, c.verifyOk t = true) (hopt : c.hasOptions = true) (hex : c.execOk = true) :
    (out.result.err = none ∧ out.result.trials.length = c.runs) ∨ out.result.err = some .cancelled ∨
    ∃ t g, out.result.err = some (.evalFailed t g) ∧ (inducedScript c out.log).evalRes t g = .fail := by
  obtain ⟨n1, n2, _⟩ := executeReal_no_epoch_error_perm hff c o g0 eval ho hw hm hev rs rs' hv out h hq hver
  cases he : out.result.err with
  | none =>
    have := (executeReal_complete c o g0 eval rs rs' out h he).1
    exact .inl ⟨rfl, by rw [this]; simp⟩
  | some e =>
    obtain ⟨k, _, _, tail, _, hab⟩ := executeReal_abort c o g0 eval rs rs' out h hopt e he
    rcases hab with ⟨rfl, _⟩ | ⟨_, hx, _⟩ | ⟨m, _, evs, hga, _⟩
    · exact absurd he n2
    · have : c.execOk = false := hx
      rw [hex] at this; cases this
    · rcases hga with ⟨rfl, _⟩ | ⟨rfl, hf, _⟩ | ⟨rfl, _⟩
      · exact .inr (.inl rfl)
      · exact .inr (.inr ⟨k, 0 + m, rfl, hf⟩)
      · exact absurd he n1

end StrongPerm

/-! ### the theorems of Props/C20Epoch.lean are instances (`EvalOk → EvalOkPerm`) -/

/-- `executeReal_evaluated_inv` from `executeReal_evaluated_inv_perm` -/
example (c : Ctl) (o : EpochOpts W) (g0 : Genome W) (eval : Nat → Nat → Pop W → EvalResult W)
    (hw : WFT g0) (hm : g0.modules = []) (hev : ∀ t g q, EvalOk q (eval t g q).pop)
    (rs rs' : List Nat) (out : RealOut W) (h : executeReal c o g0 eval rs = .ok (out, rs')) :
    ∀ tl ∈ out.log, ∀ gl ∈ tl.gens,
      EvalInv o g0 gl.pop ∧ ∀ x ∈ genomesOfPop gl.pop, WFT x ∧ Retains g0 x ∧ genesisErr x = none ∧ SharedHead x g0 :=
  executeReal_evaluated_inv_perm c o g0 eval hw hm (fun t g q => (hev t g q).toPerm) rs rs' out h

/-- `executeReal_no_epoch_error` and `executeReal_ends` from the `_perm` theorems -/
example (hff : FloatFacts W) (c : Ctl) (o : EpochOpts W) (g0 : Genome W) (eval : Nat → Nat → Pop W → EvalResult W)
    (ho : OptsOk o) (hw : WFT g0) (hm : g0.modules = []) (hev : ∀ t g q, EvalOk q (eval t g q).pop)
    (rs rs' : List Nat) (hv : Valid rs) (out : RealOut W) (h : executeReal c o g0 eval rs = .ok (out, rs'))
    (hq : ∀ tl ∈ out.log, ∀ gl ∈ tl.gens, QuotaOk o gl.after) (hver : ∀ t, c.verifyOk t = true)
    (hopt : c.hasOptions = true) (hex : c.execOk = true) :
    (out.result.err ≠ some .epochFailed ∧ out.result.err ≠ some .spawnFailed ∧
      ∀ tl ∈ out.log, ∀ gl ∈ tl.gens, PopOk (shape g0) o gl.pop) ∧
    ((out.result.err = none ∧ out.result.trials.length = c.runs) ∨ out.result.err = some .cancelled ∨
      ∃ t g, out.result.err = some (.evalFailed t g) ∧ (inducedScript c out.log).evalRes t g = .fail) :=
  ⟨executeReal_no_epoch_error_perm hff c o g0 eval ho hw hm (fun t g q => (hev t g q).toPerm) rs rs' hv out h hq hver,
   executeReal_ends_perm hff c o g0 eval ho hw hm (fun t g q => (hev t g q).toPerm) rs rs' hv out h hq hver hopt hex⟩

/-! ### non-vacuity: the run of Props/C20Epoch.lean with an evaluator that calls `FillPopulationStatistics`

Same options, start genome, stream and fitness function as `exRun`; the evaluator is `fillEval`.  Inside each species the
fitness grows with the allocation id, so the recording call REVERSES every member list: the populations that enter
`NextEpoch` are not the ones `EvalOk` admits. -/
section NonVacuity
open GoNeat.ExactInt
attribute [local instance] intScalar

def exEvalFill : Nat → Nat → Pop Int → EvalResult Int :=
  fillEval (fun t g x => 8 * (((x.uid % 3 : Nat) : Int) + 1) + t + g) (fun t g _ => t == 1 && g == 0)

def exRunFill : R (RealOut Int) := executeReal exCtl exOpts C01.ev1 exEvalFill exStream

/-- the run returns: events, result, the quota facts at every population the evaluator returned, and - per evaluator
    call - `Organisms`, the member ids of the species as handed over and as the evaluator left them (re-ordered) -/
theorem exRunFill_view :
    (match exRunFill with
     | .ok (out, _) =>
       decide (out.events = [.started 0, .eval 0 0 0 0, .epoch 0 0, .evaluated 0 0, .eval 0 1 0 1, .epoch 0 1, .evaluated 0 1,
                             .finished 0, .started 1, .eval 1 0 1 0, .evaluated 1 0, .finished 1]) &&
       decide (out.result = ⟨[⟨0, [⟨0, 0, false⟩, ⟨1, 0, false⟩]⟩, ⟨1, [⟨0, 1, true⟩]⟩], none⟩) &&
       decide (∀ tl ∈ out.log, ∀ gl ∈ tl.gens, QuotaOk exOpts gl.after) &&
       decide (out.log.map (fun (tl : TrialLog Int) => tl.gens.map (fun (gl : GenLog Int) =>
           (gl.pop.organisms, gl.pop.species.map (fun (s : Species Int) => s.orgs.map Org.uid),
            gl.after.species.map (fun (s : Species Int) => s.orgs.map Org.uid)))) =
         [[([0, 1, 2], [[0, 1, 2]], [[2, 1, 0]]), ([3, 4, 5], [[3, 4, 5]], [[5, 4, 3]])], [([0, 1, 2], [[0, 1, 2]], [[2, 1, 0]])]])
     | .error _ => false) = true := by decide +kernel

/-- the member ids of the freshly spawned population before and after the first evaluator call differ (kernel evaluation) -/
theorem exFill_first_view :
    (match spawn exOpts C01.ev1 exStream with
     | .ok (p, _) => decide ((exEvalFill 0 0 p).pop.species.map (fun (s : Species Int) => s.orgs.map Org.uid) ≠
                             p.species.map (fun (s : Species Int) => s.orgs.map Org.uid))
     | .error _ => false) = true := by decide +kernel

/-- the first evaluator call of this run violates the OLD hypothesis `EvalOk` (the member ids in order differ) … -/
example : ∃ p rs1, spawn exOpts C01.ev1 exStream = .ok (p, rs1) ∧ ¬ EvalOk p (exEvalFill 0 0 p).pop := by
  have hview := exFill_first_view
  cases hsp : spawn exOpts C01.ev1 exStream with
  | error e => rw [hsp] at hview; cases hview
  | ok v =>
    obtain ⟨p, rs1⟩ := v
    rw [hsp] at hview
    simp only [decide_eq_true_eq] at hview
    refine ⟨p, rs1, rfl, fun h => hview ?_⟩
    have := congrArg (List.map (fun k => k.2.map (·.1))) h.1.2.2.2
    simpa [List.map_map, Function.comp_def, ukey] using this

/-- … while every hypothesis of `executeReal_ends_perm` / `executeReal_no_epoch_error_perm` /
    `executeReal_evaluated_inv_perm` holds of it, and the conclusions are instantiated: the run completes both trials
    without error, and each of the three populations handed to the evaluator satisfies `PopOk` and `EvalInv` -/
example : ∃ out rs', exRunFill = .ok (out, rs') ∧ out.result.err = none ∧ out.result.trials.length = 2 ∧
    (out.log.map (fun (tl : TrialLog Int) => tl.gens.length)) = [2, 1] ∧
    (∀ tl ∈ out.log, ∀ gl ∈ tl.gens, PopOk (shape C01.ev1) exOpts gl.pop ∧ EvalInv exOpts C01.ev1 gl.pop) := by
  have hview := exRunFill_view
  cases hrun : exRunFill with
  | error e => rw [hrun] at hview; cases hview
  | ok v =>
    obtain ⟨out, rs'⟩ := v
    rw [hrun] at hview
    simp only [Bool.and_eq_true, decide_eq_true_eq] at hview
    obtain ⟨⟨⟨_, hres⟩, hq⟩, hlog⟩ := hview
    have hw : WFT C01.ev1 := by decide
    have hev : ∀ t g q, EvalOkPerm q (exEvalFill t g q).pop := fun t g q => evalOkPerm_fill _ _ t g q
    have hopts : OptsOk exOpts := by decide +kernel
    have hvs : Valid exStream := by
      intro x hx
      obtain ⟨_, rfl⟩ := List.mem_replicate.mp hx
      decide
    have hno := executeReal_no_epoch_error_perm floatFacts_int exCtl exOpts C01.ev1 exEvalFill hopts hw rfl hev exStream rs'
      hvs out hrun hq (fun _ => rfl)
    have hinv := executeReal_evaluated_inv_perm exCtl exOpts C01.ev1 exEvalFill hw rfl hev exStream rs' out hrun
    have _hends := executeReal_ends_perm floatFacts_int exCtl exOpts C01.ev1 exEvalFill hopts hw rfl hev exStream rs'
      hvs out hrun hq (fun _ => rfl) rfl rfl
    refine ⟨out, rs', rfl, by rw [hres], by rw [hres]; rfl, ?_, fun tl htl gl hgl => ⟨hno.2.2 tl htl gl hgl, (hinv tl htl gl hgl).1⟩⟩
    have := congrArg (List.map (fun l => l.length)) hlog
    simpa [List.map_map, Function.comp_def] using this

end NonVacuity

end GoNeat.C20
