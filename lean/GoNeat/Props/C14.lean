/-
  C14 - activation depth is the longest path to an output, terminates on every graph, obeys the cap, and leaves
  no traversal marks behind.

  Kind A (no scalar law; the weights play no role).  Model: Model/Depth.lean (`NNode.Depth` with the `visited`
  marks threaded through, `MaxActivationDepthWithCap`, the no-hidden shortcut); specification: Spec/Depth.lean;
  helper lemmas: Proofs/Depth.lean.  All theorems are for networks of every size and topology and for every fuel
  the model uses (no bounds); `vis` is the vector of `visited` flags at the time of the call.

  Hypotheses (decidable, evaluated by the driver on the real inputs):
    `marksFit net vis`      - one flag per node;
    `outsUnmarked net vis`  - no output carries a mark (fresh network; also re-established by every query);
    `Ranked net lvl`        - `lvl` increases along every link the search follows (⇔ the graph is acyclic);
    `noHiddenShortcut net = false` - the code's own test for "has hidden nodes" (`hidden_defeats_shortcut`
                               derives it from `hasHidden` for networks with consistent input/output lists);
    `net.ctrl = []`         - non-modular.
-/
import GoNeat.Proofs.Depth
import GoNeat.Model.LegacyDepth

namespace GoNeat.C14
open GoNeat GoNeat.Depth

variable {W : Type}

/-! ## no traversal marks are left behind, on either exit -/

/-- `NNode.Depth` started on an unmarked node returns the marks exactly as it found them - normal exit, depth-cap
    error exit, any cap, any topology -/
theorem marks_restored_node (net : Net W) (cap : Int) (f : Nat) (vis : List Bool) (i d : Nat)
    (h : marked vis i = false) : (depth net cap f vis i d).vis = vis :=
  depth_vis net cap f vis i d h

/-- `MaxActivationDepthWithCap` leaves the marks exactly as it found them (every cap, every topology, whether or
    not the cap was hit) -/
theorem marks_restored (net : Net W) (cap : Int) (vis : List Bool) (ho : outsUnmarked net vis = true) :
    (maxDepthCap net cap vis).vis = vis := by
  unfold maxDepthCap
  split
  · rfl
  · split
    · rfl
    · exact outLoop_vis net cap _ _ _ (outsUnmarked_iff.mp ho)

/-- hence any later query answers as on the marks before: in a sequence of queries with arbitrary caps on one
    instance every answer is the answer the untouched network would give -/
theorem queries_independent (net : Net W) (caps : List Int) (vis : List Bool) (ho : outsUnmarked net vis = true) :
    runQueries net caps vis = caps.map fun c => maxDepthCap net c vis := by
  induction caps with
  | nil => rfl
  | cons c cs ih =>
    unfold runQueries
    simp only [marks_restored net c vis ho, ih, List.map_cons]

/-! ## termination and range on every graph (cycles, self-loops included) -/

/-- the fuel `|allNodes| + 1` is never exhausted: the recursion of `NNode.Depth` terminates on every graph -/
theorem no_fuel_error (net : Net W) (cap : Int) (vis : List Bool) (hf : marksFit net vis = true)
    (ho : outsUnmarked net vis = true) : (maxDepthCap net cap vis).err ≠ .fuel := by
  unfold maxDepthCap
  split
  · simp
  · split
    · simp
    · exact (outLoop_ok net cap _ 0 vis (outsUnmarked_iff.mp ho) (marksFit_iff.mp hf) (Nat.zero_le _)).1

/-- every non-positive cap means "no cap" -/
theorem nonpos_cap_is_no_cap (net : Net W) {cap : Int} (h : cap ≤ 0) (vis : List Bool) :
    maxDepthCap net cap vis = maxDepthCap net 0 vis := by
  unfold maxDepthCap
  rw [outLoop_nonpos_cap net h]

/-- without a cap the query succeeds and reports a depth between 0 and the number of nodes -/
theorem uncapped_bounded (net : Net W) (vis : List Bool) (hc : net.ctrl = []) (hs : noHiddenShortcut net = false)
    (hf : marksFit net vis = true) (ho : outsUnmarked net vis = true) :
    (maxDepthCap net 0 vis).err = .ok ∧ 0 ≤ (maxDepthCap net 0 vis).depth ∧
      (maxDepthCap net 0 vis).depth ≤ net.nodes.length := by
  have ho' := outsUnmarked_iff.mp ho
  have hok := outLoop_ok net 0 net.outputs 0 vis ho' (marksFit_iff.mp hf) (Nat.zero_le _)
  have herr : (outLoop net 0 net.outputs 0 vis).err = .ok := by
    rw [outLoop_eq_loop net 0 _ _ _ ho'] at hok ⊢
    rcases loop_err_uncapped (fun v j => depth_err_uncapped net (fuelOf net) v j 0) net.outputs 0 vis with h | h
    · exact h
    · exact absurd h hok.1
  unfold maxDepthCap
  simp only [hc, List.length_nil, Nat.lt_irrefl, ↓reduceIte, hs, Bool.false_eq_true]
  have := (hok.2 herr).2
  exact ⟨herr, by omega, by omega⟩

/-! ## the cap -/

/-- with a positive cap the answer is the uncapped one when that does not exceed the cap, otherwise the cap
    together with the depth-exceeded error; the marks are untouched in both cases.  Any topology. -/
theorem cap_behaviour (net : Net W) {cap : Int} (hcap : 0 < cap) (vis : List Bool)
    (hf : marksFit net vis = true) (ho : outsUnmarked net vis = true) :
    ((maxDepthCap net 0 vis).depth ≤ cap → maxDepthCap net cap vis = maxDepthCap net 0 vis) ∧
    (cap < (maxDepthCap net 0 vis).depth → maxDepthCap net cap vis = ⟨cap, .exceeded, vis⟩) := by
  have hrel := outLoop_cap net hcap vis (marksFit_iff.mp hf) (outsUnmarked_iff.mp ho)
  unfold maxDepthCap
  split
  · exact ⟨fun _ => rfl, fun h => by simp only at h; omega⟩
  · split
    · exact ⟨fun _ => rfl, fun h => by simp only at h; omega⟩
    · obtain ⟨_, _, hle, hgt⟩ := hrel
      refine ⟨fun h => ?_, fun h => ?_⟩
      · rw [hle (by simpa using h)]
      · rw [hgt (by simpa using h)]
        simp only [TopRes.mk.injEq, and_true]
        omega

/-- consequently every answer, capped or not, lies between 0 and the number of nodes -/
theorem depth_bounded (net : Net W) (cap : Int) (vis : List Bool) (hc : net.ctrl = [])
    (hs : noHiddenShortcut net = false) (hf : marksFit net vis = true) (ho : outsUnmarked net vis = true) :
    0 ≤ (maxDepthCap net cap vis).depth ∧ (maxDepthCap net cap vis).depth ≤ net.nodes.length := by
  have hu := uncapped_bounded net vis hc hs hf ho
  by_cases hcap : 0 < cap
  · have := cap_behaviour net hcap vis hf ho
    by_cases hle : (maxDepthCap net 0 vis).depth ≤ cap
    · rw [this.1 hle]; exact hu.2
    · rw [this.2 (by omega)]; simp only; omega
  · rw [nonpos_cap_is_no_cap net (by omega)]; exact hu.2

/-! ## acyclic networks: the depth is the longest path that ends in an output -/

/-- on ANY graph a depth reported without error is the number of links of a real path that ends in an output
    (or 0 when there is no output) -/
theorem depth_is_a_path_length (net : Net W) (cap : Int) (vis : List Bool) (hc : net.ctrl = [])
    (hs : noHiddenShortcut net = false) (ho : outsUnmarked net vis = true)
    (he : (maxDepthCap net cap vis).err = .ok) :
    (∃ o ∈ net.outputs, ∃ u k, Path net u o k ∧ (maxDepthCap net cap vis).depth = (k : Int)) ∨
      (maxDepthCap net cap vis).depth = 0 := by
  have ho' := outsUnmarked_iff.mp ho
  revert he
  unfold maxDepthCap
  simp only [hc, List.length_nil, Nat.lt_irrefl, ↓reduceIte, hs, Bool.false_eq_true]
  rw [outLoop_eq_loop net cap _ _ _ ho']
  intro he
  rcases loop_attained _ _ _ he with h | ⟨o, hom, v', h1, h2⟩
  · right; simp [h]
  · left
    obtain ⟨u, k, hp, hk⟩ := depth_attained net cap (fuelOf net) v' o 0 h1
    exact ⟨o, hom, u, k, hp, by rw [← h2, hk]; simp⟩

/-- C14, first sentence.  Non-modular network with hidden nodes and no cycles (a ranking exists), fresh marks:
    the uncapped query succeeds, leaves the marks clean, its result dominates the length of EVERY path that ends in
    an output and is attained by one - it is the number of links on the longest such path. -/
theorem dag_depth_is_longest_path (net : Net W) (lvl : Nat → Nat) (hr : Ranked net lvl = true) (hc : net.ctrl = [])
    (hs : noHiddenShortcut net = false) :
    (maxDepthCap net 0 (clean net)).err = .ok ∧ (maxDepthCap net 0 (clean net)).vis = clean net ∧
    (∀ o ∈ net.outputs, ∀ u k, Path net u o k → (k : Int) ≤ (maxDepthCap net 0 (clean net)).depth) ∧
    ((∃ o ∈ net.outputs, ∃ u k, Path net u o k ∧ (maxDepthCap net 0 (clean net)).depth = (k : Int)) ∨
      (net.outputs = [] ∧ (maxDepthCap net 0 (clean net)).depth = 0)) := by
  have hrp := rankedP_of_ranked hr
  have hfit := clean_fit net
  have houts := clean_outs net
  have hb := uncapped_bounded net (clean net) hc hs hfit houts
  have hcl : ∀ o, marked (clean net) o = false := marked_clean net
  have habove : ∀ o, Above lvl (clean net) o := fun o j hj => by rw [hcl j] at hj; cases hj
  -- every path is dominated
  have hdom : ∀ o ∈ net.outputs, ∀ u k, Path net u o k → (k : Int) ≤ (maxDepthCap net 0 (clean net)).depth := by
    intro o hom u k hp
    have hl := marksFit_iff.mp hfit
    have hule := unmarked_le (clean net)
    have h1 := depth_dominates net lvl hrp (fuelOf net) (clean net) o 0 (habove o) hl
      (by unfold fuelOf; omega) u k hp
    have hcall : ∀ j ∈ net.outputs, ((fun v j => depth net 0 (fuelOf net) v j 0) (clean net) j).err = .ok ∧
        ((fun v j => depth net 0 (fuelOf net) v j 0) (clean net) j).vis = clean net := by
      intro j _
      dsimp only
      have hokj := depth_ok net 0 (fuelOf net) (clean net) j 0 (hcl j) hl (by unfold fuelOf; omega)
      refine ⟨?_, depth_vis net 0 _ _ j 0 (hcl j)⟩
      rcases depth_err_uncapped net (fuelOf net) (clean net) j 0 with h | h
      · exact h
      · exact absurd h hokj.1
    have h2 := (loop_dominates (call := fun v j => depth net 0 (fuelOf net) v j 0) (v := clean net)
      net.outputs 0 (fun j _ => hcl j) hcall).2.2 o hom
    unfold maxDepthCap
    simp only [hc, List.length_nil, Nat.lt_irrefl, ↓reduceIte, hs, Bool.false_eq_true]
    rw [outLoop_eq_loop net 0 _ _ _ (fun o _ => hcl o)]
    omega
  refine ⟨hb.1, marks_restored net 0 _ houts, hdom, ?_⟩
  rcases depth_is_a_path_length net 0 (clean net) hc hs houts hb.1 with h | h
  · left; exact h
  · cases hout : net.outputs with
    | nil => right; exact ⟨rfl, h⟩
    | cons o os =>
      left
      exact ⟨o, by simp, o, 0, Path.nil o, by simpa using h⟩

/-- the same with the executable longest-path function `lpOut` (the form the driver evaluates on the
    implementation's answers): if `lp net F` is a ranking, the depth equals `lpOut net F` -/
theorem dag_depth_eq_lp (net : Net W) (F : Nat) (hr : Ranked net (lp net F) = true) (hc : net.ctrl = [])
    (hs : noHiddenShortcut net = false) :
    (maxDepthCap net 0 (clean net)).depth = (lpOut net F : Int) := by
  obtain ⟨_, _, hdom, hatt⟩ := dag_depth_is_longest_path net (lp net F) hr hc hs
  have hrp := rankedP_of_ranked hr
  apply Int.le_antisymm
  · rcases hatt with ⟨o, hom, u, k, hp, hk⟩ | ⟨_, h0⟩
    · rw [hk]
      have h1 := lp_exact hrp hp
      have h2 := le_maxList (lp net F) hom
      unfold lpOut; omega
    · rw [h0]; omega
  · unfold lpOut
    rcases maxList_attained (lp net F) net.outputs with h | ⟨o, hom, h⟩
    · rw [h]
      rcases hatt with ⟨o, _, u, k, _, hk⟩ | ⟨_, h0⟩
      · rw [hk]; omega
      · rw [h0]; omega
    · rw [h]
      obtain ⟨u, hp⟩ := lp_attained net F o
      exact hdom o hom u _ hp

/-- `lpOut` really is the longest path ending in an output whenever `lp net F` is a ranking -/
theorem lp_is_longest_path (net : Net W) (F : Nat) (hr : Ranked net (lp net F) = true) (v : Nat) :
    (∃ u, Path net u v (lp net F v)) ∧ ∀ u k, Path net u v k → k ≤ lp net F v :=
  ⟨lp_attained net F v, fun _ _ hp => lp_exact (rankedP_of_ranked hr) hp⟩

/-- a network with a hidden node whose `inputs`/`Outputs` lists are consistent with the node kinds does not take
    the no-hidden shortcut -/
theorem hidden_defeats_shortcut (net : Net W) (hh : hasHidden net = true) (hio : IOCounts net = true) :
    noHiddenShortcut net = false :=
  shortcut_false_of_hidden net hh hio

/-! ## the executable predicate of the driver is what the theorems say -/

/-- one model answer satisfies the per-query predicate -/
theorem model_query_ok (net : Net W) (c : Int) (he : (maxDepthCap net 0 (clean net)).err = .ok) :
    queryOk net.nodes.length (maxDepthCap net 0 (clean net)).depth (toQuery c (maxDepthCap net c (clean net))) = true := by
  have hfit := clean_fit net
  have houts := clean_outs net
  have hm := marks_restored net c (clean net) houts
  unfold queryOk toQuery
  rw [← clean_eq_replicate net]
  simp only [hm, beq_self_eq_true, Bool.true_and]
  by_cases hc : c ≤ 0
  · rw [if_pos hc, nonpos_cap_is_no_cap net hc, he]; simp
  · rw [if_neg hc]
    have hcap := cap_behaviour net (cap := c) (by omega) (clean net) hfit houts
    by_cases hle : (maxDepthCap net 0 (clean net)).depth ≤ c
    · rw [if_pos hle, hcap.1 hle, he]; simp
    · rw [if_neg hle, hcap.2 (by omega)]; simp

/-- the answers of the MODEL to any sequence of queries (any caps, one instance, marks carried over) satisfy the
    predicate `querySpec` that the driver evaluates on the IMPLEMENTATION's answers - for every non-modular network,
    cyclic or not; the longest-path clause is included whenever `lp net F` is a ranking -/
theorem model_meets_querySpec (net : Net W) (caps : List Int) (dagFuel : Option Nat) (hc : net.ctrl = [])
    (hd : ∀ F, dagFuel = some F → Ranked net (lp net F) = true) :
    querySpec net dagFuel (toQuery 0 (maxDepthCap net 0 (clean net)))
      (List.zipWith toQuery caps (runQueries net caps (clean net))) = true := by
  have hfit := clean_fit net
  have houts := clean_outs net
  have he : (maxDepthCap net 0 (clean net)).err = .ok ∧ 0 ≤ (maxDepthCap net 0 (clean net)).depth ∧
      (noHiddenShortcut net = true ∨ (maxDepthCap net 0 (clean net)).depth ≤ net.nodes.length) := by
    cases hs : noHiddenShortcut net with
    | true =>
      unfold maxDepthCap
      simp [hc, hs]
    | false =>
      have := uncapped_bounded net (clean net) hc hs hfit houts
      exact ⟨this.1, this.2.1, Or.inr this.2.2⟩
  have hz : ∀ cs : List Int, List.zipWith toQuery cs (cs.map fun c => maxDepthCap net c (clean net)) =
      cs.map fun c => toQuery c (maxDepthCap net c (clean net)) := by
    intro cs; induction cs with
    | nil => rfl
    | cons a l ih => simp [ih]
  rw [queries_independent net caps _ houts, hz]
  unfold querySpec
  simp only [Bool.and_eq_true, Bool.or_eq_true, decide_eq_true_eq, beq_iff_eq, List.all_eq_true, List.mem_map,
    forall_exists_index, and_imp, forall_apply_eq_imp_iff₂]
  refine ⟨⟨⟨⟨⟨he.1, he.2.1⟩, he.2.2⟩, model_query_ok net 0 he.1⟩, fun c _ => model_query_ok net c he.1⟩, ?_⟩
  cases dagFuel with
  | none => trivial
  | some F =>
    simp only [Bool.or_eq_true, beq_iff_eq]
    cases hs : noHiddenShortcut net with
    | true => left; rfl
    | false => right; exact dag_depth_eq_lp net F (hd F rfl) hc hs

/-! ## non-vacuity and the pre-repair counterexample -/
section Examples

private def nd (kind : Kind) (srcs : List Nat) : NNodeS Nat :=
  { id := 0, kind := kind, act := 0, incoming := srcs.map fun s => { src := s, dst := 0, w := 0, recur := false },
    outgoing := [] }

/-- chain sensor 0 → hidden 1 → 2 → 3 → 4 → output 5 -/
private def chain : Net Nat :=
  { id := 1, inputs := [0], outputs := [5],
    nodes := [nd Kind.input [], nd Kind.hidden [0], nd Kind.hidden [1], nd Kind.hidden [2], nd Kind.hidden [3],
              nd Kind.output [4]] }

/-- diamond with a skip link: 0 → 1 → 2 → 3(out), 0 → 3, 1 → 3 -/
private def diamond : Net Nat :=
  { id := 2, inputs := [0], outputs := [3],
    nodes := [nd Kind.input [], nd Kind.hidden [0], nd Kind.hidden [1], nd Kind.output [0, 1, 2]] }

/-- cyclic: 0 → 1 ⇄ 2 → 3(out), self-loop on 2, and 3 → 1 -/
private def cyclic : Net Nat :=
  { id := 3, inputs := [0], outputs := [3],
    nodes := [nd Kind.input [], nd Kind.hidden [0, 2, 3], nd Kind.hidden [1, 2], nd Kind.output [2]] }

/-- the hypotheses of `dag_depth_is_longest_path` / `dag_depth_eq_lp` / `hidden_defeats_shortcut` hold on concrete
    networks, and the depth is the expected one -/
example : Ranked chain (lp chain 7) = true ∧ chain.ctrl = [] ∧ noHiddenShortcut chain = false ∧
    hasHidden chain = true ∧ IOCounts chain = true ∧ maxDepthCap chain 0 (clean chain) = ⟨5, .ok, clean chain⟩ := by
  decide
example : Ranked diamond (lp diamond 5) = true ∧ noHiddenShortcut diamond = false ∧
    maxDepthCap diamond 0 (clean diamond) = ⟨3, .ok, clean diamond⟩ ∧ lpOut diamond 5 = 3 := by decide
/-- hypotheses of the general theorems on a cyclic network; the cap is hit (cap 1 < depth 3) and not hit (cap 3) -/
example : marksFit cyclic (clean cyclic) = true ∧ outsUnmarked cyclic (clean cyclic) = true ∧
    Ranked cyclic (lp cyclic 5) = false ∧
    maxDepthCap cyclic 0 (clean cyclic) = ⟨3, .ok, clean cyclic⟩ ∧
    maxDepthCap cyclic 1 (clean cyclic) = ⟨1, .exceeded, clean cyclic⟩ ∧
    maxDepthCap cyclic 3 (clean cyclic) = ⟨3, .ok, clean cyclic⟩ := by decide

/-- the pre-repair `NNode.Depth` (Model/LegacyDepth.lean; repaired by d4f2c1c) violates C14: on the chain of depth 5
    a query capped at 2 leaves the marks of nodes 3, 4, 5 set, and the next UNCAPPED query answers 0 instead of 5 -/
theorem marks_legacy_counterexample :
    (Legacy.maxDepthCap chain 2 (clean chain)).vis = [false, false, false, true, true, true] ∧
    Legacy.maxDepthCap chain 0 (Legacy.maxDepthCap chain 2 (clean chain)).vis ≠
      Legacy.maxDepthCap chain 0 (clean chain) ∧
    (Legacy.maxDepthCap chain 0 (Legacy.maxDepthCap chain 2 (clean chain)).vis).depth = 0 ∧
    (Legacy.maxDepthCap chain 0 (clean chain)).depth = 5 := by decide

/-- ... while the repaired definition answers 5 both times (instance of `queries_independent`) -/
example : (runQueries chain [2, 0] (clean chain)).map (fun r => (r.depth, r.err)) = [(2, .exceeded), (5, .ok)] := by
  decide

end Examples

end GoNeat.C14
