/-
  Property C02, second part — species ids are unique and never reused, species founded during a turnover get
  fresh ids and start at age one, surviving species age by exactly one (with the first-turnover exception),
  genome ids are unique after the turnover, and the number of babies equals the total of the quotas.
  Kind A: every theorem holds for every scalar type, random stream, registry and option setting.
-/
import GoNeat.Props.C02
import GoNeat.Props.C09

namespace GoNeat.C02
open GoNeat Scalar
variable {W : Type} [Scalar W]

/-- what C02 says about a species: its id, its age and the "founded at construction / this turnover" flag -/
def skey (s : Species W) : Int × Int × Bool := (s.id, s.age, s.isNovel)

/-- keys of `k` species founded one after the other when `last` was the highest id issued so far -/
def freshKeys (last : Int) (k : Nat) : List (Int × Int × Bool) :=
  (List.range k).map (fun (i : Nat) => (last + 1 + (i : Int), (1 : Int), true))

theorem freshKeys_succ (last : Int) (k : Nat) : freshKeys last (k + 1) = (last + 1, 1, true) :: freshKeys (last + 1) k := by
  simp only [freshKeys, List.range_succ_eq_map, List.map_cons, List.map_map]
  congr 1
  · simp
  · apply List.map_congr_left
    intro i _
    simp only [Function.comp, Prod.mk.injEq, and_true]
    omega

theorem modify_keys (ss : List (Species W)) (i : Nat) (org : Org W) :
    (ss.modify i (fun s => { s with orgs := s.orgs ++ [org] })).map skey = ss.map skey := by
  induction ss generalizing i with
  | nil => simp
  | cons s ss ih =>
    cases i with
    | zero => simp [List.modify, skey]
    | succ i => simp [List.modify_succ_cons, ih]

/-- one arriving organism either joins an existing species (no species key changes) or founds ONE new species with
    the fresh id `lastSpecies + 1`, age one, flagged novel -/
theorem speciateOne_keys (o : EpochOpts W) (p p' : Pop W) (org : Org W) (h : speciateOne o p org = .ok p') :
    (p'.species.map skey = p.species.map skey ∧ p'.lastSpecies = p.lastSpecies) ∨
    (p'.species.map skey = p.species.map skey ++ [(p.lastSpecies + 1, 1, true)] ∧ p'.lastSpecies = p.lastSpecies + 1) := by
  unfold speciateOne at h
  simp only at h
  split at h
  · cases h; right; simp [skey]
  · split at h
    · cases h
    · split at h
      · cases h; left; exact ⟨modify_keys _ _ _, rfl⟩
      · cases h; right; simp [skey]

theorem speciateLoop_keys (o : EpochOpts W) (p p' : Pop W) (orgs : List (Org W)) (h : speciateLoop o p orgs = .ok p') :
    ∃ k : Nat, p'.species.map skey = p.species.map skey ++ freshKeys p.lastSpecies k ∧ p'.lastSpecies = p.lastSpecies + k := by
  induction orgs generalizing p with
  | nil => simp only [speciateLoop] at h; cases h; exact ⟨0, by simp [freshKeys], by simp⟩
  | cons org rest ih =>
    simp only [speciateLoop] at h
    split at h
    · cases h
    · rename_i p1 h1
      obtain ⟨k, hk, hl⟩ := ih p1 h
      rcases speciateOne_keys o p p1 org h1 with ⟨e1, e2⟩ | ⟨e1, e2⟩
      · exact ⟨k, by rw [hk, e1, e2], by rw [hl, e2]⟩
      · refine ⟨k + 1, ?_, ?_⟩
        · rw [hk, e1, e2, freshKeys_succ]; simp
        · rw [hl, e2]; push_cast; omega

/-- **species ids are unique and none exceeds `LastSpecies`** -/
structure SpIdInv (p : Pop W) : Prop where
  nodup : (p.species.map (·.id)).Nodup
  le : ∀ s ∈ p.species, s.id ≤ p.lastSpecies

theorem ids_of_keys (ss : List (Species W)) : ss.map (·.id) = (ss.map skey).map (·.1) := by
  simp [skey, Function.comp_def]

theorem freshKeys_ids (last : Int) (k : Nat) : (freshKeys last k).map (·.1) = (List.range k).map (fun (i : Nat) => last + 1 + (i : Int)) := by
  simp [freshKeys, Function.comp_def]

theorem speciateLoop_idInv (o : EpochOpts W) (p p' : Pop W) (orgs : List (Org W)) (h : speciateLoop o p orgs = .ok p')
    (hinv : SpIdInv p) : SpIdInv p' ∧ p.lastSpecies ≤ p'.lastSpecies := by
  obtain ⟨k, hk, hl⟩ := speciateLoop_keys o p p' orgs h
  have hids : p'.species.map (·.id) = p.species.map (·.id) ++ (List.range k).map (fun (i : Nat) => p.lastSpecies + 1 + (i : Int)) := by
    rw [ids_of_keys, hk, List.map_append, ← ids_of_keys, freshKeys_ids]
  refine ⟨⟨?_, ?_⟩, by omega⟩
  · rw [hids, List.nodup_append]
    refine ⟨hinv.nodup, ?_, ?_⟩
    · rw [List.nodup_iff_pairwise_ne, List.pairwise_map]
      exact (List.nodup_range (n := k)).imp (by intro a b hab h'; apply hab; omega)
    · intro a ha b hb
      obtain ⟨s, hs, rfl⟩ := List.mem_map.mp ha
      obtain ⟨i, _, rfl⟩ := List.mem_map.mp hb
      have := hinv.le s hs
      omega
  · intro s hs
    have : s.id ∈ p'.species.map (·.id) := List.mem_map_of_mem hs
    rw [hids, List.mem_append] at this
    rcases this with h1 | h1
    · obtain ⟨s0, hs0, e⟩ := List.mem_map.mp h1
      have := hinv.le s0 hs0
      omega
    · obtain ⟨i, hi, e⟩ := List.mem_map.mp h1
      have := List.mem_range.mp hi
      omega


/-! ### the turnover -/

theorem purgeOrAgeLoop_ids_sublist (ss : List (Species W)) (k : Int) :
    ((purgeOrAgeLoop ss k).map (·.id)).Sublist (ss.map (·.id)) := by
  induction ss generalizing k with
  | nil => simp [purgeOrAgeLoop]
  | cons s ss ih =>
    unfold purgeOrAgeLoop
    split
    · exact (ih _).cons _
    · simp only [List.map_cons]
      exact (ih _).cons₂ _

theorem purgeOld_ids (p : Pop W) : (purgeOldGeneration p).species.map (·.id) = p.species.map (·.id) := by
  simp [purgeOldGeneration, Function.comp_def]

theorem finalize_idInv (p : Pop W) (hinv : SpIdInv p) : SpIdInv (finalizeReproduction p) := by
  obtain ⟨_, _, _, hages, _, hlast⟩ := finalize_spec p
  refine ⟨?_, ?_⟩
  · have : ((finalizeReproduction p).species.map (·.id)).Sublist (p.species.map (·.id)) := by
      simp only [finalizeReproduction, purgeOrAgeSpecies]
      rw [← purgeOld_ids p]
      exact purgeOrAgeLoop_ids_sublist _ _
    exact this.nodup hinv.nodup
  · intro s' hs'
    obtain ⟨s, hs, hid, _⟩ := hages s' hs'
    rw [hlast, hid]
    exact hinv.le s hs

/-- **C02 (species ids and ages over the reproduction phase).** If species ids were unique and not above
    `LastSpecies` before, then after reproduction, speciation of the babies and finalisation they still are;
    `LastSpecies` never decreases; and every species of the new generation is either a survivor — same id, exactly
    one generation older, except that a species still flagged as founded at construction keeps its age — or was
    founded during this turnover: its id is fresh (above every id issued before, at most the new `LastSpecies`)
    and its age is one. No species keeps the novel flag. -/
theorem reproduce_finalize_species (o : EpochOpts W) (gen : Int) (p1 p2 : Pop W) (ex : ExecState) (rs rs' : List Nat)
    (hinv : SpIdInv p1) (h : reproducePhase o gen p1 ex rs = .ok (p2, rs')) :
    let p3 := finalizeReproduction p2
    SpIdInv p3 ∧ p1.lastSpecies ≤ p3.lastSpecies ∧
    ∀ s' ∈ p3.species, s'.isNovel = false ∧
      ((∃ s ∈ p1.species, s'.id = s.id ∧ s'.age = (if s.isNovel then s.age else s.age + 1)) ∨
       (p1.lastSpecies < s'.id ∧ s'.id ≤ p3.lastSpecies ∧ s'.age = 1)) := by
  intro p3
  unfold reproducePhase at h
  simp only at h
  split at h
  · cases h
  · rename_i babies reg uid rs1 hall
    split at h
    · cases h
    · split at h
      · cases h
      · rename_i p2' hsp
        simp only [Except.ok.injEq, Prod.mk.injEq] at h
        obtain ⟨rfl, _⟩ := h
        unfold speciate at hsp
        split at hsp
        · cases hsp
        · have hinv0 : SpIdInv ({ p1 with reg := reg, nextUid := uid } : Pop W) := ⟨hinv.nodup, hinv.le⟩
          obtain ⟨hinv2, hle⟩ := speciateLoop_idInv o _ _ _ hsp hinv0
          obtain ⟨k, hk, hl⟩ := speciateLoop_keys o _ _ _ hsp
          simp only at hk hl hle
          obtain ⟨_, _, _, hages, _, hlast⟩ := finalize_spec p2'
          refine ⟨finalize_idInv _ hinv2, ?_, ?_⟩
          · show p1.lastSpecies ≤ (finalizeReproduction p2').lastSpecies
            rw [hlast]; exact hle
          · intro s' hs'
            obtain ⟨s, hs, hid, hnov, hage⟩ := hages s' hs'
            refine ⟨hnov, ?_⟩
            have hkey : skey s ∈ p2'.species.map skey := List.mem_map_of_mem hs
            rw [hk, List.mem_append] at hkey
            rcases hkey with hold | hnew
            · obtain ⟨s0, hs0, e⟩ := List.mem_map.mp hold
              simp only [skey, Prod.mk.injEq] at e
              left
              refine ⟨s0, hs0, by rw [hid]; exact e.1.symm, ?_⟩
              rw [hage, ← e.2.1, ← e.2.2]
            · simp only [freshKeys, List.mem_map, List.mem_range, skey, Prod.mk.injEq] at hnew
              obtain ⟨i, hi, e1, e2, e3⟩ := hnew
              right
              show _ ∧ s'.id ≤ (finalizeReproduction p2').lastSpecies ∧ _
              rw [hlast, hl, hid, hage, ← e3, ← e2, ← e1]
              simp only [↓reduceIte, and_true]
              omega


/-! ### the number of babies is the total of the quotas: the progeny-size sanity check never fires -/

theorem reproduceSpecies_count (o : EpochOpts W) (gen : Int) (s : Species W) (sorted : List (Species W)) (reg reg' : Reg W)
    (uid uid' : Nat) (babies : List (Org W)) (rs rs' : List Nat)
    (h : reproduceSpecies o gen s sorted reg uid rs = .ok ((babies, reg', uid'), rs')) :
    babies.length = s.expectedOffspring.toNat := by
  unfold reproduceSpecies at h
  split at h
  · split at h <;> cases h
  · simp only at h
    split at h
    · cases h
    · rename_i st rs1 hloop
      simp only [Except.ok.injEq, Prod.mk.injEq] at h
      obtain ⟨⟨rfl, _, rfl⟩, _⟩ := h
      obtain ⟨h1, _⟩ := reproduceLoop_uids _ _ _ _ _ _ _ _ _ _ _ hloop
      have := congrArg List.length h1
      simpa using this

theorem reproduceAll_count (o : EpochOpts W) (gen : Int) (sorted ss : List (Species W)) (reg reg' : Reg W) (uid uid' : Nat)
    (acc babies : List (Org W)) (rs rs' : List Nat)
    (h : reproduceAll o gen sorted ss reg uid acc rs = .ok ((babies, reg', uid'), rs')) :
    babies.length = acc.length + (ss.map (fun s => s.expectedOffspring.toNat)).sum := by
  induction ss generalizing reg uid acc rs with
  | nil => simp only [reproduceAll, Except.ok.injEq, Prod.mk.injEq] at h; obtain ⟨⟨rfl, _, _⟩, _⟩ := h; simp
  | cons s ss ih =>
    unfold reproduceAll at h
    split at h
    · cases h
    · rename_i bs reg1 uid1 rs1 hs
      have hc := reproduceSpecies_count _ _ _ _ _ _ _ _ _ _ _ hs
      rw [ih _ _ _ _ h, List.length_append, hc]
      simp only [List.map_cons, List.sum_cons]
      omega

theorem toNat_sum_of_nonneg (ss : List (Species W)) (hnn : ∀ s ∈ ss, 0 ≤ s.expectedOffspring) :
    (((ss.map (fun s => s.expectedOffspring.toNat)).sum : Nat) : Int) = C09.quotaSum ss := by
  induction ss with
  | nil => simp [C09.quotaSum]
  | cons s ss ih =>
    have h1 := hnn s (by simp)
    have h2 := ih (fun x hx => hnn x (by simp [hx]))
    simp only [List.map_cons, List.sum_cons, C09.quotaSum] at *
    omega

/-- **C02 (exact size).** When the quotas after the preparation phase are non-negative and total the population
    size — which C09 proves for every outcome of the rounded computation with raw total ≤ n — reproduction of all
    species, whenever it returns, yields exactly `PopSize` babies: the condition of the sanity check
    `progeny size != PopSize` in the epoch executor is false, for every stream, registry and option setting. -/
theorem progeny_size_exact (o : EpochOpts W) (gen : Int) (p1 : Pop W) (sorted : List (Species W)) (reg reg' : Reg W)
    (uid uid' : Nat) (babies : List (Org W)) (rs rs' : List Nat)
    (hnn : ∀ s ∈ p1.species, 0 ≤ s.expectedOffspring) (htot : C09.quotaSum p1.species = o.popSize)
    (hall : reproduceAll o gen sorted p1.species reg uid [] rs = .ok ((babies, reg', uid'), rs')) :
    babies.length = o.popSize := by
  have hc := reproduceAll_count _ _ _ _ _ _ _ _ _ _ _ _ hall
  have hs := toNat_sum_of_nonneg p1.species hnn
  simp only [List.length_nil, Nat.zero_add] at hc
  have : ((babies.length : Nat) : Int) = (o.popSize : Int) := by rw [hc, hs, htot]
  exact_mod_cast this


/-! ### genome ids are renumbered 0, 1, 2, … in species order: unique -/

def genomeIds (ss : List (Species W)) : List Int := ss.flatMap (fun s => s.orgs.map (·.genome.id))

theorem renumber_ids (l : List (Org W)) (k : Int) :
    (renumber l k).map (·.genome.id) = (List.range l.length).map (fun (i : Nat) => k + (i : Int)) := by
  induction l generalizing k with
  | nil => simp [renumber]
  | cons x xs ih =>
    simp only [renumber, List.map_cons, List.length_cons, List.range_succ_eq_map, List.map_map, ih]
    congr 1
    · simp
    · apply List.map_congr_left
      intro i _
      simp only [Function.comp]
      push_cast; omega

theorem renumber_length (l : List (Org W)) (k : Int) : (renumber l k).length = l.length := by
  induction l generalizing k with
  | nil => rfl
  | cons x xs ih => simp [renumber, ih]

theorem purgeOrAgeLoop_genomeIds (ss : List (Species W)) (k : Int) :
    genomeIds (purgeOrAgeLoop ss k) = (List.range (orgUids ss).length).map (fun (i : Nat) => k + (i : Int)) := by
  induction ss generalizing k with
  | nil => simp [purgeOrAgeLoop, genomeIds, orgUids]
  | cons s ss ih =>
    unfold purgeOrAgeLoop
    split
    · rename_i he
      have : s.orgs = [] := by simpa using he
      rw [ih]; simp [this]
    · have ih' := ih (k + s.orgs.length)
      simp only [genomeIds, List.flatMap_cons] at ih' ⊢
      rw [ih', renumber_ids]
      simp only [orgUids_cons, List.length_append, List.length_map]
      rw [List.range_add, List.map_append, List.map_map]
      congr 1
      apply List.map_congr_left
      intro i _
      simp only [Function.comp]
      push_cast; omega

/-- **C02 (genome ids).** After the turnover the genome ids of the population are exactly 0, 1, …, n−1 in the
    order of the organism list: unique. -/
theorem finalize_genomeIds (p : Pop W) :
    let p' := finalizeReproduction p
    genomeIds p'.species = (List.range p'.organisms.length).map (fun (i : Nat) => (i : Int)) ∧ (genomeIds p'.species).Nodup := by
  intro p'
  have h1 : genomeIds p'.species = (List.range p'.organisms.length).map (fun (i : Nat) => (i : Int)) := by
    obtain ⟨f1, _⟩ := finalize_spec p
    have : p'.organisms.length = (orgUids (purgeOldGeneration p).species).length := by
      show (finalizeReproduction p).organisms.length = _
      rw [f1]
      simp only [finalizeReproduction, purgeOrAgeSpecies, purgeOrAgeLoop_uids]
    rw [this]
    simp only [p', finalizeReproduction, purgeOrAgeSpecies]
    rw [purgeOrAgeLoop_genomeIds]
    simp
  refine ⟨h1, ?_⟩
  rw [h1, List.nodup_iff_pairwise_ne, List.pairwise_map]
  exact (List.nodup_range).imp (by intro a b hab h'; apply hab; exact_mod_cast h')

end GoNeat.C02
