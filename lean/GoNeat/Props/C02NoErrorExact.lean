/-
  Property C02 "without error", Kind B: the float facts the epoch theorem takes as hypotheses hold in exact
  ordered-field arithmetic (`exactScalar`): a draw `f = x/2^63` with `x < 2^63` lies in `[0,1)`, hence
  `f·t ≤ t` for `t ≥ 0` (`UnitMulLe`), `0 ≤ floor(f/4·n) < n` for `n > 0` (`PickLaw`), and
  `floor(survival_thresh·n + 1) ≥ 1` for a non-negative threshold (`OptsOk.parents`, from C09ParentsExact).
  For float64 the same facts follow from monotonicity of rounding; that is trusted and observed by the check.
-/
import GoNeat.Props.C02NoError
import GoNeat.Props.C09ParentsExact

namespace GoNeat.C02
open GoNeat GoNeat.NoErr
variable {K : Type} [Field K] [LinearOrder K] [IsStrictOrderedRing K] [FloorRing K]

theorem unit_nonneg (x : Nat) : (0 : K) ≤ (x : K) / 2 ^ 63 := by positivity

theorem unit_lt_one (x : Nat) (hx : x < 2 ^ 63) : (x : K) / 2 ^ 63 < 1 := by
  rw [div_lt_one (by positivity)]
  exact_mod_cast hx

theorem unitMulLe_exact : UnitMulLe K := by
  intro x t hx _ ht
  simp only [Exact.le_eq, Exact.zero_eq, decide_eq_true_eq] at ht
  simp only [Exact.le_eq, Exact.mul_eq, decide_eq_true_eq]
  show (x : K) / 2 ^ 63 * t ≤ t
  exact mul_le_of_le_one_left ht (unit_lt_one x hx).le

theorem pickLaw_exact : PickLaw K := by
  intro x n hx hn _
  simp only [Exact.floorInt_eq, Exact.mul_eq, Exact.div_eq, Exact.ofInt_eq]
  show 0 ≤ ⌊(x : K) / 2 ^ 63 / ((4 : Int) : K) * ((n : Int) : K)⌋ ∧ ⌊(x : K) / 2 ^ 63 / ((4 : Int) : K) * ((n : Int) : K)⌋.toNat < n
  have h0 := unit_nonneg (K := K) x
  have h1 := unit_lt_one (K := K) x hx
  have hnpos : (0 : K) < (n : K) := by exact_mod_cast hn
  have hlo : (0 : K) ≤ (x : K) / 2 ^ 63 / ((4 : Int) : K) * ((n : Int) : K) := by
    push_cast; positivity
  have hhi : (x : K) / 2 ^ 63 / ((4 : Int) : K) * ((n : Int) : K) < ((n : Int) : K) := by
    push_cast
    have : (x : K) / 2 ^ 63 / 4 < 1 := by linarith
    calc (x : K) / 2 ^ 63 / 4 * (n : K) < 1 * (n : K) := by exact mul_lt_mul_of_pos_right this hnpos
      _ = (n : K) := one_mul _
  have f0 : 0 ≤ ⌊(x : K) / 2 ^ 63 / ((4 : Int) : K) * ((n : Int) : K)⌋ := Int.floor_nonneg.mpr hlo
  have f1 : ⌊(x : K) / 2 ^ 63 / ((4 : Int) : K) * ((n : Int) : K)⌋ < (n : Int) := Int.floor_lt.mpr hhi
  exact ⟨f0, by omega⟩

/-- **the float facts hold in exact arithmetic** -/
theorem floatFacts_exact : FloatFacts K := ⟨unitMulLe_exact, pickLaw_exact⟩

/-- `OptsOk.parents` in exact arithmetic: a non-negative survival threshold keeps at least one parent -/
theorem parents_exact (o : EpochOpts K) (h : 0 ≤ o.survivalThresh) : ∀ n, n ≤ o.popSize → 1 ≤ C09.numParents o n :=
  fun n _ => C09.numParents_pos o n h

/-- **C02 "without error" in exact arithmetic**: no float fact is left as a hypothesis except `QuotaOk`
    (the C09 raw-quota facts, which in exact arithmetic follow from non-negative fitness — C09Exact). -/
theorem nextEpoch_no_error_exact (S : List Nat) (o : EpochOpts K) (p : Pop K) (h : Hyp S o p) (gen : Int) :
    ∀ rs, Valid rs → ∀ msg, nextEpoch o gen p rs ≠ .error (.error msg) :=
  nextEpoch_no_error floatFacts_exact S o p h gen

end GoNeat.C02
