/-
  Property C04, continued (Kind A: every scalar type, all fitness values incl. ties, every random stream, parents of
  every size): the averaging multipoint crossover, the single-point crossover, the node-set clause and the trait
  clause for all three operators.  Helper lemmas: `Proofs/MateLemmas.lean`.

  Vocabulary (defined in `Proofs/MateLemmas.lean`):
  * `CopyOf nt t0 c x`   – child gene `c` is parent gene `x` verbatim (number, endpoints, recurrence flag, weight,
                           mutation number, enabled flag); only its trait pointer is redirected into the child's traits.
  * `AvgOf nt t0 x y c`  – `c` is the code's average of the matching genes `x`, `y`: `c.w = avg x.w y.w`
                           (`avg a b = div (add a b) (ofInt 2)` in the scalar's own arithmetic), mutation number
                           likewise, source / target / recurrence flag / trait each from `x` or from `y`, enabled flag
                           by `EnRule`.
  * `EnRule e1 e2 e`     – the code's `!e1 || !e2 && rand.Float64() < 0.75 ⇒ disabled`: disabled in the first
                           operand ⇒ disabled; enabled in both ⇒ enabled; enabled in the first and disabled in the
                           second ⇒ disabled exactly when a `rand.Float64()` draw is below 0.75.
-/
import GoNeat.Proofs.MateLemmas
import GoNeat.Props.C01

namespace GoNeat.C04
open GoNeat Scalar
variable {W : Type} [Scalar W]

instance (l1 l2 : List (Gene W)) : Decidable (Consistent l1 l2) := by unfold Consistent Gene.link; infer_instance

/-- `g.Traits[0].Id`, the base the code subtracts to index the child's traits -/
def traitBase (g : Genome W) : Option Int := g.traits.head?.map (·.id)

omit [Scalar W] in
theorem Consistent.symm' {l1 l2 : List (Gene W)} (h : Consistent l1 l2) : Consistent l2 l1 :=
  fun x hx y hy e => (h y hy x hx e.symm).symm

theorem Aligned.left {α β : Type} {R : α → β → Prop} {as : List α} {bs : List β} (h : Aligned R as bs) :
    ∀ a ∈ as, ∃ b ∈ bs, R a b := by
  induction h with
  | nil => intro a ha; cases ha
  | cons hr _ ih =>
    intro a ha
    rcases List.mem_cons.mp ha with rfl | ha
    · exact ⟨_, by simp, hr⟩
    · obtain ⟨b, hb, r⟩ := ih a ha; exact ⟨b, by simp [hb], r⟩

theorem Aligned.right {α β : Type} {R : α → β → Prop} {as : List α} {bs : List β} (h : Aligned R as bs) :
    ∀ b ∈ bs, ∃ a ∈ as, R a b := by
  induction h with
  | nil => intro b hb; cases hb
  | cons hr _ ih =>
    intro b hb
    rcases List.mem_cons.mp hb with rfl | hb
    · exact ⟨_, by simp, hr⟩
    · obtain ⟨a, ha, r⟩ := ih b hb; exact ⟨a, by simp [ha], r⟩

/-! ## 1. averaging multipoint crossover -/

/-- **C04 (averaging multipoint).**  For all parents with strictly ascending innovation numbers, pairwise distinct
    links and one lineage (equal number ⇒ equal link), all fitness values (ties included) and all random streams:
    the genes of a child of `mateMultipointAvg` are, one for one and in order, the genes of the fitter parent (the first
    parent iff `p1Better`: greater fitness, or equal fitness and fewer genes).  A gene the other parent does not carry
    is copied verbatim (so it keeps its enabled flag: disabled in its only carrier ⇒ disabled); a gene both carry is
    the code's average `AvgOf` of the first parent's and the second parent's gene.  Hence unmatched genes come only
    from the fitter parent, every matched gene is inherited exactly once, and the same-link conflict check is dead. -/
theorem mateMultipointAvg_spec (g og : Genome W) (id : Int) (f1 f2 : W) (rs rs' : List Nat) (c : Genome W)
    (h : mateMultipointAvg g og id f1 f2 rs = .ok (c, rs'))
    (hs1 : GenesSorted g.genes) (hs2 : GenesSorted og.genes)
    (hd1 : LinksDistinct g.genes) (hd2 : LinksDistinct og.genes) (hc : Consistent g.genes og.genes) :
    c.id = id ∧
    (p1Better f1 f2 g.genes.length og.genes.length = true →
      Aligned (InheritsAvg1 c.traits (traitBase g) og.genes) c.genes g.genes) ∧
    (p1Better f1 f2 g.genes.length og.genes.length = false →
      Aligned (InheritsAvg2 c.traits (traitBase g) g.genes) c.genes og.genes) := by
  obtain ⟨nt, t0, io, acc, hpro, hw, rfl⟩ := mateMultipointAvg_unfold g og id f1 f2 rs rs' c h
  obtain ⟨_, _, _, rfl⟩ := matePrologue_exact g og nt _ io hpro
  refine ⟨rfl, fun hb => ?_, fun hb => ?_⟩
  · rw [hb] at hw
    obtain ⟨news, hn, hal⟩ := multipointAvgWalk_p1 g og nt _ [] _ _ _ _ _ _ hw hs1 hs2 (by simp) hd1 hc (by simp)
    simp only [List.nil_append] at hn hal
    simp only [hn]; exact hal
  · rw [hb] at hw
    obtain ⟨news, hn, hal⟩ := multipointAvgWalk_p2 g og nt _ [] _ _ _ _ _ _ hw hs1 hs2 (by simp) hd2 hc (by simp)
    simp only [List.nil_append] at hn hal
    simp only [hn]; exact hal

/-- in the words of the property: the child's innovation numbers are exactly the fitter parent's, in order -/
theorem mateMultipointAvg_inns (g og : Genome W) (id : Int) (f1 f2 : W) (rs rs' : List Nat) (c : Genome W)
    (h : mateMultipointAvg g og id f1 f2 rs = .ok (c, rs'))
    (hs1 : GenesSorted g.genes) (hs2 : GenesSorted og.genes)
    (hd1 : LinksDistinct g.genes) (hd2 : LinksDistinct og.genes) (hc : Consistent g.genes og.genes) :
    c.genes.map (·.inn) = (fitter g og f1 f2).genes.map (·.inn) := by
  obtain ⟨_, h1, h2⟩ := mateMultipointAvg_spec g og id f1 f2 rs rs' c h hs1 hs2 hd1 hd2 hc
  unfold fitter
  by_cases hb : p1Better f1 f2 g.genes.length og.genes.length = true
  · simp only [hb, ↓reduceIte]
    exact (h1 hb).map_eq _ _ (fun _ _ hr => inh1_inn hr)
  · have hb' : p1Better f1 f2 g.genes.length og.genes.length = false := by simpa using hb
    simp only [hb', Bool.false_eq_true, ↓reduceIte]
    exact (h2 hb').map_eq _ _ (fun _ _ hr => inh2_inn hr)

/-! ## 2. single-point crossover -/

/-- **C04 (single point).**  For parents of one lineage and every random stream, with `cp` the crossing point the
    code draws (`rand.Intn` of the smaller gene count, so `cp` is a position in the parent with fewer genes - the
    second parent on equal counts): the child's genes are, one for one and in order, realisations (`CopyOf` / `AvgOf`)
    of the origins of `spPlan cp shorter.genes longer.genes` that survive the same-link conflict check `spKeep`
    (an origin is dropped iff its link is already in the child).  When both parents' innovation numbers ascend strictly,
    every origin sits on its side of the crossing point (`OriginOk`): a gene copied from the parent with fewer genes is
    one of its first `cp` genes; the averaged gene is its gene number `cp` together with the matching gene of the other
    parent; a gene copied from the parent with more genes has a larger innovation number than each of the first `cp+1`
    genes of the shorter parent. -/
theorem mateSinglePoint_spec (g og : Genome W) (id : Int) (rs rs' : List Nat) (c : Genome W)
    (h : mateSinglePoint g og id rs = .ok (c, rs')) (hc : Consistent g.genes og.genes) :
    c.id = id ∧
    ∃ cp rs1, Rand.intn (shorter g og).genes.length rs = .ok (cp, rs1) ∧ cp < (shorter g og).genes.length ∧
      Aligned (Realises c.traits (traitBase g)) c.genes
        (spKeep [] (spPlan cp (shorter g og).genes (longer g og).genes 0 false)) ∧
      (GenesSorted g.genes → GenesSorted og.genes →
        ∀ o ∈ spPlan cp (shorter g og).genes (longer g og).genes 0 false,
          OriginOk cp (shorter g og).genes (longer g og).genes o) := by
  obtain ⟨nt, t0, io, cp, rs1, acc, hpro, hcp, hw, rfl⟩ := mateSinglePoint_unfold g og id rs rs' c h
  obtain ⟨_, _, _, rfl⟩ := matePrologue_exact g og nt _ io hpro
  have hc' : Consistent (shorter g og).genes (longer g og).genes := by
    rcases shorter_longer g og with ⟨e1, e2⟩ | ⟨e1, e2⟩ <;> rw [e1, e2]
    · exact hc
    · exact hc.symm'
  obtain ⟨news, hn, hal⟩ := singlePointWalk_plan _ _ nt _ cp _ _ 0 none _ _ _ _ hw hc'
  simp only [List.nil_append, List.map_nil, Option.isSome_none] at hn hal
  refine ⟨rfl, cp, rs1, hcp, intn_lt _ _ _ _ hcp, by simp only [hn]; exact hal, ?_⟩
  intro hs1 hs2
  have hs : GenesSorted (shorter g og).genes ∧ GenesSorted (longer g og).genes := by
    rcases shorter_longer g og with ⟨e1, e2⟩ | ⟨e1, e2⟩ <;> rw [e1, e2]
    · exact ⟨hs1, hs2⟩
    · exact ⟨hs2, hs1⟩
  have := spPlan_sound cp [] (shorter g og).genes (longer g og).genes 0 false hs.1 hs.2 rfl (by simp)
  simpa using this

/-- in the words of the property: every gene of a single-point child is a verbatim copy of a gene of one parent, or
    the code's average of two matching genes (the shorter parent's gene as first operand) -/
theorem mateSinglePoint_gene (g og : Genome W) (id : Int) (rs rs' : List Nat) (c : Genome W)
    (h : mateSinglePoint g og id rs = .ok (c, rs')) (hc : Consistent g.genes og.genes)
    (hs1 : GenesSorted g.genes) (hs2 : GenesSorted og.genes) :
    ∀ cg ∈ c.genes,
      (∃ x ∈ (shorter g og).genes, CopyOf c.traits (traitBase g) cg x) ∨
      (∃ y ∈ (longer g og).genes, CopyOf c.traits (traitBase g) cg y) ∨
      (∃ x ∈ (shorter g og).genes, ∃ y ∈ (longer g og).genes, x.inn = y.inn ∧ AvgOf c.traits (traitBase g) x y cg) := by
  obtain ⟨_, cp, rs1, _, _, hal, hok⟩ := mateSinglePoint_spec g og id rs rs' c h hc
  intro cg hcg
  obtain ⟨o, ho, hr⟩ := hal.left cg hcg
  have hok' := hok hs1 hs2 o (spKeep_sub _ _ o ho)
  cases o with
  | short x =>
    obtain ⟨k, _, hk⟩ := hok'
    exact Or.inl ⟨x, List.mem_of_getElem? hk, hr⟩
  | mean x y => exact Or.inr (Or.inr ⟨x, List.mem_of_getElem? hok'.1, y, hok'.2.1, hok'.2.2, hr⟩)
  | long y => exact Or.inr (Or.inl ⟨y, hok'.1, hr⟩)

omit [Scalar W] in
theorem CrossDistinct.symm' {l1 l2 : List (Gene W)} (h : CrossDistinct l1 l2) : CrossDistinct l2 l1 :=
  fun x hx y hy e => (h y hy x hx e.symm).symm

/-- **the conflict check is dead in the single-point crossover too** when, besides one lineage, a link carries one
    innovation number across the parents (`CrossDistinct`) and links are pairwise distinct within each: the child's genes
    are then exactly the realisations of the plan, nothing dropped.  (Under `SameLineage` alone two parents may carry
    one link under two numbers; then the later origin is dropped - that is `spKeep` in `mateSinglePoint_spec`.) -/
theorem mateSinglePoint_noconflict (g og : Genome W) (id : Int) (rs rs' : List Nat) (c : Genome W)
    (h : mateSinglePoint g og id rs = .ok (c, rs')) (hc : Consistent g.genes og.genes)
    (hs1 : GenesSorted g.genes) (hs2 : GenesSorted og.genes)
    (hd1 : LinksDistinct g.genes) (hd2 : LinksDistinct og.genes) (hx : CrossDistinct g.genes og.genes) :
    ∃ cp rs1, Rand.intn (shorter g og).genes.length rs = .ok (cp, rs1) ∧
      Aligned (Realises c.traits (traitBase g)) c.genes (spPlan cp (shorter g og).genes (longer g og).genes 0 false) := by
  obtain ⟨_, cp, rs1, hcp, _, hal, _⟩ := mateSinglePoint_spec g og id rs rs' c h hc
  refine ⟨cp, rs1, hcp, ?_⟩
  have hnc : ((spPlan cp (shorter g og).genes (longer g og).genes 0 false).map Origin.link).Pairwise (· ≠ ·) := by
    rcases shorter_longer g og with ⟨e1, e2⟩ | ⟨e1, e2⟩ <;> rw [e1, e2]
    · exact spPlan_links_distinct cp _ _ hs1 hs2 hd1 hd2 hx
    · exact spPlan_links_distinct cp _ _ hs2 hs1 hd2 hd1 hx.symm'
  rw [spKeep_all [] _ hnc (by simp)] at hal
  exact hal

/-- **matched genes in the single-point child** (parents sharing their first gene - otherwise the child may be
    gene-less, known finding K1 / `C04_singlepoint_K1`): for `x` the gene at position `k` of the parent with fewer
    genes and `y` a gene of the other parent with the same number, the child holds the copy of `x` if `k` lies before
    the crossing point, their average if `k` is the crossing point, and the copy of `y` if `k` lies behind it. -/
theorem mateSinglePoint_matched (g og : Genome W) (id : Int) (rs rs' rs1 : List Nat) (c : Genome W) (cp : Nat)
    (h : mateSinglePoint g og id rs = .ok (c, rs')) (hc : Consistent g.genes og.genes)
    (hs1 : GenesSorted g.genes) (hs2 : GenesSorted og.genes)
    (hd1 : LinksDistinct g.genes) (hd2 : LinksDistinct og.genes) (hcd : CrossDistinct g.genes og.genes)
    (hh : C01.SharedHead g og)
    (hcp : Rand.intn (shorter g og).genes.length rs = .ok (cp, rs1))
    (k : Nat) (x y : Gene W) (hx : (shorter g og).genes[k]? = some x) (hy : y ∈ (longer g og).genes) (heq : x.inn = y.inn) :
    ∃ cg ∈ c.genes, (k < cp → CopyOf c.traits (traitBase g) cg x) ∧ (k = cp → AvgOf c.traits (traitBase g) x y cg) ∧
      (k > cp → CopyOf c.traits (traitBase g) cg y) := by
  have hs : GenesSorted (shorter g og).genes ∧ GenesSorted (longer g og).genes := by
    rcases shorter_longer g og with ⟨e1, e2⟩ | ⟨e1, e2⟩ <;> rw [e1, e2]
    · exact ⟨hs1, hs2⟩
    · exact ⟨hs2, hs1⟩
  have hhead : ∀ x0 ∈ (shorter g og).genes.head?, ∀ y0 ∈ (longer g og).genes.head?, x0.inn ≤ y0.inn := by
    intro x0 hx0 y0 hy0
    unfold C01.SharedHead at hh
    rcases shorter_longer g og with ⟨e1, e2⟩ | ⟨e1, e2⟩ <;> rw [e1] at hx0 <;> rw [e2] at hy0
    · simp only [Option.mem_def] at hx0 hy0; rw [hx0, hy0] at hh; simp at hh; omega
    · simp only [Option.mem_def] at hx0 hy0; rw [hx0, hy0] at hh; simp at hh; omega
  have hm := spPlan_matched cp _ _ 0 false hs.1 hs.2 (Or.inr hhead) k x y hx hy heq
  simp only [Nat.zero_add] at hm
  obtain ⟨cp', rs1', hcp', hal⟩ := mateSinglePoint_noconflict g og id rs rs' c h hc hs1 hs2 hd1 hd2 hcd
  rw [hcp] at hcp'
  simp only [Except.ok.injEq, Prod.mk.injEq] at hcp'
  obtain ⟨rfl, rfl⟩ := hcp'
  rcases Nat.lt_trichotomy k cp with hlt | hlt | hlt
  · obtain ⟨cg, hcg, hr⟩ := hal.right _ (hm.1 hlt)
    exact ⟨cg, hcg, fun _ => hr, fun e => by omega, fun e => by omega⟩
  · obtain ⟨cg, hcg, hr⟩ := hal.right _ (hm.2.1 hlt)
    exact ⟨cg, hcg, fun e => by omega, fun _ => hr, fun e => by omega⟩
  · obtain ⟨cg, hcg, hr⟩ := hal.right _ (hm.2.2 hlt)
    exact ⟨cg, hcg, fun e => by omega, fun e => by omega, fun _ => hr⟩

/-! ## 3. the node set of the child (all three operators) -/

omit [Scalar W] in
theorem nodeClause_fin (g og : Genome W) (id : Int) (c : Genome W) (b : Bool) (hout : C01.MateOut g og id c b)
    (hk : C01.KindsValid og) (nt : List (Trait W)) (t0 : Option Int) (io : List Node) (acc : MateAcc W)
    (hio : ioNodes nt t0 og.nodes [] = .ok io)
    (hc : c = { id := id, traits := nt, nodes := acc.nodes, genes := acc.genes })
    (hn : NodeInv g og io acc) : NodeClause g og c := by
  obtain ⟨nt', acc', hc', _, hacc, _⟩ := hout
  subst hc
  simp only [Genome.mk.injEq] at hc'
  obtain ⟨_, rfl, e1, e2, _⟩ := hc'
  have : acc = acc' := by cases acc; cases acc'; simp only at e1 e2; subst e1 e2; rfl
  subst this
  exact nodeClause_of g og nt t0 io acc id hk hio hacc hn

/-- **C04, node set (multipoint)**: `NodeClause` - ids strictly ascending (unique); every input/bias/output node of the
    second parent kept with role and activation type; every endpoint of a child gene is a child node; no other node;
    every node has id, role and activation type of a parent's node -/
theorem mateMultipoint_nodes (g og : Genome W) (id : Int) (f1 f2 : W) (rs rs' : List Nat) (c : Genome W)
    (hw1 : C01.WFT g) (hw2 : C01.WFT og) (h : mateMultipoint g og id f1 f2 rs = .ok (c, rs')) : NodeClause g og c := by
  obtain ⟨nt, t0, io, acc, hpro, hw, hc⟩ := mateMultipoint_unfold g og id f1 f2 rs rs' c h
  obtain ⟨_, _, hio, _⟩ := matePrologue_exact g og nt t0 io hpro
  refine nodeClause_fin g og id c false (C01.mateMultipoint_out g og id f1 f2 rs rs' c hw1 hw2 h) hw2.kinds nt t0 io acc hio hc ?_
  exact multipointWalk_ind (NodeInv g og io) g og nt t0 _ _ _ _ _ _ _
    (fun x hx a a' dis hp he => addChosen_nodeInv g og io nt t0 _ (C01.legit_chooseFrom_left g og x hx) a a' dis hp he)
    (fun y hy a a' dis hp he => addChosen_nodeInv g og io nt t0 _ (C01.legit_chooseFrom_right g og y hy) a a' dis hp he)
    hw (nodeInv_start g og io nt t0 hio)

/-- **C04, node set (averaging multipoint)** -/
theorem mateMultipointAvg_nodes (g og : Genome W) (id : Int) (f1 f2 : W) (rs rs' : List Nat) (c : Genome W)
    (hw1 : C01.WFT g) (hw2 : C01.WFT og) (h : mateMultipointAvg g og id f1 f2 rs = .ok (c, rs')) : NodeClause g og c := by
  obtain ⟨nt, t0, io, acc, hpro, hw, hc⟩ := mateMultipointAvg_unfold g og id f1 f2 rs rs' c h
  obtain ⟨_, _, hio, _⟩ := matePrologue_exact g og nt t0 io hpro
  refine nodeClause_fin g og id c false (C01.mateMultipointAvg_out g og id f1 f2 rs rs' c hw1 hw2 h) hw2.kinds nt t0 io acc hio hc ?_
  exact multipointAvgWalk_ind (NodeInv g og io) g og nt t0 _ _ _ _ _ _ _
    (fun x hx a a' dis hp he => addChosen_nodeInv g og io nt t0 _ (C01.legit_chooseFrom_left g og x hx) a a' dis hp he)
    (fun y hy a a' dis hp he => addChosen_nodeInv g og io nt t0 _ (C01.legit_chooseFrom_right g og y hy) a a' dis hp he)
    (fun x hx y hy heq ch r r' hav a a' hp he =>
      addChosen_nodeInv g og io nt t0 _ (C01.legit_avgChosen g og x y hx hy heq ch r r' hav).1 a a' false hp he)
    hw (nodeInv_start g og io nt t0 hio)

/-- **C04, node set (single point)** - holds for the gene-less child of K1 too (it then has exactly the
    input/bias/output nodes) -/
theorem mateSinglePoint_nodes (g og : Genome W) (id : Int) (rs rs' : List Nat) (c : Genome W)
    (hw1 : C01.WFT g) (hw2 : C01.WFT og) (h : mateSinglePoint g og id rs = .ok (c, rs')) : NodeClause g og c := by
  obtain ⟨nt, t0, io, cp, rs1, acc, hpro, _, hw, hc⟩ := mateSinglePoint_unfold g og id rs rs' c h
  obtain ⟨_, _, hio, _⟩ := matePrologue_exact g og nt t0 io hpro
  refine nodeClause_fin g og id c true (C01.mateSinglePoint_out g og id rs rs' c hw1 hw2 h) hw2.kinds nt t0 io acc hio hc ?_
  rcases shorter_longer g og with ⟨e1, e2⟩ | ⟨e1, e2⟩ <;> rw [e1, e2] at hw
  · exact singlePointWalk_ind (NodeInv g og io) g og nt t0 cp _ _ _ _ _ _ _ _
      (fun x hx a a' dis hp he => addChosen_nodeInv g og io nt t0 _ (C01.legit_chooseFrom_left g og x hx) a a' dis hp he)
      (fun y hy a a' dis hp he => addChosen_nodeInv g og io nt t0 _ (C01.legit_chooseFrom_right g og y hy) a a' dis hp he)
      (fun x hx y hy heq ch r r' hav a a' hp he =>
        addChosen_nodeInv g og io nt t0 _ (C01.legit_avgChosen g og x y hx hy heq ch r r' hav).1 a a' false hp he)
      hw (nodeInv_start g og io nt t0 hio)
  · exact singlePointWalk_ind (NodeInv g og io) og g nt t0 cp _ _ _ _ _ _ _ _
      (fun x hx a a' dis hp he => addChosen_nodeInv g og io nt t0 _ (C01.legit_chooseFrom_right g og x hx) a a' dis hp he)
      (fun y hy a a' dis hp he => addChosen_nodeInv g og io nt t0 _ (C01.legit_chooseFrom_left g og y hy) a a' dis hp he)
      (fun x hx y hy heq ch r r' hav a a' hp he =>
        addChosen_nodeInv g og io nt t0 _ (C01.legit_avgChosen og g x y hx hy heq ch r r' hav).1.symm a a' false hp he)
      hw (nodeInv_start g og io nt t0 hio)

omit [Scalar W] in
/-- under the node part of `SameLineage` the input/bias/output nodes of the FIRST parent are kept as well (they are
    those of the second parent) -/
theorem nodeClause_first (g og c : Genome W) (hl : C01.NodeLineage g og) (hn : NodeClause g og c) :
    ∀ n ∈ g.nodes, n.kind ≠ Kind.hidden → ∃ m ∈ c.nodes, m.id = n.id ∧ m.kind = n.kind := by
  intro n hnm hk
  have : n.id ∈ C01.ioIds og := by rw [← hl.2.2]; exact C01.mem_ioIds.mpr ⟨n, hnm, hk, rfl⟩
  obtain ⟨n', hn', hk', e⟩ := C01.mem_ioIds.mp this
  obtain ⟨m, hm, e1, e2, _⟩ := hn.2.1 n' hn' hk'
  exact ⟨m, hm, by rw [e1, e], by rw [e2, hl.1 n hnm n' hn' e.symm]⟩

/-! ## 4. traits (all three operators) -/

/-- **the trait clause of C04**: the child has the parents' number of traits; trait `i` carries the first parent's
    id and, parameter by parameter, the code's average `avg a b` of the two parents' values (the vectors had equal
    lengths, so none is dropped) -/
def TraitClause (g og c : Genome W) : Prop :=
  c.traits.length = g.traits.length ∧ g.traits.length = og.traits.length ∧
  c.traits = List.zipWith avgTrait g.traits og.traits ∧
  (∀ p ∈ List.zip g.traits og.traits, p.1.params.length = p.2.params.length)

theorem traitClause_of (g og : Genome W) (nt : List (Trait W)) (t0 : Option Int) (io : List Node)
    (h : matePrologue g og = .ok (nt, t0, io)) (c : Genome W) (hc : c.traits = nt) : TraitClause g og c := by
  obtain ⟨hl, hmt, _, _⟩ := matePrologue_exact g og nt t0 io h
  obtain ⟨e1, e2, e3⟩ := mateTraits_exact _ _ _ hmt hl
  rw [← hc] at e1 e2
  exact ⟨e2, hl, e1, e3⟩

theorem mateMultipoint_traits (g og : Genome W) (id : Int) (f1 f2 : W) (rs rs' : List Nat) (c : Genome W)
    (h : mateMultipoint g og id f1 f2 rs = .ok (c, rs')) : TraitClause g og c := by
  obtain ⟨nt, t0, io, acc, hpro, _, rfl⟩ := mateMultipoint_unfold g og id f1 f2 rs rs' c h
  exact traitClause_of g og nt t0 io hpro _ rfl

theorem mateMultipointAvg_traits (g og : Genome W) (id : Int) (f1 f2 : W) (rs rs' : List Nat) (c : Genome W)
    (h : mateMultipointAvg g og id f1 f2 rs = .ok (c, rs')) : TraitClause g og c := by
  obtain ⟨nt, t0, io, acc, hpro, _, rfl⟩ := mateMultipointAvg_unfold g og id f1 f2 rs rs' c h
  exact traitClause_of g og nt t0 io hpro _ rfl

theorem mateSinglePoint_traits (g og : Genome W) (id : Int) (rs rs' : List Nat) (c : Genome W)
    (h : mateSinglePoint g og id rs = .ok (c, rs')) : TraitClause g og c := by
  obtain ⟨nt, t0, io, _, _, acc, hpro, _, _, rfl⟩ := mateSinglePoint_unfold g og id rs rs' c h
  exact traitClause_of g og nt t0 io hpro _ rfl

end GoNeat.C04
