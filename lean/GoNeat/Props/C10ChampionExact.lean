/-
  Property C10, Kind B (exact ordered-field arithmetic): the organism the PUBLIC query `Species.FindChampion` names
  before a turnover is the organism whose genome the turnover preserves.

    `findChampionPublic_fittest`    a non-empty species with non-negative fitness values: `FindChampion` answers a
                                    member that no member exceeds in fitness (the start value -1.0 is below every member);
    `fittest_unique`                with pairwise different fitness values there is one such member;
    `nextEpoch_keeps_findChampion`  END TO END: for every species of the prepared population with quota > 5, the
                                    population `nextEpoch` returns lists an organism whose genome is a structural copy of
                                    the genome of `FindChampion` of the ORIGINAL species (fitness values pairwise
                                    different inside a species - the quantifier of C10 - and non-negative).
-/
import GoNeat.Props.C10Champion
import GoNeat.Props.C10Epoch

namespace GoNeat.C10
open GoNeat Champion
variable {K : Type} [Field K] [LinearOrder K] [IsStrictOrderedRing K] [FloorRing K]

theorem minusOne_exact : (minusOne : K) = -1 := by simp [minusOne]

theorem findChampionPublic_fittest (s : Species K) (hne : s.orgs ≠ []) (hnn : ∀ x ∈ s.orgs, 0 ≤ x.fitness) :
    ∃ y, findChampionPublic s = some y ∧ y ∈ s.orgs ∧ ∀ x ∈ s.orgs, x.fitness ≤ y.fitness := by
  cases hp : findChampionPublic s with
  | none =>
    obtain ⟨x, hx⟩ := List.exists_mem_of_ne_nil _ hne
    have := (findChampionPublic_none_iff exact_strictWeak s).mp hp x hx
    rw [minusOne_exact] at this
    simp only [Exact.lt_eq, decide_eq_false_iff_not, not_lt] at this
    have := hnn x hx
    linarith
  | some y =>
    obtain ⟨hy, _, hmax, _⟩ := findChampionPublic_spec exact_strictWeak s y hp
    refine ⟨y, rfl, hy, ?_⟩
    intro x hx
    have := hmax x hx
    simpa only [Exact.lt_eq, decide_eq_false_iff_not, not_lt] using this

/-- pairwise different fitness values: the member no member exceeds is unique -/
theorem fittest_unique (l : List (Org K))
    (hd : ∀ a ∈ l, ∀ b ∈ l, a = b ∨ a.fitness ≠ b.fitness)
    (y z : Org K) (hy : y ∈ l) (hz : z ∈ l)
    (hym : ∀ x ∈ l, x.fitness ≤ y.fitness) (hzm : ∀ x ∈ l, x.fitness ≤ z.fitness) : y = z := by
  rcases hd y hy z hz with h | h
  · exact h
  · exact absurd (le_antisymm (hzm y hy) (hym z hz)) h

/-- END TO END: the genome of the public `FindChampion` of every sizeable species survives the turnover unchanged -/
theorem nextEpoch_keeps_findChampion (o : EpochOpts K) (gen : Int) (p p' p1 : Pop K) (ex : ExecState) (rs rs1 rs' : List Nat)
    (hu : C02.UidInv p) (hnd : (p.species.map (·.id)).Nodup) (hundup : (C02.orgUids p.species).Nodup)
    (hz : ScZero p) (hrefs : RefsOkPop p) (hun : ∀ s ∈ p.species, ∀ x ∈ s.orgs, x.toEliminate = false)
    (hnn : ∀ s ∈ p.species, ∀ x ∈ s.orgs, 0 ≤ x.fitness) (ha : 0 < o.ageSignificance) (hst : 0 ≤ o.survivalThresh)
    (hdist : ∀ s ∈ p.species, ∀ a ∈ s.orgs, ∀ b ∈ s.orgs, a = b ∨ a.fitness ≠ b.fitness)
    (hprep : prepareForReproduction o p rs = .ok ((p1, ex), rs1))
    (h : nextEpoch o gen p rs = .ok (p', rs')) :
    ∀ s ∈ p1.species, s.expectedOffspring > 5 →
      ∃ s0 ∈ p.species, s0.id = s.id ∧ ∃ y, findChampionPublic s0 = some y ∧
        ∃ s' ∈ p'.species, ∃ x ∈ s'.orgs, x.uid ∈ p'.organisms ∧ IsCopy y x := by
  intro s hs hq
  obtain ⟨s0, hs0, hid, y, hy, hmax, s', hs', x, hx, hlist, hcopy⟩ :=
    nextEpoch_keeps_fittest o gen p p' p1 ex rs rs1 rs' hu hnd hundup hz hrefs hun hnn ha hst hprep h s hs hq
  have hne : s0.orgs ≠ [] := List.ne_nil_of_mem hy
  obtain ⟨z, hz1, hz2, hz3⟩ := findChampionPublic_fittest s0 hne (hnn s0 hs0)
  have : y = z := fittest_unique s0.orgs (hdist s0 hs0) y z hy hz2 hmax hz3
  subst this
  exact ⟨s0, hs0, hid, y, hz1, s', hs', x, hx, hlist, hcopy⟩

end GoNeat.C10
