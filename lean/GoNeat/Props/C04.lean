/-
  Property C04 — crossover children inherit genes only as NEAT's alignment rules allow.
  Kind A: every theorem holds for every scalar type, every random stream and all fitness values.

  Key fact (`multipoint_inns`): for parents of one lineage (equal innovation number ⇒ equal link) with pairwise
  distinct links, the "same link already chosen" conflict check of the Go code can never fire, so the child's
  innovation numbers are *exactly* those of the fitter parent: genes present in only one parent come only from the
  fitter parent, every gene present in both is inherited, and each number occurs once.
-/
import GoNeat.Model.Mate
import GoNeat.Spec.WF
import GoNeat.Model.Legacy

namespace GoNeat.C04
open GoNeat Scalar
variable {W : Type} [Scalar W]

/-- equal innovation number ⇒ same endpoints and recurrence flag (common ancestry) -/
def Consistent (l1 l2 : List (Gene W)) : Prop := ∀ x ∈ l1, ∀ y ∈ l2, x.inn = y.inn → x.link = y.link

theorem sameLink_iff (a b : Gene W) : a.sameLink b = true ↔ a.link = b.link := by
  unfold Gene.sameLink Gene.link
  simp only [Bool.and_eq_true, beq_iff_eq, Prod.mk.injEq]
  constructor
  · rintro ⟨⟨h1, h2⟩, h3⟩; exact ⟨h1, h2, h3⟩
  · rintro ⟨h1, h2, h3⟩; exact ⟨⟨h1, h2⟩, h3⟩

/-- what `addChosen` does to the gene list -/
theorem addChosen_genes (nt : List (Trait W)) (t0 : Option Int) (acc acc' : MateAcc W) (c : Chosen W) (dis : Bool)
    (h : addChosen nt t0 acc c dis = .ok acc') :
    (acc.genes.any (·.sameLink c.gene) = true ∧ acc' = acc) ∨
    (acc.genes.any (·.sameLink c.gene) = false ∧ ∃ g' : Gene W, acc'.genes = acc.genes ++ [g'] ∧
      g'.inn = c.gene.inn ∧ g'.link = c.gene.link ∧ g'.w = c.gene.w ∧ g'.mnum = c.gene.mnum ∧
      g'.en = (if dis then false else c.gene.en)) := by
  unfold addChosen at h
  split at h
  · rename_i hany; left; cases h; exact ⟨hany, rfl⟩
  · rename_i hany
    right
    refine ⟨by simpa using hany, ?_⟩
    split at h
    · split at h
      · cases h
      · split at h
        · cases h
        · split at h
          · cases h
          · cases h
            exact ⟨_, rfl, rfl, rfl, rfl, rfl, rfl⟩
    · cases h

/-- a chosen gene whose link differs from every gene collected so far is appended -/
theorem addChosen_fresh (nt : List (Trait W)) (t0 : Option Int) (acc acc' : MateAcc W) (c : Chosen W) (dis : Bool)
    (h : addChosen nt t0 acc c dis = .ok acc') (hf : ∀ a ∈ acc.genes, a.link ≠ c.gene.link) :
    ∃ g' : Gene W, acc'.genes = acc.genes ++ [g'] ∧ g'.inn = c.gene.inn ∧ g'.link = c.gene.link ∧ g'.w = c.gene.w ∧
      g'.mnum = c.gene.mnum ∧ g'.en = (if dis then false else c.gene.en) := by
  rcases addChosen_genes nt t0 acc acc' c dis h with ⟨hany, _⟩ | ⟨_, hex⟩
  · obtain ⟨a, ha, hs⟩ := List.any_eq_true.mp hany
    exact absurd ((sameLink_iff a c.gene).mp hs) (hf a ha)
  · exact hex

theorem chooseFrom_gene (p : Genome W) (x : Gene W) : (chooseFrom p x).gene = x := rfl

/-- invariant step shared by all branches: appending a gene with the link of `x` keeps the collected genes
    link-disjoint from the rest `xs` of a link-distinct list `x :: xs` -/
theorem fresh_after (acc : List (Gene W)) (g' x : Gene W) (xs : List (Gene W)) (hl : g'.link = x.link)
    (hd : LinksDistinct (x :: xs)) (hacc : ∀ a ∈ acc, ∀ z ∈ x :: xs, a.link ≠ z.link) :
    ∀ a ∈ acc ++ [g'], ∀ z ∈ xs, a.link ≠ z.link := by
  intro a ha z hz
  rcases List.mem_append.mp ha with h | h
  · exact hacc a h z (by simp [hz])
  · simp at h; subst h; rw [hl]; exact (List.pairwise_cons.mp hd).1 z hz

/-- element-wise relation between two lists of equal length (core Lean has no `Forall₂`) -/
inductive Aligned {α β : Type} (R : α → β → Prop) : List α → List β → Prop where
  | nil : Aligned R [] []
  | cons {a b as bs} : R a b → Aligned R as bs → Aligned R (a :: as) (b :: bs)

theorem Aligned.map_eq {α β γ : Type} {R : α → β → Prop} (f : α → γ) (g : β → γ) (h : ∀ a b, R a b → f a = g b)
    {as : List α} {bs : List β} (hal : Aligned R as bs) : as.map f = bs.map g := by
  induction hal with
  | nil => rfl
  | cons hr _ ih => simp [h _ _ hr, ih]

theorem disableDraw_spec (e1 e2 dis : Bool) (rs rs' : List Nat) (h : disableDraw (W := W) e1 e2 rs = .ok (dis, rs')) :
    (e1 = false → dis = true) ∧ (e1 = true → e2 = true → dis = false) := by
  unfold disableDraw at h
  cases e1 <;> cases e2 <;> simp at h
  · exact ⟨fun _ => h.1, by simp⟩
  · exact ⟨fun _ => h.1, by simp⟩
  · split at h
    · cases h
    · simp
  · exact ⟨by simp, fun _ _ => h.1⟩

/-- how a child gene `c` relates to the gene `x` of the fitter parent it stands for, `other` being the gene
    list of the other parent:
    * same innovation number, endpoints and recurrence flag;
    * weight and mutation number are those of `x` or of the matching gene of the other parent;
    * enabled if enabled in every parent that carries it, disabled if `x` is disabled and is the only carrier. -/
def Inherits (other : List (Gene W)) (c x : Gene W) : Prop :=
  c.inn = x.inn ∧ c.link = x.link ∧
  ((c.w = x.w ∧ c.mnum = x.mnum) ∨ ∃ y ∈ other, y.inn = x.inn ∧ c.w = y.w ∧ c.mnum = y.mnum) ∧
  ((x.en = true ∧ ∀ y ∈ other, y.inn = x.inn → y.en = true) → c.en = true) ∧
  ((x.en = false ∧ ∀ y ∈ other, y.inn ≠ x.inn) → c.en = false)

/-- **C04, multipoint crossover, first parent fitter** (`fitness1 > fitness2`, or equal fitness and fewer genes).
    For every random stream: the child's genes are, one for one and in order, the genes of the first parent
    (`Forall₂ Inherits`), i.e. unmatched genes come only from the fitter parent, every matched gene is inherited,
    every innovation number occurs once; weights come from either carrier; the enabled-flag rule holds. -/
theorem multipointWalk_p1 (p1 p2 : Genome W) (nt : List (Trait W)) (t0 : Option Int) (other : List (Gene W))
    (xs ys : List (Gene W)) (acc acc' : MateAcc W) (rs rs' : List Nat)
    (h : multipointWalk p1 p2 nt t0 true xs ys acc rs = .ok (acc', rs'))
    (hsub : ∀ y ∈ ys, y ∈ other)
    (hd : LinksDistinct xs) (hc : Consistent xs ys) (hacc : ∀ a ∈ acc.genes, ∀ x ∈ xs, a.link ≠ x.link) :
    ∃ news, acc'.genes = acc.genes ++ news ∧ Aligned (Inherits other) news xs := by
  fun_induction multipointWalk p1 p2 nt t0 true xs ys acc rs with
  | case1 acc rs => cases h; exact ⟨[], by simp, Aligned.nil⟩
  | case2 y ys acc rs hb ih => exact ih h (fun z hz => hsub z (by simp [hz])) hd (by intro x hx; cases hx) hacc
  | case3 y ys acc rs hb => simp at hb
  | case4 y ys acc rs hb => simp at hb
  | case5 x xs acc rs hb ih => simp at hb
  | case6 x xs acc rs hb e he => cases h
  | case7 x xs acc rs hb acc1 he ih =>
    obtain ⟨g', hg, hinn, hl, hw, hm, hen⟩ := addChosen_fresh _ _ _ _ _ _ he (fun a ha => hacc a ha x (by simp))
    obtain ⟨news, hn, hf⟩ := ih h (by intro z hz; cases hz) (List.pairwise_cons.mp hd).2 (by intro a ha b hb; cases hb)
          (by rw [hg]; exact fresh_after _ _ _ _ (by rw [hl]; rfl) hd hacc)
    refine ⟨g' :: news, by rw [hn, hg]; simp, Aligned.cons ⟨hinn, hl, Or.inl ⟨hw, hm⟩, ?_, ?_⟩ hf⟩
    · intro ⟨hx, _⟩; rw [hen]; simpa [chooseFrom_gene] using hx
    · intro ⟨hx, _⟩; rw [hen]; simpa [chooseFrom_gene] using hx
  | case8 x xs y ys acc rs heq e hf => cases h
  | case9 x xs y ys acc rs heq f rs1 hf e hdd => cases h
  | case10 x xs y ys acc rs heq f rs1 hf c dis rs2 hdd e he => cases h
  | case11 x xs y ys acc rs heq f rs1 hf c dis rs2 hdd acc1 he ih =>
    have hxy : x.link = y.link := hc x (by simp) y (by simp) heq
    have hcl : c.gene.link = x.link := by
      simp only [c]; split <;> simp [chooseFrom_gene, hxy]
    have hci : c.gene.inn = x.inn := by
      simp only [c]; split <;> simp [chooseFrom_gene, heq]
    obtain ⟨g', hg, hinn, hl, hw, hm, hen⟩ := addChosen_fresh _ _ _ _ _ _ he (fun a ha => by rw [hcl]; exact hacc a ha x (by simp))
    obtain ⟨news, hn, hf'⟩ := ih h (fun z hz => hsub z (by simp [hz])) (List.pairwise_cons.mp hd).2
          (fun a ha b hb => hc a (by simp [ha]) b (by simp [hb]))
          (by rw [hg]; exact fresh_after _ _ _ _ (by rw [hl, hcl]) hd hacc)
    obtain ⟨hd1, hd2⟩ := disableDraw_spec _ _ _ _ _ hdd
    have hyo : y ∈ other := hsub y (by simp)
    refine ⟨g' :: news, by rw [hn, hg]; simp, Aligned.cons ⟨by rw [hinn, hci], by rw [hl, hcl], ?_, ?_, ?_⟩ hf'⟩
    · by_cases hlt : lt f (ofDec 5 1) = true
      · left; rw [hw, hm]; simp [c, hlt, chooseFrom_gene]
      · right; exact ⟨y, hyo, heq.symm, by rw [hw]; simp [c, hlt, chooseFrom_gene], by rw [hm]; simp [c, hlt, chooseFrom_gene]⟩
    · intro ⟨hx, hall⟩
      have hy : y.en = true := hall y hyo heq.symm
      rw [hen, hd2 hx hy]
      simp only [Bool.false_eq_true, ↓reduceIte, c]
      split <;> simp [chooseFrom_gene, hx, hy]
    · intro ⟨_, hnone⟩
      exact absurd heq.symm (hnone y hyo)
  | case12 x xs y ys acc rs hne hlt hb ih => simp at hb
  | case13 x xs y ys acc rs hne hlt hb e he => cases h
  | case14 x xs y ys acc rs hne hlt hb acc1 he ih =>
    obtain ⟨g', hg, hinn, hl, hw, hm, hen⟩ := addChosen_fresh _ _ _ _ _ _ he (fun a ha => hacc a ha x (by simp))
    obtain ⟨news, hn, hf⟩ := ih h hsub (List.pairwise_cons.mp hd).2 (fun a ha b hb => hc a (by simp [ha]) b hb)
          (by rw [hg]; exact fresh_after _ _ _ _ (by rw [hl]; rfl) hd hacc)
    refine ⟨g' :: news, by rw [hn, hg]; simp, Aligned.cons ⟨hinn, hl, Or.inl ⟨hw, hm⟩, ?_, ?_⟩ hf⟩
    · intro ⟨hx, _⟩; rw [hen]; simpa [chooseFrom_gene] using hx
    · intro ⟨hx, _⟩; rw [hen]; simpa [chooseFrom_gene] using hx
  | case15 x xs y ys acc rs hne hlt hb ih =>
    exact ih h (fun z hz => hsub z (by simp [hz])) hd (fun a ha b hb => hc a ha b (by simp [hb])) hacc
  | case16 x xs y ys acc rs hne hlt hb e he => simp at hb
  | case17 x xs y ys acc rs hne hlt hb acc1 he ih => simp at hb

/-- **C04, multipoint crossover, second parent fitter** (mirror image of `multipointWalk_p1`). -/
theorem multipointWalk_p2 (p1 p2 : Genome W) (nt : List (Trait W)) (t0 : Option Int) (other : List (Gene W))
    (xs ys : List (Gene W)) (acc acc' : MateAcc W) (rs rs' : List Nat)
    (h : multipointWalk p1 p2 nt t0 false xs ys acc rs = .ok (acc', rs'))
    (hsub : ∀ x ∈ xs, x ∈ other)
    (hd : LinksDistinct ys) (hc : Consistent xs ys) (hacc : ∀ a ∈ acc.genes, ∀ y ∈ ys, a.link ≠ y.link) :
    ∃ news, acc'.genes = acc.genes ++ news ∧ Aligned (Inherits other) news ys := by
  fun_induction multipointWalk p1 p2 nt t0 false xs ys acc rs with
  | case1 acc rs => cases h; exact ⟨[], by simp, Aligned.nil⟩
  | case2 y ys acc rs hb ih => simp at hb
  | case3 y ys acc rs hb e he => cases h
  | case4 y ys acc rs hb acc1 he ih =>
    obtain ⟨g', hg, hinn, hl, hw, hm, hen⟩ := addChosen_fresh _ _ _ _ _ _ he (fun a ha => hacc a ha y (by simp))
    obtain ⟨news, hn, hf⟩ := ih h (by intro z hz; cases hz) (List.pairwise_cons.mp hd).2 (by intro a ha; cases ha)
          (by rw [hg]; exact fresh_after _ _ _ _ (by rw [hl]; rfl) hd hacc)
    refine ⟨g' :: news, by rw [hn, hg]; simp, Aligned.cons ⟨hinn, hl, Or.inl ⟨hw, hm⟩, ?_, ?_⟩ hf⟩
    · intro ⟨hx, _⟩; rw [hen]; simpa [chooseFrom_gene] using hx
    · intro ⟨hx, _⟩; rw [hen]; simpa [chooseFrom_gene] using hx
  | case5 x xs acc rs hb ih =>
    exact ih h (fun z hz => hsub z (by simp [hz])) hd (by intro a ha b hb; cases hb) hacc
  | case6 x xs acc rs hb e he => simp at hb
  | case7 x xs acc rs hb acc1 he ih => simp at hb
  | case8 x xs y ys acc rs heq e hf => cases h
  | case9 x xs y ys acc rs heq f rs1 hf e hdd => cases h
  | case10 x xs y ys acc rs heq f rs1 hf c dis rs2 hdd e he => cases h
  | case11 x xs y ys acc rs heq f rs1 hf c dis rs2 hdd acc1 he ih =>
    have hxy : x.link = y.link := hc x (by simp) y (by simp) heq
    have hcl : c.gene.link = y.link := by
      simp only [c]; split <;> simp [chooseFrom_gene, hxy]
    have hci : c.gene.inn = y.inn := by
      simp only [c]; split <;> simp [chooseFrom_gene, heq]
    obtain ⟨g', hg, hinn, hl, hw, hm, hen⟩ := addChosen_fresh _ _ _ _ _ _ he (fun a ha => by rw [hcl]; exact hacc a ha y (by simp))
    obtain ⟨news, hn, hf'⟩ := ih h (fun z hz => hsub z (by simp [hz])) (List.pairwise_cons.mp hd).2
          (fun a ha b hb => hc a (by simp [ha]) b (by simp [hb]))
          (by rw [hg]; exact fresh_after _ _ _ _ (by rw [hl, hcl]) hd hacc)
    obtain ⟨hd1, hd2⟩ := disableDraw_spec _ _ _ _ _ hdd
    have hxo : x ∈ other := hsub x (by simp)
    refine ⟨g' :: news, by rw [hn, hg]; simp, Aligned.cons ⟨by rw [hinn, hci], by rw [hl, hcl], ?_, ?_, ?_⟩ hf'⟩
    · by_cases hlt : lt f (ofDec 5 1) = true
      · right; exact ⟨x, hxo, heq, by rw [hw]; simp [c, hlt, chooseFrom_gene], by rw [hm]; simp [c, hlt, chooseFrom_gene]⟩
      · left; rw [hw, hm]; simp [c, hlt, chooseFrom_gene]
    · intro ⟨hy, hall⟩
      have hx : x.en = true := hall x hxo heq
      rw [hen, hd2 hx hy]
      simp only [Bool.false_eq_true, ↓reduceIte, c]
      split <;> simp [chooseFrom_gene, hx, hy]
    · intro ⟨_, hnone⟩
      exact absurd heq (hnone x hxo)
  | case12 x xs y ys acc rs hne hlt hb ih =>
    exact ih h (fun z hz => hsub z (by simp [hz])) hd (fun a ha b hb => hc a (by simp [ha]) b hb) hacc
  | case13 x xs y ys acc rs hne hlt hb e he => simp at hb
  | case14 x xs y ys acc rs hne hlt hb acc1 he ih => simp at hb
  | case15 x xs y ys acc rs hne hlt hb ih => simp at hb
  | case16 x xs y ys acc rs hne hlt hb e he => cases h
  | case17 x xs y ys acc rs hne hlt hb acc1 he ih =>
    obtain ⟨g', hg, hinn, hl, hw, hm, hen⟩ := addChosen_fresh _ _ _ _ _ _ he (fun a ha => hacc a ha y (by simp))
    obtain ⟨news, hn, hf⟩ := ih h hsub (List.pairwise_cons.mp hd).2 (fun a ha b hb => hc a ha b (by simp [hb]))
          (by rw [hg]; exact fresh_after _ _ _ _ (by rw [hl]; rfl) hd hacc)
    refine ⟨g' :: news, by rw [hn, hg]; simp, Aligned.cons ⟨hinn, hl, Or.inl ⟨hw, hm⟩, ?_, ?_⟩ hf⟩
    · intro ⟨hx, _⟩; rw [hen]; simpa [chooseFrom_gene] using hx
    · intro ⟨hx, _⟩; rw [hen]; simpa [chooseFrom_gene] using hx

/-- the fitter parent as `mateMultipoint` decides it: the first one if its fitness is greater, or equal with
    fewer genes; otherwise the second -/
def fitter (g og : Genome W) (f1 f2 : W) : Genome W := if p1Better f1 f2 g.genes.length og.genes.length then g else og
def lessFit (g og : Genome W) (f1 f2 : W) : Genome W := if p1Better f1 f2 g.genes.length og.genes.length then og else g

/-- **C04 (multipoint).** For all parents of one lineage with pairwise distinct links, all fitness values
    (ties included) and all random streams: the genes of a child of `mateMultipoint` are, one for one and in
    order, the genes of the fitter parent, each inheriting as `Inherits` says; its id is the requested one and
    its traits are the element-wise averaged traits. -/
theorem mateMultipoint_spec (g og : Genome W) (id : Int) (f1 f2 : W) (rs rs' : List Nat) (c : Genome W)
    (h : mateMultipoint g og id f1 f2 rs = .ok (c, rs'))
    (hd1 : LinksDistinct g.genes) (hd2 : LinksDistinct og.genes) (hc : Consistent g.genes og.genes) :
    c.id = id ∧ mateTraits g.traits og.traits = .ok c.traits ∧
    Aligned (Inherits (lessFit g og f1 f2).genes) c.genes (fitter g og f1 f2).genes := by
  unfold mateMultipoint at h
  split at h
  · cases h
  · rename_i nt t0 nodes hpro
    simp only at h
    split at h
    · cases h
    · rename_i acc rs1 hw
      simp only [Except.ok.injEq, Prod.mk.injEq] at h
      obtain ⟨rfl, _⟩ := h
      have htr : mateTraits g.traits og.traits = .ok nt := by
        unfold matePrologue at hpro
        split at hpro
        · cases hpro
        · split at hpro
          · cases hpro
          · split at hpro
            · cases hpro
            · rename_i nt' hmt
              simp only at hpro
              split at hpro
              · cases hpro
              · simp only [Except.ok.injEq, Prod.mk.injEq] at hpro
                obtain ⟨rfl, _, _⟩ := hpro
                exact hmt
      refine ⟨rfl, htr, ?_⟩
      unfold fitter lessFit
      by_cases hb : p1Better f1 f2 g.genes.length og.genes.length = true
      · rw [hb] at hw
        obtain ⟨news, hn, hal⟩ := multipointWalk_p1 g og nt t0 og.genes _ _ _ _ _ _ hw (fun _ h => h) hd1 hc (by simp)
        simp only [hb, ↓reduceIte]
        simp only [List.nil_append] at hn
        rw [hn]; exact hal
      · have hb' : p1Better f1 f2 g.genes.length og.genes.length = false := by simpa using hb
        rw [hb'] at hw
        obtain ⟨news, hn, hal⟩ := multipointWalk_p2 g og nt t0 g.genes _ _ _ _ _ _ hw (fun _ h => h) hd2 hc (by simp)
        simp only [hb', Bool.false_eq_true, ↓reduceIte]
        simp only [List.nil_append] at hn
        rw [hn]; exact hal

/-- corollary in the words of the property: the child's innovation numbers are exactly the fitter parent's -/
theorem mateMultipoint_inns (g og : Genome W) (id : Int) (f1 f2 : W) (rs rs' : List Nat) (c : Genome W)
    (h : mateMultipoint g og id f1 f2 rs = .ok (c, rs'))
    (hd1 : LinksDistinct g.genes) (hd2 : LinksDistinct og.genes) (hc : Consistent g.genes og.genes) :
    c.genes.map (·.inn) = (fitter g og f1 f2).genes.map (·.inn) :=
  (mateMultipoint_spec g og id f1 f2 rs rs' c h hd1 hd2 hc).2.2.map_eq _ _ (fun _ _ hr => hr.1)

/-! ### the repaired defect (F1): the pre-fix gene copy re-enabled a gene disabled in its only carrier -/

theorem C04_counterexample : (Legacy.geneCopy (⟨3, 1, 2, false, (0 : Int), 0, false, none⟩ : Gene Int)).en = true := rfl

end GoNeat.C04
