/-
  Property C09, composed over the whole preparation phase: if the raw quotas (floor + carried fraction) are
  non-negative and total at most the population size — the only facts about the rounded computation that are used —
  then after `prepareForReproduction` (fix-up, zero-quota purge, sort, stolen babies or delta coding, write-back,
  removal of marked organisms) the quotas are non-negative and total EXACTLY the population size; hence (C02
  progeny_size_exact) reproduction yields exactly PopSize babies.  Kind A.
-/
import GoNeat.Props.C09
import GoNeat.Props.C02Epoch

namespace GoNeat.C09
open GoNeat Scalar
variable {W : Type} [Scalar W]

theorem assignQuotas_sumA (ss : List (Species W)) (skim : W) (tot : Int) :
    (assignQuotas ss skim tot).2.2 = tot + quotaSum (assignQuotas ss skim tot).1 := by
  induction ss generalizing skim tot with
  | nil => simp [assignQuotas, quotaSum]
  | cons s ss ih =>
    simp only [assignQuotas]
    rw [ih]
    simp only [quotaSum_cons]
    omega

theorem int_sum_perm {a b : List Int} (h : a.Perm b) : a.sum = b.sum := by
  induction h with
  | nil => rfl
  | cons x _ ih => simp [ih]
  | swap x y l => simp only [List.sum_cons]; omega
  | trans _ _ ih1 ih2 => exact ih1.trans ih2

theorem quotaSum_perm {a b : List (Species W)} (h : a.Perm b) : quotaSum a = quotaSum b := by
  unfold quotaSum
  exact int_sum_perm (h.map _)

theorem mem_of_mem_modify {α} (l : List α) (i : Nat) (f : α → α) (a : α) (h : a ∈ l.modify i f) : a ∈ l ∨ ∃ a0 ∈ l, a = f a0 := by
  induction l generalizing i with
  | nil => simp at h
  | cons x xs ih =>
    cases i with
    | zero =>
      simp only [List.modify_zero_cons, List.mem_cons] at h
      rcases h with rfl | h
      · right; exact ⟨x, by simp, rfl⟩
      · left; simp [h]
    | succ i =>
      simp only [List.modify_succ_cons, List.mem_cons] at h
      rcases h with rfl | h
      · left; simp
      · rcases ih i h with h1 | ⟨a0, h0, rfl⟩
        · left; simp [h1]
        · right; exact ⟨a0, by simp [h0], rfl⟩

/-- every quota of the fixed-up list is non-negative -/
theorem fixupQuotas_nonneg (ss : List (Species W)) (t n : Int) (hn : 0 ≤ n) (hnn : ∀ s ∈ ss, 0 ≤ s.expectedOffspring) :
    ∀ s ∈ fixupQuotas ss t n, 0 ≤ s.expectedOffspring := by
  unfold fixupQuotas
  split
  · split
    · exact hnn
    · rename_i b _
      split
      · intro s hs
        rcases mem_of_mem_modify _ b _ s hs with h | ⟨s0, h0, rfl⟩
        · obtain ⟨s1, _, rfl⟩ := List.mem_map.mp h; simp
        · exact hn
      · intro s hs
        rcases mem_of_mem_modify _ b _ s hs with h | ⟨s0, h0, rfl⟩
        · exact hnn s h
        · have := hnn s0 h0; simp only; omega
  · exact hnn


theorem deltaCoding_nonneg (sorted sorted' : List (Species W)) (o : EpochOpts W) (h : deltaCoding sorted o = .ok sorted') :
    ∀ s ∈ sorted', 0 ≤ s.expectedOffspring := by
  unfold deltaCoding at h
  simp only at h
  split at h
  · cases h
  · split at h
    · cases h
    · cases h; intro s hs; simp only [List.mem_singleton] at hs; subst hs; simp
  · split at h
    · cases h
    · cases h
      intro s hs
      simp only [List.mem_cons, List.mem_map] at hs
      rcases hs with rfl | rfl | ⟨s0, _, rfl⟩
      · simp only; omega
      · simp only; omega
      · simp

/-! ### stolen babies keep every quota non-negative -/

theorem stealLoop_quota_nonneg (bs : Int) (l : List (Species W)) (stolen : Int)
    (hnn : ∀ s ∈ l, 0 ≤ s.expectedOffspring) : ∀ s ∈ (stealLoop bs l stolen).1, 0 ≤ s.expectedOffspring := by
  induction l generalizing stolen with
  | nil => intro s hs; simp [stealLoop] at hs
  | cons x xs ih =>
    have hx := hnn x (by simp)
    have ihx := fun st => ih st (fun s hs => hnn s (by simp [hs]))
    unfold stealLoop
    split
    · split
      · rename_i hc
        simp only [Bool.and_eq_true, decide_eq_true_eq] at hc
        split
        · intro s hs
          rcases List.mem_cons.mp hs with rfl | h
          · simp only; omega
          · exact ihx _ s h
        · intro s hs
          rcases List.mem_cons.mp hs with rfl | h
          · simp
          · exact ihx _ s h
      · intro s hs
        rcases List.mem_cons.mp hs with rfl | h
        · exact hx
        · exact ihx _ s h
    · exact hnn

theorem giveLoop_quota_nonneg (o : EpochOpts W) (blocks : List Int) (hb : ∀ b ∈ blocks, 0 ≤ b) (l l' : List (Species W)) (bi : Nat)
    (stolen left : Int) (rs rs' : List Nat) (h0 : 0 ≤ stolen) (hnn : ∀ s ∈ l, 0 ≤ s.expectedOffspring)
    (h : giveLoop o blocks l bi stolen rs = .ok ((l', left), rs')) : ∀ s ∈ l', 0 ≤ s.expectedOffspring := by
  induction l generalizing l' bi stolen left rs rs' with
  | nil => simp only [giveLoop, Except.ok.injEq, Prod.mk.injEq] at h; obtain ⟨⟨rfl, _⟩, _⟩ := h; intro s hs; cases hs
  | cons x xs ih =>
    have hx := hnn x (by simp)
    have hxs : ∀ s ∈ xs, 0 ≤ s.expectedOffspring := fun s hs => hnn s (by simp [hs])
    unfold giveLoop at h
    split at h
    · split at h
      · cases h
      · rename_i rest st rs1 hrec
        simp only [Except.ok.injEq, Prod.mk.injEq] at h
        obtain ⟨⟨rfl, _⟩, _⟩ := h
        intro s hs
        rcases List.mem_cons.mp hs with rfl | h'
        · exact hx
        · exact ih _ _ _ _ _ _ h0 hxs hrec s h'
    · simp only at h
      split at h
      · cases h
      · rename_i s' st rs1 hstep
        have hk : 0 ≤ s'.expectedOffspring ∧ (st ≤ 0 ∨ 0 ≤ st) := by
          split at hstep
          · rename_i hc
            simp only [Except.ok.injEq, Prod.mk.injEq] at hstep
            obtain ⟨⟨rfl, rfl⟩, _⟩ := hstep
            have hbk : 0 ≤ (blocks[bi]?).getD 0 := by
              cases hq : blocks[bi]? with
              | none => simp
              | some b => simp; exact hb b (List.mem_of_getElem? hq)
            refine ⟨?_, by omega⟩
            simp only [quota_setTopOrg]; omega
          · split at hstep
            · split at hstep
              · cases hstep
              · split at hstep
                · split at hstep
                  · simp only [Except.ok.injEq, Prod.mk.injEq] at hstep
                    obtain ⟨⟨rfl, rfl⟩, _⟩ := hstep
                    refine ⟨?_, by omega⟩
                    simp only [quota_setTopOrg]; omega
                  · simp only [Except.ok.injEq, Prod.mk.injEq] at hstep
                    obtain ⟨⟨rfl, rfl⟩, _⟩ := hstep
                    refine ⟨?_, by omega⟩
                    simp only [quota_setTopOrg]; omega
                · simp only [Except.ok.injEq, Prod.mk.injEq] at hstep
                  obtain ⟨⟨rfl, rfl⟩, _⟩ := hstep
                  exact ⟨hx, by omega⟩
            · simp only [Except.ok.injEq, Prod.mk.injEq] at hstep
              obtain ⟨⟨rfl, rfl⟩, _⟩ := hstep
              exact ⟨hx, by omega⟩
        split at h
        · simp only [Except.ok.injEq, Prod.mk.injEq] at h
          obtain ⟨⟨rfl, _⟩, _⟩ := h
          intro s hs
          rcases List.mem_cons.mp hs with rfl | h'
          · exact hk.1
          · exact hxs s h'
        · rename_i hpos
          split at h
          · cases h
          · rename_i rest st' rs2 hrec
            simp only [Except.ok.injEq, Prod.mk.injEq] at h
            obtain ⟨⟨rfl, _⟩, _⟩ := h
            intro s hs
            rcases List.mem_cons.mp hs with rfl | h'
            · exact hk.1
            · exact ih _ _ _ _ _ _ (by omega) hxs hrec s h'

theorem giveBabies_quota_nonneg (sorted sorted' : List (Species W)) (o : EpochOpts W) (rs rs' : List Nat)
    (hbs : 0 ≤ o.babiesStolen) (hnn : ∀ s ∈ sorted, 0 ≤ s.expectedOffspring)
    (h : giveBabiesToTheBest sorted o rs = .ok (sorted', rs')) : ∀ s ∈ sorted', 0 ≤ s.expectedOffspring := by
  unfold giveBabiesToTheBest at h
  simp only at h
  have hst := stealLoop_quota_nonneg (W := W) o.babiesStolen sorted.reverse 0 (fun s hs => hnn s (List.mem_reverse.mp hs))
  have hsn := stealLoop_nonneg (W := W) o.babiesStolen hbs sorted.reverse 0 (Int.le_refl 0)
  split at h
  · cases h
  · rename_i l1 left rs1 hgive
    have hb : ∀ b ∈ [o.babiesStolen / 5, o.babiesStolen / 5, o.babiesStolen / 10], 0 ≤ b := by
      intro b hb'
      simp only [List.mem_cons, List.mem_nil_iff, or_false] at hb'
      rcases hb' with rfl | rfl | rfl <;> omega
    have h1 := giveLoop_quota_nonneg o _ hb _ _ _ _ _ _ _ hsn (fun s hs => hst s (List.mem_reverse.mp hs)) hgive
    have hl := giveLoop_nonneg o _ hb _ _ _ _ _ _ _ hsn hgive
    split at h
    · split at h
      · cases h
      · rename_i s ss
        split at h
        · cases h
        · simp only [Except.ok.injEq, Prod.mk.injEq] at h
          obtain ⟨rfl, _⟩ := h
          intro x hx
          rcases List.mem_cons.mp hx with rfl | h'
          · have := h1 s (by simp)
            simp only [quota_setTopOrg]; omega
          · exact h1 x (by simp [h'])
    · simp only [Except.ok.injEq, Prod.mk.injEq] at h
      obtain ⟨rfl, _⟩ := h
      exact h1


/-! ### writing the redistributed quotas back by species id -/

theorem find_by_own_id (U : List (Species W)) (hnd : (U.map (·.id)).Nodup) (x : Species W) (hx : x ∈ U) :
    U.find? (fun y => y.id == x.id) = some x := by
  induction U with
  | nil => cases hx
  | cons a as ih =>
    simp only [List.map_cons, List.nodup_cons, List.mem_map, not_exists, not_and] at hnd
    rcases List.mem_cons.mp hx with rfl | h
    · simp [List.find?_cons]
    · have hne : (a.id == x.id) = false := by
        simp only [beq_eq_false_iff_ne, ne_eq]
        intro e; exact hnd.1 x h e.symm
      simp only [List.find?_cons, hne]
      exact ih hnd.2 h

theorem writeBack_quota (species U : List (Species W)) (hndU : (U.map (·.id)).Nodup)
    (hperm : (species.map (·.id)).Perm (U.map (·.id))) :
    quotaSum (writeBack species U) = quotaSum U ∧ ∀ s ∈ writeBack species U, s ∈ U := by
  let qf : Int → Int := fun i => ((U.find? (fun y => y.id == i)).map (·.expectedOffspring)).getD 0
  have hfound : ∀ s ∈ species, ∃ x ∈ U, U.find? (fun y => y.id == s.id) = some x := by
    intro s hs
    have : s.id ∈ U.map (·.id) := hperm.mem_iff.mp (List.mem_map_of_mem hs)
    obtain ⟨x, hx, e⟩ := List.mem_map.mp this
    refine ⟨x, hx, ?_⟩
    have := find_by_own_id U hndU x hx
    rw [← e]; exact this
  constructor
  · have h1 : (writeBack species U).map (·.expectedOffspring) = (species.map (·.id)).map qf := by
      unfold writeBack
      rw [List.map_map, List.map_map]
      apply List.map_congr_left
      intro s hs
      obtain ⟨x, _, hf⟩ := hfound s hs
      simp [qf, hf]
    have h2 : (U.map (·.id)).map qf = U.map (·.expectedOffspring) := by
      rw [List.map_map]
      apply List.map_congr_left
      intro x hx
      simp [qf, find_by_own_id U hndU x hx]
    unfold quotaSum
    rw [h1, int_sum_perm (hperm.map qf), h2]
  · intro s hs
    unfold writeBack at hs
    obtain ⟨s0, hs0, rfl⟩ := List.mem_map.mp hs
    obtain ⟨x, hx, hf⟩ := hfound s0 hs0
    simp [hf, hx]

/-! ### the whole preparation phase -/

/-- the raw quota assignment of `purgeZeroOffspringSpecies`: expected offspring = fitness / mean, then floor + carried
    fraction per species in species order; returns the species with their raw quotas and the raw total -/
def rawAssign (p : Pop W) : List (Species W) × Int :=
  let orgs := p.orgList
  let total := orgs.foldl (fun acc o => add acc o.fitness) zero
  let totalOrganisms : Int := p.organisms.length
  let overallAverage := div total (ofInt totalOrganisms)
  let setExp (o : Org W) : Org W :=
    if eq overallAverage zero then o else { o with expectedOffspring := div o.fitness overallAverage }
  let species1 := p.species.map (fun s => { s with orgs := s.orgs.map setExp })
  let r := assignQuotas species1 zero 0
  (r.1, r.2.2)

theorem purgeZero_eq (p : Pop W) :
    (purgeZeroOffspringSpecies p).species =
      (fixupQuotas (rawAssign p).1 (rawAssign p).2 p.organisms.length).filter (fun s => s.expectedOffspring > 0) := rfl

theorem rawAssign_total (p : Pop W) : (rawAssign p).2 = quotaSum (rawAssign p).1 := by
  unfold rawAssign
  simp only
  rw [assignQuotas_sumA]; omega

theorem redistribute_quota (sorted1 : List (Species W)) (o : EpochOpts W) (e : Int) (rs : List Nat)
    (sorted2 : List (Species W)) (ehlc : Int) (rs1 : List Nat) (hbs : 0 ≤ o.babiesStolen)
    (htot : quotaSum sorted1 = o.popSize) (hnn : ∀ s ∈ sorted1, 0 ≤ s.expectedOffspring)
    (h : (if e ≥ o.dropOffAge + 5 then
            match deltaCoding sorted1 o with
            | .error er => .error er
            | .ok l => .ok ((l, 0), rs)
          else if o.babiesStolen > 0 then
            match giveBabiesToTheBest sorted1 o rs with
            | .error er => .error er
            | .ok (l, rs') => .ok ((l, e), rs')
          else .ok ((sorted1, e), rs) : R (List (Species W) × Int)) = .ok ((sorted2, ehlc), rs1)) :
    quotaSum sorted2 = o.popSize ∧ ∀ s ∈ sorted2, 0 ≤ s.expectedOffspring := by
  split at h
  · split at h
    · cases h
    · rename_i l hd
      simp only [Except.ok.injEq, Prod.mk.injEq] at h
      obtain ⟨⟨rfl, _⟩, _⟩ := h
      exact ⟨(deltaCoding_total _ _ _ hd).1, deltaCoding_nonneg _ _ _ hd⟩
  · split at h
    · split at h
      · cases h
      · rename_i l rs2 hg
        simp only [Except.ok.injEq, Prod.mk.injEq] at h
        obtain ⟨⟨rfl, _⟩, _⟩ := h
        exact ⟨by rw [giveBabies_conserves _ _ _ _ _ hbs hg]; exact htot, giveBabies_quota_nonneg _ _ _ _ _ hbs hnn hg⟩
    · simp only [Except.ok.injEq, Prod.mk.injEq] at h
      obtain ⟨⟨rfl, _⟩, _⟩ := h
      exact ⟨htot, hnn⟩

/-- **C09 (quotas after the whole preparation phase).** For every population, stream and option setting: if the raw
    quotas are non-negative and total at most the number of organisms `n` (the only facts about the rounded float
    computation that are used; in exact arithmetic the raw total is exactly `n`, C09Exact), `n` is the configured
    population size, and species ids are unique, then after `prepareForReproduction` every species' quota is
    non-negative and the quotas total exactly `PopSize`. -/
theorem prepare_quota_total (o : EpochOpts W) (p p1 : Pop W) (ex : ExecState) (rs rs' : List Nat) (species1 : List (Species W))
    (hsize : p.organisms.length = o.popSize) (hnd : (p.species.map (·.id)).Nodup) (hbs : 0 ≤ o.babiesStolen)
    (hadj : adjustAll o p.species = .ok species1)
    (hraw_nn : ∀ s ∈ (rawAssign ({ p with species := species1 } : Pop W)).1, 0 ≤ s.expectedOffspring)
    (hraw_le : (rawAssign ({ p with species := species1 } : Pop W)).2 ≤ o.popSize)
    (hne : (rawAssign ({ p with species := species1 } : Pop W)).1 ≠ [])
    (h : prepareForReproduction o p rs = .ok ((p1, ex), rs')) :
    quotaSum p1.species = o.popSize ∧ ∀ s ∈ p1.species, 0 ≤ s.expectedOffspring := by
  unfold prepareForReproduction at h
  rw [hadj] at h
  simp only at h
  have hk1 := C02.adjustAll_keys o _ _ hadj
  obtain ⟨hz1, _, hz3⟩ := C02.purgeZero_keys ({ p with species := species1 } : Pop W)
  have hpzs := purgeZero_eq ({ p with species := species1 } : Pop W)
  have htot := rawAssign_total ({ p with species := species1 } : Pop W)
  simp only at hz1 hz3 hpzs
  generalize hpz : purgeZeroOffspringSpecies ({ p with species := species1 } : Pop W) = pz at h hz1 hz3 hpzs
  generalize hra : rawAssign ({ p with species := species1 } : Pop W) = ra at hraw_nn hraw_le hne hpzs htot
  -- quotas after fix-up and purge
  have hn0 : (0 : Int) ≤ (p.organisms.length : Int) := Int.natCast_nonneg _
  have hfix_nn := fixupQuotas_nonneg ra.1 ra.2 p.organisms.length hn0 hraw_nn
  have hfix_tot : quotaSum (fixupQuotas ra.1 ra.2 p.organisms.length) = p.organisms.length := by
    have := (fixupQuotas_total ra.1 (p.organisms.length : Int) hne (fun s hs => hraw_nn s hs)).1
    rw [← htot] at this
    apply this
    rw [hsize]; exact hraw_le
  have hpz_tot : quotaSum pz.species = o.popSize := by
    rw [hpzs, quotaSum_filter_pos _ (fun s hs => hfix_nn s hs), hfix_tot, hsize]
  have hpz_nn : ∀ s ∈ pz.species, 0 ≤ s.expectedOffspring := by
    intro s hs; rw [hpzs] at hs; exact hfix_nn s (List.mem_filter.mp hs).1
  have hzs : (pz.species.map C02.skey).Sublist (p.species.map C02.skey) := by
    rw [← hk1, C02.skeys_of_ukeys, C02.skeys_of_ukeys species1]
    exact hz1.map _
  have hndz : (pz.species.map (·.id)).Nodup := (C02.ids_sublist_of_keys hzs).nodup hnd
  split at h
  · cases h
  · rename_i best tail hsorted
    split at h
    · cases h
    · rename_i top htop
      split at h
      · cases h
      · rename_i sorted2 ehlc rs1 hred
        simp only [Except.ok.injEq, Prod.mk.injEq] at h
        obtain ⟨⟨rfl, _⟩, _⟩ := h
        -- the sorted list with the champion flag: same quotas, a permutation of pz.species
        have hsp : (sortSpeciesDesc pz.species).Perm pz.species := goSort_perm _ _
        have hsorted1_tot : quotaSum (setTopOrg best (fun t => { t with isPopChampion := true }) :: (sortSpeciesDesc pz.species).tail) = o.popSize := by
          rw [hsorted, List.tail_cons, quotaSum_cons, quota_setTopOrg, ← quotaSum_cons, ← hsorted, quotaSum_perm hsp, hpz_tot]
        have hsorted1_nn : ∀ s ∈ setTopOrg best (fun t => { t with isPopChampion := true }) :: (sortSpeciesDesc pz.species).tail, 0 ≤ s.expectedOffspring := by
          intro s hs
          rw [hsorted, List.tail_cons] at hs
          rcases List.mem_cons.mp hs with rfl | h'
          · rw [quota_setTopOrg]; exact hpz_nn best (hsp.mem_iff.mp (by rw [hsorted]; simp))
          · exact hpz_nn s (hsp.mem_iff.mp (by rw [hsorted]; simp [h']))
        have hk2 : sorted2.map C02.ukey =
            (setTopOrg best (fun t => { t with isPopChampion := true }) :: (sortSpeciesDesc pz.species).tail).map C02.ukey :=
          C02.redistribute_keys _ _ _ _ _ _ _ hred
        -- quotas after stolen babies / delta coding
        have hred_q : quotaSum sorted2 = o.popSize ∧ ∀ s ∈ sorted2, 0 ≤ s.expectedOffspring :=
          redistribute_quota _ _ _ _ _ _ _ hbs hsorted1_tot hsorted1_nn hred
        -- ids of sorted2 are a permutation of the ids of pz.species
        have hids : (pz.species.map (·.id)).Perm (sorted2.map (·.id)) := by
          have e1 : sorted2.map (·.id) = (sorted2.map C02.ukey).map (fun k => k.1.1) := by
            simp [C02.ukey, C02.skey, Function.comp_def]
          have e2 : pz.species.map (·.id) = (pz.species.map C02.ukey).map (fun k => k.1.1) := by
            simp [C02.ukey, C02.skey, Function.comp_def]
          rw [e1, e2, hk2, hsorted, List.tail_cons]
          simp only [List.map_cons]
          rw [C02.setTopOrg_key _ _ (by intro t; exact ⟨rfl, rfl⟩)]
          have := (hsp.map C02.ukey).map (fun k => k.1.1)
          rw [hsorted] at this
          simpa using this.symm
        have hndS : (sorted2.map (·.id)).Nodup := hids.nodup_iff.mp hndz
        obtain ⟨w1, w2⟩ := writeBack_quota pz.species sorted2 hndS hids
        simp only [purgeOrganisms]
        constructor
        · have hq : ∀ (f : Species W → Species W) (l : List (Species W)), (∀ x, (f x).expectedOffspring = x.expectedOffspring) →
              quotaSum (l.map f) = quotaSum l := by
            intro f l hf
            unfold quotaSum; rw [List.map_map]
            exact congrArg List.sum (List.map_congr_left (fun x _ => hf x))
          rw [hq _ _ (by intro x; rfl), w1]; exact hred_q.1
        · intro s hs
          obtain ⟨s0, hs0, rfl⟩ := List.mem_map.mp hs
          exact hred_q.2 s0 (w2 s0 hs0)


/-- **C09 + C02.** Under the same hypotheses reproduction of all species after the preparation phase yields exactly
    `PopSize` babies whenever it returns: the executor's `progeny size == PopSize` sanity check cannot fire. -/
theorem prepared_progeny_exact (o : EpochOpts W) (gen : Int) (p p1 : Pop W) (ex : ExecState) (rs rs' : List Nat) (species1 : List (Species W))
    (hsize : p.organisms.length = o.popSize) (hnd : (p.species.map (·.id)).Nodup) (hbs : 0 ≤ o.babiesStolen)
    (hadj : adjustAll o p.species = .ok species1)
    (hraw_nn : ∀ s ∈ (rawAssign ({ p with species := species1 } : Pop W)).1, 0 ≤ s.expectedOffspring)
    (hraw_le : (rawAssign ({ p with species := species1 } : Pop W)).2 ≤ o.popSize)
    (hne : (rawAssign ({ p with species := species1 } : Pop W)).1 ≠ [])
    (h : prepareForReproduction o p rs = .ok ((p1, ex), rs'))
    (sorted : List (Species W)) (reg reg' : Reg W) (uid uid' : Nat) (babies : List (Org W)) (rs1 rs2 : List Nat)
    (hall : reproduceAll o gen sorted p1.species reg uid [] rs1 = .ok ((babies, reg', uid'), rs2)) :
    babies.length = o.popSize := by
  obtain ⟨ht, hn⟩ := prepare_quota_total o p p1 ex rs rs' species1 hsize hnd hbs hadj hraw_nn hraw_le hne h
  exact C02.progeny_size_exact o gen p1 sorted reg reg' uid uid' babies rs1 rs2 hn ht hall

end GoNeat.C09
