/-
  Property C07, Kind B: statements in exact ordered-field arithmetic (`exactScalar`).
  The rounded float64 evaluation is outside these theorems (trusted base); the correspondence check compares
  the implementation with the formula numerically on every run.
-/
import GoNeat.Props.C07
import GoNeat.Proofs.Exact

namespace GoNeat.C07
open GoNeat
variable {K : Type} [Field K] [LinearOrder K] [IsStrictOrderedRing K] [FloorRing K]

/-- the float counters of the linear walk agree with the ghost counters -/
def CountersAgree (a : LinAcc K) : Prop :=
  a.numDisjoint = (a.cnt.disjoint : K) ∧ a.numExcess = (a.cnt.excess : K) ∧ a.numMatching = (a.cnt.matching : K)

theorem linWalk_countersAgree (xs ys : List (Gene K)) (a : LinAcc K) (h : CountersAgree a) :
    CountersAgree (linWalk xs ys a) := by
  fun_induction linWalk xs ys a with
  | case1 a => exact h
  | case2 y ys a ih => apply ih; obtain ⟨h1, h2, h3⟩ := h; exact ⟨h1, by simp [h2], h3⟩
  | case3 x xs a ih => apply ih; obtain ⟨h1, h2, h3⟩ := h; exact ⟨h1, by simp [h2], h3⟩
  | case4 x xs y ys a heq ih => apply ih; obtain ⟨h1, h2, h3⟩ := h; exact ⟨h1, h2, by simp [h3]⟩
  | case5 x xs y ys a hne hlt ih => apply ih; obtain ⟨h1, h2, h3⟩ := h; exact ⟨by simp [h1], h2, h3⟩
  | case6 x xs y ys a hne hnlt ih => apply ih; obtain ⟨h1, h2, h3⟩ := h; exact ⟨by simp [h1], h2, h3⟩

/-- total |Δ mutation number| accumulated by the walk is non-negative when it starts non-negative -/
theorem linWalk_mutDiff_nonneg (xs ys : List (Gene K)) (a : LinAcc K) (h : 0 ≤ a.mutDiffTotal) :
    0 ≤ (linWalk xs ys a).mutDiffTotal := by
  fun_induction linWalk xs ys a with
  | case1 a => exact h
  | case2 y ys a ih => exact ih h
  | case3 x xs a ih => exact ih h
  | case4 x xs y ys a heq ih =>
    apply ih
    simp only [Exact.add_eq, Exact.abs_eq, Exact.sub_eq]
    have := abs_nonneg (x.mnum - y.mnum)
    linarith
  | case5 x xs y ys a hne hlt ih => exact ih h
  | case6 x xs y ys a hne hnlt ih => exact ih h

/-- the walk is its own mirror image: swapping the genomes gives the same accumulator (exact arithmetic:
    `|a - b| = |b - a|`) -/
theorem linWalk_symm (xs ys : List (Gene K)) (a : LinAcc K) : linWalk xs ys a = linWalk ys xs a := by
  fun_induction linWalk xs ys a with
  | case1 a => rw [linWalk]
  | case2 y ys a ih => conv => rhs; rw [linWalk]
                       exact ih
  | case3 x xs a ih => conv => rhs; rw [linWalk]
                       exact ih
  | case4 x xs y ys a heq ih =>
    conv => rhs; rw [linWalk]
    simp only [heq, ↓reduceIte]
    rw [ih]
    simp only [Exact.abs_eq, Exact.sub_eq, abs_sub_comm]
  | case5 x xs y ys a hne hlt ih =>
    conv => rhs; rw [linWalk]
    have h1 : ¬ y.inn = x.inn := fun h => hne h.symm
    have h2 : ¬ y.inn < x.inn := by omega
    simp only [h1, h2, ↓reduceIte]
    exact ih
  | case6 x xs y ys a hne hnlt ih =>
    conv => rhs; rw [linWalk]
    have h1 : ¬ y.inn = x.inn := fun h => hne h.symm
    have h2 : y.inn < x.inn := by omega
    simp only [h1, h2, ↓reduceIte]
    exact ih

/-- **C07 (linear method, exact arithmetic): the NEAT formula.**
    `compat = c_D·D + c_E·E + c_M·W̄` with `W̄ = (Σ|Δmut|)/M`, and the last term absent when no gene matches
    (no division is executed then — the guard added by the repair). `E, D, M` are the specification counts. -/
theorem compatLinear_formula (o : CompatOpts K) (g og : Genome K) (hg : GenesSorted g.genes) (ho : GenesSorted og.genes) :
    let c := specCounts (inns g.genes) (inns og.genes)
    let T := (compatLinearAcc g og).mutDiffTotal
    compatLinear o g og =
      o.disjointCoeff * (c.disjoint : K) + o.excessCoeff * (c.excess : K) +
        (if 0 < c.matching then o.mutdiffCoeff * (T / (c.matching : K)) else 0) := by
  intro c T
  have hcnt := compatLinear_counts g og hg ho
  have hag : CountersAgree (compatLinearAcc g og) := by
    unfold compatLinearAcc
    apply linWalk_countersAgree
    simp [CountersAgree, LinAcc.init]
  obtain ⟨h1, h2, h3⟩ := hag
  unfold compatLinear
  simp only [Exact.gt_eq, Exact.zero_eq, Exact.add_eq, Exact.mul_eq, Exact.div_eq, h1, h2, h3, hcnt]
  by_cases hm : 0 < c.matching
  · have : (0 : K) < (c.matching : K) := by exact_mod_cast hm
    simp [hm, this, c, T]
  · have hz : c.matching = 0 := by omega
    have : ¬ (0 : K) < ((specCounts (inns g.genes) (inns og.genes)).matching : K) := by
      show ¬ (0 : K) < (c.matching : K)
      rw [hz]; simp
    simp [hm, this, c]

/-- **C07: symmetric** (linear method, exact arithmetic) -/
theorem compatLinear_symm (o : CompatOpts K) (g og : Genome K) : compatLinear o g og = compatLinear o og g := by
  unfold compatLinear compatLinearAcc
  rw [linWalk_symm]

/-- **C07: never negative** for non-negative coefficients (linear method, exact arithmetic) -/
theorem compatLinear_nonneg (o : CompatOpts K) (g og : Genome K)
    (hd : 0 ≤ o.disjointCoeff) (he : 0 ≤ o.excessCoeff) (hm : 0 ≤ o.mutdiffCoeff) : 0 ≤ compatLinear o g og := by
  have hag : CountersAgree (compatLinearAcc g og) := by
    unfold compatLinearAcc
    apply linWalk_countersAgree
    simp [CountersAgree, LinAcc.init]
  obtain ⟨h1, h2, h3⟩ := hag
  have hT : 0 ≤ (compatLinearAcc g og).mutDiffTotal := by
    unfold compatLinearAcc
    apply linWalk_mutDiff_nonneg
    simp [LinAcc.init]
  unfold compatLinear
  simp only [Exact.gt_eq, Exact.zero_eq, Exact.add_eq, Exact.mul_eq, Exact.div_eq, h1, h2, h3]
  have hD : (0 : K) ≤ ((compatLinearAcc g og).cnt.disjoint : K) := by exact_mod_cast Nat.zero_le _
  have hE : (0 : K) ≤ ((compatLinearAcc g og).cnt.excess : K) := by exact_mod_cast Nat.zero_le _
  have hM : (0 : K) ≤ ((compatLinearAcc g og).cnt.matching : K) := by exact_mod_cast Nat.zero_le _
  have base : 0 ≤ o.disjointCoeff * ((compatLinearAcc g og).cnt.disjoint : K) + o.excessCoeff * ((compatLinearAcc g og).cnt.excess : K) :=
    add_nonneg (mul_nonneg hd hD) (mul_nonneg he hE)
  split
  · exact add_nonneg base (mul_nonneg hm (div_nonneg hT hM))
  · exact base

/-- the walk of a gene list against itself accumulates no mutation difference -/
theorem linWalk_self_mutDiff (xs : List (Gene K)) (a : LinAcc K) :
    (linWalk xs xs a).mutDiffTotal = a.mutDiffTotal := by
  induction xs generalizing a with
  | nil => simp [linWalk]
  | cons x xs ih =>
    rw [linWalk]
    simp only [↓reduceIte]
    rw [ih]
    simp

/-- **C07: zero for a genome against itself or its exact duplicate** (linear method, exact arithmetic) -/
theorem compatLinear_self (o : CompatOpts K) (g : Genome K) (hg : GenesSorted g.genes) : compatLinear o g g = 0 := by
  have hf := compatLinear_formula o g g hg hg
  simp only at hf
  rw [hf]
  have hc := linear_counts_self g hg
  rw [compatLinear_counts g g hg hg] at hc
  have hT : (compatLinearAcc g g).mutDiffTotal = 0 := by
    unfold compatLinearAcc; rw [linWalk_self_mutDiff]; simp [LinAcc.init]
  rw [hc, hT]
  simp

end GoNeat.C07
