/-
  Property C10 (supporting): `Species.ComputeMaxAndAvgFitness` and the species order `ByOrganismFitness`
  (Model/Champion.lean).  Kind A over any strict weak order:
    `maxAvgLoop_max_spec`        the running maximum: never below its start value, no member exceeds it, and it is the start
                                 value or a member's fitness;
    `computeMax_spec`            hence `max` is 0 or a member's fitness that no member exceeds, and never negative-side
                                 of 0 (OBSERVATION: a species whose members are all negative reports max = 0);
    `speciesFitnessLess_laws`    `ByOrganismFitness.Less` is a strict weak order, so
    `sortSpeciesByFitness_spec`  `sort.Sort(ByOrganismFitness(..))` returns a permutation with non-decreasing maxima and
    `sortSpeciesByFitnessDesc_spec`  the reversed sort one with non-increasing maxima - for every input.
-/
import GoNeat.Props.C10Champion

namespace GoNeat.C10
open GoNeat Scalar Champion
variable {W : Type} [Scalar W]

theorem maxAvgLoop_max_spec (hw : C08.StrictWeak W) (l : List (Org W)) (total mx : W) :
    lt (maxAvgLoop l total mx).2 mx = false ∧ (∀ x ∈ l, lt (maxAvgLoop l total mx).2 x.fitness = false) ∧
    ((maxAvgLoop l total mx).2 = mx ∨ ∃ x ∈ l, (maxAvgLoop l total mx).2 = x.fitness) := by
  induction l generalizing total mx with
  | nil => exact ⟨hw.irrefl _, by simp, Or.inl rfl⟩
  | cons o os ih =>
    unfold maxAvgLoop
    by_cases hgt : gt o.fitness mx = true
    · rw [if_pos hgt]
      obtain ⟨h1, h2, h3⟩ := ih (add total o.fitness) o.fitness
      have hlt : lt mx o.fitness = true := hgt
      refine ⟨?_, ?_, ?_⟩
      · -- r ≥ o > mx
        cases hr : lt (maxAvgLoop os (add total o.fitness) o.fitness).2 mx with
        | false => rfl
        | true => have := hw.trans _ _ _ hr hlt; rw [h1] at this; cases this
      · intro x hx
        rcases List.mem_cons.mp hx with rfl | hx
        · exact h1
        · exact h2 x hx
      · right
        rcases h3 with h3 | ⟨x, hx, h3⟩
        · exact ⟨o, List.mem_cons_self, h3⟩
        · exact ⟨x, List.mem_cons_of_mem _ hx, h3⟩
    · rw [if_neg hgt]
      have hn : lt mx o.fitness = false := by
        cases h : lt mx o.fitness with
        | false => rfl
        | true => exact absurd h hgt
      obtain ⟨h1, h2, h3⟩ := ih (add total o.fitness) mx
      refine ⟨h1, ?_, ?_⟩
      · intro x hx
        rcases List.mem_cons.mp hx with rfl | hx
        · -- r ≥ mx ≥ x
          cases hr : lt (maxAvgLoop os (add total x.fitness) mx).2 x.fitness with
          | false => rfl
          | true =>
            rcases hw.weak _ _ mx hr with h | h
            · rw [h1] at h; cases h
            · rw [hn] at h; cases h
        · exact h2 x hx
      · rcases h3 with h3 | ⟨x, hx, h3⟩
        · exact Or.inl h3
        · exact Or.inr ⟨x, List.mem_cons_of_mem _ hx, h3⟩

theorem computeMax_spec (hw : C08.StrictWeak W) (s : Species W) :
    lt (computeMaxAndAvgFitness s).1 (zero : W) = false ∧
    (∀ x ∈ s.orgs, lt (computeMaxAndAvgFitness s).1 x.fitness = false) ∧
    ((computeMaxAndAvgFitness s).1 = zero ∨ ∃ x ∈ s.orgs, (computeMaxAndAvgFitness s).1 = x.fitness) := by
  have h := maxAvgLoop_max_spec hw s.orgs (zero : W) zero
  have e : (computeMaxAndAvgFitness s).1 = (maxAvgLoop s.orgs (zero : W) zero).2 := by
    unfold computeMaxAndAvgFitness
    rfl
  rw [e]; exact h

theorem speciesFitnessLess_laws (hw : C08.StrictWeak W) : LessLaws (speciesFitnessLess (W := W)) := by
  constructor
  · intro a b h; exact lt_asymm' hw _ _ h
  · intro a b c h1 h2
    unfold speciesFitnessLess at *
    cases h : lt (computeMaxAndAvgFitness a).1 (computeMaxAndAvgFitness c).1 with
    | false => rfl
    | true =>
      rcases hw.weak _ _ (computeMaxAndAvgFitness b).1 h with h' | h'
      · rw [h1] at h'; cases h'
      · rw [h2] at h'; cases h'

theorem sortSpeciesByFitness_spec (hw : C08.StrictWeak W) (l : List (Species W)) :
    (sortSpeciesByFitness l).Perm l ∧
    (sortSpeciesByFitness l).Pairwise (fun a b => lt (computeMaxAndAvgFitness b).1 (computeMaxAndAvgFitness a).1 = false) :=
  ⟨goSort_perm _ l, goSort_sorted _ (speciesFitnessLess_laws hw) l⟩

theorem sortSpeciesByFitnessDesc_spec (hw : C08.StrictWeak W) (l : List (Species W)) :
    (sortSpeciesByFitnessDesc l).Perm l ∧
    (sortSpeciesByFitnessDesc l).Pairwise (fun a b => lt (computeMaxAndAvgFitness a).1 (computeMaxAndAvgFitness b).1 = false) := by
  have hl : LessLaws (fun a b : Species W => speciesFitnessLess b a) := by
    have h := speciesFitnessLess_laws hw
    exact ⟨fun a b hab => h.asymm b a hab, fun a b c h1 h2 => h.negTrans c b a h2 h1⟩
  exact ⟨goSort_perm _ l, goSort_sorted _ hl l⟩

end GoNeat.C10
