/-
  C17 — evolution is reproducible from the random seed.

  The model of spawn + k epochs (`Model/Evolve.lean: run`, over `Model/Epoch.lean: spawn, nextEpoch`) is a Lean
  FUNCTION of (options, fitness assignment, start genome, number of epochs, raw stream): by construction there is
  nothing else — no clock, no address, no map order, no earlier work — it could depend on.  What needs proof is how it
  depends on the stream:

  `prefix_determinism`      every `Rand` primitive and the whole run depend only on the prefix of the raw stream they
                            report as consumed: the consumed part is a prefix of the input, the rest is returned
                            untouched, and on ANY stream starting with that prefix the result is the same
                            (lifted through every monadic bind of the model: all mutators, all crossovers, stolen
                            babies, spawn, reproduce, the epoch, the k-epoch run)           [Proofs/PrefixDet, PrefixDet2]
  `run_reproducible`        two streams that agree on the consumed prefix give the identical population — and the
                            identical population after EVERY epoch (`run_trace_reproducible`)
  `run_error_reproducible`  the same for a run that fails with a model error                        [Proofs/PrefixDet3/4]
  `nondet_sources_allowed`  the REGENERATED table of nondeterminism sources reachable from NewPopulation /
                            SequentialPopulationEpochExecutor.NextEpoch (`Gen/NonDet.lean`) is within the committed,
                            justified allow-list — re-proved on every run

  The tie of the model to the Go code is the bit-exact multi-epoch co-simulation (`epoch`, `spawn` ops) and the twin
  runs of the real code under perturbation (`twinRun`).
-/
import GoNeat.Proofs.PrefixDet4
import GoNeat.Spec.NonDetExpect
import GoNeat.Gen.NonDet

namespace GoNeat.C17
open GoNeat

/-- every random primitive of `Model/Rand.lean` (for every scalar type) and the whole sequential run
    (`spawn` followed by `k` × (`assignFitness`; `nextEpoch`)), for all options, fitness assignments, start genomes and
    numbers of epochs, depend only on the consumed prefix of the raw stream -/
theorem prefix_determinism :
    PrefixDet Rand.int63 ∧
    (∀ (W : Type) [Scalar W], PrefixDet (Rand.float64 (W := W))) ∧
    (∀ (W : Type) [Scalar W], PrefixDet (Rand.float32Ge03 W)) ∧
    (∀ n max, PrefixDet (Rand.int31nLoop n max)) ∧
    (∀ n, PrefixDet (Rand.intn n)) ∧
    PrefixDet Rand.randSign ∧
    (∀ (W : Type) [Scalar W], PrefixDet (Rand.signedUnit (W := W))) ∧
    (∀ (W : Type) [Scalar W] (o : EpochOpts W) (g : Genome W), PrefixDet (spawn o g)) ∧
    (∀ (W : Type) [Scalar W] (o : EpochOpts W) (generation : Int) (p : Pop W), PrefixDet (nextEpoch o generation p)) ∧
    (∀ (W : Type) [Scalar W] (o : EpochOpts W) (fit : Int → Genome W → W) (g : Genome W) (k : Nat), PrefixDet (run o fit g k)) :=
  ⟨Rand.int63_prefixDet, fun _ _ => Rand.float64_prefixDet, fun W _ => Rand.float32Ge03_prefixDet W,
   Rand.int31nLoop_prefixDet, Rand.intn_prefixDet, Rand.randSign_prefixDet, fun _ _ => Rand.signedUnit_prefixDet,
   fun _ _ o g => spawn_prefixDet o g, fun _ _ o gen p => nextEpoch_prefixDet o gen p,
   fun _ _ o fit g k => run_prefixDet o fit g k⟩

/-- identical inputs + streams that agree on the consumed prefix ⇒ identical final population (every field, every
    float of every genome, registry and counters included: equality of model values) -/
theorem run_reproducible {W : Type} [Scalar W] (o : EpochOpts W) (fit : Int → Genome W → W) (g : Genome W) (k : Nat)
    {rs₁ rs₂ rest₁ rest₂ : List Nat} {p : Pop W}
    (h : run o fit g k rs₁ = .ok (p, rest₁)) (hpre : ∃ used, rs₁ = used ++ rest₁ ∧ rs₂ = used ++ rest₂) :
    run o fit g k rs₂ = .ok (p, rest₂) :=
  run_agree o fit g k h hpre

/-- … and identical populations after every single epoch -/
theorem run_trace_reproducible {W : Type} [Scalar W] (o : EpochOpts W) (fit : Int → Genome W → W) (k : Nat)
    (generation : Int) (p : Pop W) {rs₁ rs₂ rest₁ rest₂ : List Nat} {ps : List (Pop W)}
    (h : evolveTrace o fit k generation p rs₁ = .ok (ps, rest₁))
    (hpre : ∃ used, rs₁ = used ++ rest₁ ∧ rs₂ = used ++ rest₂) :
    evolveTrace o fit k generation p rs₂ = .ok (ps, rest₂) :=
  evolveTrace_agree o fit k generation p h hpre

/-- a run that fails with a model error fails identically on every stream with the same determining prefix -/
theorem run_error_reproducible {W : Type} [Scalar W] (o : EpochOpts W) (fit : Int → Genome W → W) (g : Genome W) (k : Nat)
    {rs : List Nat} {e : String} (h : run o fit g k rs = .error (.error e)) :
    ∃ used tail, rs = used ++ tail ∧ ∀ rs', run o fit g k (used ++ rs') = .error (.error e) :=
  run_err_agree o fit g k h

/-- the regenerated obligation: no source of nondeterminism outside the allow-list, and both roots were found -/
theorem nondet_sources_allowed :
    NonDetTable.notAllowed NonDetExpect.allowed Gen.nondetSources = [] ∧ Gen.nondetMissingRoots = [] := by
  decide +kernel

/-- non-vacuity of the hypotheses of `run_reproducible` at the level of a primitive with a rejection loop:
    `Intn(3)` rejects the first raw value, accepts the second; two streams that share these two values and differ
    afterwards give the same result and their own remainders -/
example : Rand.intn 3 [9223372032559808512, 21474836480, 7, 8] = .ok (2, [7, 8]) ∧
          Rand.intn 3 [9223372032559808512, 21474836480, 100] = .ok (2, [100]) :=
  ⟨by rfl, prefixDet_agree (Rand.intn_prefixDet 3) (rs₁ := [9223372032559808512, 21474836480, 7, 8]) (rest₁ := [7, 8])
    (by rfl) ⟨[9223372032559808512, 21474836480], rfl, rfl⟩⟩

end GoNeat.C17
