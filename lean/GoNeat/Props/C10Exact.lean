/-
  Property C10, Kind B (exact ordered-field arithmetic): within one species the adjusted fitness is a strictly
  monotone rescaling of the raw fitness (for non-negative fitness values, positive age significance), so the
  organism `Species.reproduce` treats as champion — the head of the species after `adjustFitness` — is the member
  with the greatest RAW fitness; with pairwise distinct fitness values it is the unique fittest organism.
-/
import GoNeat.Props.C09Parents
import GoNeat.Proofs.Exact

namespace GoNeat.C10
open GoNeat
variable {K : Type} [Field K] [LinearOrder K] [IsStrictOrderedRing K] [FloorRing K]

theorem exact_strictWeak : C08.StrictWeak K := by
  refine ⟨?_, ?_, ?_⟩
  · intro a; simp
  · intro a b c; simp only [Exact.lt_eq, decide_eq_true_eq]; exact lt_trans
  · intro a b c; simp only [Exact.lt_eq, decide_eq_true_eq]
    intro h
    rcases lt_or_ge a c with h1 | h1
    · exact Or.inl h1
    · exact Or.inr (lt_of_le_of_lt h1 h)

theorem exact_eqLaw : EqLaw K := by
  intro a b
  simp only [Exact.eq_eq, Exact.lt_eq, decide_eq_true_eq, decide_eq_false_iff_not, not_lt]
  constructor
  · rintro rfl; exact ⟨le_refl _, le_refl _⟩
  · rintro ⟨h1, h2⟩; exact le_antisymm h2 h1

/-- the common positive factor applied to every member of the species -/
noncomputable def scale (o : EpochOpts K) (s : Species K) : K :=
  (if (if (s.age - s.ageOfLastImprovement + 1) - o.dropOffAge = 0 then (1 : Int) else (s.age - s.ageOfLastImprovement + 1) - o.dropOffAge) ≥ 1
     then (1 : K) / 10 ^ 2 else 1) *
  (if s.age ≤ 10 then o.ageSignificance else 1) / (s.orgs.length : K)

theorem scale_pos (o : EpochOpts K) (s : Species K) (ha : 0 < o.ageSignificance) (hne : s.orgs ≠ []) : 0 < scale o s := by
  unfold scale
  have hn : (0 : K) < (s.orgs.length : K) := by
    have : 0 < s.orgs.length := List.length_pos_iff.mpr hne
    exact_mod_cast this
  apply div_pos _ hn
  apply mul_pos
  · split_ifs <;> positivity
  · split_ifs
    · exact ha
    · exact (one_pos : (0 : K) < 1)

/-- for a non-negative raw fitness the adjusted fitness is the raw fitness times the species' common factor -/
theorem adjustedFitness_eq (o : EpochOpts K) (s : Species K) (f : K) (hf : 0 ≤ f) (ha : 0 < o.ageSignificance) :
    C09.adjustedFitness o s f = f * scale o s := by
  have hdec : (Scalar.ofDec 1 2 : K) = (1 : K) / 10 ^ 2 := by
    show ((1 : Nat) : K) / (10 : K) ^ 2 = _
    simp
  unfold C09.adjustedFitness scale
  simp only [Exact.mul_eq, Exact.lt_eq, Exact.zero_eq, Exact.div_eq, Exact.ofInt_eq, Int.cast_natCast, hdec]
  generalize hd : (if (s.age - s.ageOfLastImprovement + 1) - o.dropOffAge = 0 then (1 : Int) else (s.age - s.ageOfLastImprovement + 1) - o.dropOffAge) = debt
  have e1 : (if debt ≥ 1 then f * ((1 : K) / 10 ^ 2) else f) = f * (if debt ≥ 1 then (1 : K) / 10 ^ 2 else 1) := by
    split <;> simp
  rw [e1]
  generalize hc1 : (if debt ≥ 1 then (1 : K) / 10 ^ 2 else 1) = c1
  have hc1pos : 0 < c1 := by
    rw [← hc1]; split
    · positivity
    · exact one_pos
  have e2 : (if s.age ≤ 10 then f * c1 * o.ageSignificance else f * c1) = f * c1 * (if s.age ≤ 10 then o.ageSignificance else 1) := by
    split <;> simp
  rw [e2]
  generalize hc2 : (if s.age ≤ 10 then o.ageSignificance else 1) = c2
  have hc2pos : 0 < c2 := by
    rw [← hc2]; split
    · exact ha
    · exact one_pos
  have hnn : ¬ (f * c1 * c2 < 0) := not_lt.mpr (mul_nonneg (mul_nonneg hf hc1pos.le) hc2pos.le)
  simp only [hnn, decide_false, Bool.false_eq_true, ↓reduceIte]
  ring

/-- **strictly monotone**: raw fitness order = adjusted fitness order within a species -/
theorem adjusted_lt_iff (o : EpochOpts K) (s : Species K) (f g : K) (hf : 0 ≤ f) (hg : 0 ≤ g) (ha : 0 < o.ageSignificance)
    (hne : s.orgs ≠ []) : C09.adjustedFitness o s f < C09.adjustedFitness o s g ↔ f < g := by
  rw [adjustedFitness_eq o s f hf ha, adjustedFitness_eq o s g hg ha]
  exact mul_lt_mul_iff_of_pos_right (scale_pos o s ha hne)

/-- **C10 (the champion is the fittest organism).** In exact arithmetic, for a species whose members carry non-negative
    fitness values: after `adjustFitness` the first organism — the one `reproduce` clones as champion — has a raw
    (original) fitness no member exceeds. -/
theorem champion_is_fittest (o : EpochOpts K) (s s' : Species K) (top : Org K) (rest : List (Org K))
    (h : adjustFitness o s = .ok s') (hs' : s'.orgs = top :: rest)
    (hnn : ∀ x ∈ s.orgs, 0 ≤ x.fitness) (ha : 0 < o.ageSignificance) :
    (∃ y ∈ s.orgs, top.uid = y.uid ∧ top.originalFitness = y.fitness) ∧ ∀ x ∈ s.orgs, x.fitness ≤ top.originalFitness := by
  have hne : s.orgs ≠ [] := by
    intro he
    unfold adjustFitness at h
    rw [he] at h
    simp [sortOrgsDesc, goSort, goInsertionSort] at h
  -- unfold as in C09.adjustFitness_spec
  let adjusted := s.orgs.map (fun x => { x with originalFitness := x.fitness, fitness := C09.adjustedFitness o s x.fitness })
  have hadj : s.orgs.map (adjustOrg (if (s.age - s.ageOfLastImprovement + 1) - o.dropOffAge = 0 then 1 else (s.age - s.ageOfLastImprovement + 1) - o.dropOffAge) s.age o s.orgs.length) = adjusted := by
    apply List.map_congr_left
    intro x _
    simp only [adjustOrg, C09.adjustedFitness]
  unfold adjustFitness at h
  simp only at h
  rw [hadj] at h
  split at h
  · cases h
  · rename_i t r hsort
    cases h
    -- head of the marked list is the head of the sorted list with two flags rewritten
    have htop : top.uid = t.uid ∧ top.originalFitness = t.originalFitness ∧ top.fitness = t.fitness := by
      rw [hsort] at hs'
      simp only [markOrgs, List.cons.injEq] at hs'
      obtain ⟨rfl, _⟩ := hs'
      exact ⟨rfl, rfl, rfl⟩
    have htmem : t ∈ adjusted := (sortOrgsDesc_perm adjusted).mem_iff.mp (by rw [hsort]; simp)
    obtain ⟨y, hy, hty⟩ := List.mem_map.mp htmem
    have hmax := sortOrgsDesc_head_fittest exact_strictWeak exact_eqLaw adjusted t r hsort
    refine ⟨⟨y, hy, by rw [htop.1, ← hty], by rw [htop.2.1, ← hty]⟩, ?_⟩
    intro x hx
    have hx' : ({ x with originalFitness := x.fitness, fitness := C09.adjustedFitness o s x.fitness } : Org K) ∈ adjusted :=
      List.mem_map.mpr ⟨x, hx, rfl⟩
    have := (hmax _ hx').2
    rw [← hty] at this
    simp only [Exact.lt_eq, decide_eq_false_iff_not] at this
    rw [adjusted_lt_iff o s _ _ (hnn y hy) (hnn x hx) ha hne] at this
    rw [htop.2.1, ← hty]
    exact not_lt.mp this

end GoNeat.C10
