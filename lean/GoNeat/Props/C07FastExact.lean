/-
  Property C07, Kind B (exact ordered-field arithmetic): the fast method returns the NEAT formula and hence the same
  value as the linear method.  float64 rounding is outside (the two methods differ in the last bits because one adds
  a coefficient k times and the other multiplies; the check reports that difference as information).
-/
import GoNeat.Props.C07Fast
import GoNeat.Props.C07Exact

namespace GoNeat.C07
open GoNeat
variable {K : Type} [Field K] [LinearOrder K] [IsStrictOrderedRing K] [FloorRing K]

/-- Σ |Δ mutation number| over the genes of `xs` that have a partner (same innovation number) in `ys` -/
def matchSum (xs ys : List (Gene K)) : K :=
  (xs.map (fun x => match ys.find? (fun y => y.inn == x.inn) with
    | some y => |x.mnum - y.mnum|
    | none => 0)).sum

/-- the fast walk's running value is `c_D·D + c_E·E` of its ghost counters, and its integer match counter is the ghost one -/
def FastAgree (o : CompatOpts K) (a : FastAcc K) : Prop :=
  a.compat = o.disjointCoeff * (a.cnt.disjoint : K) + o.excessCoeff * (a.cnt.excess : K) ∧ a.numMatching = a.cnt.matching

theorem fastWalk_agree (xs ys : List (Gene K)) (o : CompatOpts K) (a : FastAcc K) (h : FastAgree o a) :
    FastAgree o (fastWalk xs ys o a) := by
  fun_induction fastWalk xs ys o a with
  | case1 ys o a =>
    obtain ⟨h1, h2⟩ := h
    refine ⟨?_, h2⟩
    simp only [Exact.add_eq, Exact.mul_eq, Exact.ofInt_eq, h1]
    push_cast; ring
  | case2 x xs o a =>
    obtain ⟨h1, h2⟩ := h
    refine ⟨?_, h2⟩
    simp only [Exact.add_eq, Exact.mul_eq, Exact.ofInt_eq, h1]
    push_cast; ring
  | case3 x xs y ys o a hgt ih =>
    apply ih
    obtain ⟨h1, h2⟩ := h
    split_ifs <;> refine ⟨?_, h2⟩ <;> simp only [Exact.add_eq, h1] <;> push_cast <;> ring
  | case4 x xs y ys o a hngt heq ih =>
    apply ih
    obtain ⟨h1, h2⟩ := h
    exact ⟨h1, by simp [h2]⟩
  | case5 x xs y ys o a hngt hne ih =>
    apply ih
    obtain ⟨h1, h2⟩ := h
    split_ifs <;> refine ⟨?_, h2⟩ <;> simp only [Exact.add_eq, h1] <;> push_cast <;> ring


/-! ### both walks accumulate the same Σ|Δmut| over matching genes -/

theorem find_none_of_not_mem (ys : List (Gene K)) (k : Int) (h : k ∉ inns ys) : ys.find? (fun y => y.inn == k) = none := by
  rw [List.find?_eq_none]
  intro y hy hk
  apply h
  simp only [beq_iff_eq] at hk
  exact hk ▸ List.mem_map_of_mem (f := fun g : Gene K => g.inn) hy

theorem matchSum_nil_left (ys : List (Gene K)) : matchSum [] ys = 0 := rfl
theorem matchSum_nil_right (xs : List (Gene K)) : matchSum xs [] = 0 := by
  induction xs with
  | nil => rfl
  | cons x xs ih => simp [matchSum] at ih ⊢

theorem matchSum_skip_left (x : Gene K) (xs ys : List (Gene K)) (h : x.inn ∉ inns ys) :
    matchSum (x :: xs) ys = matchSum xs ys := by
  simp [matchSum, find_none_of_not_mem ys x.inn h]

theorem matchSum_skip_right (y : Gene K) (xs ys : List (Gene K)) (h : y.inn ∉ inns xs) :
    matchSum xs (y :: ys) = matchSum xs ys := by
  unfold matchSum
  congr 1
  apply List.map_congr_left
  intro x hx
  have : (y.inn == x.inn) = false := by
    simp only [beq_eq_false_iff_ne, ne_eq]
    intro e; apply h; rw [e]; exact List.mem_map_of_mem (f := fun g : Gene K => g.inn) hx
  simp [List.find?_cons, this]

theorem matchSum_match (x y : Gene K) (xs ys : List (Gene K)) (he : x.inn = y.inn) (hx : y.inn ∉ inns xs) (hy : x.inn ∉ inns ys) :
    matchSum (x :: xs) (y :: ys) = |x.mnum - y.mnum| + matchSum xs ys := by
  have h1 : matchSum (x :: xs) (y :: ys) = |x.mnum - y.mnum| + matchSum xs (y :: ys) := by
    simp [matchSum, List.find?_cons, he]
  rw [h1, matchSum_skip_right y xs ys hx]

theorem not_mem_of_all_lt (l : List Int) (k : Int) (h : ∀ z ∈ l, k < z) : k ∉ l := by
  intro hm; have := h k hm; omega
theorem not_mem_of_all_gt (l : List Int) (k : Int) (h : ∀ z ∈ l, z < k) : k ∉ l := by
  intro hm; have := h k hm; omega

theorem linWalk_mutDiff (xs ys : List (Gene K)) (a : LinAcc K) (hx : Asc (inns xs)) (hy : Asc (inns ys)) :
    (linWalk xs ys a).mutDiffTotal = a.mutDiffTotal + matchSum xs ys := by
  fun_induction linWalk xs ys a with
  | case1 a => simp [matchSum]
  | case2 y ys a ih => rw [ih hx (asc_tail hy)]; simp [matchSum_nil_left]
  | case3 x xs a ih => rw [ih (asc_tail hx) hy]; simp [matchSum_nil_right]
  | case4 x xs y ys a heq ih =>
    rw [ih (asc_tail hx) (asc_tail hy)]
    have hxs : inns (x :: xs) = x.inn :: inns xs := rfl
    have hys : inns (y :: ys) = y.inn :: inns ys := rfl
    rw [hxs] at hx; rw [hys] at hy
    rw [matchSum_match x y xs ys heq (not_mem_of_all_lt _ _ (heq ▸ asc_head_lt hx)) (not_mem_of_all_lt _ _ (heq ▸ asc_head_lt hy))]
    simp only [Exact.add_eq, Exact.abs_eq, Exact.sub_eq]; ring
  | case5 x xs y ys a hne hlt ih =>
    rw [ih (asc_tail hx) hy]
    have hys : inns (y :: ys) = y.inn :: inns ys := rfl
    rw [matchSum_skip_left x xs (y :: ys) (by
      rw [hys]; apply not_mem_of_all_lt
      intro z hz
      rcases List.mem_cons.mp hz with rfl | hz'
      · exact hlt
      · have := asc_head_lt (hys ▸ hy) z hz'; omega)]
  | case6 x xs y ys a hne hnlt ih =>
    rw [ih hx (asc_tail hy)]
    have hxs : inns (x :: xs) = x.inn :: inns xs := rfl
    rw [matchSum_skip_right y (x :: xs) ys (by
      rw [hxs]; apply not_mem_of_all_lt
      intro z hz
      rcases List.mem_cons.mp hz with rfl | hz'
      · omega
      · have := asc_head_lt (hxs ▸ hx) z hz'; omega)]

theorem fastWalk_mutDiff (xs ys : List (Gene K)) (o : CompatOpts K) (a : FastAcc K) (hx : Desc (inns xs)) (hy : Desc (inns ys)) :
    (fastWalk xs ys o a).mutDiff = a.mutDiff + matchSum xs ys := by
  fun_induction fastWalk xs ys o a with
  | case1 ys o a => simp [matchSum_nil_left]
  | case2 x xs o a => simp [matchSum_nil_right]
  | case3 x xs y ys o a hgt ih =>
    have hxs : inns (x :: xs) = x.inn :: inns xs := rfl
    have hys : inns (y :: ys) = y.inn :: inns ys := rfl
    simp only [dite_eq_ite] at ih
    rw [ih hx (desc_tail (hys ▸ hy))]
    rw [matchSum_skip_right y (x :: xs) ys (by
      rw [hxs]; apply not_mem_of_all_gt
      intro z hz
      rcases List.mem_cons.mp hz with rfl | hz'
      · omega
      · have := desc_head_gt (hxs ▸ hx) z hz'; omega)]
    split_ifs <;> rfl
  | case4 x xs y ys o a hngt heq ih =>
    have hxs : inns (x :: xs) = x.inn :: inns xs := rfl
    have hys : inns (y :: ys) = y.inn :: inns ys := rfl
    rw [ih (desc_tail (hxs ▸ hx)) (desc_tail (hys ▸ hy))]
    rw [matchSum_match x y xs ys heq (not_mem_of_all_gt _ _ (heq ▸ desc_head_gt (hxs ▸ hx))) (not_mem_of_all_gt _ _ (heq ▸ desc_head_gt (hys ▸ hy)))]
    simp only [Exact.add_eq, Exact.abs_eq, Exact.sub_eq]; ring
  | case5 x xs y ys o a hngt hne ih =>
    have hxs : inns (x :: xs) = x.inn :: inns xs := rfl
    have hys : inns (y :: ys) = y.inn :: inns ys := rfl
    simp only [dite_eq_ite] at ih
    rw [ih (desc_tail (hxs ▸ hx)) hy]
    rw [matchSum_skip_left x xs (y :: ys) (by
      rw [hys]; apply not_mem_of_all_gt
      intro z hz
      rcases List.mem_cons.mp hz with rfl | hz'
      · omega
      · have := desc_head_gt (hys ▸ hy) z hz'; omega)]
    split_ifs <;> rfl


/-! ### reversal, and the two methods agree -/

theorem find_unique {α} (l : List α) (p : α → Bool) (y : α) (hy : y ∈ l) (hp : p y = true) (hu : ∀ z ∈ l, p z = true → z = y) :
    l.find? p = some y := by
  induction l with
  | nil => cases hy
  | cons a as ih =>
    by_cases ha : p a = true
    · have : a = y := hu a (by simp) ha
      subst this
      simp [List.find?_cons, ha]
    · have hne : y ≠ a := by intro e; apply ha; rw [← e]; exact hp
      have hy' : y ∈ as := by
        rcases List.mem_cons.mp hy with h | h
        · exact absurd h hne
        · exact h
      have hf : p a = false := by simpa using ha
      simp only [List.find?_cons, hf]
      exact ih hy' (fun z hz => hu z (by simp [hz]))

theorem asc_inn_inj (ys : List (Gene K)) (h : Asc (inns ys)) (z y : Gene K) (hz : z ∈ ys) (hy : y ∈ ys) (he : z.inn = y.inn) : z = y := by
  induction ys with
  | nil => cases hz
  | cons a as ih =>
    have ha : ∀ w ∈ as, a.inn < w.inn := by
      intro w hw
      exact asc_head_lt (x := a.inn) (xs := inns as) h w.inn (List.mem_map_of_mem (f := fun g : Gene K => g.inn) hw)
    rcases List.mem_cons.mp hz with rfl | hz' <;> rcases List.mem_cons.mp hy with rfl | hy'
    · rfl
    · have := ha y hy'; omega
    · have := ha z hz'; omega
    · exact ih (asc_tail (x := a.inn) (xs := inns as) h) hz' hy'

theorem find_reverse (ys : List (Gene K)) (h : Asc (inns ys)) (k : Int) :
    ys.reverse.find? (fun y => y.inn == k) = ys.find? (fun y => y.inn == k) := by
  cases hf : ys.find? (fun y => y.inn == k) with
  | none =>
    rw [List.find?_eq_none] at hf ⊢
    intro y hy; exact hf y (List.mem_reverse.mp hy)
  | some y =>
    have hy : y ∈ ys := List.mem_of_find?_eq_some hf
    have hp : (y.inn == k) = true := List.find?_some (p := fun y : Gene K => y.inn == k) hf
    apply find_unique _ _ y (List.mem_reverse.mpr hy) hp
    intro z hz hpz
    simp only [beq_iff_eq] at hp hpz
    exact asc_inn_inj ys h z y (List.mem_reverse.mp hz) hy (by rw [hp, hpz])

theorem matchSum_reverse (xs ys : List (Gene K)) (h : Asc (inns ys)) : matchSum xs.reverse ys.reverse = matchSum xs ys := by
  unfold matchSum
  rw [List.map_reverse, List.sum_reverse]
  congr 1
  apply List.map_congr_left
  intro x _
  rw [find_reverse ys h]

/-- **C07 (fast method, exact arithmetic): the NEAT formula.** For sorted genomes (empty ones included)
    `compatFast = c_D·D + c_E·E + c_M·(Σ|Δmut| / M)`, the last term absent when no gene matches. -/
theorem compatFast_formula (o : CompatOpts K) (g og : Genome K) (hg : GenesSorted g.genes) (ho : GenesSorted og.genes) :
    let c := specCounts (inns g.genes) (inns og.genes)
    compatFast o g og =
      o.disjointCoeff * (c.disjoint : K) + o.excessCoeff * (c.excess : K) +
        (if 0 < c.matching then o.mutdiffCoeff * (matchSum g.genes og.genes / (c.matching : K)) else 0) := by
  intro c
  have h1 : Asc (inns g.genes) := by unfold Asc inns; rw [List.pairwise_map]; exact hg
  have h2 : Asc (inns og.genes) := by unfold Asc inns; rw [List.pairwise_map]; exact ho
  by_cases hg0 : g.genes = []
  · -- genome 1 empty
    have hc : c = { excess := og.genes.length, disjoint := 0, matching := 0 } := by
      show specCounts (inns g.genes) (inns og.genes) = _
      rw [hg0]; simp [inns, specCounts_nil_left]
    unfold compatFast
    rw [hg0, hc]
    cases hog : og.genes with
    | nil => simp
    | cons y ys => simp [Exact.mul_eq, Exact.ofInt_eq]; ring
  · by_cases ho0 : og.genes = []
    · have hc : c = { excess := g.genes.length, disjoint := 0, matching := 0 } := by
        show specCounts (inns g.genes) (inns og.genes) = _
        rw [ho0]; simp [inns, specCounts_nil_right]
      unfold compatFast
      rw [ho0, hc]
      cases hgg : g.genes with
      | nil => exact absurd hgg hg0
      | cons x xs => simp [Exact.mul_eq, Exact.ofInt_eq]; ring
    · have hcnt := compatFast_counts o g og hg ho hg0 ho0
      have hag : FastAgree o (compatFastAcc o g og) := by
        unfold compatFastAcc
        apply fastWalk_agree
        simp [FastAgree]
      have hmd : (compatFastAcc o g og).mutDiff = matchSum g.genes og.genes := by
        unfold compatFastAcc
        rw [fastWalk_mutDiff _ _ _ _ (by simpa [inns] using desc_reverse_of_asc _ h1) (by simpa [inns] using desc_reverse_of_asc _ h2)]
        rw [matchSum_reverse _ _ h2]
        simp
      obtain ⟨ha1, ha2⟩ := hag
      have hcf : compatFast o g og =
          (if (compatFastAcc o g og).numMatching > 0 then
            (compatFastAcc o g og).compat + ((compatFastAcc o g og).mutDiff * o.mutdiffCoeff) / ((compatFastAcc o g og).numMatching : K)
           else (compatFastAcc o g og).compat) := by
        unfold compatFast
        cases hgg : g.genes with
        | nil => exact absurd hgg hg0
        | cons x xs =>
          cases hoo : og.genes with
          | nil => exact absurd hoo ho0
          | cons y ys => simp [Exact.add_eq, Exact.div_eq, Exact.mul_eq, Exact.ofInt_eq]
      rw [hcf, ha1, ha2, hmd, hcnt]
      by_cases hm : 0 < c.matching
      · have : (c.matching : K) ≠ 0 := by exact_mod_cast (by omega : c.matching ≠ 0)
        simp only [gt_iff_lt, hm, ↓reduceIte, c] at *
        field_simp
      · simp only [gt_iff_lt, hm, ↓reduceIte, c, add_zero] at *

/-- **C07 (the two methods return the same value, exact arithmetic).** -/
theorem compatFast_eq_compatLinear (o : CompatOpts K) (g og : Genome K) (hg : GenesSorted g.genes) (ho : GenesSorted og.genes) :
    compatFast o g og = compatLinear o g og := by
  have h1 : Asc (inns g.genes) := by unfold Asc inns; rw [List.pairwise_map]; exact hg
  have h2 : Asc (inns og.genes) := by unfold Asc inns; rw [List.pairwise_map]; exact ho
  rw [compatFast_formula o g og hg ho, compatLinear_formula o g og hg ho]
  have : (compatLinearAcc g og).mutDiffTotal = matchSum g.genes og.genes := by
    unfold compatLinearAcc
    rw [linWalk_mutDiff _ _ _ h1 h2]
    simp [LinAcc.init]
  simp only [this]


/-- **C07 (fast method): symmetric, never negative, zero against itself** — exact arithmetic, sorted genomes -/
theorem compatFast_symm (o : CompatOpts K) (g og : Genome K) (hg : GenesSorted g.genes) (ho : GenesSorted og.genes) :
    compatFast o g og = compatFast o og g := by
  rw [compatFast_eq_compatLinear o g og hg ho, compatFast_eq_compatLinear o og g ho hg, compatLinear_symm]

theorem compatFast_nonneg (o : CompatOpts K) (g og : Genome K) (hg : GenesSorted g.genes) (ho : GenesSorted og.genes)
    (hd : 0 ≤ o.disjointCoeff) (he : 0 ≤ o.excessCoeff) (hm : 0 ≤ o.mutdiffCoeff) : 0 ≤ compatFast o g og := by
  rw [compatFast_eq_compatLinear o g og hg ho]; exact compatLinear_nonneg o g og hd he hm

theorem compatFast_self (o : CompatOpts K) (g : Genome K) (hg : GenesSorted g.genes) : compatFast o g g = 0 := by
  rw [compatFast_eq_compatLinear o g g hg hg]; exact compatLinear_self o g hg

/-- whichever method the options select, the distance is the same number -/
theorem compatibility_method_independent (o o' : CompatOpts K) (g og : Genome K) (hg : GenesSorted g.genes) (ho : GenesSorted og.genes)
    (hc : o'.disjointCoeff = o.disjointCoeff ∧ o'.excessCoeff = o.excessCoeff ∧ o'.mutdiffCoeff = o.mutdiffCoeff) :
    compatibility o g og = compatibility o' g og := by
  have hl : compatLinear o' g og = compatLinear o g og := by
    unfold compatLinear; rw [hc.1, hc.2.1, hc.2.2]
  unfold compatibility
  split <;> split
  · exact hl.symm
  · rw [compatFast_eq_compatLinear o' g og hg ho, hl]
  · rw [compatFast_eq_compatLinear o g og hg ho, hl]
  · rw [compatFast_eq_compatLinear o g og hg ho, compatFast_eq_compatLinear o' g og hg ho, hl]

end GoNeat.C07
