/-
  C13 for MODULAR networks - after a flush a network WITH MIMO control nodes / a fast solver WITH modules behaves
  exactly like a freshly built instance, for EVERY wiring - and the refinement that ties the modular models to the
  models of Props/C12*.lean and Props/C13.lean.

  Models: Model/SolverMod.lean (standard solver: third sweep of `ActivateSteps`, `ActivateModule`, `Flush` over
  `allNodesMIMO`, `RecursiveSteps` refused), Model/FastSolverMod.lean (fast solver: module loop of `forwardStep`,
  module guard of `RecursiveSteps`, translation of control nodes; `Flush` = `Fast.flush`).  Helper lemmas:
  Proofs/SolverModFlush.lean, Proofs/FastModFlush.lean.  Kind A: every scalar type, every activation table `σ`, EVERY
  module activation table `μ` (any number of returned values, failing ones included); the only law used is
  `hz : lt 0 0 = false`.

  REFINEMENT (`std_refines`, `std_step_refines`, `fast_refines`, `fast_step_refines`, `fast_of_network_refines`):
  for `net.ctrl = []` / `modules = []` the modular models ARE the plain models, call by call and from every state, so
  every theorem of C12 / C13 about `Solver.run`, `Fast.run`, `Fast.ofNet` is a theorem about the modular models.

  THE TWO REPAIRED DEFECTS (found by this work; the models follow the repaired code, the old loops are frozen in
  Model/LegacySolverMod.lean and refuted here):
  * F15 (repair 842abdd) `Network.Flush` iterated `allNodes`, so control nodes kept `isActive` (and whatever a module
    wrote to them); harmless iff nothing reads a control node (`std_mod_dead_state`, true for every Genesis phenotype:
    `Genesis.genesis_ctrlUnread`), observable when a neuron is linked FROM a control node with `ConnectFrom`:
    `std_flush_legacy_counterexample`.
  * F16 (repair 1a387d5) `FastModularNetworkSolver.Flush` left `neuronSignalsBeingProcessed` of the bias neurons; a
    module can write and read such a cell: `fast_flush_legacy_counterexample`.
  Both replayed on the real code by notes/replay_C13_modular_test.go (fails before the repairs, passes now).
-/
import GoNeat.Proofs.SolverModFlush
import GoNeat.Proofs.FastModFlush
import GoNeat.Proofs.GenesisUnread
import GoNeat.Proofs.ScalarInt
import GoNeat.Model.LegacySolverMod

namespace GoNeat.C13Mod

variable {W : Type} [Scalar W]

/-! ## standard solver -/
section Std
open GoNeat.Solver

/-- REFINEMENT, one call from ANY state: on a network without control nodes the modular model is Model/Solver.lean -/
theorem std_step_refines (net : Net W) (σ : Nat → W → Option W) (μ : Nat → List W → Option (List W))
    (h : net.ctrl = []) (s : St W) (op : Op W) :
    SolverMod.step net σ μ s op = Solver.step net σ s op :=
  SolverMod.step_refine net σ μ h s op

/-- REFINEMENT, whole runs: same final state, same observations (from any state, and the fresh states coincide) -/
theorem std_refines (net : Net W) (σ : Nat → W → Option W) (μ : Nat → List W → Option (List W))
    (h : net.ctrl = []) (ops : List (Op W)) :
    (∀ s, SolverMod.run net σ μ ops s = Solver.run net σ ops s) ∧
      SolverMod.run net σ μ ops (SolverMod.init net) = Solver.run net σ ops (Solver.init net) := by
  refine ⟨SolverMod.run_refine net σ μ h ops, ?_⟩
  rw [SolverMod.init_refine net h]
  exact SolverMod.run_refine net σ μ h ops _

/-- `Flush` after ANY history, on ANY modular network, succeeds and yields a state equal to the freshly built one in
    every field of every node (control nodes included) but `ActivationSum` -/
theorem std_mod_flush_equiv_fresh (hz : Scalar.lt (Scalar.zero : W) Scalar.zero = false) (net : Net W)
    (σ : Nat → W → Option W) (μ : Nat → List W → Option (List W)) (hist : List (Op W)) :
    (SolverMod.flush net (SolverMod.run net σ μ hist (SolverMod.init net)).1).2 = (true, none) ∧
      Equiv (SolverMod.flush net (SolverMod.run net σ μ hist (SolverMod.init net)).1).1 (SolverMod.init net) := by
  unfold SolverMod.flush
  rw [flushAux_eq hz]
  exact ⟨rfl, map_flushback_equiv _ (net.nodes ++ net.ctrl) (by rw [SolverMod.length_run]; simp [SolverMod.init])⟩

/-- `ActivationSum` is dead in modular networks too: two states that differ only there (at any node, control nodes
    included) are indistinguishable by any call sequence and stay so -/
theorem std_mod_sum_dead (hz : Scalar.lt (Scalar.zero : W) Scalar.zero = false) (net : Net W)
    (σ : Nat → W → Option W) (μ : Nat → List W → Option (List W)) (ops : List (Op W)) {s t : St W} (h : Equiv s t) :
    (SolverMod.run net σ μ ops s).2 = (SolverMod.run net σ μ ops t).2 ∧
      Equiv (SolverMod.run net σ μ ops s).1 (SolverMod.run net σ μ ops t).1 :=
  ⟨(SolverMod.run_congr hz net σ μ ops h).2, (SolverMod.run_congr hz net σ μ ops h).1⟩

/-- C13 for modular networks (standard solver), EVERY wiring: any number of control nodes, links of neurons from
    control nodes, modules reading / writing control nodes, any module activation table (failing ones included), any
    history of LoadSensors / ActivateSteps / ForwardSteps / RecursiveSteps / Relax / Flush calls, any later call
    sequence: after `Flush` the results, errors and outputs are those of a new instance -/
theorem std_mod_flush_like_fresh (hz : Scalar.lt (Scalar.zero : W) Scalar.zero = false) (net : Net W)
    (σ : Nat → W → Option W) (μ : Nat → List W → Option (List W)) (hist ops : List (Op W)) :
    (SolverMod.run net σ μ ops (SolverMod.flush net (SolverMod.run net σ μ hist (SolverMod.init net)).1).1).2 =
      (SolverMod.run net σ μ ops (SolverMod.init net)).2 :=
  (SolverMod.run_congr hz net σ μ ops (std_mod_flush_equiv_fresh hz net σ μ hist).2).2

theorem std_mod_repeat_identical (hz : Scalar.lt (Scalar.zero : W) Scalar.zero = false) (net : Net W)
    (σ : Nat → W → Option W) (μ : Nat → List W → Option (List W)) (ops : List (Op W)) :
    (SolverMod.run net σ μ ops (SolverMod.flush net (SolverMod.run net σ μ ops (SolverMod.init net)).1).1).2 =
      (SolverMod.run net σ μ ops (SolverMod.init net)).2 :=
  std_mod_flush_like_fresh hz net σ μ ops ops

/-- equality of the ORDINARY nodes up to `ActivationSum`; the whole state of the control nodes is ignored -/
def EquivM (net : Net W) (s t : St W) : Prop :=
  Equiv (s.take net.nodes.length) (t.take net.nodes.length)

/-- DEADNESS of the control-node state: if nothing reads a control node (`ctrlUnread`: every Genesis phenotype),
    two states that agree on the ordinary nodes up to `ActivationSum` are indistinguishable by any call sequence, and
    stay so.  (This is why the old `Flush`, which skipped the control nodes, was harmless on phenotypes.) -/
theorem std_mod_dead_state (hz : Scalar.lt (Scalar.zero : W) Scalar.zero = false) (net : Net W)
    (σ : Nat → W → Option W) (μ : Nat → List W → Option (List W)) (hu : SolverMod.ctrlUnread net = true)
    (ops : List (Op W)) {s t : St W} (hs : s.length = net.nodes.length + net.ctrl.length)
    (ht : t.length = net.nodes.length + net.ctrl.length) (h : EquivM net s t) :
    (SolverMod.run net σ μ ops s).2 = (SolverMod.run net σ μ ops t).2 ∧
      EquivM net (SolverMod.run net σ μ ops s).1 (SolverMod.run net σ μ ops t).1 := by
  by_cases hc : net.ctrl = []
  · have hs' : s.length ≤ net.nodes.length := by simp [hs, hc]
    have ht' : t.length ≤ net.nodes.length := by simp [ht, hc]
    unfold EquivM at h ⊢
    rw [List.take_of_length_le hs', List.take_of_length_le ht'] at h
    have := SolverMod.run_congr hz net σ μ ops h
    rw [List.take_of_length_le (by rw [SolverMod.length_run]; exact hs'),
        List.take_of_length_le (by rw [SolverMod.length_run]; exact ht')]
    exact ⟨this.2, this.1⟩
  · have hU := SolverMod.unread_of_bool net hu
    have h1 := SolverMod.run_take hz net σ μ hU hc ops s
    have h2 := SolverMod.run_take hz net σ μ hU hc ops t
    have := SolverMod.run_congr hz net σ μ ops h
    unfold EquivM
    rw [h1.1, h2.1, h1.2, h2.2]
    exact ⟨this.2, this.1⟩

/-- ... in particular in every phenotype: a network expressed by `Genome.Genesis` never reads its control nodes -/
theorem genesis_ctrl_state_dead (hz : Scalar.lt (Scalar.zero : W) Scalar.zero = false) (g : Genome W)
    (netId : Int) (net : Net W) (hg : Genesis.genesis g netId = .ok net)
    (σ : Nat → W → Option W) (μ : Nat → List W → Option (List W)) (ops : List (Op W)) {s t : St W}
    (hs : s.length = net.nodes.length + net.ctrl.length) (ht : t.length = net.nodes.length + net.ctrl.length)
    (h : EquivM net s t) :
    (SolverMod.run net σ μ ops s).2 = (SolverMod.run net σ μ ops t).2 :=
  (std_mod_dead_state hz net σ μ (Genesis.genesis_ctrlUnread hg) ops hs ht h).1

/-! ### the decision logic of one modular activation step -/

theorem activeOut_setIsActive (s : St W) (i j : Nat) (b : Bool) :
    activeOut (get (upd s i (fun x => { x with isActive := b })) j) = activeOut (get s j) := by
  by_cases hj : j = i
  · subst hj
    by_cases hl : j < s.length
    · rw [get_upd_self s j _ hl]; rfl
    · rw [upd_ge s j _ (by omega)]
  · rw [get_upd_ne s i j _ hj]

theorem setOuts_get_other (ls : List (NLink W)) (vs : List W) (s : St W) (j : Nat) (h : ∀ l ∈ ls, l.dst ≠ j) :
    get (SolverMod.setOuts ls vs s) j = get s j := by
  induction ls generalizing vs s with
  | nil => simp [SolverMod.setOuts]
  | cons l ls ih =>
    cases vs with
    | nil => simp [SolverMod.setOuts]
    | cons v vs =>
      unfold SolverMod.setOuts
      rw [ih _ _ (fun l' hl' => h l' (by simp [hl'])), get_upd_ne _ _ _ _ (fun e => h l (by simp) e.symm)]

theorem setOuts_get_hit (ls : List (NLink W)) (vs : List W) (s : St W) (hnd : (ls.map (·.dst)).Nodup)
    (k : Nat) (hk : k < ls.length) (hv : k < vs.length) (hd : ls[k].dst < s.length) :
    get (SolverMod.setOuts ls vs s) ls[k].dst = { setActivation vs[k] (get s ls[k].dst) with isActive := true } := by
  induction ls generalizing vs s k with
  | nil => simp at hk
  | cons l ls ih =>
    cases vs with
    | nil => simp at hv
    | cons v vs =>
      simp only [List.map_cons, List.nodup_cons, List.mem_map, not_exists, not_and] at hnd
      unfold SolverMod.setOuts
      cases k with
      | zero =>
        simp only [List.getElem_cons_zero]
        rw [setOuts_get_other _ _ _ _ (fun l' hl' e => hnd.1 l' hl' e), get_upd_self _ _ _ (by simpa using hd)]
      | succ k =>
        have hk' : k < ls.length := by simpa using hk
        simp only [List.getElem_cons_succ]
        have hne : ls[k].dst ≠ l.dst := fun e => hnd.1 ls[k] (List.getElem_mem _) e
        rw [ih vs _ hnd.2 k (by simpa using hk) (by simpa using hv) (by simpa using hd), get_upd_ne _ _ _ _ hne]

/-- ONE iteration of the `ActivateSteps` loop on a network with one control node `cn`: when the two neuron sweeps
    succeed with state `s2` and the module activator returns as many values as `cn` has output neurons, the step
    succeeds, every output neuron `d` of the module (distinct targets, not the control node itself) holds
    `setActivation(activator(GetActiveOut of the inputs, read AFTER the neuron sweeps)[k])` and is active, and every
    other ordinary node is exactly what the neuron sweeps left -/
theorem std_module_step (net : Net W) (σ : Nat → W → Option W) (μ : Nat → List W → Option (List W))
    (cn : NNodeS W) (hc : net.ctrl = [cn]) (s s2 : St W) (outs : List W)
    (h2 : sweep2 net σ (SolverMod.sweep1 net s) = (s2, none))
    (hμ : μ cn.act (SolverMod.moduleInputs cn s2) = some outs) (hlen : outs.length = cn.outgoing.length) :
    (SolverMod.sweeps net σ μ s).2 = none ∧
    (∀ (k : Nat) (hk : k < cn.outgoing.length), (cn.outgoing.map (·.dst)).Nodup → cn.outgoing[k].dst < s2.length →
        cn.outgoing[k].dst ≠ net.nodes.length →
        get (SolverMod.sweeps net σ μ s).1 cn.outgoing[k].dst =
          { setActivation (outs[k]'(by omega)) (get s2 cn.outgoing[k].dst) with isActive := true }) ∧
    (∀ j, j ≠ net.nodes.length → (∀ l ∈ cn.outgoing, l.dst ≠ j) → get (SolverMod.sweeps net σ μ s).1 j = get s2 j) := by
  have hin : SolverMod.moduleInputs cn (upd s2 net.nodes.length (fun x => { x with isActive := false })) =
      SolverMod.moduleInputs cn s2 := by
    unfold SolverMod.moduleInputs
    apply List.map_congr_left
    intro l _
    exact activeOut_setIsActive s2 _ _ false
  have hne : (outs.length != cn.outgoing.length) = false := by simp [hlen]
  have hsw : SolverMod.sweeps net σ μ s =
      (upd (SolverMod.setOuts cn.outgoing outs (upd s2 net.nodes.length (fun x => { x with isActive := false })))
        net.nodes.length (fun x => { x with isActive := true }), none) := by
    unfold SolverMod.sweeps
    rw [h2]
    simp only [SolverMod.sweep3, hc, SolverMod.sweep3Aux, SolverMod.activateModule, hin, hμ, hne]
    rfl
  rw [hsw]
  refine ⟨rfl, fun k hk hnd hd hnn => ?_, fun j hj hall => ?_⟩
  · simp only
    rw [get_upd_ne _ _ _ _ hnn,
        setOuts_get_hit cn.outgoing outs _ hnd k hk (by omega) (by simpa using hd),
        get_upd_ne _ _ _ _ hnn]
  · simp only
    rw [get_upd_ne _ _ _ _ hj, setOuts_get_other _ _ _ _ hall, get_upd_ne _ _ _ _ hj]

end Std

/-! ## fast solver -/
section FastS
open GoNeat.Fast GoNeat.FastMod

/-- REFINEMENT, one call from ANY state: a solver without modules is Model/FastSolver.lean -/
theorem fast_step_refines (fm : FastModNet W) (σ : Nat → W → Option W) (μ : Nat → List W → Option (List W))
    (h : fm.modules = []) (s : FState W) (op : Fast.Op W) :
    FastMod.step fm σ μ s op = Fast.step fm.base σ s op :=
  FastMod.step_refine fm σ μ h s op

/-- REFINEMENT, whole runs from ANY state -/
theorem fast_refines (fm : FastModNet W) (σ : Nat → W → Option W) (μ : Nat → List W → Option (List W))
    (h : fm.modules = []) (ops : List (Fast.Op W)) (s : FState W) :
    FastMod.run fm σ μ ops s = Fast.run fm.base σ ops s :=
  FastMod.run_refine fm σ μ h ops s

/-- REFINEMENT of the translation: a network without control nodes is translated as by `Fast.ofNet`, no modules -/
theorem fast_of_network_refines (net : Net W) (h : net.ctrl = []) :
    FastMod.ofNet net = (Fast.ofNet net).map fun fn => { base := fn, modules := [] } :=
  FastMod.ofNet_refine net h

/-- equality up to dead state: without modules the relation of C13 (`Fast.FE`), with modules equality of both
    signal arrays (`activated`, `inActivation`, `lastActivation` are never touched: `RecursiveSteps` is refused) -/
def FEM (fm : FastModNet W) (s t : FState W) : Prop :=
  (fm.modules = [] → FE fm.base s t) ∧ (fm.modules ≠ [] → SP s t)

/-- `Flush` after any history, for EVERY module wiring, succeeds and yields a state equal to the fresh one up to
    dead state -/
theorem fast_mod_flush_equiv_fresh (fm : FastModNet W) (σ : Nat → W → Option W) (μ : Nat → List W → Option (List W))
    (hist : List (Fast.Op W)) :
    (Fast.flush fm.base (FastMod.run fm σ μ hist (FastMod.init fm)).1).2 = (true, none) ∧
      FEM fm (Fast.flush fm.base (FastMod.run fm σ μ hist (FastMod.init fm)).1).1 (FastMod.init fm) := by
  refine ⟨rfl, fun hm => ?_, fun hm => ?_⟩
  · rw [FastMod.run_refine fm σ μ hm]
    exact flush_FE_init fm.base (Inv_run fm.base σ hist (Inv_init fm.base))
  · exact flush_SP_init fm (InvM_run fm σ μ hm hist (InvM_init fm))

/-- the ignored arrays are dead: equivalent states are indistinguishable by any call sequence and stay equivalent -/
theorem fast_mod_dead_state (fm : FastModNet W) (σ : Nat → W → Option W) (μ : Nat → List W → Option (List W))
    (ops : List (Fast.Op W)) {s t : FState W} (h : FEM fm s t) :
    (FastMod.run fm σ μ ops s).2 = (FastMod.run fm σ μ ops t).2 ∧
      FEM fm (FastMod.run fm σ μ ops s).1 (FastMod.run fm σ μ ops t).1 := by
  by_cases hm : fm.modules = []
  · rw [FastMod.run_refine fm σ μ hm, FastMod.run_refine fm σ μ hm]
    have := Fast.run_congr fm.base σ ops (h.1 hm)
    exact ⟨this.2, fun _ => this.1, fun hne => absurd hm hne⟩
  · have := run_SP fm σ μ hm ops (h.2 hm)
    exact ⟨this.2, fun he => absurd he hm, fun _ => this.1⟩

/-- C13 for the fast solver with modules, EVERY wiring: any modules (any input / output indexes, bias cells
    included, any activation table, failing ones and ones that make the solver panic included), any history, any
    later call sequence -/
theorem fast_mod_flush_like_fresh (fm : FastModNet W) (σ : Nat → W → Option W) (μ : Nat → List W → Option (List W))
    (hist ops : List (Fast.Op W)) :
    (FastMod.run fm σ μ ops (Fast.flush fm.base (FastMod.run fm σ μ hist (FastMod.init fm)).1).1).2 =
      (FastMod.run fm σ μ ops (FastMod.init fm)).2 :=
  (fast_mod_dead_state fm σ μ ops (fast_mod_flush_equiv_fresh fm σ μ hist).2).1

theorem fast_mod_repeat_identical (fm : FastModNet W) (σ : Nat → W → Option W) (μ : Nat → List W → Option (List W))
    (ops : List (Fast.Op W)) :
    (FastMod.run fm σ μ ops (Fast.flush fm.base (FastMod.run fm σ μ ops (FastMod.init fm)).1).1).2 =
      (FastMod.run fm σ μ ops (FastMod.init fm)).2 :=
  fast_mod_flush_like_fresh fm σ μ ops ops

/-- the same for whatever `Network.FastNetworkSolver()` returns for a modular network -/
theorem fast_mod_of_network_flush_like_fresh (net : Net W) (fm : FastModNet W) (_h : FastMod.ofNet net = .ok fm)
    (σ : Nat → W → Option W) (μ : Nat → List W → Option (List W)) (hist ops : List (Fast.Op W)) :
    (FastMod.run fm σ μ ops (Fast.flush fm.base (FastMod.run fm σ μ hist (FastMod.init fm)).1).1).2 =
      (FastMod.run fm σ μ ops (FastMod.init fm)).2 :=
  fast_mod_flush_like_fresh fm σ μ hist ops

/-- decision logic of the module loop for a one-output module: the output cell receives the activator's value of
    the input cells as they are after the activation loop, nothing else changes -/
theorem fast_module_loop_single (μ : Nat → List W → Option (List W)) (a : Nat) (ins : List Nat) (o : Nat) (p : List W)
    (v : W) (hμ : μ a (ins.map (getW p)) = some [v]) :
    modLoop μ [{ act := a, ins := ins, outs := [o] }] p = (p.set o v, none) := by
  simp [modLoop, modOuts, hμ]

end FastS

/-! ## non-vacuity and counterexamples over the exact `Int` scalar -/
section Examples
open GoNeat.ExactInt

/-- toy module activator table: 21 = multiply (one value), 22 = returns TWO values, everything else unregistered -/
def muInt (a : Nat) (xs : List Int) : Option (List Int) :=
  match a with
  | 21 => some [xs.foldl (· * ·) 1]
  | 22 => some [0, 0]
  | _ => none

example : Scalar.lt (Scalar.zero : Int) Scalar.zero = false := by decide

/-- the shape of the repository's own modular test network: inputs 0,1; hidden 2 ← 0, hidden 3 ← 1 (linear);
    module (multiply) reads 2,3 and writes hidden 4 (null activation); output 5 ← 4 -/
def modNet : Net Int :=
  { id := 1
    nodes := [ { id := 1, kind := Kind.input, act := 17, incoming := [], outgoing := [] },
               { id := 2, kind := Kind.input, act := 17, incoming := [], outgoing := [] },
               { id := 3, kind := Kind.hidden, act := 14, incoming := [ { src := 0, dst := 2, w := 3, recur := false } ], outgoing := [] },
               { id := 4, kind := Kind.hidden, act := 14, incoming := [ { src := 1, dst := 3, w := 5, recur := false } ], outgoing := [] },
               { id := 5, kind := Kind.hidden, act := 17, incoming := [], outgoing := [] },
               { id := 6, kind := Kind.output, act := 14, incoming := [ { src := 4, dst := 5, w := 2, recur := false } ], outgoing := [] } ]
    inputs := [0, 1], outputs := [5]
    ctrl := [ { id := 7, kind := Kind.hidden, act := 21,
                incoming := [ { src := 2, dst := 6, w := 1, recur := false }, { src := 3, dst := 6, w := 1, recur := false } ],
                outgoing := [ { src := 6, dst := 4, w := 1, recur := false } ] } ] }

def script : List (Solver.Op Int) := [.load [1, 2], .activate 5, .activate 1]

/-- it satisfies the Genesis wiring `ctrlUnread` (not needed any more for flush = fresh) -/
example : SolverMod.ctrlUnread modNet = true := by decide

/-- the module multiplies: (3*1)*(5*2) = 30, times the output weight 2 -/
example : ((SolverMod.run modNet sigmaInt muInt script (SolverMod.init modNet)).2.map (·.outs)) = [[0], [60], [60]] := by
  decide
/-- without a flush a second evaluation differs, with the flush it is the fresh result again -/
example : ((SolverMod.run modNet sigmaInt muInt script
    (SolverMod.run modNet sigmaInt muInt script (SolverMod.init modNet)).1).2.map (·.outs)) = [[60], [60], [60]] := by decide
example : ((SolverMod.run modNet sigmaInt muInt script
    (SolverMod.flush modNet (SolverMod.run modNet sigmaInt muInt script (SolverMod.init modNet)).1).1).2.map (·.outs))
    = [[0], [60], [60]] := by decide
/-- the run sets the control node's flag, `Flush` resets it (the old loop left it: last entry `true`) -/
example : ((SolverMod.run modNet sigmaInt muInt script (SolverMod.init modNet)).1.map (·.isActive))
    = [false, false, true, true, true, true, true] := by decide
example : ((SolverMod.flush modNet (SolverMod.run modNet sigmaInt muInt script (SolverMod.init modNet)).1).1.map (·.isActive))
    = [false, false, false, false, false, false, false] := by decide
example : ((SolverMod.Legacy.flush modNet (SolverMod.run modNet sigmaInt muInt script (SolverMod.init modNet)).1).1.map (·.isActive))
    = [false, false, false, false, false, false, true] := by decide
/-- a module activator returning two values for one output neuron: `ActivateModule`'s length error -/
example : ((SolverMod.run { modNet with ctrl := modNet.ctrl.map fun c => { c with act := 22 } } sigmaInt muInt script
    (SolverMod.init modNet)).2.map (·.err)) = [none, some .moduleOutLen, some .moduleOutLen] := by decide
/-- `RecursiveSteps` is refused -/
example : ((SolverMod.run modNet sigmaInt muInt [.recursive] (SolverMod.init modNet)).2.map (·.err)) = [some .modular] := by
  decide

/-- wiring outside `ctrlUnread`: input 0 → module → hidden 1 linked with `ConnectFrom`, i.e. the hidden neuron also
    lists the control node (index 3) in its `Incoming`; output 2 ← 1 -/
def chainNet : Net Int :=
  { id := 2
    nodes := [ { id := 1, kind := Kind.input, act := 17, incoming := [], outgoing := [] },
               { id := 2, kind := Kind.hidden, act := 14, incoming := [ { src := 3, dst := 1, w := 1, recur := false } ], outgoing := [] },
               { id := 3, kind := Kind.output, act := 14, incoming := [ { src := 1, dst := 2, w := 1, recur := false } ], outgoing := [] } ]
    inputs := [0], outputs := [2]
    ctrl := [ { id := 4, kind := Kind.hidden, act := 21,
                incoming := [ { src := 0, dst := 3, w := 1, recur := false } ],
                outgoing := [ { src := 3, dst := 1, w := 1, recur := false } ] } ] }

def chainScript : List (Solver.Op Int) := [.load [2], .activate 5]

/-- COUNTEREXAMPLE against the `Flush` loop before repair 842abdd (defect F15): after the OLD flush the same
    evaluation returns 0 instead of 2 - the control node's `isActive`, which the old loop did not reset, activates
    the hidden neuron (and through it the output) one sweep early; with the repaired `Flush` it is 2 again.
    Replay on the real code: notes/replay_C13_modular_test.go (`TestControlNodeStateSurvivesFlush`). -/
theorem std_flush_legacy_counterexample :
    SolverMod.ctrlUnread chainNet = false ∧
    ((SolverMod.run chainNet sigmaInt muInt chainScript (SolverMod.init chainNet)).2.map (·.outs)) = [[0], [2]] ∧
    ((SolverMod.run chainNet sigmaInt muInt chainScript
      (SolverMod.Legacy.flush chainNet (SolverMod.run chainNet sigmaInt muInt chainScript (SolverMod.init chainNet)).1).1).2.map
        (·.outs)) = [[0], [0]] ∧
    ((SolverMod.run chainNet sigmaInt muInt chainScript
      (SolverMod.flush chainNet (SolverMod.run chainNet sigmaInt muInt chainScript (SolverMod.init chainNet)).1).1).2.map
        (·.outs)) = [[0], [2]] := by
  decide

/-- fast solver of `modNet`: indices input 0,1, output 2, hidden 3,4,5 (order bias, input, output, hidden) -/
example : (match FastMod.ofNet modNet with
    | .ok fm => (fm.modules, fm.base.conns.map fun c => (c.src, c.dst, c.w))
    | .error _ => ([], [])) = ([{ act := 21, ins := [3, 4], outs := [5] }], [(0, 3, 3), (1, 4, 5), (5, 2, 2)]) := by
  decide

def modFast : FastMod.FastModNet Int :=
  { base := { nBias := 0, nInput := 2, nOutput := 1, nTotal := 6, acts := [17, 17, 14, 14, 14, 17],
              biasList := [0, 0, 0, 0, 0, 0],
              conns := [ { src := 0, dst := 3, w := 3 }, { src := 1, dst := 4, w := 5 }, { src := 5, dst := 2, w := 2 } ] }
    modules := [ { act := 21, ins := [3, 4], outs := [5] } ] }

def fscript : List (Fast.Op Int) := [.load [1, 2], .forward 2, .recursive]

example : ((FastMod.run modFast sigmaInt muInt fscript (FastMod.init modFast)).2.map fun o => (o.outs, o.err))
    = [([0], none), ([60], none), ([60], some .recModules)] := by decide
example : ((FastMod.run modFast sigmaInt muInt fscript
    (Fast.flush modFast.base (FastMod.run modFast sigmaInt muInt fscript (FastMod.init modFast)).1).1).2.map (·.outs))
    = [[0], [60], [60]] := by decide
/-- two output indexes for a one-valued activator: the run-time panic of the module loop, first value stored -/
example : ((FastMod.run { modFast with modules := [ { act := 21, ins := [3, 4], outs := [5, 2] } ] } sigmaInt muInt
    [.load [1, 2], .forward 1] (FastMod.init modFast)).2.map (·.err)) = [none, some .panic] := by decide

/-- bias 0, input 1, output 2, hidden 3 ← input; module A (first) reads the BIAS cell 0 and writes the output cell 2,
    module B writes the hidden value into the bias cell 0 -/
def relayFast : FastMod.FastModNet Int :=
  { base := { nBias := 1, nInput := 1, nOutput := 1, nTotal := 4, acts := [17, 17, 14, 14], biasList := [0, 0, 0, 0],
              conns := [ { src := 1, dst := 3, w := 1 } ] }
    modules := [ { act := 21, ins := [0], outs := [2] }, { act := 21, ins := [3], outs := [0] } ] }

def relayScript : List (Fast.Op Int) := [.load [7], .forward 1, .forward 1]

/-- COUNTEREXAMPLE against the `Flush` loop before repair 1a387d5 (defect F16): after the OLD flush the first forward
    step returns the stale 7 instead of 0 - `neuronSignalsBeingProcessed[0]` (a bias neuron's cell) was not reset;
    with the repaired `Flush` it is the fresh result.  Replay on the real code: notes/replay_C13_modular_test.go
    (`TestFastBiasCellSurvivesFlush`). -/
theorem fast_flush_legacy_counterexample :
    ((FastMod.run relayFast sigmaInt muInt relayScript (FastMod.init relayFast)).2.map (·.outs)) = [[0], [0], [7]] ∧
    ((FastMod.run relayFast sigmaInt muInt relayScript
      (FastMod.Legacy.flush relayFast.base (FastMod.run relayFast sigmaInt muInt relayScript (FastMod.init relayFast)).1).1).2.map
        (·.outs)) = [[0], [7], [7]] ∧
    ((FastMod.run relayFast sigmaInt muInt relayScript
      (Fast.flush relayFast.base (FastMod.run relayFast sigmaInt muInt relayScript (FastMod.init relayFast)).1).1).2.map
        (·.outs)) = [[0], [0], [7]] := by
  decide

end Examples

end GoNeat.C13Mod
