/-
  Property C02 (and what C01 / C09 / C10 / C20 take from it): the epoch theorems for populations whose species lists
  were RE-ORDERED between two epochs.

  Why.  Every evaluator shipped with goNEAT calls `Generation.FillPopulationStatistics(pop)`, which sorts every species'
  organism list in place (C19Gen `fill_population`) before `NextEpoch` runs.  The multi-epoch theorems took the
  evaluator hypothesis `SameShape` / `EvalOk`, which contains `q'.species.map ukey = q.species.map ukey` - the member
  ids of every species IN ORDER - and so did not literally cover those runs.

  ## Which hypotheses a within-species permutation of `orgs` (with `organisms` unchanged) breaks

  | theorem                                   | hypotheses                                             | broken? |
  |-------------------------------------------|--------------------------------------------------------|---------|
  | `C02.nextEpoch_popInv`                    | `UidInv` (membership + counter), `SpIdInv` (ids)       | none    |
  | `C02.nextEpoch_no_error`, `nextEpoch_popOk` | `OptsOk`; `PopOk`: uid, spid, size, `perm` (already a `List.Perm`), nodup, nonempty, unmarked / pool / shaped (membership), recs (registry) | none of `PopOk` (`popOk_evalPerm`) |
  |                                           | `QuotaOk o p` (the rounded quota computation ON p)     | not transferable for an arbitrary scalar: `adjustFitness` re-sorts with a non-stable sort and sums in list order, so ties / float sums may differ.  It is a hypothesis about the population that ENTERS the epoch, and is stated on that population (`q`) below; C20 (3) states it on the population the evaluator returned, so nothing is lost there.  In EXACT arithmetic it is a theorem under order-insensitive hypotheses: `C09.quotaOk_exact_perm` (Props/C09QuotaExact.lean) |
  | `C02.runEpochs_inv`, `runEpochs_no_error` | `SameShape q (ev q)` / `EvalOk q (ev q)`               | BROKEN (ordered `ukey`) - replaced by `SameShapePerm` / `EvalOkPerm` |
  | `C10.nextEpoch_keeps_champion`            | `UidInv`, ids `Nodup`, `ScZero`, `RefsOkPop` (all membership) | none (Props/C10Perm.lean) |
  | `C10.runEpochs_keeps_champions`           | `EvalKeeps` ⊇ `SameShape`                              | BROKEN in the same way - redone under `C10.EvalKeepsPerm`: `C10.runEpochs_keeps_champions_perm` (Props/C10Perm.lean) |
  | `C09.prepare_expected(_full)`             | ids `Nodup`                                            | none; the conclusion speaks of the population that enters the epoch (its mean is summed in its order) |
  | `C09.mean_values_perm`                    | `organisms.Perm (orgUids species)` (already a Perm)    | none    |
  | `C01.nextEpoch_closed`                    | `PoolOk reg (X ++ genomesOfPop p)` (membership)        | none    |
  | `C20.executeReal_evaluated_inv`, `_no_epoch_error`, `_ends` | `∀ t g q, EvalOk q (eval t g q).pop`   | BROKEN - redone under `EvalOkPerm` in Props/C20EpochFill.lean |
  | `C20.EvalInv`                             | `(orgUids species).Perm organisms`                     | none (already the permutation form) |

  So no invariant had to be weakened: the only order-sensitive item was the EVALUATOR hypothesis.  `nextEpoch_popInv`
  still CONCLUDES the equality `organisms = orgUids species` for the population it returns (finalisation rebuilds
  `organisms` from the species lists); the equality is lost again by the next `FillPopulationStatistics`
  (C19Gen `fill_breaks_listing_order`), which is why the invariants carried between epochs use the `Perm` form.

  This file: `SpeciesPerm`, `SameShapePerm`, `EvalOkPerm`; the old relations imply the new ones; the invariants are
  preserved (`sameShapePerm_inv`, `popOk_evalPerm`); `nextEpoch_popInv_perm`, `nextEpoch_no_error_perm`,
  `nextEpoch_popOk_perm`, `runEpochs_inv_perm`, `runEpochs_no_error_perm`.  Kind A.
-/
import GoNeat.Props.C02NoError

set_option linter.unusedSectionVars false

namespace GoNeat.C02
open GoNeat Scalar GoNeat.NoErr GoNeat.C01

/-! ### pointwise relation of two lists (core only) -/
section Forall2

/-- the two lists have the same length and corresponding elements are related -/
inductive All₂ {α β : Type} (R : α → β → Prop) : List α → List β → Prop
  | nil : All₂ R [] []
  | cons {a : α} {b : β} {l : List α} {l' : List β} : R a b → All₂ R l l' → All₂ R (a :: l) (b :: l')

variable {α β γ : Type} {R : α → β → Prop}

theorem forall₂_imp {S : α → β → Prop} (h : ∀ a b, R a b → S a b) {l : List α} {l' : List β}
    (hr : All₂ R l l') : All₂ S l l' := by
  induction hr with
  | nil => exact .nil
  | cons hab _ ih => exact .cons (h _ _ hab) ih

theorem forall₂_map_eq {f : α → γ} {g : β → γ} (h : ∀ a b, R a b → g b = f a) {l : List α} {l' : List β}
    (hr : All₂ R l l') : l'.map g = l.map f := by
  induction hr with
  | nil => rfl
  | cons hab _ ih => simp only [List.map_cons, h _ _ hab, ih]

theorem forall₂_flatMap_perm {f : α → List γ} {g : β → List γ} (h : ∀ a b, R a b → (g b).Perm (f a)) {l : List α}
    {l' : List β} (hr : All₂ R l l') : (l'.flatMap g).Perm (l.flatMap f) := by
  induction hr with
  | nil => exact List.Perm.refl _
  | cons hab _ ih =>
    simp only [List.flatMap_cons]
    exact (h _ _ hab).append ih

theorem forall₂_mem_right {l : List α} {l' : List β} (hr : All₂ R l l') : ∀ b ∈ l', ∃ a ∈ l, R a b := by
  induction hr with
  | nil => intro b hb; cases hb
  | cons hab _ ih =>
    intro b hb
    rcases List.mem_cons.mp hb with rfl | hb'
    · exact ⟨_, List.mem_cons_self, hab⟩
    · obtain ⟨a, ha, r⟩ := ih b hb'
      exact ⟨a, List.mem_cons_of_mem _ ha, r⟩

theorem forall₂_trans {δ : Type} {S : β → δ → Prop} {T : α → δ → Prop} (h : ∀ a b c, R a b → S b c → T a c)
    {l : List α} {l' : List β} (hr : All₂ R l l') : ∀ {l'' : List δ}, All₂ S l' l'' → All₂ T l l'' := by
  induction hr with
  | nil => intro l'' hs; cases hs; exact .nil
  | cons hab _ ih =>
    intro l'' hs
    cases hs with
    | cons hbc hs' => exact .cons (h _ _ _ hab hbc) (ih hs')

theorem forall₂_of_map_eq {f : α → γ} : ∀ {l l' : List α}, l'.map f = l.map f → All₂ (fun a b => f b = f a) l l'
  | [], [], _ => .nil
  | [], _ :: _, h => by simp at h
  | _ :: _, [], h => by simp at h
  | a :: l, b :: l', h => by
    simp only [List.map_cons, List.cons.injEq] at h
    exact .cons h.1 (forall₂_of_map_eq h.2)

theorem forall₂_map_self {R : α → α → Prop} (g : α → α) (h : ∀ a, R a (g a)) (l : List α) : All₂ R l (l.map g) := by
  induction l with
  | nil => exact .nil
  | cons a l ih => exact .cons (h a) ih

end Forall2

variable {W : Type} [Scalar W]

/-! ### the relations -/

/-- the members of a species as the C02 invariants see them: allocation id and elimination mark, in list order
    (the second component of `ukey`) -/
def mkey (s : Species W) : List (Nat × Bool) := s.orgs.map (fun x => (x.uid, x.toEliminate))

/-- **the same population except for the order inside the species**: every field of the population record but
    `species` is equal (in particular `organisms`, the registry and both counters), the species lists have the same
    length, and the `i`-th species differs only in `orgs`, which is a permutation.  What
    `Generation.FillPopulationStatistics` does to a population (Props/C20EpochFill.lean `fill_speciesPerm`). -/
def SpeciesPerm (p q : Pop W) : Prop :=
  q = { p with species := q.species } ∧
  All₂ (fun s s' => s' = { s with orgs := s'.orgs } ∧ s'.orgs.Perm s.orgs) p.species q.species

/-- what an evaluation between two epochs may not change, ORDER INSIDE A SPECIES ASIDE: which organisms exist
    (`organisms`, `nextUid`), `lastSpecies`, the species' ids, ages and flags in species order, and for every species
    the members' allocation ids and elimination marks up to a permutation.  (`SameShape` demands the last in order.) -/
def SameShapePerm (p q : Pop W) : Prop :=
  q.organisms = p.organisms ∧ q.nextUid = p.nextUid ∧ q.lastSpecies = p.lastSpecies ∧
  All₂ (fun s s' => skey s' = skey s ∧ (mkey s').Perm (mkey s)) p.species q.species

/-- what an evaluation between two epochs may do: assign fitness values and the like AND re-order the organisms
    inside each species (`SameShapePerm`), touch no genome and not the registry.  `EvalOk` is the special case that
    keeps the order (`EvalOk.toPerm`). -/
def EvalOkPerm (q q' : Pop W) : Prop :=
  SameShapePerm q q' ∧ (∀ g ∈ genomesOfPop q', g ∈ genomesOfPop q) ∧ q'.reg = q.reg

theorem mkey_uids (s : Species W) : (mkey s).map (·.1) = s.orgs.map (·.uid) := by
  simp [mkey, List.map_map, Function.comp_def]

/-! ### the old relations are special cases; the new ones compose -/

/-- the order-preserving relation implies the permutation form -/
theorem SameShape.toPerm {p q : Pop W} (h : SameShape p q) : SameShapePerm p q := by
  obtain ⟨h1, h2, h3, h4⟩ := h
  refine ⟨h1, h2, h3, forall₂_imp ?_ (forall₂_of_map_eq h4)⟩
  intro s s' e
  have e1 : skey s' = skey s := congrArg Prod.fst e
  have e2 : mkey s' = mkey s := congrArg Prod.snd e
  exact ⟨e1, e2 ▸ List.Perm.refl _⟩

/-- **the old evaluator hypothesis implies the new one**: every theorem stated under `EvalOkPerm` holds under `EvalOk` -/
theorem EvalOk.toPerm {q q' : Pop W} (h : EvalOk q q') : EvalOkPerm q q' := ⟨h.1.toPerm, h.2.1, h.2.2⟩

theorem SameShapePerm.refl (p : Pop W) : SameShapePerm p p := (show SameShape p p from ⟨rfl, rfl, rfl, rfl⟩).toPerm

theorem SameShapePerm.trans {p q r : Pop W} (h1 : SameShapePerm p q) (h2 : SameShapePerm q r) : SameShapePerm p r := by
  obtain ⟨a1, a2, a3, a4⟩ := h1
  obtain ⟨b1, b2, b3, b4⟩ := h2
  refine ⟨b1.trans a1, b2.trans a2, b3.trans a3, forall₂_trans ?_ a4 b4⟩
  intro s s' s'' x y
  exact ⟨y.1.trans x.1, y.2.trans x.2⟩

theorem EvalOkPerm.refl (p : Pop W) : EvalOkPerm p p := ⟨SameShapePerm.refl p, fun _ h => h, rfl⟩

/-- evaluations compose (assign fitness, then record the generation, …) -/
theorem EvalOkPerm.trans {p q r : Pop W} (h1 : EvalOkPerm p q) (h2 : EvalOkPerm q r) : EvalOkPerm p r :=
  ⟨h1.1.trans h2.1, fun g hg => h1.2.1 g (h2.2.1 g hg), h2.2.2.trans h1.2.2⟩

theorem SpeciesPerm.fields {p q : Pop W} (h : SpeciesPerm p q) :
    q.organisms = p.organisms ∧ q.nextUid = p.nextUid ∧ q.lastSpecies = p.lastSpecies ∧ q.reg = p.reg ∧
    q.highestFitness = p.highestFitness ∧ q.epochsHighestLastChanged = p.epochsHighestLastChanged :=
  have e1 := congrArg Pop.organisms h.1
  have e2 := congrArg Pop.nextUid h.1
  have e3 := congrArg Pop.lastSpecies h.1
  have e4 := congrArg Pop.reg h.1
  have e5 := congrArg Pop.highestFitness h.1
  have e6 := congrArg Pop.epochsHighestLastChanged h.1
  ⟨e1, e2, e3, e4, e5, e6⟩

/-- the organisms of the two populations are the same (as sets; per species) -/
theorem SpeciesPerm.mem {p q : Pop W} (h : SpeciesPerm p q) :
    (∀ s' ∈ q.species, ∀ x ∈ s'.orgs, ∃ s ∈ p.species, x ∈ s.orgs) := by
  intro s' hs' x hx
  obtain ⟨s, hs, _, hp⟩ := forall₂_mem_right h.2 s' hs'
  exact ⟨s, hs, hp.mem_iff.mp hx⟩

theorem SpeciesPerm.sameShape {p q : Pop W} (h : SpeciesPerm p q) : SameShapePerm p q := by
  obtain ⟨f1, f2, f3, _⟩ := h.fields
  refine ⟨f1, f2, f3, forall₂_imp ?_ h.2⟩
  intro s s' hs
  obtain ⟨e, hp⟩ := hs
  refine ⟨?_, hp.map _⟩
  rw [e]; rfl

/-- **a within-species permutation is an admissible evaluation** -/
theorem SpeciesPerm.evalOkPerm {p q : Pop W} (h : SpeciesPerm p q) : EvalOkPerm p q := by
  refine ⟨h.sameShape, ?_, h.fields.2.2.2.1⟩
  intro g hg
  obtain ⟨s', hs', x, hx, rfl⟩ := mem_genomesOfPop.mp hg
  obtain ⟨s, hs, hxs⟩ := h.mem s' hs' x hx
  exact mem_genomesOfPop.mpr ⟨s, hs, x, hxs, rfl⟩

/-! ### what the permutation form still determines -/

theorem SameShapePerm.skeys {p q : Pop W} (h : SameShapePerm p q) : q.species.map skey = p.species.map skey :=
  forall₂_map_eq (fun _ _ r => r.1) h.2.2.2

theorem SameShapePerm.ids {p q : Pop W} (h : SameShapePerm p q) : q.species.map (·.id) = p.species.map (·.id) := by
  rw [ids_of_keys, ids_of_keys p.species, h.skeys]

/-- the concatenated member ids are a permutation (they were EQUAL under `SameShape`) -/
theorem SameShapePerm.uids {p q : Pop W} (h : SameShapePerm p q) : (orgUids q.species).Perm (orgUids p.species) := by
  unfold orgUids
  refine forall₂_flatMap_perm ?_ h.2.2.2
  intro s s' r
  have := r.2.map (·.1)
  rwa [mkey_uids, mkey_uids] at this

theorem SameShapePerm.nonempty {p q : Pop W} (h : SameShapePerm p q) (hne : ∀ s ∈ p.species, s.orgs ≠ []) :
    ∀ s ∈ q.species, s.orgs ≠ [] := by
  intro s' hs' e
  obtain ⟨s, hs, _, hp⟩ := forall₂_mem_right h.2.2.2 s' hs'
  have hl := hp.length_eq
  simp only [mkey, List.length_map, e, List.length_nil] at hl
  exact hne s hs (List.eq_nil_of_length_eq_zero hl.symm)

theorem SameShapePerm.unmarked {p q : Pop W} (h : SameShapePerm p q) (hun : ∀ x ∈ allOrgs p, x.toEliminate = false) :
    ∀ x ∈ allOrgs q, x.toEliminate = false := by
  intro x hx
  obtain ⟨s', hs', hxs⟩ := mem_allOrgs.mp hx
  obtain ⟨s, hs, _, hp⟩ := forall₂_mem_right h.2.2.2 s' hs'
  have hm : (x.uid, x.toEliminate) ∈ mkey s' := List.mem_map_of_mem (f := fun x => (x.uid, x.toEliminate)) hxs
  obtain ⟨y, hy, hyx⟩ := List.mem_map.mp (hp.mem_iff.mp hm)
  have := hun y (mem_allOrgs.mpr ⟨s, hs, hy⟩)
  simp only [Prod.mk.injEq] at hyx
  rw [← hyx.2]; exact this

theorem SameShapePerm.uidInv {p q : Pop W} (h : SameShapePerm p q) (hu : UidInv p) : UidInv q := by
  have huids := h.uids
  obtain ⟨h1, h2, _, _⟩ := h
  refine ⟨?_, ?_⟩
  · intro u hu'
    rw [h1]; exact hu.listed u (huids.mem_iff.mp hu')
  · intro u hu'; rw [h1] at hu'; rw [h2]; exact hu.below u hu'

/-- **the C02 invariants survive an evaluation that re-orders inside the species** (`sameShape_inv` for the
    permutation form) -/
theorem sameShapePerm_inv (p q : Pop W) (h : SameShapePerm p q) (hu : UidInv p) (hs : SpIdInv p) : UidInv q ∧ SpIdInv q := by
  have hids := h.ids
  have huids := h.uids
  obtain ⟨h1, h2, h3, _⟩ := h
  refine ⟨⟨?_, ?_⟩, ⟨by rw [hids]; exact hs.nodup, ?_⟩⟩
  · intro u hu'
    rw [h1]; exact hu.listed u (huids.mem_iff.mp hu')
  · intro u hu'; rw [h1] at hu'; rw [h2]; exact hu.below u hu'
  · intro s hs'
    have : s.id ∈ p.species.map (·.id) := hids ▸ List.mem_map_of_mem hs'
    obtain ⟨s0, hs0, e⟩ := List.mem_map.mp this
    rw [h3, ← e]; exact hs.le s0 hs0

/-- **every population hypothesis of `nextEpoch_no_error` survives such an evaluation** (`popOk_eval` for the
    permutation form): all ten fields of `PopOk` are insensitive to the order inside a species -/
theorem popOk_evalPerm (S : List Nat) (o : EpochOpts W) (q q' : Pop W) (h : PopOk S o q) (he : EvalOkPerm q q') : PopOk S o q' := by
  obtain ⟨hsh, hg, hreg⟩ := he
  obtain ⟨hu', hs'⟩ := sameShapePerm_inv q q' hsh h.uid h.spid
  have h1 := hsh.1
  exact ⟨hu', hs', by rw [h1]; exact h.size, by rw [h1]; exact hsh.uids.trans h.perm, by rw [h1]; exact h.nodup,
    hsh.nonempty h.nonempty, hsh.unmarked h.unmarked, by rw [hreg]; exact h.pool.subset hg, by rw [hreg]; exact h.recs,
    fun g hg' => h.shaped g (hg g hg')⟩

/-! ### one epoch -/

/-- **C02 (one whole epoch) for a re-ordered population.**  If `p` satisfies the hypotheses of `nextEpoch_popInv`
    (`UidInv`, `SpIdInv`) and `q` is what an evaluation that may re-order the organisms inside each species made of it
    (`SameShapePerm p q`; in particular `SpeciesPerm p q`, i.e. `q = FillPopulationStatistics p`), then `NextEpoch`
    run on `q` has every conclusion of `nextEpoch_popInv` (freshness stated against `p`'s organisms, which are `q`'s). -/
theorem nextEpoch_popInv_perm (o : EpochOpts W) (gen : Int) (p q p' : Pop W) (rs rs' : List Nat)
    (hu : UidInv p) (hs : SpIdInv p) (hpq : SameShapePerm p q) (h : nextEpoch o gen q rs = .ok (p', rs')) :
    (p'.organisms.length = o.popSize ∧ p'.organisms.Nodup ∧ p'.organisms = orgUids p'.species ∧
     (∀ s ∈ p'.species, s.orgs ≠ []) ∧ (∀ u ∈ p'.organisms, u ∉ p.organisms) ∧ (genomeIds p'.species).Nodup) ∧
    UidInv p' ∧ SpIdInv p' := by
  obtain ⟨hu0, hs0⟩ := sameShapePerm_inv p q hpq hu hs
  have := nextEpoch_popInv o gen q p' rs rs' hu0 hs0 h
  rwa [hpq.1] at this

/-- **C02 "succeeds without error" for a re-ordered population.**  If `p` satisfies the population hypotheses `PopOk`
    of `nextEpoch_no_error` and `q` is what an admissible evaluation - fitness assignment AND re-ordering inside the
    species - made of it, then `NextEpoch` on `q` returns no implementation error.  The quota facts are those of the
    population that enters the epoch (`QuotaOk o q`; see the header). -/
theorem nextEpoch_no_error_perm (hff : FloatFacts W) (S : List Nat) (o : EpochOpts W) (p q : Pop W) (ho : OptsOk o)
    (hp : PopOk S o p) (hpq : EvalOkPerm p q) (hq : QuotaOk o q) (gen : Int) :
    ∀ rs, Valid rs → ∀ msg, nextEpoch o gen q rs ≠ .error (.error msg) :=
  nextEpoch_no_error hff S o q ⟨ho, popOk_evalPerm S o p q hp hpq, hq⟩ gen

/-- … and the population it returns satisfies `PopOk` again -/
theorem nextEpoch_popOk_perm (hff : FloatFacts W) (S : List Nat) (o : EpochOpts W) (p q : Pop W) (ho : OptsOk o)
    (hp : PopOk S o p) (hpq : EvalOkPerm p q) (hq : QuotaOk o q) (gen : Int) (rs rs' : List Nat) (hv : Valid rs) (p' : Pop W)
    (he : nextEpoch o gen q rs = .ok (p', rs')) : PopOk S o p' :=
  nextEpoch_popOk hff S o q ⟨ho, popOk_evalPerm S o p q hp hpq, hq⟩ gen rs rs' hv p' he

/-! ### any number of epochs, the evaluations may re-order -/

/-- **C02 (any number of consecutive epochs), evaluations may re-order inside the species**: `runEpochs_inv` with
    `SameShapePerm` in place of `SameShape` (which it implies: `SameShape.toPerm`) -/
theorem runEpochs_inv_perm (o : EpochOpts W) (evs : List (Pop W → Pop W)) (gen : Int) (p p' : Pop W) (rs rs' : List Nat)
    (hev : ∀ ev ∈ evs, ∀ q, SameShapePerm q (ev q)) (hu : UidInv p) (hs : SpIdInv p)
    (h : runEpochs o evs gen p rs = .ok (p', rs')) :
    UidInv p' ∧ SpIdInv p' ∧ p.lastSpecies ≤ p'.lastSpecies ∧
    (evs ≠ [] → p'.organisms.length = o.popSize ∧ p'.organisms.Nodup ∧ p'.organisms = orgUids p'.species ∧
      (∀ s ∈ p'.species, s.orgs ≠ []) ∧ (genomeIds p'.species).Nodup) := by
  induction evs generalizing gen p rs with
  | nil =>
    simp only [runEpochs, Except.ok.injEq, Prod.mk.injEq] at h
    obtain ⟨rfl, _⟩ := h
    exact ⟨hu, hs, Int.le_refl _, by intro h; exact absurd rfl h⟩
  | cons ev evs ih =>
    simp only [runEpochs] at h
    split at h
    · cases h
    · rename_i p1 rs1 h1
      have hsh := hev ev (by simp) p
      obtain ⟨hu0, hs0⟩ := sameShapePerm_inv p (ev p) hsh hu hs
      obtain ⟨⟨a1, a2, a3, a4, _, a6⟩, hu1, hs1⟩ := nextEpoch_popInv o gen (ev p) p1 rs rs1 hu0 hs0 h1
      have hl1 := (nextEpoch_species o gen (ev p) p1 rs rs1 hs0 h1).2.1
      obtain ⟨b1, b2, b3, b4⟩ := ih (gen + 1) p1 rs1 (fun e he => hev e (by simp [he])) hu1 hs1 h
      refine ⟨b1, b2, ?_, ?_⟩
      · have := hsh.2.2.1; omega
      · intro _
        cases evs with
        | nil =>
          simp only [runEpochs, Except.ok.injEq, Prod.mk.injEq] at h
          obtain ⟨rfl, _⟩ := h
          exact ⟨a1, a2, a3, a4, a6⟩
        | cons e2 es => exact b4 (by simp)

/-- **C02 "succeeds without error", any number of epochs, evaluations may re-order inside the species** -/
theorem runEpochs_no_error_perm (hff : FloatFacts W) (S : List Nat) (o : EpochOpts W) (ho : OptsOk o)
    (evs : List (Pop W → Pop W)) (hev : ∀ ev ∈ evs, ∀ q, EvalOkPerm q (ev q)) (gen : Int) (p : Pop W) (rs : List Nat)
    (hv : Valid rs) (hp : PopOk S o p) (hq : QuotaAlong o evs gen p rs) :
    ∀ msg, runEpochs o evs gen p rs ≠ .error (.error msg) := by
  induction evs generalizing gen p rs with
  | nil => intro msg h; simp [runEpochs] at h
  | cons ev evs ih =>
    intro msg
    have hyp : Hyp S o (ev p) := ⟨ho, popOk_evalPerm S o p (ev p) hp (hev ev (by simp) p), hq.1⟩
    have hne := nextEpoch_no_error hff S o (ev p) hyp gen rs hv
    have hq2 := hq.2
    unfold runEpochs
    split
    · next e he => intro h; cases h; exact hne msg he
    · next p' rs' he =>
      rw [he] at hq2
      exact ih (fun e he' => hev e (by simp [he'])) (gen + 1) p' rs'
        (valid_of_ok (nextEpoch_prefixDet o gen (ev p)) hv he)
        (nextEpoch_popOk hff S o (ev p) hyp gen rs rs' hv p' he) hq2 msg

/-- the old theorems are instances: `runEpochs_no_error` from `runEpochs_no_error_perm` -/
example (hff : FloatFacts W) (S : List Nat) (o : EpochOpts W) (ho : OptsOk o)
    (evs : List (Pop W → Pop W)) (hev : ∀ ev ∈ evs, ∀ q, EvalOk q (ev q)) (gen : Int) (p : Pop W) (rs : List Nat)
    (hv : Valid rs) (hp : PopOk S o p) (hq : QuotaAlong o evs gen p rs) :
    ∀ msg, runEpochs o evs gen p rs ≠ .error (.error msg) :=
  runEpochs_no_error_perm hff S o ho evs (fun ev h q => (hev ev h q).toPerm) gen p rs hv hp hq

end GoNeat.C02
