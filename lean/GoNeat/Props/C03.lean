/-
  Property C03 - an innovation number denotes one connection for the life of a population.  Kind A: every theorem
  holds for every scalar type `W` with `[Scalar W]`, for genomes / registries / pools of every size, for every
  random stream and every option setting.

  `Inv reg gs` (Spec/Registry.lean) = ConsistentGenes ∧ ConsistentRoles ∧ RegCompat ∧ CounterAbove for the
  registry `reg` and the pool `gs` (every genome that ever lived).  Helper lemmas: Proofs/RegistryLemmas.lean
  (the invariant over bindings, resolve steps), Proofs/RegistrySteps.lean (mutators factor through the resolve steps),
  Proofs/CopyBinds.lean (duplicate / crossovers), Proofs/EpochRegistry.lean (population level).
-/
import GoNeat.Proofs.EpochRegistry
import GoNeat.Proofs.ScalarInt
import GoNeat.Model.LegacyGenome

set_option linter.unusedSectionVars false

namespace GoNeat.C03
open GoNeat Scalar
variable {W : Type} [Scalar W]

/-! ### C03, first clause: the structural mutators preserve the invariant -/

/-- **C03 (add-link).** If the invariant holds for the registry and the whole pool (which contains `g`), it holds for
    the new registry and the pool with the mutated genome added - whatever the mutator returns (success or not): the
    new gene binds a fresh number (taken from the counter, hence above everything held) or the number of a record
    whose link equals the requested one. -/
theorem addLink_consistent (g g' : Genome W) (reg reg' : Reg W) (o : MutOpts W) (rs rs' : List Nat) (res : Bool)
    (gs : List (Genome W)) (hinv : Inv reg gs) (hg : g ∈ gs)
    (h : mutateAddLink g reg o rs = .ok ((g', reg', res), rs')) : Inv reg' (g' :: gs) :=
  Inv.of_local ((mutateAddLink_steps g g' reg reg' o rs rs' res h).inv (hinv.local hg))

/-- **C03 (connect-sensors).** Same for the mutator that links a disconnected sensor to every non-sensor node (one
    resolve step per new gene). -/
theorem connectSensors_consistent (g g' : Genome W) (reg reg' : Reg W) (rs rs' : List Nat) (res : Bool)
    (gs : List (Genome W)) (hinv : Inv reg gs) (hg : g ∈ gs)
    (h : mutateConnectSensors g reg rs = .ok ((g', reg', res), rs')) : Inv reg' (g' :: gs) :=
  Inv.of_local ((mutateConnectSensors_steps g g' reg reg' rs rs' res h).inv (hinv.local hg))

/-- **C03 (add-node).** Same for the split of a gene: the new node id and the two new numbers are fresh or those of
    the record of the same split `(in, out, old number)`; this includes the exits on which the mutator reports
    `false` after having disabled the chosen gene. -/
theorem addNode_consistent (g g' : Genome W) (reg reg' : Reg W) (o : MutOpts W) (rs rs' : List Nat) (res : Bool)
    (gs : List (Genome W)) (hinv : Inv reg gs) (hg : g ∈ gs)
    (h : mutateAddNode g reg o rs = .ok ((g', reg', res), rs')) : Inv reg' (g' :: gs) :=
  Inv.of_local ((mutateAddNode_steps g g' reg reg' o rs rs' res h).inv (hinv.local hg))

/-! ### C03, second clause: what is issued is fresh; counters are monotone -/

/-- **C03 (issued numbers are fresh; counters are monotone).** Within a generation whose counters started at
    `(bi, bn)` (`GenInv`: holds at the start of every generation for the current counters, see `GenInv.start`), each
    structural mutation leaves the counters monotone, keeps all records, and every gene / node it adds carries a number /
    id strictly above `(bi, bn)` - hence, by `CounterAbove` at the start of the generation, larger than any number or
    node id the population held before (`issued_above_pool`). -/
theorem issued_fresh (bi bn : Int) (g g' : Genome W) (reg reg' : Reg W) (o : MutOpts W) (rs rs' : List Nat) (res : Bool)
    (hg : GenInv bi bn reg) :
    (mutateAddLink g reg o rs = .ok ((g', reg', res), rs') → Issued bi bn g reg g' reg') ∧
    (mutateAddNode g reg o rs = .ok ((g', reg', res), rs') → Issued bi bn g reg g' reg') ∧
    (mutateConnectSensors g reg rs = .ok ((g', reg', res), rs') → Issued bi bn g reg g' reg') :=
  ⟨fun h => (mutateAddLink_steps _ _ _ _ _ _ _ _ h).issued hg, fun h => (mutateAddNode_steps _ _ _ _ _ _ _ _ h).issued hg,
   fun h => (mutateConnectSensors_steps _ _ _ _ _ _ _ h).issued hg⟩

/-- with the counters of the generation start above the whole pool, whatever a mutation adds is above the whole pool -/
theorem issued_above_pool {bi bn : Int} {g g' : Genome W} (h : IssuedAbove bi bn g g') (B : List Bind) (R : List Role)
    (hB : ∀ b ∈ B, b.1 ≤ bi) (hR : ∀ p ∈ R, p.1 ≤ bn) :
    (∀ x ∈ g'.genes, geneBind x ∉ gb g → ∀ b ∈ B, b.1 < x.inn) ∧ (∀ n ∈ g'.nodes, nodeRole n ∉ gr g → ∀ p ∈ R, p.1 < n.id) := by
  refine ⟨fun x hx hnot b hb => ?_, fun n hn hnot p hp => ?_⟩
  · rcases h.1 x hx with h1 | h1
    · exact absurd h1 hnot
    · have := hB b hb; omega
  · rcases h.2 n hn with h1 | h1
    · exact absurd h1 hnot
    · have := hR p hp; omega

/-! ### C03, third clause: identical requests in one generation receive identical numbers -/

/-- **C03 (same request, same numbers).** Sequential executor, one generation (records are only appended, `RegExtends`):
    a new-link request `(s,d,r)` resolved after an identical request - with any number of other structural mutations in
    between - receives the identical innovation number and changes nothing in the registry; a split request
    `(s, d, old number)` (the same split of the same gene) receives the identical node id and both identical numbers. -/
theorem same_request_same_numbers (reg reg1 reg2 reg3 : Reg W) (s d : Int) (hext : RegExtends reg1 reg2) :
    (∀ (r : Bool) (w w' : W) (tn tn' k k' : Int),
        resolveLink reg s d r w tn = (k, reg1) → resolveLink reg2 s d r w' tn' = (k', reg3) → k' = k ∧ reg3 = reg2) ∧
    (∀ (o n k1 k2 n' k1' k2' : Int),
        resolveNode reg s d o = ((n, k1, k2), reg1) → resolveNode reg2 s d o = ((n', k1', k2'), reg3) →
        n' = n ∧ k1' = k1 ∧ k2' = k2 ∧ reg3 = reg2) := by
  constructor
  · intro r w w' tn tn' k k' h1 h2
    obtain ⟨i, hf, rfl⟩ := resolveLink_finds s d r w tn k h1
    rw [resolveLink_of_found (find?_extends hext _ i hf)] at h2
    obtain ⟨rfl, rfl⟩ := Prod.mk.inj h2
    exact ⟨rfl, rfl⟩
  · intro o n k1 k2 n' k1' k2' h1 h2
    obtain ⟨i, hf, rfl, rfl, rfl⟩ := resolveNode_finds s d o n k1 k2 h1
    rw [resolveNode_of_found (find?_extends hext _ i hf)] at h2
    obtain ⟨hnums, rfl⟩ := Prod.mk.inj h2
    obtain ⟨rfl, hk⟩ := Prod.mk.inj hnums
    obtain ⟨rfl, rfl⟩ := Prod.mk.inj hk
    exact ⟨rfl, rfl, rfl, rfl⟩

/-! ### C03: copy operators introduce no new binding, hence preserve the invariant -/

/-- **C03 (duplicate and the parametric mutators preserve the invariant).** -/
theorem copy_consistent (reg : Reg W) (gs : List (Genome W)) (hinv : Inv reg gs) (g g' : Genome W) (hg : g ∈ gs)
    (o : MutOpts W) (id : Int) (rs rs' : List Nat) :
    (g.duplicate id = .ok g' → Inv reg (g' :: gs)) ∧
    (mutateAllNonstructural g o rs = .ok (g', rs') → Inv reg (g' :: gs)) ∧
    (∀ power rate mt, mutateLinkWeights g power rate mt rs = .ok (g', rs') → Inv reg (g' :: gs)) :=
  ⟨fun h => hinv.add_same hg (by obtain ⟨a, b⟩ := duplicate_binds g g' id h; exact ⟨a, b⟩),
   fun h => hinv.add_same hg (mutateAllNonstructural_sameBinds g g' o rs rs' h),
   fun power rate mt h => hinv.add_same hg ((parametric_sameBinds g g' o power rate mt 0 rs rs').1 h)⟩

/-- **C03 (crossover).** A child of any of the three crossovers of two pool members carries only bindings of its
    parents - the averaging operators pick each endpoint and the flag of a matched gene from either parent, which are
    equal because the pool is consistent - hence the invariant is preserved.  No well-formedness hypothesis. -/
theorem mate_consistent (reg : Reg W) (gs : List (Genome W)) (hinv : Inv reg gs) (p1 p2 c : Genome W) (h1 : p1 ∈ gs) (h2 : p2 ∈ gs)
    (id : Int) (f1 f2 : W) (rs rs' : List Nat) :
    (mateMultipoint p1 p2 id f1 f2 rs = .ok (c, rs') → Inv reg (c :: gs)) ∧
    (mateMultipointAvg p1 p2 id f1 f2 rs = .ok (c, rs') → Inv reg (c :: gs)) ∧
    (mateSinglePoint p1 p2 id rs = .ok (c, rs') → Inv reg (c :: gs)) := by
  have hp1 : ∀ b ∈ p1.genes.map geneBind, b ∈ binds gs := fun b hb => by
    obtain ⟨x, hx, rfl⟩ := List.mem_map.mp hb; exact mem_binds_of_mem h1 hx
  have hq1 : ∀ r ∈ p1.nodes.map nodeRole, r ∈ roles gs := fun r hr => by
    obtain ⟨x, hx, rfl⟩ := List.mem_map.mp hr; exact mem_roles_of_mem h1 hx
  have hp2 : ∀ b ∈ p2.genes.map geneBind, b ∈ binds gs := fun b hb => by
    obtain ⟨x, hx, rfl⟩ := List.mem_map.mp hb; exact mem_binds_of_mem h2 hx
  have hq2 : ∀ r ∈ p2.nodes.map nodeRole, r ∈ roles gs := fun r hr => by
    obtain ⟨x, hx, rfl⟩ := List.mem_map.mp hr; exact mem_roles_of_mem h2 hx
  obtain ⟨m1, m2, m3⟩ := mate_from hinv.genes p1 p2 id f1 f2 rs rs' c hp1 hq1 hp2 hq2
  exact ⟨fun h => hinv.add_copy c (m1 h).1 (m1 h).2, fun h => hinv.add_copy c (m2 h).1 (m2 h).2,
         fun h => hinv.add_copy c (m3 h).1 (m3 h).2⟩

/-! ### C03: the constructors establish the invariant (counters past the start genomes) -/

/-- **C03 (spawn).** `NewPopulation`/`spawn` from ANY start genome that is consistent in itself (no number bound to two links,
    no node id with two roles - necessary: otherwise the property is false before anything runs), with its genes and nodes
    listed in any order, yields a population in the C03 state `PopC03 [g] p`: `Inv` for its registry (`nextInn` = the
    LARGEST innovation number of the genome, `nextNode` = largest node id + 1, no records) and the history `[g]`, and every
    member's bindings are the start genome's.  (Before fix 48b1f99 the counters came from the last listed gene / node and
    this needed the genome to be in ascending order: `C03_counterexample`.) -/
theorem spawn_inv (o : EpochOpts W) (g : Genome W) (rs rs' : List Nat) (p : Pop W) (h : spawn o g rs = .ok (p, rs'))
    (hc : ConsistentGenes [g]) (hr : ConsistentRoles [g]) : PopC03 [g] p :=
  spawn_popC03 o g rs rs' p h hc hr

/-- **C03 (ReadPopulation counters).** Reading consistent genomes (each with a node and a gene - else the real reader
    fails -, listed in any order) leaves the counters `(nextNodeId, nextInnovNum) = readCounters gs (0,0)` with the invariant for the genomes read. -/
theorem read_counters_inv (gs : List (Genome W)) (hok : ∀ g ∈ gs, g.nodes ≠ [] ∧ g.genes ≠ [])
    (hc : ConsistentGenes gs) (hr : ConsistentRoles gs) :
    Inv ({ records := [], nextInn := (readCounters gs (0, 0)).2, nextNode := (readCounters gs (0, 0)).1 } : Reg W) gs :=
  inv_of_counters gs _ _ hc hr (fun g hg => (readCounters_above gs (0, 0) hok g hg).2)
    (fun g hg => (readCounters_above gs (0, 0) hok g hg).1)

/-- **C03 (NewPopulationRandom counters).** For genomes within the numbering scheme of `newGenomeRand` (`RandShape`: gene
    `row→col` numbered `(col-1)·total+(row-1)`, node ids `1..total`) the counters `randomCounters` give the invariant. -/
theorem random_counters_inv (nIn nOut mH : Int) (gs : List (Genome W)) (hs : ∀ g ∈ gs, RandShape nIn nOut mH g)
    (hc : ConsistentGenes gs) (hr : ConsistentRoles gs) :
    Inv ({ records := [], nextInn := (randomCounters nIn nOut mH).2, nextNode := (randomCounters nIn nOut mH).1 } : Reg W) gs :=
  inv_of_counters gs _ _ hc hr (fun g hg => (randomCounters_above nIn nOut mH g (hs g hg)).2)
    (fun g hg => (randomCounters_above nIn nOut mH g (hs g hg)).1)

/-! ### C03, last clauses: the record is forgotten at the end of the generation; whole epochs; any number of epochs -/

/-- **C03 (records cleared).** Whatever the population, the result of `nextEpoch` has an empty record list. -/
theorem records_cleared (o : EpochOpts W) (gen : Int) (p p' : Pop W) (rs rs' : List Nat)
    (h : nextEpoch o gen p rs = .ok (p', rs')) : p'.reg.records = [] := by
  unfold nextEpoch at h
  split at h
  · cases h
  · split at h
    · cases h
    · simp only [Except.ok.injEq, Prod.mk.injEq] at h
      obtain ⟨rfl, _⟩ := h
      rw [(finalize_from _).2]

/-- **C03 (one epoch).** From a population in the C03 state for a history `H` (`PopC03`: `Inv` for its registry and `H`,
    every organism's bindings in `H`, no records) an epoch of the sequential executor leads to a population in the C03
    state for a history `H'` that extends `H` (it additionally holds every genome made during reproduction); the counters are
    kept or grow (never reset), and every binding of every new organism was already in `H` or carries a number / node id
    strictly above the counters the generation started with - hence above everything the population held before. -/
theorem epoch_inv (o : EpochOpts W) (gen : Int) (p p' : Pop W) (rs rs' : List Nat) (H : List (Genome W))
    (hp : PopC03 H p) (h : nextEpoch o gen p rs = .ok (p', rs')) :
    ∃ H', Ext H H' ∧ PopC03 H' p' ∧ AllFresh p.reg.nextInn p.reg.nextNode H p'.species ∧ CtrLe p.reg p'.reg :=
  nextEpoch_c03 o gen p p' rs rs' hp h

/-- **C03 (any number of epochs).** Induction over generations: the C03 state is kept by every finite run. -/
theorem epochs_inv (o : EpochOpts W) (n : Nat) (gen : Int) (p p' : Pop W) (rs rs' : List Nat) (H : List (Genome W))
    (hp : PopC03 H p) (h : runEpochs o n gen p rs = .ok (p', rs')) : ∃ H', Ext H H' ∧ PopC03 H' p' ∧ CtrLe p.reg p'.reg :=
  runEpochs_c03 o n gen p p' rs rs' hp h

/-- **C03 in the words of the property.** Take organisms of any two generations of one run: `a` lived when the history was
    `H`, `b` lives in a later population `p'` whose history `H'` extends `H`.  Any gene of `a` and any gene of `b` with the
    same innovation number join the same source and target node ids with the same recurrence flag, and any two of their
    nodes with the same id have the same role. -/
theorem same_number_same_link (H H' : List (Genome W)) (p' : Pop W) (hext : Ext H H') (hp : PopC03 H' p')
    (a b : Genome W) (ha : GenomeIn H a) (hb : ∃ s ∈ p'.species, ∃ org ∈ s.orgs, org.genome = b) :
    (∀ x ∈ a.genes, ∀ y ∈ b.genes, x.inn = y.inn → x.src = y.src ∧ x.dst = y.dst ∧ x.recur = y.recur) ∧
    (∀ n ∈ a.nodes, ∀ m ∈ b.nodes, n.id = m.id → n.kind = m.kind) := by
  obtain ⟨s, hs, org, horg, rfl⟩ := hb
  have ha' := ha.mono hext
  have hb' := hp.cov s hs org horg
  refine ⟨fun x hx y hy e => ?_, fun n hn m hm e => ?_⟩
  · have := hp.inv.genes _ (ha'.1 _ (List.mem_map_of_mem hx)) _ (hb'.1 _ (List.mem_map_of_mem hy)) e
    simp only [geneBind, Prod.mk.injEq] at this
    exact ⟨this.2.1, this.2.2.1, this.2.2.2⟩
  · exact hp.inv.roles _ (ha'.2 _ (List.mem_map_of_mem hn)) _ (hb'.2 _ (List.mem_map_of_mem hm)) e

/-! ### non-vacuity: concrete inputs satisfy the hypotheses and take the interesting branches -/

section Examples
open GoNeat.ExactInt

/-- 1 sensor, 1 output, 1 hidden node; two genes -/
def tiny : Genome Int :=
  { id := 1, traits := [⟨1, []⟩],
    nodes := [⟨1, Kind.input, 4, none⟩, ⟨2, Kind.output, 4, none⟩, ⟨3, Kind.hidden, 4, none⟩],
    genes := [⟨1, 1, 2, false, 0, 0, true, none⟩, ⟨2, 1, 3, false, 0, 0, true, none⟩] }
def reg0 : Reg Int := { records := [], nextInn := 2, nextNode := 3 }
def mo : MutOpts Int := ⟨0, 5, [4], [1], 0, 0, 0, 0, 0, 0, 0, 0, 0⟩

/-- a genome of 15 genes (the uniform choice of the gene to split is used from 15 genes on) -/
def big : Genome Int :=
  { id := 1, traits := [⟨1, []⟩],
    nodes := ⟨1, Kind.input, 4, none⟩ :: (List.range 15).map (fun (i : Nat) => ⟨(i : Int) + 2, Kind.output, 4, none⟩),
    genes := (List.range 15).map (fun (i : Nat) => ⟨(i : Int) + 1, 1, (i : Int) + 2, false, 0, 0, true, none⟩) }
def regB : Reg Int := { records := [], nextInn := 15, nextNode := 16 }

example : Inv reg0 [tiny] ∧ Ascending tiny ∧ ConsistentGenes [tiny] ∧ ConsistentRoles [tiny] := by decide
example : Inv regB [big] ∧ GenInv regB.nextInn regB.nextNode regB := ⟨by decide, GenInv.start _ rfl⟩

/-- add-link succeeds on `tiny` (new link 3→2 gets the fresh number 3, one record is stored) and the invariant holds after -/
example : (match mutateAddLink tiny reg0 mo [0, 2 * 2 ^ 32, 0, 0, 0, 0, 0] with
  | .ok ((g', reg', true), _) =>
    decide (Inv reg' [g', tiny]) && decide (reg'.nextInn = 3) && decide (reg'.records.length = 1) &&
    decide (g'.genes.map geneBind = [(1, 1, 2, false), (2, 1, 3, false), (3, 3, 2, false)])
  | _ => false) = true := by decide

/-- add-node succeeds on `big` (gene 4 : 1→5 is split by the fresh node 17 with the fresh numbers 16, 17); the identical
    request resolved afterwards against the new registry (the same gene of an unmutated twin) finds the record and receives
    the identical node id and numbers without touching the counters; the invariant holds for the whole pool -/
example : (match mutateAddNode big regB mo [3 * 2 ^ 32, 0, 0, 0] with
  | .ok ((g', reg', true), _) =>
    decide (Inv reg' [g', big]) && decide (reg'.nextInn = 17) && decide (reg'.nextNode = 17) &&
    (match mutateAddNode big reg' mo [3 * 2 ^ 32, 0, 0, 0] with
     | .ok ((g'', reg'', true), _) =>
       decide (Inv reg'' [g'', g', big]) && decide (g''.genes.map geneBind = g'.genes.map geneBind) &&
       decide (g''.nodes.map nodeRole = g'.nodes.map nodeRole) && decide (reg''.nextInn = 17) && decide (reg''.records.length = 1)
     | _ => false)
  | _ => false) = true := by decide

/-- the resolve steps on their own: a request, another request, then the first request again -/
example : (resolveNode (resolveLink (resolveNode regB 1 5 4).2 1 5 true (0 : Int) 0).2 1 5 4).1 = (resolveNode regB 1 5 4).1 := by decide
example : (resolveNode regB 1 5 4).1 = (17, 16, 17) ∧ (resolveLink (resolveNode regB 1 5 4).2 1 5 true (0 : Int) 0).1 = 18 := by decide

/-- a population in the C03 state (hypothesis of `epoch_inv` / `epochs_inv`): two organisms in one species -/
def pop0 : Pop Int :=
  { species := [{ id := 1, age := 1, maxFitnessEver := 0, expectedOffspring := 0, isNovel := false, ageOfLastImprovement := 0,
                  orgs := [{ uid := 0, fitness := 1, genome := tiny, expectedOffspring := 0, generation := 1, originalFitness := 0,
                             highestFitness := 0 },
                           { uid := 1, fitness := 2, genome := { tiny with id := 2 }, expectedOffspring := 0, generation := 1,
                             originalFitness := 0, highestFitness := 0 }] }],
    organisms := [0, 1], lastSpecies := 1, highestFitness := 0, epochsHighestLastChanged := 0, reg := reg0, nextUid := 2 }

example : PopC03 [tiny] pop0 := by
  refine ⟨by decide, ?_, rfl⟩
  intro s hs o ho
  simp only [pop0, List.mem_singleton] at hs; subst hs
  simp only [List.mem_cons, List.not_mem_nil, or_false] at ho
  rcases ho with rfl | rfl
  · exact GenomeIn.of_mem List.mem_cons_self
  · exact AllB.same (GenomeIn.of_mem (H := [tiny]) List.mem_cons_self) ⟨rfl, rfl⟩

/-! ### the repaired defect (fix 48b1f99): the pre-fix accessors looked at the LAST listed gene / node only -/

/-- xorstartgenes with the gene numbered 3 listed first (accepted by the plain reader and by `Genome.verify`) -/
def unsortedStart : Genome Int :=
  { id := 1, traits := [⟨1, []⟩],
    nodes := [⟨1, Kind.bias, 4, none⟩, ⟨2, Kind.input, 4, none⟩, ⟨3, Kind.input, 4, none⟩, ⟨4, Kind.output, 4, none⟩],
    genes := [⟨3, 3, 4, false, 0, 0, true, none⟩, ⟨1, 1, 4, false, 0, 0, true, none⟩, ⟨2, 2, 4, false, 0, 0, true, none⟩] }

/-- **counterexample against the pre-fix code.** For the out-of-order start genome the old `getNextGeneInnovNum` returned 3,
    so `spawn` set `nextInnovNum` to 2 although the genome holds innovation number 3: `CounterAbove` fails and the next
    number issued (3) is bound to a second link (replayed on the real code: after one epoch number 3 denoted 3→4 and 4→4).
    The repaired accessor returns 4 and the invariant holds. -/
theorem C03_counterexample :
    Legacy.nextGeneInnov unsortedStart = .ok 3 ∧
    ¬ CounterAbove ({ records := [], nextInn := 3 - 1, nextNode := 4 + 1 } : Reg Int) [unsortedStart] ∧
    unsortedStart.nextGeneInnov = .ok 4 ∧ unsortedStart.lastNodeId = .ok 4 ∧
    Inv ({ records := [], nextInn := 4 - 1, nextNode := 4 + 1 } : Reg Int) [unsortedStart] ∧
    ConsistentGenes [unsortedStart] ∧ ConsistentRoles [unsortedStart] ∧ ¬ Ascending unsortedStart :=
  ⟨rfl, by decide, rfl, rfl, by decide, by decide, by decide, by decide⟩

/-- the same for node ids: a node list with the largest id not last -/
theorem C03_counterexample_nodes :
    Legacy.lastNodeId ({ unsortedStart with nodes := unsortedStart.nodes.reverse } : Genome Int) = .ok 1 ∧
    ({ unsortedStart with nodes := unsortedStart.nodes.reverse } : Genome Int).lastNodeId = .ok 4 := ⟨rfl, rfl⟩

/-- the counter initialisations on concrete genomes (in any order) -/
example : readCounters [unsortedStart, tiny] (0, 0) = (5, 4) := by decide

example : readCounters [tiny, big] (0, 0) = (17, 16) ∧ randomCounters 3 1 2 = (7, 37) := by decide
example : RandShape 3 1 2 tiny := by decide

end Examples

end GoNeat.C03
