/-
  Property C03 - an innovation number denotes one connection for the life of a population.  Kind A: every theorem
  holds for every scalar type `W` with `[Scalar W]`, for genomes / registries / pools of every size, for every
  random stream and every option setting.

  `Inv reg gs` (Spec/Registry.lean) = ConsistentGenes ∧ ConsistentRoles ∧ RegCompat ∧ CounterAbove for the
  registry `reg` and the pool `gs` (every genome that ever lived).  Helper lemmas: Proofs/RegistryLemmas.lean.
-/
import GoNeat.Proofs.RegistryLemmas
import GoNeat.Props.C05

set_option linter.unusedSectionVars false

namespace GoNeat.C03
open GoNeat Scalar
variable {W : Type} [Scalar W]

/-- gene bindings / node roles of one genome -/
abbrev gb (g : Genome W) : List Bind := g.genes.map geneBind
abbrev gr (g : Genome W) : List Role := g.nodes.map nodeRole

/-! ### the structural mutators factor through the resolve steps -/

theorem resolveLink_of_found {reg : Reg W} {s d : Int} {r : Bool} {i : Innov W}
    (hf : reg.records.find? (linkMatch s d r) = some i) (w : W) (tn : Int) : resolveLink reg s d r w tn = (i.inn, reg) := by
  unfold resolveLink; rw [hf]
theorem resolveLink_of_none {reg : Reg W} {s d : Int} {r : Bool}
    (hf : reg.records.find? (linkMatch s d r) = none) (w : W) (tn : Int) :
    resolveLink reg s d r w tn =
      (reg.nextInn + 1, (reg.nextInnovation.2).store { typ := 2, inId := s, outId := d, inn := reg.nextInn + 1, inn2 := 0, w := w,
                                                        traitNum := tn, newNode := 0, oldInn := 0, recur := r }) := by
  unfold resolveLink; rw [hf]; rfl

/-- what an add-link / connect-sensors step does: nothing, or one gene whose number was resolved for its link -/
def LinkStep (g : Genome W) (reg : Reg W) (g' : Genome W) (reg' : Reg W) : Prop :=
  (g' = g ∧ reg' = reg) ∨
  ∃ (s d : Int) (r : Bool) (w : W) (tn k : Int) (gene : Gene W),
    resolveLink reg s d r w tn = (k, reg') ∧ geneBind gene = (k, s, d, r) ∧
    g' = { g with genes := geneInsert g.genes gene }

theorem mutateAddLink_steps (g g' : Genome W) (reg reg' : Reg W) (o : MutOpts W) (rs rs' : List Nat) (res : Bool)
    (h : mutateAddLink g reg o rs = .ok ((g', reg', res), rs')) : LinkStep g reg g' reg' := by
  unfold mutateAddLink at h
  split at h
  · cases h
  · split at h
    · cases h
    · split at h
      · cases h
      · simp only at h
        split at h
        · cases h
        · simp only [Except.ok.injEq, Prod.mk.injEq] at h
          obtain ⟨⟨rfl, rfl, _⟩, _⟩ := h
          exact .inl ⟨rfl, rfl⟩
        · simp only [Except.ok.injEq, Prod.mk.injEq] at h
          obtain ⟨⟨rfl, rfl, _⟩, _⟩ := h
          exact .inl ⟨rfl, rfl⟩
        · rename_i n1 n2 rs2 hf
          split at h
          · rename_i inn hfind
            split at h
            · cases h
            · split at h
              · simp only [Except.ok.injEq, Prod.mk.injEq] at h
                obtain ⟨⟨rfl, rfl, _⟩, _⟩ := h
                exact .inl ⟨rfl, rfl⟩
              · split at h
                · cases h
                · simp only [Except.ok.injEq, Prod.mk.injEq] at h
                  obtain ⟨⟨rfl, rfl, _⟩, _⟩ := h
                  exact .inr ⟨_, _, _, inn.w, inn.traitNum, _, _, resolveLink_of_found hfind _ _, rfl, rfl⟩
          · rename_i hfind
            split at h
            · cases h
            · split at h
              · cases h
              · split at h
                · cases h
                · split at h
                  · cases h
                  · simp only [Except.ok.injEq, Prod.mk.injEq] at h
                    obtain ⟨⟨rfl, rfl, _⟩, _⟩ := h
                    exact .inr ⟨_, _, _, _, _, _, _, resolveLink_of_none hfind _ _, rfl, rfl⟩

/-- several link steps in a row (connect-sensors adds one gene per non-sensor node) -/
inductive LinkSteps : Genome W → Reg W → Genome W → Reg W → Prop where
  | refl (g : Genome W) (reg : Reg W) : LinkSteps g reg g reg
  | step {g g1 g' : Genome W} {reg reg1 reg' : Reg W} : LinkStep g reg g1 reg1 → LinkSteps g1 reg1 g' reg' → LinkSteps g reg g' reg'

theorem connectOne_steps (sensor output : Node) (g g' : Genome W) (reg reg' : Reg W) (added added' : Bool) (rs rs' : List Nat)
    (h : connectOne sensor output g reg added rs = .ok (some (g', reg', added'), rs')) : LinkStep g reg g' reg' := by
  unfold connectOne at h
  have hpred : (fun i : Innov W => i.typ == 2 && i.inId == sensor.id && i.outId == output.id && !i.recur) =
      linkMatch sensor.id output.id false := by
    funext i; simp [linkMatch]
  rw [hpred] at h
  split at h
  · simp only [Except.ok.injEq, Prod.mk.injEq, Option.some.injEq] at h
    obtain ⟨⟨rfl, rfl, _⟩, _⟩ := h
    exact .inl ⟨rfl, rfl⟩
  · split at h
    · rename_i inn hfind
      split at h
      · cases h
      · dsimp only at h
        split at h
        · simp at h
        · simp only [Except.ok.injEq, Prod.mk.injEq, Option.some.injEq] at h
          obtain ⟨⟨rfl, rfl, _⟩, _⟩ := h
          exact .inr ⟨_, _, _, inn.w, inn.traitNum, _, _, resolveLink_of_found hfind _ _, rfl, rfl⟩
    · rename_i hfind
      split at h
      · cases h
      · split at h
        · cases h
        · simp only at h
          split at h
          · cases h
          · simp only [Except.ok.injEq, Prod.mk.injEq, Option.some.injEq] at h
            obtain ⟨⟨rfl, rfl, _⟩, _⟩ := h
            exact .inr ⟨_, _, _, _, _, _, _, resolveLink_of_none hfind _ _, rfl, rfl⟩

theorem connectLoop_steps (sensor : Node) (outs : List Node) (g g' : Genome W) (reg reg' : Reg W) (added res : Bool)
    (rs rs' : List Nat) (h : connectLoop sensor outs g reg added rs = .ok ((g', reg', res), rs')) : LinkSteps g reg g' reg' := by
  induction outs generalizing g reg added rs with
  | nil =>
    simp only [connectLoop, Except.ok.injEq, Prod.mk.injEq] at h
    obtain ⟨⟨rfl, rfl, _⟩, _⟩ := h
    exact .refl _ _
  | cons o os ih =>
    unfold connectLoop at h
    split at h
    · cases h
    · simp only [Except.ok.injEq, Prod.mk.injEq] at h
      obtain ⟨⟨rfl, rfl, _⟩, _⟩ := h
      exact .refl _ _
    · rename_i g1 reg1 added1 rs1 h1
      exact .step (connectOne_steps _ _ _ _ _ _ _ _ _ _ h1) (ih _ _ _ _ h)

theorem mutateConnectSensors_steps (g g' : Genome W) (reg reg' : Reg W) (rs rs' : List Nat) (res : Bool)
    (h : mutateConnectSensors g reg rs = .ok ((g', reg', res), rs')) : LinkSteps g reg g' reg' := by
  unfold mutateConnectSensors at h
  split at h
  · cases h
  · simp only at h
    split at h
    · simp only [Except.ok.injEq, Prod.mk.injEq] at h
      obtain ⟨⟨rfl, rfl, _⟩, _⟩ := h
      exact .refl _ _
    · split at h
      · cases h
      · split at h
        · cases h
        · exact connectLoop_steps _ _ _ _ _ _ _ _ _ _ h

/-! ### add-node -/

theorem resolveNode_of_found {reg : Reg W} {s d o : Int} {i : Innov W}
    (hf : reg.records.find? (nodeMatch s d o) = some i) : resolveNode reg s d o = ((i.newNode, i.inn, i.inn2), reg) := by
  unfold resolveNode; rw [hf]
theorem resolveNode_of_none {reg : Reg W} {s d o : Int} (hf : reg.records.find? (nodeMatch s d o) = none) :
    resolveNode reg s d o =
      ((reg.nextNode + 1, reg.nextInn + 1, reg.nextInn + 1 + 1),
       ({ reg with nextInn := reg.nextInn + 1 + 1, nextNode := reg.nextNode + 1 } : Reg W).store
          { typ := 1, inId := s, outId := d, inn := reg.nextInn + 1, inn2 := reg.nextInn + 1 + 1, w := Scalar.zero,
            traitNum := 0, newNode := reg.nextNode + 1, oldInn := o, recur := false }) := by
  unfold resolveNode; rw [hf]; rfl

/-- what an add-node step does: nothing structural (at most a gene disabled), or the split of a gene `old` of the
    genome with node id and numbers resolved for the request `(old.src, old.dst, old.inn)` -/
def NodeStep (g : Genome W) (reg : Reg W) (g' : Genome W) (reg' : Reg W) : Prop :=
  (gb g' = gb g ∧ g'.nodes = g.nodes ∧ reg' = reg) ∨
  ∃ (old : Gene W) (n k1 k2 : Int) (node : Node) (gene1 gene2 : Gene W) (g1 : Genome W),
    old ∈ g.genes ∧ resolveNode reg old.src old.dst old.inn = ((n, k1, k2), reg') ∧
    gb g1 = gb g ∧ g1.nodes = g.nodes ∧
    geneBind gene1 = (k1, old.src, n, old.recur) ∧ geneBind gene2 = (k2, n, old.dst, false) ∧ nodeRole node = (n, Kind.hidden) ∧
    g' = { g1 with genes := geneInsert (geneInsert g1.genes gene1) gene2, nodes := nodeInsert g1.nodes node }

theorem gb_setEnabledAt (g : Genome W) (k : Nat) (b : Bool) : gb ({ g with genes := setEnabledAt g.genes k b } : Genome W) = gb g :=
  C05.modify_map_skel g.genes k b

theorem mutateAddNode_steps (g g' : Genome W) (reg reg' : Reg W) (o : MutOpts W) (rs rs' : List Nat) (res : Bool)
    (h : mutateAddNode g reg o rs = .ok ((g', reg', res), rs')) : NodeStep g reg g' reg' := by
  unfold mutateAddNode at h
  split at h
  · simp only [Except.ok.injEq, Prod.mk.injEq] at h
    obtain ⟨⟨rfl, rfl, _⟩, _⟩ := h
    exact .inl ⟨rfl, rfl, rfl⟩
  · simp only at h
    split at h
    · cases h
    · simp only [Except.ok.injEq, Prod.mk.injEq] at h
      obtain ⟨⟨rfl, rfl, _⟩, _⟩ := h
      exact .inl ⟨rfl, rfl, rfl⟩
    · rename_i k rs1 hpick
      split at h
      · cases h
      · rename_i old hold
        have hmem : old ∈ g.genes := List.mem_of_getElem? hold
        have hpred : (fun i : Innov W => i.typ == 1 && i.inId == old.src && i.outId == old.dst && i.oldInn == old.inn) =
            nodeMatch old.src old.dst old.inn := rfl
        rw [hpred] at h
        split at h
        · rename_i inn hfind
          split at h
          · cases h
          · split at h
            · simp only [Except.ok.injEq, Prod.mk.injEq] at h
              obtain ⟨⟨rfl, rfl, _⟩, _⟩ := h
              exact .inl ⟨gb_setEnabledAt g k false, rfl, rfl⟩
            · simp only [Except.ok.injEq, Prod.mk.injEq] at h
              obtain ⟨⟨rfl, rfl, _⟩, _⟩ := h
              exact .inr ⟨old, _, _, _, _, _, _, _, hmem, resolveNode_of_found hfind, gb_setEnabledAt g k false, rfl, rfl, rfl, rfl, rfl⟩
        · rename_i hfind
          split at h
          · cases h
          · split at h
            · cases h
            · simp only [Except.ok.injEq, Prod.mk.injEq] at h
              obtain ⟨⟨rfl, rfl, _⟩, _⟩ := h
              exact .inr ⟨old, _, _, _, _, _, _, _, hmem, resolveNode_of_none hfind, gb_setEnabledAt g k false, rfl, rfl, rfl, rfl, rfl⟩

/-! ### the steps preserve the invariant (local form: the mutated genome in front of an arbitrary rest of the pool) -/

theorem insert_gene_congr {reg : Reg W} {g : Genome W} {gene : Gene W} {b : Bind} {B0 : List Bind} {R : List Role}
    (h : InvB reg (b :: (gb g ++ B0)) R) (hb : geneBind gene = b) :
    InvB reg (gb ({ g with genes := geneInsert g.genes gene } : Genome W) ++ B0) R := by
  refine h.congr ?_ ?_ (List.Subset.refl _)
  · intro x hx
    simp only [List.mem_append, List.mem_map, mem_geneInsert, List.mem_cons] at hx ⊢
    rcases hx with ⟨y, rfl | hy, rfl⟩ | hx
    · exact .inl hb
    · exact .inr (.inl ⟨y, hy, rfl⟩)
    · exact .inr (.inr hx)
  · intro x hx
    simp only [List.mem_append, List.mem_map, mem_geneInsert, List.mem_cons] at hx ⊢
    rcases hx with rfl | ⟨y, hy, rfl⟩ | hx
    · exact .inl ⟨gene, .inl rfl, hb⟩
    · exact .inl ⟨y, .inr hy, rfl⟩
    · exact .inr hx

theorem LinkStep.inv {g g' : Genome W} {reg reg' : Reg W} (hs : LinkStep g reg g' reg') {B0 : List Bind} {R0 : List Role}
    (h : InvB reg (gb g ++ B0) (gr g ++ R0)) : InvB reg' (gb g' ++ B0) (gr g' ++ R0) := by
  rcases hs with ⟨rfl, rfl⟩ | ⟨s, d, r, w, tn, k, gene, hres, hb, rfl⟩
  · exact h
  · exact insert_gene_congr (resolveLink_inv h s d r w tn k hres) hb

theorem LinkSteps.inv {g g' : Genome W} {reg reg' : Reg W} (hs : LinkSteps g reg g' reg') {B0 : List Bind} {R0 : List Role}
    (h : InvB reg (gb g ++ B0) (gr g ++ R0)) : InvB reg' (gb g' ++ B0) (gr g' ++ R0) := by
  induction hs with
  | refl => exact h
  | step h1 _ ih => exact ih (h1.inv h)

theorem NodeStep.inv {g g' : Genome W} {reg reg' : Reg W} (hs : NodeStep g reg g' reg') {B0 : List Bind} {R0 : List Role}
    (h : InvB reg (gb g ++ B0) (gr g ++ R0)) : InvB reg' (gb g' ++ B0) (gr g' ++ R0) := by
  rcases hs with ⟨e1, e2, rfl⟩ | ⟨old, n, k1, k2, node, gene1, gene2, g1, hmem, hres, e1, e2, hb1, hb2, hn, rfl⟩
  · unfold gr; rw [e1, e2]; exact h
  · have hold : (old.inn, old.src, old.dst, old.recur) ∈ gb g ++ B0 :=
      List.mem_append_left _ (List.mem_map.mpr ⟨old, hmem, rfl⟩)
    have h' := resolveNode_inv h old.src old.dst old.inn old.recur hold n k1 k2 hres
    refine h'.congr ?_ ?_ ?_
    · intro x hx
      simp only [gb, List.mem_append, List.mem_map, mem_geneInsert, List.mem_cons] at hx ⊢
      rcases hx with ⟨y, rfl | rfl | hy, rfl⟩ | hx
      · exact .inr (.inl hb2)
      · exact .inl hb1
      · have : geneBind y ∈ gb g1 := List.mem_map.mpr ⟨y, hy, rfl⟩
        rw [e1] at this
        obtain ⟨z, hz, ez⟩ := List.mem_map.mp this
        exact .inr (.inr (.inl ⟨z, hz, ez⟩))
      · exact .inr (.inr (.inr hx))
    · intro x hx
      simp only [gb, List.mem_append, List.mem_map, mem_geneInsert, List.mem_cons] at hx ⊢
      rcases hx with rfl | rfl | ⟨y, hy, rfl⟩ | hx
      · exact .inl ⟨gene1, .inr (.inl rfl), hb1⟩
      · exact .inl ⟨gene2, .inl rfl, hb2⟩
      · have : geneBind y ∈ gb g := List.mem_map.mpr ⟨y, hy, rfl⟩
        rw [← e1] at this
        obtain ⟨z, hz, ez⟩ := List.mem_map.mp this
        exact .inl ⟨z, .inr (.inr hz), ez⟩
      · exact .inr hx
    · intro x hx
      simp only [gr, List.mem_append, List.mem_map, mem_nodeInsert, List.mem_cons] at hx ⊢
      rcases hx with ⟨y, rfl | hy, rfl⟩ | hx
      · exact .inl hn
      · rw [e2] at hy; exact .inr (.inl ⟨y, hy, rfl⟩)
      · exact .inr (.inr hx)

/-- from the pool form of the invariant to the local form and back -/
theorem Inv.local {reg : Reg W} {gs : List (Genome W)} (h : Inv reg gs) {g : Genome W} (hg : g ∈ gs) :
    InvB reg (gb g ++ binds gs) (gr g ++ roles gs) :=
  InvB.add_known h (fun _ hb => by obtain ⟨x, hx, rfl⟩ := List.mem_map.mp hb; exact mem_binds_of_mem hg hx)
    (fun _ hr => by obtain ⟨x, hx, rfl⟩ := List.mem_map.mp hr; exact mem_roles_of_mem hg hx)

theorem Inv.of_local {reg : Reg W} {gs : List (Genome W)} {g' : Genome W}
    (h : InvB reg (gb g' ++ binds gs) (gr g' ++ roles gs)) : Inv reg (g' :: gs) := by
  unfold Inv; rw [binds_cons, roles_cons]; exact h

/-! ### C03, first clause: the structural mutators preserve the invariant -/

/-- **C03 (add-link).** If the invariant holds for the registry and the whole pool (which contains `g`), it holds for
    the new registry and the pool with the mutated genome added - whatever the mutator returns (success or not): the
    new gene binds a fresh number (taken from the counter, hence above everything held) or the number of a record
    whose link equals the requested one. -/
theorem addLink_consistent (g g' : Genome W) (reg reg' : Reg W) (o : MutOpts W) (rs rs' : List Nat) (res : Bool)
    (gs : List (Genome W)) (hinv : Inv reg gs) (hg : g ∈ gs)
    (h : mutateAddLink g reg o rs = .ok ((g', reg', res), rs')) : Inv reg' (g' :: gs) :=
  Inv.of_local ((mutateAddLink_steps g g' reg reg' o rs rs' res h).inv (hinv.local hg))

/-- **C03 (connect-sensors).** Same for the mutator that links a disconnected sensor to every non-sensor node (one
    resolve step per new gene). -/
theorem connectSensors_consistent (g g' : Genome W) (reg reg' : Reg W) (rs rs' : List Nat) (res : Bool)
    (gs : List (Genome W)) (hinv : Inv reg gs) (hg : g ∈ gs)
    (h : mutateConnectSensors g reg rs = .ok ((g', reg', res), rs')) : Inv reg' (g' :: gs) :=
  Inv.of_local ((mutateConnectSensors_steps g g' reg reg' rs rs' res h).inv (hinv.local hg))

/-- **C03 (add-node).** Same for the split of a gene: the new node id and the two new numbers are fresh or those of
    the record of the same split `(in, out, old number)`; this includes the exits on which the mutator reports
    `false` after having disabled the chosen gene. -/
theorem addNode_consistent (g g' : Genome W) (reg reg' : Reg W) (o : MutOpts W) (rs rs' : List Nat) (res : Bool)
    (gs : List (Genome W)) (hinv : Inv reg gs) (hg : g ∈ gs)
    (h : mutateAddNode g reg o rs = .ok ((g', reg', res), rs')) : Inv reg' (g' :: gs) :=
  Inv.of_local ((mutateAddNode_steps g g' reg reg' o rs rs' res h).inv (hinv.local hg))

end GoNeat.C03
