/-
  Property C03 - an innovation number denotes one connection for the life of a population.  Kind A: every theorem
  holds for every scalar type `W` with `[Scalar W]`, for genomes / registries / pools of every size, for every
  random stream and every option setting.

  `Inv reg gs` (Spec/Registry.lean) = ConsistentGenes ∧ ConsistentRoles ∧ RegCompat ∧ CounterAbove for the
  registry `reg` and the pool `gs` (every genome that ever lived).  Helper lemmas: Proofs/RegistryLemmas.lean
  (the invariant over bindings, resolve steps), Proofs/RegistrySteps.lean (mutators factor through the resolve steps),
  Proofs/CopyBinds.lean (duplicate / crossovers), Proofs/EpochRegistry.lean (population level).
-/
import GoNeat.Proofs.RegistrySteps

set_option linter.unusedSectionVars false

namespace GoNeat.C03
open GoNeat Scalar
variable {W : Type} [Scalar W]

/-! ### C03, first clause: the structural mutators preserve the invariant -/

/-- **C03 (add-link).** If the invariant holds for the registry and the whole pool (which contains `g`), it holds for
    the new registry and the pool with the mutated genome added - whatever the mutator returns (success or not): the
    new gene binds a fresh number (taken from the counter, hence above everything held) or the number of a record
    whose link equals the requested one. -/
theorem addLink_consistent (g g' : Genome W) (reg reg' : Reg W) (o : MutOpts W) (rs rs' : List Nat) (res : Bool)
    (gs : List (Genome W)) (hinv : Inv reg gs) (hg : g ∈ gs)
    (h : mutateAddLink g reg o rs = .ok ((g', reg', res), rs')) : Inv reg' (g' :: gs) :=
  Inv.of_local ((mutateAddLink_steps g g' reg reg' o rs rs' res h).inv (hinv.local hg))

/-- **C03 (connect-sensors).** Same for the mutator that links a disconnected sensor to every non-sensor node (one
    resolve step per new gene). -/
theorem connectSensors_consistent (g g' : Genome W) (reg reg' : Reg W) (rs rs' : List Nat) (res : Bool)
    (gs : List (Genome W)) (hinv : Inv reg gs) (hg : g ∈ gs)
    (h : mutateConnectSensors g reg rs = .ok ((g', reg', res), rs')) : Inv reg' (g' :: gs) :=
  Inv.of_local ((mutateConnectSensors_steps g g' reg reg' rs rs' res h).inv (hinv.local hg))

/-- **C03 (add-node).** Same for the split of a gene: the new node id and the two new numbers are fresh or those of
    the record of the same split `(in, out, old number)`; this includes the exits on which the mutator reports
    `false` after having disabled the chosen gene. -/
theorem addNode_consistent (g g' : Genome W) (reg reg' : Reg W) (o : MutOpts W) (rs rs' : List Nat) (res : Bool)
    (gs : List (Genome W)) (hinv : Inv reg gs) (hg : g ∈ gs)
    (h : mutateAddNode g reg o rs = .ok ((g', reg', res), rs')) : Inv reg' (g' :: gs) :=
  Inv.of_local ((mutateAddNode_steps g g' reg reg' o rs rs' res h).inv (hinv.local hg))

/-! ### C03, second clause: what is issued is fresh; counters are monotone -/

/-- **C03 (issued numbers are fresh; counters are monotone).** Within a generation whose counters started at
    `(bi, bn)` (`GenInv`: holds at the start of every generation for the current counters, see `GenInv.start`), each
    structural mutation leaves the counters monotone, keeps all records, and every gene / node it adds carries a number /
    id strictly above `(bi, bn)` - hence, by `CounterAbove` at the start of the generation, larger than any number or
    node id the population held before (`issued_above_pool`). -/
theorem issued_fresh (bi bn : Int) (g g' : Genome W) (reg reg' : Reg W) (o : MutOpts W) (rs rs' : List Nat) (res : Bool)
    (hg : GenInv bi bn reg) :
    (mutateAddLink g reg o rs = .ok ((g', reg', res), rs') → Issued bi bn g reg g' reg') ∧
    (mutateAddNode g reg o rs = .ok ((g', reg', res), rs') → Issued bi bn g reg g' reg') ∧
    (mutateConnectSensors g reg rs = .ok ((g', reg', res), rs') → Issued bi bn g reg g' reg') :=
  ⟨fun h => (mutateAddLink_steps _ _ _ _ _ _ _ _ h).issued hg, fun h => (mutateAddNode_steps _ _ _ _ _ _ _ _ h).issued hg,
   fun h => (mutateConnectSensors_steps _ _ _ _ _ _ _ h).issued hg⟩

/-- with the counters of the generation start above the whole pool, whatever a mutation adds is above the whole pool -/
theorem issued_above_pool {bi bn : Int} {g g' : Genome W} (h : IssuedAbove bi bn g g') (B : List Bind) (R : List Role)
    (hB : ∀ b ∈ B, b.1 ≤ bi) (hR : ∀ p ∈ R, p.1 ≤ bn) :
    (∀ x ∈ g'.genes, geneBind x ∉ gb g → ∀ b ∈ B, b.1 < x.inn) ∧ (∀ n ∈ g'.nodes, nodeRole n ∉ gr g → ∀ p ∈ R, p.1 < n.id) := by
  refine ⟨fun x hx hnot b hb => ?_, fun n hn hnot p hp => ?_⟩
  · rcases h.1 x hx with h1 | h1
    · exact absurd h1 hnot
    · have := hB b hb; omega
  · rcases h.2 n hn with h1 | h1
    · exact absurd h1 hnot
    · have := hR p hp; omega

/-! ### C03, third clause: identical requests in one generation receive identical numbers -/

/-- **C03 (same request, same numbers).** Sequential executor, one generation (records are only appended, `RegExtends`):
    a new-link request `(s,d,r)` resolved after an identical request - with any number of other structural mutations in
    between - receives the identical innovation number and changes nothing in the registry; a split request
    `(s, d, old number)` (the same split of the same gene) receives the identical node id and both identical numbers. -/
theorem same_request_same_numbers (reg reg1 reg2 reg3 : Reg W) (s d : Int) (hext : RegExtends reg1 reg2) :
    (∀ (r : Bool) (w w' : W) (tn tn' k k' : Int),
        resolveLink reg s d r w tn = (k, reg1) → resolveLink reg2 s d r w' tn' = (k', reg3) → k' = k ∧ reg3 = reg2) ∧
    (∀ (o n k1 k2 n' k1' k2' : Int),
        resolveNode reg s d o = ((n, k1, k2), reg1) → resolveNode reg2 s d o = ((n', k1', k2'), reg3) →
        n' = n ∧ k1' = k1 ∧ k2' = k2 ∧ reg3 = reg2) := by
  constructor
  · intro r w w' tn tn' k k' h1 h2
    obtain ⟨i, hf, rfl⟩ := resolveLink_finds s d r w tn k h1
    rw [resolveLink_of_found (find?_extends hext _ i hf)] at h2
    obtain ⟨rfl, rfl⟩ := Prod.mk.inj h2
    exact ⟨rfl, rfl⟩
  · intro o n k1 k2 n' k1' k2' h1 h2
    obtain ⟨i, hf, rfl, rfl, rfl⟩ := resolveNode_finds s d o n k1 k2 h1
    rw [resolveNode_of_found (find?_extends hext _ i hf)] at h2
    obtain ⟨hnums, rfl⟩ := Prod.mk.inj h2
    obtain ⟨rfl, hk⟩ := Prod.mk.inj hnums
    obtain ⟨rfl, rfl⟩ := Prod.mk.inj hk
    exact ⟨rfl, rfl, rfl, rfl⟩

/-! ### C03: copy operators introduce no new binding, hence preserve the invariant -/

/-- **C03 (duplicate and the parametric mutators preserve the invariant).** -/
theorem copy_consistent (reg : Reg W) (gs : List (Genome W)) (hinv : Inv reg gs) (g g' : Genome W) (hg : g ∈ gs)
    (o : MutOpts W) (id : Int) (rs rs' : List Nat) :
    (g.duplicate id = .ok g' → Inv reg (g' :: gs)) ∧
    (mutateAllNonstructural g o rs = .ok (g', rs') → Inv reg (g' :: gs)) ∧
    (∀ power rate mt, mutateLinkWeights g power rate mt rs = .ok (g', rs') → Inv reg (g' :: gs)) :=
  ⟨fun h => hinv.add_same hg (by obtain ⟨a, b⟩ := duplicate_binds g g' id h; exact ⟨a, b⟩),
   fun h => hinv.add_same hg (mutateAllNonstructural_sameBinds g g' o rs rs' h),
   fun power rate mt h => hinv.add_same hg ((parametric_sameBinds g g' o power rate mt 0 rs rs').1 h)⟩

/-- **C03 (crossover).** A child of any of the three crossovers of two pool members carries only bindings of its
    parents - the averaging operators pick each endpoint and the flag of a matched gene from either parent, which are
    equal because the pool is consistent - hence the invariant is preserved.  No well-formedness hypothesis. -/
theorem mate_consistent (reg : Reg W) (gs : List (Genome W)) (hinv : Inv reg gs) (p1 p2 c : Genome W) (h1 : p1 ∈ gs) (h2 : p2 ∈ gs)
    (id : Int) (f1 f2 : W) (rs rs' : List Nat) :
    (mateMultipoint p1 p2 id f1 f2 rs = .ok (c, rs') → Inv reg (c :: gs)) ∧
    (mateMultipointAvg p1 p2 id f1 f2 rs = .ok (c, rs') → Inv reg (c :: gs)) ∧
    (mateSinglePoint p1 p2 id rs = .ok (c, rs') → Inv reg (c :: gs)) := by
  have hp1 : ∀ b ∈ p1.genes.map geneBind, b ∈ binds gs := fun b hb => by
    obtain ⟨x, hx, rfl⟩ := List.mem_map.mp hb; exact mem_binds_of_mem h1 hx
  have hq1 : ∀ r ∈ p1.nodes.map nodeRole, r ∈ roles gs := fun r hr => by
    obtain ⟨x, hx, rfl⟩ := List.mem_map.mp hr; exact mem_roles_of_mem h1 hx
  have hp2 : ∀ b ∈ p2.genes.map geneBind, b ∈ binds gs := fun b hb => by
    obtain ⟨x, hx, rfl⟩ := List.mem_map.mp hb; exact mem_binds_of_mem h2 hx
  have hq2 : ∀ r ∈ p2.nodes.map nodeRole, r ∈ roles gs := fun r hr => by
    obtain ⟨x, hx, rfl⟩ := List.mem_map.mp hr; exact mem_roles_of_mem h2 hx
  obtain ⟨m1, m2, m3⟩ := mate_from hinv.genes p1 p2 id f1 f2 rs rs' c hp1 hq1 hp2 hq2
  exact ⟨fun h => hinv.add_copy c (m1 h).1 (m1 h).2, fun h => hinv.add_copy c (m2 h).1 (m2 h).2,
         fun h => hinv.add_copy c (m3 h).1 (m3 h).2⟩

end GoNeat.C03
