/-
  C12 - all solvers compute the feed-forward function.

  `evalNode` (Spec/Solver.lean) is the feed-forward function: a sensor has its loaded value, a neuron has
  activation(Σ weight·source) with the sum taken in `Incoming` order from 0 - the value obtained by evaluating each
  neuron once in topological order.  Hypotheses (`FFNet net lvl`, decidable): no control nodes, every node is a
  sensor or a neuron, every neuron has an incoming link, no time-delayed links, and `lvl` ranks every link's source
  strictly below its target (acyclic).  With the tight ranking (`Tight`: sensors 0, neurons 1 + max of sources)
  `lvl o` is the length of the longest sensor-to-`o` path.

  Kind A (every scalar type, every activation table, exact, same summation order): `std_forward` (standard solver
  against `evalNode`); `fast_recursive_fval` (fast recursive activation against `fvalNode`, the feed-forward function of
  the fast representation); `fast_forward_partial` (one forward step, cell by cell).
  Kind B (exact arithmetic, `[CommSemiring K] [ExactArith K]`): `translation_partial` (the translation of one neuron:
  connections + folded bias = Σ incoming weight·source).
  Helper lemmas: Proofs/SolverFF.lean, Proofs/FastFF.lean, Proofs/SolverExact.lean.

  UPDATE: both full statements below are now proved in Props/C12Fast.lean (`fast_forward`, `fast_relax*`,
  `fval_eq_eval`, `all_solvers_eval`); the `_partial` lemmas of this file are their building blocks.
  What the `_partial` lemmas alone leave open (hence their names):
  * `fast_forward : k ≥ depth → outputs after LoadSensors; ForwardSteps k = fvalNode` and the same for `Relax` run for
    ≥ depth steps: the induction over rank layers on top of `fast_forward_partial` (as `Solver.sweeps_step` /
    `fwdLoop_ff` do for the standard solver), plus the bridge `adjacentMatrix[s][t] = weight of the connection s→t`
    (needs "no node pair is joined twice") to identify `tFold` over the connections into `t` with `adjSum` over
    `reverseAdjacentList[t]`.
  * `fval_eq_eval` (Kind B): for `ofNet net = ok fn` and `idx` = `neuronLookup`, `fvalNode fn σ sig f (idx i) =
    evalNode net σ sens f i`: the global bookkeeping of `FastNetworkSolver()` (ids distinct ⇒ `neuronLookup` injective;
    the connections into `idx i` are exactly those emitted for node `i`, in `Incoming` order, across the three
    `processIncomingConnections` passes), then `translation_partial` per neuron by induction on rank.
  Both gaps are covered on the implementation by the correspondence (bit-exact model of all four paths and of the
  translation) and by the executable specification (each path's outputs against `evalNode`).
-/
import GoNeat.Proofs.SolverFF
import GoNeat.Proofs.FastFF
import GoNeat.Proofs.SolverExact
import GoNeat.Proofs.ScalarInt
import GoNeat.Model.LegacySolver

namespace GoNeat.C12
open GoNeat.Solver GoNeat.SolverSpec

variable {W : Type} [Scalar W]

/-- on a feed-forward network every neuron has rank ≥ 1 -/
theorem lvl_pos (net : Net W) (lvl : Nat → Nat) (hff : FFProps net lvl) (i : Nat) (nd : NNodeS W)
    (hi : net.nodes[i]? = some nd) (hs : nd.isSensor = false) : 1 ≤ lvl i := by
  obtain ⟨_, hne, hl⟩ := ffNode_neuron net lvl i nd (hff.node i nd hi) hs
  obtain ⟨l, hl'⟩ := List.exists_mem_of_ne_nil _ hne
  have := (hl l hl').2.2
  omega

/-- **Standard solver.**  From any state in which the sensors are loaded (no flush needed), `ForwardSteps(k)` with
    `k ≥ 1` and `k ≥` the rank of every output succeeds, and every output holds exactly the feed-forward value of the
    loaded sensor values (`sens i` = activation of sensor `i`), for every fuel that covers the output's rank. -/
theorem std_forward (net : Net W) (σ : Nat → W → Option W) (lvl : Nat → Nat) (hff : FFNet net lvl = true)
    (hσ : ∀ (i : Nat) (nd : NNodeS W), net.nodes[i]? = some nd → nd.isNeuron = true → ∀ x, (σ nd.act x).isSome = true)
    (s0 : St W) (hlen : s0.length = net.nodes.length)
    (hloaded : ∀ (i : Nat) (nd : NNodeS W), net.nodes[i]? = some nd → nd.isSensor = true → (get s0 i).count > 0)
    (k : Nat) (hk1 : 1 ≤ k) (hk : ∀ o ∈ net.outputs, lvl o ≤ k) :
    (forwardSteps net σ (k : Int) s0).2 = (true, none) ∧
      ∀ o ∈ net.outputs, ∀ f, lvl o + 1 ≤ f →
        evalNode net σ (fun i => (get s0 i).activation) f o =
          some (get (forwardSteps net σ (k : Int) s0).1 o).activation := by
  have hp := FFNet_props net lvl hff
  have hP0 : P net σ (fun i => (get s0 i).activation) lvl 0 s0 :=
    ⟨hlen, fun i nd hi hs => ⟨hloaded i nd hi hs, rfl⟩, fun i nd hi hs hl => by
      have := lvl_pos net lvl hp i nd hi hs
      omega⟩
  unfold forwardSteps
  have hk0 : ((k : Int) == 0) = false := by
    simp only [beq_eq_false_iff_ne, ne_eq]
    omega
  simp only [hk0, Bool.false_eq_true, if_false, Int.toNat_natCast]
  obtain ⟨h1, h2⟩ := fwdLoop_ff net σ _ lvl hp hσ k hk hk1 k false 0 s0 hP0 hk1
  refine ⟨h1, fun o ho f hf => ?_⟩
  have hlt := hp.outs o ho
  have hn : net.nodes[o]? = some net.nodes[o] := List.getElem?_eq_getElem hlt
  by_cases hs : (net.nodes[o]).isSensor = true
  · have hf1 : f = (f - 1) + 1 := by omega
    rw [hf1]
    unfold evalNode
    simp only [hn, hs, if_true]
    rw [(h2.sensor o _ hn hs).2]
  · have := (h2.neuron o _ hn (by simpa using hs) (by have := hk o ho; omega)).2.2
    exact evalNode_mono_le net σ _ _ f hf o _ this

/-- **Standard solver, as the property words it**: a freshly built (or flushed) network whose `inputs` list holds all
    its sensors; `LoadSensors(xs)` succeeds (either branch; in the second branch bias nodes are loaded with 1.0 by
    `loadNe`); then `ForwardSteps(k)`, `k ≥ 1`, `k ≥` rank of every output, succeeds and every output equals the
    feed-forward value of the loaded sensor values. -/
theorem std_forward_fresh (net : Net W) (σ : Nat → W → Option W) (lvl : Nat → Nat) (hff : FFNet net lvl = true)
    (hσ : ∀ (i : Nat) (nd : NNodeS W), net.nodes[i]? = some nd → nd.isNeuron = true → ∀ x, (σ nd.act x).isSome = true)
    (hin : ∀ (i : Nat) (nd : NNodeS W), net.nodes[i]? = some nd → nd.isSensor = true → i ∈ net.inputs)
    (xs : List W) (hload : (loadSensors net xs (init net)).2 = none)
    (k : Nat) (hk1 : 1 ≤ k) (hk : ∀ o ∈ net.outputs, lvl o ≤ k) :
    (forwardSteps net σ (k : Int) (loadSensors net xs (init net)).1).2 = (true, none) ∧
      ∀ o ∈ net.outputs, ∀ f, lvl o + 1 ≤ f →
        evalNode net σ (fun i => (get (loadSensors net xs (init net)).1 i).activation) f o =
          some (get (forwardSteps net σ (k : Int) (loadSensors net xs (init net)).1).1 o).activation := by
  obtain ⟨hl, hc⟩ := loadSensors_loaded net xs (init net) hload
  have hlen : (loadSensors net xs (init net)).1.length = net.nodes.length := by rw [hl]; simp [init]
  refine std_forward net σ lvl hff hσ _ hlen (fun i nd hi hs => ?_) k hk1 hk
  have hlt : i < net.nodes.length := by
    rcases Nat.lt_or_ge i net.nodes.length with h | h
    · exact h
    · rw [List.getElem?_eq_none h] at hi; simp at hi
  exact hc i (hin i nd hi hs) (by simp [isSensorAt, hi, hs]) (by simpa [init] using hlt)

/-- the same, read through `ReadOutputs` -/
theorem std_forward_outputs (net : Net W) (σ : Nat → W → Option W) (lvl : Nat → Nat) (hff : FFNet net lvl = true)
    (hσ : ∀ (i : Nat) (nd : NNodeS W), net.nodes[i]? = some nd → nd.isNeuron = true → ∀ x, (σ nd.act x).isSome = true)
    (s0 : St W) (hlen : s0.length = net.nodes.length)
    (hloaded : ∀ (i : Nat) (nd : NNodeS W), net.nodes[i]? = some nd → nd.isSensor = true → (get s0 i).count > 0)
    (k : Nat) (hk1 : 1 ≤ k) (hk : ∀ o ∈ net.outputs, lvl o ≤ k) (f : Nat) (hf : ∀ o ∈ net.outputs, lvl o + 1 ≤ f) :
    net.outputs.map (evalNode net σ (fun i => (get s0 i).activation) f) =
      (readOutputs net (forwardSteps net σ (k : Int) s0).1).map some := by
  have := (std_forward net σ lvl hff hσ s0 hlen hloaded k hk1 hk).2
  unfold readOutputs
  rw [List.map_map]
  apply List.map_congr_left
  intro o ho
  exact this o ho f (hf o ho)


/-! ## fast solver -/
section FastSolver
open GoNeat.Fast

/-- **Fast recursive activation (Kind A, exact).**  On an acyclic fast network (`FFFast`: every connection goes up
    in rank) with total activations, from any state with arrays of the right length, `RecursiveSteps` succeeds and
    every output neuron holds `fvalNode` - activation(Σ over `reverseAdjacentList` of signal·`adjacentMatrix`, then the
    bias) of the current sensor signals, each neuron evaluated once. -/
theorem fast_recursive_fval (fn : FastNet W) (σ : Nat → W → Option W) (lvl : Nat → Nat) (hff : FFFast fn lvl)
    (hσ : ∀ i, fn.nSensor ≤ i → i < fn.nTotal → ∀ x, (σ (fn.acts.getD i 0) x).isSome = true)
    (s : FState W) (hS : s.signals.length = fn.nTotal) (hP : s.processing.length = fn.nTotal) (hout : 0 < fn.nOutput) :
    (Fast.recursiveSteps fn σ s).2 = (true, none) ∧
      ∀ k, k < fn.nOutput →
        fvalNode fn σ (getW s.signals) (lvl (fn.nSensor + k) + 1) (fn.nSensor + k) =
          some (getW (Fast.recursiveSteps fn σ s).1.signals (fn.nSensor + k)) :=
  recursiveSteps_ff fn σ lvl hff hσ s hS hP hout

/-- **One forward step (Kind A, exact)**: every neuron becomes activation(Σ_{connections into it} signal·weight + bias)
    of the signals before the step; sensors keep their signals; the processing cells are clean again.
    (Partial with respect to `fast_forward`, see the header.) -/
theorem fast_forward_partial (fn : FastNet W) (σ : Nat → W → Option W) (delta : W) (s : FState W)
    (hS : s.signals.length = fn.nTotal) (hP : s.processing.length = fn.nTotal)
    (hσ : ∀ i, fn.nSensor ≤ i → i < fn.nTotal → ∀ x, (σ (fn.acts.getD i 0) x).isSome = true)
    (hzero : ∀ i, fn.nSensor ≤ i → i < fn.nTotal → getW s.processing i = Scalar.zero) :
    (forwardStep fn σ delta s).2.2 = none ∧
      (∀ j, j < fn.nSensor → getW (forwardStep fn σ delta s).1.signals j = getW s.signals j) ∧
      (∀ i, fn.nSensor ≤ i → i < fn.nTotal →
        σ (fn.acts.getD i 0) (biased fn i (tFold (getW s.signals) (fn.conns.filter fun c => c.dst == i) Scalar.zero)) =
          some (getW (forwardStep fn σ delta s).1.signals i) ∧
        getW (forwardStep fn σ delta s).1.processing i = Scalar.zero) :=
  forwardStep_cell fn σ delta s hS hP hσ hzero

end FastSolver

/-- **Translation of one neuron (Kind B: exact arithmetic).**  `processIncomingConnections` for a neuron with fast
    index `t` and incoming links `ls`: the new connections all target `t`, only `biases[t]` changes, and
    Σ_{new connections} signal·weight + biases'[t] = biases[t] + Σ_{l ∈ ls} l.weight·value(l.source), when signals and
    values agree through `neuronLookup` and bias sources have value 1.  (Partial w.r.t. `fval_eq_eval`, see header.) -/
theorem translation_partial {K : Type} [Scalar K] [CommSemiring K] [ExactArith K]
    (net : Net K) (lk : List (Int × Nat)) (t : Nat) (vals sig : Nat → K)
    (ls : List (NLink K)) (b : List K) (c : List (Fast.FLink K)) (b' : List K) (c' : List (Fast.FLink K))
    (ht : t < b.length)
    (hrun : Fast.procIncoming.links net lk t ls b c = .ok (b', c'))
    (hval : ∀ l ∈ ls, ∀ sn, net.nodes[l.src]? = some sn → (sn.kind == Kind.bias) = true → vals l.src = 1)
    (hsig : ∀ l ∈ ls, ∀ sn sIdx, net.nodes[l.src]? = some sn → Fast.lookupId lk sn.id = some sIdx →
      (sn.kind == Kind.bias) = false → sig sIdx = vals l.src) :
    ∃ new, c' = c ++ new ∧ (∀ n ∈ new, n.dst = t) ∧ b'.length = b.length ∧
      (∀ j, j ≠ t → Fast.getW b' j = Fast.getW b j) ∧
      Fast.tFold sig new 0 + Fast.getW b' t = Fast.getW b t + Fast.linkSum vals ls 0 :=
  Fast.translation_node net lk t vals sig ls b c b' c' ht hrun hval hsig

/-! ## non-vacuity and the negative side, over the exact `Int` scalar -/
section Examples
open GoNeat.ExactInt

/-- nodes: 0 bias, 1 input, 2 hidden, 3 output; links bias→hidden (3), input→hidden (2), hidden→output (1),
    input→output (5, skip connection), bias→output (7); linear activations -/
def ffNet : Net Int :=
  { id := 1
    nodes := [ { id := 1, kind := Kind.bias, act := 17, incoming := [], outgoing := [] },
               { id := 2, kind := Kind.input, act := 17, incoming := [], outgoing := [] },
               { id := 3, kind := Kind.hidden, act := 14,
                 incoming := [ { src := 0, dst := 2, w := 3, recur := false }, { src := 1, dst := 2, w := 2, recur := false } ],
                 outgoing := [] },
               { id := 4, kind := Kind.output, act := 14,
                 incoming := [ { src := 2, dst := 3, w := 1, recur := false }, { src := 1, dst := 3, w := 5, recur := false },
                               { src := 0, dst := 3, w := 7, recur := false } ], outgoing := [] } ]
    inputs := [0, 1], outputs := [3] }

def ffLvl : Nat → Nat := fun i => if i == 2 then 1 else if i == 3 then 2 else 0

example : FFNet ffNet ffLvl = true := by decide
example : Tight ffNet ffLvl = true := by decide
/-- the hypotheses of `std_forward` hold on a concrete run: load [10] (bias defaults to 1), 2 = depth steps -/
example : ((loadSensors ffNet [10] (init ffNet)).1.map (·.count)) = [1, 1, 0, 0] := by decide
example : (forwardSteps ffNet sigmaInt 2 (loadSensors ffNet [10] (init ffNet)).1).2 = (true, none) := by decide
/-- hidden = 3·1 + 2·10 = 23, output = 23 + 5·10 + 7·1 = 80 -/
example : readOutputs ffNet (forwardSteps ffNet sigmaInt 2 (loadSensors ffNet [10] (init ffNet)).1).1 = [80] := by decide
example : evalOutputs ffNet sigmaInt (sensFn ffNet [10]) = [some 80] := by decide
/-- the bias node was loaded with 1 by the second branch of `LoadSensors` -/
example : ((loadSensors ffNet [10] (init ffNet)).1.map (·.activation)) = [1, 10, 0, 0] := by decide

/-- negative side (why "every neuron is reachable from a sensor"): input 0, dead-end hidden 1 (no incoming link),
    output 2 = hidden·1 + input·1 -/
def deadNet : Net Int :=
  { id := 2
    nodes := [ { id := 1, kind := Kind.input, act := 17, incoming := [], outgoing := [] },
               { id := 2, kind := Kind.hidden, act := 14, incoming := [], outgoing := [] },
               { id := 3, kind := Kind.output, act := 14,
                 incoming := [ { src := 1, dst := 2, w := 1, recur := false }, { src := 0, dst := 2, w := 1, recur := false } ],
                 outgoing := [] } ]
    inputs := [0], outputs := [2] }

/-- the hypothesis fails (the hidden neuron has no incoming link) -/
example : FFNet deadNet (fun i => if i == 2 then 1 else 0) = false := by decide

/-- activation table with `σ(0) ≠ 0`: code 1 ↦ x + 1 -/
def sigmaShift (a : Nat) (x : Int) : Option Int := if a == 1 then some (x + 1) else sigmaInt a x

def deadNet1 : Net Int :=
  { deadNet with nodes := [ { id := 1, kind := Kind.input, act := 17, incoming := [], outgoing := [] },
                            { id := 2, kind := Kind.hidden, act := 1, incoming := [], outgoing := [] },
                            { id := 3, kind := Kind.output, act := 14,
                              incoming := [ { src := 1, dst := 2, w := 1, recur := false },
                                            { src := 0, dst := 2, w := 1, recur := false } ], outgoing := [] } ] }

/-- dead-end hidden neuron: evaluating each neuron once gives 0+1 = 1 at the hidden node and 5 at the output; the
    standard solver never activates the hidden node and returns 4 -/
theorem dead_end_breaks_equality :
    evalOutputs deadNet1 sigmaShift (sensFn deadNet1 [4]) = [some 5] ∧
      readOutputs deadNet1 (forwardSteps deadNet1 sigmaShift 2 (loadSensors deadNet1 [4] (init deadNet1)).1).1 = [4] := by
  decide

/-! ### the unrepaired recursive activation (no bias) -/

/-- 1 bias, 1 input, 1 output (linear): output = 2·x + 3·bias -/
def biasNet : Net Int :=
  { id := 3
    nodes := [ { id := 1, kind := Kind.bias, act := 17, incoming := [], outgoing := [] },
               { id := 2, kind := Kind.input, act := 17, incoming := [], outgoing := [] },
               { id := 3, kind := Kind.output, act := 14,
                 incoming := [ { src := 1, dst := 2, w := 2, recur := false }, { src := 0, dst := 2, w := 3, recur := false } ],
                 outgoing := [] } ]
    inputs := [0, 1], outputs := [2] }

def biasFast : Fast.FastNet Int :=
  { nBias := 1, nInput := 1, nOutput := 1, nTotal := 3, acts := [17, 17, 14], biasList := [0, 0, 3],
    conns := [ { src := 1, dst := 2, w := 2 } ] }

def sameFast (a b : Fast.FastNet Int) : Bool :=
  a.nBias == b.nBias && a.nInput == b.nInput && a.nOutput == b.nOutput && a.nTotal == b.nTotal && a.acts == b.acts &&
    a.biasList == b.biasList && a.conns.map (fun c => (c.src, c.dst, c.w)) == b.conns.map (fun c => (c.src, c.dst, c.w))

/-- `biasFast` is what `FastNetworkSolver()` builds from `biasNet` -/
example : (match Fast.ofNet biasNet with | .ok fn => sameFast fn biasFast | .error _ => false) = true := by decide

/-- the feed-forward value is 2·5 + 3 = 13; the repaired recursive activation returns it, the legacy one
    (`Model/LegacySolver.lean`, code before 203d9f0) returns 10 -/
theorem recursive_legacy_counterexample :
    evalOutputs biasNet sigmaInt (sensFn biasNet [5]) = [some 13] ∧
      Fast.readOutputs biasFast (Fast.recursiveSteps biasFast sigmaInt (Fast.loadSensors biasFast [5] (Fast.init biasFast)).1).1 = [13] ∧
      Fast.readOutputs biasFast (Fast.Legacy.recursiveSteps biasFast sigmaInt (Fast.loadSensors biasFast [5] (Fast.init biasFast)).1).1 = [10] := by
  decide

/-- the hypotheses of `fast_recursive_fval` hold for `biasFast` -/
example : Fast.FFFast biasFast (fun i => if i == 2 then 1 else 0) :=
  ⟨fun c hc => by simp [biasFast] at hc; subst hc; decide, fun j hj => by simp only [biasFast]; split <;> omega, by decide⟩
example : Fast.fvalNode biasFast sigmaInt (Fast.getW (Fast.loadSensors biasFast [5] (Fast.init biasFast)).1.signals) 2 2
    = some 13 := by decide
/-- one forward step on the same solver: 2·5 + 3 = 13 -/
example : Fast.readOutputs biasFast (Fast.forwardStep biasFast sigmaInt 0 (Fast.loadSensors biasFast [5] (Fast.init biasFast)).1).1
    = [13] := by decide

end Examples

end GoNeat.C12
