/-
  Property C08, consequence over a whole batch: after speciating any batch of organisms, every one of them is
  either the founder (first organism, the representative) of its species or was closer than the threshold to
  that species' representative when it was assigned — and, since organisms are only ever appended to a species,
  the representative it was compared with is still the species' first organism afterwards.
  Kind A: holds for every scalar type (no order law is needed for this consequence).
-/
import GoNeat.Props.C08

namespace GoNeat.C08
open GoNeat Scalar
variable {W : Type} [Scalar W]

/-- whatever the search returns was below the threshold when it was compared -/
theorem bestCompatible_within (o : EpochOpts W) (g : Genome W) (ss : List (Species W)) (i : Nat) (best : Option Nat) (bv : W) :
    ∀ b, bestCompatible o g ss i best bv = some b →
      best = some b ∨ (i ≤ b ∧ ∃ s rep, ss[b - i]? = some s ∧ s.orgs.head? = some rep ∧
        lt (compatibility o.compat g rep.genome) o.compatThreshold = true) := by
  induction ss generalizing i best bv with
  | nil => intro b h; left; simpa [bestCompatible] using h
  | cons s ss ih =>
    intro b h
    unfold bestCompatible at h
    have lift : (i + 1 ≤ b ∧ ∃ s' rep, ss[b - (i + 1)]? = some s' ∧ s'.orgs.head? = some rep ∧
        lt (compatibility o.compat g rep.genome) o.compatThreshold = true) →
        (i ≤ b ∧ ∃ s' rep, (s :: ss)[b - i]? = some s' ∧ s'.orgs.head? = some rep ∧
        lt (compatibility o.compat g rep.genome) o.compatThreshold = true) := by
      rintro ⟨hle, s', rep, h1, h2, h3⟩
      refine ⟨by omega, s', rep, ?_, h2, h3⟩
      have : b - i = (b - (i + 1)) + 1 := by omega
      rw [this, List.getElem?_cons_succ]; exact h1
    split at h
    · rcases ih _ _ _ b h with h' | h'
      · exact Or.inl h'
      · exact Or.inr (lift h')
    · rename_i rep hrep
      simp only at h
      split at h
      · rename_i hc
        rcases ih _ _ _ b h with h' | h'
        · right
          cases h'
          refine ⟨Nat.le_refl _, s, rep, by simp, hrep, ?_⟩
          simp only [Bool.and_eq_true] at hc
          exact hc.1
        · exact Or.inr (lift h')
      · rcases ih _ _ _ b h with h' | h'
        · exact Or.inl h'
        · exact Or.inr (lift h')

/-- organism `x` sits in a species of which it is the representative or to whose representative it is closer than
    the threshold -/
def Placed (o : EpochOpts W) (species : List (Species W)) (x : Org W) : Prop :=
  ∃ s ∈ species, x ∈ s.orgs ∧ ∃ rep, s.orgs.head? = some rep ∧
    (rep = x ∨ lt (compatibility o.compat x.genome rep.genome) o.compatThreshold = true)

theorem mem_modify_of_mem {α} (l : List α) (i : Nat) (f : α → α) (a : α) (h : a ∈ l) : a ∈ l.modify i f ∨ f a ∈ l.modify i f := by
  induction l generalizing i with
  | nil => cases h
  | cons x xs ih =>
    cases i with
    | zero =>
      simp only [List.modify_zero_cons, List.mem_cons]
      rcases List.mem_cons.mp h with rfl | h'
      · right; left; rfl
      · left; right; exact h'
    | succ i =>
      simp only [List.modify_succ_cons, List.mem_cons]
      rcases List.mem_cons.mp h with rfl | h'
      · left; left; rfl
      · rcases ih i h' with h1 | h1
        · left; right; exact h1
        · right; right; exact h1

theorem modify_getElem_mem {α} (l : List α) (i : Nat) (f : α → α) (a : α) (h : l[i]? = some a) : f a ∈ l.modify i f := by
  induction l generalizing i with
  | nil => simp at h
  | cons x xs ih =>
    cases i with
    | zero => simp at h; subst h; simp
    | succ i => simp at h; simp [ih i h]

/-- one arrival keeps every earlier placement and places the new organism -/
theorem speciateOne_placed (o : EpochOpts W) (p p' : Pop W) (org : Org W) (h : speciateOne o p org = .ok p') :
    Placed o p'.species org ∧ ∀ x, Placed o p.species x → Placed o p'.species x := by
  have keepAppend : ∀ (s : Species W) (x : Org W), x ∈ s.orgs → ∀ rep, s.orgs.head? = some rep →
      x ∈ (s.orgs ++ [org]) ∧ (s.orgs ++ [org]).head? = some rep := by
    intro s x hx rep hrep
    refine ⟨List.mem_append_left _ hx, ?_⟩
    cases hs : s.orgs with
    | nil => simp [hs] at hrep
    | cons a as => simp [hs] at hrep ⊢; exact hrep
  rcases speciateOne_spec o p p' org h with ⟨i, ⟨_, hb⟩, hsp, _⟩ | ⟨_, _, s, hsp, _, horgs, _, _⟩
  · rcases bestCompatible_within o org.genome p.species 0 none maxVal i hb with h0 | ⟨_, s, rep, hs, hrep, hlt⟩
    · cases h0
    · simp only [Nat.sub_zero] at hs
      refine ⟨?_, ?_⟩
      · refine ⟨_, hsp ▸ modify_getElem_mem _ _ _ s hs, by simp, rep, ?_, Or.inr hlt⟩
        cases hso : s.orgs with
        | nil => simp [hso] at hrep
        | cons a as => simp [hso] at hrep ⊢; exact hrep
      · rintro x ⟨s0, hs0, hx, rep0, hrep0, hor⟩
        rcases mem_modify_of_mem p.species i (fun s => { s with orgs := s.orgs ++ [org] }) s0 hs0 with h1 | h1
        · exact ⟨s0, hsp ▸ h1, hx, rep0, hrep0, hor⟩
        · obtain ⟨k1, k2⟩ := keepAppend s0 x hx rep0 hrep0
          exact ⟨_, hsp ▸ h1, k1, rep0, k2, hor⟩
  · refine ⟨⟨s, by rw [hsp]; simp, by rw [horgs]; simp, org, by rw [horgs]; rfl, Or.inl rfl⟩, ?_⟩
    rintro x ⟨s0, hs0, hx, rep0, hrep0, hor⟩
    exact ⟨s0, by rw [hsp]; exact List.mem_append_left _ hs0, hx, rep0, hrep0, hor⟩

/-- **C08 (consequence, whole batch).** After speciating any batch, every organism of the batch — and every organism
    that was placed before — is the founder of its species or within the threshold of that species' representative. -/
theorem speciateLoop_placed (o : EpochOpts W) (p p' : Pop W) (orgs : List (Org W)) (h : speciateLoop o p orgs = .ok p') :
    (∀ x ∈ orgs, Placed o p'.species x) ∧ ∀ x, Placed o p.species x → Placed o p'.species x := by
  induction orgs generalizing p with
  | nil => simp only [speciateLoop] at h; cases h; exact ⟨(by intro x hx; cases hx), (fun x hx => hx)⟩
  | cons org rest ih =>
    simp only [speciateLoop] at h
    split at h
    · cases h
    · rename_i p1 h1
      obtain ⟨hnew, hold⟩ := speciateOne_placed o p p1 org h1
      obtain ⟨i1, i2⟩ := ih p1 h
      refine ⟨?_, fun x hx => i2 x (hold x hx)⟩
      intro x hx
      rcases List.mem_cons.mp hx with rfl | hx'
      · exact i2 _ hnew
      · exact i1 x hx'

end GoNeat.C08
