/-
  C02 / C09 / C10 after `Generation.FillPopulationStatistics`, Kind B: the corollaries of Props/C09QuotaExact.lean and
  Props/C10Perm.lean for the population `q = (fillPopulationStatistics p).2` that every shipped evaluator hands to
  `NextEpoch` (`fill_speciesPerm`: it is a within-species re-ordering of `p`).  Hypotheses on `p`, computation on `q`.
  In exact ordered-field arithmetic the quota facts `QuotaOk o q` need no hypothesis about `q`.
-/
import GoNeat.Props.C20EpochFill
import GoNeat.Props.C09QuotaExact
import GoNeat.Props.C10Perm

namespace GoNeat.C20
open GoNeat GoNeat.Experiment GoNeat.C01 GoNeat.C02 GoNeat.NoErr GoNeat.GenStatsModel
variable {K : Type} [Field K] [LinearOrder K] [IsStrictOrderedRing K] [FloorRing K]

/-- **`QuotaOk` for the population `FillPopulationStatistics` returns, exact arithmetic**: `C09.QuotaHyp` on `p`
    (`Population.Organisms` lists exactly the members of the species, `PopSize` of them, one has a positive adjusted
    fitness) - the raw quotas computed by the epoch from the RE-ORDERED population are non-negative and total exactly
    `PopSize` -/
theorem rawQuotas_exact_fill (o : EpochOpts K) (p q : Pop K) (st : GenStats K) (h : C09.QuotaHyp o p)
    (hf : fillPopulationStatistics p = .ok (st, q)) :
    ∀ species1, adjustAll o q.species = .ok species1 →
      (∀ s ∈ (C09.rawAssign ({ q with species := species1 } : Pop K)).1, 0 ≤ s.expectedOffspring) ∧
      (C09.rawAssign ({ q with species := species1 } : Pop K)).2 = (o.popSize : Int) :=
  C09.rawQuotas_exact_perm o p q h (fill_speciesPerm false none p q st hf)

theorem quotaOk_exact_fill (o : EpochOpts K) (p q : Pop K) (st : GenStats K) (h : C09.QuotaHyp o p)
    (hf : fillPopulationStatistics p = .ok (st, q)) : QuotaOk o q :=
  C09.quotaOk_exact_perm o p q h (fill_speciesPerm false none p q st hf)

/-- **C02 "succeeds without error" after `FillPopulationStatistics`, exact arithmetic, no float fact and no quota
    hypothesis left**: `OptsOk`, `PopOk` on `p`, some organism of `p` has a positive adjusted fitness -/
theorem nextEpoch_no_error_exact_fill (S : List Nat) (o : EpochOpts K) (p q : Pop K) (st : GenStats K) (ho : OptsOk o)
    (hp : PopOk S o p) (hpos : C09.SomePositive o p) (hf : fillPopulationStatistics p = .ok (st, q)) (gen : Int) :
    ∀ rs, Valid rs → ∀ msg, nextEpoch o gen q rs ≠ .error (.error msg) :=
  C09.nextEpoch_no_error_exact_perm S o p q ho hp hpos (fill_speciesPerm false none p q st hf) gen

end GoNeat.C20

namespace GoNeat.C20
open GoNeat GoNeat.Experiment GoNeat.GenStatsModel
variable {W : Type} [Scalar W]

/-- `FillPopulationStatistics` is an admissible evaluation step for the C10 run theorem
    (`C10.runEpochs_keeps_champions_perm`); composed with a fitness assignment by `C10.EvalKeepsPerm.trans` -/
theorem evalKeepsPerm_fill (p q : Pop W) (st : GenStats W) (hf : fillPopulationStatistics p = .ok (st, q)) :
    C10.EvalKeepsPerm p q :=
  C10.evalKeepsPerm_of_speciesPerm (fill_speciesPerm false none p q st hf)

end GoNeat.C20
