/-
  C19 / C20, time aggregates: the MODEL's answers pass the executable predicates the driver evaluates on the
  implementation's answers (Spec/ExpTime.lean): `latestWhy_model`, `avgWhy_model`.
-/
import GoNeat.Props.C19Time
import GoNeat.Spec.ExpTime

namespace GoNeat.C19
open GoNeat GoNeat.ExpTime GoNeat.ExpTimeSpec

theorem any_false_of_forall' {α} (l : List α) (p : α → Bool) (h : ∀ x ∈ l, p x = false) : l.any p = false := by
  induction l with
  | nil => rfl
  | cons a l ih =>
    simp only [List.any_cons, Bool.or_eq_false_iff]
    exact ⟨h a List.mem_cons_self, ih (fun x hx => h x (List.mem_cons_of_mem _ hx))⟩

theorem latestWhy_model (what : String) (ts : List Int) : latestWhy what ts (latest ts) = "" := by
  obtain ⟨h0, hub, hat⟩ := latest_spec ts
  unfold latestWhy
  have h1 : ts.any (fun x => decide (latest ts < x)) = false :=
    any_false_of_forall' _ _ (fun x hx => by have := hub x hx; simp; omega)
  rw [h1]
  have h2 : ¬ (latest ts < zeroTime) := by omega
  simp only [Bool.false_eq_true, if_false, h2]
  rcases hat with hz | hm
  · simp [hz]
  · have : ts.contains (latest ts) = true := by simpa using hm
    simp
    intro _; exact hm

theorem avgWhy_model (what : String) (ds : List Int) : avgWhy what ds (avgOf ds) = "" := by
  unfold avgWhy
  by_cases he : ds = []
  · subst he; simp [avgOf, emptyDuration]
  · have hn : ds.length > 0 := List.length_pos_iff.mpr he
    have hn' : (0 : Int) < ds.length := by omega
    have hemp : ds.isEmpty = false := by cases ds with | nil => exact absurd rfl he | cons _ _ => rfl
    rw [hemp]
    simp only [Bool.false_eq_true, if_false]
    have hdec := avgOf_decompose ds he
    unfold total at hdec
    have hr : ds.foldl (· + ·) 0 - (ds.length : Int) * avgOf ds = (ds.foldl (· + ·) 0).tmod ds.length := by omega
    rw [hr]
    by_cases ht : 0 ≤ ds.foldl (· + ·) 0
    · have h1 := Int.tmod_nonneg (ds.length : Int) ht
      have h2 := Int.tmod_lt_of_pos (ds.foldl (· + ·) 0) hn'
      simp [ht, h1, h2]
    · have ht' : ds.foldl (· + ·) 0 < 0 := by omega
      have h1 : (ds.foldl (· + ·) 0).tmod ds.length ≤ 0 := by
        have hneg := Int.tmod_nonneg (a := -(ds.foldl (· + ·) 0)) (ds.length : Int) (by omega)
        rw [Int.neg_tmod] at hneg
        omega
      have h2 := Int.lt_tmod_of_pos (ds.foldl (· + ·) 0) hn'
      have ht2 : ¬ (0 ≤ ds.foldl (· + ·) 0) := ht
      simp only [ge_iff_le, ht2, decide_false, Bool.false_and, ht', decide_true, h1, Bool.true_and, Bool.false_or]
      have : -((ds.foldl (· + ·) 0).tmod ds.length) < (ds.length : Int) := by omega
      simp [this]

end GoNeat.C19
