import GoNeat.Spec.WFReg
import GoNeat.Model.GenesisOk
