/-
  Property C01 — every genetic operator and epoch yields only well-formed genomes.
  Kind A: every theorem holds for every scalar type `W`, every random stream, every registry and all options.

  The invariant preserved is `WFT g` = `WF g` (Spec/WF.lean) ∧ no trait has id 0 (`TraitWithId` treats 0 as "no
  trait"; the property's quantifier says "trait ids consecutive as in every shipped genome", i.e. 1…n), and on the
  registry side `RegInv reg g` = `RegCompat` ∧ `CounterAbove` ∧ `RegOk` (Spec/WFReg.lean).
-/
import GoNeat.Proofs.WFLemmas
import GoNeat.Proofs.WFParam
import GoNeat.Proofs.WFStruct
import GoNeat.Proofs.WFMate
import GoNeat.Proofs.WFPop
import GoNeat.Proofs.WFMate2
import GoNeat.Proofs.WFStep
import GoNeat.Proofs.WFClose
import GoNeat.Proofs.WFPrepare
import GoNeat.Props.C04
import GoNeat.Props.C05
import GoNeat.Props.C06
import GoNeat.Proofs.ScalarInt

namespace GoNeat.C01
open GoNeat Scalar
variable {W : Type} [Scalar W]

/-! ## ordered insertion -/

/-- **`geneInsert` keeps the gene list strictly ascending** when the new innovation number is not present, and
    the result is a permutation of old + new. -/
theorem geneInsert_sorted (genes : List (Gene W)) (x : Gene W) (hs : GenesSorted genes)
    (hnew : ∀ y ∈ genes, y.inn ≠ x.inn) :
    GenesSorted (geneInsert genes x) ∧ (geneInsert genes x).Perm (x :: genes) :=
  insertAt_sorted (fun y : Gene W => y.inn) genes x hs hnew

/-- **`nodeInsert` keeps the node list strictly ascending** when the new id is not present; permutation of old + new. -/
theorem nodeInsert_sorted (nodes : List Node) (n : Node) (hs : NodesSorted nodes) (hnew : ∀ m ∈ nodes, m.id ≠ n.id) :
    NodesSorted (nodeInsert nodes n) ∧ (nodeInsert nodes n).Perm (n :: nodes) :=
  insertAt_sorted (fun m : Node => m.id) nodes n hs hnew

/-- the equal-key branch exactly as the code has it: a gene whose number equals the *last* number is appended
    behind it; otherwise the gene is placed after all smaller numbers, i.e. directly *before* a gene with the same
    number.  Either way the result then carries the number twice (not strictly ascending) — which is why every
    caller guards the insertion (`haveGene` / `haveNode`). -/
theorem geneInsert_spec (genes : List (Gene W)) (x : Gene W) (hs : GenesSorted genes) :
    geneInsert genes x =
      if (genes.map (·.inn)).getLast? = some x.inn then genes ++ [x]
      else genes.filter (fun y => decide (y.inn < x.inn)) ++ x :: genes.filter (fun y => !decide (y.inn < x.inn)) :=
  insertAt_spec (fun y : Gene W => y.inn) genes x hs

theorem nodeInsert_spec (nodes : List Node) (n : Node) (hs : NodesSorted nodes) :
    nodeInsert nodes n =
      if (nodes.map (·.id)).getLast? = some n.id then nodes ++ [n]
      else nodes.filter (fun m => decide (m.id < n.id)) ++ n :: nodes.filter (fun m => !decide (m.id < n.id)) :=
  insertAt_spec (fun m : Node => m.id) nodes n hs

/-! ## expression: a well-formed genome passes every error exit of `Genome.Genesis` -/

theorem genesis_ok (g : Genome W) (h : WF g) : genesisErr g = none := by
  unfold genesisErr
  have h1 : g.genes.isEmpty = false := by
    cases hg : g.genes with
    | nil => exact absurd hg h.hasGene
    | cons _ _ => rfl
  have h2 : g.nodes.any (·.kind == Kind.output) = true := by
    obtain ⟨n, hn, hk⟩ := h.hasOutput
    exact List.any_eq_true.mpr ⟨n, hn, by simp [hk]⟩
  have h3 : g.genes.any (fun x => x.en && !(g.hasNode x.src && g.hasNode x.dst)) = false := by
    apply List.any_eq_false.mpr
    intro x hx
    obtain ⟨hs, hd⟩ := h.endpoints x hx
    have e1 : g.hasNode x.src = true := C06.nodeById_isSome g.nodes x.src hs
    have e2 : g.hasNode x.dst = true := C06.nodeById_isSome g.nodes x.dst hd
    simp [e1, e2]
  rw [h1, h2, h3]; rfl

/-! ## duplication -/

/-- **`duplicate` preserves well-formedness** (it returns the same genome under a new id) -/
theorem duplicate_wf (g : Genome W) (newId : Int) (h : WFT g) (hm : g.modules = []) :
    ∃ d, g.duplicate newId = .ok d ∧ d = { g with id := newId } ∧ WFT d ∧ Retains g d ∧ SameSkel g d := by
  have hrefs : C06.RefsOk g := by
    refine ⟨h.wf.traitRefs, h.wf.endpoints, ?_, ?_⟩ <;> simp [hm]
  refine ⟨_, C06.duplicate_exact g newId hrefs, rfl, ?_, ?_, ?_⟩
  · exact (SameSkel.wft (g := g) ⟨rfl, rfl, rfl, rfl⟩ h.wf.traitRefs h)
  · exact Retains.refl g
  · exact ⟨rfl, rfl, rfl, rfl⟩

/-! ## the seven parametric mutators

Shape of every theorem: well-formed in ⇒ well-formed out, every input/bias/output node retained, and — for *every*
registry — `RegCompat`/`CounterAbove`/`RegOk` (`RegInv`) carried over; the step keeps the skeleton (`SameSkel`:
innovation numbers, links, node ids and kinds, trait ids), which is what the population-level closure uses. -/

/-- what a skeleton-preserving step with resolving trait references gives -/
theorem param_step {g g' : Genome W} (hs : SameSkel g g' ∧ TraitRefsOwned g') (hw : WFT g) :
    WFT g' ∧ Retains g g' ∧ (∀ reg : Reg W, RegInv reg g → RegInv reg g') ∧ SameSkel g g' :=
  ⟨hs.1.wft hs.2 hw, hs.1.retains, fun reg hi => hs.1.regInv reg hi, hs.1⟩

theorem mutateLinkWeights_wf (g g' : Genome W) (power rate : W) (mt : WeightMutator) (rs rs' : List Nat)
    (hw : WFT g) (h : mutateLinkWeights g power rate mt rs = .ok (g', rs')) :
    WFT g' ∧ Retains g g' ∧ (∀ reg : Reg W, RegInv reg g → RegInv reg g') ∧ SameSkel g g' :=
  param_step (mutateLinkWeights_skel g g' power rate mt rs rs' h hw.wf.traitRefs) hw

theorem mutateRandomTrait_wf (g g' : Genome W) (o : MutOpts W) (rs rs' : List Nat)
    (hw : WFT g) (h : mutateRandomTrait g o rs = .ok (g', rs')) :
    WFT g' ∧ Retains g g' ∧ (∀ reg : Reg W, RegInv reg g → RegInv reg g') ∧ SameSkel g g' :=
  param_step (mutateRandomTrait_skel g g' o rs rs' h hw.wf.traitRefs) hw

theorem mutateLinkTrait_wf (times : Nat) (g g' : Genome W) (rs rs' : List Nat)
    (hw : WFT g) (h : mutateLinkTrait g times rs = .ok (g', rs')) :
    WFT g' ∧ Retains g g' ∧ (∀ reg : Reg W, RegInv reg g → RegInv reg g') ∧ SameSkel g g' :=
  param_step (mutateLinkTrait_skel times g g' rs rs' h hw.tnz hw.wf.traitRefs) hw

theorem mutateNodeTrait_wf (times : Nat) (g g' : Genome W) (rs rs' : List Nat)
    (hw : WFT g) (h : mutateNodeTrait g times rs = .ok (g', rs')) :
    WFT g' ∧ Retains g g' ∧ (∀ reg : Reg W, RegInv reg g → RegInv reg g') ∧ SameSkel g g' :=
  param_step (mutateNodeTrait_skel times g g' rs rs' h hw.tnz hw.wf.traitRefs) hw

theorem mutateToggleEnable_wf (times : Nat) (g g' : Genome W) (rs rs' : List Nat)
    (hw : WFT g) (h : mutateToggleEnable g times rs = .ok (g', rs')) :
    WFT g' ∧ Retains g g' ∧ (∀ reg : Reg W, RegInv reg g → RegInv reg g') ∧ SameSkel g g' :=
  param_step (mutateToggleEnable_skel times g g' rs rs' h hw.wf.traitRefs) hw

theorem mutateGeneReEnable_wf (g g' : Genome W) (hw : WFT g) (h : mutateGeneReEnable g = .ok g') :
    WFT g' ∧ Retains g g' ∧ (∀ reg : Reg W, RegInv reg g → RegInv reg g') ∧ SameSkel g g' :=
  param_step (mutateGeneReEnable_skel g g' h hw.wf.traitRefs) hw

theorem mutateAllNonstructural_wf (g g' : Genome W) (o : MutOpts W) (rs rs' : List Nat)
    (hw : WFT g) (h : mutateAllNonstructural g o rs = .ok (g', rs')) :
    WFT g' ∧ Retains g g' ∧ (∀ reg : Reg W, RegInv reg g → RegInv reg g') ∧ SameSkel g g' :=
  param_step (mutateAllNonstructural_skel g g' o rs rs' h hw.tnz hw.wf.traitRefs) hw

/-! ## add-link

The `linkExists` test of the search loop excludes a duplicate link and a sensor target; the `haveGene` guard
together with `RegCompat` excludes a duplicate innovation number when the number comes from a record; a fresh
number exceeds every number of the genome by `CounterAbove`. -/

omit [Scalar W] in
theorem mem_geneInsert_key (genes : List (Gene W)) (x : Gene W) :
    ∀ y ∈ geneInsert genes x, y = x ∨ ∃ z ∈ genes, geneKey z = geneKey y := by
  intro y hy
  rcases (mem_insertAt _ _ _ _).mp hy with h | h
  · exact Or.inl h
  · exact Or.inr ⟨y, h, rfl⟩

theorem mutateAddLink_wf (g g' : Genome W) (reg reg' : Reg W) (o : MutOpts W) (rs rs' : List Nat) (b : Bool)
    (hw : WFT g) (hi : RegInv reg g) (h : mutateAddLink g reg o rs = .ok ((g', reg', b), rs')) :
    WFT g' ∧ Retains g g' ∧ RegInv reg' g' := by
  unfold mutateAddLink at h
  split at h
  · cases h
  · split at h
    · cases h
    · split at h
      · cases h
      · rename_i f rs1 _
        simp only at h
        split at h
        · cases h
        · simp only [Except.ok.injEq, Prod.mk.injEq] at h
          obtain ⟨⟨rfl, rfl, _⟩, _⟩ := h
          exact ⟨hw, Retains.refl _, hi⟩
        · simp only [Except.ok.injEq, Prod.mk.injEq] at h
          obtain ⟨⟨rfl, rfl, _⟩, _⟩ := h
          exact ⟨hw, Retains.refl _, hi⟩
        · rename_i n1 n2 rs2 hf
          obtain ⟨hn1, hn2, hsens, hnodup⟩ := C05.findOpenLink_spec g _ _ _ _ _ _ n1 n2 hf
          have hsrc : n1.id ∈ nodeIds g := List.mem_map_of_mem hn1
          have hdst : n2.id ∈ nodeIds g := List.mem_map_of_mem hn2
          have hsens' : ∀ n ∈ g.nodes, n.id = n2.id → n.isSensor = false := by
            intro n hn e
            rw [node_unique g.nodes hw.wf.nodesSorted n n2 hn hn2 e]; exact hsens
          split at h
          · rename_i inn hfind
            have hmem : inn ∈ reg.records := List.mem_of_find?_eq_some hfind
            have hp := List.find?_some hfind
            simp only [Bool.and_eq_true, beq_iff_eq] at hp
            obtain ⟨⟨⟨ht, hin⟩, hout⟩, hrec⟩ := hp
            split at h
            · cases h
            · rename_i tr htr
              split at h
              · simp only [Except.ok.injEq, Prod.mk.injEq] at h
                obtain ⟨⟨rfl, rfl, _⟩, _⟩ := h
                exact ⟨hw, Retains.refl _, hi⟩
              · rename_i hhave
                split at h
                · cases h
                · simp only [Except.ok.injEq, Prod.mk.injEq] at h
                  obtain ⟨⟨rfl, rfl, _⟩, _⟩ := h
                  have hhave' := Bool.eq_false_iff.mpr hhave
                  have hinn := haveGene_false g _ hw.wf.genesSorted hhave' (by
                    intro y hy e
                    have := (hi.compat inn hmem).1 ht y hy e
                    rw [this, hin, hout, hrec]; rfl)
                  refine ⟨addGene_wft g _ hw hinn ?_ hsrc hdst hsens' (traitAt_ok g _ tr htr hw.tnz),
                          Retains.of_nodes_eq _ _ rfl, ?_⟩
                  · intro y hy e
                    unfold Gene.link at e; simp only [Prod.mk.injEq] at e
                    exact hnodup y hy e
                  · exact regInv_recorded2 reg g _ inn _ hmem ht rfl (by rw [← hin, ← hout, ← hrec]; rfl)
                      (mem_geneInsert_key _ _) rfl hi
          · split at h
            · cases h
            · split at h
              · cases h
              · rename_i traitNum rs3 _ w rs4 _
                split at h
                · cases h
                · rename_i tr htr
                  split at h
                  · cases h
                  · simp only [Except.ok.injEq, Prod.mk.injEq] at h
                    obtain ⟨⟨rfl, rfl, _⟩, _⟩ := h
                    have hinn : ∀ y ∈ g.genes, y.inn ≠ reg.nextInn + 1 := by
                      intro y hy; have := hi.above.1 y hy; omega
                    refine ⟨addGene_wft g _ hw hinn ?_ hsrc hdst hsens' (traitAt_ok g _ tr htr hw.tnz),
                            Retains.of_nodes_eq _ _ rfl, ?_⟩
                    · intro y hy e
                      unfold Gene.link at e; simp only [Prod.mk.injEq] at e
                      exact hnodup y hy e
                    · exact regInv_fresh2 reg g _ _ _ rfl rfl rfl rfl (mem_geneInsert_key _ _) rfl hi

/-! ## connect-sensors

One loop iteration per non-sensor node; the invariant `WFT ∧ RegInv` (node list unchanged) is carried through the
loop.  The "a gene from this sensor to this node exists" test excludes a duplicate link. -/

theorem connectOne_wf (sensor output : Node) (g g' : Genome W) (reg reg' : Reg W) (added added' : Bool)
    (rs rs' : List Nat) (hw : WFT g) (hi : RegInv reg g) (hs : sensor ∈ g.nodes) (ho : output ∈ g.nodes)
    (hos : output.isSensor = false)
    (h : connectOne sensor output g reg added rs = .ok (some (g', reg', added'), rs')) :
    WFT g' ∧ RegInv reg' g' ∧ g'.nodes = g.nodes := by
  unfold connectOne at h
  split at h
  · simp only [Except.ok.injEq, Prod.mk.injEq, Option.some.injEq] at h
    obtain ⟨⟨rfl, rfl, _⟩, _⟩ := h
    exact ⟨hw, hi, rfl⟩
  · rename_i hany
    have hnolink : ∀ y ∈ g.genes, ¬ (y.src = sensor.id ∧ y.dst = output.id) := by
      intro y hy ⟨e1, e2⟩
      apply hany
      exact List.any_eq_true.mpr ⟨y, hy, by simp [e1, e2]⟩
    have hsrc : sensor.id ∈ nodeIds g := List.mem_map_of_mem hs
    have hdst : output.id ∈ nodeIds g := List.mem_map_of_mem ho
    have hsens' : ∀ n ∈ g.nodes, n.id = output.id → n.isSensor = false := by
      intro n hn e
      rw [node_unique g.nodes hw.wf.nodesSorted n output hn ho e]; exact hos
    split at h
    · rename_i inn hfind
      have hmem : inn ∈ reg.records := List.mem_of_find?_eq_some hfind
      have hp := List.find?_some hfind
      simp only [Bool.and_eq_true, beq_iff_eq, Bool.not_eq_eq_eq_not, Bool.not_true] at hp
      obtain ⟨⟨⟨ht, hin⟩, hout⟩, hrec⟩ := hp
      split at h
      · cases h
      · rename_i tr htr
        simp only at h
        split at h
        · simp at h
        · rename_i hhave
          simp only [Except.ok.injEq, Prod.mk.injEq, Option.some.injEq] at h
          obtain ⟨⟨rfl, rfl, _⟩, _⟩ := h
          have hhave' := Bool.eq_false_iff.mpr hhave
          have hinn := haveGene_false g _ hw.wf.genesSorted hhave' (by
            intro y hy e
            have := (hi.compat inn hmem).1 ht y hy e
            rw [this, hin, hout, hrec]; rfl)
          refine ⟨addGene_wft g _ hw hinn ?_ hsrc hdst hsens' (traitAt_ok g _ tr htr hw.tnz), ?_, rfl⟩
          · intro y hy e
            unfold Gene.link at e; simp only [Prod.mk.injEq] at e
            exact hnolink y hy ⟨e.1, e.2.1⟩
          · exact regInv_recorded2 reg g _ inn _ hmem ht rfl (by rw [← hin, ← hout, hrec]; rfl)
              (mem_geneInsert_key _ _) rfl hi
    · split at h
      · cases h
      · split at h
        · cases h
        · split at h
          rename_i innId reg1 hpair
          simp only [Reg.nextInnovation, Prod.mk.injEq] at hpair
          obtain ⟨rfl, rfl⟩ := hpair
          split at h
          · cases h
          · rename_i tr htr
            simp only [Except.ok.injEq, Prod.mk.injEq, Option.some.injEq] at h
            obtain ⟨⟨rfl, rfl, _⟩, _⟩ := h
            have hinn : ∀ y ∈ g.genes, y.inn ≠ reg.nextInn + 1 := by
              intro y hy; have := hi.above.1 y hy; omega
            refine ⟨addGene_wft g _ hw hinn ?_ hsrc hdst hsens' (traitAt_ok g _ tr htr hw.tnz), ?_, rfl⟩
            · intro y hy e
              unfold Gene.link at e; simp only [Prod.mk.injEq] at e
              exact hnolink y hy ⟨e.1, e.2.1⟩
            · exact regInv_fresh2 reg g _ _ _ rfl rfl rfl rfl (mem_geneInsert_key _ _) rfl hi

theorem connectLoop_wf (sensor : Node) (outs : List Node) (g g' : Genome W) (reg reg' : Reg W) (added b : Bool)
    (rs rs' : List Nat) (hw : WFT g) (hi : RegInv reg g) (hs : sensor ∈ g.nodes)
    (ho : ∀ o ∈ outs, o ∈ g.nodes ∧ o.isSensor = false)
    (h : connectLoop sensor outs g reg added rs = .ok ((g', reg', b), rs')) :
    WFT g' ∧ RegInv reg' g' ∧ g'.nodes = g.nodes := by
  induction outs generalizing g reg added rs with
  | nil =>
    unfold connectLoop at h
    simp only [Except.ok.injEq, Prod.mk.injEq] at h
    obtain ⟨⟨rfl, rfl, _⟩, _⟩ := h
    exact ⟨hw, hi, rfl⟩
  | cons o os ih =>
    unfold connectLoop at h
    split at h
    · cases h
    · simp only [Except.ok.injEq, Prod.mk.injEq] at h
      obtain ⟨⟨rfl, rfl, _⟩, _⟩ := h
      exact ⟨hw, hi, rfl⟩
    · rename_i g1 reg1 added1 rs1 h1
      obtain ⟨w1, i1, n1⟩ := connectOne_wf sensor o g g1 reg reg1 added added1 rs rs1 hw hi hs
        (ho o (by simp)).1 (ho o (by simp)).2 h1
      obtain ⟨w2, i2, n2⟩ := ih g1 reg1 added1 rs1 w1 i1 (by rw [n1]; exact hs)
        (fun x hx => by rw [n1]; exact ho x (List.mem_cons_of_mem _ hx)) h
      exact ⟨w2, i2, n2.trans n1⟩

theorem mutateConnectSensors_wf (g g' : Genome W) (reg reg' : Reg W) (rs rs' : List Nat) (b : Bool)
    (hw : WFT g) (hi : RegInv reg g) (h : mutateConnectSensors g reg rs = .ok ((g', reg', b), rs')) :
    WFT g' ∧ Retains g g' ∧ RegInv reg' g' := by
  unfold mutateConnectSensors at h
  split at h
  · cases h
  · simp only at h
    split at h
    · simp only [Except.ok.injEq, Prod.mk.injEq] at h
      obtain ⟨⟨rfl, rfl, _⟩, _⟩ := h
      exact ⟨hw, Retains.refl _, hi⟩
    · split at h
      · cases h
      · split at h
        · cases h
        · rename_i sensor hk
          have hsm := List.mem_of_getElem? hk
          have hs : sensor ∈ g.nodes := (List.mem_filter.mp (List.mem_filter.mp hsm).1).1
          obtain ⟨w, i, n⟩ := connectLoop_wf sensor _ g g' reg reg' false b _ rs' hw hi hs
            (fun o ho => by
              have := List.mem_filter.mp ho
              exact ⟨this.1, by simpa using this.2⟩) h
          exact ⟨w, Retains.of_nodes_eq _ _ n, i⟩

/-! ## add-node

The chosen gene is disabled first (a skeleton-preserving step); then either a matching record supplies node id and
the two numbers — the `haveNode` guard plus `RegCompat` exclude both a duplicate node and duplicate numbers — or all
three are fresh (`CounterAbove`).  On the "node already in this genome" exit the genome keeps the disabled gene and
is still well-formed. -/

theorem setEnabledAt_step (g : Genome W) (k : Nat) (b : Bool) (hr : TraitRefsOwned g) :
    SameSkel g { g with genes := setEnabledAt g.genes k b } ∧
    TraitRefsOwned ({ g with genes := setEnabledAt g.genes k b } : Genome W) ∧
    (∀ y ∈ setEnabledAt g.genes k b, ∃ z ∈ g.genes, geneKey z = geneKey y ∧ z.trait = y.trait) := by
  have hk : ∀ y ∈ setEnabledAt g.genes k b, ∃ z ∈ g.genes, geneKey z = geneKey y ∧ z.trait = y.trait := by
    intro y hy
    unfold setEnabledAt at hy
    rcases mem_modify _ _ _ _ hy with h | ⟨z, hz, rfl⟩
    · exact ⟨y, h, rfl, rfl⟩
    · exact ⟨z, hz, rfl, rfl⟩
  refine ⟨⟨skel_to_key _ _ (C05.modify_map_skel g.genes k b), rfl, rfl, rfl⟩, ⟨?_, hr.2⟩, hk⟩
  intro y hy
  obtain ⟨z, hz, _, e⟩ := hk y hy
  rw [← e]; exact hr.1 z hz

theorem mutateAddNode_wf (g g' : Genome W) (reg reg' : Reg W) (o : MutOpts W) (rs rs' : List Nat) (b : Bool)
    (hw : WFT g) (hi : RegInv reg g) (h : mutateAddNode g reg o rs = .ok ((g', reg', b), rs')) :
    WFT g' ∧ Retains g g' ∧ RegInv reg' g' := by
  unfold mutateAddNode at h
  split at h
  · simp only [Except.ok.injEq, Prod.mk.injEq] at h
    obtain ⟨⟨rfl, rfl, _⟩, _⟩ := h
    exact ⟨hw, Retains.refl _, hi⟩
  · simp only at h
    split at h
    · cases h
    · simp only [Except.ok.injEq, Prod.mk.injEq] at h
      obtain ⟨⟨rfl, rfl, _⟩, _⟩ := h
      exact ⟨hw, Retains.refl _, hi⟩
    · rename_i k rs1 _
      split at h
      · cases h
      · rename_i gene hk
        have hgm : gene ∈ g.genes := List.mem_of_getElem? hk
        obtain ⟨hskel, hrefs1, hkeys⟩ := setEnabledAt_step g k false hw.wf.traitRefs
        have hw1 : WFT ({ g with genes := setEnabledAt g.genes k false } : Genome W) := hskel.wft hrefs1 hw
        have hi1 : RegInv reg ({ g with genes := setEnabledAt g.genes k false } : Genome W) := hskel.regInv reg hi
        have hsrc : gene.src ∈ nodeIds g := (hw.wf.endpoints gene hgm).1
        have hdst : gene.dst ∈ nodeIds g := (hw.wf.endpoints gene hgm).2
        have hsens : ∀ m ∈ g.nodes, m.id = gene.dst → m.isSensor = false := hw.wf.noSensorTarget gene hgm
        have htrg : TraitRefOk g gene.trait := hw.wf.traitRefs.1 gene hgm
        have hgenes : ∀ (x1 x2 : Gene W), ∀ y ∈ geneInsert (geneInsert (setEnabledAt g.genes k false) x1) x2,
            y = x1 ∨ y = x2 ∨ ∃ z ∈ g.genes, geneKey z = geneKey y := by
          intro x1 x2 y hy
          rcases (mem_insertAt _ _ _ _).mp hy with h | h
          · exact Or.inr (Or.inl h)
          · rcases (mem_insertAt _ _ _ _).mp h with h | h
            · exact Or.inl h
            · obtain ⟨z, hz, e, _⟩ := hkeys y h
              exact Or.inr (Or.inr ⟨z, hz, e⟩)
        have hnodes : ∀ (n : Node), ∀ m ∈ nodeInsert g.nodes n, m = n ∨ m ∈ g.nodes :=
          fun n m hm => (mem_insertAt _ _ _ _).mp hm
        have hret : ∀ (n : Node) (gs : List (Gene W)),
            Retains g ({ g with genes := gs, nodes := nodeInsert g.nodes n } : Genome W) :=
          fun n gs => Retains.of_nodes_sub _ _ (fun m hm => (mem_insertAt _ _ _ _).mpr (Or.inr hm))
        split at h
        · rename_i inn hfind
          have hmem : inn ∈ reg.records := List.mem_of_find?_eq_some hfind
          have hp := List.find?_some hfind
          simp only [Bool.and_eq_true, beq_iff_eq] at hp
          obtain ⟨⟨⟨ht, hin⟩, hout⟩, _⟩ := hp
          split at h
          · cases h
          · rename_i tr0 htr0
            split at h
            · simp only [Except.ok.injEq, Prod.mk.injEq] at h
              obtain ⟨⟨rfl, rfl, _⟩, _⟩ := h
              exact ⟨hw1, hskel.retains, hi1⟩
            · rename_i hhas
              simp only [Except.ok.injEq, Prod.mk.injEq] at h
              obtain ⟨⟨rfl, rfl, _⟩, _⟩ := h
              have hnid : inn.newNode ∉ nodeIds g :=
                not_mem_nodeIds_of_hasNode ({ g with genes := setEnabledAt g.genes k false } : Genome W) _
                  (Bool.eq_false_iff.mpr hhas)
              have hc := (hi1.compat inn hmem).2 ht
              have hpair := (hi.ok.2 inn hmem inn hmem).2.2 ht ht
              refine ⟨?_, hret _ _, ?_⟩
              · refine addSplit_wft ({ g with genes := setEnabledAt g.genes k false } : Genome W) _ _ _ hw1 hnid rfl
                  (traitAt_ok _ _ tr0 htr0 hw.tnz) ⟨rfl, hsrc, htrg⟩ ⟨rfl, hdst, htrg⟩ hsens ?_ ?_ hpair.2.2
                · intro y hy e
                  have := (hc.1 y hy e).2
                  exact hnid (this ▸ (hw1.wf.endpoints y hy).2)
                · intro y hy e
                  have := (hc.2.1 y hy e).1
                  exact hnid (this ▸ (hw1.wf.endpoints y hy).1)
              · exact regInv_recorded1 reg g _ inn
                  { inn := inn.inn, src := gene.src, dst := inn.newNode, recur := gene.recur, w := one, mnum := zero,
                    en := true, trait := gene.trait }
                  { inn := inn.inn2, src := inn.newNode, dst := gene.dst, recur := false, w := gene.w, mnum := zero,
                    en := true, trait := gene.trait }
                  { id := inn.newNode, kind := Kind.hidden, act := defaultActivation, trait := tr0 }
                  hmem ht ⟨rfl, hin.symm, rfl⟩ ⟨rfl, rfl, hout.symm, rfl⟩
                  ⟨rfl, rfl⟩ (hgenes _ _) (hnodes _) hi
        · split at h
          · cases h
          · rename_i tr0 htr0
            split at h
            · cases h
            · rename_i act rs2 _
              simp only [Reg.nextNodeId, Reg.nextInnovation, Except.ok.injEq, Prod.mk.injEq] at h
              obtain ⟨⟨rfl, rfl, _⟩, _⟩ := h
              have hnid : reg.nextNode + 1 ∉ nodeIds g := by
                intro hm
                obtain ⟨m, hm', e⟩ := List.mem_map.mp hm
                have := hi.above.2 m hm'; omega
              refine ⟨?_, hret _ _, ?_⟩
              · refine addSplit_wft ({ g with genes := setEnabledAt g.genes k false } : Genome W) _ _ _ hw1 hnid rfl
                  (traitAt_ok _ _ tr0 htr0 hw.tnz) ⟨rfl, hsrc, htrg⟩ ⟨rfl, hdst, htrg⟩ hsens ?_ ?_ ?_
                · intro y hy; have := hi1.above.1 y hy; simp only; omega
                · intro y hy; have := hi1.above.1 y hy; simp only; omega
                · simp only; omega
              · exact regInv_fresh1 reg g _ _
                  { inn := reg.nextInn + 1, src := gene.src, dst := reg.nextNode + 1, recur := gene.recur, w := one,
                    mnum := zero, en := true, trait := gene.trait }
                  { inn := reg.nextInn + 1 + 1, src := reg.nextNode + 1, dst := gene.dst, recur := false, w := gene.w,
                    mnum := zero, en := true, trait := gene.trait }
                  { id := reg.nextNode + 1, kind := Kind.hidden, act := act, trait := tr0 }
                  rfl rfl (by simp only; omega) rfl ⟨rfl, rfl, rfl⟩
                  ⟨rfl, rfl, rfl, rfl⟩ ⟨rfl, rfl⟩ (hgenes _ _) (hnodes _) hi

/-! ## the three crossovers

The child under construction satisfies `AccInv` from the prologue on (averaged traits with the first parent's ids,
copies of the second parent's input/bias/output nodes) and every "add the chosen gene to the baby" keeps it:
links stay distinct *because of* the same-link conflict check, endpoints are added as nodes before the gene, trait
pointers are re-targeted into the child's traits.  The walks collect genes in strictly ascending innovation order.
`SameLineage` (a node id has one role in both parents, same input/bias/output ids) gives "no link into a sensor"
and the retention of the first parent's input/bias/output nodes. -/

omit [Scalar W] in
theorem walkInv_start (p1 p2 : Genome W) (nt : List (Trait W)) (nodes : List Node) (l1 l2 : List (Gene W))
    (h : AccInv p1 p2 nt { nodes := nodes, genes := [] }) : WalkInv p1 p2 nt { nodes := nodes, genes := [] } l1 l2 :=
  ⟨h, by simp [GenesSorted], by simp, by simp⟩

/-- multipoint crossover, under the node/trait part of the lineage hypothesis only -/
theorem mateMultipoint_node (g og : Genome W) (id : Int) (f1 f2 : W) (rs rs' : List Nat) (c : Genome W)
    (hw1 : WFT g) (hw2 : WFT og) (hl : NodeLineage g og)
    (h : mateMultipoint g og id f1 f2 rs = .ok (c, rs')) : WFT c ∧ Retains og c ∧ Retains g c := by
  unfold mateMultipoint at h
  split at h
  · cases h
  · rename_i nt t0 nodes hpro
    simp only at h
    split at h
    · cases h
    · rename_i acc rs1 hwalk
      simp only [Except.ok.injEq, Prod.mk.injEq] at h
      obtain ⟨rfl, _⟩ := h
      obtain ⟨hids, hz, hacc⟩ := matePrologue_spec g og nt t0 nodes hpro hw1 hw2
      obtain ⟨a, b, c⟩ := multipointWalk_inv g og nt t0 _ g.genes og.genes _ rs acc rs1 hz hw1.wf.genesSorted
        hw2.wf.genesSorted (fun _ hx => hx) (fun _ hy => hy) (walkInv_start g og nt nodes _ _ hacc) hwalk
      have hne : acc.genes ≠ [] := by
        apply c
        right
        cases hb : p1Better f1 f2 g.genes.length og.genes.length
        · exact Or.inr ⟨rfl, hw2.wf.hasGene⟩
        · exact Or.inl ⟨rfl, hw1.wf.hasGene⟩
      exact child_wft g og nt acc id a b hne hw1 hw2 hl hids

/-- averaging multipoint crossover, under the node/trait part of the lineage hypothesis only -/
theorem mateMultipointAvg_node (g og : Genome W) (id : Int) (f1 f2 : W) (rs rs' : List Nat) (c : Genome W)
    (hw1 : WFT g) (hw2 : WFT og) (hl : NodeLineage g og)
    (h : mateMultipointAvg g og id f1 f2 rs = .ok (c, rs')) : WFT c ∧ Retains og c ∧ Retains g c := by
  unfold mateMultipointAvg at h
  split at h
  · cases h
  · rename_i nt t0 nodes hpro
    simp only at h
    split at h
    · cases h
    · rename_i acc rs1 hwalk
      simp only [Except.ok.injEq, Prod.mk.injEq] at h
      obtain ⟨rfl, _⟩ := h
      obtain ⟨hids, hz, hacc⟩ := matePrologue_spec g og nt t0 nodes hpro hw1 hw2
      obtain ⟨a, b, c⟩ := multipointAvgWalk_inv g og nt t0 _ g.genes og.genes _ rs acc rs1 hz hw1.wf.genesSorted
        hw2.wf.genesSorted (fun _ hx => hx) (fun _ hy => hy) (walkInv_start g og nt nodes _ _ hacc) hwalk
      have hne : acc.genes ≠ [] := by
        apply c
        right
        cases hb : p1Better f1 f2 g.genes.length og.genes.length
        · exact Or.inr ⟨rfl, hw2.wf.hasGene⟩
        · exact Or.inl ⟨rfl, hw1.wf.hasGene⟩
      exact child_wft g og nt acc id a b hne hw1 hw2 hl hids

/-  Full-strength statement of the property for single-point crossover (FALSE of the code, see
    `C01_singlepoint_counterexample` below — known finding K1):

      theorem mateSinglePoint_wf_full (hw1 : WFT g) (hw2 : WFT og) (hl : SameLineage g og)
          (h : mateSinglePoint g og id rs = .ok (c, rs')) : WFT c ∧ Retains og c ∧ Retains g c

    What is proved: the same under the additional hypothesis `SharedHead g og` (first genes carry the same innovation
    number), which holds in every population spawned from one genome. -/

/-- single-point crossover, under the node/trait part of the lineage hypothesis and `SharedHead` -/
theorem mateSinglePoint_node (g og : Genome W) (id : Int) (rs rs' : List Nat) (c : Genome W)
    (hw1 : WFT g) (hw2 : WFT og) (hl : NodeLineage g og) (hh : SharedHead g og)
    (h : mateSinglePoint g og id rs = .ok (c, rs')) : WFT c ∧ Retains og c ∧ Retains g c := by
  unfold mateSinglePoint at h
  split at h
  · cases h
  · rename_i nt t0 nodes hpro
    simp only at h
    split at h
    · cases h
    · rename_i cp rs1 _
      split at h
      · cases h
      · rename_i acc rs2 hwalk
        simp only [Except.ok.injEq, Prod.mk.injEq] at h
        obtain ⟨rfl, _⟩ := h
        obtain ⟨hids, hz, hacc⟩ := matePrologue_spec g og nt t0 nodes hpro hw1 hw2
        -- the two first genes
        obtain ⟨x, xs, hx⟩ : ∃ x xs, g.genes = x :: xs := by
          cases hg : g.genes with
          | nil => exact absurd hg hw1.wf.hasGene
          | cons x xs => exact ⟨x, xs, rfl⟩
        obtain ⟨y, ys, hy⟩ : ∃ y ys, og.genes = y :: ys := by
          cases hg : og.genes with
          | nil => exact absurd hg hw2.wf.hasGene
          | cons y ys => exact ⟨y, ys, rfl⟩
        have hxy : x.inn = y.inn := by
          unfold SharedHead at hh
          rw [hx, hy] at hh
          simpa using hh
        by_cases hsh : g.genes.length < og.genes.length
        · simp only [hsh, decide_true, ↓reduceIte] at hwalk
          obtain ⟨a, b, c⟩ := singlePointWalk_inv g og g og (Or.inl ⟨rfl, rfl⟩) nt t0 cp g.genes og.genes 0 none _ rs1
            acc rs2 hz hw1.wf.genesSorted hw2.wf.genesSorted (fun _ h => h) (fun _ h => h) hacc (by simp [GenesSorted])
            (by simp) (by simp) hwalk
          exact child_wft g og nt acc id a b (c (Or.inr ⟨x, xs, y, ys, hx, hy, hxy⟩)) hw1 hw2 hl hids
        · simp only [hsh, decide_false, Bool.false_eq_true, ↓reduceIte] at hwalk
          obtain ⟨a, b, c⟩ := singlePointWalk_inv g og og g (Or.inr ⟨rfl, rfl⟩) nt t0 cp og.genes g.genes 0 none _ rs1
            acc rs2 hz hw2.wf.genesSorted hw1.wf.genesSorted (fun _ h => h) (fun _ h => h) hacc (by simp [GenesSorted])
            (by simp) (by simp) hwalk
          exact child_wft g og nt acc id a b (c (Or.inr ⟨y, ys, x, xs, hy, hx, hxy.symm⟩)) hw1 hw2 hl hids

/-- **multipoint crossover preserves well-formedness** (parents of one lineage) -/
theorem mateMultipoint_wf (g og : Genome W) (id : Int) (f1 f2 : W) (rs rs' : List Nat) (c : Genome W)
    (hw1 : WFT g) (hw2 : WFT og) (hl : SameLineage g og)
    (h : mateMultipoint g og id f1 f2 rs = .ok (c, rs')) : WFT c ∧ Retains og c ∧ Retains g c :=
  mateMultipoint_node g og id f1 f2 rs rs' c hw1 hw2 (nodeLineage_of_sameLineage hl) h

/-- **averaging multipoint crossover preserves well-formedness** (parents of one lineage) -/
theorem mateMultipointAvg_wf (g og : Genome W) (id : Int) (f1 f2 : W) (rs rs' : List Nat) (c : Genome W)
    (hw1 : WFT g) (hw2 : WFT og) (hl : SameLineage g og)
    (h : mateMultipointAvg g og id f1 f2 rs = .ok (c, rs')) : WFT c ∧ Retains og c ∧ Retains g c :=
  mateMultipointAvg_node g og id f1 f2 rs rs' c hw1 hw2 (nodeLineage_of_sameLineage hl) h

/-- **single-point crossover preserves well-formedness for parents of one lineage that share their first gene** -/
theorem C01_singlepoint_partial (g og : Genome W) (id : Int) (rs rs' : List Nat) (c : Genome W)
    (hw1 : WFT g) (hw2 : WFT og) (hl : SameLineage g og) (hh : SharedHead g og)
    (h : mateSinglePoint g og id rs = .ok (c, rs')) : WFT c ∧ Retains og c ∧ Retains g c :=
  mateSinglePoint_node g og id rs rs' c hw1 hw2 (nodeLineage_of_sameLineage hl) hh h

/-! ## spawning a population -/

omit [Scalar W] in
theorem nodes_le_last (nodes : List Node) (hs : NodesSorted nodes) (last : Node) (hl : nodes.getLast? = some last) :
    ∀ n ∈ nodes, n.id ≤ last.id := by
  obtain ⟨pre, rfl⟩ := List.getLast?_eq_some_iff.mp hl
  unfold NodesSorted at hs
  rw [List.pairwise_append] at hs
  intro n hn
  rcases List.mem_append.mp hn with h | h
  · have := hs.2.2 n h last (by simp); omega
  · simp at h; subst h; omega

/-- **every member of a spawned population is well-formed**, has the start genome's skeleton (so retains all its
    input/bias/output nodes, is of its lineage and shares its first gene), and the population's registry starts in a
    state that satisfies the registry invariant for every member: no records, counters at/above every number in use -/
theorem spawn_wf (o : EpochOpts W) (g : Genome W) (rs rs' : List Nat) (p : Pop W) (hw : WFT g) (hm : g.modules = [])
    (h : spawn o g rs = .ok (p, rs')) :
    ∀ x ∈ allOrgs p, WFT x.genome ∧ Retains g x.genome ∧ SameSkel g x.genome ∧ RegInv p.reg x.genome := by
  unfold spawn at h
  split at h
  · cases h
  · split at h
    · cases h
    · rename_i orgs rs1 hloop
      split at h
      · cases h
      · rename_i lastNode hln
        split at h
        · cases h
        · rename_i nextInn hni
          simp only at h
          split at h
          · cases h
          · rename_i p' hsp
            simp only [Except.ok.injEq, Prod.mk.injEq] at h
            obtain ⟨rfl, _⟩ := h
            obtain ⟨horgs, hreg⟩ := speciate_orgs o _ _ _ hsp
            have hmem := spawnLoop_members g hw hm _ _ _ _ _ _ hloop
            -- the registry invariant for the start genome
            have hig : RegInv p'.reg g := by
              rw [hreg]
              refine ⟨by intro i hi; simp at hi, ⟨?_, ?_⟩, ⟨by intro i hi; simp at hi, by intro i hi; simp at hi⟩⟩
              · intro x hx
                -- (fix 48b1f99: the accessor takes the maximum over all genes)
                exact g.nextGeneInnov_gt _ hni x hx
              · intro n hn
                have := g.lastNodeId_ge _ hln n hn
                show n.id ≤ lastNode + 1
                omega
            intro x hx
            rcases horgs x hx with h' | h'
            · simp [allOrgs] at h'
            · obtain ⟨w, s⟩ := hmem x h'
              exact ⟨w, s.retains, s, s.regInv _ hig⟩

/-! ## population-level closure, part 1: what a structural mutation does to the registry, the node set and the first gene

`StepRel reg g reg' g'`: the registry only grows by records made of fresh numbers (`RegExt`), old nodes stay, a new
node is hidden and its id is fresh or recorded, trait ids and modules are untouched, and the first gene keeps its
number (new genes carry numbers above it: fresh ones by `CounterAbove`, recorded ones by `HeadBelowRecords`). -/

omit [Scalar W] in
theorem stepRel_addGene (reg reg' : Reg W) (g : Genome W) (x : Gene W) (hw : WFT g)
    (hw' : WFT ({ g with genes := geneInsert g.genes x } : Genome W)) (he : RegExt reg reg')
    (hlt : ∀ h0 ∈ g.genes.take 1, h0.inn < x.inn) :
    StepRel reg g reg' ({ g with genes := geneInsert g.genes x } : Genome W) := by
  refine ⟨he, fun _ h => h, fun _ h => Or.inl h, rfl, ?_, rfl⟩
  apply head_preserved g _ hw hw'.wf.genesSorted
  · intro y hy
    exact ⟨y, (mem_insertAt _ _ _ _).mpr (Or.inr hy), rfl⟩
  · intro z hz
    rcases (mem_insertAt _ _ _ _).mp hz with rfl | h
    · exact Or.inr hlt
    · exact Or.inl ⟨z, h, rfl⟩

theorem mutateAddLink_step (g g' : Genome W) (reg reg' : Reg W) (o : MutOpts W) (rs rs' : List Nat) (b : Bool)
    (hw : WFT g) (hi : RegInv reg g) (hb : HeadBelowRecords reg g)
    (h : mutateAddLink g reg o rs = .ok ((g', reg', b), rs')) : StepRel reg g reg' g' := by
  have hwf := (mutateAddLink_wf g g' reg reg' o rs rs' b hw hi h).1
  unfold mutateAddLink at h
  split at h
  · cases h
  · split at h
    · cases h
    · split at h
      · cases h
      · simp only at h
        split at h
        · cases h
        · simp only [Except.ok.injEq, Prod.mk.injEq] at h
          obtain ⟨⟨rfl, rfl, _⟩, _⟩ := h
          exact StepRel.refl _ _
        · simp only [Except.ok.injEq, Prod.mk.injEq] at h
          obtain ⟨⟨rfl, rfl, _⟩, _⟩ := h
          exact StepRel.refl _ _
        · split at h
          · rename_i inn hfind
            have hmem : inn ∈ reg.records := List.mem_of_find?_eq_some hfind
            have hp := List.find?_some hfind
            simp only [Bool.and_eq_true, beq_iff_eq] at hp
            obtain ⟨⟨⟨ht, _⟩, _⟩, _⟩ := hp
            split at h
            · cases h
            · split at h
              · simp only [Except.ok.injEq, Prod.mk.injEq] at h
                obtain ⟨⟨rfl, rfl, _⟩, _⟩ := h
                exact StepRel.refl _ _
              · split at h
                · cases h
                · simp only [Except.ok.injEq, Prod.mk.injEq] at h
                  obtain ⟨⟨rfl, rfl, _⟩, _⟩ := h
                  exact stepRel_addGene reg reg g _ hw hwf (RegExt.refl _) (fun h0 hh => (hb h0 hh inn hmem).1 ht)
          · split at h
            · cases h
            · split at h
              · cases h
              · split at h
                · cases h
                · split at h
                  · cases h
                  · simp only [Except.ok.injEq, Prod.mk.injEq] at h
                    obtain ⟨⟨rfl, rfl, _⟩, _⟩ := h
                    exact stepRel_addGene reg _ g _ hw hwf (RegExt.fresh2 reg _ rfl rfl)
                      (fun h0 hh => by
                        have := hi.above.1 h0 (List.mem_of_mem_take hh)
                        show h0.inn < reg.nextInn + 1
                        omega)

theorem connectOne_step (sensor output : Node) (g g' : Genome W) (reg reg' : Reg W) (added added' : Bool)
    (rs rs' : List Nat) (hw : WFT g) (hi : RegInv reg g) (hb : HeadBelowRecords reg g) (hs : sensor ∈ g.nodes)
    (ho : output ∈ g.nodes) (hos : output.isSensor = false)
    (h : connectOne sensor output g reg added rs = .ok (some (g', reg', added'), rs')) : StepRel reg g reg' g' := by
  have hwf := (connectOne_wf sensor output g g' reg reg' added added' rs rs' hw hi hs ho hos h).1
  unfold connectOne at h
  split at h
  · simp only [Except.ok.injEq, Prod.mk.injEq, Option.some.injEq] at h
    obtain ⟨⟨rfl, rfl, _⟩, _⟩ := h
    exact StepRel.refl _ _
  · split at h
    · rename_i inn hfind
      have hmem : inn ∈ reg.records := List.mem_of_find?_eq_some hfind
      have hp := List.find?_some hfind
      simp only [Bool.and_eq_true, beq_iff_eq, Bool.not_eq_eq_eq_not, Bool.not_true] at hp
      obtain ⟨⟨⟨ht, _⟩, _⟩, _⟩ := hp
      split at h
      · cases h
      · simp only at h
        split at h
        · simp at h
        · simp only [Except.ok.injEq, Prod.mk.injEq, Option.some.injEq] at h
          obtain ⟨⟨rfl, rfl, _⟩, _⟩ := h
          exact stepRel_addGene reg reg g _ hw hwf (RegExt.refl _) (fun h0 hh => (hb h0 hh inn hmem).1 ht)
    · split at h
      · cases h
      · split at h
        · cases h
        · split at h
          rename_i innId reg1 hpair
          simp only [Reg.nextInnovation, Prod.mk.injEq] at hpair
          obtain ⟨rfl, rfl⟩ := hpair
          split at h
          · cases h
          · simp only [Except.ok.injEq, Prod.mk.injEq, Option.some.injEq] at h
            obtain ⟨⟨rfl, rfl, _⟩, _⟩ := h
            exact stepRel_addGene reg _ g _ hw hwf (RegExt.fresh2 reg _ rfl rfl)
              (fun h0 hh => by
                have := hi.above.1 h0 (List.mem_of_mem_take hh)
                show h0.inn < reg.nextInn + 1
                omega)

theorem connectLoop_step (sensor : Node) (outs : List Node) (g g' : Genome W) (reg reg' : Reg W) (added b : Bool)
    (rs rs' : List Nat) (hw : WFT g) (hi : RegInv reg g) (hb : HeadBelowRecords reg g) (hs : sensor ∈ g.nodes)
    (ho : ∀ o ∈ outs, o ∈ g.nodes ∧ o.isSensor = false)
    (h : connectLoop sensor outs g reg added rs = .ok ((g', reg', b), rs')) : StepRel reg g reg' g' := by
  induction outs generalizing g reg added rs with
  | nil =>
    unfold connectLoop at h
    simp only [Except.ok.injEq, Prod.mk.injEq] at h
    obtain ⟨⟨rfl, rfl, _⟩, _⟩ := h
    exact StepRel.refl _ _
  | cons o os ih =>
    unfold connectLoop at h
    split at h
    · cases h
    · simp only [Except.ok.injEq, Prod.mk.injEq] at h
      obtain ⟨⟨rfl, rfl, _⟩, _⟩ := h
      exact StepRel.refl _ _
    · rename_i g1 reg1 added1 rs1 h1
      obtain ⟨w1, i1, n1⟩ := connectOne_wf sensor o g g1 reg reg1 added added1 rs rs1 hw hi hs
        (ho o (by simp)).1 (ho o (by simp)).2 h1
      have s1 := connectOne_step sensor o g g1 reg reg1 added added1 rs rs1 hw hi hb hs
        (ho o (by simp)).1 (ho o (by simp)).2 h1
      have hb1 := (s1.fits w1 hw hi hb).1
      exact s1.trans (ih g1 reg1 added1 rs1 w1 i1 hb1 (by rw [n1]; exact hs)
        (fun x hx => by rw [n1]; exact ho x (List.mem_cons_of_mem _ hx)) h)

theorem mutateConnectSensors_step (g g' : Genome W) (reg reg' : Reg W) (rs rs' : List Nat) (b : Bool)
    (hw : WFT g) (hi : RegInv reg g) (hb : HeadBelowRecords reg g)
    (h : mutateConnectSensors g reg rs = .ok ((g', reg', b), rs')) : StepRel reg g reg' g' := by
  unfold mutateConnectSensors at h
  split at h
  · cases h
  · simp only at h
    split at h
    · simp only [Except.ok.injEq, Prod.mk.injEq] at h
      obtain ⟨⟨rfl, rfl, _⟩, _⟩ := h
      exact StepRel.refl _ _
    · split at h
      · cases h
      · split at h
        · cases h
        · rename_i sensor hk
          have hsm := List.mem_of_getElem? hk
          have hs : sensor ∈ g.nodes := (List.mem_filter.mp (List.mem_filter.mp hsm).1).1
          exact connectLoop_step sensor _ g g' reg reg' false b _ rs' hw hi hb hs
            (fun o ho => by
              have := List.mem_filter.mp ho
              exact ⟨this.1, by simpa using this.2⟩) h

theorem mutateAddNode_step (g g' : Genome W) (reg reg' : Reg W) (o : MutOpts W) (rs rs' : List Nat) (b : Bool)
    (hw : WFT g) (hi : RegInv reg g) (hb : HeadBelowRecords reg g)
    (h : mutateAddNode g reg o rs = .ok ((g', reg', b), rs')) : StepRel reg g reg' g' := by
  have hwf := (mutateAddNode_wf g g' reg reg' o rs rs' b hw hi h).1
  unfold mutateAddNode at h
  split at h
  · simp only [Except.ok.injEq, Prod.mk.injEq] at h
    obtain ⟨⟨rfl, rfl, _⟩, _⟩ := h
    exact StepRel.refl _ _
  · simp only at h
    split at h
    · cases h
    · simp only [Except.ok.injEq, Prod.mk.injEq] at h
      obtain ⟨⟨rfl, rfl, _⟩, _⟩ := h
      exact StepRel.refl _ _
    · rename_i k rs1 _
      split at h
      · cases h
      · rename_i gene hk
        obtain ⟨hskel, hrefs1, hkeys⟩ := setEnabledAt_step g k false hw.wf.traitRefs
        -- every old number survives in the disabled-gene list, and nothing else is in it
        have hold1 : ∀ y ∈ g.genes, ∃ z ∈ setEnabledAt g.genes k false, z.inn = y.inn := by
          intro y hy
          have : y.inn ∈ (setEnabledAt g.genes k false).map (·.inn) := by
            have e := hskel.inns
            rw [show ({ g with genes := setEnabledAt g.genes k false } : Genome W).genes = setEnabledAt g.genes k false from rfl] at e
            rw [e]; exact List.mem_map_of_mem hy
          obtain ⟨z, hz, e⟩ := List.mem_map.mp this
          exact ⟨z, hz, e⟩
        have hsplit : ∀ (x1 x2 : Gene W) (n : Node) (reg2 : Reg W), RegExt reg reg2 →
            (∀ h0 ∈ g.genes.take 1, h0.inn < x1.inn ∧ h0.inn < x2.inn) →
            (n.kind = Kind.hidden ∧ (reg.nextNode < n.id ∨ ∃ i ∈ reg.records, i.typ = 1 ∧ i.newNode = n.id)) →
            GenesSorted (geneInsert (geneInsert (setEnabledAt g.genes k false) x1) x2) →
            StepRel reg g reg2 ({ g with genes := geneInsert (geneInsert (setEnabledAt g.genes k false) x1) x2,
                                         nodes := nodeInsert g.nodes n } : Genome W) := by
          intro x1 x2 n reg2 he hlt hn hsorted
          refine ⟨he, fun m hm => (mem_insertAt _ _ _ _).mpr (Or.inr hm), ?_, rfl, ?_, rfl⟩
          · intro m hm
            rcases (mem_insertAt _ _ _ _).mp hm with rfl | h'
            · exact Or.inr hn
            · exact Or.inl h'
          · apply head_preserved g _ hw hsorted
            · intro y hy
              obtain ⟨z, hz, e⟩ := hold1 y hy
              exact ⟨z, (mem_insertAt _ _ _ _).mpr (Or.inr ((mem_insertAt _ _ _ _).mpr (Or.inr hz))), e⟩
            · intro z hz
              rcases (mem_insertAt _ _ _ _).mp hz with rfl | h'
              · exact Or.inr (fun h0 hh => (hlt h0 hh).2)
              · rcases (mem_insertAt _ _ _ _).mp h' with rfl | h''
                · exact Or.inr (fun h0 hh => (hlt h0 hh).1)
                · obtain ⟨y, hy, e, _⟩ := hkeys z h''
                  exact Or.inl ⟨y, hy, (geneKey_eq e).1⟩
        split at h
        · rename_i inn hfind
          have hmem : inn ∈ reg.records := List.mem_of_find?_eq_some hfind
          have hp := List.find?_some hfind
          simp only [Bool.and_eq_true, beq_iff_eq] at hp
          obtain ⟨⟨⟨ht, _⟩, _⟩, _⟩ := hp
          split at h
          · cases h
          · split at h
            · simp only [Except.ok.injEq, Prod.mk.injEq] at h
              obtain ⟨⟨rfl, rfl, _⟩, _⟩ := h
              exact StepRel.of_sameSkel reg hskel rfl rfl
            · simp only [Except.ok.injEq, Prod.mk.injEq] at h
              obtain ⟨⟨rfl, rfl, _⟩, _⟩ := h
              exact hsplit _ _ _ reg (RegExt.refl _) (fun h0 hh => (hb h0 hh inn hmem).2 ht)
                ⟨rfl, Or.inr ⟨inn, hmem, ht, rfl⟩⟩ hwf.wf.genesSorted
        · split at h
          · cases h
          · split at h
            · cases h
            · simp only [Reg.nextNodeId, Reg.nextInnovation, Except.ok.injEq, Prod.mk.injEq] at h
              obtain ⟨⟨rfl, rfl, _⟩, _⟩ := h
              refine hsplit _ _ _ _ (RegExt.fresh1 reg _ rfl rfl rfl rfl) (fun h0 hh => ?_)
                ⟨rfl, Or.inl (by show reg.nextNode < reg.nextNode + 1; omega)⟩ hwf.wf.genesSorted
              have := hi.above.1 h0 (List.mem_of_mem_take hh)
              constructor
              · show h0.inn < reg.nextInn + 1; omega
              · show h0.inn < reg.nextInn + 1 + 1; omega

/-! ## population-level closure, part 2: every operator keeps the pool invariant

`Fits reg P g`: `g` is well-formed (`WFT`), non-modular, satisfies `RegInv reg`, its first gene is below every recorded
number, and it is of the node lineage of, and shares its first gene with, every member of the pool `P`.
`PoolOk reg P`: every member of `P` fits.  (The gene clause of `SameLineage` — one number, one link — is not needed
for well-formedness; it is property C03.) -/

theorem dup_closed {reg : Reg W} {P : List (Genome W)} {g d : Genome W} (id : Int) (hf : Fits reg P g)
    (h : g.duplicate id = .ok d) : Fits reg P d := by
  obtain ⟨d', hd', rfl, _, _, hs⟩ := duplicate_wf g id hf.wft hf.nomod
  rw [hd'] at h
  cases h
  exact hf.skel hs (hs.wft hf.wft.wf.traitRefs hf.wft).wf.traitRefs

theorem linkWeights_closed {reg : Reg W} {P : List (Genome W)} {g g' : Genome W} (power rate : W) (mt : WeightMutator)
    (rs rs' : List Nat) (hf : Fits reg P g) (h : mutateLinkWeights g power rate mt rs = .ok (g', rs')) : Fits reg P g' := by
  obtain ⟨w, _, _, hs⟩ := mutateLinkWeights_wf g g' power rate mt rs rs' hf.wft h
  exact hf.skel hs w.wf.traitRefs

theorem nonstructural_closed {reg : Reg W} {P : List (Genome W)} {g g' : Genome W} (o : MutOpts W)
    (rs rs' : List Nat) (hf : Fits reg P g) (h : mutateAllNonstructural g o rs = .ok (g', rs')) : Fits reg P g' := by
  obtain ⟨w, _, _, hs⟩ := mutateAllNonstructural_wf g g' o rs rs' hf.wft h
  exact hf.skel hs w.wf.traitRefs

theorem addNode_closed {reg reg' : Reg W} {P : List (Genome W)} {g g' : Genome W} (o : MutOpts W) (rs rs' : List Nat)
    (b : Bool) (hP : PoolOk reg P) (hf : Fits reg P g) (h : mutateAddNode g reg o rs = .ok ((g', reg', b), rs')) :
    Fits reg' P g' ∧ PoolOk reg' P := by
  obtain ⟨w, _, i⟩ := mutateAddNode_wf g g' reg reg' o rs rs' b hf.wft hf.rinv h
  exact struct_closed hP hf (mutateAddNode_step g g' reg reg' o rs rs' b hf.wft hf.rinv hf.hbr h) w i

theorem addLink_closed {reg reg' : Reg W} {P : List (Genome W)} {g g' : Genome W} (o : MutOpts W) (rs rs' : List Nat)
    (b : Bool) (hP : PoolOk reg P) (hf : Fits reg P g) (h : mutateAddLink g reg o rs = .ok ((g', reg', b), rs')) :
    Fits reg' P g' ∧ PoolOk reg' P := by
  obtain ⟨w, _, i⟩ := mutateAddLink_wf g g' reg reg' o rs rs' b hf.wft hf.rinv h
  exact struct_closed hP hf (mutateAddLink_step g g' reg reg' o rs rs' b hf.wft hf.rinv hf.hbr h) w i

theorem connectSensors_closed {reg reg' : Reg W} {P : List (Genome W)} {g g' : Genome W} (rs rs' : List Nat)
    (b : Bool) (hP : PoolOk reg P) (hf : Fits reg P g) (h : mutateConnectSensors g reg rs = .ok ((g', reg', b), rs')) :
    Fits reg' P g' ∧ PoolOk reg' P := by
  obtain ⟨w, _, i⟩ := mutateConnectSensors_wf g g' reg reg' rs rs' b hf.wft hf.rinv h
  exact struct_closed hP hf (mutateConnectSensors_step g g' reg reg' rs rs' b hf.wft hf.rinv hf.hbr h) w i

/-- the mutation chain applied to a fresh baby genome (`Species.reproduce`) -/
theorem mutateBaby_closed {reg reg' : Reg W} {P : List (Genome W)} {g g' : Genome W} (o : EpochOpts W)
    (rs rs' : List Nat) (b : Bool) (hP : PoolOk reg P) (hf : Fits reg P g)
    (h : mutateBaby o g reg rs = .ok ((g', reg', b), rs')) : Fits reg' P g' ∧ PoolOk reg' P := by
  unfold mutateBaby at h
  split at h
  · cases h
  · rename_i f1 rs1 _
    simp only at h
    -- the structural stage
    have hstruct : ∀ (g1 : Genome W) (reg1 : Reg W) (b1 : Bool) (rs2 : List Nat),
        (if lt f1 o.mutateAddNodeProb then
            match mutateAddNode g reg o.mopts rs1 with
            | .error e => .error e
            | .ok ((g', reg', _), rs2) => .ok ((g', reg', true), rs2)
          else
            match Rand.float64 (W := W) rs1 with
            | .error e => .error e
            | .ok (f2, rs2) =>
              if lt f2 o.mutateAddLinkProb then
                match mutateAddLink g reg o.mopts rs2 with
                | .error e => .error e
                | .ok ((g', reg', _), rs3) => .ok ((g', reg', true), rs3)
              else
                match Rand.float64 (W := W) rs2 with
                | .error e => .error e
                | .ok (f3, rs3) =>
                  if lt f3 o.mutateConnectSensors then mutateConnectSensors g reg rs3
                  else .ok ((g, reg, false), rs3)) = (.ok ((g1, reg1, b1), rs2) : R (Genome W × Reg W × Bool)) →
        Fits reg1 P g1 ∧ PoolOk reg1 P := by
      intro g1 reg1 b1 rs2 hs
      split at hs
      · split at hs
        · cases hs
        · rename_i ga rega ba rsa ha
          simp only [Except.ok.injEq, Prod.mk.injEq] at hs
          obtain ⟨⟨rfl, rfl, _⟩, _⟩ := hs
          exact addNode_closed o.mopts rs1 rsa ba hP hf ha
      · split at hs
        · cases hs
        · split at hs
          · split at hs
            · cases hs
            · rename_i ga rega ba rsa ha
              simp only [Except.ok.injEq, Prod.mk.injEq] at hs
              obtain ⟨⟨rfl, rfl, _⟩, _⟩ := hs
              exact addLink_closed o.mopts _ rsa ba hP hf ha
          · split at hs
            · cases hs
            · split at hs
              · exact connectSensors_closed _ rs2 b1 hP hf hs
              · simp only [Except.ok.injEq, Prod.mk.injEq] at hs
                obtain ⟨⟨rfl, rfl, _⟩, _⟩ := hs
                exact ⟨hf, hP⟩
    split at h
    · cases h
    · rename_i g1 reg1 rs2 hs
      simp only [Except.ok.injEq, Prod.mk.injEq] at h
      obtain ⟨⟨rfl, rfl, _⟩, _⟩ := h
      exact hstruct _ _ _ _ hs
    · rename_i g1 reg1 rs2 hs
      obtain ⟨f, p⟩ := hstruct _ _ _ _ hs
      split at h
      · cases h
      · rename_i g2 rs3 hns
        simp only [Except.ok.injEq, Prod.mk.injEq] at h
        obtain ⟨⟨rfl, rfl, _⟩, _⟩ := h
        exact ⟨nonstructural_closed o.mopts rs2 rs3 f hns, p⟩

/-! ## population-level closure, part 3: reproduction of a species, induction over the babies -/

/-- the pool during the reproduction of a generation: the genomes of the current generation and the babies so far -/
def poolOf (P0 : List (Genome W)) (st : ReproState W) : List (Genome W) := P0 ++ st.babies.map (·.genome)

omit [Scalar W] in
theorem pool_finish {P0 : List (Genome W)} {st st' : ReproState W} {gB : Genome W}
    (hb : st'.babies.map (·.genome) = st.babies.map (·.genome) ++ [gB])
    (hP : PoolOk st'.reg (poolOf P0 st)) (hf : Fits st'.reg (poolOf P0 st) gB) : PoolOk st'.reg (poolOf P0 st') := by
  unfold poolOf at *
  rw [hb, ← List.append_assoc]
  exact hP.add hf

theorem pickOtherSpecies_mem (s : Species W) (sorted : List (Species W)) (n : Nat) (cur sp : Species W)
    (rs rs' : List Nat) (h : pickOtherSpecies s sorted n cur rs = .ok (sp, rs')) : sp = cur ∨ sp ∈ sorted := by
  induction n generalizing cur rs with
  | zero => unfold pickOtherSpecies at h; cases h; exact Or.inl rfl
  | succ k ih =>
    unfold pickOtherSpecies at h
    split at h
    · split at h
      · cases h
      · simp only at h
        split at h
        · cases h
        · split at h
          · cases h
          · rename_i sp' hsp
            rcases ih _ _ h with rfl | h'
            · exact Or.inr (List.mem_of_getElem? hsp)
            · exact Or.inr h'
    · cases h; exact Or.inl rfl

/-- **one offspring**: whatever branch `Species.reproduce` takes (super-champion clone with or without mutation, champion
    clone, mutation only, mating with or without mutation; mate from the same or another species; any of the three
    crossovers), the pool invariant holds for the pool extended by the baby, under the registry after the baby -/
theorem reproduceOne_closed (o : EpochOpts W) (generation : Int) (s : Species W) (sorted : List (Species W))
    (champ : Org W) (count : Int) (st st' : ReproState W) (rs rs' : List Nat) (P0 : List (Genome W))
    (hchamp : champ.genome ∈ P0) (hs : ∀ x ∈ s.orgs, x.genome ∈ P0)
    (hsorted : ∀ sp ∈ sorted, ∀ x ∈ sp.orgs, x.genome ∈ P0)
    (hP : PoolOk st.reg (poolOf P0 st))
    (h : reproduceOne o generation s sorted champ count st rs = .ok (st', rs')) : PoolOk st'.reg (poolOf P0 st') := by
  have hin : ∀ g ∈ P0, Fits st.reg (poolOf P0 st) g := fun g hg => hP g (List.mem_append_left _ hg)
  unfold reproduceOne at h
  simp only at h
  split at h
  · -- super-champion offspring
    split at h
    · cases h
    · rename_i g0 hd
      have f0 := dup_closed count (hin _ hchamp) hd
      have hmut : ∀ (g1 : Genome W) (reg1 : Reg W) (ms : Bool) (rs1 : List Nat),
          (if st.superChamp > 1 then
              match Rand.float64 (W := W) rs with
              | .error e => .error e
              | .ok (f, rs1) =>
                if lt f (ofDec 8 1) || eq o.mutateAddLinkProb zero then
                  match mutateLinkWeights g0 o.mopts.weightMutPower one .gaussian rs1 with
                  | .error e => .error e
                  | .ok (g1, rs2) => .ok ((g1, st.reg, false), rs2)
                else
                  match mutateAddLink g0 st.reg o.mopts rs1 with
                  | .error e => .error e
                  | .ok ((g1, reg1, _), rs2) => .ok ((g1, reg1, true), rs2)
            else .ok ((g0, st.reg, false), rs)) = (.ok ((g1, reg1, ms), rs1) : R (Genome W × Reg W × Bool)) →
          Fits reg1 (poolOf P0 st) g1 ∧ PoolOk reg1 (poolOf P0 st) := by
        intro g1 reg1 ms rs1 hm
        split at hm
        · split at hm
          · cases hm
          · split at hm
            · split at hm
              · cases hm
              · rename_i ga rsa ha
                simp only [Except.ok.injEq, Prod.mk.injEq] at hm
                obtain ⟨⟨rfl, rfl, _⟩, _⟩ := hm
                exact ⟨linkWeights_closed _ _ _ _ rsa f0 ha, hP⟩
            · split at hm
              · cases hm
              · rename_i ga rega ba rsa ha
                simp only [Except.ok.injEq, Prod.mk.injEq] at hm
                obtain ⟨⟨rfl, rfl, _⟩, _⟩ := hm
                exact addLink_closed o.mopts _ rsa ba hP f0 ha
        · simp only [Except.ok.injEq, Prod.mk.injEq] at hm
          obtain ⟨⟨rfl, rfl, _⟩, _⟩ := hm
          exact ⟨f0, hP⟩
      split at h
      · cases h
      · rename_i g1 reg1 ms rs1 hm
        obtain ⟨f1, p1⟩ := hmut _ _ _ _ hm
        simp only [Except.ok.injEq, Prod.mk.injEq] at h
        obtain ⟨rfl, _⟩ := h
        exact pool_finish (gB := g1) (by simp [newOrganism]) p1 f1
  · split at h
    · -- champion clone
      split at h
      · cases h
      · rename_i g0 hd
        simp only [Except.ok.injEq, Prod.mk.injEq] at h
        obtain ⟨rfl, _⟩ := h
        exact pool_finish (gB := g0) (by simp [newOrganism]) hP (dup_closed count (hin _ hchamp) hd)
    · split at h
      · cases h
      · rename_i f rs1 _
        split at h
        · -- mutation only
          split at h
          · cases h
          · rename_i k rs2 _
            split at h
            · cases h
            · rename_i mom hmom
              have hm : mom.genome ∈ P0 := hs mom (List.mem_of_getElem? hmom)
              split at h
              · cases h
              · rename_i g0 hd
                split at h
                · cases h
                · rename_i g1 reg1 ms rs3 hmb
                  obtain ⟨f1, p1⟩ := mutateBaby_closed o rs2 rs3 ms hP (dup_closed count (hin _ hm) hd) hmb
                  simp only [Except.ok.injEq, Prod.mk.injEq] at h
                  obtain ⟨rfl, _⟩ := h
                  exact pool_finish (gB := g1) (by simp [newOrganism]) p1 f1
        · -- mating
          split at h
          · cases h
          · rename_i k rs2 _
            split at h
            · cases h
            · rename_i mom hmom
              have hm : mom.genome ∈ P0 := hs mom (List.mem_of_getElem? hmom)
              split at h
              · cases h
              · rename_i f2 rs3 _
                -- the mate
                have hdad : ∀ (dad : Org W) (rs4 : List Nat),
                    (if gt f2 o.interspeciesMateRate then
                        match Rand.intn s.orgs.length rs3 with
                        | .error e => .error e
                        | .ok (k2, rs4) =>
                          match s.orgs[k2]? with
                          | none => .error (.error "panic:index")
                          | some d => .ok (d, rs4)
                      else
                        match pickOtherSpecies s sorted 5 s rs3 with
                        | .error e => .error e
                        | .ok (sp, rs4) =>
                          match sp.orgs.head? with
                          | none => .error (.error "panic:index")
                          | some d => .ok (d, rs4)) = (.ok (dad, rs4) : R (Org W)) → dad.genome ∈ P0 := by
                  intro dad rs4 hd
                  split at hd
                  · split at hd
                    · cases hd
                    · split at hd
                      · cases hd
                      · rename_i d hk2
                        simp only [Except.ok.injEq, Prod.mk.injEq] at hd
                        obtain ⟨rfl, _⟩ := hd
                        exact hs _ (List.mem_of_getElem? hk2)
                  · split at hd
                    · cases hd
                    · rename_i sp rs4' hpick
                      split at hd
                      · cases hd
                      · rename_i d hhead
                        simp only [Except.ok.injEq, Prod.mk.injEq] at hd
                        obtain ⟨rfl, _⟩ := hd
                        have hdm : d ∈ sp.orgs := List.mem_of_mem_head? hhead
                        rcases pickOtherSpecies_mem s sorted 5 s sp rs3 rs4' hpick with rfl | hsp
                        · exact hs d hdm
                        · exact hsorted sp hsp d hdm
                split at h
                · cases h
                · rename_i dad rs4 hdadeq
                  have hd := hdad dad rs4 hdadeq
                  have fm := hin _ hm
                  have fd := hin _ hd
                  have hl : NodeLineage mom.genome dad.genome := fm.nodes _ (List.mem_append_left _ hd)
                  have hh : SharedHead mom.genome dad.genome := fm.head _ (List.mem_append_left _ hd)
                  split at h
                  · cases h
                  · rename_i f3 rs5 _
                    -- the child
                    have hchild : ∀ (child : Genome W) (rs7 : List Nat),
                        (if lt f3 o.mateMultipointProb then
                            mateMultipoint mom.genome dad.genome count mom.originalFitness dad.originalFitness rs5
                          else
                            match Rand.float64 (W := W) rs5 with
                            | .error e => .error e
                            | .ok (f4, rs6) =>
                              if lt f4 (div o.mateMultipointAvgProb (add o.mateMultipointAvgProb o.mateSinglepointProb)) then
                                mateMultipointAvg mom.genome dad.genome count mom.originalFitness dad.originalFitness rs6
                              else mateSinglePoint mom.genome dad.genome count rs6) = (.ok (child, rs7) : R (Genome W)) →
                        Fits st.reg (poolOf P0 st) child := by
                      intro child rs7 hc
                      split at hc
                      · exact child_closed fm fd hl hh (mateMultipoint_out _ _ _ _ _ _ _ _ fm.wft fd.wft hc)
                      · split at hc
                        · cases hc
                        · split at hc
                          · exact child_closed fm fd hl hh (mateMultipointAvg_out _ _ _ _ _ _ _ _ fm.wft fd.wft hc)
                          · exact child_closed fm fd hl hh (mateSinglePoint_out _ _ _ _ _ _ fm.wft fd.wft hc)
                    split at h
                    · cases h
                    · rename_i child rs7 hceq
                      have fc := hchild child rs7 hceq
                      split at h
                      · cases h
                      · rename_i f5 rs8 _
                        split at h
                        · split at h
                          · cases h
                          · rename_i g1 reg1 ms rs9 hmb
                            obtain ⟨f1, p1⟩ := mutateBaby_closed o rs8 rs9 ms hP fc hmb
                            simp only [Except.ok.injEq, Prod.mk.injEq] at h
                            obtain ⟨rfl, _⟩ := h
                            exact pool_finish (gB := g1) (by simp [newOrganism]) p1 f1
                        · simp only [Except.ok.injEq, Prod.mk.injEq] at h
                          obtain ⟨rfl, _⟩ := h
                          exact pool_finish (gB := child) (by simp [newOrganism]) hP fc

theorem reproduceLoop_closed (o : EpochOpts W) (generation : Int) (s : Species W) (sorted : List (Species W))
    (champ : Org W) (n : Nat) (count : Int) (st st' : ReproState W) (rs rs' : List Nat) (P0 : List (Genome W))
    (hchamp : champ.genome ∈ P0) (hs : ∀ x ∈ s.orgs, x.genome ∈ P0)
    (hsorted : ∀ sp ∈ sorted, ∀ x ∈ sp.orgs, x.genome ∈ P0)
    (hP : PoolOk st.reg (poolOf P0 st))
    (h : reproduceLoop o generation s sorted champ n count st rs = .ok (st', rs')) : PoolOk st'.reg (poolOf P0 st') := by
  induction n generalizing count st rs with
  | zero => unfold reproduceLoop at h; cases h; exact hP
  | succ k ih =>
    unfold reproduceLoop at h
    split at h
    · cases h
    · rename_i st1 rs1 h1
      exact ih _ _ _ (reproduceOne_closed o generation s sorted champ count st st1 rs rs1 P0 hchamp hs hsorted hP h1) h

/-- **`Species.reproduce` keeps the pool invariant** for the pool extended by all its babies -/
theorem reproduceSpecies_closed (o : EpochOpts W) (generation : Int) (s : Species W) (sorted : List (Species W))
    (reg reg' : Reg W) (uid uid' : Nat) (rs rs' : List Nat) (babies : List (Org W)) (P0 : List (Genome W))
    (hs : ∀ x ∈ s.orgs, x.genome ∈ P0) (hsorted : ∀ sp ∈ sorted, ∀ x ∈ sp.orgs, x.genome ∈ P0)
    (hP : PoolOk reg P0)
    (h : reproduceSpecies o generation s sorted reg uid rs = .ok ((babies, reg', uid'), rs')) :
    PoolOk reg' (P0 ++ babies.map (·.genome)) := by
  unfold reproduceSpecies at h
  split at h
  · split at h <;> cases h
  · rename_i champ hchamp
    simp only at h
    split at h
    · cases h
    · rename_i st rs1 hloop
      simp only [Except.ok.injEq, Prod.mk.injEq] at h
      obtain ⟨⟨rfl, rfl, _⟩, _⟩ := h
      have := reproduceLoop_closed o generation s sorted champ _ 0 _ st rs rs1 P0
        (hs champ (List.mem_of_mem_head? hchamp)) hs hsorted (by simpa [poolOf] using hP) hloop
      exact this

theorem reproduceAll_closed (o : EpochOpts W) (generation : Int) (sorted ss : List (Species W)) (reg reg' : Reg W)
    (uid uid' : Nat) (babies babies' : List (Org W)) (rs rs' : List Nat) (P0 : List (Genome W))
    (hss : ∀ s ∈ ss, ∀ x ∈ s.orgs, x.genome ∈ P0) (hsorted : ∀ sp ∈ sorted, ∀ x ∈ sp.orgs, x.genome ∈ P0)
    (hP : PoolOk reg (P0 ++ babies.map (·.genome)))
    (h : reproduceAll o generation sorted ss reg uid babies rs = .ok ((babies', reg', uid'), rs')) :
    PoolOk reg' (P0 ++ babies'.map (·.genome)) := by
  induction ss generalizing reg uid babies rs with
  | nil =>
    unfold reproduceAll at h
    simp only [Except.ok.injEq, Prod.mk.injEq] at h
    obtain ⟨⟨rfl, rfl, _⟩, _⟩ := h
    exact hP
  | cons s t ih =>
    unfold reproduceAll at h
    split at h
    · cases h
    · rename_i bs reg1 uid1 rs1 hsp
      have h1 := reproduceSpecies_closed o generation s sorted reg reg1 uid uid1 rs rs1 bs (P0 ++ babies.map (·.genome))
        (fun x hx => List.mem_append_left _ (hss s (by simp) x hx))
        (fun sp hsp' x hx => List.mem_append_left _ (hsorted sp hsp' x hx)) hP hsp
      exact ih _ _ _ _ (fun s' hs' => hss s' (List.mem_cons_of_mem _ hs')) (by simpa [List.append_assoc] using h1) h

/-! ## population-level closure, part 4: a whole epoch, and any number of epochs -/

/-- the genomes a population holds -/
def genomesOfPop (p : Pop W) : List (Genome W) := (allOrgs p).map (·.genome)

omit [Scalar W] in
theorem mem_genomesOfPop {p : Pop W} {g : Genome W} : g ∈ genomesOfPop p ↔ ∃ s ∈ p.species, ∃ x ∈ s.orgs, x.genome = g := by
  unfold genomesOfPop
  simp only [List.mem_map, mem_allOrgs]
  constructor
  · rintro ⟨x, ⟨s, hs, hx⟩, e⟩; exact ⟨s, hs, x, hx, e⟩
  · rintro ⟨s, hs, x, hx, e⟩; exact ⟨x, ⟨s, hs, hx⟩, e⟩

omit [Scalar W] in
theorem PoolOk.subset {reg : Reg W} {P P' : List (Genome W)} (h : PoolOk reg P) (hsub : ∀ g ∈ P', g ∈ P) : PoolOk reg P' :=
  fun g hg => let f := h g (hsub g hg)
    ⟨f.wft, f.nomod, f.rinv, f.hbr, fun b hb => f.nodes b (hsub b hb), fun b hb => f.head b (hsub b hb)⟩

omit [Scalar W] in
/-- renumbering genome ids keeps the pool invariant -/
theorem PoolOk.reid {reg : Reg W} {P P' : List (Genome W)} (h : PoolOk reg P)
    (hre : ∀ g' ∈ P', ∃ g ∈ P, g' = { g with id := g'.id }) : PoolOk reg P' := by
  intro g' hg'
  obtain ⟨g, hg, e⟩ := hre g' hg'
  have f := h g hg
  have hs : SameSkel g ({ g with id := g'.id } : Genome W) := ⟨rfl, rfl, rfl, rfl⟩
  rw [e]
  refine ⟨hs.wft f.wft.wf.traitRefs f.wft, f.nomod, hs.regInv reg f.rinv, f.hbr, ?_, ?_⟩
  · intro b' hb'
    obtain ⟨b, hb, eb⟩ := hre b' hb'
    rw [eb]; exact f.nodes b hb
  · intro b' hb'
    obtain ⟨b, hb, eb⟩ := hre b' hb'
    rw [eb]; exact f.head b hb

omit [Scalar W] in
/-- forgetting the generation's innovation records keeps the pool invariant -/
theorem PoolOk.clear {reg : Reg W} {P : List (Genome W)} (h : PoolOk reg P) : PoolOk { reg with records := [] } P := by
  intro g hg
  have f := h g hg
  exact ⟨f.wft, f.nomod, ⟨by intro i hi; simp at hi, f.rinv.above, ⟨by intro i hi; simp at hi, by intro i hi; simp at hi⟩⟩,
         by intro h0 _ i hi; simp at hi, f.nodes, f.head⟩

omit [Scalar W] in
theorem renumber_mem (l : List (Org W)) (k : Int) : ∀ x ∈ renumber l k, ∃ y ∈ l, x.genome = { y.genome with id := x.genome.id } := by
  induction l generalizing k with
  | nil => unfold renumber; simp
  | cons a t ih =>
    unfold renumber
    intro x hx
    rcases List.mem_cons.mp hx with rfl | h
    · exact ⟨a, by simp, rfl⟩
    · obtain ⟨y, hy, e⟩ := ih _ x h
      exact ⟨y, List.mem_cons_of_mem _ hy, e⟩

omit [Scalar W] in
theorem purgeOrAgeLoop_mem (ss : List (Species W)) (k : Int) : ∀ s' ∈ purgeOrAgeLoop ss k, ∀ x ∈ s'.orgs,
    ∃ s ∈ ss, ∃ y ∈ s.orgs, x.genome = { y.genome with id := x.genome.id } := by
  induction ss generalizing k with
  | nil => unfold purgeOrAgeLoop; simp
  | cons s t ih =>
    unfold purgeOrAgeLoop
    split
    · intro s' hs' x hx
      obtain ⟨s0, hs0, y, hy, e⟩ := ih _ s' hs' x hx
      exact ⟨s0, List.mem_cons_of_mem _ hs0, y, hy, e⟩
    · intro s' hs' x hx
      rcases List.mem_cons.mp hs' with rfl | h
      · obtain ⟨y, hy, e⟩ := renumber_mem _ _ x hx
        exact ⟨s, by simp, y, hy, e⟩
      · obtain ⟨s0, hs0, y, hy, e⟩ := ih _ s' h x hx
        exact ⟨s0, List.mem_cons_of_mem _ hs0, y, hy, e⟩

omit [Scalar W] in
theorem finalize_closed (X : List (Genome W)) (p : Pop W) (h : PoolOk p.reg (X ++ genomesOfPop p)) :
    PoolOk (finalizeReproduction p).reg (X ++ genomesOfPop (finalizeReproduction p)) := by
  unfold finalizeReproduction
  simp only
  have h1 : PoolOk p.reg (X ++ genomesOfPop (purgeOrAgeSpecies (purgeOldGeneration p))) := by
    apply h.reid
    intro g' hg'
    rcases List.mem_append.mp hg' with hx | hg'
    · exact ⟨g', List.mem_append_left _ hx, rfl⟩
    · obtain ⟨s', hs', x, hx, rfl⟩ := mem_genomesOfPop.mp hg'
      unfold purgeOrAgeSpecies at hs'
      simp only at hs'
      obtain ⟨s0, hs0, y, hy, e⟩ := purgeOrAgeLoop_mem _ _ s' hs' x hx
      unfold purgeOldGeneration at hs0
      simp only at hs0
      obtain ⟨s1, hs1, rfl⟩ := List.mem_map.mp hs0
      exact ⟨y.genome, List.mem_append_right _ (mem_genomesOfPop.mpr ⟨s1, hs1, y, (List.mem_filter.mp hy).1, rfl⟩), e⟩
  exact h1.clear

/-- **the reproduction phase followed by finalisation keeps the pool invariant**: every genome of the new
    generation is well-formed, they are pairwise of one node lineage and share their first gene, and the registry
    invariant holds for each.  `X` is a list of ghost members (e.g. the start genome) carried along. -/
theorem reproduce_finalize_closed (X : List (Genome W)) (o : EpochOpts W) (generation : Int) (p1 p2 : Pop W) (ex : ExecState)
    (rs rs' : List Nat) (hP : PoolOk p1.reg (X ++ genomesOfPop p1)) (h : reproducePhase o generation p1 ex rs = .ok (p2, rs')) :
    PoolOk (finalizeReproduction p2).reg (X ++ genomesOfPop (finalizeReproduction p2)) := by
  unfold reproducePhase at h
  simp only at h
  split at h
  · cases h
  · rename_i babies reg uid rs1 hall
    split at h
    · cases h
    · split at h
      · cases h
      · rename_i p2' hsp
        simp only [Except.ok.injEq, Prod.mk.injEq] at h
        obtain ⟨rfl, _⟩ := h
        have hmem : ∀ s ∈ p1.species, ∀ x ∈ s.orgs, x.genome ∈ X ++ genomesOfPop p1 :=
          fun s hs x hx => List.mem_append_right _ (mem_genomesOfPop.mpr ⟨s, hs, x, hx, rfl⟩)
        have hall' := reproduceAll_closed o generation _ p1.species p1.reg reg p1.nextUid uid [] babies rs rs1
          (X ++ genomesOfPop p1) hmem
          (fun sp hsp x hx => by
            obtain ⟨i, _, hi⟩ := List.mem_filterMap.mp hsp
            exact hmem sp (List.mem_of_find?_eq_some hi) x hx)
          (by simpa using hP) hall
        obtain ⟨horgs, hreg⟩ := speciate_orgs o _ _ _ hsp
        apply finalize_closed
        rw [hreg]
        apply hall'.subset
        intro g hg
        rcases List.mem_append.mp hg with hx | hg
        · exact List.mem_append_left _ (List.mem_append_left _ hx)
        · obtain ⟨s, hs, x, hx, rfl⟩ := mem_genomesOfPop.mp hg
          rcases horgs x (mem_allOrgs.mpr ⟨s, hs, hx⟩) with h' | h'
          · obtain ⟨s0, hs0, hx0⟩ := mem_allOrgs.mp h'
            exact List.mem_append_left _ (List.mem_append_right _ (mem_genomesOfPop.mpr ⟨s0, hs0, x, hx0, rfl⟩))
          · exact List.mem_append_right _ (List.mem_map_of_mem h')

/-- **C01, epoch closure.**  If every genome of a population fits (`PoolOk`: well-formed, pairwise of one node lineage,
    sharing the first gene, registry invariant), then so does every genome of the population `NextEpoch` returns —
    for every fitness assignment, every option setting and every random stream. -/
theorem nextEpoch_closed (X : List (Genome W)) (o : EpochOpts W) (generation : Int) (p p' : Pop W) (rs rs' : List Nat)
    (hP : PoolOk p.reg (X ++ genomesOfPop p)) (h : nextEpoch o generation p rs = .ok (p', rs')) :
    PoolOk p'.reg (X ++ genomesOfPop p') := by
  unfold nextEpoch at h
  split at h
  · cases h
  · rename_i p1 ex rs1 hprep
    split at h
    · cases h
    · rename_i p2 rs2 hrep
      simp only [Except.ok.injEq, Prod.mk.injEq] at h
      obtain ⟨rfl, _⟩ := h
      obtain ⟨hsub, hreg⟩ := prepare_genomes o p p1 ex rs rs1 hprep
      have hP1 : PoolOk p1.reg (X ++ genomesOfPop p1) := by
        rw [hreg]
        apply hP.subset
        intro g hg
        rcases List.mem_append.mp hg with hx | hg
        · exact List.mem_append_left _ hx
        · obtain ⟨s, hs, x, hx, rfl⟩ := mem_genomesOfPop.mp hg
          obtain ⟨s0, hs0, y, hy, e⟩ := hsub s hs x hx
          exact List.mem_append_right _ (mem_genomesOfPop.mpr ⟨s0, hs0, y, hy, e⟩)
      exact reproduce_finalize_closed X o generation p1 p2 ex rs1 rs2 hP1 hrep

/-- what happens to a population between and during epochs: fitness evaluation changes no genome and not the
    registry; an epoch is `nextEpoch` with any options, generation number and random stream -/
inductive Evolves : Pop W → Pop W → Prop where
  | refl (p : Pop W) : Evolves p p
  | eval {p q r : Pop W} : Evolves p q → (∀ g ∈ genomesOfPop r, g ∈ genomesOfPop q) → r.reg = q.reg → Evolves p r
  | epoch {p q r : Pop W} (o : EpochOpts W) (generation : Int) (rs rs' : List Nat) :
      Evolves p q → nextEpoch o generation q rs = .ok (r, rs') → Evolves p r

/-- **C01, any number of epochs** (induction over the history) -/
theorem evolves_closed (X : List (Genome W)) (p q : Pop W) (hP : PoolOk p.reg (X ++ genomesOfPop p)) (h : Evolves p q) :
    PoolOk q.reg (X ++ genomesOfPop q) := by
  induction h with
  | refl => exact hP
  | eval _ hsub hreg ih =>
    rw [hreg]
    apply ih.subset
    intro g hg
    rcases List.mem_append.mp hg with hx | hg
    · exact List.mem_append_left _ hx
    · exact List.mem_append_right _ (hsub g hg)
  | epoch o generation rs rs' _ hstep ih => exact nextEpoch_closed X o generation _ _ rs rs' ih hstep

/-- **a spawned population satisfies the pool invariant**, together with its start genome as ghost member -/
theorem spawn_poolOk (o : EpochOpts W) (g : Genome W) (rs rs' : List Nat) (p : Pop W) (hw : WFT g) (hm : g.modules = [])
    (h : spawn o g rs = .ok (p, rs')) : PoolOk p.reg ([g] ++ genomesOfPop p) := by
  have hall := spawn_wf o g rs rs' p hw hm h
  have hrec : p.reg.records = [] := by
    unfold spawn at h
    split at h
    · cases h
    · split at h
      · cases h
      · split at h
        · cases h
        · split at h
          · cases h
          · simp only at h
            split at h
            · cases h
            · rename_i p' hsp
              simp only [Except.ok.injEq, Prod.mk.injEq] at h
              obtain ⟨rfl, _⟩ := h
              rw [(speciate_orgs o _ _ _ hsp).2]
  -- every member (and the start genome itself) has the start genome's skeleton and satisfies the registry invariant
  have hsk : ∀ a ∈ [g] ++ genomesOfPop p, WFT a ∧ SameSkel g a ∧ RegInv p.reg a := by
    intro a ha
    rcases List.mem_append.mp ha with ha | ha
    · simp only [List.mem_singleton] at ha
      subst ha
      -- some member exists? not needed: the invariant for `a` follows from any member's, via the skeleton; use spawn's
      -- own computation instead: the start genome satisfies it directly
      refine ⟨hw, SameSkel.refl _, ?_⟩
      unfold spawn at h
      split at h
      · cases h
      · split at h
        · cases h
        · split at h
          · cases h
          · rename_i lastNode hln
            split at h
            · cases h
            · rename_i nextInn hni
              simp only at h
              split at h
              · cases h
              · rename_i p' hsp
                simp only [Except.ok.injEq, Prod.mk.injEq] at h
                obtain ⟨rfl, _⟩ := h
                rw [(speciate_orgs o _ _ _ hsp).2]
                refine ⟨by intro i hi; simp at hi, ⟨?_, ?_⟩, ⟨by intro i hi; simp at hi, by intro i hi; simp at hi⟩⟩
                · intro x hx
                  -- (fix 48b1f99: the accessor takes the maximum over all genes)
                  exact a.nextGeneInnov_gt _ hni x hx
                · intro n hn
                  have := a.lastNodeId_ge _ hln n hn
                  show n.id ≤ lastNode + 1
                  omega
    · obtain ⟨sa, hsa, xa, hxa, rfl⟩ := mem_genomesOfPop.mp ha
      obtain ⟨wa, _, ska, ia⟩ := hall xa (mem_allOrgs.mpr ⟨sa, hsa, hxa⟩)
      exact ⟨wa, ska, ia⟩
  intro a ha
  obtain ⟨wa, ska, ia⟩ := hsk a ha
  refine ⟨wa, by rw [ska.mods]; exact hm, ia, by intro h0 _ i hi; rw [hrec] at hi; simp at hi, ?_, ?_⟩
  · intro b hb
    obtain ⟨_, skb, _⟩ := hsk b hb
    refine ⟨?_, by rw [ska.tids, skb.tids], by rw [ioIds_of_shape g _ ska.nodes, ioIds_of_shape g _ skb.nodes]⟩
    intro n hn m hm' e
    obtain ⟨n0, hn0, en⟩ := exists_of_map_eq Node.shape ska.nodes hn
    obtain ⟨m0, hm0, em⟩ := exists_of_map_eq Node.shape skb.nodes hm'
    unfold Node.shape at en em
    simp only [Prod.mk.injEq] at en em
    rw [← en.2, ← em.2, node_unique g.nodes hw.wf.nodesSorted n0 m0 hn0 hm0 (by rw [en.1, em.1, e])]
  · intro b hb
    obtain ⟨_, skb, _⟩ := hsk b hb
    unfold SharedHead
    have e1 := congrArg List.head? ska.inns
    have e2 := congrArg List.head? skb.inns
    simp only [List.head?_map] at e1 e2
    rw [e1, e2]

omit [Scalar W] in
/-- a genome of the start genome's node lineage retains all its input/bias/output nodes -/
theorem retains_of_nodeLineage (g x : Genome W) (h : NodeLineage x g) : Retains g x := by
  intro n hn hk
  have : n.id ∈ ioIds g := mem_ioIds.mpr ⟨n, hn, hk, rfl⟩
  rw [← h.2.2] at this
  obtain ⟨m, hm, _, e⟩ := mem_ioIds.mp this
  exact ⟨m, hm, e, h.1 m hm n hn e⟩

/-- **C01 for whole evolutionary runs**: every genome of every population reachable from a population spawned from a
    well-formed non-modular start genome — by any number of epochs with any options, any fitness values and any random
    streams — is well-formed, retains every input/bias/output node of the start genome, and passes every error exit of
    `Genesis` -/
theorem evolution_wf (o : EpochOpts W) (g : Genome W) (rs rs' : List Nat) (p q : Pop W) (hw : WFT g) (hm : g.modules = [])
    (h : spawn o g rs = .ok (p, rs')) (he : Evolves p q) :
    ∀ x ∈ genomesOfPop q, WFT x ∧ Retains g x ∧ genesisErr x = none ∧ SharedHead x g := by
  have hq := evolves_closed [g] p q (spawn_poolOk o g rs rs' p hw hm h) he
  intro x hx
  have f := hq x (List.mem_append_right _ hx)
  exact ⟨f.wft, retains_of_nodeLineage g x (f.nodes g (by simp)), genesis_ok x f.wft.wf, f.head g (by simp)⟩

/-! ## known finding K1 (machine-checked witness) and non-vacuity of the hypotheses -/

section Witnesses
open GoNeat.ExactInt

/-- parent with the single gene 5 (a recurrent-free link hidden→output) -/
def k1a : Genome Int :=
  { id := 1, traits := [⟨1, []⟩],
    nodes := [⟨1, Kind.input, 4, some 1⟩, ⟨2, Kind.output, 4, some 1⟩, ⟨3, Kind.hidden, 4, some 1⟩],
    genes := [⟨5, 3, 2, false, 0, 0, true, some 1⟩] }
/-- parent with the genes 1, 2 -/
def k1b : Genome Int :=
  { id := 2, traits := [⟨1, []⟩],
    nodes := [⟨1, Kind.input, 4, some 1⟩, ⟨2, Kind.output, 4, some 1⟩, ⟨3, Kind.hidden, 4, some 1⟩],
    genes := [⟨1, 1, 2, false, 0, 0, true, some 1⟩, ⟨2, 1, 3, false, 0, 0, true, some 1⟩] }

/-- the K1 parents are well-formed and of one lineage; only `SharedHead` fails -/
example : WFT k1a ∧ WFT k1b ∧ SameLineage k1a k1b ∧ ¬ SharedHead k1a k1b := by decide

/-- **K1: single-point crossover of well-formed parents of one lineage without a common first gene returns a
    genome with no genes** ([5] × [1,2]; the walk breaks on its first iteration with `chosenGene == nil`).  So the
    full-strength single-point clause of C01 is false of the code; `C01_singlepoint_partial` needs `SharedHead`. -/
theorem C01_singlepoint_counterexample :
    (mateSinglePoint k1a k1b 7 [0]).toOption.map (fun r => r.1.genes.length) = some 0 := by
  simp [mateSinglePoint, matePrologue, mateTraits, traitAvg, ioNodes, childTraitRef, nodeInsert, insertAt, insertIndex,
    Rand.intn, Rand.int31OfRaw, singlePointWalk, k1a, k1b, Kind.input, Kind.output, Kind.hidden, Kind.bias,
    Except.toOption, List.zipWith]

/-- the gene-less child is not well-formed and `Genesis` rejects it -/
example : genesisErr ({ id := 7, traits := [⟨1, []⟩], nodes := k1a.nodes, genes := [] } : Genome Int) = some "genesis:noGenes" := by
  decide

/-- an evolved genome: hidden node 4 splits gene 1 (1→3), genes 4 and 5 are the two halves, gene 6 is an added link -/
def ev1 : Genome Int :=
  { id := 1, traits := [⟨1, [0]⟩, ⟨2, [0]⟩],
    nodes := [⟨1, Kind.input, 4, some 1⟩, ⟨2, Kind.bias, 4, none⟩, ⟨3, Kind.output, 4, some 2⟩, ⟨4, Kind.hidden, 4, some 1⟩],
    genes := [⟨1, 1, 3, false, 0, 0, false, some 1⟩, ⟨2, 2, 3, false, 0, 0, true, none⟩,
              ⟨4, 1, 4, false, 1, 0, true, some 1⟩, ⟨5, 4, 3, false, 0, 0, true, some 1⟩, ⟨6, 2, 4, false, 0, 0, true, some 2⟩] }
/-- its sibling without the added link but with a recurrent self-loop on the hidden node -/
def ev2 : Genome Int :=
  { ev1 with id := 2, genes := [⟨1, 1, 3, false, 0, 0, false, some 1⟩, ⟨2, 2, 3, false, 0, 0, true, none⟩,
              ⟨4, 1, 4, false, 1, 0, true, some 1⟩, ⟨5, 4, 3, false, 0, 0, true, some 1⟩, ⟨7, 4, 4, true, 0, 0, true, none⟩] }
/-- the registry of their generation: the node split of gene 1 and the two added links -/
def evReg : Reg Int :=
  { records := [⟨1, 1, 3, 4, 5, 0, 0, 4, 1, false⟩, ⟨2, 2, 4, 6, 0, 0, 1, 0, 0, false⟩, ⟨2, 4, 4, 7, 0, 0, 0, 0, 0, true⟩],
    nextInn := 7, nextNode := 5 }

/-- hypotheses of the mutator theorems are satisfiable with a registry holding records of both kinds that match genes
    of the genome -/
example : WFT ev1 ∧ RegInv evReg ev1 ∧ WFT ev2 ∧ RegInv evReg ev2 := by decide
/-- hypotheses of the crossover theorems -/
example : WFT ev1 ∧ WFT ev2 ∧ SameLineage ev1 ev2 ∧ SharedHead ev1 ev2 := by decide
/-- hypotheses of the insertion lemmas: a mid-list insertion -/
example : GenesSorted ev1.genes ∧ (∀ y ∈ ev1.genes, y.inn ≠ 3) ∧
    (geneInsert ev1.genes ⟨3, 2, 4, false, 0, 0, true, none⟩).map (·.inn) = [1, 2, 3, 4, 5, 6] := by decide
/-- the equal-key branch: a second gene 4 lands directly before the old gene 4; a second gene 6 (= last) behind it -/
example : (geneInsert ev1.genes ⟨4, 2, 4, false, 9, 0, true, none⟩).map (fun x => (x.inn, x.w)) =
      [(1, 0), (2, 0), (4, 9), (4, 1), (5, 0), (6, 0)] ∧
    (geneInsert ev1.genes ⟨6, 2, 4, false, 9, 0, true, none⟩).map (fun x => (x.inn, x.w)) =
      [(1, 0), (2, 0), (4, 1), (5, 0), (6, 0), (6, 9)] := by decide
/-- duplication and spawning: the hypotheses (well-formed, non-modular) -/
example : WFT ev1 ∧ ev1.modules = [] := by decide
/-- the pool invariant of the population-level theorems holds for the two evolved siblings under their registry
    (and fails as soon as a member does not share the first gene: the K1 parents) -/
example : PoolOk evReg [ev1, ev2] ∧ HeadBelowRecords evReg ev1 ∧ ¬ PoolOk { evReg with records := [] } [k1a, k1b] := by decide

/-! concrete successful runs (the `… = ok` hypotheses are satisfiable): a scalar whose unit draw is the raw value
    itself lets a stream steer every branch -/
@[instance_reducible] def drawScalar : Scalar Int :=
  { intScalar with ofUnit63 := fun x => (x : Int), ofDec := fun m _ => (m : Int) }
section Runs
attribute [local instance] drawScalar
def mo : MutOpts Int := { recurOnlyProb := 0, newLinkTries := 3, activators := [4], activatorProbs := [1], traitMutationPower := 0, traitParamMutProb := 0, weightMutPower := 0, mutateRandomTraitProb := 1, mutateLinkTraitProb := 1, mutateNodeTraitProb := 1, mutateLinkWeightsProb := 1, mutateToggleEnableProb := 1, mutateGeneReenableProb := 1 }
/-- a genome whose input node 1 is not connected -/
def cs : Genome Int :=
  { id := 3, traits := [⟨1, [0]⟩],
    nodes := [⟨1, Kind.input, 4, some 1⟩, ⟨2, Kind.bias, 4, none⟩, ⟨3, Kind.output, 4, some 1⟩],
    genes := [⟨2, 2, 3, false, 0, 0, true, none⟩] }
example : WFT cs ∧ RegInv evReg cs := by decide
/-- add-link on `ev2` finds the open link 2→4, for which the registry holds number 6: the gene is inserted
    *mid-list* (between 5 and 7), the counter does not move -/
example : (mutateAddLink ev2 evReg mo [5, 1<<<32, 1<<<32, 1<<<32, 2<<<32, 3<<<32]).toOption.map
    (fun r => (r.1.2.2, r.1.1.genes.map (·.inn), r.1.2.1.nextInn)) = some (true, [1, 2, 4, 5, 6, 7], 7) := by decide
/-- add-node on `ev2` splits gene 4 with fresh numbers 8, 9 and fresh node id 6 -/
example : (mutateAddNode ev2 evReg mo [2, 2, 2]).toOption.map
    (fun r => (r.1.2.2, r.1.1.genes.map (·.inn), r.1.1.nodes.map (·.id), r.1.2.1.nextInn)) =
    some (true, [1, 2, 4, 5, 7, 8, 9], [1, 2, 3, 4, 6], 9) := by decide
/-- connect-sensors wires the unconnected input with a fresh number -/
example : (mutateConnectSensors cs evReg [0, 0, 1, 3]).toOption.map
    (fun r => (r.1.2.2, r.1.1.genes.map (fun x => (x.inn, x.src, x.dst)), r.1.2.1.nextInn)) =
    some (true, [(2, 2, 3), (8, 1, 3)], 8) := by decide
/-- all six parametric stages run (the disabled gene 1 is re-enabled, trait pointers move) -/
example : (mutateAllNonstructural ev1 mo (List.replicate 40 0)).toOption.map
    (fun r => (r.1.genes.map (fun x => (x.inn, x.en, x.trait)), r.1.nodes.map (·.trait))) =
    some ([(1, true, some 1), (2, true, none), (4, true, some 1), (5, true, some 1), (6, true, some 2)],
          [some 1, none, some 2, some 1]) := by decide
end Runs

end Witnesses

end GoNeat.C01
