/-
  Property C01 — every genetic operator and epoch yields only well-formed genomes.
  Kind A: every theorem holds for every scalar type `W`, every random stream, every registry and all options.

  The invariant preserved is `WFT g` = `WF g` (Spec/WF.lean) ∧ no trait has id 0 (`TraitWithId` treats 0 as "no
  trait"; the property's quantifier says "trait ids consecutive as in every shipped genome", i.e. 1…n), and on the
  registry side `RegInv reg g` = `RegCompat` ∧ `CounterAbove` ∧ `RegOk` (Spec/WFReg.lean).
-/
import GoNeat.Proofs.WFLemmas
import GoNeat.Props.C04
import GoNeat.Props.C05
import GoNeat.Props.C06

namespace GoNeat.C01
open GoNeat Scalar
variable {W : Type} [Scalar W]

/-! ## ordered insertion -/

/-- **`geneInsert` keeps the gene list strictly ascending** when the new innovation number is not present, and
    the result is a permutation of old + new. -/
theorem geneInsert_sorted (genes : List (Gene W)) (x : Gene W) (hs : GenesSorted genes)
    (hnew : ∀ y ∈ genes, y.inn ≠ x.inn) :
    GenesSorted (geneInsert genes x) ∧ (geneInsert genes x).Perm (x :: genes) :=
  insertAt_sorted (fun y : Gene W => y.inn) genes x hs hnew

/-- **`nodeInsert` keeps the node list strictly ascending** when the new id is not present; permutation of old + new. -/
theorem nodeInsert_sorted (nodes : List Node) (n : Node) (hs : NodesSorted nodes) (hnew : ∀ m ∈ nodes, m.id ≠ n.id) :
    NodesSorted (nodeInsert nodes n) ∧ (nodeInsert nodes n).Perm (n :: nodes) :=
  insertAt_sorted (fun m : Node => m.id) nodes n hs hnew

/-- the equal-key branch exactly as the code has it: a gene whose number equals the *last* number is appended
    behind it; otherwise the gene is placed after all smaller numbers, i.e. directly *before* a gene with the same
    number.  Either way the result then carries the number twice (not strictly ascending) — which is why every
    caller guards the insertion (`haveGene` / `haveNode`). -/
theorem geneInsert_spec (genes : List (Gene W)) (x : Gene W) (hs : GenesSorted genes) :
    geneInsert genes x =
      if (genes.map (·.inn)).getLast? = some x.inn then genes ++ [x]
      else genes.filter (fun y => decide (y.inn < x.inn)) ++ x :: genes.filter (fun y => !decide (y.inn < x.inn)) :=
  insertAt_spec (fun y : Gene W => y.inn) genes x hs

theorem nodeInsert_spec (nodes : List Node) (n : Node) (hs : NodesSorted nodes) :
    nodeInsert nodes n =
      if (nodes.map (·.id)).getLast? = some n.id then nodes ++ [n]
      else nodes.filter (fun m => decide (m.id < n.id)) ++ n :: nodes.filter (fun m => !decide (m.id < n.id)) :=
  insertAt_spec (fun m : Node => m.id) nodes n hs

/-! ## expression: a well-formed genome passes every error exit of `Genome.Genesis` -/

theorem genesis_ok (g : Genome W) (h : WF g) : genesisErr g = none := by
  unfold genesisErr
  have h1 : g.genes.isEmpty = false := by
    cases hg : g.genes with
    | nil => exact absurd hg h.hasGene
    | cons _ _ => rfl
  have h2 : g.nodes.any (·.kind == Kind.output) = true := by
    obtain ⟨n, hn, hk⟩ := h.hasOutput
    exact List.any_eq_true.mpr ⟨n, hn, by simp [hk]⟩
  have h3 : g.genes.any (fun x => x.en && !(g.hasNode x.src && g.hasNode x.dst)) = false := by
    apply List.any_eq_false.mpr
    intro x hx
    obtain ⟨hs, hd⟩ := h.endpoints x hx
    have e1 : g.hasNode x.src = true := C06.nodeById_isSome g.nodes x.src hs
    have e2 : g.hasNode x.dst = true := C06.nodeById_isSome g.nodes x.dst hd
    simp [e1, e2]
  rw [h1, h2, h3]; rfl

/-! ## duplication -/

/-- **`duplicate` preserves well-formedness** (it returns the same genome under a new id) -/
theorem duplicate_wf (g : Genome W) (newId : Int) (h : WFT g) (hm : g.modules = []) :
    ∃ d, g.duplicate newId = .ok d ∧ d = { g with id := newId } ∧ WFT d ∧ Retains g d ∧ SameSkel g d := by
  have hrefs : C06.RefsOk g := by
    refine ⟨h.wf.traitRefs, h.wf.endpoints, ?_, ?_⟩ <;> simp [hm]
  refine ⟨_, C06.duplicate_exact g newId hrefs, rfl, ?_, ?_, ?_⟩
  · exact (SameSkel.wft (g := g) ⟨rfl, rfl, rfl⟩ h.wf.traitRefs h)
  · exact Retains.refl g
  · exact ⟨rfl, rfl, rfl⟩

end GoNeat.C01
