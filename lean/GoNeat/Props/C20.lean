/-
  Property C20: an experiment run follows its trial/generation protocol exactly.   Kind A (no arithmetic at all).

  Model: `Model/Experiment.lean` (`execute : Script → List Event × Result`); specification predicate:
  `Spec/Experiment.lean` (`Protocol.check`, evaluated by the driver on the implementation's output).
  All theorems quantify over EVERY script: arbitrary numbers of runs and generations, arbitrary functions
  `(trial, generation) ↦ solved / unsolved / evaluator error`, `↦ epoch failure`, `↦ cancellation inside a callback`,
  with and without observer.  Proofs are by induction over the two loops (fuel = remaining generations / runs).
-/
import GoNeat.Spec.Experiment
import GoNeat.Model.LegacyExperiment

namespace GoNeat.C20
open GoNeat.Experiment

theorem solvedAt_of_solved {s : Script} {t g : Nat} (h : s.evalRes t g = .solved) : solvedAt s t g = true := by
  simp [solvedAt, h]
theorem solvedAt_of_unsolved {s : Script} {t g : Nat} (h : s.evalRes t g = .unsolved) : solvedAt s t g = false := by
  simp [solvedAt, h]
theorem solvedAt_of_fail {s : Script} {t g : Nat} (h : s.evalRes t g = .fail) : solvedAt s t g = false := by
  simp [solvedAt, h]

theorem gensEvents_zero (s : Script) (t g : Nat) : gensEvents s t g 0 = [] := by simp [gensEvents]
theorem gensEvents_succ (s : Script) (t g n : Nat) :
    gensEvents s t g (n + 1) = genEvents s t g ++ gensEvents s t (g + 1) n := by
  simp [gensEvents, List.range'_succ]

/-- how the generation loop of a trial can be aborted in generation `g+m` -/
def GenAbort (s : Script) (t g m : Nat) (evs : List Event) (e : Err) : Prop :=
  (e = .cancelled ∧ (evs = gensEvents s t g m ∨
      (s.evalRes t (g + m) = .unsolved ∧ evs = gensEvents s t g m ++ [.eval t (g + m) t (g + m)]))) ∨
  (e = .evalFailed t (g + m) ∧ s.evalRes t (g + m) = .fail ∧ evs = gensEvents s t g m ++ [.eval t (g + m) t (g + m)]) ∨
  (e = .epochFailed ∧ s.evalRes t (g + m) = .unsolved ∧ s.epochFails t (g + m) = true ∧
      evs = gensEvents s t g m ++ [.eval t (g + m) t (g + m)])

theorem GenAbort.shift {s : Script} {t g m : Nat} {evs : List Event} {e : Err}
    (h : GenAbort s t (g + 1) m evs e) : GenAbort s t g (m + 1) (genEvents s t g ++ evs) e := by
  have hg : g + (m + 1) = g + 1 + m := by omega
  unfold GenAbort at *
  rw [hg, gensEvents_succ]
  rcases h with ⟨he, h | ⟨h1, h2⟩⟩ | ⟨he, h1, h2⟩ | ⟨he, h1, h2, h3⟩
  · exact Or.inl ⟨he, Or.inl (by rw [h])⟩
  · exact Or.inl ⟨he, Or.inr ⟨h1, by rw [h2, List.append_assoc]⟩⟩
  · exact Or.inr (Or.inl ⟨he, h1, by rw [h2, List.append_assoc]⟩)
  · exact Or.inr (Or.inr ⟨he, h1, h2, by rw [h3, List.append_assoc]⟩)

theorem genLoop_shape (s : Script) (t : Nat) (fuel g : Nat) (c : Bool) :
    (∀ c', (genLoop s t fuel g g c).exit = .ok c' →
        (genLoop s t fuel g g c).events = gensEvents s t g (lenFrom s t fuel g) ∧
        (genLoop s t fuel g g c).gens = (List.range' g (lenFrom s t fuel g)).map (genRec s t) ∧
        (∀ j, j < lenFrom s t fuel g → s.evalRes t (g + j) ≠ .fail ∧
            (solvedAt s t (g + j) = true ∨ s.epochFails t (g + j) = false))) ∧
    (∀ e, (genLoop s t fuel g g c).exit = .error e →
        ∃ m, m < lenFrom s t fuel g ∧ GenAbort s t g m (genLoop s t fuel g g c).events e) := by
  induction fuel generalizing g c with
  | zero => simp [genLoop, lenFrom, gensEvents]
  | succ fuel ih =>
    unfold genLoop
    cases c with
    | true =>
      simp only [↓reduceIte, reduceCtorEq, false_imp_iff, implies_true, true_and, Except.error.injEq]
      intro e he
      refine ⟨0, ?_, ?_⟩
      · unfold lenFrom; split <;> omega
      · subst he; exact Or.inl ⟨rfl, Or.inl (by simp [gensEvents])⟩
    | false =>
      simp only [Bool.false_eq_true, ↓reduceIte]
      cases hr : s.evalRes t g with
      | fail =>
        simp only [reduceCtorEq, false_imp_iff, implies_true, true_and, Except.error.injEq]
        intro e he
        refine ⟨0, ?_, ?_⟩
        · unfold lenFrom; split <;> omega
        · subst he; exact Or.inr (Or.inl ⟨rfl, hr, by simp [gensEvents]⟩)
      | solved =>
        have hs := solvedAt_of_solved hr
        simp only [Except.ok.injEq, reduceCtorEq, false_imp_iff, implies_true, and_true]
        intro c' _
        have hl : lenFrom s t (fuel + 1) g = 1 := by simp [lenFrom, hs]
        rw [hl]
        refine ⟨?_, ?_, ?_⟩
        · simp [gensEvents, genEvents, hs]
        · simp [genRec, hs]
        · intro j hj
          have : j = 0 := by omega
          subst this
          simp [hr, hs]
      | unsolved =>
        have hs := solvedAt_of_unsolved hr
        have hl : lenFrom s t (fuel + 1) g = lenFrom s t fuel (g + 1) + 1 := by simp [lenFrom, hs]; omega
        by_cases hc1 : s.evalCancels t g = true
        · simp only [hc1, ↓reduceIte, reduceCtorEq, false_imp_iff, implies_true, true_and, Except.error.injEq]
          intro e he
          refine ⟨0, by omega, ?_⟩
          subst he; exact Or.inl ⟨rfl, Or.inr ⟨hr, by simp [gensEvents]⟩⟩
        · simp only [hc1, Bool.false_eq_true, ↓reduceIte]
          by_cases hef : s.epochFails t g = true
          · simp only [hef, ↓reduceIte, reduceCtorEq, false_imp_iff, implies_true, true_and, Except.error.injEq]
            intro e he
            refine ⟨0, by omega, ?_⟩
            subst he; exact Or.inr (Or.inr ⟨rfl, hr, hef, by simp [gensEvents]⟩)
          · simp only [hef, Bool.false_eq_true, ↓reduceIte]
            obtain ⟨ih1, ih2⟩ := ih (g + 1) (s.observer && s.evaluatedCancels t g)
            have hge : genEvents s t g = .eval t g t g :: .epoch t g :: obs s (.evaluated t g) := by
              simp [genEvents, hs]
            refine ⟨?_, ?_⟩
            · intro c' hc'
              obtain ⟨e1, e2, e3⟩ := ih1 c' hc'
              rw [hl]
              refine ⟨?_, ?_, ?_⟩
              · rw [gensEvents_succ, hge, e1]; simp
              · rw [e2]; simp [List.range'_succ, genRec, hs]
              · intro j hj
                cases j with
                | zero => simp [hr, hef]
                | succ j =>
                  have := e3 j (by omega)
                  have hg : g + (j + 1) = g + 1 + j := by omega
                  rw [hg]; exact this
            · intro e he
              obtain ⟨m, hm, hab⟩ := ih2 e he
              refine ⟨m + 1, by omega, ?_⟩
              have := hab.shift
              rw [hge] at this
              simpa using this

/-! ### cancellation flag threaded by the model = "some callback so far cancelled" -/

theorem flagAfter_nil (s : Script) (c : Bool) : flagAfter s c [] = c := by simp [flagAfter]
theorem flagAfter_cons (s : Script) (c : Bool) (e : Event) (es : List Event) :
    flagAfter s c (e :: es) = flagAfter s (c || cancelsAt s e) es := by
  simp [flagAfter, Bool.or_assoc]
theorem flagAfter_append (s : Script) (c : Bool) (a b : List Event) :
    flagAfter s c (a ++ b) = flagAfter s (flagAfter s c a) b := by
  simp [flagAfter, Bool.or_assoc]
theorem flagAfter_obs (s : Script) (c : Bool) (e : Event) :
    flagAfter s c (obs s e) = (c || (s.observer && cancelsAt s e)) := by
  unfold obs; cases s.observer <;> simp [flagAfter]

theorem noEval_append_obs (s : Script) (c : Bool) (e : Event) (he : isEval e = false) (rest : List Event) :
    noEvalAfterCancel s (obs s e ++ rest) c = noEvalAfterCancel s rest (c || (s.observer && cancelsAt s e)) := by
  unfold obs; cases s.observer <;> simp [noEvalAfterCancel, he]

theorem genLoop_flags (s : Script) (t : Nat) (fuel g pe : Nat) (c : Bool) :
    (∀ c', (genLoop s t fuel g pe c).exit = .ok c' →
        c' = flagAfter s c (genLoop s t fuel g pe c).events ∧
        ∀ rest, noEvalAfterCancel s ((genLoop s t fuel g pe c).events ++ rest) c = noEvalAfterCancel s rest c') ∧
    (∀ e, (genLoop s t fuel g pe c).exit = .error e →
        noEvalAfterCancel s (genLoop s t fuel g pe c).events c = true ∧
        (e = .cancelled → flagAfter s c (genLoop s t fuel g pe c).events = true)) := by
  induction fuel generalizing g pe c with
  | zero => simp [genLoop, flagAfter]
  | succ fuel ih =>
    unfold genLoop
    cases c with
    | true => simp [noEvalAfterCancel, flagAfter]
    | false =>
      simp only [Bool.false_eq_true, ↓reduceIte]
      cases hr : s.evalRes t g with
      | fail => simp [noEvalAfterCancel, isEval]
      | solved =>
        simp only [Except.ok.injEq, reduceCtorEq, false_imp_iff, implies_true, and_true]
        intro c' hc'
        subst hc'
        refine ⟨?_, ?_⟩
        · rw [flagAfter_cons, flagAfter_obs]; simp [cancelsAt]
        · intro rest
          rw [List.cons_append, noEvalAfterCancel, noEval_append_obs _ _ _ rfl]
          simp [isEval, cancelsAt]
      | unsolved =>
        by_cases hc1 : s.evalCancels t g = true
        · simp [hc1, noEvalAfterCancel, isEval, flagAfter, cancelsAt]
        · simp only [hc1, Bool.false_eq_true, ↓reduceIte]
          by_cases hef : s.epochFails t g = true
          · simp [hef, noEvalAfterCancel, isEval]
          · simp only [hef, Bool.false_eq_true, ↓reduceIte]
            obtain ⟨ih1, ih2⟩ := ih (g + 1) (pe + 1) (s.observer && s.evaluatedCancels t g)
            have hc1' : s.evalCancels t g = false := by simpa using hc1
            refine ⟨?_, ?_⟩
            · intro c' hc'
              obtain ⟨e1, e2⟩ := ih1 c' hc'
              refine ⟨?_, ?_⟩
              · rw [flagAfter_cons, flagAfter_cons, flagAfter_append, flagAfter_obs, e1]
                simp [cancelsAt, hc1']
              · intro rest
                rw [List.cons_append, List.cons_append, List.append_assoc, noEvalAfterCancel, noEvalAfterCancel,
                  noEval_append_obs _ _ _ rfl, ← e2 rest]
                simp [isEval, cancelsAt, hc1']
            · intro e he
              obtain ⟨e1, e2⟩ := ih2 e he
              refine ⟨?_, ?_⟩
              · have := noEval_append_obs s (false || s.evalCancels t g || false) (.evaluated t g) rfl
                  (genLoop s t fuel (g + 1) (pe + 1) (s.observer && s.evaluatedCancels t g)).events
                rw [noEvalAfterCancel, noEvalAfterCancel]
                simp only [cancelsAt] at this ⊢
                rw [this]
                simpa [isEval, hc1'] using e1
              · intro hcan
                rw [flagAfter_cons, flagAfter_cons, flagAfter_append, flagAfter_obs]
                simpa [cancelsAt, hc1'] using e2 hcan

/-! ### the trial loop -/

theorem trialsEvents_zero (s : Script) (t : Nat) : trialsEvents s t 0 = [] := by simp [trialsEvents]
theorem trialsEvents_succ (s : Script) (t k : Nat) :
    trialsEvents s t (k + 1) = trialEvents s t ++ trialsEvents s (t + 1) k := by
  simp [trialsEvents, List.range'_succ]

/-- how a run can be aborted in trial `t`: before the trial starts, or inside its generation loop -/
def TrialAbort (s : Script) (t : Nat) (tail : List Event) (e : Err) : Prop :=
  (e = .spawnFailed ∧ s.spawnOk t = false ∧ tail = []) ∨
  (e = .badExecutor ∧ s.execOk = false ∧ tail = []) ∨
  (∃ m, m < trialLen s t ∧ ∃ evs, GenAbort s t 0 m evs e ∧ tail = obs s (.started t) ++ evs)

theorem trialLoop_shape (s : Script) (fuel t : Nat) (c : Bool) :
    ∃ k, (trialLoop s fuel t c).trials = (List.range' t k).map (expectedTrial s) ∧ k ≤ fuel ∧
      (∀ j, j < k → noSwallowedError s (t + j) = true) ∧
      ((trialLoop s fuel t c).err = none → k = fuel ∧ (trialLoop s fuel t c).events = trialsEvents s t k) ∧
      (∀ e, (trialLoop s fuel t c).err = some e → k < fuel ∧
          ∃ tail, (trialLoop s fuel t c).events = trialsEvents s t k ++ tail ∧ TrialAbort s (t + k) tail e) := by
  induction fuel generalizing t c with
  | zero => exact ⟨0, by simp [trialLoop, trialsEvents]⟩
  | succ fuel ih =>
    unfold trialLoop
    by_cases hsp : s.spawnOk t = true
    · by_cases hex : s.execOk = true
      · simp only [hsp, hex, Bool.not_true, Bool.false_eq_true, ↓reduceIte]
        obtain ⟨g1, g2⟩ := genLoop_shape s t s.maxGen 0 (c || (s.observer && s.startedCancels t))
        cases hexit : (genLoop s t s.maxGen 0 0 (c || (s.observer && s.startedCancels t))).exit with
        | error e =>
          obtain ⟨m, hm, hab⟩ := g2 e hexit
          refine ⟨0, by simp, by omega, by omega, by simp, ?_⟩
          intro e' he'
          simp only [Option.some.injEq] at he'
          subst he'
          exact ⟨by omega, _, by simp [trialsEvents], Or.inr (Or.inr ⟨m, hm, _, hab, rfl⟩)⟩
        | ok c2 =>
          obtain ⟨e1, e2, e3⟩ := g1 c2 hexit
          obtain ⟨k, h1, h2, h3, h4, h5⟩ := ih (t + 1) (c2 || (s.observer && s.finishedCancels t))
          have hte : obs s (.started t) ++ ((genLoop s t s.maxGen 0 0 (c || (s.observer && s.startedCancels t))).events ++
              obs s (.finished t)) = trialEvents s t := by
            rw [e1]; rfl
          refine ⟨k + 1, ?_, by omega, ?_, ?_, ?_⟩
          · simp only [List.range'_succ, List.map_cons, h1, List.cons.injEq, and_true]
            simp only [expectedTrial, e2]; rfl
          · intro j hj
            cases j with
            | zero =>
              simp only [noSwallowedError, List.all_eq_true, List.mem_range, Nat.add_zero]
              intro gg hgg
              have := e3 gg hgg
              simp only [Nat.zero_add] at this
              rcases this with ⟨a, b | b⟩ <;> simp [a, b]
            | succ j =>
              have := h3 j (by omega)
              have hg : t + (j + 1) = t + 1 + j := by omega
              rw [hg]; exact this
          · intro hnone
            obtain ⟨hk, hev⟩ := h4 hnone
            refine ⟨by omega, ?_⟩
            simp only [hev, trialsEvents_succ, ← hte, List.append_assoc]
          · intro e he
            obtain ⟨hk, tail, hev, hab⟩ := h5 e he
            refine ⟨by omega, tail, ?_, ?_⟩
            · simp only [hev, trialsEvents_succ, ← hte, List.append_assoc]
            · have hg : t + (k + 1) = t + 1 + k := by omega
              rw [hg]; exact hab
      · have hex' : s.execOk = false := by simpa using hex
        simp only [hsp, hex', Bool.not_true, Bool.false_eq_true, ↓reduceIte, Bool.not_false]
        refine ⟨0, by simp, by omega, by omega, by simp, ?_⟩
        intro e he
        simp only [Option.some.injEq] at he
        subst he
        exact ⟨by omega, [], by simp [trialsEvents], Or.inr (Or.inl ⟨rfl, hex', rfl⟩)⟩
    · have hsp' : s.spawnOk t = false := by simpa using hsp
      simp only [hsp', Bool.not_false, ↓reduceIte]
      refine ⟨0, by simp, by omega, by omega, by simp, ?_⟩
      intro e he
      simp only [Option.some.injEq] at he
      subst he
      exact ⟨by omega, [], by simp [trialsEvents], Or.inl ⟨rfl, hsp', rfl⟩⟩

theorem trialLoop_flags (s : Script) (fuel t : Nat) (c : Bool) :
    noEvalAfterCancel s (trialLoop s fuel t c).events c = true ∧
    ((trialLoop s fuel t c).err = some .cancelled → flagAfter s c (trialLoop s fuel t c).events = true) := by
  induction fuel generalizing t c with
  | zero => simp [trialLoop, noEvalAfterCancel]
  | succ fuel ih =>
    unfold trialLoop
    by_cases hsp : s.spawnOk t = true
    · by_cases hex : s.execOk = true
      · simp only [hsp, hex, Bool.not_true, Bool.false_eq_true, ↓reduceIte]
        obtain ⟨g1, g2⟩ := genLoop_flags s t s.maxGen 0 0 (c || (s.observer && s.startedCancels t))
        cases hexit : (genLoop s t s.maxGen 0 0 (c || (s.observer && s.startedCancels t))).exit with
        | error e =>
          obtain ⟨a, b⟩ := g2 e hexit
          refine ⟨?_, ?_⟩
          · simp only [noEval_append_obs s c (.started t) rfl, cancelsAt]; exact a
          · intro he
            simp only [Option.some.injEq] at he
            simp only [flagAfter_append, flagAfter_obs, cancelsAt]
            exact b he
        | ok c2 =>
          obtain ⟨a, b⟩ := g1 c2 hexit
          obtain ⟨i1, i2⟩ := ih (t + 1) (c2 || (s.observer && s.finishedCancels t))
          refine ⟨?_, ?_⟩
          · simp only [noEval_append_obs s c (.started t) rfl, cancelsAt, b,
              noEval_append_obs s c2 (.finished t) rfl]
            exact i1
          · intro he
            simp only [flagAfter_append, flagAfter_obs, cancelsAt, ← a]
            exact i2 he
      · have hex' : s.execOk = false := by simpa using hex
        simp [hsp, hex', noEvalAfterCancel]
    · have hsp' : s.spawnOk t = false := by simpa using hsp
      simp [hsp', noEvalAfterCancel]

/-! ### property theorems -/

/-- **C20 (main theorem).** For EVERY script - any number of runs and generations, any pattern of solved
    generations, evaluator/epoch failures and cancellation points, with or without observer - the output of the
    `Execute` model satisfies the executable protocol specification `Protocol.check` (the predicate the driver
    evaluates on the implementation's output). -/
theorem execute_check (s : Script) : Protocol.check s (execute s).1 (execute s).2 = true := by
  unfold execute
  by_cases ho : s.hasOptions = true
  · simp only [ho, Bool.not_true, Bool.false_eq_true, ↓reduceIte]
    obtain ⟨k, h1, h2, h3, h4, h5⟩ := trialLoop_shape s s.runs 0 s.preCancelled
    obtain ⟨f1, f2⟩ := trialLoop_flags s s.runs 0 s.preCancelled
    have hlen : (trialLoop s s.runs 0 s.preCancelled).trials.length = k := by rw [h1]; simp
    unfold Protocol.check
    simp only [hlen, ho, Bool.true_or, Bool.and_true]
    have hA : ((trialLoop s s.runs 0 s.preCancelled).trials == (List.range' 0 k).map (expectedTrial s)) = true := by
      rw [h1]; simp
    have hB : (List.range k).all (noSwallowedError s) = true := by
      simp only [List.all_eq_true, List.mem_range]
      intro j hj; simpa using h3 j hj
    rw [hA, hB, f1]
    simp only [Bool.and_self, Bool.true_and]
    cases herr : (trialLoop s s.runs 0 s.preCancelled).err with
    | none =>
      obtain ⟨a, b⟩ := h4 herr
      simp [a, b]
    | some e =>
      obtain ⟨hk, tail, hev, hab⟩ := h5 e herr
      simp only [hev, List.take_left', List.drop_left', beq_self_eq_true, Bool.true_and]
      simp only [Nat.zero_add] at hab
      rcases hab with ⟨he, hs, ht⟩ | ⟨he, hs, ht⟩ | ⟨m, hm, evs, hga, ht⟩
      · subst he ht; simp [abortOk, hk, hs]
      · subst he ht; simp [abortOk, hk, hs]
      · subst ht
        rcases hga with ⟨he, hh | ⟨hr, hh⟩⟩ | ⟨he, hr, hh⟩ | ⟨he, hr, hf, hh⟩
        · subst he hh
          have hfl := f2 herr
          rw [hev] at hfl
          simp only [abortOk, hk, decide_true, hfl, Bool.true_and, List.any_eq_true, List.mem_range]
          exact ⟨m, hm, by simp [abortEvents]⟩
        · subst he hh
          have hfl := f2 herr
          rw [hev] at hfl
          simp only [abortOk, hk, decide_true, hfl, Bool.true_and, List.any_eq_true, List.mem_range]
          refine ⟨m, hm, ?_⟩
          simp only [Nat.zero_add] at hr
          simp [abortEvents, hr]
        · subst he hh
          simp only [Nat.zero_add] at hr
          simp [abortOk, hk, hm, hr, abortEvents]
        · subst he hh
          simp only [Nat.zero_add] at hr hf
          simp only [abortOk, hk, decide_true, Bool.true_and, List.any_eq_true, List.mem_range]
          exact ⟨m, hm, by simp [abortEvents, hr, hf]⟩
  · have ho' : s.hasOptions = false := by simpa using ho
    simp [ho', Protocol.check, trialsEvents, abortOk, noEvalAfterCancel]


/-! ### readable forms -/

theorem lenFrom_spec (s : Script) (t fuel g : Nat) :
    lenFrom s t fuel g ≤ fuel ∧ (0 < fuel → 0 < lenFrom s t fuel g) ∧
    (∀ j, j + 1 < lenFrom s t fuel g → solvedAt s t (g + j) = false) ∧
    (lenFrom s t fuel g < fuel → solvedAt s t (g + lenFrom s t fuel g - 1) = true) := by
  induction fuel generalizing g with
  | zero => simp [lenFrom]
  | succ fuel ih =>
    unfold lenFrom
    by_cases hs : solvedAt s t g = true
    · simp only [hs, ↓reduceIte]
      refine ⟨by omega, by omega, by omega, ?_⟩
      intro _; simpa using hs
    · have hs' : solvedAt s t g = false := by simpa using hs
      simp only [hs', Bool.false_eq_true, ↓reduceIte]
      obtain ⟨a, b, c, d⟩ := ih (g + 1)
      refine ⟨by omega, by omega, ?_, ?_⟩
      · intro j hj
        cases j with
        | zero => simpa using hs'
        | succ j =>
          have := c j (by omega)
          have hg : g + (j + 1) = g + 1 + j := by omega
          rw [hg]; exact this
      · intro hlt
        have := d (by omega)
        have hg : g + (1 + lenFrom s t fuel (g + 1)) - 1 = g + 1 + lenFrom s t fuel (g + 1) - 1 := by omega
        rw [hg]; exact this

/-- **C20 (length of a completed trial).** A trial that runs to completion evaluates generations `0 .. trialLen-1`,
    where `trialLen ≤ maxGen`, no generation before the last one is solved, and the trial is shorter than
    `maxGen` only because its last generation is solved: the last generation is the first solved one, or
    `maxGen-1` if none is. -/
theorem trialLen_spec (s : Script) (t : Nat) :
    trialLen s t ≤ s.maxGen ∧ (0 < s.maxGen → 0 < trialLen s t) ∧
    (∀ g, g + 1 < trialLen s t → solvedAt s t g = false) ∧
    (trialLen s t < s.maxGen → solvedAt s t (trialLen s t - 1) = true) := by
  have := lenFrom_spec s t s.maxGen 0
  simpa [trialLen] using this

/-- **C20 (normal return).** If the model of `Execute` returns no error then exactly `runs` trials were recorded,
    trial `t` at position `t` with generations `0 .. trialLen-1` (solved flag as the evaluator reported), and the
    event sequence is the concatenation over `t = 0 .. runs-1` of
    `Started t · (Eval t g [on trial t's population after g turnovers] · Epoch t g [unless g solved] · Evaluated t g)_{g < trialLen} · Finished t`
    (notifications only with an observer). -/
theorem execute_complete (s : Script) (h : (execute s).2.err = none) :
    (execute s).2.trials = (List.range' 0 s.runs).map (expectedTrial s) ∧
    (execute s).1 = trialsEvents s 0 s.runs := by
  unfold execute at h ⊢
  by_cases ho : s.hasOptions = true
  · simp only [ho, Bool.not_true, Bool.false_eq_true, ↓reduceIte] at h ⊢
    obtain ⟨k, h1, _, _, h4, _⟩ := trialLoop_shape s s.runs 0 s.preCancelled
    obtain ⟨a, b⟩ := h4 h
    subst a
    exact ⟨h1, b⟩
  · have ho' : s.hasOptions = false := by simpa using ho
    simp [ho'] at h

/-- **C20 (error return).** If the model of `Execute` returns error `e` (and options were present) then some
    `k < runs` trials were completed and recorded in order, their events are exactly those of `k` completed trials,
    and what follows is the aborted trial `k`: either nothing (spawn / executor selection failed), or
    `Started k`, `m < trialLen` complete generations, and - only when the evaluator itself failed, the turnover
    failed, or the turnover observed the cancellation - the evaluator call of generation `m` as the LAST event.
    The error is the evaluator's own error for exactly that generation, the turnover's error, or the context's
    error; in particular no evaluator call follows the failure. -/
theorem execute_abort (s : Script) (ho : s.hasOptions = true) (e : Err) (h : (execute s).2.err = some e) :
    ∃ k, k < s.runs ∧ (execute s).2.trials = (List.range' 0 k).map (expectedTrial s) ∧
      ∃ tail, (execute s).1 = trialsEvents s 0 k ++ tail ∧ TrialAbort s k tail e := by
  unfold execute at h ⊢
  simp only [ho, Bool.not_true, Bool.false_eq_true, ↓reduceIte] at h ⊢
  obtain ⟨k, h1, _, _, _, h5⟩ := trialLoop_shape s s.runs 0 s.preCancelled
  obtain ⟨hk, tail, hev, hab⟩ := h5 e h
  exact ⟨k, hk, h1, tail, hev, by simpa using hab⟩

/-- **C20 (cancellation).** For every script: the evaluator is never called once the context has been cancelled
    (before the call or inside any earlier callback), and a returned `cancelled` error means the context really
    was cancelled. -/
theorem execute_cancel (s : Script) :
    noEvalAfterCancel s (execute s).1 s.preCancelled = true ∧
    ((execute s).2.err = some .cancelled → flagAfter s s.preCancelled (execute s).1 = true) := by
  unfold execute
  by_cases ho : s.hasOptions = true
  · simp only [ho, Bool.not_true, Bool.false_eq_true, ↓reduceIte]
    exact trialLoop_flags s s.runs 0 s.preCancelled
  · have ho' : s.hasOptions = false := by simpa using ho
    simp [ho', noEvalAfterCancel]

/-- **C20 (a cancelled context is not ignored).** If the context is cancelled at some point of a run and the script
    still has a generation to evaluate after that point, the model cannot return nil: stated contrapositively, a
    nil return with the context cancelled after the events `pre` implies no evaluator call follows `pre`. -/
theorem execute_no_eval_after (s : Script) (pre post : List Event) (h : (execute s).1 = pre ++ post)
    (hc : flagAfter s s.preCancelled pre = true) : ∀ e ∈ post, isEval e = false := by
  have h1 := (execute_cancel s).1
  rw [h] at h1
  have gen : ∀ (l : List Event) (c : Bool), noEvalAfterCancel s l c = true → c = true → ∀ e ∈ l, isEval e = false := by
    intro l
    induction l with
    | nil => simp
    | cons x xs ih =>
      intro c hn hc e he
      simp only [noEvalAfterCancel, Bool.and_eq_true, Bool.not_eq_true', Bool.and_eq_false_imp] at hn
      rcases List.mem_cons.mp he with rfl | hm
      · cases hx : isEval e with
        | false => rfl
        | true => have := hn.1 hx; simp [hc] at this
      · exact ih (c || cancelsAt s x) hn.2 (by simp [hc]) e hm
  have split : ∀ (a b : List Event) (c : Bool), noEvalAfterCancel s (a ++ b) c = true →
      noEvalAfterCancel s b (flagAfter s c a) = true := by
    intro a
    induction a with
    | nil => intro b c h; simpa [flagAfter] using h
    | cons x xs ih =>
      intro b c h
      simp only [List.cons_append, noEvalAfterCancel, Bool.and_eq_true] at h
      rw [flagAfter_cons]
      exact ih b _ h.2
  exact gen post _ (split pre post _ h1) hc

/-! ### the repaired defect (a04f603): machine-checked counterexample against the frozen pre-fix model -/

/-- one run, one generation, reported solved, observer present -/
def solvedOnce : Script := { runs := 1, maxGen := 1, observer := true, evalRes := fun _ _ => .solved }

/-- pre-fix `Execute` notified `TrialRunFinished` twice for a trial that ended with a solved generation -/
theorem C20_double_finish_counterexample :
    (Legacy.execute solvedOnce).1 = [.started 0, .eval 0 0 0 0, .evaluated 0 0, .finished 0, .finished 0] ∧
    Protocol.check solvedOnce (Legacy.execute solvedOnce).1 (Legacy.execute solvedOnce).2 = false ∧
    (execute solvedOnce).1 = [.started 0, .eval 0 0 0 0, .evaluated 0 0, .finished 0] := by decide

/-! ### non-vacuity: the theorems have no hypotheses; these scripts show the interesting paths are inhabited -/

/-- 2 runs × 3 generations; trial 0 solved in generation 1; trial 1: the observer's callback for generation 0
    cancels the context -/
def demo : Script :=
  { runs := 2, maxGen := 3, observer := true,
    evalRes := fun t g => if t == 0 && g == 1 then .solved else .unsolved,
    evaluatedCancels := fun t g => t == 1 && g == 0 }

example : execute demo =
    ([.started 0, .eval 0 0 0 0, .epoch 0 0, .evaluated 0 0, .eval 0 1 0 1, .evaluated 0 1, .finished 0,
      .started 1, .eval 1 0 1 0, .epoch 1 0, .evaluated 1 0],
     ⟨[⟨0, [⟨0, 0, false⟩, ⟨1, 0, true⟩]⟩], some .cancelled⟩) := by decide

example : trialLen demo 0 = 2 ∧ trialLen demo 1 = 3 := by decide

/-- evaluator error in generation 2 of trial 0, no observer -/
example : execute { runs := 2, maxGen := 4, observer := false,
                    evalRes := fun _ g => if g == 2 then .fail else .unsolved } =
    ([.eval 0 0 0 0, .epoch 0 0, .eval 0 1 0 1, .epoch 0 1, .eval 0 2 0 2], ⟨[], some (.evalFailed 0 2)⟩) := by decide

/-- the specification rejects a turnover after the solved generation, a notification before the turnover,
    a missing finish, and a swallowed error -/
example : Protocol.check solvedOnce [.started 0, .eval 0 0 0 0, .epoch 0 0, .evaluated 0 0, .finished 0]
    ⟨[⟨0, [⟨0, 0, true⟩]⟩], none⟩ = false := by decide
example : Protocol.check { solvedOnce with evalRes := fun _ _ => .unsolved }
    [.started 0, .eval 0 0 0 0, .evaluated 0 0, .epoch 0 0, .finished 0] ⟨[⟨0, [⟨0, 0, false⟩]⟩], none⟩ = false := by decide
example : Protocol.check solvedOnce [.started 0, .eval 0 0 0 0, .evaluated 0 0] ⟨[⟨0, [⟨0, 0, true⟩]⟩], none⟩ = false := by decide
example : Protocol.check { solvedOnce with evalRes := fun _ _ => .fail }
    [.started 0, .eval 0 0 0 0, .epoch 0 0, .evaluated 0 0, .finished 0] ⟨[⟨0, [⟨0, 0, false⟩]⟩], none⟩ = false := by decide

section Chronology
set_option linter.unusedSimpArgs false
/-! ### exactly once, in order: the events of every run are strictly increasing in (trial, generation slot, phase) -/

/-- position of an event inside a run: trial, slot (0 = start, g+1 = generation g, maxGen+1 = finish), phase
    inside the generation (0 = evaluation, 1 = turnover, 2 = notification) -/
def stamp (s : Script) : Event → Nat × Nat × Nat
  | .started t => (t, 0, 0)
  | .eval t g _ _ => (t, g + 1, 0)
  | .epoch t g => (t, g + 1, 1)
  | .evaluated t g => (t, g + 1, 2)
  | .finished t => (t, s.maxGen + 1, 0)

/-- strict lexicographic order on stamps -/
def Before (s : Script) (a b : Event) : Prop :=
  (stamp s a).1 < (stamp s b).1 ∨ ((stamp s a).1 = (stamp s b).1 ∧
    ((stamp s a).2.1 < (stamp s b).2.1 ∨ ((stamp s a).2.1 = (stamp s b).2.1 ∧ (stamp s a).2.2 < (stamp s b).2.2)))

theorem stamp_started (s : Script) (t : Nat) : stamp s (.started t) = (t, 0, 0) := rfl
theorem stamp_finished (s : Script) (t : Nat) : stamp s (.finished t) = (t, s.maxGen + 1, 0) := rfl
theorem stamp_eval (s : Script) (t g a b : Nat) : stamp s (.eval t g a b) = (t, g + 1, 0) := rfl

theorem mem_obs {s : Script} {e x : Event} (h : x ∈ obs s e) : x = e := by
  unfold obs at h; split at h <;> simp_all

theorem stamp_genEvents {s : Script} {t g : Nat} {x : Event} (h : x ∈ genEvents s t g) :
    (stamp s x).1 = t ∧ (stamp s x).2.1 = g + 1 := by
  simp only [genEvents, List.mem_cons, List.mem_append] at h
  rcases h with rfl | h | h
  · simp [stamp]
  · split at h
    · simp at h
    · simp only [List.mem_singleton] at h; subst h; simp [stamp]
  · have := mem_obs h; subst this; simp [stamp]

theorem genEvents_pairwise (s : Script) (t g : Nat) : (genEvents s t g).Pairwise (Before s) := by
  unfold genEvents obs
  cases solvedAt s t g <;> cases s.observer <;> simp [Before, stamp]

theorem stamp_gensEvents {s : Script} {t g n : Nat} {x : Event} (h : x ∈ gensEvents s t g n) :
    (stamp s x).1 = t ∧ g + 1 ≤ (stamp s x).2.1 ∧ (stamp s x).2.1 ≤ g + n := by
  simp only [gensEvents, List.mem_flatMap, List.mem_range'_1] at h
  obtain ⟨j, ⟨h1, h2⟩, hx⟩ := h
  obtain ⟨a, b⟩ := stamp_genEvents hx
  exact ⟨a, by omega, by omega⟩

theorem gensEvents_pairwise (s : Script) (t g n : Nat) : (gensEvents s t g n).Pairwise (Before s) := by
  unfold gensEvents
  rw [List.pairwise_flatMap]
  refine ⟨fun j _ => genEvents_pairwise s t j, ?_⟩
  refine List.Pairwise.imp ?_ (List.pairwise_lt_range' (s := g) (n := n) (step := 1) (by omega))
  intro a b hab x hx y hy
  obtain ⟨x1, x2⟩ := stamp_genEvents hx
  obtain ⟨y1, y2⟩ := stamp_genEvents hy
  right; exact ⟨by omega, Or.inl (by omega)⟩

theorem stamp_trialEvents {s : Script} {t : Nat} {x : Event} (h : x ∈ trialEvents s t) : (stamp s x).1 = t := by
  simp only [trialEvents, List.mem_append] at h
  rcases h with h | h | h
  · have := mem_obs h; subst this; rfl
  · exact (stamp_gensEvents h).1
  · have := mem_obs h; subst this; rfl

theorem trialEvents_pairwise (s : Script) (t : Nat) : (trialEvents s t).Pairwise (Before s) := by
  unfold trialEvents
  have hl := (trialLen_spec s t).1
  rw [List.pairwise_append, List.pairwise_append]
  refine ⟨?_, ⟨gensEvents_pairwise s t 0 _, ?_, ?_⟩, ?_⟩
  · unfold obs; split <;> simp
  · unfold obs; split <;> simp
  · intro x hx y hy
    have := mem_obs hy; subst this
    obtain ⟨a, b, c⟩ := stamp_gensEvents hx
    right; exact ⟨by simp only [stamp_started, stamp_finished, stamp_eval, a], Or.inl (by simp only [stamp_started, stamp_finished, stamp_eval]; omega)⟩
  · intro x hx y hy
    have := mem_obs hx; subst this
    rcases List.mem_append.mp hy with hy | hy
    · obtain ⟨a, b, c⟩ := stamp_gensEvents hy
      right; exact ⟨by simp only [stamp_started, stamp_finished, stamp_eval, a], Or.inl (by simp only [stamp_started, stamp_finished, stamp_eval]; omega)⟩
    · have := mem_obs hy; subst this
      right; exact ⟨rfl, Or.inl (by simp only [stamp_started, stamp_finished, stamp_eval]; omega)⟩

theorem stamp_trialsEvents {s : Script} {t k : Nat} {x : Event} (h : x ∈ trialsEvents s t k) :
    t ≤ (stamp s x).1 ∧ (stamp s x).1 < t + k := by
  simp only [trialsEvents, List.mem_flatMap, List.mem_range'_1] at h
  obtain ⟨j, ⟨h1, h2⟩, hx⟩ := h
  have := stamp_trialEvents hx
  omega

theorem trialsEvents_pairwise (s : Script) (t k : Nat) : (trialsEvents s t k).Pairwise (Before s) := by
  unfold trialsEvents
  rw [List.pairwise_flatMap]
  refine ⟨fun j _ => trialEvents_pairwise s j, ?_⟩
  refine List.Pairwise.imp ?_ (List.pairwise_lt_range' (s := t) (n := k) (step := 1) (by omega))
  intro a b hab x hx y hy
  have := stamp_trialEvents hx
  have := stamp_trialEvents hy
  left; omega

theorem abort_pairwise (s : Script) (t m : Nat) (called : Bool) :
    (obs s (.started t) ++ (gensEvents s t 0 m ++ (if called then [Event.eval t m t m] else []))).Pairwise (Before s) ∧
    ∀ x ∈ obs s (.started t) ++ (gensEvents s t 0 m ++ (if called then [Event.eval t m t m] else [])), (stamp s x).1 = t := by
  refine ⟨?_, ?_⟩
  · rw [List.pairwise_append, List.pairwise_append]
    refine ⟨?_, ⟨gensEvents_pairwise s t 0 _, ?_, ?_⟩, ?_⟩
    · unfold obs; split <;> simp
    · cases called <;> simp
    · intro x hx y hy
      cases called with
      | false => simp at hy
      | true =>
        simp only [↓reduceIte, List.mem_singleton] at hy; subst hy
        obtain ⟨a, b, c⟩ := stamp_gensEvents hx
        right; exact ⟨by simp only [stamp_started, stamp_finished, stamp_eval, a], Or.inl (by simp only [stamp_started, stamp_finished, stamp_eval]; omega)⟩
    · intro x hx y hy
      have := mem_obs hx; subst this
      rcases List.mem_append.mp hy with hy | hy
      · obtain ⟨a, b, c⟩ := stamp_gensEvents hy
        right; exact ⟨by simp only [stamp_started, stamp_finished, stamp_eval, a], Or.inl (by simp only [stamp_started, stamp_finished, stamp_eval]; omega)⟩
      · cases called with
        | false => simp at hy
        | true =>
          simp only [↓reduceIte, List.mem_singleton] at hy; subst hy
          right; exact ⟨rfl, Or.inl (by simp only [stamp_started, stamp_finished, stamp_eval]; omega)⟩
  · intro x hx
    rcases List.mem_append.mp hx with hx | hx
    · have := mem_obs hx; subst this; rfl
    · rcases List.mem_append.mp hx with hx | hx
      · exact (stamp_gensEvents hx).1
      · cases called with
        | false => simp at hx
        | true => simp only [↓reduceIte, List.mem_singleton] at hx; subst hx; rfl

/-- **C20 (exactly once, in order).** For every script the events of the run are strictly increasing in
    (trial, slot, phase): trials in order 0,1,2,...; inside a trial the start notification, then generations
    0,1,2,... each as evaluation < turnover < notification, then the finish notification after the last generation.
    In particular NO event occurs twice: no trial is started or finished twice, no generation evaluated, turned over
    or notified twice. -/
theorem execute_chronological (s : Script) : (execute s).1.Pairwise (Before s) := by
  by_cases ho : s.hasOptions = true
  · cases herr : (execute s).2.err with
    | none => rw [(execute_complete s herr).2]; exact trialsEvents_pairwise s 0 s.runs
    | some e =>
      obtain ⟨k, hk, _, tail, hev, hab⟩ := execute_abort s ho e herr
      rw [hev, List.pairwise_append]
      have key : tail.Pairwise (Before s) ∧ ∀ x ∈ tail, (stamp s x).1 = k := by
        rcases hab with ⟨_, _, ht⟩ | ⟨_, _, ht⟩ | ⟨m, _, evs, hga, ht⟩
        · subst ht; simp
        · subst ht; simp
        · subst ht
          rcases hga with ⟨_, hh | ⟨_, hh⟩⟩ | ⟨_, _, hh⟩ | ⟨_, _, _, hh⟩
          · subst hh; simpa using abort_pairwise s k m false
          · subst hh; simpa using abort_pairwise s k m true
          · subst hh; simpa using abort_pairwise s k m true
          · subst hh; simpa using abort_pairwise s k m true
      refine ⟨trialsEvents_pairwise s 0 k, key.1, ?_⟩
      intro x hx y hy
      have := stamp_trialsEvents hx
      have := key.2 y hy
      left; omega
  · have ho' : s.hasOptions = false := by simpa using ho
    simp [execute, ho']

theorem Before.irrefl (s : Script) (a : Event) : ¬ Before s a a := by
  unfold Before; omega

/-- **C20 (no duplicate notification or evaluation).** -/
theorem execute_nodup (s : Script) : (execute s).1.Nodup := by
  have := execute_chronological s
  exact this.imp (fun {a b} h hab => by subst hab; exact Before.irrefl s a h)

end Chronology

end GoNeat.C20
