/-
  Property C10 — the champion of every sizeable species survives the epoch unchanged.
  Kind A: for every scalar type, every random stream, every registry and all option settings.
-/
import GoNeat.Model.Epoch
import GoNeat.Props.C06

namespace GoNeat.C10
open GoNeat Scalar
variable {W : Type} [Scalar W]

/-- organism `b` carries an unmodified copy of the genome of `champ` (equal in every genetic respect, own id) -/
def IsCopy (champ b : Org W) : Prop := ∃ id, b.genome = { champ.genome with id := id }

/-- every branch of `reproduceOne` appends exactly one baby and never touches the earlier ones -/
theorem reproduceOne_appends (o : EpochOpts W) (gen : Int) (s : Species W) (sorted : List (Species W)) (champ : Org W)
    (count : Int) (st st' : ReproState W) (rs rs' : List Nat)
    (h : reproduceOne o gen s sorted champ count st rs = .ok (st', rs')) :
    ∃ b, st'.babies = st.babies ++ [b] := by
  unfold reproduceOne at h
  simp only at h
  repeat' (split at h)
  all_goals (first
    | (simp only [Except.ok.injEq, Prod.mk.injEq] at h; obtain ⟨rfl, _⟩ := h; exact ⟨_, rfl⟩)
    | cases h)

/-- the super-champion branch: the counter goes down by one, and when it stood at one the baby is an exact duplicate -/
theorem reproduceOne_super (o : EpochOpts W) (gen : Int) (s : Species W) (sorted : List (Species W)) (champ : Org W)
    (count : Int) (st st' : ReproState W) (rs rs' : List Nat) (hsc : st.superChamp > 0)
    (hrefs : C06.RefsOk champ.genome)
    (h : reproduceOne o gen s sorted champ count st rs = .ok (st', rs')) :
    st'.superChamp = st.superChamp - 1 ∧ st'.champCloneDone = st.champCloneDone ∧
    (st.superChamp = 1 → ∃ b, st'.babies = st.babies ++ [b] ∧ IsCopy champ b) := by
  unfold reproduceOne at h
  simp only [hsc, ↓reduceIte] at h
  rw [C06.duplicate_exact champ.genome count hrefs] at h
  simp only at h
  by_cases h1 : st.superChamp > 1
  · simp only [h1, ↓reduceIte] at h
    have hne : ¬ st.superChamp = 1 := by omega
    repeat' (split at h)
    all_goals (first
      | (simp only [Except.ok.injEq, Prod.mk.injEq] at h; obtain ⟨rfl, _⟩ := h; exact ⟨rfl, rfl, fun h' => absurd h' hne⟩)
      | cases h)
  · simp only [h1, ↓reduceIte] at h
    simp only [Except.ok.injEq, Prod.mk.injEq] at h
    obtain ⟨rfl, _⟩ := h
    exact ⟨rfl, rfl, fun _ => ⟨_, rfl, count, rfl⟩⟩

/-- the clone branch: no super-champion clones pending, no clone made yet, quota above five -/
theorem reproduceOne_clone (o : EpochOpts W) (gen : Int) (s : Species W) (sorted : List (Species W)) (champ : Org W)
    (count : Int) (st st' : ReproState W) (rs rs' : List Nat) (hsc : ¬ st.superChamp > 0)
    (hdone : st.champCloneDone = false) (hq : s.expectedOffspring > 5) (hrefs : C06.RefsOk champ.genome)
    (h : reproduceOne o gen s sorted champ count st rs = .ok (st', rs')) :
    ∃ b, st'.babies = st.babies ++ [b] ∧ IsCopy champ b := by
  unfold reproduceOne at h
  simp only [hsc, ↓reduceIte, hdone, Bool.not_false, Bool.true_and, decide_eq_true_eq, hq] at h
  rw [C06.duplicate_exact champ.genome count hrefs] at h
  simp only [Except.ok.injEq, Prod.mk.injEq] at h
  obtain ⟨rfl, _⟩ := h
  exact ⟨_, rfl, count, rfl⟩

/-- the loop: a copy of the champion is among the babies at the end provided the loop still has to pass the
    iteration where the super-champion counter stands at one, or the clone branch is still open -/
theorem reproduceLoop_has_copy (o : EpochOpts W) (gen : Int) (s : Species W) (sorted : List (Species W)) (champ : Org W)
    (hrefs : C06.RefsOk champ.genome) (n : Nat) (count : Int) (st st' : ReproState W) (rs rs' : List Nat)
    (h : reproduceLoop o gen s sorted champ n count st rs = .ok (st', rs'))
    (hpre : (∃ b ∈ st.babies, IsCopy champ b) ∨ (1 ≤ st.superChamp ∧ st.superChamp ≤ n) ∨
            (st.superChamp ≤ 0 ∧ st.champCloneDone = false ∧ s.expectedOffspring > 5 ∧ 1 ≤ n)) :
    ∃ b ∈ st'.babies, IsCopy champ b := by
  induction n generalizing count st rs with
  | zero =>
    simp [reproduceLoop] at h
    obtain ⟨rfl, _⟩ := h
    rcases hpre with h1 | ⟨h1, h2⟩ | ⟨_, _, _, h4⟩
    · exact h1
    · omega
    · omega
  | succ n ih =>
    unfold reproduceLoop at h
    split at h
    · cases h
    · rename_i st1 rs1 hone
      obtain ⟨b1, hb1⟩ := reproduceOne_appends _ _ _ _ _ _ _ _ _ _ hone
      apply ih _ _ _ h
      rcases hpre with ⟨b, hb, hcopy⟩ | ⟨h1, h2⟩ | ⟨h1, h2, h3, _⟩
      · left; exact ⟨b, by rw [hb1]; simp [hb], hcopy⟩
      · obtain ⟨hdec, _, hlast⟩ := reproduceOne_super _ _ _ _ _ _ _ _ _ _ (by omega) hrefs hone
        by_cases heq : st.superChamp = 1
        · left
          obtain ⟨b, hb, hc⟩ := hlast heq
          exact ⟨b, by rw [hb]; simp, hc⟩
        · right; left; omega
      · left
        obtain ⟨b, hb, hc⟩ := reproduceOne_clone _ _ _ _ _ _ _ _ _ _ (by omega) h2 h3 hrefs hone
        exact ⟨b, by rw [hb]; simp, hc⟩

/-- **C10.** For every species whose offspring quota exceeds five (with the super-champion reservation not above
    the quota — established by stolen babies and delta coding, see C09) the babies returned by
    `Species.reproduce` contain an unmodified copy of the genome of the species' first organism, the champion
    (head of the species after the fitness sort). For every stream, registry and option setting. -/
theorem reproduce_has_champion (o : EpochOpts W) (gen : Int) (s : Species W) (sorted : List (Species W)) (reg reg' : Reg W)
    (uid uid' : Nat) (babies : List (Org W)) (champ : Org W) (rs rs' : List Nat)
    (hchamp : s.orgs.head? = some champ) (hrefs : C06.RefsOk champ.genome)
    (hq : s.expectedOffspring > 5) (hsc : 0 ≤ champ.superChampOffspring ∧ champ.superChampOffspring ≤ s.expectedOffspring)
    (h : reproduceSpecies o gen s sorted reg uid rs = .ok ((babies, reg', uid'), rs')) :
    ∃ b ∈ babies, IsCopy champ b := by
  unfold reproduceSpecies at h
  rw [hchamp] at h
  simp only at h
  split at h
  · cases h
  · rename_i st rs1 hloop
    simp only [Except.ok.injEq, Prod.mk.injEq] at h
    obtain ⟨⟨rfl, _, _⟩, _⟩ := h
    apply reproduceLoop_has_copy o gen s sorted champ hrefs _ _ _ _ _ _ hloop
    simp only
    have hn : (s.expectedOffspring.toNat : Int) = s.expectedOffspring := Int.toNat_of_nonneg (by omega)
    by_cases h0 : champ.superChampOffspring = 0
    · right; right; exact ⟨by omega, trivial, hq, by omega⟩
    · right; left; exact ⟨by omega, by omega⟩

end GoNeat.C10
