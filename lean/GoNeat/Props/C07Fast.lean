/-
  Property C07, fast method — the backward walk with the four-state excess/disjoint switch counts exactly the
  excess, disjoint and matching genes of the NEAT formula, hence the same counts as the linear method.
  Kind A: for all gene lists sorted by innovation number, of every length and shape.
-/
import GoNeat.Props.C07

namespace GoNeat.C07
open GoNeat Scalar
variable {W : Type} [Scalar W]

/-- strictly descending innovation numbers (the walk runs over the reversed lists) -/
def Desc (l : List Int) : Prop := l.Pairwise (· > ·)

/-- classification of the remaining genes once the walk is under way: `c` = "a gene of the OTHER genome has
    already been consumed" (all consumed genes are greater than every remaining one) -/
def excR (c : Bool) (others : List Int) (x : Int) : Bool := !c && !decide (x ∈ others) && others.all (fun y => decide (y < x))
def disR (c : Bool) (others : List Int) (x : Int) : Bool := !decide (x ∈ others) && (c || others.any (fun y => decide (x < y)))

/-- counts still to be added, given what was consumed of genome 1 (`c1`) and of genome 2 (`c2`) -/
def restCounts (c1 c2 : Bool) (xs ys : List Int) : Counts :=
  { excess := xs.countP (excR c2 ys) + ys.countP (excR c1 xs),
    disjoint := xs.countP (disR c2 ys) + ys.countP (disR c1 xs),
    matching := xs.countP (isMatch ys) }

/-- the switch encodes which genomes have had a gene consumed: 0 none, 1 only genome 1, 2 only genome 2, 3 both -/
def sw1 (sw : Nat) : Bool := sw == 1 || sw == 3
def sw2 (sw : Nat) : Bool := sw == 2 || sw == 3

theorem excR_false : excR false = isExcess := by funext o x; simp [excR, isExcess]
theorem disR_false : disR false = isDisjoint := by funext o x; simp [disR, isDisjoint]
theorem disR_true_nil (x : Int) : disR true [] x = true := by simp [disR]
theorem excR_true (o : List Int) (x : Int) : excR true o x = false := by simp [excR]

theorem restCounts_ff (xs ys : List Int) : restCounts false false xs ys = specCounts xs ys := by
  simp [restCounts, specCounts, excR_false, disR_false]

/-- a head `y` greater than everything in `xs`, consumed from the other list -/
theorem rest_consume_other (c : Bool) (xs ys : List Int) (y : Int) (h : ∀ x ∈ xs, x < y) :
    xs.countP (excR c (y :: ys)) = 0 ∧ xs.countP (excR true ys) = 0 ∧
    xs.countP (disR c (y :: ys)) = xs.countP (disR true ys) ∧ xs.countP (isMatch (y :: ys)) = xs.countP (isMatch ys) := by
  refine ⟨?_, ?_, ?_, ?_⟩
  · rw [List.countP_eq_zero]; intro x hx
    have := h x hx
    have hnlt : ¬ y < x := by omega
    simp [excR, hnlt]
  · rw [List.countP_eq_zero]; intro x _; simp [excR]
  · apply countP_congr'; intro x hx
    have := h x hx
    have hne : x ≠ y := by omega
    simp [disR, hne, this]
  · apply countP_congr'; intro x hx
    have := h x hx
    have hne : x ≠ y := by omega
    simp [isMatch, hne]

/-- the other list after ITS head `y` (greater than all of `xs` and of `ys`) has been consumed: nothing changes for it -/
theorem head_class_unmatched (c : Bool) (xs : List Int) (y : Int) (h : ∀ x ∈ xs, x < y) :
    excR c xs y = !c ∧ disR c xs y = c := by
  have hnm : y ∉ xs := by intro hm; have := h y hm; omega
  constructor
  · simp only [excR, hnm, decide_false, Bool.not_false, Bool.and_true]
    have : xs.all (fun x => decide (x < y)) = true := by simpa using h
    simp [this]
  · simp only [disR, hnm, decide_false, Bool.not_false, Bool.true_and]
    have : xs.any (fun x => decide (y < x)) = false := by
      rw [List.any_eq_false]; intro x hx; have := h x hx; simp; omega
    simp [this]

theorem desc_tail {x : Int} {xs : List Int} (h : Desc (x :: xs)) : Desc xs := (List.pairwise_cons.mp h).2
theorem desc_head_gt {x : Int} {xs : List Int} (h : Desc (x :: xs)) : ∀ y ∈ xs, y < x := by
  intro y hy; exact (List.pairwise_cons.mp h).1 y hy

/-- **C07, counting (fast method).** From any reachable state of the switch, for descending lists of every length, the
    backward walk adds exactly the excess, disjoint and matching counts that remain. -/
theorem fast_counts (xs ys : List (Gene W)) (o : CompatOpts W) (a : FastAcc W)
    (hx : Desc (inns xs)) (hy : Desc (inns ys)) (hsw : a.sw ≤ 3)
    (h1 : sw1 a.sw = false → xs ≠ []) (h2 : sw2 a.sw = false → ys ≠ []) :
    (fastWalk xs ys o a).cnt = a.cnt.add (restCounts (sw1 a.sw) (sw2 a.sw) (inns xs) (inns ys)) := by
  fun_induction fastWalk xs ys o a with
  | case1 ys o a =>
    have hc1 : sw1 a.sw = true := by
      cases hc : sw1 a.sw with
      | true => rfl
      | false => exact absurd rfl (h1 hc)
    have hlen : (inns ys).countP (disR true []) = ys.length := by
      rw [List.countP_eq_length.mpr (fun x _ => disR_true_nil x)]; simp [inns]
    simp only [inns, List.map_nil] at hlen ⊢
    simp [restCounts, Counts.add, hc1, excR_true, hlen, isMatch]
  | case2 x xs o a =>
    have hc2 : sw2 a.sw = true := by
      cases hc : sw2 a.sw with
      | true => rfl
      | false => exact absurd rfl (h2 hc)
    have hlen : (inns (x :: xs)).countP (disR true []) = xs.length + 1 := by
      rw [List.countP_eq_length.mpr (fun x _ => disR_true_nil x)]; simp [inns]
    simp only [inns, List.map_nil, List.map_cons] at hlen ⊢
    simp [restCounts, Counts.add, hc2, excR_true, hlen, isMatch]
  | case3 x xs y ys o a hgt ih =>
    -- gene2 (y) has the larger innovation number: it is consumed
    have hall : ∀ x' ∈ inns (x :: xs), x' < y.inn := by
      intro x' hx'
      simp only [inns, List.map_cons] at hx' hx
      rcases List.mem_cons.mp hx' with rfl | hm
      · omega
      · have := desc_head_gt hx x' hm; omega
    obtain ⟨e1, e2, e3, e4⟩ := rest_consume_other (sw2 a.sw) (inns (x :: xs)) (inns ys) y.inn hall
    obtain ⟨k1, k2⟩ := head_class_unmatched (sw1 a.sw) (inns (x :: xs)) y.inn hall
    simp only [dite_eq_ite] at ih
    generalize ha' : (ite (a.sw = 3) _ _ : FastAcc W) = a' at ih ⊢
    have hf : a'.sw ≤ 3 ∧ sw2 a'.sw = true ∧ sw1 a'.sw = sw1 a.sw ∧
        a'.cnt = a.cnt.add (if sw1 a.sw then { disjoint := 1 } else { excess := 1 }) := by
      have hsw' : a.sw = 0 ∨ a.sw = 1 ∨ a.sw = 2 ∨ a.sw = 3 := by omega
      rcases hsw' with h0 | h0 | h0 | h0 <;> simp [h0] at ha' <;> subst ha' <;> simp [sw1, sw2, Counts.add, h0]
    obtain ⟨g1, g2, g3, g4⟩ := hf
    rw [ih hx (by simp only [inns, List.map_cons] at hy; exact desc_tail hy) g1 (by rw [g3]; exact h1) (by simp [g2])]
    rw [g2, g3, g4]
    have hys : inns (y :: ys) = y.inn :: inns ys := rfl
    simp only [restCounts, Counts.add, hys, List.countP_cons, e1, e3, e4, k1, k2, excR_true,
      List.countP_eq_zero.mpr (fun x _ => by simp [excR_true] : ∀ x ∈ inns (x :: xs), ¬ excR true (inns ys) x = true)]
    cases sw1 a.sw <;> simp [e2, excR_true] <;> omega
  | case4 x xs y ys o a hngt heq ih =>
    have hx' : Desc (x.inn :: inns xs) := hx
    have hy' : Desc (x.inn :: inns ys) := by rw [heq]; exact hy
    rw [ih (desc_tail hx') (desc_tail hy') (by simp) (by simp [sw1]) (by simp [sw2])]
    obtain ⟨e1, e2, e3, e4⟩ := rest_consume_other (sw2 a.sw) (inns xs) (inns ys) x.inn (desc_head_gt hx')
    obtain ⟨f1, f2, f3, _⟩ := rest_consume_other (sw1 a.sw) (inns ys) (inns xs) x.inn (desc_head_gt hy')
    have hxs : inns (x :: xs) = x.inn :: inns xs := rfl
    have hys : inns (y :: ys) = x.inn :: inns ys := by rw [heq]; rfl
    have m1 : ∀ c l, excR c (x.inn :: l) x.inn = false := by intro c l; simp [excR]
    have m2 : ∀ c l, disR c (x.inn :: l) x.inn = false := by intro c l; simp [disR]
    have m3 : ∀ l, isMatch (x.inn :: l) x.inn = true := by intro l; simp [isMatch]
    have s1 : sw1 3 = true := rfl
    have s2 : sw2 3 = true := rfl
    simp only [restCounts, Counts.add, hxs, hys, List.countP_cons, e1, e3, e4, f1, f3, m1, m2, m3, s1, s2, e2, f2]
    simp
    omega
  | case5 x xs y ys o a hngt hne ih =>
    -- gene1 (x) has the larger innovation number: it is consumed
    have hlt : y.inn < x.inn := by omega
    have hall : ∀ y' ∈ inns (y :: ys), y' < x.inn := by
      intro y' hy'
      simp only [inns, List.map_cons] at hy' hy
      rcases List.mem_cons.mp hy' with rfl | hm
      · omega
      · have := desc_head_gt hy y' hm; omega
    obtain ⟨e1, e2, e3, e4⟩ := rest_consume_other (sw1 a.sw) (inns (y :: ys)) (inns xs) x.inn hall
    obtain ⟨k1, k2⟩ := head_class_unmatched (sw2 a.sw) (inns (y :: ys)) x.inn hall
    have hm : isMatch (inns (y :: ys)) x.inn = false := by
      have : x.inn ∉ inns (y :: ys) := by intro hm; have := hall _ hm; omega
      simp [isMatch, this]
    simp only [dite_eq_ite] at ih
    generalize ha' : (ite (a.sw = 3) _ _ : FastAcc W) = a' at ih ⊢
    have hf : a'.sw ≤ 3 ∧ sw1 a'.sw = true ∧ sw2 a'.sw = sw2 a.sw ∧
        a'.cnt = a.cnt.add (if sw2 a.sw then { disjoint := 1 } else { excess := 1 }) := by
      have hsw' : a.sw = 0 ∨ a.sw = 1 ∨ a.sw = 2 ∨ a.sw = 3 := by omega
      rcases hsw' with h0 | h0 | h0 | h0 <;> simp [h0] at ha' <;> subst ha' <;> simp [sw1, sw2, Counts.add, h0]
    obtain ⟨g1, g2, g3, g4⟩ := hf
    rw [ih (by simp only [inns, List.map_cons] at hx; exact desc_tail hx) hy g1 (by simp [g2]) (by rw [g3]; exact h2)]
    rw [g2, g3, g4]
    have hxs : inns (x :: xs) = x.inn :: inns xs := rfl
    simp only [restCounts, Counts.add, hxs, List.countP_cons, e1, e3, e4, k1, k2, hm, excR_true,
      List.countP_eq_zero.mpr (fun y _ => by simp [excR_true] : ∀ y ∈ inns (y :: ys), ¬ excR true (inns xs) y = true)]
    cases sw2 a.sw <;> simp [e2, excR_true] <;> omega


/-! ### the two genomes: reversed lists, and agreement with the linear method -/

theorem isExcess_reverse (ys : List Int) : isExcess ys.reverse = isExcess ys := by funext x; simp [isExcess]
theorem isDisjoint_reverse (ys : List Int) : isDisjoint ys.reverse = isDisjoint ys := by funext x; simp [isDisjoint]
theorem isMatch_reverse (ys : List Int) : isMatch ys.reverse = isMatch ys := by funext x; simp [isMatch]

theorem specCounts_reverse (a b : List Int) : specCounts a.reverse b.reverse = specCounts a b := by
  simp only [specCounts, isExcess_reverse, isDisjoint_reverse, isMatch_reverse, List.countP_reverse]

theorem desc_reverse_of_asc (l : List Int) (h : Asc l) : Desc l.reverse := by
  unfold Desc; rw [List.pairwise_reverse]; exact h

/-- **C07, counting (fast method, whole genomes).** For two non-empty genomes with genes sorted by innovation number
    the fast method counts exactly E, D and M of the NEAT formula. -/
theorem compatFast_counts (o : CompatOpts W) (g og : Genome W) (hg : GenesSorted g.genes) (ho : GenesSorted og.genes)
    (hg0 : g.genes ≠ []) (ho0 : og.genes ≠ []) :
    (compatFastAcc o g og).cnt = specCounts (inns g.genes) (inns og.genes) := by
  have h1 : Asc (inns g.genes) := by unfold Asc inns; rw [List.pairwise_map]; exact hg
  have h2 : Asc (inns og.genes) := by unfold Asc inns; rw [List.pairwise_map]; exact ho
  unfold compatFastAcc
  rw [fast_counts _ _ _ _ (by simpa [inns] using desc_reverse_of_asc _ h1) (by simpa [inns] using desc_reverse_of_asc _ h2)
        (by simp) (by intro _; simpa using hg0) (by intro _; simpa using ho0)]
  have e1 : inns g.genes.reverse = (inns g.genes).reverse := by simp [inns]
  have e2 : inns og.genes.reverse = (inns og.genes).reverse := by simp [inns]
  show ({} : Counts).add (restCounts (sw1 0) (sw2 0) _ _) = _
  have s1 : sw1 0 = false := rfl
  have s2 : sw2 0 = false := rfl
  rw [s1, s2, restCounts_ff, e1, e2, specCounts_reverse]
  simp [Counts.add]

/-- **C07 (the two methods count alike).** On sorted non-empty genomes the fast and the linear method count the
    same numbers of excess, disjoint and matching genes. -/
theorem fast_counts_eq_linear (o : CompatOpts W) (g og : Genome W) (hg : GenesSorted g.genes) (ho : GenesSorted og.genes)
    (hg0 : g.genes ≠ []) (ho0 : og.genes ≠ []) :
    (compatFastAcc o g og).cnt = (compatLinearAcc g og).cnt := by
  rw [compatFast_counts o g og hg ho hg0 ho0, compatLinear_counts g og hg ho]

/-- when one genome has no genes the fast method charges every gene of the other as excess — as the specification does -/
theorem specCounts_nil_left (b : List Int) : specCounts [] b = { excess := b.length, disjoint := 0, matching := 0 } := by
  simp [specCounts, isExcess, isDisjoint]
theorem specCounts_nil_right (a : List Int) : specCounts a [] = { excess := a.length, disjoint := 0, matching := 0 } := by
  simp [specCounts, isExcess, isDisjoint, isMatch]

end GoNeat.C07
