/-
  Properties C19 / C20: time and duration aggregates of the result records and the orders they are sorted by
  (Model/ExperimentTime.lean).  All statements are about unbounded integers (nanoseconds), no scalar type involved.

    `latest_spec`                the loop `if u.Before(x) { u = x }` from the zero time: an upper bound of every
                                 recorded instant, not before the zero time, and either the zero time or a recorded instant;
    `trialRecent_spec`, `expMostRecent_spec`   `Trial.RecentEpochEvalTime` / `Experiment.MostRecentTrialEvalTime` are the
                                 latest instant over the trial's / ALL the experiment's generations (zero time if none later);
    `avgOf_empty`, `avgOf_decompose`, `avgOf_floor`   the duration means: `EmptyDuration` for no records, otherwise
                                 total = n * avg + remainder (truncation towards zero), for non-negative durations the floor of the mean;
    `trialAvg_spec`, `expAvgTrial_spec`, `expAvgEpoch_spec`
    `lessBy_laws`                the three `Less` methods are strict weak orders (what `sort.Sort` needs);
    `sortGens_chronological`, `sortTrials_chronological`, `sortExps_chronological`
                                 sorting yields a permutation in which instants never decrease and equal instants are
                                 ordered by id - for every input, ties and pre-zero instants included.
-/
import GoNeat.Model.ExperimentTime
import GoNeat.Proofs.SortLemmas

namespace GoNeat.C19
open GoNeat GoNeat.ExpTime

/-! ### the latest instant -/

def latestFrom (u : Int) (ts : List Int) : Int := ts.foldl (fun u x => if u < x then x else u) u

theorem latestFrom_spec (ts : List Int) (u : Int) :
    u ≤ latestFrom u ts ∧ (∀ x ∈ ts, x ≤ latestFrom u ts) ∧ (latestFrom u ts = u ∨ latestFrom u ts ∈ ts) := by
  induction ts generalizing u with
  | nil => simp [latestFrom]
  | cons t ts ih =>
    have hstep : latestFrom u (t :: ts) = latestFrom (if u < t then t else u) ts := rfl
    rw [hstep]
    by_cases hut : u < t
    · rw [if_pos hut]
      obtain ⟨h1, h2, h3⟩ := ih t
      refine ⟨by omega, ?_, ?_⟩
      · intro x hx
        rcases List.mem_cons.mp hx with rfl | hx
        · exact h1
        · exact h2 x hx
      · right
        rcases h3 with h3 | h3
        · rw [h3]; exact List.mem_cons_self
        · exact List.mem_cons_of_mem _ h3
    · rw [if_neg hut]
      obtain ⟨h1, h2, h3⟩ := ih u
      refine ⟨h1, ?_, ?_⟩
      · intro x hx
        rcases List.mem_cons.mp hx with rfl | hx
        · omega
        · exact h2 x hx
      · rcases h3 with h3 | h3
        · left; exact h3
        · right; exact List.mem_cons_of_mem _ h3

theorem latest_spec (ts : List Int) :
    zeroTime ≤ latest ts ∧ (∀ x ∈ ts, x ≤ latest ts) ∧ (latest ts = zeroTime ∨ latest ts ∈ ts) :=
  latestFrom_spec ts zeroTime

theorem trialRecent_spec (t : TTrial) :
    zeroTime ≤ trialRecentEpochEvalTime t ∧ (∀ g ∈ t.gens, g.executed ≤ trialRecentEpochEvalTime t) ∧
    (trialRecentEpochEvalTime t = zeroTime ∨ ∃ g ∈ t.gens, g.executed = trialRecentEpochEvalTime t) := by
  obtain ⟨h1, h2, h3⟩ := latest_spec (t.gens.map (·.executed))
  refine ⟨h1, fun g hg => h2 _ (List.mem_map_of_mem hg), ?_⟩
  rcases h3 with h3 | h3
  · left; exact h3
  · right
    obtain ⟨g, hg, he⟩ := List.mem_map.mp h3
    exact ⟨g, hg, he⟩

/-- `Experiment.MostRecentTrialEvalTime` is the latest instant over ALL generations of ALL trials -/
theorem expMostRecent_spec (e : TExp) :
    zeroTime ≤ expMostRecentTrialEvalTime e ∧
    (∀ t ∈ e.trials, ∀ g ∈ t.gens, g.executed ≤ expMostRecentTrialEvalTime e) ∧
    (expMostRecentTrialEvalTime e = zeroTime ∨ ∃ t ∈ e.trials, ∃ g ∈ t.gens, g.executed = expMostRecentTrialEvalTime e) := by
  obtain ⟨h1, h2, h3⟩ := latest_spec (e.trials.map trialRecentEpochEvalTime)
  refine ⟨h1, ?_, ?_⟩
  · intro t ht g hg
    have := h2 _ (List.mem_map_of_mem (f := trialRecentEpochEvalTime) ht)
    have := (trialRecent_spec t).2.1 g hg
    unfold expMostRecentTrialEvalTime
    omega
  · rcases h3 with h3 | h3
    · left; exact h3
    · obtain ⟨t, ht, he⟩ := List.mem_map.mp h3
      rcases (trialRecent_spec t).2.2 with hz | ⟨g, hg, hge⟩
      · left; unfold expMostRecentTrialEvalTime; rw [← he, hz]
      · right; exact ⟨t, ht, g, hg, by unfold expMostRecentTrialEvalTime; rw [← he, hge]⟩

/-! ### duration means -/

/-- the running total of the loop -/
def total (ds : List Int) : Int := ds.foldl (· + ·) 0

theorem avgOf_empty : avgOf [] = emptyDuration := rfl

/-- truncated division: the total is `n * avg` plus a remainder of the total's sign and smaller than `n` -/
theorem avgOf_decompose (ds : List Int) (hne : ds ≠ []) :
    total ds = (ds.length : Int) * avgOf ds + (total ds).tmod ds.length := by
  have hn : ds.length > 0 := List.length_pos_iff.mpr hne
  unfold avgOf total
  rw [if_pos hn]
  exact (Int.mul_tdiv_add_tmod _ _).symm

theorem foldl_add_nonneg (ds : List Int) (a : Int) (ha : 0 ≤ a) (h : ∀ d ∈ ds, 0 ≤ d) : 0 ≤ ds.foldl (· + ·) a := by
  induction ds generalizing a with
  | nil => simpa
  | cons d ds ih =>
    simp only [List.foldl_cons]
    exact ih _ (by have := h d List.mem_cons_self; omega) (fun x hx => h x (List.mem_cons_of_mem _ hx))

/-- non-negative durations: the answer is the floor of the mean -/
theorem avgOf_floor (ds : List Int) (hne : ds ≠ []) (hnn : ∀ d ∈ ds, 0 ≤ d) :
    (ds.length : Int) * avgOf ds ≤ total ds ∧ total ds < (ds.length : Int) * (avgOf ds + 1) ∧ 0 ≤ avgOf ds := by
  have hn : ds.length > 0 := List.length_pos_iff.mpr hne
  have hn' : (0 : Int) < ds.length := by omega
  have ht : 0 ≤ total ds := foldl_add_nonneg ds 0 (Int.le_refl 0) hnn
  have hav : avgOf ds = total ds / (ds.length : Int) := by
    unfold avgOf total at *
    rw [if_pos hn, Int.tdiv_eq_ediv_of_nonneg ht]
  rw [hav]
  have h1 := Int.mul_ediv_self_le (x := total ds) (k := (ds.length : Int)) (by omega)
  have h2 := Int.lt_mul_ediv_self_add (x := total ds) (k := (ds.length : Int)) hn'
  refine ⟨h1, ?_, Int.ediv_nonneg ht (by omega)⟩
  rw [Int.mul_add, Int.mul_one]; exact h2

theorem trialAvg_spec (t : TTrial) :
    (t.gens = [] → trialAvgEpochDuration t = emptyDuration) ∧
    (t.gens ≠ [] → (∀ g ∈ t.gens, 0 ≤ g.duration) →
      (t.gens.length : Int) * trialAvgEpochDuration t ≤ total (t.gens.map (·.duration)) ∧
      total (t.gens.map (·.duration)) < (t.gens.length : Int) * (trialAvgEpochDuration t + 1)) := by
  constructor
  · intro h; unfold trialAvgEpochDuration; rw [h]; rfl
  · intro hne hnn
    have hne' : t.gens.map (·.duration) ≠ [] := by simpa using hne
    have := avgOf_floor (t.gens.map (·.duration)) hne' (by
      intro d hd; obtain ⟨g, hg, rfl⟩ := List.mem_map.mp hd; exact hnn g hg)
    simp only [List.length_map] at this
    exact ⟨this.1, this.2.1⟩

theorem expAvgTrial_spec (e : TExp) :
    (e.trials = [] → expAvgTrialDuration e = emptyDuration) ∧
    (e.trials ≠ [] → (∀ t ∈ e.trials, 0 ≤ t.duration) →
      (e.trials.length : Int) * expAvgTrialDuration e ≤ total (e.trials.map (·.duration)) ∧
      total (e.trials.map (·.duration)) < (e.trials.length : Int) * (expAvgTrialDuration e + 1)) := by
  constructor
  · intro h; unfold expAvgTrialDuration; rw [h]; rfl
  · intro hne hnn
    have hne' : e.trials.map (·.duration) ≠ [] := by simpa using hne
    have := avgOf_floor (e.trials.map (·.duration)) hne' (by
      intro d hd; obtain ⟨g, hg, rfl⟩ := List.mem_map.mp hd; exact hnn g hg)
    simp only [List.length_map] at this
    exact ⟨this.1, this.2.1⟩

/-- `Experiment.AvgEpochDuration` is the (truncated) mean of the trials' own (truncated) means - NOT the mean over all
    generations; a trial without generations contributes `EmptyDuration` = -1 ns (OBSERVATION) -/
theorem expAvgEpoch_spec (e : TExp) :
    expAvgEpochDuration e = avgOf (e.trials.map trialAvgEpochDuration) ∧
    (e.trials = [] → expAvgEpochDuration e = emptyDuration) ∧
    (∀ t ∈ e.trials, t.gens = [] → trialAvgEpochDuration t = -1) := by
  refine ⟨rfl, ?_, ?_⟩
  · intro h; unfold expAvgEpochDuration; rw [h]; rfl
  · intro t _ h; unfold trialAvgEpochDuration; rw [h]; rfl

/-! ### the sort orders -/

theorem lessBy_false_iff (ta ia tb ib : Int) :
    lessBy ta ia tb ib = false ↔ tb < ta ∨ (ta = tb ∧ ib ≤ ia) := by
  unfold lessBy
  split
  · rename_i h; subst h; simp
  · rename_i h; simp only [decide_eq_false_iff_not, Int.not_lt]; omega

theorem lessBy_true_iff (ta ia tb ib : Int) :
    lessBy ta ia tb ib = true ↔ ta < tb ∨ (ta = tb ∧ ia < ib) := by
  unfold lessBy
  split
  · rename_i h; subst h; simp
  · rename_i h; simp only [decide_eq_true_eq]; omega

/-- any order of the shape "by instant, ties by id" is a strict weak order -/
theorem lessBy_laws {α : Type} (tm idn : α → Int) :
    LessLaws (fun a b : α => lessBy (tm a) (idn a) (tm b) (idn b)) := by
  constructor
  · intro a b h
    rw [lessBy_true_iff] at h
    rw [lessBy_false_iff]
    omega
  · intro a b c h1 h2
    rw [lessBy_false_iff] at h1 h2 ⊢
    omega

theorem genLess_laws : LessLaws genLess := lessBy_laws TGen.executed TGen.id
theorem trialLess_laws : LessLaws trialLess := lessBy_laws trialRecentEpochEvalTime TTrial.id
theorem expLess_laws : LessLaws expLess := lessBy_laws expMostRecentTrialEvalTime TExp.id

/-- chronological: instants never decrease along the list, equal instants are ordered by id -/
def Chrono {α : Type} (tm idn : α → Int) (l : List α) : Prop :=
  l.Pairwise (fun a b => tm a < tm b ∨ (tm a = tm b ∧ idn a ≤ idn b))

theorem sortedBy_chrono {α : Type} (tm idn : α → Int) (l : List α)
    (h : SortedBy (fun a b : α => lessBy (tm a) (idn a) (tm b) (idn b)) l) : Chrono tm idn l := by
  unfold Chrono
  unfold SortedBy at h
  refine h.imp ?_
  intro a b hab
  rw [lessBy_false_iff] at hab
  omega

theorem sortGens_chronological (l : List TGen) :
    (sortGens l).Perm l ∧ Chrono TGen.executed TGen.id (sortGens l) :=
  ⟨goSort_perm _ l, sortedBy_chrono _ _ _ (goSort_sorted genLess genLess_laws l)⟩

theorem sortTrials_chronological (l : List TTrial) :
    (sortTrials l).Perm l ∧ Chrono trialRecentEpochEvalTime TTrial.id (sortTrials l) :=
  ⟨goSort_perm _ l, sortedBy_chrono _ _ _ (goSort_sorted trialLess trialLess_laws l)⟩

theorem sortExps_chronological (l : List TExp) :
    (sortExps l).Perm l ∧ Chrono expMostRecentTrialEvalTime TExp.id (sortExps l) :=
  ⟨goSort_perm _ l, sortedBy_chrono _ _ _ (goSort_sorted expLess expLess_laws l)⟩

/-! non-vacuity: a trial with a tie in time, a record before the zero time and one without generations -/
section NonVacuity
private def gA : TGen := { id := 2, executed := 50, duration := 7 }
private def gB : TGen := { id := 1, executed := 50, duration := 4 }
private def gC : TGen := { id := 0, executed := -3, duration := 0 }
private def tr : TTrial := { id := 0, gens := [gA, gB, gC], duration := 30 }
example : (sortGens tr.gens).map (·.id) = [0, 1, 2] := by decide
example : trialRecentEpochEvalTime tr = 50 ∧ trialAvgEpochDuration tr = 3 := by decide
example : expAvgEpochDuration { id := 1, trials := [tr, { id := 1, gens := [], duration := 0 }] } = 1 := by decide
example : trialRecentEpochEvalTime { id := 1, gens := [gC], duration := 0 } = zeroTime := by decide
end NonVacuity

end GoNeat.C19
