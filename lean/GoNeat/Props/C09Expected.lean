/-
  Property C09, first clause, over the whole preparation phase: after `prepareForReproduction` the expected offspring
  of every organism left as a parent equals its species-shared, age-adjusted fitness divided by the population mean of
  that quantity — the value assigned inside `purgeZeroOffspringSpecies` survives quota assignment, fix-up, the species
  sort, delta coding / stolen babies, the write-back by id and the removal of the marked organisms unchanged
  (preservation chain in Proofs/ExpectedChain.lean).  Kind A: `prepare_expected_full`, `prepare_expected`,
  `prepare_expected_zero_mean`.  Kind B (exact ordered field): proportionality, positivity, the mean as the mean of the
  documented adjusted values, and the executable predicate `PopSpec.expectedWhy` holds of the model's result.
-/
import GoNeat.Proofs.ExpectedChain
import GoNeat.Proofs.Exact
import GoNeat.Spec.PopInv
import Mathlib.Data.Rat.Floor

namespace GoNeat.C09
open GoNeat Scalar
variable {W : Type} [Scalar W]

/-- the population mean of the shared, age-adjusted fitness as the code computes it: adjust every species
    (`adjustAll`), then `popMean` of the population holding the adjusted species = the left fold
    `((0 + f₁) + f₂) + …` of the adjusted fitness values over `Pop.orgList` (the organisms in `Population.Organisms`
    order), divided by `ofInt (len(Population.Organisms))` -/
def popMeanAdjusted (o : EpochOpts W) (p : Pop W) : W :=
  match adjustAll o p.species with
  | .ok species1 => popMean ({ p with species := species1 } : Pop W)
  | .error _ => zero

theorem popMeanAdjusted_eq (o : EpochOpts W) (p : Pop W) (species1 : List (Species W)) (h : adjustAll o p.species = .ok species1) :
    popMeanAdjusted o p =
      div ((({ p with species := species1 } : Pop W).orgList).foldl (fun acc x => add acc x.fitness) zero)
        (ofInt ((p.organisms.length : Nat) : Int)) := by
  unfold popMeanAdjusted; rw [h]; rfl

/-- the documented adjusted fitness of every organism of the population, species by species -/
def adjustedValues (o : EpochOpts W) (p : Pop W) : List W :=
  p.species.flatMap (fun s => s.orgs.map (fun x => adjustedFitness o s x.fitness))

/-- **C09 (what the mean is the mean of, Kind A).** If `Population.Organisms` lists exactly the members of the species,
    each once, the fitness values the code sums for the mean are — up to their order — exactly the documented adjusted
    fitness values of all organisms of the population, and the divisor is their number. -/
theorem mean_values_perm (o : EpochOpts W) (p : Pop W) (species1 : List (Species W))
    (hperm : p.organisms.Perm (C02.orgUids p.species)) (hundup : (C02.orgUids p.species).Nodup)
    (hadj : adjustAll o p.species = .ok species1) :
    ((({ p with species := species1 } : Pop W).orgList).map (·.fitness)).Perm (adjustedValues o p) ∧
    p.organisms.length = (adjustedValues o p).length := by
  have hu1 := C02.adjustAll_uids o _ _ hadj
  have h1 := orgList_perm ({ p with species := species1 } : Pop W) (hperm.trans hu1.symm) (hu1.nodup_iff.mpr hundup)
  have h2 : ((({ p with species := species1 } : Pop W).orgList).map (·.fitness)).Perm (adjustedValues o p) :=
    (h1.map _).trans (adjustAll_fitness_perm o _ _ hadj)
  refine ⟨h2, ?_⟩
  rw [hperm.length_eq]
  simp [adjustedValues, C02.orgUids, List.length_flatMap]

/-- **C09 (expected offspring, whole preparation phase, both cases of the mean).** For every population with unique
    species ids, every stream and option setting: if `prepareForReproduction` returns, every species `s1` it keeps
    stems from the species `s0` with the same id, and every organism `x` left in it stems from an organism `x0` of `s0`
    (same allocation id) such that: `x.originalFitness` is `x0`'s raw fitness, `x.fitness` is the documented adjusted
    value (C09.adjustedFitness: stagnation penalty, youth boost, negative ↦ 0.0001, shared among the members of `s0`),
    and `x.expectedOffspring = x.fitness / m` with `m` the population mean of the adjusted fitness — unless the
    code's guard `m == 0` fires, in which case the expected offspring is left as it was before the turnover. -/
theorem prepare_expected_full (o : EpochOpts W) (p p1 : Pop W) (ex : ExecState) (rs rs' : List Nat)
    (hnd : (p.species.map (·.id)).Nodup) (h : prepareForReproduction o p rs = .ok ((p1, ex), rs')) :
    ∀ s1 ∈ p1.species, ∃ s0 ∈ p.species, s1.id = s0.id ∧ ∀ x ∈ s1.orgs, ∃ x0 ∈ s0.orgs, x.uid = x0.uid ∧
      x.originalFitness = x0.fitness ∧ x.fitness = adjustedFitness o s0 x.originalFitness ∧
      x.expectedOffspring =
        (if eq (popMeanAdjusted o p) zero then x0.expectedOffspring else div x.fitness (popMeanAdjusted o p)) := by
  obtain ⟨species1, hadj, hall⟩ := prepare_orgs o p p1 ex rs rs' hnd h
  have hm : popMeanAdjusted o p = popMean ({ p with species := species1 } : Pop W) := by
    unfold popMeanAdjusted; rw [hadj]
  rw [hm]
  generalize popMean ({ p with species := species1 } : Pop W) = m at hall
  intro s1 hs1
  obtain ⟨sa, hsa, hid1, hmem⟩ := hall s1 hs1
  obtain ⟨s0, hs0, hadj0⟩ := adjustAll_mem o _ _ hadj sa hsa
  obtain ⟨hid, horgs⟩ := adjustFitness_orgs o s0 sa hadj0
  refine ⟨s0, hs0, by rw [hid1, hid], ?_⟩
  intro x hx
  obtain ⟨xa, hxa, hxe⟩ := hmem x hx
  obtain ⟨x0, hx0, e1, e2, e3, e4⟩ := horgs xa hxa
  simp only [okey, Prod.mk.injEq] at hxe
  obtain ⟨k1, k2, k3, k4⟩ := hxe
  obtain ⟨hu, hf, ho⟩ := setExp_okey m xa
  refine ⟨x0, hx0, by rw [k1, hu, e1], by rw [k3, ho, e2], by rw [k3, ho, e2, k2, hf, e3], ?_⟩
  rw [k4, k2, hf]
  unfold setExp
  split
  · exact e4
  · rfl

/-- **C09, first clause (Kind A, every scalar type).** If the population mean `m` of the shared, age-adjusted fitness
    is not (float-)equal to zero, then after `prepareForReproduction` every organism `x` left as a parent has
    `x.expectedOffspring = x.fitness / m`, where `x.fitness` is the documented adjusted value of its raw fitness
    `x.originalFitness` in its species `s0` of the old population, and `x` stems from an organism of `s0` with the same
    allocation id and that raw fitness. -/
theorem prepare_expected (o : EpochOpts W) (p p1 : Pop W) (ex : ExecState) (rs rs' : List Nat)
    (hnd : (p.species.map (·.id)).Nodup) (h : prepareForReproduction o p rs = .ok ((p1, ex), rs'))
    (hm : eq (popMeanAdjusted o p) zero = false) :
    ∀ s1 ∈ p1.species, ∃ s0 ∈ p.species, s1.id = s0.id ∧ ∀ x ∈ s1.orgs,
      x.expectedOffspring = div x.fitness (popMeanAdjusted o p) ∧
      x.fitness = adjustedFitness o s0 x.originalFitness ∧
      ∃ x0 ∈ s0.orgs, x0.uid = x.uid ∧ x0.fitness = x.originalFitness := by
  intro s1 hs1
  obtain ⟨s0, hs0, hid, hx⟩ := prepare_expected_full o p p1 ex rs rs' hnd h s1 hs1
  refine ⟨s0, hs0, hid, ?_⟩
  intro x hxm
  obtain ⟨x0, hx0, e1, e2, e3, e4⟩ := hx x hxm
  rw [hm] at e4
  exact ⟨e4, e3, x0, hx0, e1.symm, e2.symm⟩

/-- **C09, the guard.** If the population mean of the adjusted fitness is (float-)equal to zero, the code skips the
    assignment: every organism left as a parent keeps the expected offspring it had before the turnover. -/
theorem prepare_expected_zero_mean (o : EpochOpts W) (p p1 : Pop W) (ex : ExecState) (rs rs' : List Nat)
    (hnd : (p.species.map (·.id)).Nodup) (h : prepareForReproduction o p rs = .ok ((p1, ex), rs'))
    (hm : eq (popMeanAdjusted o p) zero = true) :
    ∀ s1 ∈ p1.species, ∃ s0 ∈ p.species, s1.id = s0.id ∧ ∀ x ∈ s1.orgs,
      x.fitness = adjustedFitness o s0 x.originalFitness ∧
      ∃ x0 ∈ s0.orgs, x0.uid = x.uid ∧ x0.fitness = x.originalFitness ∧ x.expectedOffspring = x0.expectedOffspring := by
  intro s1 hs1
  obtain ⟨s0, hs0, hid, hx⟩ := prepare_expected_full o p p1 ex rs rs' hnd h s1 hs1
  refine ⟨s0, hs0, hid, ?_⟩
  intro x hxm
  obtain ⟨x0, hx0, e1, e2, e3, e4⟩ := hx x hxm
  rw [hm] at e4
  exact ⟨e3, x0, hx0, e1.symm, e2.symm, e4⟩

/-! ### Kind B: exact ordered-field arithmetic (`exactScalar`) -/
section KindB
variable {K : Type} [Field K] [LinearOrder K] [IsStrictOrderedRing K] [FloorRing K]

/-- the documented adjusted fitness is never negative (negative values are replaced by 0.0001 before the sharing) -/
theorem adjustedFitness_nonneg (o : EpochOpts K) (s : Species K) (f : K) : 0 ≤ adjustedFitness o s f := by
  have hclamp : ∀ f2 : K, 0 ≤ (if Scalar.lt f2 Scalar.zero then Scalar.ofDec 1 4 else f2) := by
    intro f2
    simp only [Exact.lt_eq, Exact.zero_eq, decide_eq_true_eq]
    split
    · show (0 : K) ≤ ((1 : Nat) : K) / (10 : K) ^ 4
      exact div_nonneg (Nat.cast_nonneg _) (pow_nonneg (by norm_num) _)
    · rename_i hlt; exact le_of_not_gt hlt
  unfold adjustedFitness
  simp only [Exact.div_eq, Exact.ofInt_eq]
  exact div_nonneg (hclamp _) (Int.cast_nonneg (Int.natCast_nonneg _))

omit [FloorRing K] in
theorem foldl_add_ge {α : Type} (f : α → K) (l : List α) (a : K) (hnn : ∀ y ∈ l, 0 ≤ f y) :
    a ≤ l.foldl (fun acc y => acc + f y) a ∧ ∀ x ∈ l, a + f x ≤ l.foldl (fun acc y => acc + f y) a := by
  induction l generalizing a with
  | nil => exact ⟨le_refl _, by intro x hx; cases hx⟩
  | cons y ys ih =>
    have hy := hnn y (by simp)
    obtain ⟨i1, i2⟩ := ih (a + f y) (fun z hz => hnn z (by simp [hz]))
    simp only [List.foldl_cons]
    refine ⟨by linarith, ?_⟩
    intro x hx
    rcases List.mem_cons.mp hx with rfl | hx'
    · exact i1
    · have := i2 x hx'
      linarith

/-- members of the adjusted species have non-negative fitness -/
theorem adjustAll_fitness_nonneg (o : EpochOpts K) (ss species1 : List (Species K)) (hadj : adjustAll o ss = .ok species1) :
    ∀ sa ∈ species1, ∀ xa ∈ sa.orgs, 0 ≤ xa.fitness := by
  intro sa hsa xa hxa
  obtain ⟨s0, _, hadj0⟩ := adjustAll_mem o _ _ hadj sa hsa
  obtain ⟨x0, _, _, _, e3, _⟩ := (adjustFitness_orgs o s0 sa hadj0).2 xa hxa
  rw [e3]; exact adjustedFitness_nonneg o s0 _

theorem popMean_exact (q : Pop K) :
    popMean q = q.orgList.foldl (fun acc x => acc + x.fitness) 0 / ((q.organisms.length : Nat) : K) := by
  unfold popMean
  simp only [Exact.div_eq, Exact.ofInt_eq, Exact.add_eq, Exact.zero_eq, Int.cast_natCast]

/-- **the mean is never negative** (exact arithmetic) -/
theorem popMeanAdjusted_nonneg (o : EpochOpts K) (p : Pop K) : 0 ≤ popMeanAdjusted o p := by
  unfold popMeanAdjusted
  split
  · rename_i species1 hadj
    rw [popMean_exact]
    refine div_nonneg (foldl_add_ge (fun x : Org K => x.fitness) _ 0 ?_).1 (Nat.cast_nonneg _)
    intro y hy
    obtain ⟨sa, hsa, hya⟩ := orgList_mem _ y hy
    exact adjustAll_fitness_nonneg o _ _ hadj sa hsa y hya
  · exact le_refl _

/-- in a consistently allocated population with pairwise distinct organisms, a member of an adjusted species with
    positive fitness makes the mean positive -/
theorem popMeanAdjusted_pos (o : EpochOpts K) (p : Pop K) (species1 : List (Species K))
    (hu : C02.UidInv p) (hundup : (C02.orgUids p.species).Nodup) (hadj : adjustAll o p.species = .ok species1)
    (sa : Species K) (hsa : sa ∈ species1) (xa : Org K) (hxa : xa ∈ sa.orgs) (hpos : 0 < xa.fitness) :
    0 < popMeanAdjusted o p := by
  have hperm := C02.adjustAll_uids o _ _ hadj
  have hin : xa ∈ ({ p with species := species1 } : Pop K).orgList :=
    mem_orgList ({ p with species := species1 } : Pop K) (fun u hu' => hu.listed u (hperm.subset hu')) (hperm.nodup_iff.mpr hundup) sa hsa xa hxa
  have hm : popMeanAdjusted o p = popMean ({ p with species := species1 } : Pop K) := by
    unfold popMeanAdjusted; rw [hadj]
  rw [hm, popMean_exact]
  have hnn : ∀ y ∈ ({ p with species := species1 } : Pop K).orgList, 0 ≤ (fun x : Org K => x.fitness) y := by
    intro y hy
    obtain ⟨sb, hsb, hyb⟩ := orgList_mem _ y hy
    exact adjustAll_fitness_nonneg o _ _ hadj sb hsb y hyb
  have hsum := (foldl_add_ge (fun x : Org K => x.fitness) _ 0 hnn).2 xa hin
  simp only [zero_add] at hsum
  apply div_pos (lt_of_lt_of_le hpos hsum)
  -- the organism list is not empty
  have hne : p.organisms ≠ [] := by
    intro he
    unfold Pop.orgList at hin
    simp only [he, List.filterMap_nil, List.not_mem_nil] at hin
  have : 0 < p.organisms.length := List.length_pos_iff.mpr hne
  exact_mod_cast this

omit [FloorRing K] [LinearOrder K] [IsStrictOrderedRing K] in
theorem foldl_add_eq_sum {α : Type} (f : α → K) (l : List α) (a : K) :
    l.foldl (fun acc y => acc + f y) a = a + (l.map f).sum := by
  induction l generalizing a with
  | nil => simp
  | cons y ys ih => simp only [List.foldl_cons, ih, List.map_cons, List.sum_cons]; ring

omit [FloorRing K] [LinearOrder K] [IsStrictOrderedRing K] in
theorem sum_perm {a b : List K} (h : a.Perm b) : a.sum = b.sum := by
  induction h with
  | nil => rfl
  | cons x _ ih => simp [ih]
  | swap x y l => simp only [List.sum_cons]; ring
  | trans _ _ ih1 ih2 => exact ih1.trans ih2

/-- **C09 (Kind B): the divisor is the population mean of the adjusted fitness.** In exact arithmetic, for a
    population whose organism list lists exactly the members of its species: `m` is the sum of the documented adjusted
    fitness values of all organisms divided by their number. -/
theorem popMeanAdjusted_is_mean (o : EpochOpts K) (p : Pop K) (species1 : List (Species K))
    (hperm : p.organisms.Perm (C02.orgUids p.species)) (hundup : (C02.orgUids p.species).Nodup)
    (hadj : adjustAll o p.species = .ok species1) :
    popMeanAdjusted o p = (adjustedValues o p).sum / ((adjustedValues o p).length : K) := by
  obtain ⟨h1, h2⟩ := mean_values_perm o p species1 hperm hundup hadj
  have hm : popMeanAdjusted o p = popMean ({ p with species := species1 } : Pop K) := by
    unfold popMeanAdjusted; rw [hadj]
  rw [hm, popMean_exact, foldl_add_eq_sum (fun x : Org K => x.fitness), zero_add, sum_perm h1]
  show _ / ((p.organisms.length : Nat) : K) = _
  rw [h2]

/-- what the Kind-B corollaries use: every organism left as a parent has `fitness ≥ 0`, and its expected offspring is
    `fitness / m` or (zero mean) untouched; with the allocation hypotheses a positive fitness forces `m > 0` -/
theorem prepare_expected_exact (o : EpochOpts K) (p p1 : Pop K) (ex : ExecState) (rs rs' : List Nat)
    (hnd : (p.species.map (·.id)).Nodup) (h : prepareForReproduction o p rs = .ok ((p1, ex), rs')) :
    ∀ s1 ∈ p1.species, ∀ x ∈ s1.orgs, 0 ≤ x.fitness ∧
      (popMeanAdjusted o p ≠ 0 → x.expectedOffspring = x.fitness / popMeanAdjusted o p) ∧
      (C02.UidInv p → (C02.orgUids p.species).Nodup → 0 < x.fitness → 0 < popMeanAdjusted o p) := by
  obtain ⟨species1, hadj, hall⟩ := prepare_orgs o p p1 ex rs rs' hnd h
  intro s1 hs1 x hx
  obtain ⟨sa, hsa, _, hmem⟩ := hall s1 hs1
  obtain ⟨xa, hxa, hxe⟩ := hmem x hx
  simp only [okey, Prod.mk.injEq] at hxe
  obtain ⟨_, k2, _, _⟩ := hxe
  rw [(setExp_okey _ xa).2.1] at k2
  refine ⟨by rw [k2]; exact adjustAll_fitness_nonneg o _ _ hadj sa hsa xa hxa, ?_, ?_⟩
  · intro hm
    obtain ⟨s0, _, _, hx0⟩ := prepare_expected_full o p p1 ex rs rs' hnd h s1 hs1
    obtain ⟨x0, _, _, _, _, e4⟩ := hx0 x hx
    have : Scalar.eq (popMeanAdjusted o p) Scalar.zero = false := by simpa using hm
    rw [this] at e4
    exact e4
  · intro hu hundup hpos
    exact popMeanAdjusted_pos o p species1 hu hundup hadj sa hsa xa hxa (by rw [← k2]; exact hpos)

/-- **C09 (Kind B): one population-wide factor.** If the mean is not zero, the expected offspring of the organisms left
    as parents are proportional to their shared, age-adjusted fitness: `e_x · f_y = e_y · f_x`. -/
theorem prepare_expected_proportional (o : EpochOpts K) (p p1 : Pop K) (ex : ExecState) (rs rs' : List Nat)
    (hnd : (p.species.map (·.id)).Nodup) (h : prepareForReproduction o p rs = .ok ((p1, ex), rs'))
    (hm : popMeanAdjusted o p ≠ 0) :
    ∀ s1 ∈ p1.species, ∀ x ∈ s1.orgs, ∀ s2 ∈ p1.species, ∀ y ∈ s2.orgs,
      x.expectedOffspring * y.fitness = y.expectedOffspring * x.fitness := by
  intro s1 hs1 x hx s2 hs2 y hy
  have hx' := (prepare_expected_exact o p p1 ex rs rs' hnd h s1 hs1 x hx).2.1 hm
  have hy' := (prepare_expected_exact o p p1 ex rs rs' hnd h s2 hs2 y hy).2.1 hm
  rw [hx', hy']; ring

/-- **C09 (Kind B): positive fitness, positive expectation.** With a positive mean, an organism with positive adjusted
    fitness has a positive expected offspring. -/
theorem prepare_expected_pos (o : EpochOpts K) (p p1 : Pop K) (ex : ExecState) (rs rs' : List Nat)
    (hnd : (p.species.map (·.id)).Nodup) (h : prepareForReproduction o p rs = .ok ((p1, ex), rs'))
    (hm : 0 < popMeanAdjusted o p) :
    ∀ s1 ∈ p1.species, ∀ x ∈ s1.orgs, 0 < x.fitness → 0 < x.expectedOffspring := by
  intro s1 hs1 x hx hpos
  rw [(prepare_expected_exact o p p1 ex rs rs' hnd h s1 hs1 x hx).2.1 (ne_of_gt hm)]
  exact div_pos hpos hm

/-- **C09 (Kind B), no side condition on the mean.** For a consistently allocated population with pairwise distinct
    organisms: after the preparation phase an organism with positive adjusted fitness has a positive expected offspring
    (the mean is then positive), and the expected offspring of any two organisms are proportional to their adjusted
    fitness (if the mean is zero, all adjusted fitness values are zero). -/
theorem prepare_expected_all (o : EpochOpts K) (p p1 : Pop K) (ex : ExecState) (rs rs' : List Nat)
    (hnd : (p.species.map (·.id)).Nodup) (hu : C02.UidInv p) (hundup : (C02.orgUids p.species).Nodup)
    (h : prepareForReproduction o p rs = .ok ((p1, ex), rs')) :
    (∀ s1 ∈ p1.species, ∀ x ∈ s1.orgs, 0 < x.fitness → 0 < x.expectedOffspring) ∧
    (∀ s1 ∈ p1.species, ∀ x ∈ s1.orgs, ∀ s2 ∈ p1.species, ∀ y ∈ s2.orgs,
      x.expectedOffspring * y.fitness = y.expectedOffspring * x.fitness) := by
  have hE := prepare_expected_exact o p p1 ex rs rs' hnd h
  constructor
  · intro s1 hs1 x hx hpos
    exact prepare_expected_pos o p p1 ex rs rs' hnd h ((hE s1 hs1 x hx).2.2 hu hundup hpos) s1 hs1 x hx hpos
  · by_cases hm : popMeanAdjusted o p = 0
    · -- zero mean: every adjusted fitness is zero
      have hz : ∀ s1 ∈ p1.species, ∀ x ∈ s1.orgs, x.fitness = 0 := by
        intro s1 hs1 x hx
        obtain ⟨h0, _, h2⟩ := hE s1 hs1 x hx
        rcases eq_or_lt_of_le h0 with e | hlt
        · exact e.symm
        · have := h2 hu hundup hlt
          rw [hm] at this
          exact absurd this (lt_irrefl _)
      intro s1 hs1 x hx s2 hs2 y hy
      rw [hz s1 hs1 x hx, hz s2 hs2 y hy]; ring
    · exact prepare_expected_proportional o p p1 ex rs rs' hnd h hm

/-- the executable predicate `PopSpec.expectedWhy` (evaluated by the driver on the implementation's state) accepts every
    population in which positive fitness implies positive expectation and expectations are exactly proportional -/
theorem expectedWhy_of (p1 : Pop K)
    (hpos : ∀ x ∈ p1.species.flatMap (·.orgs), 0 < x.fitness → 0 < x.expectedOffspring)
    (hprop : ∀ x ∈ p1.species.flatMap (·.orgs), ∀ r ∈ p1.species.flatMap (·.orgs),
      x.expectedOffspring * r.fitness = r.expectedOffspring * x.fitness) :
    PopSpec.expectedWhy p1 = "" := by
  unfold PopSpec.expectedWhy
  simp only
  have h1 : (p1.species.flatMap (·.orgs)).find? (fun x => Scalar.lt Scalar.zero x.fitness && !Scalar.lt Scalar.zero x.expectedOffspring) = none := by
    rw [List.find?_eq_none]
    intro x hx
    simp only [Exact.lt_eq, Exact.zero_eq, Bool.and_eq_true, decide_eq_true_eq, Bool.not_eq_true', decide_eq_false_iff_not,
      not_and, not_not]
    exact hpos x hx
  rw [h1]
  simp only
  split
  · rfl
  · rename_i r hr
    have hrm := List.mem_of_find?_eq_some hr
    have h2 : (p1.species.flatMap (·.orgs)).find? (fun x =>
          Scalar.lt (Scalar.mul (Scalar.ofDec 1 9) (Scalar.add (Scalar.abs (Scalar.mul x.expectedOffspring r.fitness))
            (Scalar.abs (Scalar.mul r.expectedOffspring x.fitness))))
            (Scalar.abs (Scalar.sub (Scalar.mul x.expectedOffspring r.fitness) (Scalar.mul r.expectedOffspring x.fitness)))) = none := by
      rw [List.find?_eq_none]
      intro x hx
      simp only [Exact.lt_eq, Exact.mul_eq, Exact.add_eq, Exact.abs_eq, Exact.sub_eq, decide_eq_true_eq, not_lt]
      rw [hprop x hx r hrm, sub_self, abs_zero]
      apply mul_nonneg
      · show (0 : K) ≤ ((1 : Nat) : K) / (10 : K) ^ 9
        exact div_nonneg (Nat.cast_nonneg _) (pow_nonneg (by norm_num) _)
      · exact add_nonneg (abs_nonneg _) (abs_nonneg _)
    rw [h2]

/-- **C09 (Kind B): the model passes the executable predicate.** For a consistently allocated population with pairwise
    distinct organisms and unique species ids, in exact arithmetic, the population returned by the model's preparation
    phase satisfies `PopSpec.expectedWhy` — the predicate the driver evaluates on the implementation's own numbers
    (there with the relative tolerance 1e-9 the predicate allows for float64 rounding; here the two sides are equal). -/
theorem expectedWhy_model (o : EpochOpts K) (p p1 : Pop K) (ex : ExecState) (rs rs' : List Nat)
    (hnd : (p.species.map (·.id)).Nodup) (hu : C02.UidInv p) (hundup : (C02.orgUids p.species).Nodup)
    (h : prepareForReproduction o p rs = .ok ((p1, ex), rs')) :
    PopSpec.expectedWhy p1 = "" := by
  obtain ⟨hp, hq⟩ := prepare_expected_all o p p1 ex rs rs' hnd hu hundup h
  apply expectedWhy_of
  · intro x hx
    obtain ⟨s1, hs1, hx1⟩ := List.mem_flatMap.mp hx
    exact hp s1 hs1 x hx1
  · intro x hx r hr
    obtain ⟨s1, hs1, hx1⟩ := List.mem_flatMap.mp hx
    obtain ⟨s2, hs2, hr2⟩ := List.mem_flatMap.mp hr
    exact hq s1 hs1 x hx1 s2 hs2 r hr2

end KindB

/-! ### non-vacuity: concrete populations over ℚ satisfy all hypotheses (both branches of the guard) -/
section NonVacuity

/-- `exactScalar ℚ` with the comparisons decided by ℚ's own order instead of classical choice, so that the kernel can
    evaluate the model; it is the same instance (`ratScalar_eq`) -/
@[instance_reducible] noncomputable def ratScalar : Scalar ℚ :=
  { exactScalar ℚ with
    lt := fun a b => decide (a < b), le := fun a b => decide (a ≤ b), eq := fun a b => decide (a = b),
    f32Ge03 := fun x => decide ((3 : ℚ) / 10 ≤ x) }

theorem ratScalar_eq : exactScalar ℚ = ratScalar := by
  unfold exactScalar ratScalar
  congr

def qOpts : EpochOpts ℚ :=
  { popSize := 3, dropOffAge := 15, ageSignificance := 1, survivalThresh := 1 / 2, babiesStolen := 0, compatThreshold := 3,
    compat := { disjointCoeff := 1, excessCoeff := 1, mutdiffCoeff := 1, linear := true },
    mutateOnlyProb := 1, mutateAddNodeProb := 1, mutateAddLinkProb := 1, mutateConnectSensors := 1,
    interspeciesMateRate := 1, mateMultipointProb := 1, mateMultipointAvgProb := 1, mateSinglepointProb := 1,
    mateOnlyProb := 1,
    mopts := { recurOnlyProb := 0, newLinkTries := 3, activators := [4], activatorProbs := [1], traitMutationPower := 0,
               traitParamMutProb := 0, weightMutPower := 0, mutateRandomTraitProb := 1, mutateLinkTraitProb := 1,
               mutateNodeTraitProb := 1, mutateLinkWeightsProb := 1, mutateToggleEnableProb := 1, mutateGeneReenableProb := 1 } }

def qOrg (uid : Nat) (f : ℚ) : Org ℚ :=
  { uid := uid, fitness := f, expectedOffspring := 7, generation := 0, originalFitness := 0, highestFitness := 0,
    genome := { id := uid, traits := [⟨1, []⟩], nodes := [⟨1, Kind.input, 4, none⟩, ⟨2, Kind.output, 4, none⟩],
                genes := [⟨1, 1, 2, false, 0, 0, true, none⟩] } }

/-- two species (ids 1 and 4) with raw fitness values `f0, f2` and `f1`; organism list `[0, 1, 2]` -/
def qPop (f0 f1 f2 : ℚ) : Pop ℚ :=
  { species := [{ id := 1, age := 3, maxFitnessEver := 0, expectedOffspring := 0, isNovel := false, orgs := [qOrg 0 f0, qOrg 2 f2],
                  ageOfLastImprovement := 0 },
                { id := 4, age := 1, maxFitnessEver := 0, expectedOffspring := 0, isNovel := true, orgs := [qOrg 1 f1],
                  ageOfLastImprovement := 0 }],
    organisms := [0, 1, 2], lastSpecies := 4, highestFitness := 0, epochsHighestLastChanged := 0,
    reg := { records := [], nextInn := 1, nextNode := 2 }, nextUid := 3 }

/-- species id and quota of the result -/
def quotasOf {W} (r : R (Pop W × ExecState)) : List (Int × Int) :=
  match r with | .ok ((q, _), _) => q.species.map (fun (s : Species W) => (s.id, s.expectedOffspring)) | .error _ => []

/-- (allocation id, fitness, original fitness, expected offspring) of the organisms left as parents -/
def parentsOf {W} (r : R (Pop W × ExecState)) : List (Nat × W × W × W) :=
  match r with | .ok ((q, _), _) => q.species.flatMap (fun (s : Species W) => s.orgs.map okey) | .error _ => []

theorem ok_of_parents {W} (r : R (Pop W × ExecState)) (h : parentsOf r ≠ []) : ∃ p1 ex rs', r = .ok ((p1, ex), rs') := by
  match r, h with
  | .ok ((q, ex), rs'), _ => exact ⟨q, ex, rs', rfl⟩
  | .error _, h => exact absurd rfl h

/-- the hypotheses shared by all theorems of this file hold for `qPop` -/
example (f0 f1 f2 : ℚ) : ((qPop f0 f1 f2).species.map (·.id)).Nodup ∧ C02.UidInv (qPop f0 f1 f2) ∧
    (C02.orgUids (qPop f0 f1 f2).species).Nodup ∧ (qPop f0 f1 f2).organisms.Perm (C02.orgUids (qPop f0 f1 f2).species) :=
  ⟨by simp [qPop], ⟨by simp [qPop, C02.orgUids, qOrg], by simp [qPop]⟩, by simp [qPop, C02.orgUids, qOrg],
   by simp only [qPop, C02.orgUids, qOrg, List.flatMap_cons, List.flatMap_nil, List.map_cons, List.map_nil, List.cons_append,
        List.nil_append, List.append_nil]
      exact (List.Perm.swap 2 1 []).cons 0⟩

/-- raw fitness 1, 5 (species 1, shared by two: 1/2, 5/2) and 3 (species 4): the preparation phase returns, the mean
    is 2 ≠ 0, all three organisms stay parents with expected offspring 5/4, 1/4, 3/2 (quotas 1 and 2) — and the
    executable predicate accepts the result (evaluated, independently of `expectedWhy_model`) -/
example :
    (∃ p1 ex rs', prepareForReproduction qOpts (qPop 1 3 5) [] = .ok ((p1, ex), rs')) ∧
    popMeanAdjusted qOpts (qPop 1 3 5) = 2 ∧ Scalar.eq (popMeanAdjusted qOpts (qPop 1 3 5)) Scalar.zero = false ∧
    0 < popMeanAdjusted qOpts (qPop 1 3 5) ∧
    quotasOf (prepareForReproduction qOpts (qPop 1 3 5) []) = [(1, 1), (4, 2)] ∧
    parentsOf (prepareForReproduction qOpts (qPop 1 3 5) []) = [(2, 5 / 2, 5, 5 / 4), (0, 1 / 2, 1, 1 / 4), (1, 3, 3, 3 / 2)] ∧
    PopSpec.expectedWhy (match prepareForReproduction qOpts (qPop 1 3 5) [] with | .ok ((q, _), _) => q | .error _ => qPop 1 3 5) = "" := by
  have hm : popMeanAdjusted qOpts (qPop 1 3 5) = 2 := by rw [ratScalar_eq]; decide +kernel
  have hp : parentsOf (prepareForReproduction qOpts (qPop 1 3 5) []) = [(2, 5 / 2, 5, 5 / 4), (0, 1 / 2, 1, 1 / 4), (1, 3, 3, 3 / 2)] := by
    rw [ratScalar_eq]; decide +kernel
  refine ⟨ok_of_parents _ (by rw [hp]; simp), hm, ?_, by rw [hm]; norm_num, ?_, hp, ?_⟩
  · rw [hm]; simp
  · rw [ratScalar_eq]; decide +kernel
  · rw [ratScalar_eq]; decide +kernel

/-- all raw fitness values zero: the preparation phase returns, the mean is zero, the guard fires and every organism keeps
    the (stale) expected offspring 7 it came with — the quotas are then computed from those stale values (14 and 7) -/
example :
    (∃ p1 ex rs', prepareForReproduction qOpts (qPop 0 0 0) [] = .ok ((p1, ex), rs')) ∧
    Scalar.eq (popMeanAdjusted qOpts (qPop 0 0 0)) Scalar.zero = true ∧
    quotasOf (prepareForReproduction qOpts (qPop 0 0 0) []) = [(1, 14), (4, 7)] ∧
    parentsOf (prepareForReproduction qOpts (qPop 0 0 0) []) = [(0, 0, 0, 7), (2, 0, 0, 7), (1, 0, 0, 7)] := by
  have hp : parentsOf (prepareForReproduction qOpts (qPop 0 0 0) []) = [(0, 0, 0, 7), (2, 0, 0, 7), (1, 0, 0, 7)] := by
    rw [ratScalar_eq]; decide +kernel
  refine ⟨ok_of_parents _ (by rw [hp]; simp), ?_, ?_, hp⟩
  · rw [ratScalar_eq]; decide +kernel
  · rw [ratScalar_eq]; decide +kernel

end NonVacuity

end GoNeat.C09
