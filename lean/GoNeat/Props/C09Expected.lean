/-
  Property C09, first clause, over the whole preparation phase: after `prepareForReproduction` the expected offspring
  of every organism left as a parent equals its species-shared, age-adjusted fitness divided by the population mean of
  that quantity — the value assigned inside `purgeZeroOffspringSpecies` survives quota assignment, fix-up, the species
  sort, delta coding / stolen babies, the write-back by id and the removal of the marked organisms unchanged
  (preservation chain in Proofs/ExpectedChain.lean).  Kind A: `prepare_expected_full`, `prepare_expected`,
  `prepare_expected_zero_mean`.  Kind B (exact ordered field): proportionality, positivity, the mean as the mean of the
  documented adjusted values, and the executable predicate `PopSpec.expectedWhy` holds of the model's result.
-/
import GoNeat.Proofs.ExpectedChain

namespace GoNeat.C09
open GoNeat Scalar
variable {W : Type} [Scalar W]

/-- the population mean of the shared, age-adjusted fitness as the code computes it: adjust every species
    (`adjustAll`), then `popMean` of the population holding the adjusted species = the left fold
    `((0 + f₁) + f₂) + …` of the adjusted fitness values over `Pop.orgList` (the organisms in `Population.Organisms`
    order), divided by `ofInt (len(Population.Organisms))` -/
def popMeanAdjusted (o : EpochOpts W) (p : Pop W) : W :=
  match adjustAll o p.species with
  | .ok species1 => popMean ({ p with species := species1 } : Pop W)
  | .error _ => zero

theorem popMeanAdjusted_eq (o : EpochOpts W) (p : Pop W) (species1 : List (Species W)) (h : adjustAll o p.species = .ok species1) :
    popMeanAdjusted o p =
      div ((({ p with species := species1 } : Pop W).orgList).foldl (fun acc x => add acc x.fitness) zero)
        (ofInt ((p.organisms.length : Nat) : Int)) := by
  unfold popMeanAdjusted; rw [h]; rfl

/-- **C09 (expected offspring, whole preparation phase, both cases of the mean).** For every population with unique
    species ids, every stream and option setting: if `prepareForReproduction` returns, every species `s1` it keeps
    stems from the species `s0` with the same id, and every organism `x` left in it stems from an organism `x0` of `s0`
    (same allocation id) such that: `x.originalFitness` is `x0`'s raw fitness, `x.fitness` is the documented adjusted
    value (C09.adjustedFitness: stagnation penalty, youth boost, negative ↦ 0.0001, shared among the members of `s0`),
    and `x.expectedOffspring = x.fitness / m` with `m` the population mean of the adjusted fitness — unless the
    code's guard `m == 0` fires, in which case the expected offspring is left as it was before the turnover. -/
theorem prepare_expected_full (o : EpochOpts W) (p p1 : Pop W) (ex : ExecState) (rs rs' : List Nat)
    (hnd : (p.species.map (·.id)).Nodup) (h : prepareForReproduction o p rs = .ok ((p1, ex), rs')) :
    ∀ s1 ∈ p1.species, ∃ s0 ∈ p.species, s1.id = s0.id ∧ ∀ x ∈ s1.orgs, ∃ x0 ∈ s0.orgs, x.uid = x0.uid ∧
      x.originalFitness = x0.fitness ∧ x.fitness = adjustedFitness o s0 x.originalFitness ∧
      x.expectedOffspring =
        (if eq (popMeanAdjusted o p) zero then x0.expectedOffspring else div x.fitness (popMeanAdjusted o p)) := by
  obtain ⟨species1, mid, doomed, hadj, hsub, hsp⟩ := prepare_xkeys o p p1 ex rs rs' hnd h
  have hm : popMeanAdjusted o p = popMean ({ p with species := species1 } : Pop W) := by
    unfold popMeanAdjusted; rw [hadj]
  rw [hm]
  generalize popMean ({ p with species := species1 } : Pop W) = m at hsub
  intro s1 hs1
  rw [hsp] at hs1
  obtain ⟨s, hs, rfl⟩ := List.mem_map.mp hs1
  have hk := hsub.subset (List.mem_map_of_mem (f := xkey) hs)
  simp only [List.map_map, List.mem_map, Function.comp] at hk
  obtain ⟨sa, hsa, hka⟩ := hk
  obtain ⟨s0, hs0, hadj0⟩ := adjustAll_mem o _ _ hadj sa hsa
  obtain ⟨hid, horgs⟩ := adjustFitness_orgs o s0 sa hadj0
  simp only [xkey, Prod.mk.injEq] at hka
  obtain ⟨hka1, hka2⟩ := hka
  refine ⟨s0, hs0, by rw [← hid]; exact hka1.symm, ?_⟩
  intro x hx
  have hx' : x ∈ s.orgs := (List.mem_filter.mp hx).1
  have hxk : okey x ∈ s.orgs.map okey := List.mem_map_of_mem hx'
  rw [← hka2, List.map_map] at hxk
  obtain ⟨xa, hxa, hxe⟩ := List.mem_map.mp hxk
  obtain ⟨x0, hx0, e1, e2, e3, e4⟩ := horgs xa hxa
  simp only [Function.comp, okey, Prod.mk.injEq] at hxe
  obtain ⟨k1, k2, k3, k4⟩ := hxe
  have hf : (setExp m xa).fitness = xa.fitness := by unfold setExp; split <;> rfl
  have ho : (setExp m xa).originalFitness = xa.originalFitness := by unfold setExp; split <;> rfl
  have hu : (setExp m xa).uid = xa.uid := by unfold setExp; split <;> rfl
  refine ⟨x0, hx0, by rw [← k1, hu, e1], by rw [← k3, ho, e2], by rw [← k3, ho, e2, ← k2, hf, e3], ?_⟩
  rw [← k4, ← k2, hf]
  unfold setExp
  split
  · exact e4
  · rfl

/-- **C09, first clause (Kind A, every scalar type).** If the population mean `m` of the shared, age-adjusted fitness
    is not (float-)equal to zero, then after `prepareForReproduction` every organism `x` left as a parent has
    `x.expectedOffspring = x.fitness / m`, where `x.fitness` is the documented adjusted value of its raw fitness
    `x.originalFitness` in its species `s0` of the old population, and `x` stems from an organism of `s0` with the same
    allocation id and that raw fitness. -/
theorem prepare_expected (o : EpochOpts W) (p p1 : Pop W) (ex : ExecState) (rs rs' : List Nat)
    (hnd : (p.species.map (·.id)).Nodup) (h : prepareForReproduction o p rs = .ok ((p1, ex), rs'))
    (hm : eq (popMeanAdjusted o p) zero = false) :
    ∀ s1 ∈ p1.species, ∃ s0 ∈ p.species, s1.id = s0.id ∧ ∀ x ∈ s1.orgs,
      x.expectedOffspring = div x.fitness (popMeanAdjusted o p) ∧
      x.fitness = adjustedFitness o s0 x.originalFitness ∧
      ∃ x0 ∈ s0.orgs, x0.uid = x.uid ∧ x0.fitness = x.originalFitness := by
  intro s1 hs1
  obtain ⟨s0, hs0, hid, hx⟩ := prepare_expected_full o p p1 ex rs rs' hnd h s1 hs1
  refine ⟨s0, hs0, hid, ?_⟩
  intro x hxm
  obtain ⟨x0, hx0, e1, e2, e3, e4⟩ := hx x hxm
  rw [hm] at e4
  exact ⟨e4, e3, x0, hx0, e1.symm, e2.symm⟩

/-- **C09, the guard.** If the population mean of the adjusted fitness is (float-)equal to zero, the code skips the
    assignment: every organism left as a parent keeps the expected offspring it had before the turnover. -/
theorem prepare_expected_zero_mean (o : EpochOpts W) (p p1 : Pop W) (ex : ExecState) (rs rs' : List Nat)
    (hnd : (p.species.map (·.id)).Nodup) (h : prepareForReproduction o p rs = .ok ((p1, ex), rs'))
    (hm : eq (popMeanAdjusted o p) zero = true) :
    ∀ s1 ∈ p1.species, ∃ s0 ∈ p.species, s1.id = s0.id ∧ ∀ x ∈ s1.orgs,
      x.fitness = adjustedFitness o s0 x.originalFitness ∧
      ∃ x0 ∈ s0.orgs, x0.uid = x.uid ∧ x0.fitness = x.originalFitness ∧ x.expectedOffspring = x0.expectedOffspring := by
  intro s1 hs1
  obtain ⟨s0, hs0, hid, hx⟩ := prepare_expected_full o p p1 ex rs rs' hnd h s1 hs1
  refine ⟨s0, hs0, hid, ?_⟩
  intro x hxm
  obtain ⟨x0, hx0, e1, e2, e3, e4⟩ := hx x hxm
  rw [hm] at e4
  exact ⟨e3, x0, hx0, e1.symm, e2.symm, e4⟩

end GoNeat.C09
