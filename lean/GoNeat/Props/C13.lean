/-
  C13 - after a flush a network / fast solver of any topology behaves exactly like a freshly built instance.

  Kind A: the theorems hold for every scalar type `W` with `[Scalar W]` and every activation table `σ`;
  the only law used is `hz : lt 0 0 = false` (needed because `Network.Flush` runs `FlushbackCheck`, which
  compares the zeroed fields with `> 0`).  Models: Model/Solver.lean (standard network, no MIMO control nodes),
  Model/FastSolver.lean (fast solver, no modules).  Helper lemmas: Proofs/SolverFlush.lean, Proofs/FastFlush.lean.

  Dead state (ignored by the equivalences, each with its deadness lemma):
  * standard: `ActivationSum` - not reset by `Flushback`, but the first sweep of `ActivateSteps` rewrites the sum
    of every neuron before the second sweep reads it (`Solver.sweep1_congr`);
  * fast: `activated`, `inActivation`, `lastActivation` at neuron indices - rewritten by the first loop of
    `RecursiveSteps` before use (`Fast.recInit_RR`); `neuronSignalsBeingProcessed` at sensor indices - written by
    connections that target a sensor, never read into a signal (`Fast.recNode_congr`, `Fast.forwardStep_congr`).
  `lastActivation` at sensor indices and the bias signals are not reset by `Flush` either; they are constant
  (`Fast.Inv`).
-/
import GoNeat.Proofs.SolverFlush
import GoNeat.Proofs.FastFlush
import GoNeat.Proofs.ScalarInt

namespace GoNeat.C13

variable {W : Type} [Scalar W]

/-! ## standard network solver -/
section Std
open GoNeat.Solver

/-- `Flush` after ANY history of calls succeeds and yields a state equal to the freshly built one in every field
    but `ActivationSum` -/
theorem std_flush_equiv_fresh (hz : Scalar.lt (Scalar.zero : W) Scalar.zero = false) (net : Net W)
    (σ : Nat → W → Option W) (hist : List (Op W)) :
    (flush (run net σ hist (init net)).1).2 = (true, none) ∧
      Equiv (flush (run net σ hist (init net)).1).1 (init net) := by
  have hl : (run net σ hist (init net)).1.length = net.nodes.length := by
    rw [length_run]; simp [init]
  unfold flush
  rw [flushAux_eq hz]
  exact ⟨rfl, map_flushback_equiv _ net.nodes hl⟩

/-- `ActivationSum` is dead: two states that differ only there are indistinguishable by any sequence of calls
    (same results, errors and outputs after every call) and stay so -/
theorem std_sum_dead (hz : Scalar.lt (Scalar.zero : W) Scalar.zero = false) (net : Net W) (σ : Nat → W → Option W)
    (ops : List (Op W)) {s t : St W} (h : Equiv s t) :
    (run net σ ops s).2 = (run net σ ops t).2 ∧ Equiv (run net σ ops s).1 (run net σ ops t).1 :=
  ⟨(run_congr hz net σ ops h).2, (run_congr hz net σ ops h).1⟩

/-- C13 for the standard solver: whatever happened before the flush, every later sequence of sensor loads and
    activations returns the same results, errors and outputs as on a new instance -/
theorem std_flush_like_fresh (hz : Scalar.lt (Scalar.zero : W) Scalar.zero = false) (net : Net W)
    (σ : Nat → W → Option W) (hist ops : List (Op W)) :
    (run net σ ops (flush (run net σ hist (init net)).1).1).2 = (run net σ ops (init net)).2 :=
  (run_congr hz net σ ops (std_flush_equiv_fresh hz net σ hist).2).2

/-- evaluating the same organism repeatedly (flush in between) on the same inputs gives identical results -/
theorem std_repeat_identical (hz : Scalar.lt (Scalar.zero : W) Scalar.zero = false) (net : Net W)
    (σ : Nat → W → Option W) (ops : List (Op W)) :
    (run net σ ops (flush (run net σ ops (init net)).1).1).2 = (run net σ ops (init net)).2 :=
  std_flush_like_fresh hz net σ ops ops

end Std

/-! ## fast solver -/
section FastS
open GoNeat.Fast

/-- `Flush` after any history yields a state equivalent to `NewFastModularNetworkSolver`'s -/
theorem fast_flush_equiv_fresh (fn : FastNet W) (σ : Nat → W → Option W) (hist : List (Op W)) :
    (flush fn (run fn σ hist (init fn)).1).2 = (true, none) ∧
      FE fn (flush fn (run fn σ hist (init fn)).1).1 (init fn) :=
  ⟨rfl, flush_FE_init fn (Inv_run fn σ hist (Inv_init fn))⟩

/-- the ignored arrays are dead: equivalent states are indistinguishable by any sequence of calls -/
theorem fast_dead_state (fn : FastNet W) (σ : Nat → W → Option W) (ops : List (Op W)) {s t : FState W}
    (h : FE fn s t) : (run fn σ ops s).2 = (run fn σ ops t).2 ∧ FE fn (run fn σ ops s).1 (run fn σ ops t).1 :=
  ⟨(run_congr fn σ ops h).2, (run_congr fn σ ops h).1⟩

/-- C13 for the fast solver (every `FastNet`, in particular every result of `Network.FastNetworkSolver()`) -/
theorem fast_flush_like_fresh (fn : FastNet W) (σ : Nat → W → Option W) (hist ops : List (Op W)) :
    (run fn σ ops (flush fn (run fn σ hist (init fn)).1).1).2 = (run fn σ ops (init fn)).2 :=
  (run_congr fn σ ops (fast_flush_equiv_fresh fn σ hist).2).2

theorem fast_repeat_identical (fn : FastNet W) (σ : Nat → W → Option W) (ops : List (Op W)) :
    (run fn σ ops (flush fn (run fn σ ops (init fn)).1).1).2 = (run fn σ ops (init fn)).2 :=
  fast_flush_like_fresh fn σ ops ops

/-- the same through the translation: a fast solver built from any network -/
theorem fast_of_network_flush_like_fresh (net : Net W) (fn : FastNet W) (_h : ofNet net = .ok fn)
    (σ : Nat → W → Option W) (hist ops : List (Op W)) :
    (run fn σ ops (flush fn (run fn σ hist (init fn)).1).1).2 = (run fn σ ops (init fn)).2 :=
  fast_flush_like_fresh fn σ hist ops

end FastS

/-! ## non-vacuity: a recurrent network (self-loop) over the exact `Int` scalar -/
section Examples
open GoNeat.ExactInt

/-- input 0 → output 1 (weight 1), self-loop on 1 (weight 1), linear activation -/
def loopNet : Net Int :=
  { id := 1
    nodes := [ { id := 1, kind := Kind.input, act := 17, incoming := [], outgoing := [] },
               { id := 2, kind := Kind.output, act := 14,
                 incoming := [ { src := 0, dst := 1, w := 1, recur := false },
                               { src := 1, dst := 1, w := 1, recur := true } ], outgoing := [] } ]
    inputs := [0], outputs := [1] }

def script : List (Solver.Op Int) := [.load [1], .activate 1]

/-- the hypothesis `hz` holds for the exact instance -/
example : Scalar.lt (Scalar.zero : Int) Scalar.zero = false := by decide

/-- the property is not trivial: without a flush the second evaluation differs (2 instead of 1) ... -/
example : ((Solver.run loopNet sigmaInt script (Solver.init loopNet)).2.map (·.outs)) = [[0], [1]] := by decide
example : ((Solver.run loopNet sigmaInt script (Solver.run loopNet sigmaInt script (Solver.init loopNet)).1).2.map (·.outs))
    = [[1], [2]] := by decide
/-- ... and with the flush it is the fresh result again -/
example : ((Solver.run loopNet sigmaInt script
    (Solver.flush (Solver.run loopNet sigmaInt script (Solver.init loopNet)).1).1).2.map (·.outs)) = [[0], [1]] := by decide

/-- the fast solver built from the same network -/
def loopFast : Fast.FastNet Int :=
  { nBias := 0, nInput := 1, nOutput := 1, nTotal := 2, acts := [17, 14], biasList := [0, 0],
    conns := [ { src := 0, dst := 1, w := 1 }, { src := 1, dst := 1, w := 1 } ] }

example : (match Fast.ofNet loopNet with | .ok fn => fn.conns.map (fun c => (c.src, c.dst, c.w)) | .error _ => [])
    = loopFast.conns.map (fun c => (c.src, c.dst, c.w)) := by decide

def fscript : List (Fast.Op Int) := [.load [1], .forward 1, .recursive]

example : ((Fast.run loopFast sigmaInt fscript (Fast.init loopFast)).2.map (·.outs)) = [[0], [1], [2]] := by decide
/-- without a flush the second evaluation differs (note 5, not 3, after `ForwardSteps`: `RecursiveSteps` leaves its
    pre-activation sums in `neuronSignalsBeingProcessed` and the next forward step adds to them) -/
example : ((Fast.run loopFast sigmaInt fscript (Fast.run loopFast sigmaInt fscript (Fast.init loopFast)).1).2.map (·.outs))
    = [[2], [5], [6]] := by decide
example : ((Fast.run loopFast sigmaInt fscript
    (Fast.flush loopFast (Fast.run loopFast sigmaInt fscript (Fast.init loopFast)).1).1).2.map (·.outs)) = [[0], [1], [2]] := by
  decide

end Examples

end GoNeat.C13
