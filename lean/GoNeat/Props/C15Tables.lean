/-
  C15, part 3b — obligations over the table REGENERATED from /repo by harness/cmd/gntranslate/codec.go
  (Gen/Codec.lean), re-proved on every run: Encode vs Decode, MarshalBinary vs UnmarshalBinary, YAML writer keys vs
  reader keys, JSON tags, plain print vs scan calls.  Kept in a module of its own so that a change of the Go code
  that breaks one of them does not hide the model theorems of Props/C15.lean.
-/
import GoNeat.Model.Codec
import GoNeat.Gen.Codec

namespace GoNeat.C15
open GoNeat.Codec GoNeat.CodecTables GoNeat.Gen.Codec

/-- guards dropped: the steps an encoder performs when every guarded pointer is non-nil -/
def stripGuards (l : List Step) : List Step :=
  l.filter fun s => match s with
    | .guardBegin _ => false
    | .guardEnd => false
    | _ => true

def guardsOf (l : List Step) : List String :=
  l.filterMap fun s => match s with
    | .guardBegin c => some c
    | _ => none

def noUnknown (l : List Step) : Bool :=
  l.all fun s => match s with
    | .unknown _ => false
    | _ => true

/-- the translator recognised every statement of the ten functions and every construct elsewhere -/
theorem codec_fully_translated :
    untranslated = [] ∧
    ([experimentEncode, experimentDecode, trialEncode, trialDecode, generationEncode, generationDecode,
      organismEncode, organismDecode, marshalBinary, unmarshalBinary].all noUnknown) = true := by decide

/-- **gob: `Experiment.Encode` and `Experiment.Decode`** handle the same fields, in the same order, with the same types
    (and it is the sequence the model implements) -/
theorem gob_experiment_fields : experimentEncode = experimentDecode ∧ experimentDecode = experimentShape := by decide

/-- **gob: `Trial.Encode` / `Trial.Decode`** -/
theorem gob_trial_fields : trialEncode = trialDecode ∧ trialDecode = trialShape := by decide

/-- **gob: `Generation.Encode` / `Generation.Decode`**: same fields, order and types once the only guard
    (`Champion != nil`, the known limit) is taken -/
theorem gob_generation_fields :
    stripGuards generationEncode = generationDecode ∧ guardsOf generationEncode = ["Champion != nil"] ∧
    generationDecode = generationShape := by decide

/-- **gob: `encodeOrganism` / `decodeOrganism`**: same fields, order and types once the only guard
    (`Genotype != nil`) is taken -/
theorem gob_organism_fields :
    stripGuards organismEncode = organismDecode ∧ guardsOf organismEncode = ["Genotype != nil"] ∧
    organismDecode = organismShape := by decide

/-- **`Organism.MarshalBinary` / `UnmarshalBinary`**: same fields, order and types (and the model's header line) -/
theorem wire_organism_fields : marshalBinary = unmarshalBinary ∧ unmarshalBinary = wireShape := by decide

/-! ### YAML keys -/

/-- reader group (function/map variable) ↦ writer function producing that map -/
def yamlPairs : List (String × String) :=
  [("Read/m", "WriteGenome"), ("Read/gm", "WriteGenome"), ("readTrait/conf", "encodeGenomeTrait"),
   ("readNNode/conf", "encodeNetworkNode"), ("readGene/conf", "encodeConnectionGene"),
   ("readMIMOControlGene/conf", "encodeControlGene"), ("readMIMOControlGene/n", "encodeModuleLink")]

/-- writer value types that are slices of maps built by one of the element encoders -/
def yamlListTypes : List String :=
  ["list:encodeGenomeTrait", "list:encodeNetworkNode", "list:encodeConnectionGene", "list:encodeControlGene",
   "list:encodeModuleLink"]

/-- the reader's conversion accepts every value of the writer's type as yaml.v3 decodes it (an integral float64
    comes back as `int`: only the `cast` conversions accept both) -/
def yamlCompat (wty conv : String) : Bool :=
  (wty == "int" && (conv == "assert:int" || conv == "cast.ToIntE" || conv == "cast.ToInt64E")) ||
  (wty == "int64" && (conv == "cast.ToInt64E")) ||
  (wty == "float64" && conv == "cast.ToFloat64E") ||
  (wty == "bool" && (conv == "cast.ToBoolE" || conv == "assert:bool")) ||
  ((wty == "neuronTypeName" || wty == "activationName") && conv == "assert:string") ||
  (wty == "[]float64" && conv == "cast.ToSlice") ||
  (yamlListTypes.contains wty && (conv == "assert:[]interface{}" || conv == "cast.ToSliceE" || conv == "optional")) ||
  (wty == "map:gMap" && conv == "assert:map[string]interface{}")

def yamlKeyOK (r : YKey) : Bool :=
  match yamlPairs.lookup r.fn with
  | none => false
  | some wfn => yamlWriterKeys.any fun w => w.fn == wfn && w.key == r.key && yamlCompat w.ty r.ty && w.optional == r.optional

/-- written keys no reader group asks for -/
def yamlUnread : List (String × String) :=
  (yamlWriterKeys.filter fun w => !(yamlReaderKeys.any fun r => yamlPairs.lookup r.fn == some w.fn && r.key == w.key)).map
    fun w => (w.fn, w.key)

/-- **YAML writer keys vs reader keys.** Every key the reader takes out of a map is put there by the paired writer
    function, with a value type its conversion accepts and the same optionality; the only key written and never
    read is the module link `order`. -/
theorem yaml_keys_aligned :
    yamlReaderKeys.all yamlKeyOK = true ∧ yamlUnread = [("encodeModuleLink", "order")] := by decide

/-! ### JSON tags -/

def jsonStruct (s : String) : List JField := jsonFields.filter (·.struct == s)

/-- **JSON model tags.** The three tagged structs have pairwise different non-empty tags on exported fields (so
    `encoding/json` writes and reads every field under its own key); the data holder's constructor sets every
    field of the holder; `ReadFMNSModel` uses every field except the sensor count (which the solver constructor
    recomputes as bias + input). -/
theorem json_model_fields :
    (["fastModularNetworkSolverData", "fastControlNodeData", "FastNetworkLink"].all fun s =>
        (jsonStruct s).all (fun f => f.exported && f.tag != "") &&
        decide ((jsonStruct s).map (·.tag)).Nodup) = true ∧
    jsonHolderSets.map (·.1) = (jsonStruct "fastModularNetworkSolverData").map (·.field) ∧
    ((jsonStruct "fastModularNetworkSolverData").map (·.field)).filter (fun f => !jsonReaderUses.contains f) =
      ["SensorNeuronCount"] := by decide

/-! ### plain writer / reader calls -/

/-- the verb lists of the calls of one kind in one function -/
def verbsOf (tbl : List PCall) (fn kind : String) : List (List String) :=
  (tbl.filter fun c => c.fn == fn && c.kind == kind).map (·.verbs)

/-- the shape of the plain writer that `PlainIO.render` implements, line by line
    (`traitLine`, `nodeLine`, `geneLine`, `startLine`, `endLine`) -/
def plainWriterShape : List PCall := [
  { fn := "WriteGenome", kind := "Fprintf", format := "genomestart %d\n", verbs := ["genomestart", "%d"], args := ["g.Id"] },
  { fn := "WriteGenome", kind := "range", format := "g.Traits", verbs := [], args := [] },
  { fn := "WriteGenome", kind := "Fprint", format := "", verbs := [], args := ["\"trait \""] },
  { fn := "WriteGenome", kind := "call", format := "writeTrait", verbs := [], args := [] },
  { fn := "WriteGenome", kind := "Fprintln", format := "", verbs := [], args := ["\"\""] },
  { fn := "WriteGenome", kind := "range", format := "g.Nodes", verbs := [], args := [] },
  { fn := "WriteGenome", kind := "Fprint", format := "", verbs := [], args := ["\"node \""] },
  { fn := "WriteGenome", kind := "call", format := "writeNetworkNode", verbs := [], args := [] },
  { fn := "WriteGenome", kind := "Fprintln", format := "", verbs := [], args := ["\"\""] },
  { fn := "WriteGenome", kind := "range", format := "g.Genes", verbs := [], args := [] },
  { fn := "WriteGenome", kind := "Fprint", format := "", verbs := [], args := ["\"gene \""] },
  { fn := "WriteGenome", kind := "call", format := "writeConnectionGene", verbs := [], args := [] },
  { fn := "WriteGenome", kind := "Fprintln", format := "", verbs := [], args := ["\"\""] },
  { fn := "WriteGenome", kind := "Fprintf", format := "genomeend %d\n", verbs := ["genomeend", "%d"], args := ["g.Id"] },
  { fn := "writeTrait", kind := "Fprintf", format := "%d ", verbs := ["%d"], args := ["t.Id"] },
  { fn := "writeTrait", kind := "range", format := "t.Params", verbs := [], args := [] },
  { fn := "writeTrait", kind := "Fprintf", format := "%g ", verbs := ["%g"], args := ["p"] },
  { fn := "writeTrait", kind := "Fprintf", format := "%g", verbs := ["%g"], args := ["p"] },
  { fn := "writeNetworkNode", kind := "Fprintf", format := "%d %d %d %d %s", verbs := ["%d", "%d", "%d", "%d", "%s"], args := ["n.Id", "(n.Trait != nil ? n.Trait.Id : 0)", "n.NodeType()", "n.NeuronType", "actStr"] },
  { fn := "writeConnectionGene", kind := "Fprintf", format := "%d %d %d %g %t %d %g %t", verbs := ["%d", "%d", "%d", "%g", "%t", "%d", "%g", "%t"], args := ["(g.Link.Trait != nil ? g.Link.Trait.Id : 0)", "g.Link.InNode.Id", "g.Link.OutNode.Id", "g.Link.ConnectionWeight", "g.Link.IsRecurrent", "g.InnovationNum", "g.MutationNum", "g.IsEnabled"] }]

/-- the shape of the plain reader that `PlainIO.step`/`readTrait`/`readNode`/`readGene` implement -/
def plainReaderShape : List PCall := [
  { fn := "Read", kind := "for", format := "scanner.Scan()", verbs := [], args := [] },
  { fn := "Read", kind := "SplitN", format := "\" \"/2", verbs := [], args := ["line"] },
  { fn := "Read", kind := "call", format := "readPlainTrait", verbs := [], args := [] },
  { fn := "Read", kind := "TraitWithId", format := "", verbs := [], args := ["newTrait.Id", "gnome.Traits"] },
  { fn := "Read", kind := "call", format := "readPlainNetworkNode", verbs := [], args := [] },
  { fn := "Read", kind := "call", format := "readPlainConnectionGene", verbs := [], args := [] },
  { fn := "Read", kind := "Fscanf", format := "%d", verbs := ["%d"], args := ["gId"] },
  { fn := "readPlainTrait", kind := "Fscanf", format := "%d ", verbs := ["%d"], args := ["nt.Id"] },
  { fn := "readPlainTrait", kind := "for", format := "i < neat.NumTraitParams", verbs := [], args := [] },
  { fn := "readPlainTrait", kind := "Fscanf", format := "%g ", verbs := ["%g"], args := ["nt.Params[i]"] },
  { fn := "readPlainNetworkNode", kind := "Split", format := "\" \"", verbs := [], args := ["string(line)"] },
  { fn := "readPlainNetworkNode", kind := "ParseInt", format := "10/32", verbs := [], args := ["parts[0]"] },
  { fn := "readPlainNetworkNode", kind := "ParseInt", format := "10/32", verbs := [], args := ["parts[1]"] },
  { fn := "readPlainNetworkNode", kind := "TraitWithId", format := "", verbs := [], args := ["int(traitId)", "traits"] },
  { fn := "readPlainNetworkNode", kind := "ParseInt", format := "10/8", verbs := [], args := ["parts[3]"] },
  { fn := "readPlainNetworkNode", kind := "ActivationTypeFromName", format := "", verbs := [], args := ["parts[4]"] },
  { fn := "readPlainConnectionGene", kind := "Fscanf", format := "%d %d %d %g %t %d %g %t ", verbs := ["%d", "%d", "%d", "%g", "%t", "%d", "%g", "%t"], args := ["traitId", "inNodeId", "outNodeId", "weight", "recurrent", "innovationNum", "mutNum", "enabled"] },
  { fn := "readPlainConnectionGene", kind := "TraitWithId", format := "", verbs := [], args := ["traitId", "traits"] },
  { fn := "readPlainConnectionGene", kind := "range", format := "nodes", verbs := [], args := [] },
  { fn := "readPlainConnectionGene", kind := "NewConnectionGene", format := "", verbs := [], args := ["network.NewLinkWithTrait(trait, weight, inNode, outNode, recurrent)", "innovationNum", "mutNum", "enabled"] },
  { fn := "readPlainConnectionGene", kind := "NewLinkWithTrait", format := "", verbs := [], args := ["TraitWithId(traitId, traits)", "weight", "inNode", "outNode", "recurrent"] },
  { fn := "readPlainConnectionGene", kind := "NewConnectionGene", format := "", verbs := [], args := ["network.NewLink(weight, inNode, outNode, recurrent)", "innovationNum", "mutNum", "enabled"] },
  { fn := "readPlainConnectionGene", kind := "NewLink", format := "", verbs := [], args := ["weight", "inNode", "outNode", "recurrent"] }]

/-- **Plain format: print and scan calls aligned.** The gene and trait lines are scanned with exactly the verbs
    they are printed with; every verb the writer uses is one of `%d %g %t %s` without width or precision (`%g` is
    Go's shortest round-trip spelling: no `%f`, no `%.6g`); and the extracted calls of writer and reader are the
    ones `Model/PlainIO.lean` implements (argument order included). -/
theorem plain_formats_aligned :
    verbsOf plainWriter "writeConnectionGene" "Fprintf" = verbsOf plainReader "readPlainConnectionGene" "Fscanf" ∧
    (verbsOf plainWriter "writeTrait" "Fprintf").eraseDups = verbsOf plainReader "readPlainTrait" "Fscanf" ∧
    ((plainWriter.filter (·.kind == "Fprintf")).all fun c =>
      c.verbs.all fun v => ["%d", "%g", "%t", "%s", "genomestart", "genomeend"].contains v) = true ∧
    plainWriter = plainWriterShape ∧ plainReader = plainReaderShape := by decide

/-- `ReadPopulation` starts the per-genome buffer with the complete LINE `genomestart <id>` (newline included:
    the repair of the defect that `readPopulation_legacy_counterexample` exhibits), finishes it with
    `genomeend <id>` and appends every other line with `Fprintln` - the shape `PlainIO.popStep` implements -/
theorem population_reader_shape :
    populationReader.map (fun c => (c.kind, c.format)) =
      [("for", "scanner.Scan()"), ("SplitN", "\" \"/2"), ("Sprintf", "genomestart %s\n"), ("Fprintf", "genomeend %d"),
       ("Fprintln", "")] := by decide

end GoNeat.C15
