/-
  Property C08 — speciation puts each organism in its nearest compatible species.

  Kind A over a strict weak order: the theorems hold for every scalar type whose `<` (as the model's
  `Scalar.lt`) is irreflexive, transitive and negatively transitive on the distances involved — true for
  float64 distances that are not NaN (never-NaN is C07) and for every ordered field — and whose distances are
  below the `math.MaxFloat64` sentinel the search starts from.
-/
import GoNeat.Model.Population

namespace GoNeat.C08
open GoNeat Scalar
variable {W : Type} [Scalar W]

/-- the order facts the search relies on -/
structure StrictWeak (W : Type) [Scalar W] : Prop where
  irrefl : ∀ a : W, lt a a = false
  trans : ∀ a b c : W, lt a b = true → lt b c = true → lt a c = true
  weak : ∀ a b c : W, lt a b = true → lt a c = true ∨ lt c b = true

/-- the search of `Population.speciate` over the list of distances to the representatives
    (`none` = species without organisms, skipped by the code) -/
def scan (thr : W) : List (Option W) → Nat → Option Nat → W → Option Nat
  | [], _, best, _ => best
  | none :: ds, i, best, bv => scan thr ds (i + 1) best bv
  | some c :: ds, i, best, bv =>
    if lt c thr && lt c bv then scan thr ds (i + 1) (some i) c else scan thr ds (i + 1) best bv

def dists (o : EpochOpts W) (g : Genome W) (species : List (Species W)) : List (Option W) :=
  species.map (fun s => s.orgs.head?.map (fun rep => compatibility o.compat g rep.genome))

theorem bestCompatible_eq_scan (o : EpochOpts W) (g : Genome W) (species : List (Species W)) (i : Nat) (best : Option Nat) (bv : W) :
    bestCompatible o g species i best bv = scan o.compatThreshold (dists o g species) i best bv := by
  induction species generalizing i best bv with
  | nil => rfl
  | cons s ss ih =>
    unfold bestCompatible dists
    cases h : s.orgs.head? with
    | none => simp only [List.map_cons, h, Option.map_none, scan]; exact ih _ _ _
    | some rep =>
      simp only [List.map_cons, h, Option.map_some, scan]
      split
      · exact ih _ _ _
      · exact ih _ _ _

theorem singleton_getElem?_some {α} (a b : α) (k : Nat) (h : [a][k]? = some b) : k = 0 ∧ a = b := by
  cases k with
  | zero => simp at h; exact ⟨rfl, h⟩
  | succ k => simp at h

/-- invariant of the scan: what `best`/`bv` say about the distances seen so far (`seen` = positions `base …`) -/
structure Inv (thr : W) (seen : List (Option W)) (base : Nat) (best : Option Nat) (bv : W) : Prop where
  none_case : best = none → ∀ c, some c ∈ seen → lt c thr = false
  some_case : ∀ i, best = some i → base ≤ i ∧ seen[i - base]? = some (some bv) ∧ lt bv thr = true ∧
      (∀ j c, seen[j]? = some (some c) → lt c thr = true → lt c bv = false ∧ (j < i - base → lt bv c = true))

theorem scan_spec (hw : StrictWeak W) (thr : W) (ds : List (Option W)) (seen : List (Option W)) (base : Nat)
    (best : Option Nat) (bv : W) (hinv : Inv thr seen base best bv)
    (hfin : best = none → ∀ c, some c ∈ ds → lt c thr = true → lt c bv = true) :
    ∃ bv', Inv thr (seen ++ ds) base (scan thr ds (base + seen.length) best bv) bv' := by
  induction ds generalizing seen best bv with
  | nil => exact ⟨bv, by simpa [scan] using hinv⟩
  | cons d ds ih =>
    cases d with
    | none =>
      simp only [scan]
      have hinv' : Inv thr (seen ++ [none]) base best bv := by
        refine ⟨?_, ?_⟩
        · intro hb c hc
          rcases List.mem_append.mp hc with h | h
          · exact hinv.none_case hb c h
          · simp at h
        · intro i hb
          obtain ⟨h1, h2, h3, h4⟩ := hinv.some_case i hb
          refine ⟨h1, ?_, h3, ?_⟩
          · rw [List.getElem?_append_left]; exact h2
            exact (List.getElem?_eq_some_iff.mp h2).1
          · intro j c hj hc
            by_cases hjl : j < seen.length
            · rw [List.getElem?_append_left hjl] at hj; exact h4 j c hj hc
            · rw [List.getElem?_append_right (by omega)] at hj
              obtain ⟨_, hcc⟩ := singleton_getElem?_some _ _ _ hj
              cases hcc
      have := ih (seen ++ [none]) best bv hinv' (fun hb c hc => hfin hb c (by simp [hc]))
      simpa [List.append_assoc, Nat.add_assoc] using this
    | some c =>
      simp only [scan]
      by_cases hsel : (lt c thr && lt c bv) = true
      · simp only [hsel, ↓reduceIte]
        simp only [Bool.and_eq_true] at hsel
        have hinv' : Inv thr (seen ++ [some c]) base (some (base + seen.length)) c := by
          refine ⟨(by intro h; cases h), ?_⟩
          intro i hi
          cases hi
          refine ⟨by omega, ?_, hsel.1, ?_⟩
          · have : base + seen.length - base = seen.length := by omega
            rw [this, List.getElem?_append_right (by omega)]; simp
          · intro j c' hj hc'
            have hidx : base + seen.length - base = seen.length := by omega
            by_cases hjl : j < seen.length
            · rw [List.getElem?_append_left hjl] at hj
              -- an earlier compatible distance: compare through the old best
              cases hb : best with
              | none =>
                have := hinv.none_case hb c' (List.mem_of_getElem? hj)
                rw [this] at hc'; cases hc'
              | some i0 =>
                obtain ⟨_, _, _, h4⟩ := hinv.some_case i0 hb
                obtain ⟨hmin, _⟩ := h4 j c' hj hc'
                refine ⟨?_, fun _ => ?_⟩
                · cases hlt : lt c' c with
                  | false => rfl
                  | true => have := hw.trans c' c bv hlt hsel.2; rw [hmin] at this; cases this
                · rcases hw.weak c bv c' hsel.2 with h | h
                  · exact h
                  · rw [hmin] at h; cases h
            · rw [List.getElem?_append_right (by omega)] at hj
              obtain ⟨hj0, hcc⟩ := singleton_getElem?_some _ _ _ hj
              cases hcc
              exact ⟨hw.irrefl _, fun h => by omega⟩
        have := ih (seen ++ [some c]) (some (base + seen.length)) c hinv' (fun h => by cases h)
        simpa [List.append_assoc, Nat.add_assoc] using this
      · have hsel' : (lt c thr && lt c bv) = false := by simpa using hsel
        simp only [hsel', Bool.false_eq_true, ↓reduceIte]
        have hinv' : Inv thr (seen ++ [some c]) base best bv := by
          refine ⟨?_, ?_⟩
          · intro hb c' hc'
            rcases List.mem_append.mp hc' with h | h
            · exact hinv.none_case hb c' h
            · simp at h; subst h
              cases hct : lt c' thr with
              | false => rfl
              | true =>
                have := hfin hb c' (by simp) hct
                simp [hct, this] at hsel'
          · intro i hb
            obtain ⟨h1, h2, h3, h4⟩ := hinv.some_case i hb
            refine ⟨h1, ?_, h3, ?_⟩
            · rw [List.getElem?_append_left]; exact h2
              exact (List.getElem?_eq_some_iff.mp h2).1
            · intro j c' hj hc'
              by_cases hjl : j < seen.length
              · rw [List.getElem?_append_left hjl] at hj; exact h4 j c' hj hc'
              · rw [List.getElem?_append_right (by omega)] at hj
                obtain ⟨hj0, hcc⟩ := singleton_getElem?_some _ _ _ hj
                cases hcc
                have hidx := (List.getElem?_eq_some_iff.mp h2).1
                refine ⟨?_, fun h => by omega⟩
                simp [hc'] at hsel'; exact hsel'
        have := ih (seen ++ [some c]) best bv hinv' (fun hb c' hc' => hfin hb c' (by simp [hc']))
        simpa [List.append_assoc, Nat.add_assoc] using this

/-- **C08 (search).** The species chosen for an arriving organism, if any, is the *first* species attaining the
    minimal distance among those whose representative is closer than the threshold; none is chosen exactly when
    no representative is closer than the threshold. -/
theorem bestCompatible_spec (hw : StrictWeak W) (o : EpochOpts W) (g : Genome W) (species : List (Species W))
    (hfin : ∀ c, some c ∈ dists o g species → lt c maxVal = true) :
    let ds := dists o g species
    match bestCompatible o g species 0 none maxVal with
    | none => ∀ c, some c ∈ ds → lt c o.compatThreshold = false
    | some i => ∃ d, ds[i]? = some (some d) ∧ lt d o.compatThreshold = true ∧
        ∀ j c, ds[j]? = some (some c) → lt c o.compatThreshold = true → lt c d = false ∧ (j < i → lt d c = true) := by
  intro ds
  rw [bestCompatible_eq_scan]
  have hinv0 : Inv o.compatThreshold ([] : List (Option W)) 0 none maxVal :=
    ⟨(by intro _ c hc; cases hc), (by intro i h; cases h)⟩
  obtain ⟨bv', hinv⟩ := scan_spec hw o.compatThreshold ds [] 0 none maxVal hinv0 (fun _ c hc _ => hfin c hc)
  simp only [List.length_nil, Nat.add_zero, List.nil_append] at hinv
  cases hres : scan o.compatThreshold ds 0 none maxVal with
  | none => simp only; rw [hres] at hinv; exact hinv.none_case rfl
  | some i =>
    simp only
    rw [hres] at hinv
    obtain ⟨_, h2, h3, h4⟩ := hinv.some_case i rfl
    exact ⟨bv', by simpa using h2, h3, fun j c hj hc => by simpa using h4 j c hj hc⟩

/-- **C08 (placement).** `speciateOne` either appends the organism to the species found by the search, leaving
    everything else untouched, or founds a new species with the fresh id `lastSpecies + 1` whose only member —
    and representative — is the organism. -/
theorem speciateOne_spec (o : EpochOpts W) (p p' : Pop W) (org : Org W) (h : speciateOne o p org = .ok p') :
    (∃ i, (p.species.isEmpty = false ∧ bestCompatible o org.genome p.species 0 none maxVal = some i) ∧
          p'.species = p.species.modify i (fun s => { s with orgs := s.orgs ++ [org] }) ∧ p'.lastSpecies = p.lastSpecies) ∨
    ((p.species.isEmpty = true ∨ bestCompatible o org.genome p.species 0 none maxVal = none) ∧
      p'.lastSpecies = p.lastSpecies + 1 ∧
      ∃ s, p'.species = p.species ++ [s] ∧ s.id = p.lastSpecies + 1 ∧ s.orgs = [org] ∧ s.age = 1 ∧ s.isNovel = true) := by
  unfold speciateOne at h
  simp only at h
  split at h
  · rename_i he; cases h; right; exact ⟨Or.inl he, rfl, _, rfl, rfl, rfl, rfl, rfl⟩
  · rename_i he
    split at h
    · cases h
    · split at h
      · rename_i i hb; cases h; left; exact ⟨i, ⟨by simpa using he, hb⟩, rfl, rfl⟩
      · rename_i hb; cases h; right; exact ⟨Or.inr hb, rfl, _, rfl, rfl, rfl, rfl, rfl⟩

end GoNeat.C08
