/-
  Property C19, Kind B: the statistics model evaluated in exact ordered-field arithmetic (`exactScalar`).
  Mean = Σx/n; Variance = Σ(x-mean)²/(n-1) (gonum's compensation term vanishes exactly); Min/Max are the least /
  greatest element; the model's sort returns the sorted permutation; the empirical quantile is the first element of
  the sorted data whose rank reaches p·n; none of the quantile accessors fails on a non-empty series; every statistic
  is invariant under permutation of the series.  float64 rounding of the same computations is outside these theorems
  (trusted base; checked by the correspondence).
-/
import GoNeat.Props.C19
import GoNeat.Proofs.Exact
import Mathlib.Data.List.Sort
import Mathlib.Algebra.BigOperators.Group.List.Basic
import Mathlib.Algebra.Order.BigOperators.Group.List
import Mathlib.Tactic.NormNum

namespace GoNeat.C19
open GoNeat GoNeat.Stats
variable {K : Type} [Field K] [LinearOrder K] [IsStrictOrderedRing K] [FloorRing K]

/-! ### sum, mean, variance -/

theorem foldl_add (xs : List K) (a : K) : xs.foldl Scalar.add a = a + xs.sum := by
  induction xs generalizing a with
  | nil => simp
  | cons x xs ih => simp only [List.foldl_cons, ih, Exact.add_eq, List.sum_cons]; ring

/-- **C19 (sum).** `Sum` = Σ x (0 for the empty series). -/
theorem sum_eq (xs : List K) : fSum xs = xs.sum := by
  simp [fSum, Stats.sum, foldl_add]

theorem ofInt_length (xs : List K) : (Scalar.ofInt (xs.length : Int) : K) = (xs.length : K) := by
  simp

/-- **C19 (mean).** `Mean` of a non-empty series = Σ x / n. -/
theorem mean_eq (xs : List K) (h : xs ≠ []) : fMean xs = some (xs.sum / (xs.length : K)) := by
  cases xs with
  | nil => exact absurd rfl h
  | cons x xs =>
    have := sum_eq (x :: xs)
    simp only [fSum] at this
    simp only [fMean, gonumMean, this, Exact.div_eq, ofInt_length]

theorem ssComp_fold (m : K) (xs : List K) (a b : K) :
    xs.foldl (fun (acc : K × K) v => let d := Scalar.sub v m; (Scalar.add acc.1 (Scalar.mul d d), Scalar.add acc.2 d)) (a, b) =
    (a + (xs.map fun x => (x - m) * (x - m)).sum, b + (xs.map fun x => x - m).sum) := by
  induction xs generalizing a b with
  | nil => simp
  | cons x xs ih =>
    rw [List.foldl_cons, ih]
    simp only [Exact.sub_eq, Exact.add_eq, Exact.mul_eq, List.map_cons, List.sum_cons, Prod.mk.injEq]
    constructor <;> ring

theorem sum_map_sub (m : K) (xs : List K) : (xs.map fun x => x - m).sum = xs.sum - (xs.length : K) * m := by
  induction xs with
  | nil => simp
  | cons x xs ih => simp only [List.map_cons, List.sum_cons, ih, List.length_cons]; push_cast; ring

/-- **C19 (mean and variance).** For a non-empty series `MeanVariance` returns μ = Σx/n and the unbiased sample
    variance Σ(x-μ)²/(n-1): the compensation term of the corrected two-pass algorithm is exactly 0.
    (For n = 1 the quotient is 0/0: NaN in float64.) -/
theorem meanVariance_eq (xs : List K) (h : xs ≠ []) :
    fMeanVariance xs = some (xs.sum / (xs.length : K),
      (xs.map fun x => (x - xs.sum / (xs.length : K)) ^ 2).sum / ((xs.length : K) - 1)) := by
  cases xs with
  | nil => exact absurd rfl h
  | cons x xs =>
    have hs := sum_eq (x :: xs)
    simp only [fSum] at hs
    have hn : ((x :: xs).length : K) ≠ 0 := by simp; positivity
    simp only [fMeanVariance, gonumMeanVariance, ssComp, ssComp_fold]
    simp only [gonumMean, hs, Exact.div_eq, Exact.sub_eq,
      Exact.mul_eq, Exact.zero_eq, Exact.one_eq, ofInt_length, zero_add, sum_map_sub]
    have hz : (x :: xs).sum - ((x :: xs).length : K) * ((x :: xs).sum / ((x :: xs).length : K)) = 0 := by
      field_simp; ring
    rw [hz]
    simp only [mul_zero, zero_div, sub_zero, pow_two]

/-- **C19 (variance).** `Variance` of a series of n ≥ 2 values = Σ(x-μ)²/(n-1), the textbook unbiased estimator. -/
theorem variance_eq (xs : List K) (h : 2 ≤ xs.length) :
    fVariance xs = some ((xs.map fun x => (x - xs.sum / (xs.length : K)) ^ 2).sum / ((xs.length : K) - 1)) := by
  have hne : xs ≠ [] := by intro h0; subst h0; simp at h
  simp [fVariance, meanVariance_eq xs hne]

/-! ### minimum and maximum -/

theorem minLoop_spec (xs : List K) (cur : K) :
    (minLoop cur xs = cur ∨ minLoop cur xs ∈ xs) ∧ minLoop cur xs ≤ cur ∧ ∀ x ∈ xs, minLoop cur xs ≤ x := by
  induction xs generalizing cur with
  | nil => simp [minLoop]
  | cons x xs ih =>
    have hunf : minLoop cur (x :: xs) = minLoop (if Scalar.lt x cur then x else cur) xs := by simp [minLoop]
    rw [hunf]
    by_cases h : x < cur
    · simp only [Exact.lt_eq, h, decide_true, ↓reduceIte]
      obtain ⟨i1, i2, i3⟩ := ih x
      refine ⟨?_, le_trans i2 h.le, ?_⟩
      · rcases i1 with i1 | i1
        · right; rw [i1]; simp
        · right; exact List.mem_cons_of_mem _ i1
      · intro y hy
        rcases List.mem_cons.mp hy with rfl | hm
        · exact i2
        · exact i3 y hm
    · simp only [Exact.lt_eq, h, decide_false, Bool.false_eq_true, ↓reduceIte]
      obtain ⟨i1, i2, i3⟩ := ih cur
      refine ⟨?_, i2, ?_⟩
      · rcases i1 with i1 | i1
        · left; exact i1
        · right; exact List.mem_cons_of_mem _ i1
      · intro y hy
        rcases List.mem_cons.mp hy with rfl | hm
        · exact le_trans i2 (not_lt.mp h)
        · exact i3 y hm

theorem maxLoop_spec (xs : List K) (cur : K) :
    (maxLoop cur xs = cur ∨ maxLoop cur xs ∈ xs) ∧ cur ≤ maxLoop cur xs ∧ ∀ x ∈ xs, x ≤ maxLoop cur xs := by
  induction xs generalizing cur with
  | nil => simp [maxLoop]
  | cons x xs ih =>
    have hunf : maxLoop cur (x :: xs) = maxLoop (if Scalar.lt cur x then x else cur) xs := by simp [maxLoop]
    rw [hunf]
    by_cases h : cur < x
    · simp only [Exact.lt_eq, h, decide_true, ↓reduceIte]
      obtain ⟨i1, i2, i3⟩ := ih x
      refine ⟨?_, le_trans h.le i2, ?_⟩
      · rcases i1 with i1 | i1
        · right; rw [i1]; simp
        · right; exact List.mem_cons_of_mem _ i1
      · intro y hy
        rcases List.mem_cons.mp hy with rfl | hm
        · exact i2
        · exact i3 y hm
    · simp only [Exact.lt_eq, h, decide_false, Bool.false_eq_true, ↓reduceIte]
      obtain ⟨i1, i2, i3⟩ := ih cur
      refine ⟨?_, i2, ?_⟩
      · rcases i1 with i1 | i1
        · left; exact i1
        · right; exact List.mem_cons_of_mem _ i1
      · intro y hy
        rcases List.mem_cons.mp hy with rfl | hm
        · exact le_trans (not_lt.mp h) i2
        · exact i3 y hm

/-- **C19 (minimum).** `Min` of a non-empty series is an element of it and `≤` every element. -/
theorem fMin_spec (xs : List K) (m : K) (h : fMin xs = some m) : m ∈ xs ∧ ∀ x ∈ xs, m ≤ x := by
  cases xs with
  | nil => simp [fMin] at h
  | cons x xs =>
    simp only [fMin, Option.some.injEq] at h
    subst h
    obtain ⟨i1, i2, i3⟩ := minLoop_spec xs x
    refine ⟨?_, ?_⟩
    · rcases i1 with i1 | i1
      · rw [i1]; simp
      · exact List.mem_cons_of_mem _ i1
    · intro y hy
      rcases List.mem_cons.mp hy with rfl | hm
      · exact i2
      · exact i3 y hm

/-- **C19 (maximum).** `Max` of a non-empty series is an element of it and `≥` every element. -/
theorem fMax_spec (xs : List K) (m : K) (h : fMax xs = some m) : m ∈ xs ∧ ∀ x ∈ xs, x ≤ m := by
  cases xs with
  | nil => simp [fMax] at h
  | cons x xs =>
    simp only [fMax, Option.some.injEq] at h
    subst h
    obtain ⟨i1, i2, i3⟩ := maxLoop_spec xs x
    refine ⟨?_, ?_⟩
    · rcases i1 with i1 | i1
      · rw [i1]; simp
      · exact List.mem_cons_of_mem _ i1
    · intro y hy
      rcases List.mem_cons.mp hy with rfl | hm
      · exact i2
      · exact i3 y hm

/-! ### the sorted copy -/

theorem insertAsc_perm (x : K) (ys : List K) : (insertAsc x ys).Perm (x :: ys) := by
  induction ys with
  | nil => simp [insertAsc]
  | cons y ys ih =>
    unfold insertAsc
    split
    · exact List.Perm.refl _
    · exact (List.Perm.cons y ih).trans (List.Perm.swap x y ys)

theorem insertAsc_sorted (x : K) (ys : List K) (h : ys.Pairwise (· ≤ ·)) : (insertAsc x ys).Pairwise (· ≤ ·) := by
  induction ys with
  | nil => simp [insertAsc]
  | cons y ys ih =>
    unfold insertAsc
    have hy := List.pairwise_cons.mp h
    by_cases hxy : x < y
    · simp only [Exact.lt_eq, hxy, decide_true, ↓reduceIte]
      refine List.pairwise_cons.mpr ⟨?_, h⟩
      intro z hz
      rcases List.mem_cons.mp hz with rfl | hm
      · exact hxy.le
      · exact le_trans hxy.le (hy.1 z hm)
    · simp only [Exact.lt_eq, hxy, decide_false, Bool.false_eq_true, ↓reduceIte]
      refine List.pairwise_cons.mpr ⟨?_, ih hy.2⟩
      intro z hz
      have := (insertAsc_perm x ys).subset hz
      rcases List.mem_cons.mp this with rfl | hm
      · exact not_lt.mp hxy
      · exact hy.1 z hm

theorem foldl_insert (xs acc : List K) (h : acc.Pairwise (· ≤ ·)) :
    (xs.foldl (fun acc x => insertAsc x acc) acc).Perm (acc ++ xs) ∧
    (xs.foldl (fun acc x => insertAsc x acc) acc).Pairwise (· ≤ ·) := by
  induction xs generalizing acc with
  | nil => simpa using h
  | cons x xs ih =>
    obtain ⟨p, s⟩ := ih (insertAsc x acc) (insertAsc_sorted x acc h)
    refine ⟨?_, s⟩
    refine p.trans ?_
    have : (insertAsc x acc ++ xs).Perm ((x :: acc) ++ xs) := List.Perm.append_right xs (insertAsc_perm x acc)
    refine this.trans ?_
    simp only [List.cons_append]
    exact (List.perm_middle).symm

/-- **C19 (sorted copy).** The model's sort returns a permutation of the series that is ascending. -/
theorem sortAsc_spec (xs : List K) : (sortAsc xs).Perm xs ∧ (sortAsc xs).Pairwise (· ≤ ·) := by
  have := foldl_insert xs [] List.Pairwise.nil
  simpa [sortAsc] using this

/-- any two orders of the same values have the same sorted copy - for EVERY sorting routine that returns a sorted
    permutation (the model's insertion sort, Go's pdqsort, ...) -/
theorem sorted_copy_unique (sort : List K → List K)
    (hsort : ∀ xs, (sort xs).Perm xs ∧ (sort xs).Pairwise (· ≤ ·)) (xs ys : List K) (h : xs.Perm ys) :
    sort xs = sort ys :=
  List.Perm.eq_of_pairwise' (hsort xs).2 (hsort ys).2 (((hsort xs).1.trans h).trans (hsort ys).1.symm)

theorem isSorted_of_pairwise (ys : List K) (h : ys.Pairwise (· ≤ ·)) : isSorted ys = true := by
  induction ys with
  | nil => rfl
  | cons y ys ih =>
    cases ys with
    | nil => rfl
    | cons z zs =>
      have hy := List.pairwise_cons.mp h
      have hyz : y ≤ z := hy.1 z (by simp)
      simp only [isSorted, Exact.lt_eq, Bool.and_eq_true, Bool.not_eq_true', decide_eq_false_iff_not, not_lt]
      exact ⟨hyz, ih hy.2⟩

/-! ### empirical quantile -/

theorem empiricalLoop_rank (fidx : K) (ys : List K) (c : ℕ) (h : ∃ j, j < ys.length ∧ fidx ≤ (c : K) + j + 1) :
    ∃ k, ∃ hk : k < ys.length, empiricalLoop fidx ys (c : K) = some ys[k] ∧ fidx ≤ (c : K) + k + 1 ∧
      ∀ j, j < k → (c : K) + j + 1 < fidx := by
  induction ys generalizing c with
  | nil => obtain ⟨j, hj, _⟩ := h; simp at hj
  | cons y ys ih =>
    unfold empiricalLoop
    simp only [Exact.add_eq, Exact.one_eq, Exact.ge_eq]
    by_cases hge : fidx ≤ (c : K) + 1
    · refine ⟨0, by simp, ?_, ?_, ?_⟩
      · simp [hge]
      · simpa using hge
      · intro j hj; omega
    · simp only [hge, decide_false, Bool.false_eq_true, ↓reduceIte]
      obtain ⟨j, hj, hle⟩ := h
      have hj0 : j ≠ 0 := by
        intro h0; subst h0; simp at hle; exact hge hle
      obtain ⟨j', rfl⟩ := Nat.exists_eq_succ_of_ne_zero hj0
      have hc : ((c : K) + 1) = ((c + 1 : ℕ) : K) := by push_cast; ring
      rw [hc]
      obtain ⟨k, hk, e1, e2, e3⟩ := ih (c + 1) ⟨j', by simpa using hj, by push_cast at hle ⊢; linarith⟩
      refine ⟨k + 1, by simpa using hk, ?_, ?_, ?_⟩
      · simpa using e1
      · push_cast at e2 ⊢; linarith
      · intro i hi
        cases i with
        | zero => simpa using lt_of_not_ge hge
        | succ i =>
          have := e3 i (by omega)
          push_cast at this ⊢; linarith

/-- **C19 (empirical quantile).** For every sorting routine returning a sorted permutation, every `0 ≤ p ≤ 1` and
    every non-empty series (in any order): the quantile accessor does not fail, and its value is the element at
    position `k` of the sorted series where `k+1` is the FIRST rank with `p·n ≤ k+1`. -/
theorem quantile_rank (sort : List K → List K) (hsort : ∀ xs, (sort xs).Perm xs ∧ (sort xs).Pairwise (· ≤ ·))
    (p : K) (hp1 : p ≤ 1) (xs : List K) (hne : xs ≠ []) :
    ∃ k, ∃ hk : k < (sort xs).length, fQuantileWith sort p xs = .ok (some (sort xs)[k]) ∧
      p * (xs.length : K) ≤ (k : K) + 1 ∧ ∀ j, j < k → (j : K) + 1 < p * (xs.length : K) := by
  cases xs with
  | nil => exact absurd rfl hne
  | cons x xs =>
    obtain ⟨hperm, hsorted⟩ := hsort (x :: xs)
    have hlen : (sort (x :: xs)).length = (x :: xs).length := hperm.length_eq
    have hpos : 0 < (sort (x :: xs)).length := by rw [hlen]; simp
    have hn0 : (0 : K) ≤ ((sort (x :: xs)).length : K) := by positivity
    obtain ⟨k, hk, e1, e2, e3⟩ := empiricalLoop_rank (p * ((sort (x :: xs)).length : K)) (sort (x :: xs)) 0
      ⟨(sort (x :: xs)).length - 1, by omega, by
        have : (((sort (x :: xs)).length - 1 : ℕ) : K) + 1 = ((sort (x :: xs)).length : K) := by
          rw [← Nat.cast_succ]; congr 1; omega
        push_cast
        rw [zero_add, this]
        calc p * ((sort (x :: xs)).length : K) ≤ 1 * ((sort (x :: xs)).length : K) :=
              mul_le_mul_of_nonneg_right hp1 hn0
          _ = _ := one_mul _⟩
    refine ⟨k, hk, ?_, ?_, ?_⟩
    · simp only [fQuantileWith, gonumQuantile, isSorted_of_pairwise _ hsorted, Bool.not_true, Bool.false_eq_true,
        ↓reduceIte, Exact.mul_eq, ofInt_length, Exact.zero_eq]
      have e1' : empiricalLoop (p * ((sort (x :: xs)).length : K)) (sort (x :: xs)) 0 = some (sort (x :: xs))[k] := by
        simpa using e1
      rw [e1']; rfl
    · rw [← hlen]; simpa using e2
    · intro j hj; rw [← hlen]; simpa using e3 j hj

theorem pMedian_range : (0 : K) ≤ pMedian ∧ (pMedian : K) ≤ 1 := by
  show (0 : K) ≤ ((5 : ℕ) : K) / (10 : K) ^ 1 ∧ ((5 : ℕ) : K) / (10 : K) ^ 1 ≤ 1
  norm_num
theorem pQ25_range : (0 : K) ≤ pQ25 ∧ (pQ25 : K) ≤ 1 := by
  show (0 : K) ≤ ((25 : ℕ) : K) / (10 : K) ^ 2 ∧ ((25 : ℕ) : K) / (10 : K) ^ 2 ≤ 1
  norm_num
theorem pQ75_range : (0 : K) ≤ pQ75 ∧ (pQ75 : K) ≤ 1 := by
  show (0 : K) ≤ ((75 : ℕ) : K) / (10 : K) ^ 2 ∧ ((75 : ℕ) : K) / (10 : K) ^ 2 ≤ 1
  norm_num

/-- **C19 (never an error).** `Median`, `Q25`, `Q75` of the model (which sorts a copy) never fail, whatever the order
    of the series; on a non-empty series they return a value. -/
theorem quantiles_never_fail (xs : List K) :
    (∃ r, fMedian xs = .ok r ∧ (xs ≠ [] → r.isSome)) ∧ (∃ r, fQ25 xs = .ok r ∧ (xs ≠ [] → r.isSome)) ∧
    (∃ r, fQ75 xs = .ok r ∧ (xs ≠ [] → r.isSome)) := by
  by_cases hne : xs = []
  · subst hne; exact ⟨⟨none, rfl, by simp⟩, ⟨none, rfl, by simp⟩, ⟨none, rfl, by simp⟩⟩
  · obtain ⟨k1, _, h1, _⟩ := quantile_rank sortAsc sortAsc_spec (pMedian : K) pMedian_range.2 xs hne
    obtain ⟨k2, _, h2, _⟩ := quantile_rank sortAsc sortAsc_spec (pQ25 : K) pQ25_range.2 xs hne
    obtain ⟨k3, _, h3, _⟩ := quantile_rank sortAsc sortAsc_spec (pQ75 : K) pQ75_range.2 xs hne
    exact ⟨⟨_, h1, fun _ => rfl⟩, ⟨_, h2, fun _ => rfl⟩, ⟨_, h3, fun _ => rfl⟩⟩

/-! ### regardless of element order -/

theorem meanVariance_fst (xs : List K) : (fMeanVariance xs).map (·.1) = fMean xs := by
  cases xs <;> rfl

/-- **C19 (permutation invariance).** Reordering the series changes none of the statistics: Min, Max, Sum, Mean,
    MeanVariance, Variance, and - for every sorting routine that returns a sorted permutation - every quantile. -/
theorem perm_invariant (xs ys : List K) (h : xs.Perm ys) :
    fMin xs = fMin ys ∧ fMax xs = fMax ys ∧ fSum xs = fSum ys ∧ fMean xs = fMean ys ∧
    fMeanVariance xs = fMeanVariance ys ∧ fVariance xs = fVariance ys ∧
    ∀ (sort : List K → List K), (∀ zs, (sort zs).Perm zs ∧ (sort zs).Pairwise (· ≤ ·)) →
      ∀ p : K, fQuantileWith sort p xs = fQuantileWith sort p ys := by
  have hnil : xs = [] ↔ ys = [] := by
    constructor
    · intro h0; subst h0; exact h.symm.eq_nil
    · intro h0; subst h0; exact h.eq_nil
  have hsum : xs.sum = ys.sum := h.sum_eq
  have hlen : xs.length = ys.length := h.length_eq
  have hmv : fMeanVariance xs = fMeanVariance ys := by
    by_cases hne : xs = []
    · have := hnil.mp hne; subst hne; subst this; rfl
    · have hne' : ys ≠ [] := fun h0 => hne (hnil.mpr h0)
      rw [meanVariance_eq xs hne, meanVariance_eq ys hne', hsum, hlen]
      have : (xs.map fun x => (x - ys.sum / (ys.length : K)) ^ 2).sum = (ys.map fun x => (x - ys.sum / (ys.length : K)) ^ 2).sum :=
        (h.map _).sum_eq
      rw [this]
  refine ⟨?_, ?_, ?_, ?_, hmv, ?_, ?_⟩
  · -- the minimum is unique
    cases hx : fMin xs with
    | none =>
      have : xs = [] := by cases xs <;> simp_all [fMin]
      have := hnil.mp this; subst this; rfl
    | some m =>
      cases hy : fMin ys with
      | none =>
        have : ys = [] := by cases ys <;> simp_all [fMin]
        have h0 := hnil.mpr this; subst h0; simp [fMin] at hx
      | some m' =>
        obtain ⟨a1, a2⟩ := fMin_spec xs m hx
        obtain ⟨b1, b2⟩ := fMin_spec ys m' hy
        have := le_antisymm (a2 m' (h.symm.subset b1)) (b2 m (h.subset a1))
        rw [this]
  · cases hx : fMax xs with
    | none =>
      have : xs = [] := by cases xs <;> simp_all [fMax]
      have := hnil.mp this; subst this; rfl
    | some m =>
      cases hy : fMax ys with
      | none =>
        have : ys = [] := by cases ys <;> simp_all [fMax]
        have h0 := hnil.mpr this; subst h0; simp [fMax] at hx
      | some m' =>
        obtain ⟨a1, a2⟩ := fMax_spec xs m hx
        obtain ⟨b1, b2⟩ := fMax_spec ys m' hy
        have := le_antisymm (b2 m (h.subset a1)) (a2 m' (h.symm.subset b1))
        rw [this]
  · rw [sum_eq, sum_eq, hsum]
  · have := congrArg (Option.map (·.1)) hmv
    rw [meanVariance_fst xs, meanVariance_fst ys] at this
    exact this
  · simp [fVariance, hmv]
  · intro sort hsort p
    exact quantile_depends_on_sorted sort p xs ys (sorted_copy_unique sort hsort xs ys h) hnil

/-- non-vacuity: `sortAsc` is such a sorting routine, and a concrete reordering (rotation of three values) -/
example : ∀ zs : List K, (sortAsc zs).Perm zs ∧ (sortAsc zs).Pairwise (· ≤ ·) := sortAsc_spec
example (a b c : K) : fMedian [c, a, b] = fMedian [a, b, c] :=
  (perm_invariant [c, a, b] [a, b, c] (by simpa using (List.perm_append_comm (l₁ := [c]) (l₂ := [a, b])))).2.2.2.2.2.2
    sortAsc sortAsc_spec pMedian

/-! ### the order-free quantile predicate evaluated on the implementation holds of the model -/

theorem countLe_sorted (ys : List K) (hs : ys.Pairwise (· ≤ ·)) (k : ℕ) (hk : k < ys.length) :
    k + 1 ≤ countLe ys ys[k] := by
  induction ys generalizing k with
  | nil => simp at hk
  | cons y ys ih =>
    have hy := List.pairwise_cons.mp hs
    cases k with
    | zero => simp [countLe]
    | succ k =>
      have hk' : k < ys.length := by simpa using hk
      have h1 := ih hy.2 k hk'
      have hle : y ≤ ys[k] := hy.1 _ (List.getElem_mem hk')
      simp only [List.getElem_cons_succ, countLe, List.countP_cons, Exact.le_eq, hle, decide_true, ↓reduceIte] at h1 ⊢
      omega

theorem countLt_sorted (ys : List K) (hs : ys.Pairwise (· ≤ ·)) (k : ℕ) (hk : k < ys.length) :
    countLt ys ys[k] ≤ k := by
  induction ys generalizing k with
  | nil => simp at hk
  | cons y ys ih =>
    have hy := List.pairwise_cons.mp hs
    cases k with
    | zero =>
      have : List.countP (fun x => Scalar.lt x y) ys = 0 := by
        rw [List.countP_eq_zero]
        intro z hz
        simpa using hy.1 z hz
      simpa [countLt] using hy.1
    | succ k =>
      have hk' : k < ys.length := by simpa using hk
      have h1 := ih hy.2 k hk'
      simp only [List.getElem_cons_succ, countLt, List.countP_cons] at h1 ⊢
      split <;> omega

/-- **C19 (order-free form of the quantile).** For `0 < p ≤ 1`, any sorting routine that returns a sorted permutation
    and any non-empty series in any order, the value returned by the quantile accessor satisfies the order-free
    predicate `IsQuantileOf` (the one the driver evaluates on the implementation's results): it is an element of the
    series, at least `p·n` elements are `≤` it and fewer than `p·n` elements are `<` it. -/
theorem quantile_isQuantileOf (sort : List K → List K) (hsort : ∀ xs, (sort xs).Perm xs ∧ (sort xs).Pairwise (· ≤ ·))
    (p : K) (hp0 : 0 < p) (hp1 : p ≤ 1) (xs : List K) (hne : xs ≠ []) :
    ∃ v, fQuantileWith sort p xs = .ok (some v) ∧ IsQuantileOf p xs v = true := by
  obtain ⟨k, hk, hq, h1, h2⟩ := quantile_rank sort hsort p hp1 xs hne
  obtain ⟨hperm, hsorted⟩ := hsort xs
  refine ⟨_, hq, ?_⟩
  have hmem : (sort xs)[k] ∈ xs := hperm.subset (List.getElem_mem hk)
  have hle : k + 1 ≤ countLe xs (sort xs)[k] := by
    have := countLe_sorted (sort xs) hsorted k hk
    simpa [countLe, hperm.countP_eq] using this
  have hlt : countLt xs (sort xs)[k] ≤ k := by
    have := countLt_sorted (sort xs) hsorted k hk
    simpa [countLt, hperm.countP_eq] using this
  have hnpos : (0 : K) < (xs.length : K) := by
    have : 0 < xs.length := List.length_pos_of_ne_nil hne
    exact_mod_cast this
  simp only [IsQuantileOf, Bool.and_eq_true, List.any_eq_true, Exact.eq_eq, decide_eq_true_eq, Exact.ge_eq, Exact.lt_eq,
    Exact.mul_eq, Exact.ofInt_eq, Int.cast_natCast]
  refine ⟨⟨⟨_, hmem, rfl⟩, ?_⟩, ?_⟩
  · have : ((k + 1 : ℕ) : K) ≤ (countLe xs (sort xs)[k] : K) := by exact_mod_cast hle
    push_cast at this
    linarith
  · have hc : (countLt xs (sort xs)[k] : K) ≤ (k : K) := by exact_mod_cast hlt
    cases k with
    | zero =>
      have : (countLt xs (sort xs)[0] : K) = 0 := by
        have : countLt xs (sort xs)[0] = 0 := by omega
        exact_mod_cast this
      rw [this]; positivity
    | succ k =>
      have := h2 k (by omega)
      push_cast at hc
      linarith

end GoNeat.C19
