/-
  C16 + C02, clause "turning over an epoch SUCCEEDS WITHOUT ERROR" - for the PARALLEL executor.

  `C02.nextEpoch_no_error` proves the clause for the sequential executor; `parEpoch_guarantees` (Props/C16Par.lean) says
  what holds IF `parEpoch` returns.  Here: under the hypotheses of the sequential theorem the parallel model never returns
  a model error that stands for a Go error or panic - for EVERY scheduler list, any number of species goroutines, any
  random numbers per goroutine, any order of arrival.

    `parEpoch_no_error`        one epoch: `parEpoch o gen p ps rs ≠ .error (.error msg)` for every `msg`
    `parEpoch_model_errors`    the same without the execution hypothesis: the ONLY model errors `parEpoch` can return are
                               the two that mean "this `ParSchedule` is not an execution of the Go program", and it returns
                               them only if `IsExecution` is false
    `execution_exists`         for every prepared population and all streams there IS a scheduler list (and an order of
                               arrival) that is an execution; `execution_extends`: every longer scheduler list is one too
    `parEpoch_popOk`           the population hypotheses hold again for the population returned (with `PopC03` of C03)
    `parEpochs_no_error`       any number of parallel epochs with arbitrary evaluations in between

  ## Results that are NOT errors of the implementation (and how they are treated)

  | result of `parEpoch`                                  | meaning                                              | treatment |
  |-------------------------------------------------------|------------------------------------------------------|-----------|
  | `.error .outOfRandom`                                 | a finite test stream (the main one or a goroutine's) ran out; Go's source is infinite | outside the statement, exactly as in `nextEpoch_no_error` |
  | `.error (.error "par:goroutineNotFinished")`          | the scheduler list ended before a goroutine whose result is read had returned | excluded by `IsExecution` |
  | `.error (.error "par:arrivalNotAPermutation")`        | `arrival` drops, repeats or invents a goroutine index | excluded by `IsExecution` |

  `IsExecution o gen p ps rs` (decidable): after `ps.sched` every species goroutine has returned, and `ps.arrival` is a
  permutation of the goroutine indices.  Why this is not a restriction on Go runs: `reproduce` starts one goroutine per
  species with `wg.Add(1)`/`defer wg.Done()`, a closer goroutine does `wg.Wait(); close(resChan)`, and the main goroutine
  `range`s over `resChan` - the loop ends only after the close, i.e. after every goroutine has returned (the Go scheduler
  does not starve a runnable goroutine forever; a goroutine performs finitely many registry operations - `finish_thread`),
  and an unbuffered/buffered channel delivers every value sent exactly once.  A `ParSchedule` that violates this does not
  describe a run.  The hypothesis is satisfiable for EVERY input (`execution_exists`) and stable under longer scheduler
  lists (`execution_extends`).

  Every genuine error exit (`.error (.error msg)` with any other `msg`: the whole inventory of Props/C02NoError.lean -
  `panic:index`, `panic:intn-nonpositive`, `genesis:*`, `noGenes`, `wrongGeneCreated`, `dup:*`, `progenySizeMismatch`,
  `reproduceEmptySpecies`, `noOrganismsToSpeciate`, `compatThresholdZero`, the crossover exits …) is PROVED unreachable.

  ## How interference is handled
  A goroutine's error exits depend on the shared registry only through the records of a snapshot: a link record found
  there dictates a trait index (`traitAt g inn.traitNum`).  Rely: every record of every snapshot names a valid trait index;
  guarantee: every record stored does (all genomes have the common trait count).  `PSafe` (Proofs/ParNoError.lean) is the
  thread-local obligation with this rely, with the counters' answers universally quantified; `runSched_safe`: the pair
  survives every pick of every scheduler.  The genome a goroutine mutates is a duplicate or crossover child of genomes of
  the PREPARED population (never of another baby), so its well-formedness comes from the sequential closure lemmas for the
  prepared pool alone.  The size check: each goroutine delivers exactly its quota (`Delivers`), the quotas total `PopSize`
  (C09 `prepare_quota_total` under `QuotaOk`), `arrival` is a permutation.
  Kind A; the float facts (`FloatFacts`: `UnitMulLe`, `PickLaw`) and `QuotaOk` are the same explicit hypotheses as in the
  sequential theorem (proved for exact arithmetic in Props/C02NoErrorExact.lean).
-/
import GoNeat.Proofs.ParNoErrorEpoch
import GoNeat.Props.C02NoError
import GoNeat.Props.C16Par

set_option linter.unusedSectionVars false

namespace GoNeat.C16
open GoNeat Scalar GoNeat.NoErr GoNeat.C01 GoNeat.C02 GoNeat.C03
variable {W : Type} [Scalar W]

/-- **C16 / C02, "succeeds without error", one epoch of the parallel executor.**  Under the hypotheses of the sequential
    theorem (`Hyp S o p`, the two float facts), for every stream of 63-bit raw values of the main goroutine and of every
    species goroutine, and for every `ParSchedule` that is an execution (all goroutines returned, each result delivered
    once): `parEpoch` never returns a model error. -/
theorem parEpoch_no_error (hff : FloatFacts W) (S : List Nat) (o : EpochOpts W) (p : Pop W) (h : Hyp S o p) (gen : Int)
    (ps : ParSchedule) (hstreams : ∀ s ∈ ps.streams, Valid s) :
    ∀ rs, Valid rs → IsExecution o gen p ps rs → ∀ msg, parEpoch o gen p ps rs ≠ .error (.error msg) :=
  fun rs hv hex msg => (parEpoch_core hff.unitMul hff.pick S o p h gen ps hstreams rs hv).ne hex msg

/-- **the only model errors of `parEpoch` are the two "not an execution" results** - for EVERY `ParSchedule`, execution or
    not: if `parEpoch` returns `.error (.error msg)` then the schedule is not an execution and `msg` is one of the two
    messages that say so.  No goroutine and no sequential phase ever fails. -/
theorem parEpoch_model_errors (hff : FloatFacts W) (S : List Nat) (o : EpochOpts W) (p : Pop W) (h : Hyp S o p) (gen : Int)
    (ps : ParSchedule) (hstreams : ∀ s ∈ ps.streams, Valid s) (rs : List Nat) (hv : Valid rs) (msg : String)
    (he : parEpoch o gen p ps rs = .error (.error msg)) :
    ¬ IsExecution o gen p ps rs ∧ (msg = "par:goroutineNotFinished" ∨ msg = "par:arrivalNotAPermutation") := by
  have := parEpoch_core hff.unitMul hff.pick S o p h gen ps hstreams rs hv
  rw [he] at this
  exact this

/-- **whatever a species goroutine has returned under whatever schedule, it is not a model error** (the core: no error
    in any single thread under arbitrary interference), and a value is its quota of babies of the common trait shape -/
theorem par_goroutine_no_error (hff : FloatFacts W) (S : List Nat) (o : EpochOpts W) (ha : ActOk o.mopts) (gen : Int) (p1 : Pop W)
    (ex : ExecState) (streams : List (List Nat)) (hstreams : ∀ s ∈ streams, Valid s) (sched : List Nat)
    (hne1 : ∀ s ∈ p1.species, s.orgs ≠ [])
    (hsne : (ex.sortedIds.filterMap (fun i => p1.species.find? (·.id == i))) ≠ [])
    (henv : PoolEnv S p1.reg (genomesOfPop p1)) (t : Nat) (r : BRes W)
    (hdone : (runSched ({ reg := p1.reg, threads := speciesThreads o gen p1 ex streams } : PState W (BRes W)) sched).threads[t]?
        = some (.done r)) :
    (∀ msg, r ≠ .error (.error msg)) ∧
    ∀ bs uid rs', r = .ok ((bs, uid), rs') → bs.length = quotaOf p1 t ∧ ∀ b ∈ bs, shape b.genome = S := by
  have hend := runSched_safe sched (speciesThreads_safe hff.unitMul hff.pick o ha gen p1 ex streams hstreams S hne1 hsne henv)
  have hr : OkV (Delivers S (quotaOf p1 t)) r := (hend.2 t _ hdone).result
  refine ⟨fun msg => hr.ne msg, ?_⟩
  intro bs uid rs' e
  subst e
  exact hr.1

/-- **an execution exists for every input**: whatever the prepared population and the goroutines' streams, some scheduler
    list lets every goroutine return (a goroutine performs finitely many registry operations whatever the others do) -/
theorem execution_exists (o : EpochOpts W) (gen : Int) (p1 : Pop W) (ex : ExecState) (streams : List (List Nat)) :
    ∃ sched arrival, PhaseExec o gen p1 ex ⟨streams, sched, arrival⟩ := exists_execution o gen p1 ex streams

/-- … and every LONGER scheduler list is an execution too ("the scheduler list is long enough") -/
theorem execution_extends (o : EpochOpts W) (gen : Int) (p1 : Pop W) (ex : ExecState) (streams : List (List Nat))
    (sched more arrival : List Nat) (h : PhaseExec o gen p1 ex ⟨streams, sched, arrival⟩) :
    PhaseExec o gen p1 ex ⟨streams, sched ++ more, arrival⟩ := by
  refine ⟨?_, h.2⟩
  intro q hq
  simp only at hq
  rw [runSched_append] at hq
  obtain ⟨t, ht, rfl⟩ := List.getElem_of_mem hq
  have ht' : t < (runSched ({ reg := p1.reg, threads := speciesThreads o gen p1 ex streams } : PState W (BRes W)) sched).threads.length := by
    rw [runSched_length] at ht; exact ht
  obtain ⟨a, ha⟩ := done_of_result (h.1 _ (List.getElem_mem ht'))
  have := runSched_done_stable more _ t a (by rw [List.getElem?_eq_getElem ht', ha])
  rw [List.getElem?_eq_getElem ht] at this
  simp only [Option.some.injEq] at this
  rw [this]; rfl

/-- **the population hypotheses are an invariant of the parallel executor**: they hold again for the population `parEpoch`
    returns, together with C03's `PopC03` for an extended history (which `parEpoch_guarantees` needs to re-establish the
    C01 pool invariant under interleaving) -/
theorem parEpoch_popOk (hff : FloatFacts W) (S : List Nat) (o : EpochOpts W) (p : Pop W) (h : Hyp S o p) (gen : Int)
    (ps : ParSchedule) (hstreams : ∀ s ∈ ps.streams, Valid s) (rs rs' : List Nat) (hv : Valid rs) (p' : Pop W)
    (H : List (Genome W)) (hc : PopC03 H p) (he : parEpoch o gen p ps rs = .ok (p', rs')) :
    PopOk S o p' ∧ Valid rs' ∧ ∃ H', Ext H H' ∧ PopC03 H' p' := by
  obtain ⟨⟨a1, a2, a3, a4, _, _, hu', hs'⟩, ⟨_, hpool⟩, H', hext, hc', _, _⟩ :=
    parEpoch_guarantees [] H o gen p p' ps rs rs' h.pop.uid h.pop.spid (by simpa using h.pop.pool) hc (by simp) he
  have hcore := parEpoch_core hff.unitMul hff.pick S o p h gen ps hstreams rs hv
  rw [he] at hcore
  obtain ⟨hnew, hv'⟩ := hcore
  refine ⟨⟨hu', hs', a1, a3 ▸ List.Perm.refl _, a2, a4, fun x hx => (hnew x hx).2, by simpa using hpool, ?_, ?_⟩, hv', H', hext, hc'⟩
  · intro i hi; rw [hc'.norec] at hi; cases hi
  · intro g hg
    obtain ⟨s, hs, x, hx, rfl⟩ := mem_genomesOfPop.mp hg
    exact (hnew x (mem_allOrgs.mpr ⟨s, hs, hx⟩)).1

/-! ### any number of parallel epochs -/

/-- along the run: the C09 quota facts hold in every generation reached (as `C02.QuotaAlong`), and every generation's
    `ParSchedule` is an execution (decidable along the run) -/
def ParAlong (o : EpochOpts W) : List (ParSchedule × (Pop W → Pop W)) → Int → Pop W → List Nat → Prop
  | [], _, _, _ => True
  | (ps, ev) :: rest, gen, p, rs =>
    QuotaOk o (ev p) ∧ IsExecution o gen (ev p) ps rs ∧
    match parEpoch o gen (ev p) ps rs with
    | .error _ => True
    | .ok (p', rs') => ParAlong o rest (gen + 1) p' rs'

instance decParAlong (o : EpochOpts W) : (runs : List (ParSchedule × (Pop W → Pop W))) → (gen : Int) → (p : Pop W) → (rs : List Nat) →
    Decidable (ParAlong o runs gen p rs)
  | [], _, _, _ => isTrue trivial
  | (ps, ev) :: rest, gen, p, rs =>
    if h1 : QuotaOk o (ev p) ∧ IsExecution o gen (ev p) ps rs then
      match h : parEpoch o gen (ev p) ps rs with
      | .error e => isTrue ⟨h1.1, h1.2, by rw [h]; trivial⟩
      | .ok (p', rs') =>
        match decParAlong o rest (gen + 1) p' rs' with
        | isTrue h2 => isTrue ⟨h1.1, h1.2, by rw [h]; exact h2⟩
        | isFalse h2 => isFalse (fun hh => h2 (by have h3 := hh.2.2; rw [h] at h3; exact h3))
    else isFalse (fun hh => h1 ⟨hh.1, hh.2.1⟩)

theorem evalOk_id : EvalOk (fun (p : Pop W) => p) :=
  fun p => ⟨⟨rfl, rfl, rfl, rfl⟩, rfl, GenomesSub.refl _⟩

theorem evalOk_seq {ev : Pop W → Pop W} (he : EvalOk ev) (q : Pop W) : C02.EvalOk q (ev q) := by
  obtain ⟨hsh, hreg, hsub⟩ := he q
  refine ⟨hsh, ?_, hreg⟩
  intro g hg
  obtain ⟨s, hs', x, hx, rfl⟩ := mem_genomesOfPop.mp hg
  obtain ⟨s0, hs0, y, hy, e⟩ := hsub s hs' x hx
  exact mem_genomesOfPop.mpr ⟨s0, hs0, y, hy, e⟩

/-- **C16 / C02, "succeeds without error", any number of epochs of the parallel executor** with arbitrary evaluations in
    between: from a population that satisfies the population hypotheses of the sequential theorem (`PopOk`) and C03's
    `PopC03`, whatever the schedules, the goroutines' random numbers and the orders of arrival are (as long as each is an
    execution), no generation ever returns a model error. -/
theorem parEpochs_no_error (hff : FloatFacts W) (S : List Nat) (o : EpochOpts W) (ho : OptsOk o)
    (runs : List (ParSchedule × (Pop W → Pop W))) (hev : ∀ r ∈ runs, EvalOk r.2)
    (hstreams : ∀ r ∈ runs, ∀ s ∈ r.1.streams, Valid s) :
    ∀ (H : List (Genome W)) (gen : Int) (p : Pop W) (rs : List Nat), Valid rs → PopOk S o p → PopC03 H p →
      ParAlong o runs gen p rs → ∀ msg, parEpochs o runs gen p rs ≠ .error (.error msg) := by
  induction runs with
  | nil => intro H gen p rs _ _ _ _ msg h; simp [parEpochs] at h
  | cons r rest ih =>
    intro H gen p rs hv hp hc hq msg
    obtain ⟨ps, ev⟩ := r
    have hev1 := hev (ps, ev) List.mem_cons_self
    have hyp : Hyp S o (ev p) := ⟨ho, popOk_eval S o p (ev p) hp (evalOk_seq hev1 p), hq.1⟩
    have hinv : ParInv [] H (ev p) :=
      (ParInv.mk hp.uid hp.spid (by simpa using hp.pool) hc (by simp) : ParInv [] H p).eval hev1
    have hstr1 := hstreams (ps, ev) List.mem_cons_self
    have hne := parEpoch_no_error hff S o (ev p) hyp gen ps hstr1 rs hv hq.2.1
    have hq2 := hq.2.2
    unfold parEpochs
    split
    · next e he => intro h; cases h; exact hne msg he
    · next p' rs' he =>
      rw [he] at hq2
      obtain ⟨hp', hv', H', _, hc'⟩ := parEpoch_popOk hff S o (ev p) hyp gen ps hstr1 rs rs' hv p' H hinv.c03 he
      exact ih (fun r hr => hev r (List.mem_cons_of_mem _ hr)) (fun r hr => hstreams r (List.mem_cons_of_mem _ hr))
        H' (gen + 1) p' rs' hv' hp' hc' hq2 msg

/-! ### the hypotheses are decidable, and not vacuous -/

section NonVacuity
open GoNeat.ExactInt
attribute [local instance] intScalar

/-- the float facts hold for the toy scalar (every unit draw is 0) -/
theorem exFloatFacts : FloatFacts Int :=
  ⟨fun x t _ _ h => by simpa [Scalar.le, Scalar.mul, Scalar.ofUnit63, Scalar.zero, intScalar] using h,
   fun x n _ hn _ => by simp [Scalar.floorInt, Scalar.mul, Scalar.div, Scalar.ofUnit63, Scalar.ofInt]; omega⟩

/-- the concrete parallel epoch of Props/C16Par.lean (`eo`, `popE`, `psE`: two species goroutines whose registry operations
    alternate, the second result arrives first) satisfies every hypothesis of `parEpoch_no_error` (trait shape `[1, 1]`),
    including C03's `PopC03` for `parEpochs_no_error` (`exParInv`) … -/
example : Hyp [1, 1] eo popE ∧ (∀ s ∈ psE.streams, Valid s) ∧ Valid (List.replicate 30 2) ∧
    IsExecution eo 1 popE psE (List.replicate 30 2) := by decide +kernel

/-- … and the epoch returns four organisms in two species -/
example : (popSummary (parEpoch eo 1 popE psE (List.replicate 30 2))).map (fun r => (r.1.map (·.take 2), r.2.1)) =
    some ([[1, 6], [1, 7], [2, 4], [2, 5]], [6, 7, 4, 5]) := by decide +kernel

/-- the conclusion, instantiated -/
example : ∀ msg, parEpoch eo 1 popE psE (List.replicate 30 2) ≠ .error (.error msg) :=
  parEpoch_no_error exFloatFacts [1, 1] eo popE (by decide +kernel) 1 psE (by decide) _ (by decide) (by decide +kernel)

/-- the message of a model error -/
def errMsg {β : Type} : Except Stop β → Option String
  | .error (.error m) => some m
  | _ => none

/-! With the toy scalar every unit draw is 0, so in the epoch above no baby gets a structural mutation and no goroutine
    touches the registry.  A second instance in which they do: every baby gets an add-link mutation asking for a recurrent
    link (`recurOnlyProb = 1`), the goroutines' raw streams steer `rand.Intn` to an open pair, and the registry operations
    `Innovations()` · `NextInnovationNumber()` · `StoreInnovation` of the two goroutines alternate. -/

def eoR : EpochOpts Int :=
  { eo with mutateAddNodeProb := 0, mutateAddLinkProb := 100, mopts := { C01.mo with recurOnlyProb := 1 } }

def streamR : List Nat := (List.range 60).map (fun i => (i % 4) <<< 32)

/-- snapshot·snapshot·NextInn·NextInn·store·store; the second goroutine's result arrives first -/
def psR : ParSchedule := ⟨[streamR, streamR], [0, 1, 0, 1, 0, 1], [1, 0]⟩

example : Hyp [1, 1] eoR popE ∧ (∀ s ∈ psR.streams, Valid s) ∧ IsExecution eoR 1 popE psR (List.replicate 30 2) := by
  decide +kernel

/-- the first baby of each species gets a new recurrent link: numbers 8 and 9 (the counter ends at 9) -/
example : popSummary (parEpoch eoR 1 popE psR (List.replicate 30 2)) =
    some ([[1, 6, 0, 1, 2, 4, 5, 6, 8, 0, 1, 2, 3, 4], [1, 7, 1, 1, 2, 4, 5, 6, 0, 1, 2, 3, 4],
           [2, 4, 2, 1, 2, 4, 5, 7, 9, 0, 1, 2, 3, 4], [2, 5, 3, 1, 2, 4, 5, 7, 0, 1, 2, 3, 4]],
          [6, 7, 4, 5], [9, 5, 8]) := by decide +kernel

example : ∀ msg, parEpoch eoR 1 popE psR (List.replicate 30 2) ≠ .error (.error msg) :=
  parEpoch_no_error exFloatFacts [1, 1] eoR popE (by decide +kernel) 1 psR (by decide +kernel) _ (by decide) (by decide +kernel)

/-- a scheduler list that stops before the goroutines have stored their records is NOT an execution, and the model says so
    with the excluded result; likewise an order of arrival that forgets a goroutine -/
example : ¬ IsExecution eoR 1 popE ⟨psR.streams, [0, 1, 0, 1], [1, 0]⟩ (List.replicate 30 2) ∧
    errMsg (parEpoch eoR 1 popE ⟨psR.streams, [0, 1, 0, 1], [1, 0]⟩ (List.replicate 30 2)) = some "par:goroutineNotFinished" ∧
    ¬ IsExecution eoR 1 popE ⟨psR.streams, psR.sched, [1]⟩ (List.replicate 30 2) ∧
    errMsg (parEpoch eoR 1 popE ⟨psR.streams, psR.sched, [1]⟩ (List.replicate 30 2)) = some "par:arrivalNotAPermutation" := by
  decide +kernel

/-- two generations: in the second one only species 2 is left (one goroutine), all four babies are its offspring -/
def runsR : List (ParSchedule × (Pop Int → Pop Int)) :=
  [(psR, fun p => p), (⟨[streamR], (List.range 40).map (· % 2), [0]⟩, fun p => p)]

/-- every hypothesis of `parEpochs_no_error` holds for the two-generation run (`PopC03` is `exParInv.c03`) -/
example : PopOk [1, 1] eoR popE ∧ OptsOk eoR ∧ (∀ r ∈ runsR, ∀ s ∈ r.1.streams, Valid s) ∧
    ParAlong eoR runsR 1 popE (List.replicate 30 2) := by decide +kernel

example : popSummary (parEpochs eoR runsR 1 popE (List.replicate 30 2)) =
    some ([[2, 8, 0, 1, 2, 4, 5, 7, 10, 0, 1, 2, 3, 4], [2, 9, 1, 1, 2, 4, 5, 7, 9, 0, 1, 2, 3, 4],
           [2, 10, 2, 1, 2, 4, 5, 7, 9, 0, 1, 2, 3, 4], [2, 11, 3, 1, 2, 4, 5, 7, 9, 0, 1, 2, 3, 4]],
          [8, 9, 10, 11], [10, 5, 12]) := by decide +kernel

example : ∀ msg, parEpochs eoR runsR 1 popE (List.replicate 30 2) ≠ .error (.error msg) :=
  parEpochs_no_error exFloatFacts [1, 1] eoR (by decide +kernel) runsR
    (fun r hr => by
      simp only [runsR, List.mem_cons, List.not_mem_nil, or_false] at hr
      rcases hr with rfl | rfl <;> exact evalOk_id)
    (by decide +kernel) [ev1, ev2] 1 popE _ (by decide) (by decide +kernel) exParInv.c03 (by decide +kernel)

end NonVacuity

end GoNeat.C16
