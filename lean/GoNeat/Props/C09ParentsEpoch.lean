/-
  Property C09, the parent cut over the whole preparation phase: after `prepareForReproduction` every species that
  keeps a quota consists of exactly the top `floor(survival_thresh*n + 1)` organisms of the species as it was sorted by
  adjusted fitness — the marks set by `adjustFitness` survive quota assignment, fix-up, sorting, stolen babies /
  delta coding and the write-back unchanged, and `purgeOrganisms` removes exactly the marked organisms.  Kind A.
-/
import GoNeat.Props.C09Parents
import GoNeat.Props.C02Epoch

namespace GoNeat.C09
open GoNeat Scalar
variable {W : Type} [Scalar W]

/-- `adjustAll` is `adjustFitness` species by species -/
theorem adjustAll_mem (o : EpochOpts W) (ss ss' : List (Species W)) (h : adjustAll o ss = .ok ss') :
    ∀ s' ∈ ss', ∃ s ∈ ss, adjustFitness o s = .ok s' := by
  induction ss generalizing ss' with
  | nil => simp only [adjustAll] at h; cases h; intro s' hs'; cases hs'
  | cons s ss ih =>
    simp only [adjustAll] at h
    split at h
    · cases h
    · rename_i s1 h1
      split at h
      · cases h
      · rename_i ss1 h2
        cases h
        intro s' hs'
        rcases List.mem_cons.mp hs' with rfl | h'
        · exact ⟨s, by simp, h1⟩
        · obtain ⟨s0, hs0, e⟩ := ih ss1 h2 s' h'
          exact ⟨s0, by simp [hs0], e⟩

theorem find_unique' {α} (l : List α) (p : α → Bool) (y : α) (hy : y ∈ l) (hp : p y = true) (hu : ∀ z ∈ l, p z = true → z = y) :
    l.find? p = some y := by
  induction l with
  | nil => cases hy
  | cons a as ih =>
    by_cases ha : p a = true
    · have : a = y := hu a (by simp) ha
      subst this
      simp [List.find?_cons, ha]
    · have hne : y ≠ a := by intro e; apply ha; rw [← e]; exact hp
      have hy' : y ∈ as := by
        rcases List.mem_cons.mp hy with h | h
        · exact absurd h hne
        · exact h
      have hf : p a = false := by simpa using ha
      simp only [List.find?_cons, hf]
      exact ih hy' (fun z hz => hu z (by simp [hz]))

theorem foldl_fixed {α β} (g : Option α → β → Option α) (x : α) (hg : ∀ s, g (some x) s = some x) (l : List β) :
    l.foldl g (some x) = some x := by
  induction l with
  | nil => rfl
  | cons b bs ih => simp only [List.foldl_cons, hg, ih]

/-- with pairwise distinct allocation ids, looking an organism up by its id finds that organism -/
theorem findOrg_of_mem (p : Pop W) (hnd : (C02.orgUids p.species).Nodup) (s : Species W) (hs : s ∈ p.species) (x : Org W) (hx : x ∈ s.orgs) :
    p.findOrg x.uid = some x := by
  unfold Pop.findOrg
  generalize p.species = ss at hnd hs
  -- invariant of the fold: the accumulator is `none` until the species holding `x` is reached
  suffices h : ∀ (acc : Option (Org W)), (acc = none ∨ acc = some x) →
      ss.foldl (fun acc s => match acc with | some o => some o | none => s.orgs.find? (·.uid == x.uid)) acc = some x ∨
      (acc = none ∧ ∀ s' ∈ ss, x ∉ s'.orgs) by
    rcases h none (Or.inl rfl) with h1 | ⟨_, h2⟩
    · exact h1
    · exact absurd hx (h2 s hs)
  induction ss with
  | nil => cases hs
  | cons a as ih =>
    intro acc hacc
    simp only [List.foldl_cons]
    rcases hacc with rfl | rfl
    · simp only
      simp only [C02.orgUids_cons, List.nodup_append] at hnd
      by_cases hxa : x ∈ a.orgs
      · -- found here
        have hfind : a.orgs.find? (fun y => y.uid == x.uid) = some x := by
          apply find_unique' _ _ x hxa (by simp)
          · intro z hz hzu
            simp only [beq_iff_eq] at hzu
            exact C02.nodup_map_inj (·.uid) hnd.1 hz hxa hzu
        rw [hfind]
        left
        exact foldl_fixed _ x (by intro s; rfl) as
      · have hnone : a.orgs.find? (fun y => y.uid == x.uid) = none := by
          rw [List.find?_eq_none]
          intro y hy hyu
          simp only [beq_iff_eq] at hyu
          -- y ∈ a.orgs has x's uid; x is in a later species: contradiction with Nodup
          rcases List.mem_cons.mp hs with rfl | hs'
          · exact hxa hx
          · have h1 : y.uid ∈ a.orgs.map (·.uid) := List.mem_map_of_mem hy
            have h2 : x.uid ∈ C02.orgUids as := by
              simp only [C02.orgUids, List.mem_flatMap, List.mem_map]
              exact ⟨s, hs', x, hx, rfl⟩
            exact hnd.2.2 _ h1 _ h2 hyu
        rw [hnone]
        rcases List.mem_cons.mp hs with rfl | hs'
        · exact absurd hx hxa
        · rcases ih hnd.2.1 hs' none (Or.inl rfl) with h1 | ⟨_, h2⟩
          · exact Or.inl h1
          · exact absurd hx (h2 s hs')
    · left
      exact foldl_fixed _ x (by intro s; rfl) as


theorem findOrg_some_mem (p : Pop W) (u : Nat) (y : Org W) (h : p.findOrg u = some y) :
    ∃ s ∈ p.species, y ∈ s.orgs ∧ y.uid = u := by
  unfold Pop.findOrg at h
  generalize p.species = ss at h
  suffices hgen : ∀ (acc : Option (Org W)),
      ss.foldl (fun acc s => match acc with | some o => some o | none => s.orgs.find? (·.uid == u)) acc = some y →
      acc = some y ∨ ∃ s ∈ ss, y ∈ s.orgs ∧ y.uid = u by
    rcases hgen none h with h0 | h1
    · cases h0
    · exact h1
  clear h
  induction ss with
  | nil => intro acc h; left; simpa using h
  | cons a as ih =>
    intro acc h
    simp only [List.foldl_cons] at h
    rcases ih _ h with h0 | ⟨s, hs, r⟩
    · cases acc with
      | some z => left; simpa using h0
      | none =>
        right
        have hf : a.orgs.find? (fun x => x.uid == u) = some y := h0
        exact ⟨a, by simp, List.mem_of_find?_eq_some hf, by have := List.find?_some hf; simpa using this⟩
    · exact Or.inr ⟨s, by simp [hs], r⟩


theorem sublist_flatMap {α β} (f : α → List β) {a b : List α} (h : a.Sublist b) : (a.flatMap f).Sublist (b.flatMap f) := by
  induction h with
  | slnil => simp
  | cons x _ ih => simp only [List.flatMap_cons]; exact ih.trans (List.sublist_append_right _ _)
  | cons_cons x _ ih => simp only [List.flatMap_cons]; exact List.Sublist.append (List.Sublist.refl _) ih

/-- the species' members as the code sorts them: adjusted fitness recorded, sorted descending -/
def sortedAdjusted (o : EpochOpts W) (s : Species W) : List (Org W) :=
  sortOrgsDesc (s.orgs.map (fun x => { x with originalFitness := x.fitness, fitness := adjustedFitness o s x.fitness }))

/-- the unmarked members of a species, read off its key -/
theorem unmarked_of_key (s : Species W) :
    (s.orgs.filter (fun x => !x.toEliminate)).map (·.uid) = (((C02.ukey s).2).filter (fun k => !k.2)).map (·.1) := by
  simp only [C02.ukey]
  generalize s.orgs = l
  induction l with
  | nil => rfl
  | cons x xs ih =>
    simp only [List.map_cons, List.filter_cons]
    split <;> simp_all

/-- **C09 (parents, whole preparation phase).** For a consistently allocated population with pairwise distinct
    allocation ids and unique species ids in which no organism is marked yet: after `prepareForReproduction` every species
    still present consists of exactly the first `floor(survival_thresh*n + 1)` organisms of that species as sorted by
    adjusted fitness (n = its size before the turnover) — for every stream and option setting. -/
theorem prepare_parents (o : EpochOpts W) (p p1 : Pop W) (ex : ExecState) (rs rs' : List Nat)
    (hnd : (p.species.map (·.id)).Nodup) (hu : C02.UidInv p) (hundup : (C02.orgUids p.species).Nodup)
    (hun : ∀ s ∈ p.species, ∀ x ∈ s.orgs, x.toEliminate = false)
    (h : prepareForReproduction o p rs = .ok ((p1, ex), rs')) :
    ∀ s1 ∈ p1.species, ∃ s0 ∈ p.species, s1.id = s0.id ∧
      s1.orgs.map (·.uid) = ((sortedAdjusted o s0).take (numParents o s0.orgs.length).toNat).map (·.uid) := by
  obtain ⟨_, _, doomed, mid, _, _, hmidsub, hsp, species1, pre, hadj, hkeys, hpre1, hpre2, hdoomed⟩ :=
    C02.prepare_spec_full o p p1 ex rs rs' hnd h
  -- allocation ids stay pairwise distinct
  have hnd1 : (C02.orgUids species1).Nodup := (C02.adjustAll_uids o _ _ hadj).nodup_iff.mpr hundup
  have hndm : (C02.orgUids mid).Nodup := by
    rw [C02.uids_of_ukeys] at hnd1 ⊢
    exact (sublist_flatMap _ hkeys).nodup hnd1
  have hndpre : (C02.orgUids pre.species).Nodup := by rw [hpre1]; exact hndm
  -- an organism of `mid` is doomed iff it is marked
  have hdoom : ∀ s ∈ mid, ∀ x ∈ s.orgs, doomed.contains x.uid = x.toEliminate := by
    intro s hs x hx
    have hfind : pre.findOrg x.uid = some x := findOrg_of_mem pre hndpre s (by rw [hpre1]; exact hs) x hx
    have hxu : x.uid ∈ pre.organisms := by
      rw [hpre2]
      apply hu.listed
      apply hmidsub
      simp only [C02.orgUids, List.mem_flatMap, List.mem_map]
      exact ⟨s, hs, x, hx, rfl⟩
    have hxl : x ∈ pre.orgList := by
      unfold Pop.orgList
      exact List.mem_filterMap.mpr ⟨x.uid, hxu, hfind⟩
    cases hte : x.toEliminate with
    | true =>
      rw [hdoomed]
      simp only [List.contains_eq_mem, List.mem_map, List.mem_filter, decide_eq_true_eq]
      exact ⟨x, ⟨hxl, hte⟩, rfl⟩
    | false =>
      rw [hdoomed]
      simp only [List.contains_eq_mem, List.mem_map, List.mem_filter, decide_eq_false_iff_not]
      rintro ⟨y, ⟨hyl, hyte⟩, hyu⟩
      unfold Pop.orgList at hyl
      obtain ⟨u, _, hfy⟩ := List.mem_filterMap.mp hyl
      obtain ⟨sy, hsy, hyin, _⟩ := findOrg_some_mem pre u y hfy
      have hfy' : pre.findOrg y.uid = some y := findOrg_of_mem pre hndpre sy hsy y hyin
      rw [hyu, hfind] at hfy'
      cases hfy'
      rw [hte] at hyte; cases hyte
  intro s1 hs1
  rw [hsp] at hs1
  obtain ⟨s, hs, rfl⟩ := List.mem_map.mp hs1
  -- the species of `mid` has the key of a species produced by `adjustFitness`
  have hk : C02.ukey s ∈ species1.map C02.ukey := hkeys.subset (List.mem_map_of_mem hs)
  obtain ⟨sa, hsa, hka⟩ := List.mem_map.mp hk
  obtain ⟨s0, hs0, hadj0⟩ := adjustAll_mem o _ _ hadj sa hsa
  refine ⟨s0, hs0, ?_, ?_⟩
  · -- ids
    have e1 : sa.id = s.id := by
      have := congrArg (fun k => k.1.1) hka
      simpa [C02.ukey, C02.skey] using this
    have e2 : sa.id = s0.id := by
      unfold adjustFitness at hadj0
      simp only at hadj0
      split at hadj0
      · cases hadj0
      · cases hadj0; rfl
    show s.id = s0.id
    rw [← e1, e2]
  · -- members
    have hfilt : s.orgs.filter (fun x => !doomed.contains x.uid) = s.orgs.filter (fun x => !x.toEliminate) := by
      apply List.filter_congr
      intro x hx
      rw [hdoom s hs x hx]
    show (s.orgs.filter (fun x => !doomed.contains x.uid)).map (·.uid) = _
    rw [hfilt, unmarked_of_key s, ← hka, ← unmarked_of_key sa]
    -- `sa` is what `adjustFitness` made of `s0`
    have hadjl : s0.orgs.map (adjustOrg (if (s0.age - s0.ageOfLastImprovement + 1) - o.dropOffAge = 0 then 1 else (s0.age - s0.ageOfLastImprovement + 1) - o.dropOffAge) s0.age o s0.orgs.length) =
        s0.orgs.map (fun x => { x with originalFitness := x.fitness, fitness := adjustedFitness o s0 x.fitness }) := by
      apply List.map_congr_left
      intro x _
      simp only [adjustOrg, adjustedFitness]
    unfold adjustFitness at hadj0
    simp only at hadj0
    rw [hadjl] at hadj0
    split at hadj0
    · cases hadj0
    · rename_i top rest hsort
      cases hadj0
      have hun' : ∀ x ∈ sortedAdjusted o s0, x.toEliminate = false := by
        intro x hx
        have := (C10.sortOrgsDesc_perm _).mem_iff.mp hx
        obtain ⟨y, hy, rfl⟩ := List.mem_map.mp this
        exact hun s0 hs0 y hy
      have := filter_unmarked_markOrgs (numParents o s0.orgs.length) (sortedAdjusted o s0) 0 hun'
      simpa [numParents, sortedAdjusted] using this

end GoNeat.C09
