/-
  Property C01 for the random constructor `newGenomeRand` (Model/GenomeRand.lean).  Kind A: every theorem holds for
  every scalar type `W` with `[Scalar W]`, for ALL parameters `(newId, in, out, n, maxHidden, recurrent, linkProb, opts)`
  and ALL random streams: whenever the model returns a genome, the genome has the stated shape.

  The only hypothesis that occurs is `n ≤ maxHidden` (for the clauses about the node list): with `n > maxHidden` the
  hidden ids `in+1..in+n` run into the output ids `in+maxHidden+1..` and node ids are NOT unique
  (`genomeRand_nodes_clash`, machine-checked); `NewPopulationRandom` calls with `n = rand.Intn(maxHidden) < maxHidden`.
  A random genome need not have a gene (`genomeRand_may_be_empty`: `linkProb = 0`), so `WF` proper (which demands one)
  holds exactly when the gene list is non-empty (`genomeRand_wf`, `genomeRand_genes_empty_iff`).
  Helper lemmas: Proofs/GenomeRand.lean.
-/
import GoNeat.Proofs.GenomeRand
import GoNeat.Proofs.ScalarInt

set_option linter.unusedSectionVars false
set_option linter.unusedVariables false

namespace GoNeat.C01
open GoNeat Scalar GoNeat.GenRand
variable {W : Type} [Scalar W]

section
variable (newId : Int) (nIn nOut n mH : Nat) (recurrent : Bool) (linkProb : W) (o : MutOpts W) (rs rs' : List Nat) (g : Genome W)

/-- **C01 (newGenomeRand, nodes).** Nodes are listed strictly ascending by id, hence ids are unique (needs `n ≤ maxHidden`). -/
theorem genomeRand_nodes_sorted (hn : n ≤ mH) (h : newGenomeRand newId nIn nOut n mH recurrent linkProb o rs = .ok (g, rs')) :
    NodesSorted g.nodes ∧ (nodeIds g).Nodup := by
  have hs := (newGenomeRand_facts newId nIn nOut n mH recurrent linkProb o rs rs' g h).1.nodesSorted hn
  refine ⟨hs, ?_⟩
  unfold nodeIds NodesSorted at *
  rw [List.nodup_iff_pairwise_ne, List.pairwise_map]
  exact hs.imp (fun {a b} hab => by omega)

/-- **C01 (newGenomeRand, roles).** Node ids lie in `1..in+out+maxHidden`, the role is a function of the id alone
    (`randKind`: `1..in-1` input, `in` bias, `in+1..in+maxHidden` hidden, above output) and every node points to trait 1. -/
theorem genomeRand_roles (hn : n ≤ mH) (h : newGenomeRand newId nIn nOut n mH recurrent linkProb o rs = .ok (g, rs')) :
    RandRoles (nIn : Int) (nOut : Int) (mH : Int) g := by
  intro x hx
  obtain ⟨ht, hk⟩ := (newGenomeRand_facts newId nIn nOut n mH recurrent linkProb o rs rs' g h).1.nodesFact x hx
  unfold randKind
  rcases hk with ⟨a, b, c⟩ | ⟨a, b, c⟩ | ⟨a, b, c⟩
  · refine ⟨a, by omega, ?_, ht⟩
    rw [c]
    by_cases he : x.id = (nIn : Int)
    · rw [if_pos he, if_neg (by omega), if_pos he]
    · rw [if_neg he, if_pos (by omega)]
  · refine ⟨by omega, by omega, ?_, ht⟩
    rw [c, if_neg (by omega), if_neg (by omega), if_pos (by omega)]
  · refine ⟨by omega, by omega, ?_, ht⟩
    rw [c, if_neg (by omega), if_neg (by omega), if_neg (by omega)]

/-- **C01 (newGenomeRand, an output exists)** when `out ≥ 1`. -/
theorem genomeRand_hasOutput (ho : 1 ≤ nOut) (h : newGenomeRand newId nIn nOut n mH recurrent linkProb o rs = .ok (g, rs')) :
    HasOutput g :=
  (newGenomeRand_facts newId nIn nOut n mH recurrent linkProb o rs rs' g h).1.hasOutput ho

/-- **C01 (newGenomeRand, endpoints).** Every gene endpoint is a node of the genome. -/
theorem genomeRand_endpoints (h : newGenomeRand newId nIn nOut n mH recurrent linkProb o rs = .ok (g, rs')) :
    EndpointsOwned g := by
  intro x hx
  obtain ⟨i, j, _, _, hf⟩ := (newGenomeRand_facts newId nIn nOut n mH recurrent linkProb o rs rs' g h).1.cells x hx
  exact ⟨hf.srcIn, hf.dstIn⟩

/-- **C01 (newGenomeRand, no link into a sensor).** No gene ends in an input or bias node. -/
theorem genomeRand_noSensorTarget (h : newGenomeRand newId nIn nOut n mH recurrent linkProb o rs = .ok (g, rs')) :
    NoSensorTarget g := by
  intro x hx m hm hid
  have F := (newGenomeRand_facts newId nIn nOut n mH recurrent linkProb o rs rs' g h).1
  obtain ⟨i, j, _, _, hf⟩ := F.cells x hx
  have hin := hf.inM
  simp only [RandDims.inMatrix, randDims, Bool.and_eq_true] at hin
  have hgt : 1 + i > nIn := of_decide_eq_true hin.1.1
  have hd := hf.dst
  obtain ⟨_, hk⟩ := F.nodesFact m hm
  rcases hk with ⟨a, b, c⟩ | ⟨a, b, c⟩ | ⟨a, b, c⟩
  · omega
  · simp [Node.isSensor, c, Kind.hidden, Kind.input, Kind.bias]
  · simp [Node.isSensor, c, Kind.output, Kind.input, Kind.bias]

/-- **C01 (newGenomeRand, gene order).** Genes are listed strictly ascending by innovation number. -/
theorem genomeRand_genes_sorted (h : newGenomeRand newId nIn nOut n mH recurrent linkProb o rs = .ok (g, rs')) :
    GenesSorted g.genes :=
  (newGenomeRand_facts newId nIn nOut n mH recurrent linkProb o rs rs' g h).1.genesSorted

/-- **C01 (newGenomeRand, matrix cells).** A gene `src→dst` sits in the cell (column `dst`, row `src`) of the
    `total × total` connection matrix, `total = in+out+maxHidden`; its innovation number is the index of that cell,
    `(dst-1)·total + (src-1)`; it is flagged recurrent exactly when `dst ≤ src`; it is enabled, its mutation number is its
    weight and it points to trait 1.  (`weq` is any reflexive comparison of scalars: the driver uses bit equality.) -/
theorem genomeRand_cells (weq : W → W → Bool) (hw : ∀ a, weq a a = true)
    (h : newGenomeRand newId nIn nOut n mH recurrent linkProb o rs = .ok (g, rs')) :
    RandCells weq ((nIn + nOut + mH : Nat) : Int) g := by
  intro x hx
  obtain ⟨i, j, hi, hj, hf⟩ := (newGenomeRand_facts newId nIn nOut n mH recurrent linkProb o rs rs' g h).1.cells x hx
  have h1 := hf.src
  have h2 := hf.dst
  have h3 := hf.inn
  refine ⟨by omega, by omega, by omega, by omega, ?_, ?_, hf.en, by rw [hf.mnum]; exact hw _, hf.trait⟩
  · rw [h1, h2, h3]
    have e1 : (((1 + i : Nat) : Int) - 1) = (i : Int) := by omega
    have e2 : (((1 + j : Nat) : Int) - 1) = (j : Int) := by omega
    rw [e1, e2]
    exact_mod_cast rfl
  · rw [hf.recur, h1, h2]
    by_cases hc : 1 + i > 1 + j
    · simp only [hc, decide_true, Bool.not_true]
      exact (decide_eq_false (by omega)).symm
    · simp only [hc, decide_false, Bool.not_false]
      exact (decide_eq_true (by omega)).symm

/-- **C01 (newGenomeRand, one gene per ordered pair).** No two genes join the same ordered pair of nodes (the matrix
    position determines the pair) - a fortiori no two genes are the same link (`LinksDistinct`). -/
theorem genomeRand_pairs_distinct (h : newGenomeRand newId nIn nOut n mH recurrent linkProb o rs = .ok (g, rs')) :
    PairsDistinct g.genes ∧ LinksDistinct g.genes := by
  have hs := genomeRand_genes_sorted newId nIn nOut n mH recurrent linkProb o rs rs' g h
  have hc := genomeRand_cells newId nIn nOut n mH recurrent linkProb o rs rs' g (fun _ _ => true) (fun _ => rfl) h
  have key : PairsDistinct g.genes := by
    unfold PairsDistinct
    unfold GenesSorted at hs
    refine hs.imp_of_mem (fun {a b} ha hb hlt heq => ?_)
    simp only [Prod.mk.injEq] at heq
    obtain ⟨_, _, _, _, ia, _⟩ := hc a ha
    obtain ⟨_, _, _, _, ib, _⟩ := hc b hb
    rw [ia, ib, heq.1, heq.2] at hlt
    exact Int.lt_irrefl _ hlt
  refine ⟨key, ?_⟩
  unfold LinksDistinct
  unfold PairsDistinct at key
  exact key.imp (fun {a b} hne heq => hne (by
    simp only [Gene.link, Prod.mk.injEq] at heq
    simp only [Prod.mk.injEq]; exact ⟨heq.1, heq.2.1⟩))

/-- **C01 (newGenomeRand, traits).** The genome owns exactly the dummy trait 1 (with `NumTraitParams` zero parameters), has no
    module, and every trait reference - of every node and every gene - is trait 1. -/
theorem genomeRand_traits (h : newGenomeRand newId nIn nOut n mH recurrent linkProb o rs = .ok (g, rs')) :
    g.traits = [{ id := 1, params := List.replicate numTraitParams zero }] ∧ RandTrait g ∧ TraitRefsOwned g ∧
      TraitsConsecutive g ∧ (∀ x ∈ g.genes, x.trait = some 1) ∧ (∀ m ∈ g.nodes, m.trait = some 1) ∧ g.id = newId := by
  have F := (newGenomeRand_facts newId nIn nOut n mH recurrent linkProb o rs rs' g h).1
  have hg : ∀ x ∈ g.genes, x.trait = some 1 := fun x hx => by
    obtain ⟨i, j, _, _, hf⟩ := F.cells x hx; exact hf.trait
  have hm : ∀ m ∈ g.nodes, m.trait = some 1 := fun m hm => (F.nodesFact m hm).1
  have hids : traitIds g = [1] := by unfold traitIds; rw [F.traits]; rfl
  refine ⟨F.traits, ⟨hids, by rw [F.modules]; rfl⟩, ⟨fun x hx => ?_, fun m hm' => ?_⟩, ?_, hg, hm, F.id⟩
  · rw [hg x hx]; unfold TraitRefOk; simp only [hids]; decide
  · rw [hm m hm']; unfold TraitRefOk; simp only [hids]; decide
  · unfold TraitsConsecutive; rw [F.traits]; simp only [traitIds, F.traits]; rfl

/-- **C01 (newGenomeRand).** All clauses of `WF` other than "has a gene" and "has an output". -/
theorem genomeRand_wfCore (hn : n ≤ mH) (h : newGenomeRand newId nIn nOut n mH recurrent linkProb o rs = .ok (g, rs')) :
    WFCore g :=
  { genesSorted := genomeRand_genes_sorted newId nIn nOut n mH recurrent linkProb o rs rs' g h
    linksDistinct := (genomeRand_pairs_distinct newId nIn nOut n mH recurrent linkProb o rs rs' g h).2
    nodesSorted := (genomeRand_nodes_sorted newId nIn nOut n mH recurrent linkProb o rs rs' g hn h).1
    endpoints := genomeRand_endpoints newId nIn nOut n mH recurrent linkProb o rs rs' g h
    traitRefs := (genomeRand_traits newId nIn nOut n mH recurrent linkProb o rs rs' g h).2.2.1
    noSensorTarget := genomeRand_noSensorTarget newId nIn nOut n mH recurrent linkProb o rs rs' g h
    traits := (genomeRand_traits newId nIn nOut n mH recurrent linkProb o rs rs' g h).2.2.2.1 }

/-- **C01 (newGenomeRand, well-formed iff it has a gene).** With `n ≤ maxHidden` and `out ≥ 1` the returned genome is
    well-formed (`WF`, the pool invariant of C01) exactly when its gene list is not empty. -/
theorem genomeRand_wf (hn : n ≤ mH) (ho : 1 ≤ nOut) (h : newGenomeRand newId nIn nOut n mH recurrent linkProb o rs = .ok (g, rs')) :
    WF g ↔ g.genes ≠ [] :=
  ⟨fun w => w.hasGene, fun hg =>
    (genomeRand_wfCore newId nIn nOut n mH recurrent linkProb o rs rs' g hn h).wf hg
      (genomeRand_hasOutput newId nIn nOut n mH recurrent linkProb o rs rs' g ho h)⟩

/-- **C01 (newGenomeRand, when there is no gene).** Exact characterisation: with `cm` the connection matrix drawn from the
    first `total²` values of `rand.Float64() < linkProb`, the gene list is empty iff no cell `(col, row)` with its bit set
    passes the guard of the Go code: `col > in`, `col` and `row` are ids of existing nodes (`≤ in+n` or `≥ in+maxHidden+1`),
    and `col > row` unless `recurrent`. -/
theorem genomeRand_genes_empty_iff (h : newGenomeRand newId nIn nOut n mH recurrent linkProb o rs = .ok (g, rs')) :
    ∃ cm rs1, drawMatrix linkProb ((nIn + nOut + mH) * (nIn + nOut + mH)) rs = .ok (cm, rs1) ∧
      cm.length = (nIn + nOut + mH) * (nIn + nOut + mH) ∧
      (g.genes = [] ↔ ∀ i j, i < nIn + nOut + mH → j < nIn + nOut + mH →
        ¬ (cm[i * (nIn + nOut + mH) + j]? = some true ∧ (randDims nIn nOut n mH).inMatrix (1 + i) (1 + j) = true ∧
           (1 + i > 1 + j ∨ recurrent = true))) := by
  obtain ⟨_, cm, rs1, hcm, he⟩ := newGenomeRand_facts newId nIn nOut n mH recurrent linkProb o rs rs' g h
  exact ⟨cm, rs1, hcm, drawMatrix_length _ _ _ _ _ hcm, he⟩

/-- **C01 (newGenomeRand, `recurrent = false`).** No gene is flagged recurrent and every gene runs from a smaller to a
    larger node id. -/
theorem genomeRand_nonrecurrent (hr : recurrent = false)
    (h : newGenomeRand newId nIn nOut n mH recurrent linkProb o rs = .ok (g, rs')) :
    ∀ x ∈ g.genes, x.recur = false ∧ x.src < x.dst := by
  intro x hx
  obtain ⟨i, j, _, _, hf⟩ := (newGenomeRand_facts newId nIn nOut n mH recurrent linkProb o rs rs' g h).1.cells x hx
  have ha := hf.allowed
  rw [hr] at ha
  have hgt : 1 + i > 1 + j := by
    rcases ha with ha | ha
    · exact ha
    · cases ha
  refine ⟨by rw [hf.recur]; simp [hgt], ?_⟩
  rw [hf.src, hf.dst]; omega

end

/-! ### non-vacuity and the negative facts, machine-checked on concrete runs (exact scalar type `Int`) -/

section Examples
open GoNeat.ExactInt

/-- options with the single activator 4 (no roulette draw) -/
def moR : MutOpts Int := ⟨0, 5, [4], [1], 0, 0, 0, 0, 0, 0, 0, 0, 0⟩

/-- the raw stream is irrelevant for `Int` (`ofUnit63 = 0`: every `Float64()` is 0) except for `RandSign` (parity) -/
def rsR : List Nat := List.replicate 40 1

/-- `in = 2, out = 1, n = 1, maxHidden = 1`, `linkProb = 1` (0 < 1: every bit set), recurrent: the model returns a genome;
    all hypotheses used above (`n ≤ maxHidden`, `out ≥ 1`) hold, it has genes, so it is `WF` -/
example : (match newGenomeRand 7 2 1 1 1 true (1 : Int) moR rsR with
  | .ok (g, _) => decide (WF g) && decide (g.genes.length = 8) && decide (nodeIds g = [1, 2, 3, 4]) &&
                  decide (g.genes.map (fun x => (x.inn, x.src, x.dst, x.recur)) =
                    [(8, 1, 3, false), (9, 2, 3, false), (10, 3, 3, true), (11, 4, 3, true),
                     (12, 1, 4, false), (13, 2, 4, false), (14, 3, 4, false), (15, 4, 4, true)])
  | _ => false) = true := by decide

/-- the same call with `recurrent = false`: only the five forward genes -/
example : (match newGenomeRand 7 2 1 1 1 false (1 : Int) moR rsR with
  | .ok (g, _) => decide (WF g) && decide (g.genes.map (fun x => (x.inn, x.src, x.dst, x.recur)) =
                    [(8, 1, 3, false), (9, 2, 3, false), (12, 1, 4, false), (13, 2, 4, false), (14, 3, 4, false)])
  | _ => false) = true := by decide

/-- **non-emptiness is NOT guaranteed**: with `linkProb = 0` the model returns a genome without any gene (which therefore is
    not `WF`), although all other clauses hold -/
theorem genomeRand_may_be_empty :
    (match newGenomeRand 7 2 1 1 1 true (0 : Int) moR rsR with
     | .ok (g, _) => decide (g.genes = []) && decide (¬ WF g) && decide (WFCore g) && decide (HasOutput g)
     | _ => false) = true := by decide

/-- **`n ≤ maxHidden` is necessary for unique node ids**: `n = 2 > maxHidden = 1` lists node id 4 twice (hidden and output) -/
theorem genomeRand_nodes_clash :
    (match newGenomeRand 7 2 1 2 1 true (0 : Int) moR rsR with
     | .ok (g, _) => decide (nodeIds g = [1, 2, 3, 4, 4]) && decide (¬ NodesSorted g.nodes)
     | _ => false) = true := by decide

end Examples

end GoNeat.C01
