/-
  Property C02, third part — the whole epoch (`NextEpoch` = prepare ; reproduce ; finalise) and any number of
  consecutive epochs: species ids stay unique and are never reused, ages step as the property says, the
  population keeps its size, partition and freshness.  Kind A.
-/
import GoNeat.Props.C02Ids
import GoNeat.Proofs.SortLemmas
import GoNeat.Proofs.ScalarInt

namespace GoNeat.C02
open GoNeat Scalar
variable {W : Type} [Scalar W]

/-! ### the preparation phase never changes a species' id, age or novel flag; it only drops species -/

theorem adjustFitness_key (o : EpochOpts W) (s s' : Species W) (h : adjustFitness o s = .ok s') : skey s' = skey s := by
  unfold adjustFitness at h
  simp only at h
  split at h
  · cases h
  · cases h; rfl

theorem adjustAll_keys (o : EpochOpts W) (ss ss' : List (Species W)) (h : adjustAll o ss = .ok ss') :
    ss'.map skey = ss.map skey := by
  induction ss generalizing ss' with
  | nil => simp only [adjustAll] at h; cases h; rfl
  | cons s ss ih =>
    simp only [adjustAll] at h
    split at h
    · cases h
    · rename_i s1 h1
      split at h
      · cases h
      · rename_i ss1 h2
        cases h
        simp [adjustFitness_key o s s1 h1, ih ss1 h2]

/-- id, age, novel flag, and for every member its allocation id and whether it is marked for elimination -/
def ukey (s : Species W) : (Int × Int × Bool) × List (Nat × Bool) := (skey s, s.orgs.map (fun x => (x.uid, x.toEliminate)))

theorem assignQuotas_keys (ss : List (Species W)) (skim : W) (tot : Int) :
    (assignQuotas ss skim tot).1.map ukey = ss.map ukey := by
  induction ss generalizing skim tot with
  | nil => rfl
  | cons s ss ih =>
    simp only [assignQuotas, List.map_cons]
    rw [ih]; rfl

omit [Scalar W] in
theorem map_keys_of_pres (ss : List (Species W)) (f : Species W → Species W) (hf : ∀ s, ukey (f s) = ukey s) :
    (ss.map f).map ukey = ss.map ukey := by
  simp [List.map_map, Function.comp_def, hf]

omit [Scalar W] in
theorem modify_keys_of_pres (ss : List (Species W)) (i : Nat) (f : Species W → Species W) (hf : ∀ s, ukey (f s) = ukey s) :
    (ss.modify i f).map ukey = ss.map ukey := by
  induction ss generalizing i with
  | nil => simp
  | cons s ss ih =>
    cases i with
    | zero => simp [List.modify, hf]
    | succ i => simp [List.modify_succ_cons, ih]

omit [Scalar W] in
theorem fixupQuotas_keys (ss : List (Species W)) (a b : Int) : (fixupQuotas ss a b).map ukey = ss.map ukey := by
  unfold fixupQuotas
  split
  · split
    · rfl
    · split
      · exact (modify_keys_of_pres _ _ _ (by intro s; rfl)).trans (map_keys_of_pres _ _ (by intro s; rfl))
      · exact modify_keys_of_pres _ _ _ (by intro s; rfl)
  · rfl

theorem purgeZero_keys (p : Pop W) :
    ((purgeZeroOffspringSpecies p).species.map ukey).Sublist (p.species.map ukey) ∧
    (purgeZeroOffspringSpecies p).lastSpecies = p.lastSpecies ∧ (purgeZeroOffspringSpecies p).organisms = p.organisms := by
  unfold purgeZeroOffspringSpecies
  simp only
  refine ⟨?_, trivial, trivial⟩
  refine (List.Sublist.map _ List.filter_sublist).trans ?_
  rw [fixupQuotas_keys, assignQuotas_keys]
  rw [map_keys_of_pres _ _ (by
    intro s
    simp only [ukey, skey, List.map_map, Prod.mk.injEq, true_and]
    apply List.map_congr_left
    intro x _
    simp only [Function.comp]
    split <;> rfl)]
  exact List.Sublist.refl _

omit [Scalar W] in
theorem setTopOrg_key (s : Species W) (f : Org W → Org W) (hf : ∀ t, (f t).uid = t.uid ∧ (f t).toEliminate = t.toEliminate) :
    ukey (setTopOrg s f) = ukey s := by
  unfold setTopOrg; split
  · rfl
  · rename_i o os h; simp [ukey, skey, h, (hf o).1, (hf o).2]

theorem deltaCoding_keys (sorted l : List (Species W)) (o : EpochOpts W) (h : deltaCoding sorted o = .ok l) :
    l.map ukey = sorted.map ukey := by
  unfold deltaCoding at h
  simp only at h
  split at h
  · cases h
  · split at h
    · cases h
    · cases h
      simp only [List.map_cons, List.map_nil, List.cons.injEq, and_true]
      exact setTopOrg_key _ _ (by intro t; exact ⟨rfl, rfl⟩)
  · split at h
    · cases h
    · cases h
      simp only [List.map_cons, List.map_map]
      congr 1
      · exact setTopOrg_key _ _ (by intro t; exact ⟨rfl, rfl⟩)
      · congr 1
        · exact setTopOrg_key _ _ (by intro t; exact ⟨rfl, rfl⟩)


omit [Scalar W] in
theorem stealLoop_keys (bs : Int) (l : List (Species W)) (stolen : Int) :
    (stealLoop bs l stolen).1.map ukey = l.map ukey := by
  induction l generalizing stolen with
  | nil => rfl
  | cons s ss ih =>
    unfold stealLoop
    split
    · split
      · split
        · simp only [List.map_cons, ih]; rfl
        · simp only [List.map_cons, ih]; rfl
      · simp only [List.map_cons, ih]
    · rfl

theorem giveLoop_keys (o : EpochOpts W) (blocks : List Int) (l l' : List (Species W)) (bi : Nat) (stolen left : Int)
    (rs rs' : List Nat) (h : giveLoop o blocks l bi stolen rs = .ok ((l', left), rs')) : l'.map ukey = l.map ukey := by
  induction l generalizing l' bi stolen left rs rs' with
  | nil => simp only [giveLoop, Except.ok.injEq, Prod.mk.injEq] at h; obtain ⟨⟨rfl, _⟩, _⟩ := h; rfl
  | cons s ss ih =>
    unfold giveLoop at h
    split at h
    · split at h
      · cases h
      · rename_i rest st rs1 hrec
        simp only [Except.ok.injEq, Prod.mk.injEq] at h
        obtain ⟨⟨rfl, _⟩, _⟩ := h
        simp [ih _ _ _ _ _ _ hrec]
    · simp only at h
      split at h
      · cases h
      · rename_i s' st rs1 hstep
        have hk : ukey s' = ukey s := by
          split at hstep
          · simp only [Except.ok.injEq, Prod.mk.injEq] at hstep
            obtain ⟨⟨rfl, _⟩, _⟩ := hstep
            exact setTopOrg_key _ _ (by intro t; exact ⟨rfl, rfl⟩)
          · split at hstep
            · split at hstep
              · cases hstep
              · split at hstep
                · split at hstep
                  · simp only [Except.ok.injEq, Prod.mk.injEq] at hstep
                    obtain ⟨⟨rfl, _⟩, _⟩ := hstep
                    exact setTopOrg_key _ _ (by intro t; exact ⟨rfl, rfl⟩)
                  · simp only [Except.ok.injEq, Prod.mk.injEq] at hstep
                    obtain ⟨⟨rfl, _⟩, _⟩ := hstep
                    exact setTopOrg_key _ _ (by intro t; exact ⟨rfl, rfl⟩)
                · simp only [Except.ok.injEq, Prod.mk.injEq] at hstep
                  obtain ⟨⟨rfl, _⟩, _⟩ := hstep
                  rfl
            · simp only [Except.ok.injEq, Prod.mk.injEq] at hstep
              obtain ⟨⟨rfl, _⟩, _⟩ := hstep
              rfl
        split at h
        · simp only [Except.ok.injEq, Prod.mk.injEq] at h
          obtain ⟨⟨rfl, _⟩, _⟩ := h
          simp [hk]
        · split at h
          · cases h
          · rename_i rest st' rs2 hrec
            simp only [Except.ok.injEq, Prod.mk.injEq] at h
            obtain ⟨⟨rfl, _⟩, _⟩ := h
            simp [hk, ih _ _ _ _ _ _ hrec]

theorem giveBabies_keys (sorted l : List (Species W)) (o : EpochOpts W) (rs rs' : List Nat)
    (h : giveBabiesToTheBest sorted o rs = .ok (l, rs')) : l.map ukey = sorted.map ukey := by
  unfold giveBabiesToTheBest at h
  simp only at h
  split at h
  · cases h
  · rename_i l1 left rs1 hgive
    have h1 := giveLoop_keys _ _ _ _ _ _ _ _ _ hgive
    have h2 : ((stealLoop o.babiesStolen sorted.reverse 0).1.reverse).map ukey = sorted.map ukey := by
      rw [List.map_reverse, stealLoop_keys, List.map_reverse, List.reverse_reverse]
    split at h
    · split at h
      · cases h
      · split at h
        · cases h
        · simp only [Except.ok.injEq, Prod.mk.injEq] at h
          obtain ⟨rfl, _⟩ := h
          rw [← h2, ← h1]
          simp only [List.map_cons, List.cons.injEq, and_true]
          exact setTopOrg_key _ _ (by intro t; exact ⟨rfl, rfl⟩)
    · simp only [Except.ok.injEq, Prod.mk.injEq] at h
      obtain ⟨rfl, _⟩ := h
      rw [h1, h2]


theorem nodup_map_inj {α β : Type} (f : α → β) {l : List α} (hnd : (l.map f).Nodup) {x y : α} (hx : x ∈ l) (hy : y ∈ l)
    (h : f x = f y) : x = y := by
  induction l with
  | nil => cases hx
  | cons a as ih =>
    simp only [List.map_cons, List.nodup_cons, List.mem_map, not_exists, not_and] at hnd
    rcases List.mem_cons.mp hx with rfl | hx' <;> rcases List.mem_cons.mp hy with rfl | hy'
    · rfl
    · exact absurd h.symm (hnd.1 y hy')
    · exact absurd h (hnd.1 x hx')
    · exact ih hnd.2 hx' hy'

omit [Scalar W] in
theorem writeBack_keys (species updated : List (Species W)) (hnd : (species.map (·.id)).Nodup)
    (hperm : (updated.map ukey).Perm (species.map ukey)) : (writeBack species updated).map ukey = species.map ukey := by
  unfold writeBack
  rw [List.map_map]
  apply List.map_congr_left
  intro s hs
  simp only [Function.comp]
  cases hf : updated.find? (fun x => x.id == s.id) with
  | none => rfl
  | some x =>
    simp only [Option.getD_some]
    have hx : x ∈ updated := List.mem_of_find?_eq_some hf
    have hid : x.id = s.id := by
      have := List.find?_some hf
      simpa using this
    have : ukey x ∈ species.map ukey := hperm.mem_iff.mp (List.mem_map_of_mem hx)
    obtain ⟨s', hs', e⟩ := List.mem_map.mp this
    have hid' : s'.id = s.id := by
      have := congrArg (fun k => k.1.1) e
      simp only [ukey, skey] at this
      rw [this, hid]
    have : s' = s := nodup_map_inj (·.id) hnd hs' hs hid'
    rw [← e, this]

theorem skeys_of_ukeys (a : List (Species W)) : a.map skey = (a.map ukey).map (·.1) := by
  simp [ukey, Function.comp_def]

theorem uids_of_ukeys (a : List (Species W)) : orgUids a = (a.map ukey).flatMap (fun k => k.2.map (·.1)) := by
  simp [ukey, orgUids, List.flatMap_map, Function.comp_def]

theorem ids_sublist_of_keys {a b : List (Species W)} (h : (a.map skey).Sublist (b.map skey)) :
    (a.map (·.id)).Sublist (b.map (·.id)) := by
  rw [ids_of_keys a, ids_of_keys b]
  exact h.map _

omit [Scalar W] in
theorem map_skeys_of_pres (ss : List (Species W)) (f : Species W → Species W) (hf : ∀ s, skey (f s) = skey s) :
    (ss.map f).map skey = ss.map skey := by
  simp [List.map_map, Function.comp_def, hf]

theorem redistribute_keys (sorted1 : List (Species W)) (o : EpochOpts W) (e : Int) (rs : List Nat)
    (sorted2 : List (Species W)) (ehlc : Int) (rs1 : List Nat)
    (h : (if e ≥ o.dropOffAge + 5 then
            match deltaCoding sorted1 o with
            | .error er => .error er
            | .ok l => .ok ((l, 0), rs)
          else if o.babiesStolen > 0 then
            match giveBabiesToTheBest sorted1 o rs with
            | .error er => .error er
            | .ok (l, rs') => .ok ((l, e), rs')
          else .ok ((sorted1, e), rs) : R (List (Species W) × Int)) = .ok ((sorted2, ehlc), rs1)) :
    sorted2.map ukey = sorted1.map ukey := by
  split at h
  · split at h
    · cases h
    · rename_i l hd
      simp only [Except.ok.injEq, Prod.mk.injEq] at h
      obtain ⟨⟨rfl, _⟩, _⟩ := h
      exact deltaCoding_keys _ _ _ hd
  · split at h
    · split at h
      · cases h
      · rename_i l rs2 hg
        simp only [Except.ok.injEq, Prod.mk.injEq] at h
        obtain ⟨⟨rfl, _⟩, _⟩ := h
        exact giveBabies_keys _ _ _ _ _ hg
    · simp only [Except.ok.injEq, Prod.mk.injEq] at h
      obtain ⟨⟨rfl, _⟩, _⟩ := h
      rfl

omit [Scalar W] in
theorem markOrgs_uids (n : Int) (l : List (Org W)) (i : Nat) : (markOrgs n l i).map (·.uid) = l.map (·.uid) := by
  induction l generalizing i with
  | nil => rfl
  | cons x xs ih => simp [markOrgs, ih]

theorem adjustFitness_uids (o : EpochOpts W) (s s' : Species W) (h : adjustFitness o s = .ok s') :
    (s'.orgs.map (·.uid)).Perm (s.orgs.map (·.uid)) := by
  unfold adjustFitness at h
  simp only at h
  split at h
  · cases h
  · rename_i top rest hsort
    cases h
    simp only [markOrgs_uids]
    unfold sortOrgsDesc
    refine ((goSort_perm _ _).map _).trans ?_
    rw [List.map_map]
    exact List.Perm.of_eq (List.map_congr_left (by intro x _; rfl))

theorem adjustAll_uids (o : EpochOpts W) (ss ss' : List (Species W)) (h : adjustAll o ss = .ok ss') :
    (orgUids ss').Perm (orgUids ss) := by
  induction ss generalizing ss' with
  | nil => simp only [adjustAll] at h; cases h; exact List.Perm.refl _
  | cons s ss ih =>
    simp only [adjustAll] at h
    split at h
    · cases h
    · rename_i s1 h1
      split at h
      · cases h
      · rename_i ss1 h2
        cases h
        simp only [orgUids_cons]
        exact (adjustFitness_uids o s s1 h1).append (ih ss1 h2)

/-- the preparation phase (fitness adjustment, quotas, zero-quota purge, sorting, stolen babies / delta coding,
    removal of the organisms marked for elimination) keeps id, age and novel flag of every species it keeps, only
    removes organisms, and removes the same organisms from the population's list as from the species -/
theorem prepare_spec_full (o : EpochOpts W) (p p1 : Pop W) (ex : ExecState) (rs rs' : List Nat)
    (hnd : (p.species.map (·.id)).Nodup) (h : prepareForReproduction o p rs = .ok ((p1, ex), rs')) :
    p1.lastSpecies = p.lastSpecies ∧ p1.nextUid = p.nextUid ∧
    ∃ (doomed : List Nat) (mid : List (Species W)),
      p1.organisms = p.organisms.filter (fun u => !doomed.contains u) ∧
      (mid.map skey).Sublist (p.species.map skey) ∧ (∀ u ∈ orgUids mid, u ∈ orgUids p.species) ∧
      p1.species = mid.map (fun s => { s with orgs := s.orgs.filter (fun x => !doomed.contains x.uid) }) ∧
      ∃ (species1 : List (Species W)) (pre : Pop W), adjustAll o p.species = .ok species1 ∧
        (mid.map ukey).Sublist (species1.map ukey) ∧ pre.species = mid ∧ pre.organisms = p.organisms ∧
        doomed = (pre.orgList.filter (·.toEliminate)).map (·.uid) := by
  unfold prepareForReproduction at h
  split at h
  · cases h
  · rename_i species1 hadj
    have hk1 := adjustAll_keys o _ _ hadj
    have hu1 := adjustAll_uids o _ _ hadj
    simp only at h
    obtain ⟨hz1, hz2, hz3⟩ := purgeZero_keys ({ p with species := species1 } : Pop W)
    simp only at hz1 hz2 hz3
    generalize hpz : purgeZeroOffspringSpecies ({ p with species := species1 } : Pop W) = pz at h hz1 hz2 hz3
    have hnz : pz.nextUid = p.nextUid := by rw [← hpz]; rfl
    split at h
    · cases h
    · rename_i best tail hsorted
      split at h
      · cases h
      · rename_i top htop
        split at h
        · cases h
        · rename_i sorted2 ehlc rs1 hred
          simp only [Except.ok.injEq, Prod.mk.injEq] at h
          obtain ⟨⟨rfl, _⟩, _⟩ := h
          have hsorted1 : ((setTopOrg best (fun t => { t with isPopChampion := true }) :: (sortSpeciesDesc pz.species).tail).map ukey).Perm
              (pz.species.map ukey) := by
            rw [hsorted]
            simp only [List.tail_cons, List.map_cons]
            rw [setTopOrg_key _ _ (by intro t; exact ⟨rfl, rfl⟩)]
            have := (goSort_perm (fun a b => speciesLess b a) pz.species).map ukey
            unfold sortSpeciesDesc at hsorted
            rw [hsorted] at this
            simpa using this
          have hk2 : sorted2.map ukey =
              (setTopOrg best (fun t => { t with isPopChampion := true }) :: (sortSpeciesDesc pz.species).tail).map ukey :=
            redistribute_keys _ _ _ _ _ _ _ hred
          have hzs : (pz.species.map skey).Sublist (p.species.map skey) := by
            rw [← hk1, skeys_of_ukeys, skeys_of_ukeys species1]
            exact hz1.map _
          have hndz : (pz.species.map (·.id)).Nodup := (ids_sublist_of_keys hzs).nodup hnd
          have hwb := writeBack_keys pz.species sorted2 hndz (hk2 ▸ hsorted1)
          refine ⟨hz2, hnz, _, writeBack pz.species sorted2, ?_, ?_, ?_, rfl, species1, _, hadj, ?_, rfl, ?_, rfl⟩
          rotate_left 3
          · rw [hwb]; exact hz1
          · exact hz3
          · simp only [purgeOrganisms]; rw [hz3]
          · rw [skeys_of_ukeys, hwb, ← skeys_of_ukeys]; exact hzs
          · intro u hu
            rw [uids_of_ukeys, hwb, ← uids_of_ukeys] at hu
            have : u ∈ orgUids species1 := by
              rw [uids_of_ukeys] at hu ⊢
              obtain ⟨k, hk, huk⟩ := List.mem_flatMap.mp hu
              exact List.mem_flatMap.mpr ⟨k, hz1.subset hk, huk⟩
            exact hu1.subset this

theorem prepare_spec (o : EpochOpts W) (p p1 : Pop W) (ex : ExecState) (rs rs' : List Nat)
    (hnd : (p.species.map (·.id)).Nodup) (h : prepareForReproduction o p rs = .ok ((p1, ex), rs')) :
    p1.lastSpecies = p.lastSpecies ∧ p1.nextUid = p.nextUid ∧
    ∃ (doomed : List Nat) (mid : List (Species W)),
      p1.organisms = p.organisms.filter (fun u => !doomed.contains u) ∧
      (mid.map skey).Sublist (p.species.map skey) ∧ (∀ u ∈ orgUids mid, u ∈ orgUids p.species) ∧
      p1.species = mid.map (fun s => { s with orgs := s.orgs.filter (fun x => !doomed.contains x.uid) }) := by
  obtain ⟨a, b, doomed, mid, c, d, e, f, _⟩ := prepare_spec_full o p p1 ex rs rs' hnd h
  exact ⟨a, b, doomed, mid, c, d, e, f⟩

/-- **C02 (species over one whole epoch).** For every population whose species ids are unique and not above
    `LastSpecies`, every stream, registry and option setting: if `NextEpoch` returns, species ids are again unique
    and not above `LastSpecies`, which never decreases; every species of the new generation is either a survivor
    with its old id and exactly one generation older (a species still flagged as founded at construction keeps its
    age), or was founded during this turnover with a fresh id — above every id ever issued before — and age one. -/
theorem nextEpoch_species (o : EpochOpts W) (gen : Int) (p p' : Pop W) (rs rs' : List Nat)
    (hinv : SpIdInv p) (h : nextEpoch o gen p rs = .ok (p', rs')) :
    SpIdInv p' ∧ p.lastSpecies ≤ p'.lastSpecies ∧
    ∀ s' ∈ p'.species, s'.isNovel = false ∧
      ((∃ s ∈ p.species, s'.id = s.id ∧ s'.age = (if s.isNovel then s.age else s.age + 1)) ∨
       (p.lastSpecies < s'.id ∧ s'.id ≤ p'.lastSpecies ∧ s'.age = 1)) := by
  unfold nextEpoch at h
  split at h
  · cases h
  · rename_i p1 ex rs1 hprep
    split at h
    · cases h
    · rename_i p2 rs2 hrep
      simp only [Except.ok.injEq, Prod.mk.injEq] at h
      obtain ⟨rfl, _⟩ := h
      obtain ⟨hlast, _, doomed, mid, _, hsub0, _, hsp⟩ := prepare_spec o p p1 ex rs rs1 hinv.nodup hprep
      have hsub : (p1.species.map skey).Sublist (p.species.map skey) := by
        rw [hsp, map_skeys_of_pres _ _ (by intro s; rfl)]; exact hsub0
      have hinv1 : SpIdInv p1 := by
        refine ⟨(ids_sublist_of_keys hsub).nodup hinv.nodup, ?_⟩
        intro s hs
        have : skey s ∈ p.species.map skey := hsub.subset (List.mem_map_of_mem hs)
        obtain ⟨s0, hs0, e⟩ := List.mem_map.mp this
        have := hinv.le s0 hs0
        have e1 := congrArg Prod.fst e
        simp only [skey] at e1
        rw [hlast, ← e1]; exact this
      obtain ⟨h1, h2, h3⟩ := reproduce_finalize_species o gen p1 p2 ex rs1 rs2 hinv1 hrep
      refine ⟨h1, by rw [← hlast]; exact h2, ?_⟩
      intro s' hs'
      obtain ⟨hn, hcase⟩ := h3 s' hs'
      refine ⟨hn, ?_⟩
      rcases hcase with ⟨s, hs, e1, e2⟩ | hnew
      · left
        have : skey s ∈ p.species.map skey := hsub.subset (List.mem_map_of_mem hs)
        obtain ⟨s0, hs0, e⟩ := List.mem_map.mp this
        simp only [skey, Prod.mk.injEq] at e
        exact ⟨s0, hs0, by rw [e1, e.1], by rw [e2, e.2.1, e.2.2]⟩
      · right; rw [← hlast]; exact hnew


/-! ### the allocation discipline is an invariant of the whole epoch -/

theorem prepare_uidInv (o : EpochOpts W) (p p1 : Pop W) (ex : ExecState) (rs rs' : List Nat)
    (hnd : (p.species.map (·.id)).Nodup) (hinv : UidInv p) (h : prepareForReproduction o p rs = .ok ((p1, ex), rs')) :
    UidInv p1 ∧ ∀ u ∈ p1.organisms, u ∈ p.organisms := by
  obtain ⟨_, hnu, doomed, mid, horg, _, hmid, hsp⟩ := prepare_spec o p p1 ex rs rs' hnd h
  have hsub : ∀ u ∈ p1.organisms, u ∈ p.organisms := by
    intro u hu; rw [horg] at hu; exact (List.mem_filter.mp hu).1
  refine ⟨⟨?_, ?_⟩, hsub⟩
  · intro u hu
    rw [hsp] at hu
    simp only [orgUids, List.mem_flatMap, List.mem_map] at hu
    obtain ⟨s', ⟨s, hs, rfl⟩, x, hxf, rfl⟩ := hu
    simp only [List.mem_filter] at hxf
    obtain ⟨hx, hnd'⟩ := hxf
    have hum : x.uid ∈ orgUids mid := by
      simp only [orgUids, List.mem_flatMap, List.mem_map]
      exact ⟨s, hs, x, hx, rfl⟩
    rw [horg, List.mem_filter]
    exact ⟨hinv.listed _ (hmid _ hum), hnd'⟩
  · intro u hu
    rw [hnu]; exact hinv.below u (hsub u hu)

theorem reproduce_finalize_uidInv (o : EpochOpts W) (gen : Int) (p1 p2 : Pop W) (ex : ExecState) (rs rs' : List Nat)
    (hinv : UidInv p1) (h : reproducePhase o gen p1 ex rs = .ok (p2, rs')) : UidInv (finalizeReproduction p2) := by
  obtain ⟨_, _, hpart, _, _⟩ := reproduce_finalize_popInv o gen p1 p2 ex rs rs' hinv h
  refine ⟨by intro u hu; rw [hpart]; exact hu, ?_⟩
  unfold reproducePhase at h
  simp only at h
  split at h
  · cases h
  · rename_i babies reg uid rs1 hall
    split at h
    · cases h
    · split at h
      · cases h
      · rename_i p2' hsp
        simp only [Except.ok.injEq, Prod.mk.injEq] at h
        obtain ⟨rfl, _⟩ := h
        obtain ⟨_, hlt, hge⟩ := reproduceAll_uids o gen _ _ _ _ _ _ [] babies _ _ hall (by simp) (by simp)
        unfold speciate at hsp
        split at hsp
        · cases hsp
        · obtain ⟨hperm, horg, hnext⟩ := speciateLoop_uids o _ _ _ hsp
          simp only at hperm horg hnext
          obtain ⟨f1, _, f3, _⟩ := finalize_spec p2'
          intro u hu
          have hnu : (finalizeReproduction p2').nextUid = p2'.nextUid := rfl
          rw [hnu, hnext]
          rw [f1, f3, List.mem_filter] at hu
          obtain ⟨hu1, hu2⟩ := hu
          rw [horg] at hu2
          rcases List.mem_append.mp (hperm.mem_iff.mp hu1) with hb | hold
          · exact hlt u hb
          · have := hinv.listed u hold
            simp [this] at hu2

/-- **C02 (one whole epoch).** For every population with `PopSize` organisms allocated consistently and unique species
    ids, every stream, registry and option setting: if `NextEpoch` returns, the new population holds exactly
    `PopSize` organisms, each listed by exactly one species (duplicate-free concatenation), no species is empty, no
    organism of the previous generation is left, genome ids are 0…n−1, species ids are unique, fresh ones are above
    every id issued before, ages step as the property says — and the result satisfies the same invariant again. -/
theorem nextEpoch_popInv (o : EpochOpts W) (gen : Int) (p p' : Pop W) (rs rs' : List Nat)
    (hu : UidInv p) (hs : SpIdInv p) (h : nextEpoch o gen p rs = .ok (p', rs')) :
    (p'.organisms.length = o.popSize ∧ p'.organisms.Nodup ∧ p'.organisms = orgUids p'.species ∧
     (∀ s ∈ p'.species, s.orgs ≠ []) ∧ (∀ u ∈ p'.organisms, u ∉ p.organisms) ∧ (genomeIds p'.species).Nodup) ∧
    UidInv p' ∧ SpIdInv p' := by
  have hspec := nextEpoch_species o gen p p' rs rs' hs h
  unfold nextEpoch at h
  split at h
  · cases h
  · rename_i p1 ex rs1 hprep
    split at h
    · cases h
    · rename_i p2 rs2 hrep
      simp only [Except.ok.injEq, Prod.mk.injEq] at h
      obtain ⟨rfl, _⟩ := h
      obtain ⟨hu1, hsub⟩ := prepare_uidInv o p p1 ex rs rs1 hs.nodup hu hprep
      obtain ⟨a1, a2, a3, a4, a5⟩ := reproduce_finalize_popInv o gen p1 p2 ex rs1 rs2 hu1 hrep
      refine ⟨⟨a1, a2, a3, a4, ?_, (finalize_genomeIds p2).2⟩, reproduce_finalize_uidInv o gen p1 p2 ex rs1 rs2 hu1 hrep, hspec.1⟩
      intro u hu' hmem
      -- an organism of the new generation has an allocation id at or above the old counter
      have hb := hu.below u hmem
      have hnew : p.nextUid ≤ u := by
        have hnu : p1.nextUid = p.nextUid := (prepare_spec o p p1 ex rs rs1 hs.nodup hprep).2.1
        unfold reproducePhase at hrep
        simp only at hrep
        split at hrep
        · cases hrep
        · rename_i babies reg uid rs3 hall
          split at hrep
          · cases hrep
          · split at hrep
            · cases hrep
            · rename_i p2' hsp
              simp only [Except.ok.injEq, Prod.mk.injEq] at hrep
              obtain ⟨rfl, _⟩ := hrep
              obtain ⟨_, _, hge⟩ := reproduceAll_uids o gen _ _ _ _ _ _ [] babies _ _ hall (by simp) (by simp)
              unfold speciate at hsp
              split at hsp
              · cases hsp
              · obtain ⟨hperm, horg, _⟩ := speciateLoop_uids o _ _ _ hsp
                simp only at hperm horg
                obtain ⟨f1, _, f3, _⟩ := finalize_spec p2'
                rw [f1, f3, List.mem_filter] at hu'
                obtain ⟨hu1', hu2'⟩ := hu'
                rw [horg] at hu2'
                rcases List.mem_append.mp (hperm.mem_iff.mp hu1') with hb' | hold
                · rcases hge u hb' with h0 | h0
                  · simp at h0
                  · omega
                · have := hu1.listed u hold
                  simp [this] at hu2'
      omega


/-! ### any number of consecutive epochs, with arbitrary evaluations in between -/

/-- what an evaluation between two epochs may not change: which organisms exist, where they are, and the species' ids,
    ages and flags (it assigns fitness values and the like) -/
def SameShape (p q : Pop W) : Prop :=
  q.organisms = p.organisms ∧ q.nextUid = p.nextUid ∧ q.lastSpecies = p.lastSpecies ∧ q.species.map ukey = p.species.map ukey

/-- `k` evaluated generations: evaluate, turn over, evaluate, turn over, … -/
def runEpochs (o : EpochOpts W) : List (Pop W → Pop W) → Int → Pop W → Rand (Pop W)
  | [], _, p, rs => .ok (p, rs)
  | ev :: evs, gen, p, rs =>
    match nextEpoch o gen (ev p) rs with
    | .error e => .error e
    | .ok (p', rs') => runEpochs o evs (gen + 1) p' rs'

theorem sameShape_inv (p q : Pop W) (h : SameShape p q) (hu : UidInv p) (hs : SpIdInv p) : UidInv q ∧ SpIdInv q := by
  obtain ⟨h1, h2, h3, h4⟩ := h
  have hids : q.species.map (·.id) = p.species.map (·.id) := by
    rw [ids_of_keys, ids_of_keys p.species, skeys_of_ukeys, skeys_of_ukeys p.species, h4]
  refine ⟨⟨?_, ?_⟩, ⟨by rw [hids]; exact hs.nodup, ?_⟩⟩
  · intro u hu'
    rw [uids_of_ukeys, h4, ← uids_of_ukeys] at hu'
    rw [h1]; exact hu.listed u hu'
  · intro u hu'; rw [h1] at hu'; rw [h2]; exact hu.below u hu'
  · intro s hs'
    have : s.id ∈ p.species.map (·.id) := hids ▸ List.mem_map_of_mem hs'
    obtain ⟨s0, hs0, e⟩ := List.mem_map.mp this
    rw [h3, ← e]; exact hs.le s0 hs0

/-- **C02 (any number of consecutive epochs).** Starting from a consistently allocated population with unique
    species ids, after any number of evaluated generations — whatever fitness values the evaluations assign, for every
    stream and option setting — the invariant holds again, `LastSpecies` has not decreased, and (if at least one epoch
    ran) the population holds exactly `PopSize` organisms partitioned into non-empty species, with unique genome ids. -/
theorem runEpochs_inv (o : EpochOpts W) (evs : List (Pop W → Pop W)) (gen : Int) (p p' : Pop W) (rs rs' : List Nat)
    (hev : ∀ ev ∈ evs, ∀ q, SameShape q (ev q)) (hu : UidInv p) (hs : SpIdInv p)
    (h : runEpochs o evs gen p rs = .ok (p', rs')) :
    UidInv p' ∧ SpIdInv p' ∧ p.lastSpecies ≤ p'.lastSpecies ∧
    (evs ≠ [] → p'.organisms.length = o.popSize ∧ p'.organisms.Nodup ∧ p'.organisms = orgUids p'.species ∧
      (∀ s ∈ p'.species, s.orgs ≠ []) ∧ (genomeIds p'.species).Nodup) := by
  induction evs generalizing gen p rs with
  | nil =>
    simp only [runEpochs, Except.ok.injEq, Prod.mk.injEq] at h
    obtain ⟨rfl, _⟩ := h
    exact ⟨hu, hs, Int.le_refl _, by intro h; exact absurd rfl h⟩
  | cons ev evs ih =>
    simp only [runEpochs] at h
    split at h
    · cases h
    · rename_i p1 rs1 h1
      have hsh := hev ev (by simp) p
      obtain ⟨hu0, hs0⟩ := sameShape_inv p (ev p) hsh hu hs
      obtain ⟨⟨a1, a2, a3, a4, _, a6⟩, hu1, hs1⟩ := nextEpoch_popInv o gen (ev p) p1 rs rs1 hu0 hs0 h1
      have hl1 := (nextEpoch_species o gen (ev p) p1 rs rs1 hs0 h1).2.1
      obtain ⟨b1, b2, b3, b4⟩ := ih (gen + 1) p1 rs1 (fun e he => hev e (by simp [he])) hu1 hs1 h
      refine ⟨b1, b2, ?_, ?_⟩
      · have := hsh.2.2.1; omega
      · intro _
        cases evs with
        | nil =>
          simp only [runEpochs, Except.ok.injEq, Prod.mk.injEq] at h
          obtain ⟨rfl, _⟩ := h
          exact ⟨a1, a2, a3, a4, a6⟩
        | cons e2 es => exact b4 (by simp)

/-! ### spawning establishes the invariant -/

theorem spawnLoop_uids (g : Genome W) (n : Nat) (count : Int) (uid : Nat) (orgs : List (Org W)) (rs rs' : List Nat)
    (h : spawnLoop g n count uid rs = .ok (orgs, rs')) : orgs.map (·.uid) = (List.range n).map (· + uid) := by
  induction n generalizing count uid orgs rs rs' with
  | zero => simp only [spawnLoop, Except.ok.injEq, Prod.mk.injEq] at h; obtain ⟨rfl, _⟩ := h; rfl
  | succ n ih =>
    simp only [spawnLoop] at h
    split at h
    · cases h
    · split at h
      · cases h
      · split at h
        · cases h
        · rename_i rest rs2 hrest
          simp only [Except.ok.injEq, Prod.mk.injEq] at h
          obtain ⟨rfl, _⟩ := h
          rw [List.range_succ_eq_map]
          simp only [List.map_cons, List.map_map, ih _ _ _ _ _ hrest, newOrganism, Nat.zero_add, List.cons.injEq, true_and]
          apply List.map_congr_left
          intro a _; simp only [Function.comp]; omega

/-- **C02 (construction).** A spawned population holds exactly `PopSize` organisms, every one of them listed by
    a species, species ids unique: the invariant the epoch theorems start from. -/
theorem spawn_inv (o : EpochOpts W) (g : Genome W) (p : Pop W) (rs rs' : List Nat) (h : spawn o g rs = .ok (p, rs')) :
    UidInv p ∧ SpIdInv p ∧ p.organisms.length = o.popSize ∧ (orgUids p.species).Perm p.organisms := by
  unfold spawn at h
  split at h
  · cases h
  · split at h
    · cases h
    · rename_i orgs rs1 hloop
      split at h
      · cases h
      · split at h
        · cases h
        · simp only at h
          split at h
          · cases h
          · rename_i p1 hsp
            simp only [Except.ok.injEq, Prod.mk.injEq] at h
            obtain ⟨rfl, _⟩ := h
            have huids := spawnLoop_uids g _ _ _ _ _ _ hloop
            unfold speciate at hsp
            split at hsp
            · cases hsp
            · obtain ⟨hperm, horg, hnext⟩ := speciateLoop_uids o _ _ _ hsp
              obtain ⟨hid, _⟩ := speciateLoop_idInv o _ _ _ hsp ⟨by simp, by simp⟩
              simp only [orgUids_nil, List.append_nil] at hperm horg hnext
              refine ⟨⟨?_, ?_⟩, hid, ?_, ?_⟩
              · intro u hu; rw [horg]; exact hperm.mem_iff.mp hu
              · intro u hu
                rw [horg, huids] at hu
                obtain ⟨i, hi, rfl⟩ := List.mem_map.mp hu
                rw [hnext]; have := List.mem_range.mp hi; omega
              · rw [horg, List.length_map]
                have := congrArg List.length huids
                simpa using this
              · rw [horg]; exact hperm


/-! ### the join of the parallel executor: whatever order the babies arrive in -/

/-- **C02 / C16 (size and partition for ANY batch of fresh babies).** Speciating any list of `PopSize` organisms with
    pairwise distinct, fresh allocation ids into a consistently allocated population and finalising yields exactly
    `PopSize` organisms, each listed by exactly one species, no empty species, none from the previous generation,
    unique genome ids, unique species ids. This is the argument for the parallel executor: its babies arrive over a
    channel in an arbitrary order and are decoded into fresh objects; the theorem does not care which order. -/
theorem speciate_finalize_popInv (o : EpochOpts W) (p1 p2 : Pop W) (babies : List (Org W))
    (hu : UidInv p1) (hs : SpIdInv p1) (hnd : (babies.map (·.uid)).Nodup) (hfresh : ∀ u ∈ babies.map (·.uid), p1.nextUid ≤ u)
    (hlen : babies.length = o.popSize) (hsp : speciate o p1 babies = .ok p2) :
    let p3 := finalizeReproduction p2
    p3.organisms.length = o.popSize ∧ p3.organisms.Nodup ∧ p3.organisms = orgUids p3.species ∧
    (∀ s ∈ p3.species, s.orgs ≠ []) ∧ (∀ u ∈ p3.organisms, u ∉ p1.organisms) ∧ (genomeIds p3.species).Nodup ∧ SpIdInv p3 := by
  intro p3
  unfold speciate at hsp
  split at hsp
  · cases hsp
  · obtain ⟨hperm, horg, _⟩ := speciateLoop_uids o _ _ _ hsp
    obtain ⟨hid, _⟩ := speciateLoop_idInv o _ _ _ hsp hs
    obtain ⟨f1, f2, f3, _⟩ := finalize_spec p2
    have hfilter : ((orgUids p2.species).filter (fun u => !p2.organisms.contains u)).Perm (babies.map (·.uid)) := by
      refine (hperm.filter _).trans ?_
      rw [List.filter_append, horg]
      have hb : (babies.map (·.uid)).filter (fun u => !p1.organisms.contains u) = babies.map (·.uid) := by
        rw [List.filter_eq_self]
        intro u hu'
        simp only [Bool.not_eq_true', List.contains_eq_mem, decide_eq_false_iff_not]
        intro hmem
        have h1 := hu.below u hmem
        have h2 := hfresh u hu'
        omega
      have ho : (orgUids p1.species).filter (fun u => !p1.organisms.contains u) = [] := by
        rw [List.filter_eq_nil_iff]
        intro u hu'
        simp [hu.listed u hu']
      rw [hb, ho, List.append_nil]
    have hp3 : p3.organisms.Perm (babies.map (·.uid)) := by
      show (finalizeReproduction p2).organisms.Perm _
      rw [f1, f3]; exact hfilter
    refine ⟨?_, hp3.nodup_iff.mpr hnd, f1, f2, ?_, (finalize_genomeIds p2).2, finalize_idInv _ hid⟩
    · rw [hp3.length_eq, List.length_map]; exact hlen
    · intro u hu' hmem
      have h1 := hu.below u hmem
      have h2 := hfresh u (hp3.mem_iff.mp hu')
      omega

/-- the order of arrival is irrelevant for the hypotheses: any permutation of a fresh duplicate-free batch is one -/
theorem perm_batch_ok (babies babies' : List (Org W)) (n : Nat) (k : Nat) (hp : babies'.Perm babies)
    (hnd : (babies.map (·.uid)).Nodup) (hfresh : ∀ u ∈ babies.map (·.uid), k ≤ u) (hlen : babies.length = n) :
    (babies'.map (·.uid)).Nodup ∧ (∀ u ∈ babies'.map (·.uid), k ≤ u) ∧ babies'.length = n :=
  ⟨((hp.map _).nodup_iff).mpr hnd, fun u hu => hfresh u ((hp.map _).mem_iff.mp hu), by rw [hp.length_eq]; exact hlen⟩

/-! ### non-vacuity: a concrete population with two species satisfies the hypotheses of the epoch theorems -/
section NonVacuity
open GoNeat.ExactInt
attribute [local instance] intScalar

def tinyG (id : Int) : Genome Int :=
  { id := id, traits := [⟨1, []⟩],
    nodes := [⟨1, Kind.input, 4, none⟩, ⟨2, Kind.output, 4, none⟩],
    genes := [⟨1, 1, 2, false, 0, 0, true, none⟩] }

def tinyOrg (uid : Nat) : Org Int :=
  { uid := uid, fitness := 1, genome := tinyG uid, expectedOffspring := 0, generation := 0, originalFitness := 0, highestFitness := 0 }

def tinyPop : Pop Int :=
  { species := [{ id := 1, age := 3, maxFitnessEver := 0, expectedOffspring := 0, isNovel := false, orgs := [tinyOrg 0, tinyOrg 2],
                  ageOfLastImprovement := 0 },
                { id := 4, age := 1, maxFitnessEver := 0, expectedOffspring := 0, isNovel := true, orgs := [tinyOrg 1],
                  ageOfLastImprovement := 0 }],
    organisms := [0, 1, 2], lastSpecies := 4, highestFitness := 0, epochsHighestLastChanged := 0,
    reg := { records := [], nextInn := 1, nextNode := 2 }, nextUid := 3 }

example : UidInv tinyPop ∧ SpIdInv tinyPop :=
  ⟨⟨by simp [tinyPop, orgUids, tinyOrg], by simp [tinyPop]⟩, ⟨by simp [tinyPop], by simp [tinyPop]⟩⟩

end NonVacuity

end GoNeat.C02
