/-
  C18 - Activation functions match their definitions, ranges and names.          (Kind R: over the reals)

  Objects:
    * `Gen.ActR.*`      bodies of the Go closures, REGENERATED from neat/math/activations.go on every check run
    * `Gen.Registry.*`  const block, Register calls, map writes of Register/RegisterModule, shape of the 4 lookups
    * `Spec.Act.*`      hand-written closed forms and the table `scalarDocs` (code, name, range, monotone?) - the SAME
                        definitions the driver executes at Float on the outputs of the real Go functions
  Theorems (all inputs; no bound on |x| is needed over ℝ):
    1. `*_eq`                         generated body = documented closed form, for each of the 20 scalar closures
    2. `scalar_range`                 every closed form stays inside its documented range, for every real x
       `*_strict`                     the sharper open bounds where the documentation says so
    3. `scalar_monotone`              the functions documented as monotone are monotone non-decreasing on ℝ
    4. `multiplyModule_eq_prod`, `maxModule_eq_maximum`, `minModule_eq_minimum`
    5. registry: `documented_lookups`, `code_name_roundtrip`, `name_code_roundtrip`, `nameOfCode_injective`,
       `codeOfName_injective`, `unknown_code_error`, `unknown_name_error`, `registered_names_are_constants`
    6. `activateByType_eq_spec`       type code ↦ registered closure ↦ generated body = documented closed form
    7. `max_legacy_counterexample`    the pre-fix maxModule (start value float64(MinInt64)) is not the maximum
  Not provable here (trusted, executed by the correspondence ops): float64 rounding, i.e. that the Float evaluation of
  a closed form stays finite / in the closed range / monotone.  Two float-only deviations were FOUND that way and are
  listed in known_findings.jsonl (step(-0.0) = 0; inverse-absolute sigmoid not monotone on adjacent floats).
-/
import GoNeat.Proofs.Activations
import GoNeat.Gen.ActivationsReal
import GoNeat.Gen.Registry
import GoNeat.Model.LegacyActivations
import Mathlib.Tactic.IntervalCases

set_option linter.unusedTactic false

namespace GoNeat.C18
open GoNeat.Spec.Act GoNeat.Act
open GoNeat.Gen

/-! ## 1. generated body = documented closed form -/

/-- closes `generated body = closed form` after unfolding: literals are normalised, then the two sides must agree as
    ring expressions branch by branch (a changed constant, operator or comparison leaves an unprovable goal) -/
macro "act_eq" : tactic =>
  `(tactic| all_goals ((try norm_num) <;> first | done | ring1 | (split_ifs <;> first | done | ring1)))

theorem plainSigmoid_eq : ActR.plainSigmoid = (plainSigmoid : ℝ → ℝ) := by
  funext x; simp only [ActR.plainSigmoid, plainSigmoid, logistic_real]; act_eq
theorem reducedSigmoid_eq : ActR.reducedSigmoid = (reducedSigmoid : ℝ → ℝ) := by
  funext x; simp only [ActR.reducedSigmoid, reducedSigmoid, logistic_real]; act_eq
theorem steepenedSigmoid_eq : ActR.steepenedSigmoid = (steepenedSigmoid : ℝ → ℝ) := by
  funext x; simp only [ActR.steepenedSigmoid, steepenedSigmoid, logistic_real]; act_eq
theorem bipolarSigmoid_eq : ActR.bipolarSigmoid = (bipolarSigmoid : ℝ → ℝ) := by
  funext x; simp only [ActR.bipolarSigmoid, bipolarSigmoid, logistic_real]; act_eq
theorem approximationSigmoid_eq : ActR.approximationSigmoid = (approximationSigmoid : ℝ → ℝ) := by
  funext x; simp only [ActR.approximationSigmoid, approximationSigmoid_real]; act_eq
theorem approximationSteepenedSigmoid_eq :
    ActR.approximationSteepenedSigmoid = (approximationSteepenedSigmoid : ℝ → ℝ) := by
  funext x; simp only [ActR.approximationSteepenedSigmoid, approximationSteepenedSigmoid_real]; act_eq
theorem inverseAbsoluteSigmoid_eq : ActR.inverseAbsoluteSigmoid = (inverseAbsoluteSigmoid : ℝ → ℝ) := by
  funext x; simp only [ActR.inverseAbsoluteSigmoid, inverseAbsoluteSigmoid_real]
  first
  | act_eq
  | -- the monotone reformulation of notes/proposed_fix_C18.patch: x < 0 ? 0.5/(1-x) : 1 - 0.5/(1+x)
    (norm_num
     split_ifs with h
     · rw [abs_of_neg h]
       have h1 : 1 - x ≠ 0 := by linarith
       have h2 : 1 + -x ≠ 0 := by linarith
       field_simp; ring
     · rw [abs_of_nonneg (not_lt.mp h)]
       have : 1 + x ≠ 0 := by linarith [not_lt.mp h]
       field_simp; ring)
theorem leftShiftedSigmoid_eq : ActR.leftShiftedSigmoid = (leftShiftedSigmoid : ℝ → ℝ) := by
  funext x; simp only [ActR.leftShiftedSigmoid, leftShiftedSigmoid, logistic_real]; act_eq
theorem leftShiftedSteepenedSigmoid_eq :
    ActR.leftShiftedSteepenedSigmoid = (leftShiftedSteepenedSigmoid : ℝ → ℝ) := by
  funext x; simp only [ActR.leftShiftedSteepenedSigmoid, leftShiftedSteepenedSigmoid, logistic_real]; act_eq
theorem rightShiftedSteepenedSigmoid_eq :
    ActR.rightShiftedSteepenedSigmoid = (rightShiftedSteepenedSigmoid : ℝ → ℝ) := by
  funext x; simp only [ActR.rightShiftedSteepenedSigmoid, rightShiftedSteepenedSigmoid, logistic_real]; act_eq
theorem hyperbolicTangent_eq : ActR.hyperbolicTangent = (hyperbolicTangent : ℝ → ℝ) := by
  funext x; simp only [ActR.hyperbolicTangent, hyperbolicTangent, tanh_real]; act_eq
theorem bipolarGaussian_eq : ActR.bipolarGaussian = (bipolarGaussian : ℝ → ℝ) := by
  funext x; simp only [ActR.bipolarGaussian, bipolarGaussian, exp_real]; act_eq
theorem gaussian_eq : ActR.gaussian = (gaussian : ℝ → ℝ) := by
  funext x; simp only [ActR.gaussian, gaussian, exp_real]; act_eq
theorem linear_eq : ActR.linear = (linear : ℝ → ℝ) := by
  funext x; simp only [ActR.linear, linear]; act_eq
theorem absoluteLinear_eq : ActR.absoluteLinear = (absoluteLinear : ℝ → ℝ) := by
  funext x; simp only [ActR.absoluteLinear, absoluteLinear, abs_real]; act_eq
theorem clippedLinear_eq : ActR.clippedLinear = (clippedLinear : ℝ → ℝ) := by
  funext x; simp only [ActR.clippedLinear, clippedLinear_real]; act_eq
theorem nullFunctor_eq : ActR.nullFunctor = (nullFunctor : ℝ → ℝ) := by
  funext x; simp only [ActR.nullFunctor, nullFunctor]; act_eq
theorem signFunction_eq : ActR.signFunction = (signFunction : ℝ → ℝ) := by
  funext x; simp only [ActR.signFunction, signFunction_real]; norm_num
  rcases lt_trichotomy x 0 with h | h | h
  · simp [h, h.ne]
  · simp [h]
  · simp [h, h.ne', not_lt.mpr h.le]
theorem sineFunction_eq : ActR.sineFunction = (sineFunction : ℝ → ℝ) := by
  funext x; simp only [ActR.sineFunction, sineFunction, sin_real]; act_eq
theorem stepFunction_eq : ActR.stepFunction = (stepFunction : ℝ → ℝ) := by
  funext x; simp only [ActR.stepFunction, stepFunction_real]; act_eq

/-! ## 2. documented ranges -/

/-- every documented scalar activation stays inside its documented (closed) range, for every real input -/
theorem scalar_range : ∀ d ∈ scalarDocs ℝ, ∀ x : ℝ, d.inRange (d.f x) = true := by
  intro d hd x
  have f1 := plainSigmoid_range x; have f2 := reducedSigmoid_range x; have f3 := bipolarSigmoid_range x
  have f4 := steepenedSigmoid_range x; have f5 := approximationSigmoid_range x
  have f6 := approximationSteepenedSigmoid_range x; have f7 := inverseAbsoluteSigmoid_range x
  have f8 := leftShiftedSigmoid_range x; have f9 := leftShiftedSteepenedSigmoid_range x
  have f10 := rightShiftedSteepenedSigmoid_range x; have f11 := hyperbolicTangent_range x
  have f12 := bipolarGaussian_range x; have f13 := gaussian_range x; have f15 := absoluteLinear_range x
  have f16 := clippedLinear_range x; have f17 := Spec.Act.nullFunctor_eq x; have f19 := sineFunction_range x
  have f18 : -1 ≤ signFunction x ∧ signFunction x ≤ 1 := by
    rcases signFunction_range x with h | h | h <;> rw [h] <;> norm_num
  have f20 : 0 ≤ stepFunction x ∧ stepFunction x ≤ 1 := by
    rcases stepFunction_range x with h | h <;> rw [h] <;> norm_num
  simp only [scalarDocs, List.mem_cons, List.not_mem_nil, or_false] at hd
  rcases hd with rfl | rfl | rfl | rfl | rfl | rfl | rfl | rfl | rfl | rfl | rfl | rfl | rfl | rfl | rfl | rfl | rfl | rfl | rfl | rfl <;>
    apply inRange_of <;> intro b hb <;> simp only [Option.some.injEq, reduceCtorEq] at hb <;> subst hb <;>
    norm_num <;> linarith [f1.1, f1.2, f2.1, f2.2, f3.1, f3.2, f4.1, f4.2, f5.1, f5.2, f6.1, f6.2, f7.1, f7.2, f8.1, f8.2,
      f9.1, f9.2, f10.1, f10.2, f11.1, f11.2, f12.1, f12.2, f13.1, f13.2, f15, f16.1, f16.2, f17, f18.1, f18.2,
      f19.1, f19.2, f20.1, f20.2]

/-- the sharper documented bounds: the sigmoids and tanh never reach their bounds, the Gaussians reach only 1 -/
theorem open_ranges (x : ℝ) :
    (0 < plainSigmoid x ∧ plainSigmoid x < 1) ∧ (0 < reducedSigmoid x ∧ reducedSigmoid x < 1) ∧
    (0 < steepenedSigmoid x ∧ steepenedSigmoid x < 1) ∧ (-1 < bipolarSigmoid x ∧ bipolarSigmoid x < 1) ∧
    (0 < inverseAbsoluteSigmoid x ∧ inverseAbsoluteSigmoid x < 1) ∧
    (0 < leftShiftedSigmoid x ∧ leftShiftedSigmoid x < 1) ∧
    (0 < leftShiftedSteepenedSigmoid x ∧ leftShiftedSteepenedSigmoid x < 1) ∧
    (0 < rightShiftedSteepenedSigmoid x ∧ rightShiftedSteepenedSigmoid x < 1) ∧
    (-1 < hyperbolicTangent x ∧ hyperbolicTangent x < 1) ∧
    (-1 < bipolarGaussian x ∧ bipolarGaussian x ≤ 1) ∧ (0 < gaussian x ∧ gaussian x ≤ 1) :=
  ⟨plainSigmoid_range x, reducedSigmoid_range x, steepenedSigmoid_range x, bipolarSigmoid_range x,
   inverseAbsoluteSigmoid_range x, leftShiftedSigmoid_range x, leftShiftedSteepenedSigmoid_range x,
   rightShiftedSteepenedSigmoid_range x, hyperbolicTangent_range x, bipolarGaussian_range x, gaussian_range x⟩

/-- the discrete-valued activations take only their documented values -/
theorem discrete_values (x : ℝ) :
    (stepFunction x = 0 ∨ stepFunction x = 1) ∧ (signFunction x = -1 ∨ signFunction x = 0 ∨ signFunction x = 1) ∧
    nullFunctor x = 0 ∧ linear x = x ∧ absoluteLinear x = |x| :=
  ⟨stepFunction_range x, signFunction_range x, Spec.Act.nullFunctor_eq x, rfl, rfl⟩

/-! ## 3. monotonicity -/

/-- every activation documented as monotone (sigmoid family, tanh, linear, clipped linear, step) is monotone
    non-decreasing on all of ℝ -/
theorem scalar_monotone : ∀ d ∈ scalarDocs ℝ, d.mono = true → Monotone d.f := by
  intro d hd hm
  simp only [scalarDocs, List.mem_cons, List.not_mem_nil, or_false] at hd
  rcases hd with rfl | rfl | rfl | rfl | rfl | rfl | rfl | rfl | rfl | rfl | rfl | rfl | rfl | rfl | rfl | rfl | rfl | rfl | rfl | rfl <;>
    first
    | exact absurd hm (by decide)
    | exact plainSigmoid_mono | exact reducedSigmoid_mono | exact bipolarSigmoid_mono | exact steepenedSigmoid_mono
    | exact approximationSigmoid_mono | exact approximationSteepenedSigmoid_mono | exact inverseAbsoluteSigmoid_mono
    | exact leftShiftedSigmoid_mono | exact leftShiftedSteepenedSigmoid_mono | exact rightShiftedSteepenedSigmoid_mono
    | exact hyperbolicTangent_mono | exact linear_mono | exact clippedLinear_mono | exact stepFunction_mono

/-- exactly the functions the property names are flagged monotone in the table -/
theorem monotone_flags : ((scalarDocs ℝ).filter (·.mono)).map (·.code) = [1, 2, 3, 4, 5, 6, 7, 8, 9, 10, 11, 14, 16, 20] := by
  simp [scalarDocs]

/-! ## 4. module activations -/

theorem multiplyModule_eq_prod (l : List ℝ) : ActR.multiplyModule l = ((l.prod : ℝ) : EReal) := by
  unfold ActR.multiplyModule
  rw [multiplyModule_fold]; norm_num

/-- max module = List.maximum -/
theorem maxModule_eq_maximum (l : List ℝ) (m : ℝ) (hm : l.maximum = (m : WithBot ℝ)) :
    ActR.maxModule l = (m : EReal) := by
  obtain ⟨hmem, hle⟩ := List.maximum_eq_coe_iff.mp hm
  obtain ⟨_, h2, h3⟩ := foldl_max_spec l ⊥
  unfold ActR.maxModule
  rcases h3 with h3 | ⟨x, hx, h3⟩
  · have := h2 m hmem
    rw [h3] at this
    exact absurd (le_bot_iff.mp this) (EReal.coe_ne_bot m)
  · rw [h3]
    have h4 := h2 m hmem
    rw [h3, EReal.coe_le_coe_iff] at h4
    rw [EReal.coe_eq_coe_iff]
    exact le_antisymm (hle x hx) h4

/-- `math.MaxFloat64` -/
noncomputable def maxFloat64 : ℝ := (2:ℝ)^1024 - (2:ℝ)^971

theorem minModule_eq_minimum (l : List ℝ) (m : ℝ) (hb : ∀ x ∈ l, x ≤ maxFloat64) (hm : l.minimum = (m : WithTop ℝ)) :
    ActR.minModule l = (m : EReal) := by
  obtain ⟨hmem, hle⟩ := List.minimum_eq_coe_iff.mp hm
  obtain ⟨h1, h2, h3⟩ := foldl_min_spec l ((maxFloat64 : ℝ) : EReal)
  unfold ActR.minModule
  change List.foldl _ ((maxFloat64 : ℝ) : EReal) l = _
  have h4 := h2 m hmem
  rcases h3 with h3 | ⟨x, hx, h3⟩
  · rw [h3] at h4 ⊢
    rw [EReal.coe_le_coe_iff] at h4
    rw [EReal.coe_eq_coe_iff]
    exact le_antisymm h4 (hb m hmem)
  · rw [h3] at h4 ⊢
    rw [EReal.coe_le_coe_iff] at h4
    rw [EReal.coe_eq_coe_iff]
    exact le_antisymm h4 (hle x hx)

theorem maximum_exists (l : List ℝ) (h : l ≠ []) : ∃ m : ℝ, l.maximum = (m : WithBot ℝ) := by
  rcases hm : l.maximum with _ | m
  · exact absurd (List.maximum_eq_bot.mp hm) h
  · exact ⟨m, rfl⟩

theorem minimum_exists (l : List ℝ) (h : l ≠ []) : ∃ m : ℝ, l.minimum = (m : WithTop ℝ) := by
  rcases hm : l.minimum with _ | m
  · exact absurd (List.minimum_eq_top.mp hm) h
  · exact ⟨m, rfl⟩


/-! ## 5. the registry -/

/-- the registry description regenerated from the Go source -/
def reg : Desc :=
  { regWrites := Registry.registerWrites, modWrites := Registry.registerModuleWrites,
    lookups := Registry.lookups, registered := Registry.registered }

theorem translation_complete : Registry.untranslated = [] := by decide

/-- every registration uses the identifier of its type constant as the name -/
theorem registered_names_are_constants :
    ∀ r ∈ Registry.registered, r.name = r.const ∧ Registry.consts.lookup r.const = some r.code := by decide

theorem documented_lookups : ∀ d ∈ documented,
    reg.nameOfCode d.1 = some d.2.1 ∧ reg.codeOfName d.2.1 = some d.1 ∧
    (reg.scalarOfCode d.1).isSome = (d.2.2 == Kind.scalar) ∧ (reg.moduleOfCode d.1).isSome = (d.2.2 == Kind.module) := by
  decide

def codeKeyDocumented : Val → Bool
  | .code n => (docOfCode n).isSome
  | _ => false

def nameKeyDocumented : Val → Bool
  | .str s => documented.any (fun d => d.2.1 == s)
  | _ => false

theorem keys_documented :
    (reg.factory.get "forward").all (fun p => codeKeyDocumented p.1) = true ∧
    (reg.factory.get "activators").all (fun p => codeKeyDocumented p.1) = true ∧
    (reg.factory.get "moduleActivators").all (fun p => codeKeyDocumented p.1) = true ∧
    (reg.factory.get "inverse").all (fun p => nameKeyDocumented p.1) = true := by decide

theorem lookups_shape :
    findLookup reg.lookups "ActivationNameFromType" = { fn := "ActivationNameFromType", map := "forward", key := "aType", hitErrNil := true, missErr := true, missValue := "\"\"" } ∧
    (findLookup reg.lookups "ActivationTypeFromName").map = "inverse" ∧ (findLookup reg.lookups "ActivationTypeFromName").missErr = true ∧
    (findLookup reg.lookups "ActivateByType").map = "activators" ∧ (findLookup reg.lookups "ActivateByType").missErr = true ∧
    (findLookup reg.lookups "ActivateModuleByType").map = "moduleActivators" ∧ (findLookup reg.lookups "ActivateModuleByType").missErr = true := by
  decide

/-- unknown type code ⇒ error from all three code-keyed lookups -/
theorem unknown_code_error (c : Nat) (h : docOfCode c = none) :
    reg.nameOfCode c = none ∧ reg.scalarOfCode c = none ∧ reg.moduleOfCode c = none := by
  obtain ⟨k1, k2, k3, _⟩ := keys_documented
  obtain ⟨s1, _, _, s4, s5, s6, s7⟩ := lookups_shape
  have key : ∀ (m : GoMap), m.all (fun p => codeKeyDocumented p.1) = true → ∀ p ∈ m, p.1 ≠ Val.code c := by
    intro m hm p hp e
    have := List.all_eq_true.mp hm p hp
    simp only [e, codeKeyDocumented, h, Option.isSome_none] at this
    exact absurd this (by decide)
  refine ⟨?_, ?_, ?_⟩
  · unfold Desc.nameOfCode
    rw [run_miss _ _ _ (by rw [s1]) (by rw [s1]; exact key _ k1)]
  · unfold Desc.scalarOfCode
    rw [run_miss _ _ _ s5 (by rw [s4]; exact key _ k2)]
  · unfold Desc.moduleOfCode
    rw [run_miss _ _ _ s7 (by rw [s6]; exact key _ k3)]

/-- unknown name ⇒ error -/
theorem unknown_name_error (n : String) (h : ∀ d ∈ documented, d.2.1 ≠ n) : reg.codeOfName n = none := by
  obtain ⟨_, _, _, k4⟩ := keys_documented
  obtain ⟨_, s2, s3, _⟩ := lookups_shape
  unfold Desc.codeOfName
  rw [run_miss _ _ _ s3]
  rw [s2]
  intro p hp e
  have := List.all_eq_true.mp k4 p hp
  simp only [e, nameKeyDocumented, List.any_eq_true, beq_iff_eq] at this
  obtain ⟨d, hd, hdn⟩ := this
  exact h d hd hdn

/-- a code that has a name is a documented code and the name is its documented name -/
theorem nameOfCode_documented (c : Nat) (n : String) (h : reg.nameOfCode c = some n) :
    ∃ k, (c, n, k) ∈ documented := by
  rcases hd : docOfCode c with _ | ⟨n', k⟩
  · rw [(unknown_code_error c hd).1] at h; exact absurd h (by simp)
  · have hmem : (c, n', k) ∈ documented := mem_of_lookup _ _ _ hd
    have h1 := (documented_lookups _ hmem).1
    rw [h] at h1
    exact ⟨k, by rw [Option.some.inj h1]; exact hmem⟩

/-- a name that has a code is a documented name and the code is its documented code -/
theorem codeOfName_documented (n : String) (c : Nat) (h : reg.codeOfName n = some c) :
    ∃ k, (c, n, k) ∈ documented := by
  by_cases hn : ∃ d ∈ documented, d.2.1 = n
  · obtain ⟨⟨c', n', k⟩, hmem, rfl⟩ := hn
    have h1 := (documented_lookups _ hmem).2.1
    simp only at h1 h
    rw [h] at h1
    exact ⟨k, by rw [Option.some.inj h1]; exact hmem⟩
  · have hn' : ∀ d ∈ documented, d.2.1 ≠ n := fun d hd e => hn ⟨d, hd, e⟩
    rw [unknown_name_error n hn'] at h; exact absurd h (by simp)

/-- code → name → code -/
theorem code_name_roundtrip (c : Nat) (n : String) (h : reg.nameOfCode c = some n) : reg.codeOfName n = some c := by
  obtain ⟨k, hmem⟩ := nameOfCode_documented c n h
  exact (documented_lookups _ hmem).2.1

/-- name → code → name -/
theorem name_code_roundtrip (n : String) (c : Nat) (h : reg.codeOfName n = some c) : reg.nameOfCode c = some n := by
  obtain ⟨k, hmem⟩ := codeOfName_documented n c h
  exact (documented_lookups _ hmem).1

/-- two type codes never share a name -/
theorem nameOfCode_injective (c₁ c₂ : Nat) (n : String) (h₁ : reg.nameOfCode c₁ = some n) (h₂ : reg.nameOfCode c₂ = some n) :
    c₁ = c₂ := by
  have a := code_name_roundtrip c₁ n h₁
  have b := code_name_roundtrip c₂ n h₂
  rw [a] at b; exact Option.some.inj b

/-- two names never share a type code -/
theorem codeOfName_injective (n₁ n₂ : String) (c : Nat) (h₁ : reg.codeOfName n₁ = some c) (h₂ : reg.codeOfName n₂ = some c) :
    n₁ = n₂ := by
  have a := name_code_roundtrip n₁ c h₁
  have b := name_code_roundtrip n₂ c h₂
  rw [a] at b; exact Option.some.inj b

/-! ## 6. from the type code to the closed form -/

/-- model of `ActivateByType` over the reals: the closure the registry selects, in its generated form -/
noncomputable def genScalar (c : Nat) : Option (ℝ → ℝ) :=
  (reg.scalarOfCode c).bind (fun fn => ActR.scalarByName.lookup fn)

/-- the documented closed form of a type code -/
noncomputable def specScalar (c : Nat) : Option (ℝ → ℝ) := ((scalarDocs ℝ).find? (·.code == c)).map (·.f)

theorem scalarOfCode_table :
    (List.range 24).map reg.scalarOfCode =
      [none, some "plainSigmoid", some "reducedSigmoid", some "bipolarSigmoid", some "steepenedSigmoid",
       some "approximationSigmoid", some "approximationSteepenedSigmoid", some "inverseAbsoluteSigmoid",
       some "leftShiftedSigmoid", some "leftShiftedSteepenedSigmoid", some "rightShiftedSteepenedSigmoid",
       some "hyperbolicTangent", some "bipolarGaussian", some "gaussian", some "linear", some "absoluteLinear",
       some "clippedLinear", some "nullFunctor", some "signFunction", some "sineFunction", some "stepFunction",
       none, none, none] := by decide

/-- `ActivateByType(x, c)` computes the documented closed form of type `c`, and is an error for every other `c` -/
theorem activateByType_eq_spec (c : Nat) : genScalar c = specScalar c := by
  by_cases hc : c < 24
  · have ht := scalarOfCode_table
    simp only [List.range, List.range.loop, List.map_cons, List.map_nil, List.cons.injEq, and_true] at ht
    obtain ⟨t0, t1, t2, t3, t4, t5, t6, t7, t8, t9, t10, t11, t12, t13, t14, t15, t16, t17, t18, t19, t20, t21, t22, t23⟩ := ht
    interval_cases c <;> simp only [genScalar, specScalar, scalarDocs, *] <;>
      simp [ActR.scalarByName, List.lookup, plainSigmoid_eq, reducedSigmoid_eq, steepenedSigmoid_eq, bipolarSigmoid_eq,
        approximationSigmoid_eq, approximationSteepenedSigmoid_eq, inverseAbsoluteSigmoid_eq, leftShiftedSigmoid_eq,
        leftShiftedSteepenedSigmoid_eq, rightShiftedSteepenedSigmoid_eq, hyperbolicTangent_eq, bipolarGaussian_eq,
        gaussian_eq, linear_eq, absoluteLinear_eq, clippedLinear_eq, C18.nullFunctor_eq, signFunction_eq, sineFunction_eq,
        stepFunction_eq]
  · have hd : docOfCode c = none := by
      unfold docOfCode
      apply lookup_none_of_keys
      intro p hp e
      have : (documented.all (fun p => p.1 < 24)) = true := by decide
      have := List.all_eq_true.mp this p hp
      simp only [decide_eq_true_eq] at this
      omega
    have hs : specScalar c = none := by
      unfold specScalar
      have : (scalarDocs ℝ).find? (·.code == c) = none := by
        rw [List.find?_eq_none]
        intro d hd'
        simp only [scalarDocs, List.mem_cons, List.not_mem_nil, or_false] at hd'
        rcases hd' with rfl | rfl | rfl | rfl | rfl | rfl | rfl | rfl | rfl | rfl | rfl | rfl | rfl | rfl | rfl | rfl | rfl | rfl | rfl | rfl <;>
          simp <;> omega
      rw [this]; rfl
    rw [hs, genScalar, (unknown_code_error c hd).2.1]; rfl

/-- the three module type codes select the three module closures -/
theorem activateModuleByType_closures :
    reg.moduleOfCode 21 = some "multiplyModule" ∧ reg.moduleOfCode 22 = some "maxModule" ∧
    reg.moduleOfCode 23 = some "minModule" := by decide

/-! ## 7. the defect repaired by 6e7d1ff -/

/-- the pre-fix `maxModule` started from float64(math.MinInt64) = -9223372036854775808: for the one-element input
    [-1e300] it returns that start value, not the maximum -1e300 -/
theorem max_legacy_counterexample :
    ([-1e300] : List ℝ).maximum = ((-1e300 : ℝ) : WithBot ℝ) ∧
    Legacy.maxModule (-9223372036854775808 : ℝ) [-1e300] = -9223372036854775808 ∧
    Legacy.maxModule (-9223372036854775808 : ℝ) [-1e300] ≠ -1e300 := by
  refine ⟨List.maximum_singleton _, ?_, ?_⟩ <;> simp only [Legacy.maxModule, List.foldl_cons, List.foldl_nil] <;> norm_num

/-! ## non-vacuity -/

example : (scalarDocs ℝ).length = 20 ∧ documented.length = 23 := by simp [scalarDocs, documented, moduleDocs]
example : reg.nameOfCode 3 = some "SigmoidBipolarActivation" ∧ reg.codeOfName "MaxModuleActivation" = some 22 ∧
    reg.nameOfCode 0 = none ∧ reg.nameOfCode 24 = none ∧ reg.codeOfName "sigmoid" = none := by decide
example : docOfCode 77 = none := by decide
example : ∀ d ∈ documented, d.2.1 ≠ "NoSuchActivation" := by decide
example : ([3, -7, 2] : List ℝ).maximum = ((3 : ℝ) : WithBot ℝ) := by
  rw [List.maximum_eq_coe_iff]; norm_num
set_option exponentiation.threshold 1100 in
example : ∀ x ∈ ([1e300, -1e300] : List ℝ), x ≤ maxFloat64 := by
  intro x hx; unfold maxFloat64
  simp only [List.mem_cons, List.not_mem_nil, or_false] at hx
  rcases hx with rfl | rfl <;> norm_num

end GoNeat.C18
