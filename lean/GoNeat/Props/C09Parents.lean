/-
  Property C09, the parent cut: fitness adjustment applies the documented per-organism formula, sorts the species
  by adjusted fitness, and marks for elimination exactly the organisms ranked floor(survival_thresh*n + 1) or
  lower; removing the marked organisms leaves exactly the top floor(survival_thresh*n)+1 of the sorted species.
  Kind A (the threshold expression is the code's own float expression; that floor(t*n + 1) = floor(t*n) + 1 is
  exact-arithmetic reasoning).
-/
import GoNeat.Props.C10Sort

namespace GoNeat.C09
open GoNeat Scalar
variable {W : Type} [Scalar W]

/-- the number of parents kept in a species of `n` organisms: the code's `math.Floor(SurvivalThresh*n + 1.0)` -/
def numParents (o : EpochOpts W) (n : Nat) : Int := floorInt (add (mul o.survivalThresh (ofInt n)) one)

/-- the documented adjustment of one organism's fitness: ×0.01 for a stagnant species, × age significance for a young
    one, negative ↦ 0.0001, then shared among the `n` members -/
def adjustedFitness (o : EpochOpts W) (s : Species W) (f : W) : W :=
  let debt0 := (s.age - s.ageOfLastImprovement + 1) - o.dropOffAge
  let debt := if debt0 = 0 then 1 else debt0
  let f1 := if debt ≥ 1 then mul f (ofDec 1 2) else f
  let f2 := if s.age ≤ 10 then mul f1 o.ageSignificance else f1
  let f3 := if lt f2 zero then ofDec 1 4 else f2
  div f3 (ofInt s.orgs.length)

theorem markOrgs_length (k : Int) (l : List (Org W)) (i : Nat) : (markOrgs k l i).length = l.length := by
  induction l generalizing i with
  | nil => rfl
  | cons x xs ih => simp [markOrgs, ih]

theorem markOrgs_getElem? (k : Int) (l : List (Org W)) (i j : Nat) :
    (markOrgs k l i)[j]? = (l[j]?).map (fun x =>
      { x with isChampion := if i + j = 0 then true else x.isChampion,
               toEliminate := if ((i + j : Nat) : Int) ≥ k then true else x.toEliminate }) := by
  induction l generalizing i j with
  | nil => simp [markOrgs]
  | cons x xs ih =>
    cases j with
    | zero => simp [markOrgs]
    | succ j =>
      simp only [markOrgs, List.getElem?_cons_succ, ih]
      have : i + 1 + j = i + (j + 1) := by omega
      rw [this]

/-- removing the marked organisms of a freshly marked, previously unmarked list keeps exactly its first `k` elements -/
theorem filter_unmarked_markOrgs (k : Int) (l : List (Org W)) (i : Nat) (hun : ∀ x ∈ l, x.toEliminate = false) :
    ((markOrgs k l i).filter (fun x => !x.toEliminate)).map (·.uid) = (l.take (k - i).toNat).map (·.uid) := by
  induction l generalizing i with
  | nil => simp [markOrgs]
  | cons x xs ih =>
    have hx := hun x (by simp)
    have ih' := ih (i + 1) (fun y hy => hun y (by simp [hy]))
    simp only [markOrgs, List.filter_cons]
    by_cases hk : (i : Int) ≥ k
    · -- this and all later positions are marked
      have h0 : (k - i).toNat = 0 := by omega
      have h1 : (k - ((i + 1 : Nat) : Int)).toNat = 0 := by omega
      simp only [hk, ↓reduceIte, Bool.not_true, Bool.false_eq_true, h0, List.take_zero, List.map_nil]
      rw [h1] at ih'
      simpa using ih'
    · have hpos : (k - i).toNat = (k - ((i + 1 : Nat) : Int)).toNat + 1 := by omega
      simp only [hk, ↓reduceIte, hx, Bool.not_false, hpos, List.take_succ_cons, List.map_cons]
      rw [ih']

/-- **C09 (fitness sharing and parent cut).** `adjustFitness` on a species without pre-marked organisms:
    * every organism keeps its identity, records its raw fitness as original fitness and gets the documented adjusted
      fitness (stagnation penalty ×0.01 iff age−lastImproved+1−dropOff ≥ 1 with the 0 ↦ 1 quirk, youth boost iff age ≤ 10,
      negative ↦ 0.0001, divided by the species size);
    * the members are a permutation of the old ones, ordered so that no member is fitter than the first one;
    * exactly the organisms ranked `numParents` or lower are marked: the unmarked ones are the first `numParents` of the
      sorted list. -/
theorem adjustFitness_spec (hw : C08.StrictWeak W) (he : C10.EqLaw W) (o : EpochOpts W) (s s' : Species W)
    (h : adjustFitness o s = .ok s') (hun : ∀ x ∈ s.orgs, x.toEliminate = false) :
    let adjusted := s.orgs.map (fun x => { x with originalFitness := x.fitness, fitness := adjustedFitness o s x.fitness })
    let sorted := sortOrgsDesc adjusted
    sorted.Perm adjusted ∧
    (∀ top rest, sorted = top :: rest → ∀ x ∈ adjusted, lt top.fitness x.fitness = false) ∧
    s'.orgs.map (·.uid) = sorted.map (·.uid) ∧
    (s'.orgs.filter (fun x => !x.toEliminate)).map (·.uid) = (sorted.take (numParents o s.orgs.length).toNat).map (·.uid) ∧
    s'.id = s.id ∧ s'.age = s.age := by
  intro adjusted sorted
  have hadj : s.orgs.map (adjustOrg (if (s.age - s.ageOfLastImprovement + 1) - o.dropOffAge = 0 then 1 else (s.age - s.ageOfLastImprovement + 1) - o.dropOffAge) s.age o s.orgs.length) = adjusted := by
    apply List.map_congr_left
    intro x _
    simp only [adjustOrg, adjustedFitness]
  unfold adjustFitness at h
  simp only at h
  rw [hadj] at h
  split at h
  · cases h
  · rename_i top rest hs
    cases h
    have hsorted : sorted = top :: rest := hs
    have hun' : ∀ x ∈ sorted, x.toEliminate = false := by
      intro x hx
      have : x ∈ adjusted := (C10.sortOrgsDesc_perm adjusted).mem_iff.mp hx
      obtain ⟨y, hy, rfl⟩ := List.mem_map.mp this
      exact hun y hy
    refine ⟨C10.sortOrgsDesc_perm adjusted, ?_, ?_, ?_, rfl, rfl⟩
    · intro t r ht x hx
      exact (C10.sortOrgsDesc_head_fittest hw he adjusted t r ht x hx).2
    · show (markOrgs _ sorted 0).map (·.uid) = sorted.map (·.uid)
      apply List.ext_getElem?
      intro j
      simp only [List.getElem?_map, markOrgs_getElem?]
      cases sorted[j]? <;> rfl
    · show ((markOrgs _ sorted 0).filter (fun x => !x.toEliminate)).map (·.uid) = _
      have := filter_unmarked_markOrgs (numParents o s.orgs.length) sorted 0 hun'
      simpa [numParents] using this

end GoNeat.C09
