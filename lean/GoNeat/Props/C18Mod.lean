/-
  C18, module clause ("the module activations return the product, maximum and minimum of their inputs") on the CALL
  PATH of the standard solver: `network.ActivateModule` (neat/network/common.go), modelled by
  `SolverMod.activateModule` (Model/SolverMod.lean: inputs = `GetActiveOut` of every `Incoming` source in `Incoming`
  order, `ActivateModuleByType`, the length check, `setActivation` + `isActive = true` on every `Outgoing` target).

  Kind A (every scalar type `W`, every module activator `μ`, every control-node wiring, every state):
    `activateModule_writes`          success path: output node `k` receives `setActivation (μ … inputs)[k]`, is active
    `activateModule_unknown`, `activateModule_outLen`   the two error paths leave the state untouched
    `moduleInputs_congr`             the inputs are a function of the active outputs of the module's OWN sources only
    `moduleInputs_after_earlier`     an earlier `ActivateModule` of ANY control node whose output nodes are not among
                                     this module's sources does not change this module's inputs
  Kind R (exact reals, the Kind of `multiplyModule_eq_prod` / `maxModule_eq_maximum` / `minModule_eq_minimum`), with
  `muR` = the closure the REGENERATED registry selects for the type code, in its regenerated real form:
    `activateModule_own_inputs`      the value written to the output node of a module of type 21 / 22 / 23 is the
                                     List.prod / maximum / minimum of the active outputs of exactly its own sources
    `module_sequence_own_inputs`     the same for the SECOND of two `ActivateModule` calls in sequence, in terms of the
                                     state before the first call
    `muR_unknown`                    undocumented type code: error, nothing written
  Not proved here: float64 rounding (trusted, executed by op `actModule`, sequence form).
-/
import GoNeat.Props.C18
import GoNeat.Props.C13Mod
import GoNeat.Proofs.Exact
import Mathlib.Algebra.Order.Archimedean.Real.Basic

set_option linter.unusedTactic false
set_option linter.unusedVariables false

namespace GoNeat.C18
open GoNeat.Solver GoNeat.SolverMod GoNeat.C13Mod
open GoNeat.Spec.Act GoNeat.Act GoNeat.Gen

/-! ## Kind A: the wiring of `ActivateModule` -/
section KindA
variable {W : Type} [Scalar W]

/-- what `ActivateModule` collects: `GetActiveOut` of every `Incoming` source, in `Incoming` order -/
theorem moduleInputs_def (cn : NNodeS W) (s : St W) :
    moduleInputs cn s = cn.incoming.map fun l => activeOut (get s l.src) := rfl

/-- the inputs of a module are a function of the active outputs of its own sources: two states that agree there
    (whatever else happened before, e.g. activations of other modules) give the same inputs -/
theorem moduleInputs_congr (cn : NNodeS W) (s t : St W)
    (h : ∀ l ∈ cn.incoming, activeOut (get s l.src) = activeOut (get t l.src)) :
    moduleInputs cn s = moduleInputs cn t := by
  unfold moduleInputs
  exact List.map_congr_left h

theorem activateModule_success (μ : Nat → List W → Option (List W)) (cn : NNodeS W) (s : St W) (outs : List W)
    (hμ : μ cn.act (moduleInputs cn s) = some outs) (hlen : outs.length = cn.outgoing.length) :
    activateModule μ cn s = (setOuts cn.outgoing outs s, none) := by
  have hne : (outs.length != cn.outgoing.length) = false := by simp [hlen]
  simp only [activateModule, hμ, hne]
  rfl

/-- success path: the activator answered with as many values as the module has output links. No error, and the
    `k`-th output node (distinct targets) holds `setActivation` of the `k`-th value and is active. -/
theorem activateModule_writes (μ : Nat → List W → Option (List W)) (cn : NNodeS W) (s : St W) (outs : List W)
    (hμ : μ cn.act (moduleInputs cn s) = some outs) (hlen : outs.length = cn.outgoing.length) :
    (activateModule μ cn s).2 = none ∧
    ∀ (k : Nat) (hk : k < cn.outgoing.length), (cn.outgoing.map (·.dst)).Nodup → cn.outgoing[k].dst < s.length →
      get (activateModule μ cn s).1 cn.outgoing[k].dst =
        { setActivation (outs[k]'(by omega)) (get s cn.outgoing[k].dst) with isActive := true } := by
  rw [activateModule_success μ cn s outs hμ hlen]
  refine ⟨rfl, fun k hk hnd hd => ?_⟩
  exact setOuts_get_hit cn.outgoing outs s hnd k hk (by omega) hd

/-- error path 1: unregistered module activation type - error, state untouched -/
theorem activateModule_unknown (μ : Nat → List W → Option (List W)) (cn : NNodeS W) (s : St W)
    (hμ : μ cn.act (moduleInputs cn s) = none) : activateModule μ cn s = (s, some .unknownModAct) := by
  simp only [activateModule, hμ]

/-- error path 2: the activator returned fewer / more values than the module has output links - error, state untouched -/
theorem activateModule_outLen (μ : Nat → List W → Option (List W)) (cn : NNodeS W) (s : St W) (outs : List W)
    (hμ : μ cn.act (moduleInputs cn s) = some outs) (hlen : outs.length ≠ cn.outgoing.length) :
    activateModule μ cn s = (s, some .moduleOutLen) := by
  have hne : (outs.length != cn.outgoing.length) = true := by simp [hlen]
  simp only [activateModule, hμ, hne]
  rfl

/-- `ActivateModule` touches nothing but the targets of its `Outgoing` links -/
theorem activateModule_other_nodes (μ : Nat → List W → Option (List W)) (cn : NNodeS W) (s : St W) (j : Nat)
    (h : ∀ l ∈ cn.outgoing, l.dst ≠ j) : get (activateModule μ cn s).1 j = get s j := by
  unfold activateModule
  split
  · rfl
  · split
    · rfl
    · exact setOuts_get_other _ _ _ _ h

/-- no dependence on an earlier module call: after `ActivateModule` of ANY control node `cn1` (any fan-in, any type,
    success or error) the inputs of `cn2` are what they were before, unless `cn1` writes to a source of `cn2` -/
theorem moduleInputs_after_earlier (μ : Nat → List W → Option (List W)) (cn1 cn2 : NNodeS W) (s : St W)
    (hdisj : ∀ a ∈ cn2.incoming, ∀ b ∈ cn1.outgoing, b.dst ≠ a.src) :
    moduleInputs cn2 (activateModule μ cn1 s).1 = moduleInputs cn2 s := by
  apply moduleInputs_congr
  intro a ha
  rw [activateModule_other_nodes μ cn1 s a.src (hdisj a ha)]

end KindA

/-! ## Kind R: product / maximum / minimum of the module's own inputs -/
section KindR


/-- `NodeActivators.ActivateModuleByType` over the reals: the closure the REGENERATED registry selects for the type
    code (`reg.moduleOfCode`), in its regenerated real form (`ActR.moduleByName`); the Go closures return one value -/
noncomputable def muR (t : Nat) (xs : List ℝ) : Option (List ℝ) :=
  (reg.moduleOfCode t).bind fun fn => (ActR.moduleByName.lookup fn).map fun f => [(f xs).toReal]

theorem muR_multiply (xs : List ℝ) : muR 21 xs = some [xs.prod] := by
  simp [muR, activateModuleByType_closures.1, ActR.moduleByName, List.lookup, multiplyModule_eq_prod]

theorem muR_max (xs : List ℝ) (m : ℝ) (hm : xs.maximum = (m : WithBot ℝ)) : muR 22 xs = some [m] := by
  simp [muR, activateModuleByType_closures.2.1, ActR.moduleByName, List.lookup, maxModule_eq_maximum xs m hm]

theorem muR_min (xs : List ℝ) (m : ℝ) (hb : ∀ x ∈ xs, x ≤ maxFloat64) (hm : xs.minimum = (m : WithTop ℝ)) :
    muR 23 xs = some [m] := by
  simp [muR, activateModuleByType_closures.2.2, ActR.moduleByName, List.lookup, minModule_eq_minimum xs m hb hm]

/-- an undocumented type code is answered with the error of `ActivateModuleByType`, nothing is written -/
theorem muR_unknown (cn : NNodeS ℝ) (s : St ℝ) (h : docOfCode cn.act = none) :
    activateModule muR cn s = (s, some .unknownModAct) := by
  apply activateModule_unknown
  simp [muR, (unknown_code_error cn.act h).2.2]

/-- one value `v` for a module with one output link: no error, the output node holds `v` and is active -/
theorem activateModule_single (cn : NNodeS ℝ) (s : St ℝ) (l : NLink ℝ) (v : ℝ) (hout : cn.outgoing = [l])
    (hd : l.dst < s.length) (hμ : muR cn.act (moduleInputs cn s) = some [v]) :
    (activateModule muR cn s).2 = none ∧ (get (activateModule muR cn s).1 l.dst).activation = v ∧
      (get (activateModule muR cn s).1 l.dst).isActive = true := by
  obtain ⟨h1, h2⟩ := activateModule_writes muR cn s [v] hμ (by simp [hout])
  have h3 := h2 0 (by simp [hout]) (by simp [hout]) (by simpa [hout] using hd)
  simp only [hout, List.getElem_cons_zero] at h3
  refine ⟨h1, ?_, ?_⟩ <;> rw [h3] <;> rfl

/-- C18 on the call path of the solver, for EVERY control-node wiring `cn` (any fan-in, any sources) with one output
    link and EVERY state `s`: the value `ActivateModule` writes to the output node is the product / the maximum / the
    minimum of `xs` = the active outputs of exactly the module's own `Incoming` sources - `xs` is a function of `cn`
    and `s` only, there is no other argument an earlier call could have left behind. -/
theorem activateModule_own_inputs (cn : NNodeS ℝ) (s : St ℝ) (l : NLink ℝ) (hout : cn.outgoing = [l])
    (hd : l.dst < s.length) (xs : List ℝ) (hxs : xs = cn.incoming.map fun a => activeOut (get s a.src)) :
    (cn.act = 21 → (activateModule muR cn s).2 = none ∧ (get (activateModule muR cn s).1 l.dst).isActive = true ∧
        (get (activateModule muR cn s).1 l.dst).activation = xs.prod) ∧
    (cn.act = 22 → ∀ m : ℝ, xs.maximum = (m : WithBot ℝ) →
        (activateModule muR cn s).2 = none ∧ (get (activateModule muR cn s).1 l.dst).isActive = true ∧
        (get (activateModule muR cn s).1 l.dst).activation = m) ∧
    (cn.act = 23 → ∀ m : ℝ, (∀ x ∈ xs, x ≤ maxFloat64) → xs.minimum = (m : WithTop ℝ) →
        (activateModule muR cn s).2 = none ∧ (get (activateModule muR cn s).1 l.dst).isActive = true ∧
        (get (activateModule muR cn s).1 l.dst).activation = m) := by
  have hin : moduleInputs cn s = xs := by rw [hxs]; rfl
  refine ⟨fun ht => ?_, fun ht m hm => ?_, fun ht m hb hm => ?_⟩
  · obtain ⟨a, b, c⟩ := activateModule_single cn s l _ hout hd (by rw [ht, hin]; exact muR_multiply xs)
    exact ⟨a, c, b⟩
  · obtain ⟨a, b, c⟩ := activateModule_single cn s l _ hout hd (by rw [ht, hin]; exact muR_max xs m hm)
    exact ⟨a, c, b⟩
  · obtain ⟨a, b, c⟩ := activateModule_single cn s l _ hout hd (by rw [ht, hin]; exact muR_min xs m hb hm)
    exact ⟨a, c, b⟩

theorem length_activateModule' (cn : NNodeS ℝ) (s : St ℝ) : (activateModule muR cn s).1.length = s.length :=
  length_activateModule muR cn s

/-- two `ActivateModule` calls in sequence, `cn1` (ANY fan-in, type, number of output links; success or error) then
    `cn2`: the value `cn2` writes is the product / maximum / minimum of the active outputs its own sources had BEFORE
    the first call (`cn1` does not write to them) - nothing of the first call's inputs enters. -/
theorem module_sequence_own_inputs (cn1 cn2 : NNodeS ℝ) (s : St ℝ) (l : NLink ℝ) (hout : cn2.outgoing = [l])
    (hd : l.dst < s.length) (hdisj : ∀ a ∈ cn2.incoming, ∀ b ∈ cn1.outgoing, b.dst ≠ a.src)
    (xs : List ℝ) (hxs : xs = cn2.incoming.map fun a => activeOut (get s a.src)) (s2 : St ℝ × Option Err)
    (hs2 : s2 = activateModule muR cn2 (activateModule muR cn1 s).1) :
    (cn2.act = 21 → s2.2 = none ∧ (get s2.1 l.dst).isActive = true ∧ (get s2.1 l.dst).activation = xs.prod) ∧
    (cn2.act = 22 → ∀ m : ℝ, xs.maximum = (m : WithBot ℝ) →
        s2.2 = none ∧ (get s2.1 l.dst).isActive = true ∧ (get s2.1 l.dst).activation = m) ∧
    (cn2.act = 23 → ∀ m : ℝ, (∀ x ∈ xs, x ≤ maxFloat64) → xs.minimum = (m : WithTop ℝ) →
        s2.2 = none ∧ (get s2.1 l.dst).isActive = true ∧ (get s2.1 l.dst).activation = m) := by
  subst hs2
  apply activateModule_own_inputs cn2 _ l hout (by rw [length_activateModule']; exact hd) xs
  rw [hxs]
  exact (moduleInputs_after_earlier muR cn1 cn2 s hdisj).symm

end KindR

/-! ## non-vacuity: a module of fan-in 3 and then a module of fan-in 2, both of the maximum type -/
section NonVacuity

/-- sources 0,1,2 hold 2,3,5; sources 3,4 hold 1,2; nodes 5 and 6 are the two (fresh) output nodes -/
noncomputable def exState : St ℝ :=
  [sensorLoad 2 NState.fresh, sensorLoad 3 NState.fresh, sensorLoad 5 NState.fresh, sensorLoad 1 NState.fresh,
   sensorLoad 2 NState.fresh, NState.fresh, NState.fresh]
noncomputable def exLink (a b : Nat) : NLink ℝ := { src := a, dst := b, w := 1, recur := false }
noncomputable def exWide : NNodeS ℝ :=
  { id := 1000, kind := 0, act := 22, incoming := [exLink 0 7, exLink 1 7, exLink 2 7], outgoing := [exLink 7 5] }
noncomputable def exNarrow : NNodeS ℝ :=
  { id := 1001, kind := 0, act := 22, incoming := [exLink 3 8, exLink 4 8], outgoing := [exLink 8 6] }

theorem exWide_inputs : (exWide.incoming.map fun a => activeOut (get exState a.src)) = [2, 3, 5] := by
  simp [exWide, exLink, exState, Solver.get, activeOut, sensorLoad, saveActs, NState.fresh]

theorem exNarrow_inputs : (exNarrow.incoming.map fun a => activeOut (get exState a.src)) = [1, 2] := by
  simp [exNarrow, exLink, exState, Solver.get, activeOut, sensorLoad, saveActs, NState.fresh]

/-- the wide module returns 5 = max {2,3,5}; the narrow module activated AFTER it returns 2 = max {1,2} (the seeded
    pooled-buffer variant returned 5 here) -/
example :
    (get (activateModule muR exWide exState).1 5).activation = 5 ∧
    (get (activateModule muR exNarrow (activateModule muR exWide exState).1).1 6).activation = 2 := by
  constructor
  · have h := (activateModule_own_inputs exWide exState (exLink 7 5) rfl (by simp [exState, exLink]) [2, 3, 5]
      exWide_inputs.symm).2.1 rfl 5
      (List.maximum_eq_coe_iff.mpr ⟨by simp, by intro a ha; simp at ha; rcases ha with rfl | rfl | rfl <;> norm_num⟩)
    exact h.2.2
  · have h := (module_sequence_own_inputs exWide exNarrow exState (exLink 8 6) rfl (by simp [exState, exLink])
      (by intro a ha b hb; simp [exWide, exNarrow, exLink] at ha hb; rcases ha with rfl | rfl <;> subst hb <;> simp)
      [1, 2] exNarrow_inputs.symm _ rfl).2.1 rfl 2
      (List.maximum_eq_coe_iff.mpr ⟨by simp, by intro a ha; simp at ha; rcases ha with rfl | rfl <;> norm_num⟩)
    exact h.2.2

/-- hypotheses of the min clause are satisfiable: every element of [1, 2] is at most MaxFloat64 -/
example : ∀ x ∈ ([1, 2] : List ℝ), x ≤ maxFloat64 := by
  intro x hx
  have h : (2 : ℝ) ≤ maxFloat64 := by
    unfold maxFloat64
    have h1 : (1 : ℝ) ≤ 2 ^ 971 := one_le_pow₀ (by norm_num)
    have h2 : (2 : ℝ) ^ 1024 = 2 ^ 971 * 2 ^ 53 := by rw [← pow_add]
    rw [h2]
    generalize (2 : ℝ) ^ 971 = y at h1 ⊢
    norm_num
    linarith
  simp at hx
  rcases hx with rfl | rfl <;> linarith

/-- the error paths are reachable: a maximum module with two output links, and type code 24 -/
example : (activateModule muR { exNarrow with outgoing := [exLink 8 5, exLink 8 6] } exState).2 = some .moduleOutLen := by
  have hm : muR 22 [1, 2] = some [2] :=
    muR_max [1, 2] 2 (List.maximum_eq_coe_iff.mpr ⟨by simp, by intro a ha; simp at ha; rcases ha with rfl | rfl <;> norm_num⟩)
  rw [activateModule_outLen muR _ exState [2] (by rw [moduleInputs_def]; exact exNarrow_inputs ▸ hm) (by simp)]
example : (activateModule muR { exNarrow with act := 24 } exState).2 = some .unknownModAct := by
  rw [muR_unknown _ _ (by decide)]

end NonVacuity

end GoNeat.C18
