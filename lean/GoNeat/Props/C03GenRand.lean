/-
  Property C03 for the random constructors `newGenomeRand` / `NewPopulationRandom` (Model/GenomeRand.lean).  Kind A: for
  every scalar type, ALL parameters and ALL random streams.

  `C03.random_counters_inv` (Props/C03.lean) takes `RandShape` - "innovation numbers below total², node ids at most
  total" - as a hypothesis about the genomes `newGenomeRand` makes, together with the consistency of the pool.  Here both
  are PROVED of the model: every genome the model of `newGenomeRand(_, in, out, n, maxHidden, …)` returns with
  `n ≤ maxHidden` satisfies `RandShape in out maxHidden`, any pool of such genomes (same `in, out, maxHidden`; any ids,
  `n`, flags, probabilities, options, streams) is consistent, hence the counters `NewPopulationRandom` sets give the
  invariant, and the population the model of `NewPopulationRandom` returns is in the C03 state `PopC03` - the hypothesis of
  `C03.epoch_inv` / `C03.epochs_inv`.
-/
import GoNeat.Proofs.GenomeRand
import GoNeat.Proofs.EpochRegistry
import GoNeat.Proofs.MateLemmas
import GoNeat.Props.C03
import GoNeat.Props.C01GenRand

set_option linter.unusedSectionVars false
set_option linter.unusedVariables false

namespace GoNeat.C03
open GoNeat Scalar GoNeat.GenRand
variable {W : Type} [Scalar W]

/-- `g` is a result of the model of `newGenomeRand(_, in, out, n, maxHidden, …)` for some `n ≤ maxHidden` -/
def RandomGenome (nIn nOut mH : Nat) (g : Genome W) : Prop :=
  ∃ (newId : Int) (n : Nat) (recurrent : Bool) (linkProb : W) (o : MutOpts W) (rs rs' : List Nat),
    n ≤ mH ∧ newGenomeRand newId nIn nOut n mH recurrent linkProb o rs = .ok (g, rs')

/-- binding of the gene in cell (column `1+i`, row `1+j`) of a `T × T` connection matrix -/
def cellBind (T i j : Nat) : Bind := (((i * T + j : Nat) : Int), ((1 + j : Nat) : Int), ((1 + i : Nat) : Int), !decide (1 + i > 1 + j))

theorem cellBind_inj (T i j i' j' : Nat) (hj : j < T) (hj' : j' < T) (h : (cellBind T i j).1 = (cellBind T i' j').1) :
    cellBind T i j = cellBind T i' j' := by
  simp only [cellBind] at h
  have h' : i * T + j = i' * T + j' := by exact_mod_cast h
  have hT : 0 < T := by omega
  have d1 : (j + i * T) / T = i := by rw [Nat.add_mul_div_right _ _ hT, Nat.div_eq_of_lt hj]; omega
  have d2 : (j' + i' * T) / T = i' := by rw [Nat.add_mul_div_right _ _ hT, Nat.div_eq_of_lt hj']; omega
  have hi : i = i' := by rw [← d1, ← d2, Nat.add_comm j, Nat.add_comm j', h']
  subst hi
  have hjj : j = j' := by omega
  subst hjj
  rfl

theorem randomGenome_binds {nIn nOut mH : Nat} {g : Genome W} (h : RandomGenome nIn nOut mH g) :
    ∀ x ∈ g.genes, ∃ i j, i < nIn + nOut + mH ∧ j < nIn + nOut + mH ∧ geneBind x = cellBind (nIn + nOut + mH) i j := by
  obtain ⟨newId, n, recurrent, linkProb, o, rs, rs', hn, h⟩ := h
  intro x hx
  obtain ⟨i, j, hi, hj, hf⟩ := (newGenomeRand_facts newId nIn nOut n mH recurrent linkProb o rs rs' g h).1.cells x hx
  refine ⟨i, j, hi, hj, ?_⟩
  unfold geneBind cellBind
  rw [hf.inn, hf.src, hf.dst, hf.recur]

/-- **C03 (newGenomeRand, numbering scheme).** `RandShape in out maxHidden` holds of every genome the model returns (with
    `n ≤ maxHidden`): innovation numbers are below `(in+out+maxHidden)²`, node ids at most `in+out+maxHidden`. -/
theorem genomeRand_randShape (newId : Int) (nIn nOut n mH : Nat) (recurrent : Bool) (linkProb : W) (o : MutOpts W)
    (rs rs' : List Nat) (g : Genome W) (hn : n ≤ mH)
    (h : newGenomeRand newId nIn nOut n mH recurrent linkProb o rs = .ok (g, rs')) :
    RandShape (nIn : Int) (nOut : Int) (mH : Int) g := by
  have F := (newGenomeRand_facts newId nIn nOut n mH recurrent linkProb o rs rs' g h).1
  refine ⟨fun x hx => ?_, fun m hm => ?_⟩
  · obtain ⟨i, j, hi, hj, hf⟩ := F.cells x hx
    have h1 : (i + 1) * (nIn + nOut + mH) ≤ (nIn + nOut + mH) * (nIn + nOut + mH) := Nat.mul_le_mul_right _ (by omega)
    rw [Nat.succ_mul] at h1
    have h2 : i * (nIn + nOut + mH) + j < (nIn + nOut + mH) * (nIn + nOut + mH) := by omega
    rw [hf.inn]
    exact_mod_cast h2
  · obtain ⟨_, hk⟩ := F.nodesFact m hm
    rcases hk with ⟨a, b, c⟩ | ⟨a, b, c⟩ | ⟨a, b, c⟩ <;> omega

/-- **C03 (pool of random genomes).** Any collection of genomes made by `newGenomeRand` with the same `(in, out, maxHidden)`
    - whatever their ids, `n ≤ maxHidden`, recurrence switches, link probabilities, options and random streams - is
    consistent: an innovation number denotes the same link, a node id the same role, in all of them. -/
theorem genomeRand_pool_consistent (nIn nOut mH : Nat) (gs : List (Genome W)) (h : ∀ g ∈ gs, RandomGenome nIn nOut mH g) :
    ConsistentGenes gs ∧ ConsistentRoles gs := by
  constructor
  · intro a ha b hb hab
    obtain ⟨g1, hg1, ha⟩ := List.mem_flatMap.mp ha
    obtain ⟨x, hx, rfl⟩ := List.mem_map.mp ha
    obtain ⟨g2, hg2, hb⟩ := List.mem_flatMap.mp hb
    obtain ⟨y, hy, rfl⟩ := List.mem_map.mp hb
    obtain ⟨i, j, _, hj, e1⟩ := randomGenome_binds (h g1 hg1) x hx
    obtain ⟨i', j', _, hj', e2⟩ := randomGenome_binds (h g2 hg2) y hy
    rw [e1, e2] at hab ⊢
    exact cellBind_inj _ i j i' j' hj hj' hab
  · intro a ha b hb hab
    obtain ⟨g1, hg1, ha⟩ := List.mem_flatMap.mp ha
    obtain ⟨x, hx, rfl⟩ := List.mem_map.mp ha
    obtain ⟨g2, hg2, hb⟩ := List.mem_flatMap.mp hb
    obtain ⟨y, hy, rfl⟩ := List.mem_map.mp hb
    obtain ⟨id1, n1, r1, p1, o1, s1, s1', hn1, h1⟩ := h g1 hg1
    obtain ⟨id2, n2, r2, p2, o2, s2, s2', hn2, h2⟩ := h g2 hg2
    have k1 := (C01.genomeRand_roles id1 nIn nOut n1 mH r1 p1 o1 s1 s1' g1 hn1 h1 x hx).2.2.1
    have k2 := (C01.genomeRand_roles id2 nIn nOut n2 mH r2 p2 o2 s2 s2' g2 hn2 h2 y hy).2.2.1
    simp only [nodeRole] at hab ⊢
    rw [k1, k2, hab]

/-- **C03 (NewPopulationRandom counters, hypothesis discharged).** For any pool of genomes made by the model of `newGenomeRand`
    with the same `(in, out, maxHidden)` the counters `randomCounters` that `NewPopulationRandom` sets give the invariant:
    `random_counters_inv` with its hypotheses `RandShape`, `ConsistentGenes`, `ConsistentRoles` proved instead of assumed. -/
theorem genomeRand_counters_inv (nIn nOut mH : Nat) (gs : List (Genome W)) (h : ∀ g ∈ gs, RandomGenome nIn nOut mH g) :
    Inv ({ records := [], nextInn := (randomCounters (nIn : Int) nOut mH).2, nextNode := (randomCounters (nIn : Int) nOut mH).1 } : Reg W) gs :=
  random_counters_inv (nIn : Int) (nOut : Int) (mH : Int) gs
    (fun g hg => by
      obtain ⟨id, n, r, p, o, s, s', hn, hh⟩ := h g hg
      exact genomeRand_randShape id nIn nOut n mH r p o s s' g hn hh)
    (genomeRand_pool_consistent nIn nOut mH gs h).1 (genomeRand_pool_consistent nIn nOut mH gs h).2

/-! ### NewPopulationRandom -/

theorem randomOrgs_made (o : EpochOpts W) (nIn nOut mH : Nat) (recurrent : Bool) (linkProb : W) (k : Nat) (count : Int) (uid : Nat)
    (rs rs' : List Nat) (orgs : List (Org W)) (h : randomOrgs o nIn nOut mH recurrent linkProb k count uid rs = .ok (orgs, rs')) :
    ∀ org ∈ orgs, RandomGenome nIn nOut mH org.genome := by
  induction k generalizing count uid rs rs' orgs with
  | zero => simp only [randomOrgs, Except.ok.injEq, Prod.mk.injEq] at h; obtain ⟨rfl, _⟩ := h; intro _ h; cases h
  | succ k ih =>
    unfold randomOrgs at h
    split at h
    · cases h
    · rename_i n rs1 hn
      split at h
      · cases h
      · rename_i g rs2 hg
        split at h
        · cases h
        · rename_i rest rs3 hrest
          simp only [Except.ok.injEq, Prod.mk.injEq] at h
          obtain ⟨rfl, _⟩ := h
          intro org horg
          rcases List.mem_cons.mp horg with rfl | horg
          · exact ⟨count, n, recurrent, linkProb, o.mopts, rs1, rs2, Nat.le_of_lt (C04.intn_lt mH rs rs1 n hn), hg⟩
          · exact ih _ _ _ _ _ hrest org horg

/-- **C03 (NewPopulationRandom).** Whenever the model of `NewPopulationRandom(in, out, maxHidden, recurrent, linkProb, opts)`
    returns a population `p` - for all parameters, options and random streams - `p` is in the C03 state `PopC03 H p` for the
    history `H` = the genomes of its organisms: `Inv` holds for its registry (counters `in+out+maxHidden+1` and
    `(in+out+maxHidden)²+1`, no records) and `H`, and every organism's bindings are in `H`.  This is the hypothesis of
    `epoch_inv` / `epochs_inv`: a run that starts from a random population keeps C03 for any number of generations. -/
theorem newPopulationRandom_counters_inv (o : EpochOpts W) (nIn nOut mH : Nat) (recurrent : Bool) (linkProb : W)
    (rs rs' : List Nat) (p : Pop W) (h : newPopulationRandom o nIn nOut mH recurrent linkProb rs = .ok (p, rs')) :
    ∃ H : List (Genome W), (∀ g ∈ H, RandomGenome nIn nOut mH g) ∧ PopC03 H p ∧
      p.reg.nextNode = (randomCounters (nIn : Int) nOut mH).1 ∧ p.reg.nextInn = (randomCounters (nIn : Int) nOut mH).2 := by
  unfold newPopulationRandom at h
  split at h
  · cases h
  · split at h
    · cases h
    · rename_i orgs rs1 hloop
      simp only at h
      split at h
      · cases h
      · rename_i p' hsp
        simp only [Except.ok.injEq, Prod.mk.injEq] at h
        obtain ⟨rfl, _⟩ := h
        have hmade := randomOrgs_made o nIn nOut mH recurrent linkProb _ _ _ _ _ _ hloop
        refine ⟨orgs.map (·.genome), fun g hg => ?_, ?_, ?_⟩
        · obtain ⟨org, horg, rfl⟩ := List.mem_map.mp hg
          exact hmade org horg
        · have hin : ∀ x ∈ orgs, AllB (· ∈ binds (orgs.map (·.genome))) (· ∈ roles (orgs.map (·.genome))) x.genome :=
            fun x hx => GenomeIn.of_mem (List.mem_map_of_mem hx)
          obtain ⟨c1, r1⟩ := speciate_all o _ p' orgs hsp (fun s hs => by cases hs) hin
          simp only at r1
          have hinv := genomeRand_counters_inv nIn nOut mH (orgs.map (·.genome)) (fun g hg => by
            obtain ⟨org, horg, rfl⟩ := List.mem_map.mp hg
            exact hmade org horg)
          have hreg : p'.reg = ({ records := [], nextInn := (randomCounters (nIn : Int) nOut mH).2,
                                  nextNode := (randomCounters (nIn : Int) nOut mH).1 } : Reg W) := by
            rw [r1]; simp only [randomCounters]; congr 1 <;> (push_cast; rfl)
          exact ⟨hreg ▸ hinv, c1, by rw [r1]⟩
        · obtain ⟨_, r1⟩ := speciate_all (φ := fun _ => True) (ψ := fun _ => True) o _ p' orgs hsp (fun s hs => by cases hs)
            (fun x hx => ⟨fun _ _ => trivial, fun _ _ => trivial⟩)
          rw [r1]; simp only [randomCounters]
          constructor <;> (push_cast; rfl)

/-! ### non-vacuity -/

section Examples
open GoNeat.ExactInt

/-- the model of `newGenomeRand` returns genomes for `(in, out, maxHidden) = (2, 1, 1)` with `n = 0` and `n = 1`; the pool of
    both satisfies the hypothesis of `genomeRand_counters_inv`, and the conclusion is confirmed by evaluation -/
example : (match newGenomeRand 1 2 1 0 1 true (1 : Int) C01.moR C01.rsR, newGenomeRand 2 2 1 1 1 false (1 : Int) C01.moR C01.rsR with
  | .ok (g1, _), .ok (g2, _) =>
    decide (g1.genes.length = 3) && decide (g2.genes.length = 5) &&
    decide (Inv ({ records := [], nextInn := 17, nextNode := 5 } : Reg Int) [g1, g2]) && decide (RandShape 2 1 1 g1) && decide (RandShape 2 1 1 g2)
  | _, _ => false) = true := by decide

end Examples

end GoNeat.C03
