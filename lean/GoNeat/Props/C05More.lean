/-
  Property C05, second part — the clauses that Props/C05.lean left to correspondence:
  connect-sensors, the composition `mutateAllNonstructural`, and the `false` results of add-link / add-node.
  Kind A: every theorem holds for every scalar type `W`, every random stream, every registry and all options.
-/
import GoNeat.Props.C05
import GoNeat.Proofs.MutateLemmas
import GoNeat.Proofs.ScalarInt

namespace GoNeat.C05
open GoNeat Scalar MutateLemmas
variable {W : Type} [Scalar W]

/-! ### connect-sensors -/

/-- "unconnected" exactly as `mutateConnectSensors` tests it: NO gene of the genome — enabled or disabled,
    recurrent or not — has the sensor's id as its source (`gene.Link.InNode.Id == sensor.Id` never holds) -/
def Unconnected (g : Genome W) (s : Node) : Prop := ∀ x ∈ g.genes, x.src ≠ s.id
instance (g : Genome W) (s : Node) : Decidable (Unconnected g s) := by unfold Unconnected; infer_instance

/-- the non-sensor nodes (hidden and output), in node order: the targets of connect-sensors -/
def nonSensors (g : Genome W) : List Node := g.nodes.filter (fun n => !n.isSensor)

/-- what a successful connect-sensors does to a genome -/
structure ConnectSensorsRel (g g' : Genome W) : Prop where
  id : g'.id = g.id
  nodes : g'.nodes = g.nodes
  traits : g'.traits = g.traits
  modules : g'.modules = g.modules
  /-- one sensor (input or bias node) of the genome that no gene left; `new` = the inserted genes -/
  witness : ∃ sensor ∈ g.nodes, sensor.isSensor = true ∧ Unconnected g sensor ∧
    ∃ new : List (Gene W), new ≠ [] ∧
      -- only adds genes: each one put in by the ordered insertion, old genes all kept, in their order, untouched
      g'.genes = new.foldl geneInsert g.genes ∧ g.genes.Sublist g'.genes ∧ g'.genes.Perm (g.genes ++ new) ∧
      -- all from that one sensor, enabled, non-recurrent, trait = one of the genome's traits
      (∀ x ∈ new, x.src = sensor.id ∧ x.recur = false ∧ x.en = true ∧ ∃ t ∈ g.traits, x.trait = some t.id) ∧
      -- one to every non-sensor node: no two new genes share a target, every non-sensor node id is a target,
      -- every target is a non-sensor node
      (new.map (·.dst)).Nodup ∧
      (∀ o ∈ nonSensors g, o.id ∈ new.map (·.dst)) ∧
      (∀ x ∈ new, ∃ o ∈ nonSensors g, o.id = x.dst) ∧
      -- with unique node ids (C01): exactly one new gene per non-sensor node
      ((g.nodes.map (·.id)).Nodup → (new.map (·.dst)).Perm ((nonSensors g).map (·.id)))

/-- **C05 (connect-sensors).** For every stream and every registry: a successful `mutateConnectSensors` only
    adds genes, all from ONE sensor that previously had no outgoing gene at all (`Unconnected`), one to every
    non-sensor node; node list, traits, modules and all existing genes are untouched.  The code's test "skip a
    target already linked from the sensor" can only fire for a second node carrying the id of an earlier target
    (the sensor had no gene), which is why no two new genes share a target; its "innovation already in this
    genome" exit is dead (see `connectOne_spec`).  Result `false` ⇒ genome and registry unchanged. -/
theorem mutateConnectSensors_spec (g g' : Genome W) (reg reg' : Reg W) (res : Bool) (rs rs' : List Nat)
    (h : mutateConnectSensors g reg rs = .ok ((g', reg', res), rs')) :
    (res = true → ConnectSensorsRel g g') ∧ (res = false → g' = g ∧ reg' = reg) := by
  unfold mutateConnectSensors at h
  split at h
  · cases h
  · simp only at h
    split at h
    · simp only [Except.ok.injEq, Prod.mk.injEq] at h
      obtain ⟨⟨rfl, rfl, rfl⟩, _⟩ := h
      exact ⟨fun h => (by cases h), fun _ => ⟨rfl, rfl⟩⟩
    · split at h
      · cases h
      · rename_i k rs1 _
        split at h
        · cases h
        · rename_i sensor hk
          have hmem := List.mem_of_getElem? hk
          simp only [List.mem_filter, Bool.not_eq_true'] at hmem
          obtain ⟨⟨hsn, hsens⟩, hdis⟩ := hmem
          have hun : Unconnected g sensor := by
            intro x hx hsrc
            have := List.any_eq_false.mp hdis x hx
            simp [hsrc] at this
          obtain ⟨i1, i2, i3, i4, new, n1, n2, n3, n4, n5, n6⟩ := connectLoop_spec _ _ _ _ _ _ _ _ _ _ h
          simp only [Bool.false_or] at n5
          have hcover : ∀ o ∈ nonSensors g, o.id ∈ new.map (·.dst) := by
            intro o ho
            rcases n4 o ho with ⟨y, hy, hys, _⟩ | hin
            · exact absurd hys (hun y hy)
            · exact hin
          have htargets : ∀ x ∈ new, ∃ o ∈ nonSensors g, o.id = x.dst := fun x hx => (n2 x hx).2.2.2.2.1
          refine ⟨?_, ?_⟩
          · intro hres
            subst hres
            have hne : new ≠ [] := by
              intro he; subst he; simp at n5
            refine ⟨i1, i2, i3, i4, sensor, hsn, hsens, hun, new, hne, n1, ?_, ?_, ?_, n3, hcover, htargets, ?_⟩
            · rw [n1]; exact foldl_geneInsert_sublist _ _
            · rw [n1]; exact foldl_geneInsert_perm _ _
            · intro x hx
              obtain ⟨a, b, c, d, _⟩ := n2 x hx
              exact ⟨a, b, c, d⟩
            · intro hnd
              have hnd2 : ((nonSensors g).map (·.id)).Nodup :=
                (List.filter_sublist.map _).nodup hnd
              rw [List.perm_ext_iff_of_nodup n3 hnd2]
              intro d
              constructor
              · intro hd
                obtain ⟨x, hx, rfl⟩ := List.mem_map.mp hd
                obtain ⟨o, ho, hod⟩ := htargets x hx
                exact List.mem_map.mpr ⟨o, ho, hod⟩
              · intro hd
                obtain ⟨o, ho, rfl⟩ := List.mem_map.mp hd
                exact hcover o ho
          · intro hres
            subst hres
            have he : new = [] := by
              cases new with
              | nil => rfl
              | cons a as => simp at n5
            exact n6 he

/-! ### `false` results of add-link and add-node -/

/-- **C05 (add-link, no-op paths).** When `mutateAddLink` reports `false` — no open node pair found within
    `NewLinkTries`, or the registry's innovation for the pair is already a gene of this genome — genome and
    registry are returned unchanged. -/
theorem mutateAddLink_false (g g' : Genome W) (reg reg' : Reg W) (o : MutOpts W) (rs rs' : List Nat)
    (h : mutateAddLink g reg o rs = .ok ((g', reg', false), rs')) : g' = g ∧ reg' = reg := by
  unfold mutateAddLink at h
  split at h
  · cases h
  · split at h
    · cases h
    · split at h
      · cases h
      · simp only at h
        split at h
        · cases h
        · simp only [Except.ok.injEq, Prod.mk.injEq] at h
          obtain ⟨⟨rfl, rfl, _⟩, _⟩ := h
          exact ⟨rfl, rfl⟩
        · simp at h
        · split at h
          · split at h
            · cases h
            · split at h
              · simp only [Except.ok.injEq, Prod.mk.injEq] at h
                obtain ⟨⟨rfl, rfl, _⟩, _⟩ := h
                exact ⟨rfl, rfl⟩
              · split at h
                · cases h
                · simp at h
          · split at h
            · cases h
            · split at h
              · cases h
              · split at h
                · cases h
                · split at h
                  · cases h
                  · simp at h

/-- **C05 (add-node, no-op paths — documented observation).** When `mutateAddNode` reports `false`, registry,
    node list, traits and modules are unchanged, and the gene list is either unchanged (no gene / no splittable
    gene picked) or — on the "innovation already in this genome" exit — differs in exactly one thing: the chosen,
    previously enabled gene `old` is now DISABLED.  That exit is taken only when the registry holds a new-node
    record for `old` whose node id already is a node of the genome.  (The property statement constrains only
    successful add-node; this theorem records what the code does, it does not call it a violation.) -/
theorem mutateAddNode_false (g g' : Genome W) (reg reg' : Reg W) (o : MutOpts W) (rs rs' : List Nat)
    (h : mutateAddNode g reg o rs = .ok ((g', reg', false), rs')) :
    reg' = reg ∧ g'.id = g.id ∧ g'.nodes = g.nodes ∧ g'.traits = g.traits ∧ g'.modules = g.modules ∧
    (g' = g ∨ ∃ (k : Nat) (old : Gene W) (inn : Innov W),
        g.genes[k]? = some old ∧ old.en = true ∧ g'.genes = setEnabledAt g.genes k false ∧
        inn ∈ reg.records ∧ inn.typ = 1 ∧ inn.inId = old.src ∧ inn.outId = old.dst ∧ inn.oldInn = old.inn ∧
        g.hasNode inn.newNode = true) := by
  unfold mutateAddNode at h
  split at h
  · simp only [Except.ok.injEq, Prod.mk.injEq] at h
    obtain ⟨⟨rfl, rfl, _⟩, _⟩ := h
    exact ⟨rfl, rfl, rfl, rfl, rfl, .inl rfl⟩
  · simp only at h
    split at h
    · cases h
    · simp only [Except.ok.injEq, Prod.mk.injEq] at h
      obtain ⟨⟨rfl, rfl, _⟩, _⟩ := h
      exact ⟨rfl, rfl, rfl, rfl, rfl, .inl rfl⟩
    · rename_i k rs1 hpick
      have hsp : ∃ x, g.genes[k]? = some x ∧ splittable g x = true := by
        split at hpick
        · obtain ⟨x, _, hx, hs⟩ := pickSplitSmall_spec g g.genes 0 rs rs1 k hpick
          exact ⟨x, by simpa using hx, hs⟩
        · exact pickSplitLarge_spec g 20 rs rs1 k hpick
      obtain ⟨old, hold, hsplit⟩ := hsp
      have hen : old.en = true := by
        unfold splittable at hsplit; simp only [Bool.and_eq_true] at hsplit; exact hsplit.1
      rw [hold] at h
      simp only at h
      split at h
      · rename_i inn hfind
        split at h
        · cases h
        · split at h
          · rename_i hhas
            simp only [Except.ok.injEq, Prod.mk.injEq] at h
            obtain ⟨⟨rfl, rfl, _⟩, _⟩ := h
            have hp := List.find?_some hfind
            simp only [Bool.and_eq_true, beq_iff_eq] at hp
            exact ⟨rfl, rfl, rfl, rfl, rfl, .inr ⟨k, old, inn, hold, hen, rfl, List.mem_of_find?_eq_some hfind,
              hp.1.1.1, hp.1.1.2, hp.1.2, hp.2, hhas⟩⟩
          · simp at h
      · split at h
        · cases h
        · split at h
          · cases h
          · simp at h

/-! ### mutateAllNonstructural: the composition of the parametric mutators under random gates -/

/-- one gate: draw `x`, run `f` when `x < prob` -/
def stage (prob : W) (f : Genome W → Rand (Genome W)) (g : Genome W) : Rand (Genome W) := fun rs =>
  match Rand.float64 (W := W) rs with
  | .error e => .error e
  | .ok (x, rs') => if lt x prob then f g rs' else .ok (g, rs')

theorem stage_cases (prob : W) (f : Genome W → Rand (Genome W)) (g g' : Genome W) (rs rs' : List Nat)
    (h : stage prob f g rs = .ok (g', rs')) : g' = g ∨ ∃ rs0, f g rs0 = .ok (g', rs') := by
  unfold stage at h
  split at h
  · cases h
  · split at h
    · exact .inr ⟨_, h⟩
    · cases h; exact .inl rfl

/-- **C05 (composition).** A run of `mutateAllNonstructural` is six gated stages in this order, each either
    skipped (genome passed on unchanged) or one `ok` run of: random-trait, link-trait (1 round), node-trait
    (1 round), link-weights (gaussian, rate 1, power `WeightMutPower`), toggle-enable (1 round), re-enable. -/
theorem mutateAllNonstructural_stages (g g' : Genome W) (o : MutOpts W) (rs rs' : List Nat)
    (h : mutateAllNonstructural g o rs = .ok (g', rs')) :
    ∃ g1 g2 g3 g4 g5 : Genome W,
      (g1 = g ∨ ∃ a b, mutateRandomTrait g o a = .ok (g1, b)) ∧
      (g2 = g1 ∨ ∃ a b, mutateLinkTrait g1 1 a = .ok (g2, b)) ∧
      (g3 = g2 ∨ ∃ a b, mutateNodeTrait g2 1 a = .ok (g3, b)) ∧
      (g4 = g3 ∨ ∃ a b, mutateLinkWeights g3 o.weightMutPower one .gaussian a = .ok (g4, b)) ∧
      (g5 = g4 ∨ ∃ a b, mutateToggleEnable g4 1 a = .ok (g5, b)) ∧
      (g' = g5 ∨ mutateGeneReEnable g5 = .ok g') := by
  have heq : mutateAllNonstructural g o rs =
      (match stage o.mutateRandomTraitProb (fun g => mutateRandomTrait g o) g rs with
       | .error e => .error e
       | .ok (g1, rs1) =>
         match stage o.mutateLinkTraitProb (fun g => mutateLinkTrait g 1) g1 rs1 with
         | .error e => .error e
         | .ok (g2, rs2) =>
           match stage o.mutateNodeTraitProb (fun g => mutateNodeTrait g 1) g2 rs2 with
           | .error e => .error e
           | .ok (g3, rs3) =>
             match stage o.mutateLinkWeightsProb (fun g => mutateLinkWeights g o.weightMutPower one .gaussian) g3 rs3 with
             | .error e => .error e
             | .ok (g4, rs4) =>
               match stage o.mutateToggleEnableProb (fun g => mutateToggleEnable g 1) g4 rs4 with
               | .error e => .error e
               | .ok (g5, rs5) =>
                 stage o.mutateGeneReenableProb (fun g => fun rs => match mutateGeneReEnable g with
                                                                   | .error e => .error e
                                                                   | .ok g' => .ok (g', rs)) g5 rs5) := rfl
  rw [heq] at h
  split at h
  · cases h
  · rename_i g1 rs1 h1
    split at h
    · cases h
    · rename_i g2 rs2 h2
      split at h
      · cases h
      · rename_i g3 rs3 h3
        split at h
        · cases h
        · rename_i g4 rs4 h4
          split at h
          · cases h
          · rename_i g5 rs5 h5
            refine ⟨g1, g2, g3, g4, g5, ?_, ?_, ?_, ?_, ?_, ?_⟩
            · exact (stage_cases _ _ _ _ _ _ h1).imp id (fun ⟨a, ha⟩ => ⟨a, _, ha⟩)
            · exact (stage_cases _ _ _ _ _ _ h2).imp id (fun ⟨a, ha⟩ => ⟨a, _, ha⟩)
            · exact (stage_cases _ _ _ _ _ _ h3).imp id (fun ⟨a, ha⟩ => ⟨a, _, ha⟩)
            · exact (stage_cases _ _ _ _ _ _ h4).imp id (fun ⟨a, ha⟩ => ⟨a, _, ha⟩)
            · exact (stage_cases _ _ _ _ _ _ h5).imp id (fun ⟨a, ha⟩ => ⟨a, _, ha⟩)
            · rcases stage_cases _ _ _ _ _ _ h with h6 | ⟨a, h6⟩
              · exact .inl h6
              · right
                split at h6
                · cases h6
                · rename_i gr hr
                  simp only [Except.ok.injEq, Prod.mk.injEq] at h6
                  rw [hr, h6.1]

/-- what no parametric mutation may touch: node set (ids, roles, activation types), gene skeleton (innovation
    numbers, endpoints, recurrence flags, order and number of genes), trait ids, modules -/
structure ParamOnly (g g' : Genome W) : Prop where
  nodes : g'.nodes.map (fun n => (n.id, n.kind, n.act)) = g.nodes.map (fun n => (n.id, n.kind, n.act))
  genes : g'.genes.map Gene.skel = g.genes.map Gene.skel
  traits : g'.traits.map (·.id) = g.traits.map (·.id)
  modules : g'.modules = g.modules

omit [Scalar W] in
theorem ParamOnly.rfl' (g : Genome W) : ParamOnly g g := ⟨rfl, rfl, rfl, rfl⟩
omit [Scalar W] in
theorem ParamOnly.trans {a b c : Genome W} (h1 : ParamOnly a b) (h2 : ParamOnly b c) : ParamOnly a c :=
  ⟨h2.1.trans h1.1, h2.2.trans h1.2, h2.3.trans h1.3, h2.4.trans h1.4⟩
omit [Scalar W] in
theorem ParamOnly.of_or {a b : Genome W} {P : Prop} (h : b = a ∨ P) (hp : P → ParamOnly a b) : ParamOnly a b := by
  rcases h with rfl | h
  · exact ParamOnly.rfl' _
  · exact hp h

omit [Scalar W] in
theorem core_to_skel (a b : List (Gene W)) (h : b.map Gene.core = a.map Gene.core) :
    b.map Gene.skel = a.map Gene.skel ∧ b.map (·.en) = a.map (·.en) := by
  have h1 := congrArg (List.map (fun c : Int × Int × Int × Bool × Bool × Option Int => (c.1, c.2.1, c.2.2.1, c.2.2.2.1))) h
  have h2 := congrArg (List.map (fun c : Int × Int × Int × Bool × Bool × Option Int => c.2.2.2.2.1)) h
  simp only [List.map_map] at h1 h2
  exact ⟨h1, h2⟩

omit [Scalar W] in
theorem reenableFirst_skel (genes : List (Gene W)) : (reenableFirst genes).map Gene.skel = genes.map Gene.skel := by
  induction genes with
  | nil => rfl
  | cons x xs ih =>
    unfold reenableFirst
    split
    · rfl
    · simp only [List.map_cons, ih]

/-- **C05 (composition, what is untouched).** `mutateAllNonstructural` never changes the node set, gene
    endpoints, recurrence flags, innovation numbers, the number or order of genes, the trait ids or the
    modules — for every option setting (all six gate probabilities) and every stream.  What it can change is
    the complement: trait parameters, trait references of nodes and genes, weights and mutation numbers,
    enabled flags. -/
theorem mutateAllNonstructural_paramOnly (g g' : Genome W) (o : MutOpts W) (rs rs' : List Nat)
    (h : mutateAllNonstructural g o rs = .ok (g', rs')) : ParamOnly g g' := by
  obtain ⟨g1, g2, g3, g4, g5, s1, s2, s3, s4, s5, s6⟩ := mutateAllNonstructural_stages g g' o rs rs' h
  have p1 : ParamOnly g g1 := ParamOnly.of_or s1 (fun ⟨a, b, e⟩ => by
    obtain ⟨x1, x2, x3, x4⟩ := mutateRandomTrait_paramOnly _ _ _ _ _ e
    exact ⟨by rw [x1], by rw [x2], x4, x3⟩)
  have p2 : ParamOnly g1 g2 := ParamOnly.of_or s2 (fun ⟨a, b, e⟩ => by
    obtain ⟨x1, x2, x3, x4, _, _⟩ := mutateLinkTrait_paramOnly _ _ _ _ _ e
    exact ⟨by rw [x1], x4, by rw [x2], x3⟩)
  have p3 : ParamOnly g2 g3 := ParamOnly.of_or s3 (fun ⟨a, b, e⟩ => by
    obtain ⟨x1, x2, x3, x4⟩ := mutateNodeTrait_paramOnly _ _ _ _ _ e
    exact ⟨x4, by rw [x1], by rw [x2], x3⟩)
  have p4 : ParamOnly g3 g4 := ParamOnly.of_or s4 (fun ⟨a, b, e⟩ => by
    obtain ⟨_, x1, x2, x3, x4, _⟩ := mutateLinkWeights_paramOnly _ _ _ _ _ _ _ e
    exact ⟨by rw [x1], (core_to_skel _ _ x4).1, by rw [x2], x3⟩)
  have p5 : ParamOnly g4 g5 := ParamOnly.of_or s5 (fun ⟨a, b, e⟩ => by
    obtain ⟨x1, x2, x3, x4, _⟩ := mutateToggleEnable_spec _ _ _ _ _ e
    exact ⟨by rw [x1], x4, by rw [x2], x3⟩)
  have p6 : ParamOnly g5 g' := ParamOnly.of_or s6 (fun e => by
    obtain ⟨x1, x2, x3, x4⟩ := mutateGeneReEnable_spec _ _ e
    exact ⟨by rw [x1], by rw [x4]; exact reenableFirst_skel _, by rw [x2], x3⟩)
  exact p1.trans (p2.trans (p3.trans (p4.trans (p5.trans p6))))

/-! #### enabled flags under the composition -/

omit [Scalar W] in
theorem hasOutlet_of_maps (a b : List (Gene W)) (hs : b.map Gene.skel = a.map Gene.skel)
    (he : b.map (·.en) = a.map (·.en)) (s : Int) (h : HasOutlet a s) : HasOutlet b s := by
  obtain ⟨x, hx, hsrc, hen⟩ := h
  obtain ⟨i, hi⟩ := List.getElem?_of_mem hx
  have h1 := congrArg (·[i]?) hs
  have h2 := congrArg (·[i]?) he
  simp only [List.getElem?_map, hi, Option.map_some] at h1 h2
  cases hb : b[i]? with
  | none => simp [hb] at h1
  | some y =>
    simp only [hb, Option.map_some, Option.some.injEq] at h1 h2
    have hsrc' : y.src = x.src := by
      have := congrArg (fun c : Int × Int × Int × Bool => c.2.1) h1
      simpa [Gene.skel] using this
    exact ⟨y, List.mem_of_getElem? hb, by rw [hsrc', hsrc], by rw [h2, hen]⟩

theorem reenableFirst_outlets (genes : List (Gene W)) (s : Int) (h : HasOutlet genes s) :
    HasOutlet (reenableFirst genes) s := by
  obtain ⟨x, hx, hsrc, hen⟩ := h
  rcases reenableFirst_spec genes with ⟨_, heq⟩ | ⟨pre, z, post, hg, _, hz, hr⟩
  · rw [heq]; exact ⟨x, hx, hsrc, hen⟩
  · rw [hr]
    rw [hg] at hx
    rcases List.mem_append.mp hx with hx | hx
    · exact ⟨x, List.mem_append_left _ hx, hsrc, hen⟩
    · rcases List.mem_cons.mp hx with rfl | hx
      · rw [hz] at hen; cases hen
      · exact ⟨x, List.mem_append_right _ (List.mem_cons_of_mem _ hx), hsrc, hen⟩

/-- **C05 (composition, enabled flags).** Under `mutateAllNonstructural` the enabled flags change only by the
    two rules already proved: up to and including the weight stage no flag moves (`gw`); the toggle stage (`gt`)
    keeps an enabled outgoing gene for every node that had one; the final stage is the identity or enables exactly
    the first disabled gene.  Consequently no node that had an enabled outgoing gene ends without one. -/
theorem mutateAllNonstructural_enabled (g g' : Genome W) (o : MutOpts W) (rs rs' : List Nat)
    (h : mutateAllNonstructural g o rs = .ok (g', rs')) :
    (∃ gw gt : Genome W,
      gw.genes.map Gene.skel = g.genes.map Gene.skel ∧ gw.genes.map (·.en) = g.genes.map (·.en) ∧
      (gt = gw ∨ ∃ a b, mutateToggleEnable gw 1 a = .ok (gt, b)) ∧
      (∀ s, HasOutlet gw.genes s → HasOutlet gt.genes s) ∧
      (g'.genes = gt.genes ∨ g'.genes = reenableFirst gt.genes)) ∧
    ∀ s, HasOutlet g.genes s → HasOutlet g'.genes s := by
  obtain ⟨g1, g2, g3, g4, g5, s1, s2, s3, s4, s5, s6⟩ := mutateAllNonstructural_stages g g' o rs rs' h
  have e1 : g1.genes.map Gene.skel = g.genes.map Gene.skel ∧ g1.genes.map (·.en) = g.genes.map (·.en) := by
    rcases s1 with rfl | ⟨a, b, e⟩
    · exact ⟨rfl, rfl⟩
    · rw [(mutateRandomTrait_paramOnly _ _ _ _ _ e).2.1]; exact ⟨rfl, rfl⟩
  have e2 : g2.genes.map Gene.skel = g1.genes.map Gene.skel ∧ g2.genes.map (·.en) = g1.genes.map (·.en) := by
    rcases s2 with rfl | ⟨a, b, e⟩
    · exact ⟨rfl, rfl⟩
    · obtain ⟨_, _, _, x4, x5, _⟩ := mutateLinkTrait_paramOnly _ _ _ _ _ e
      exact ⟨x4, x5⟩
  have e3 : g3.genes.map Gene.skel = g2.genes.map Gene.skel ∧ g3.genes.map (·.en) = g2.genes.map (·.en) := by
    rcases s3 with rfl | ⟨a, b, e⟩
    · exact ⟨rfl, rfl⟩
    · rw [(mutateNodeTrait_paramOnly _ _ _ _ _ e).1]; exact ⟨rfl, rfl⟩
  have e4 : g4.genes.map Gene.skel = g3.genes.map Gene.skel ∧ g4.genes.map (·.en) = g3.genes.map (·.en) := by
    rcases s4 with rfl | ⟨a, b, e⟩
    · exact ⟨rfl, rfl⟩
    · exact core_to_skel _ _ (mutateLinkWeights_paramOnly _ _ _ _ _ _ _ e).2.2.2.2.1
  have hw : g4.genes.map Gene.skel = g.genes.map Gene.skel ∧ g4.genes.map (·.en) = g.genes.map (·.en) :=
    ⟨e4.1.trans (e3.1.trans (e2.1.trans e1.1)), e4.2.trans (e3.2.trans (e2.2.trans e1.2))⟩
  have ht : ∀ s, HasOutlet g4.genes s → HasOutlet g5.genes s := by
    rcases s5 with rfl | ⟨a, b, e⟩
    · exact fun _ h => h
    · exact (mutateToggleEnable_spec _ _ _ _ _ e).2.2.2.2
  have h6 : g'.genes = g5.genes ∨ g'.genes = reenableFirst g5.genes := by
    rcases s6 with rfl | e
    · exact .inl rfl
    · exact .inr (mutateGeneReEnable_spec _ _ e).2.2.2
  refine ⟨⟨g4, g5, hw.1, hw.2, s5, ht, h6⟩, ?_⟩
  intro s hs
  have h5 := ht s (hasOutlet_of_maps _ _ hw.1 hw.2 s hs)
  rcases h6 with e | e <;> rw [e]
  · exact h5
  · exact reenableFirst_outlets _ s h5

/-! ### non-vacuity: concrete inputs on which the hypotheses hold (scalar = `Int`, raw draws used as values) -/
section NonVacuity

/-- exact `Int` scalar whose `rand.Float64` value is the raw draw itself -/
@[instance_reducible] def rawScalar : Scalar Int := { ExactInt.intScalar with ofUnit63 := fun x => (x : Int) }
attribute [local instance] rawScalar

/-- bias node 1 is cut off; input 2 feeds output 3 and hidden 4 -/
def cutOff : Genome Int :=
  { id := 1, traits := [⟨1, []⟩],
    nodes := [⟨1, Kind.bias, 4, none⟩, ⟨2, Kind.input, 4, none⟩, ⟨3, Kind.output, 4, none⟩, ⟨4, Kind.hidden, 4, none⟩],
    genes := [⟨1, 2, 3, false, 0, 0, true, none⟩, ⟨2, 2, 4, false, 0, 0, false, none⟩] }

def emptyReg : Reg Int := { records := [], nextInn := 2, nextNode := 4 }

/-- connect-sensors succeeds on `cutOff` and adds the two genes 1→3, 1→4 -/
example : (match mutateConnectSensors cutOff emptyReg [0, 0, 1, 7, 0, 2, 5] with
           | .ok ((g', _, res), _) => res && g'.genes.map (fun x => (x.inn, x.src, x.dst)) == [(1, 2, 3), (2, 2, 4), (3, 1, 3), (4, 1, 4)]
           | .error _ => false) = true := by decide

example : Unconnected cutOff ⟨1, Kind.bias, 4, none⟩ := by decide

def someOpts : MutOpts Int :=
  { recurOnlyProb := 0, newLinkTries := 3, activators := [4], activatorProbs := [1], traitMutationPower := 1,
    traitParamMutProb := 0, weightMutPower := 1, mutateRandomTraitProb := 9, mutateLinkTraitProb := 9,
    mutateNodeTraitProb := 9, mutateLinkWeightsProb := 9, mutateToggleEnableProb := 9, mutateGeneReenableProb := 9 }

/-- the registry already knows the split of gene 1 (2→3) with new node 4, which `cutOff` already owns:
    add-node returns `false` and leaves gene 1 disabled (the documented observation is reachable) -/
example : (match mutateAddNode cutOff { emptyReg with records := [⟨1, 2, 3, 7, 8, 0, 0, 4, 1, false⟩] } someOpts [5] with
           | .ok ((g', _, res), _) => !res && g'.genes.map (·.en) == [false, false]
           | .error _ => false) = true := by decide

/-- add-link gives up (`false`) when no try is allowed -/
example : (match mutateAddLink cutOff emptyReg { someOpts with newLinkTries := 0 } [5] with
           | .ok ((_, _, res), _) => !res
           | .error _ => false) = true := by decide

/-- `mutateAllNonstructural` runs through all six stages on `cutOff` -/
example : (match mutateAllNonstructural cutOff someOpts (List.replicate 40 2) with
           | .ok _ => true
           | .error _ => false) = true := by decide

end NonVacuity

end GoNeat.C05
