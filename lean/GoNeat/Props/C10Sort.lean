/-
  Property C10, the sort step: after `sort.Sort(sort.Reverse(organisms))` the first organism of a species is a
  fittest one — no member is strictly greater in the sort order (adjusted fitness, then highest fitness).
  Holds for every scalar type whose `<` is a strict weak order and whose `==` is its incomparability (true for
  float64 without NaN and for every ordered field); `sort.Sort` is modelled by Go's insertion sort, and the
  only facts used are that it returns a sorted permutation.
-/
import GoNeat.Props.C08
import GoNeat.Proofs.SortLemmas
import GoNeat.Proofs.ScalarInt

namespace GoNeat.C10
open GoNeat Scalar
variable {W : Type} [Scalar W]

/-- `==` is "neither is less" -/
def EqLaw (W : Type) [Scalar W] : Prop := ∀ a b : W, eq a b = true ↔ (lt a b = false ∧ lt b a = false)

theorem lt_asymm (hw : C08.StrictWeak W) (a b : W) (h : lt a b = true) : lt b a = false := by
  cases hba : lt b a with
  | false => rfl
  | true => have := hw.trans a b a h hba; rw [hw.irrefl] at this; cases this

theorem lt_negTrans (hw : C08.StrictWeak W) (a b c : W) (h1 : lt a b = false) (h2 : lt b c = false) : lt a c = false := by
  cases hac : lt a c with
  | false => rfl
  | true =>
    rcases hw.weak a c b hac with h | h
    · rw [h1] at h; cases h
    · rw [h2] at h; cases h

theorem orgLess_false_iff (a b : Org W) :
    orgLess a b = false ↔ (lt a.fitness b.fitness = false ∧ (eq a.fitness b.fitness = true → lt a.highestFitness b.highestFitness = false)) := by
  unfold orgLess
  cases h1 : lt a.fitness b.fitness <;> cases h2 : eq a.fitness b.fitness <;> simp

theorem orgLess_laws (hw : C08.StrictWeak W) (he : EqLaw W) : LessLaws (fun a b : Org W => orgLess b a) := by
  constructor
  · intro a b h
    show orgLess a b = false
    have h' : orgLess b a = true := h
    rw [orgLess_false_iff]
    unfold orgLess at h'
    cases h1 : lt b.fitness a.fitness with
    | true =>
      refine ⟨lt_asymm hw _ _ h1, ?_⟩
      intro heq
      have := ((he _ _).mp heq).2
      rw [h1] at this; cases this
    | false =>
      simp only [h1, Bool.false_eq_true, ↓reduceIte] at h'
      cases h2 : eq b.fitness a.fitness with
      | false => simp [h2] at h'
      | true =>
        simp only [h2, ↓reduceIte] at h'
        have hinc := (he _ _).mp h2
        exact ⟨hinc.2, fun _ => lt_asymm hw _ _ h'⟩
  · intro a b c h1 h2
    show orgLess c a = false
    have h1' : orgLess b a = false := h1
    have h2' : orgLess c b = false := h2
    rw [orgLess_false_iff] at h1' h2' ⊢
    obtain ⟨p1, q1⟩ := h1'
    obtain ⟨p2, q2⟩ := h2'
    refine ⟨lt_negTrans hw _ _ _ p2 p1, ?_⟩
    intro heq
    obtain ⟨e1, e2⟩ := (he _ _).mp heq
    -- c ~ a; from ¬ c<b, ¬ b<a deduce b ~ a and c ~ b
    have hab : lt a.fitness b.fitness = false := by
      cases hx : lt a.fitness b.fitness with
      | false => rfl
      | true =>
        rcases hw.weak _ _ c.fitness hx with h | h
        · rw [e2] at h; cases h
        · rw [p2] at h; cases h
    have hbc : lt b.fitness c.fitness = false := by
      cases hx : lt b.fitness c.fitness with
      | false => rfl
      | true =>
        rcases hw.weak _ _ a.fitness hx with h | h
        · rw [p1] at h; cases h
        · rw [e2] at h; cases h
    have r1 := q1 ((he _ _).mpr ⟨p1, hab⟩)
    have r2 := q2 ((he _ _).mpr ⟨p2, hbc⟩)
    exact lt_negTrans hw _ _ _ r2 r1

/-- **C10 (champion = head of the sorted species).** After the descending sort the first organism is a fittest
    member: no member of the species is strictly greater in (adjusted fitness, highest fitness) order; in particular
    none has a strictly greater adjusted fitness. For lists of every length. -/
theorem sortOrgsDesc_head_fittest (hw : C08.StrictWeak W) (he : EqLaw W) (l : List (Org W)) (top : Org W) (rest : List (Org W))
    (h : sortOrgsDesc l = top :: rest) : ∀ x ∈ l, orgLess top x = false ∧ lt top.fitness x.fitness = false := by
  intro x hx
  have hirr : orgLess top top = false := by
    rw [orgLess_false_iff]; exact ⟨hw.irrefl _, fun _ => hw.irrefl _⟩
  have := goSort_head_min (fun a b : Org W => orgLess b a) (orgLess_laws hw he) l top rest h hirr x hx
  exact ⟨this, ((orgLess_false_iff _ _).mp this).1⟩

/-- the sorted list is a permutation of the species' members: the champion is a member -/
theorem sortOrgsDesc_perm (l : List (Org W)) : (sortOrgsDesc l).Perm l := goSort_perm _ l


/-! non-vacuity: the hypotheses hold for the exact integer scalar (and hence describe a real order) -/
section NonVacuity
open GoNeat.ExactInt
example : C08.StrictWeak Int ∧ EqLaw Int := by
  refine ⟨⟨?_, ?_, ?_⟩, ?_⟩
  · intro a; simp [Scalar.lt, intScalar]
  · intro a b c; simp only [Scalar.lt, intScalar, decide_eq_true_eq]; omega
  · intro a b c; simp only [Scalar.lt, intScalar, decide_eq_true_eq]; omega
  · intro a b; simp only [Scalar.eq, Scalar.lt, intScalar, decide_eq_true_eq, decide_eq_false_iff_not]; omega
end NonVacuity

end GoNeat.C10
