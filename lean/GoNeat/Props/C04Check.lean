/-
  Property C04, closing the loop: the child the MODEL produces satisfies the executable predicate
  `CrossoverSpec.check` that the driver evaluates on the children the IMPLEMENTATION produced.  So what the check
  decides on Go's output is a consequence of the theorems of `Props/C04.lean` and `Props/C04More.lean`
  (the heap clauses "parents unmodified / nothing shared" are not part of `check`; they are decided on the dump).

  Hypotheses beyond well-formed parents of one lineage (all decidable / laws of the equality test the driver passes):
  * `weq` reflexive (the driver passes bit equality);
  * `FitOrdered f1 f2`: the two fitness values are comparable (`<`, `>` or `==`; false only for NaN) - the predicate
    spells the fitter-parent rule with `<`/`>` and "otherwise", the code with `>` and `==`;
  * single point only: `weq (avg a b) (avg b a)`, because the code averages "shorter parent first" while the predicate
    averages "first parent first" (IEEE addition commutes; an abstract scalar need not).
-/
import GoNeat.Props.C04More
import GoNeat.Spec.Crossover

namespace GoNeat.C04
open GoNeat Scalar CrossoverSpec
variable {W : Type} [Scalar W]

omit [Scalar W] in
theorem mem_carriers {g og : Genome W} {i : Int} {z : Gene W} :
    z ∈ carriers g og i ↔ (z ∈ g.genes ∨ z ∈ og.genes) ∧ z.inn = i := by
  unfold carriers
  constructor
  · intro h
    rcases List.mem_append.mp h with h | h
    · have := List.mem_filter.mp h; exact ⟨Or.inl this.1, by simpa using this.2⟩
    · have := List.mem_filter.mp h; exact ⟨Or.inr this.1, by simpa using this.2⟩
  · rintro ⟨h | h, e⟩
    · exact List.mem_append.mpr (Or.inl (List.mem_filter.mpr ⟨h, by simpa using e⟩))
    · exact List.mem_append.mpr (Or.inr (List.mem_filter.mpr ⟨h, by simpa using e⟩))

omit [Scalar W] in
theorem carriers_two {g og : Genome W} {i : Int} {x y : Gene W} (hx : x ∈ g.genes) (hy : y ∈ og.genes)
    (ex : x.inn = i) (ey : y.inn = i) : 2 ≤ (carriers g og i).length := by
  unfold carriers
  rw [List.length_append]
  have h1 : 0 < (g.genes.filter (·.inn == i)).length :=
    List.length_pos_of_mem (List.mem_filter.mpr ⟨hx, by simpa using ex⟩)
  have h2 : 0 < (og.genes.filter (·.inn == i)).length :=
    List.length_pos_of_mem (List.mem_filter.mpr ⟨hy, by simpa using ey⟩)
  omega

omit [Scalar W] in
theorem find_sorted (l : List (Gene W)) (hs : GenesSorted l) (a : Gene W) (ha : a ∈ l) :
    l.find? (·.inn == a.inn) = some a := by
  induction l with
  | nil => cases ha
  | cons h t ih =>
    have hc := C01.sorted_cons hs
    rcases List.mem_cons.mp ha with rfl | ha'
    · simp
    · have : h.inn < a.inn := hc.2 a ha'
      have hne : (h.inn == a.inn) = false := by simp; omega
      rw [List.find?_cons, hne]
      exact ih hc.1 ha'

/-- what the three gene clauses of `check` ask of one child gene -/
structure GeneClause (weq : W → W → Bool) (m : Method) (g og : Genome W) (cg : Gene W) : Prop where
  carrier : ∃ z ∈ carriers g og cg.inn, z.link = cg.link
  weight : (∃ z ∈ carriers g og cg.inn, weq z.w cg.w = true) ∨
    (m ≠ .multipoint ∧ ∃ a b, g.genes.find? (·.inn == cg.inn) = some a ∧ og.genes.find? (·.inn == cg.inn) = some b ∧
      weq (avg a.w b.w) cg.w = true)
  enAll : (∀ z ∈ carriers g og cg.inn, z.en = true) → cg.en = true
  enOne : (carriers g og cg.inn).length = 1 → (∀ z ∈ carriers g og cg.inn, z.en = false) → cg.en = false

theorem geneClauses_check (weq : W → W → Bool) (m : Method) (g og c : Genome W)
    (hall : ∀ cg ∈ c.genes, GeneClause weq m g og cg) (hnd : (c.genes.map (·.inn)).Nodup) :
    structureOk g og c = true ∧ weightsOk weq m g og c = true ∧ enabledOk g og c = true := by
  refine ⟨?_, ?_, ?_⟩
  · unfold structureOk
    rw [Bool.and_eq_true]
    refine ⟨List.all_eq_true.mpr (fun x hx => ?_), by simpa using hnd⟩
    obtain ⟨z, hz, hl⟩ := (hall x hx).carrier
    unfold Gene.link at hl
    simp only [Prod.mk.injEq] at hl
    rw [Bool.or_eq_true]
    left
    exact List.any_eq_true.mpr ⟨z, hz, by simp [hl.1, hl.2.1, hl.2.2]⟩
  · unfold weightsOk
    refine List.all_eq_true.mpr (fun x hx => ?_)
    dsimp only
    rw [Bool.or_eq_true]
    rcases (hall x hx).weight with ⟨z, hz, hw⟩ | ⟨hm, a, b, ha, hb, hw⟩
    · left; exact List.any_eq_true.mpr ⟨z, hz, hw⟩
    · right
      rw [Bool.and_eq_true]
      refine ⟨by simpa using hm, ?_⟩
      simp only [ha, hb]; exact hw
  · unfold enabledOk
    refine List.all_eq_true.mpr (fun x hx => ?_)
    dsimp only
    rw [Bool.and_eq_true]
    constructor
    · cases hA : (carriers g og x.inn).all (·.en)
      · simp
      · have := (hall x hx).enAll (fun z hz => List.all_eq_true.mp hA z hz)
        simp [this]
    · cases hA : ((carriers g og x.inn).length == 1 && (carriers g og x.inn).all (fun y => !y.en))
      · simp
      · rw [Bool.and_eq_true] at hA
        have := (hall x hx).enOne (by simpa using hA.1)
          (fun z hz => by have := List.all_eq_true.mp hA.2 z hz; simpa using this)
        simp [this]

/-! ### the gene clause from the per-gene theorems -/

/-- a verbatim copy of a parent gene -/
theorem geneClause_copy (weq : W → W → Bool) (hrefl : ∀ a, weq a a = true) (m : Method) (g og : Genome W) (cg z : Gene W)
    (hz : z ∈ g.genes ∨ z ∈ og.genes) (hi : cg.inn = z.inn) (hl : cg.link = z.link) (hw : cg.w = z.w) (he : cg.en = z.en) :
    GeneClause weq m g og cg := by
  have hzc : z ∈ carriers g og cg.inn := mem_carriers.mpr ⟨hz, hi.symm⟩
  refine ⟨⟨z, hzc, hl.symm⟩, Or.inl ⟨z, hzc, by rw [hw]; exact hrefl _⟩, fun h => by rw [he]; exact h z hzc,
    fun _ h => by rw [he]; exact h z hzc⟩

/-- the average of the first parent's gene `a` and the second parent's matching gene `b` -/
theorem geneClause_avg (weq : W → W → Bool) (m : Method) (hm : m ≠ .multipoint) (g og : Genome W) (cg a b : Gene W)
    (hs1 : GenesSorted g.genes) (hs2 : GenesSorted og.genes)
    (ha : a ∈ g.genes) (hb : b ∈ og.genes) (hab : a.inn = b.inn) (hi : cg.inn = a.inn) (hl : cg.link = a.link)
    (hw : weq (avg a.w b.w) cg.w = true) (he : a.en = true → b.en = true → cg.en = true) :
    GeneClause weq m g og cg := by
  have hac : a ∈ carriers g og cg.inn := mem_carriers.mpr ⟨Or.inl ha, hi.symm⟩
  have hbc : b ∈ carriers g og cg.inn := mem_carriers.mpr ⟨Or.inr hb, by rw [hi, hab]⟩
  refine ⟨⟨a, hac, hl.symm⟩, Or.inr ⟨hm, a, b, ?_, ?_, hw⟩, fun h => he (h a hac) (h b hbc), fun h1 _ => ?_⟩
  · rw [hi]; exact find_sorted _ hs1 a ha
  · rw [hi, hab]; exact find_sorted _ hs2 b hb
  · have := carriers_two (i := cg.inn) ha hb hi.symm (by rw [hi, hab]); omega

theorem AvgOf.link_eq {nt : List (Trait W)} {t0 : Option Int} {x y c : Gene W} (h : AvgOf nt t0 x y c)
    (hxy : x.link = y.link) : c.link = x.link := by
  unfold Gene.link at hxy ⊢
  simp only [Prod.mk.injEq] at hxy ⊢
  obtain ⟨h1, h2, h3⟩ := hxy
  refine ⟨?_, ?_, ?_⟩
  · rcases h.src with e | e <;> simp [e, h1]
  · rcases h.dst with e | e <;> simp [e, h2]
  · rcases h.recur with e | e <;> simp [e, h3]

omit [Scalar W] in
theorem copyOf_facts {nt : List (Trait W)} {t0 : Option Int} {c x : Gene W} (h : CopyOf nt t0 c x) :
    c.inn = x.inn ∧ c.link = x.link ∧ c.w = x.w ∧ c.en = x.en := by
  obtain ⟨tr, _, rfl⟩ := h; exact ⟨rfl, rfl, rfl, rfl⟩

/-! ### alignment clause -/

/-- the two fitness values are comparable (false only for NaN) -/
def FitOrdered (f1 f2 : W) : Prop :=
  (gt f1 f2 = false → gt f2 f1 = false → Scalar.eq f1 f2 = true) ∧
  (gt f1 f2 = false → gt f2 f1 = true → Scalar.eq f1 f2 = false)
instance (f1 f2 : W) : Decidable (FitOrdered f1 f2) := by unfold FitOrdered; infer_instance

theorem alignment_of_inns (m : Method) (g og c : Genome W) (f1 f2 : W) (hf : FitOrdered f1 f2)
    (h : c.genes.map (·.inn) = (fitter g og f1 f2).genes.map (·.inn)) : alignmentOk m g og c f1 f2 = true := by
  unfold alignmentOk
  split
  · rfl
  · unfold fitter p1Better at h
    dsimp only
    cases h1 : gt f1 f2
    · cases h2 : gt f2 f1
      · have he := hf.1 h1 h2
        simp only [h1, he, Bool.false_or, Bool.true_and, decide_eq_true_eq] at h
        simp only [Bool.false_eq_true, ↓reduceIte]
        split
        · rename_i hlt; simp only [hlt, ↓reduceIte] at h; simp [h]
        · rename_i hlt
          simp only [hlt, ↓reduceIte] at h
          split <;> simp [h]
      · have he := hf.2 h1 h2
        simp only [h1, he, Bool.false_or, Bool.false_and, Bool.false_eq_true, ↓reduceIte] at h
        simp [h]
    · simp only [h1, Bool.true_or, ↓reduceIte] at h
      simp [h]

/-! ### node clause -/

omit [Scalar W] in
theorem nodesOk_of (g og c : Genome W) (hl : C01.NodeLineage g og) (hn : NodeClause g og c) : nodesOk g og c = true := by
  obtain ⟨n1, n2, n3, n4, n5⟩ := hn
  have nfirst := nodeClause_first g og c hl ⟨n1, n2, n3, n4, n5⟩
  unfold nodesOk
  simp only [Bool.and_eq_true, List.all_eq_true, List.any_eq_true, decide_eq_true_eq, List.mem_filter, List.mem_append,
    bne_iff_ne, ne_eq, beq_iff_eq, Bool.or_eq_true, List.contains_iff_mem, List.mem_flatMap, List.mem_cons,
    List.not_mem_nil, or_false]
  refine ⟨⟨⟨?_, ?_⟩, ?_⟩, ?_⟩
  · rintro n ⟨hn | hn, hk⟩
    · obtain ⟨m, hm, e1, e2⟩ := nfirst n hn hk; exact ⟨m, hm, e1, e2⟩
    · obtain ⟨m, hm, e1, e2, _⟩ := n2 n hn hk; exact ⟨m, hm, e1, e2⟩
  · rintro i ⟨x, hx, hi⟩
    have := n3 x hx
    rcases hi with rfl | rfl
    · obtain ⟨m, hm, e⟩ := List.mem_map.mp this.1; exact ⟨m, hm, e⟩
    · obtain ⟨m, hm, e⟩ := List.mem_map.mp this.2; exact ⟨m, hm, e⟩
  · exact (n1.imp (fun h => by omega) : (c.nodes).Pairwise (fun a b => a.id ≠ b.id)) |> fun h => by
      rw [List.Nodup, List.pairwise_map]; exact h
  · intro m hm
    refine ⟨?_, ?_⟩
    · rcases n4 m hm with ⟨n, hn, hk, e⟩ | ⟨x, hx, e⟩
      · exact Or.inl ⟨n, ⟨Or.inr hn, hk⟩, e⟩
      · exact Or.inr ⟨x, hx, e⟩
    · obtain ⟨n, hn, e1, e2, e3⟩ := n5 m hm
      exact ⟨n, hn, ⟨e1, e2⟩, e3⟩

/-! ### trait clause -/

omit [Scalar W] in
theorem listEqBy_refl (weq : W → W → Bool) (hrefl : ∀ a, weq a a = true) (l : List W) : listEqBy weq l l = true := by
  induction l with
  | nil => rfl
  | cons a t ih => simp [listEqBy, hrefl, ih]

theorem traitsOk_of (weq : W → W → Bool) (hrefl : ∀ a, weq a a = true) (g og c : Genome W) (ht : TraitClause g og c) :
    traitsOk weq g og c = true := by
  obtain ⟨t1, _, t3, _⟩ := ht
  unfold traitsOk
  rw [Bool.and_eq_true]
  refine ⟨by simpa using t1, ?_⟩
  rw [t3]
  generalize g.traits = as
  generalize og.traits = bs
  induction as generalizing bs with
  | nil => simp
  | cons a as ih =>
    cases bs with
    | nil => simp
    | cons b bs =>
      simp only [List.zipWith_cons_cons, List.zip_cons_cons, List.all_cons, Bool.and_eq_true]
      exact ⟨⟨by simp [avgTrait], listEqBy_refl weq hrefl _⟩, ih bs⟩

omit [Scalar W] in
theorem sorted_nodup (l : List (Gene W)) (h : GenesSorted l) : (l.map (·.inn)).Nodup := by
  rw [List.Nodup, List.pairwise_map]
  exact h.imp (fun h => by omega)

omit [Scalar W] in
theorem child_sorted (g og : Genome W) (id : Int) (c : Genome W) (b : Bool) (h : C01.MateOut g og id c b) :
    GenesSorted c.genes := by
  obtain ⟨nt, acc, rfl, _, _, hs, _⟩ := h; exact hs

theorem check_none (weq : W → W → Bool) (m : Method) (g og c : Genome W) (f1 f2 : W)
    (h1 : structureOk g og c = true ∧ weightsOk weq m g og c = true ∧ enabledOk g og c = true)
    (h2 : alignmentOk m g og c f1 f2 = true) (h3 : nodesOk g og c = true) (h4 : traitsOk weq g og c = true) :
    check weq m g og c f1 f2 = none := by
  unfold check
  simp [h1.1, h1.2.1, h1.2.2, h2, h3, h4]

/-! ## the model's children pass the executable predicate -/

/-- **multipoint**: the model's child passes `CrossoverSpec.check` -/
theorem mateMultipoint_check (weq : W → W → Bool) (hrefl : ∀ a, weq a a = true)
    (g og : Genome W) (id : Int) (f1 f2 : W) (rs rs' : List Nat) (c : Genome W)
    (hw1 : C01.WFT g) (hw2 : C01.WFT og) (hl : SameLineage g og) (hf : FitOrdered f1 f2)
    (h : mateMultipoint g og id f1 f2 rs = .ok (c, rs')) :
    check weq .multipoint g og c f1 f2 = none := by
  have hc : Consistent g.genes og.genes := hl.1
  obtain ⟨_, _, hal⟩ := mateMultipoint_spec g og id f1 f2 rs rs' c h hw1.wf.linksDistinct hw2.wf.linksDistinct hc
  have hinns := mateMultipoint_inns g og id f1 f2 rs rs' c h hw1.wf.linksDistinct hw2.wf.linksDistinct hc
  have hsorted := child_sorted g og id c false (C01.mateMultipoint_out g og id f1 f2 rs rs' c hw1 hw2 h)
  refine check_none weq _ g og c f1 f2 (geneClauses_check weq _ g og c ?_ (sorted_nodup _ hsorted))
    (alignment_of_inns _ g og c f1 f2 hf hinns)
    (nodesOk_of g og c (C01.nodeLineage_of_sameLineage hl) (mateMultipoint_nodes g og id f1 f2 rs rs' c hw1 hw2 h))
    (traitsOk_of weq hrefl g og c (mateMultipoint_traits g og id f1 f2 rs rs' c h))
  intro cg hcg
  obtain ⟨x, hx, hi, hlk, hwt, hen1, hen2⟩ := hal.left cg hcg
  -- orientation: `x` is a gene of the fitter parent, `other` the genes of the less fit one
  have hor : ((fitter g og f1 f2).genes = g.genes ∧ (lessFit g og f1 f2).genes = og.genes) ∨
      ((fitter g og f1 f2).genes = og.genes ∧ (lessFit g og f1 f2).genes = g.genes) := by
    unfold fitter lessFit; split <;> simp
  have hxm : x ∈ g.genes ∨ x ∈ og.genes := by
    rcases hor with ⟨e, _⟩ | ⟨e, _⟩ <;> rw [e] at hx
    · exact Or.inl hx
    · exact Or.inr hx
  have hom : ∀ y ∈ (lessFit g og f1 f2).genes, y ∈ g.genes ∨ y ∈ og.genes := by
    intro y hy
    rcases hor with ⟨_, e⟩ | ⟨_, e⟩ <;> rw [e] at hy
    · exact Or.inr hy
    · exact Or.inl hy
  have htwo : ∀ y ∈ (lessFit g og f1 f2).genes, y.inn = x.inn → 2 ≤ (carriers g og cg.inn).length := by
    intro y hy e
    rcases hor with ⟨e1, e2⟩ | ⟨e1, e2⟩ <;> rw [e1] at hx <;> rw [e2] at hy
    · exact carriers_two hx hy hi.symm (by rw [e, hi])
    · exact carriers_two hy hx (by rw [e, hi]) hi.symm
  have hxc : x ∈ carriers g og cg.inn := mem_carriers.mpr ⟨hxm, hi.symm⟩
  refine ⟨⟨x, hxc, hlk.symm⟩, Or.inl ?_, ?_, ?_⟩
  · rcases hwt with ⟨e, _⟩ | ⟨y, hy, e1, e2, _⟩
    · exact ⟨x, hxc, by rw [e]; exact hrefl _⟩
    · exact ⟨y, mem_carriers.mpr ⟨hom y hy, by rw [e1, hi]⟩, by rw [e2]; exact hrefl _⟩
  · intro hall
    exact hen1 ⟨hall x hxc, fun y hy e => hall y (mem_carriers.mpr ⟨hom y hy, by rw [e, hi]⟩)⟩
  · intro hone hall
    refine hen2 ⟨hall x hxc, fun y hy e => ?_⟩
    have := htwo y hy e; omega

/-- **averaging multipoint**: the model's child passes `CrossoverSpec.check` -/
theorem mateMultipointAvg_check (weq : W → W → Bool) (hrefl : ∀ a, weq a a = true)
    (g og : Genome W) (id : Int) (f1 f2 : W) (rs rs' : List Nat) (c : Genome W)
    (hw1 : C01.WFT g) (hw2 : C01.WFT og) (hl : SameLineage g og) (hf : FitOrdered f1 f2)
    (h : mateMultipointAvg g og id f1 f2 rs = .ok (c, rs')) :
    check weq .multipointAvg g og c f1 f2 = none := by
  have hc : Consistent g.genes og.genes := hl.1
  have hs1 := hw1.wf.genesSorted
  have hs2 := hw2.wf.genesSorted
  obtain ⟨_, ha1, ha2⟩ := mateMultipointAvg_spec g og id f1 f2 rs rs' c h hs1 hs2 hw1.wf.linksDistinct hw2.wf.linksDistinct hc
  have hinns := mateMultipointAvg_inns g og id f1 f2 rs rs' c h hs1 hs2 hw1.wf.linksDistinct hw2.wf.linksDistinct hc
  have hsorted := child_sorted g og id c false (C01.mateMultipointAvg_out g og id f1 f2 rs rs' c hw1 hw2 h)
  refine check_none weq _ g og c f1 f2 (geneClauses_check weq _ g og c ?_ (sorted_nodup _ hsorted))
    (alignment_of_inns _ g og c f1 f2 hf hinns)
    (nodesOk_of g og c (C01.nodeLineage_of_sameLineage hl) (mateMultipointAvg_nodes g og id f1 f2 rs rs' c hw1 hw2 h))
    (traitsOk_of weq hrefl g og c (mateMultipointAvg_traits g og id f1 f2 rs rs' c h))
  intro cg hcg
  have havg : ∀ x ∈ g.genes, ∀ y ∈ og.genes, x.inn = y.inn → AvgOf c.traits (traitBase g) x y cg →
      GeneClause weq .multipointAvg g og cg := by
    intro x hx y hy e ha
    exact geneClause_avg weq _ (by decide) g og cg x y hs1 hs2 hx hy e ha.inn (ha.link_eq (hc x hx y hy e))
      (by rw [ha.w]; exact hrefl _) ha.en.2.1
  by_cases hb : p1Better f1 f2 g.genes.length og.genes.length = true
  · obtain ⟨x, hx, hr⟩ := (ha1 hb).left cg hcg
    rcases hr with ⟨_, hcp⟩ | ⟨y, hy, e, ha⟩
    · obtain ⟨f1', f2', f3', f4'⟩ := copyOf_facts hcp
      exact geneClause_copy weq hrefl _ g og cg x (Or.inl hx) f1' f2' f3' f4'
    · exact havg x hx y hy e.symm ha
  · have hb' : p1Better f1 f2 g.genes.length og.genes.length = false := by simpa using hb
    obtain ⟨y, hy, hr⟩ := (ha2 hb').left cg hcg
    rcases hr with ⟨_, hcp⟩ | ⟨x, hx, e, ha⟩
    · obtain ⟨f1', f2', f3', f4'⟩ := copyOf_facts hcp
      exact geneClause_copy weq hrefl _ g og cg y (Or.inr hy) f1' f2' f3' f4'
    · exact havg x hx y hy e ha

/-- **single point**: the model's child passes `CrossoverSpec.check` (also the gene-less child of K1 - the predicate
    does not ask for genes; that is C01's clause).  `hcomm`: see the file header. -/
theorem mateSinglePoint_check (weq : W → W → Bool) (hrefl : ∀ a, weq a a = true)
    (hcomm : ∀ a b : W, weq (avg a b) (avg b a) = true)
    (g og : Genome W) (id : Int) (f1 f2 : W) (rs rs' : List Nat) (c : Genome W)
    (hw1 : C01.WFT g) (hw2 : C01.WFT og) (hl : SameLineage g og)
    (h : mateSinglePoint g og id rs = .ok (c, rs')) :
    check weq .singlePoint g og c f1 f2 = none := by
  have hc : Consistent g.genes og.genes := hl.1
  have hs1 := hw1.wf.genesSorted
  have hs2 := hw2.wf.genesSorted
  have hgene := mateSinglePoint_gene g og id rs rs' c h hc hs1 hs2
  have hsorted := child_sorted g og id c true (C01.mateSinglePoint_out g og id rs rs' c hw1 hw2 h)
  refine check_none weq _ g og c f1 f2 (geneClauses_check weq _ g og c ?_ (sorted_nodup _ hsorted))
    (by unfold alignmentOk; simp)
    (nodesOk_of g og c (C01.nodeLineage_of_sameLineage hl) (mateSinglePoint_nodes g og id rs rs' c hw1 hw2 h))
    (traitsOk_of weq hrefl g og c (mateSinglePoint_traits g og id rs rs' c h))
  intro cg hcg
  have hmem1 : ∀ z ∈ (shorter g og).genes, z ∈ g.genes ∨ z ∈ og.genes := by
    intro z hz
    rcases shorter_longer g og with ⟨e, _⟩ | ⟨e, _⟩ <;> rw [e] at hz
    · exact Or.inl hz
    · exact Or.inr hz
  have hmem2 : ∀ z ∈ (longer g og).genes, z ∈ g.genes ∨ z ∈ og.genes := by
    intro z hz
    rcases shorter_longer g og with ⟨_, e⟩ | ⟨_, e⟩ <;> rw [e] at hz
    · exact Or.inr hz
    · exact Or.inl hz
  rcases hgene cg hcg with ⟨x, hx, hcp⟩ | ⟨y, hy, hcp⟩ | ⟨x, hx, y, hy, e, ha⟩
  · obtain ⟨f1', f2', f3', f4'⟩ := copyOf_facts hcp
    exact geneClause_copy weq hrefl _ g og cg x (hmem1 x hx) f1' f2' f3' f4'
  · obtain ⟨f1', f2', f3', f4'⟩ := copyOf_facts hcp
    exact geneClause_copy weq hrefl _ g og cg y (hmem2 y hy) f1' f2' f3' f4'
  · rcases shorter_longer g og with ⟨e1, e2⟩ | ⟨e1, e2⟩ <;> rw [e1] at hx <;> rw [e2] at hy
    · exact geneClause_avg weq _ (by decide) g og cg x y hs1 hs2 hx hy e ha.inn (ha.link_eq (hc x hx y hy e))
        (by rw [ha.w]; exact hrefl _) ha.en.2.1
    · -- the shorter parent is the second one: the code averaged `x` (second parent) first
      have hxy : x.link = y.link := (hc y hy x hx e.symm).symm
      exact geneClause_avg weq _ (by decide) g og cg y x hs1 hs2 hy hx e.symm (by rw [ha.inn, e])
        (by rw [ha.link_eq hxy, hxy]) (by rw [ha.w]; exact hcomm _ _) (fun h1 h2 => ha.en.2.1 h2 h1)

/-! ## non-vacuity: the hypotheses of the theorems of `C04More` / `C04Check` hold of concrete parents and runs -/

section Examples
attribute [local instance] C01.drawScalar

def pa : Genome Int :=
  { id := 1, traits := [⟨1, [2]⟩],
    nodes := [⟨1, Kind.input, 4, some 1⟩, ⟨2, Kind.bias, 4, none⟩, ⟨3, Kind.output, 4, some 1⟩, ⟨4, Kind.hidden, 4, none⟩],
    genes := [⟨1, 1, 3, false, 2, 0, true, none⟩, ⟨2, 2, 3, false, 4, 0, true, some 1⟩, ⟨3, 1, 4, false, 6, 0, false, none⟩] }
def pb : Genome Int :=
  { id := 2, traits := [⟨1, [4]⟩], nodes := pa.nodes,
    genes := [⟨1, 1, 3, false, 4, 2, true, none⟩, ⟨2, 2, 3, false, 8, 0, false, none⟩, ⟨4, 4, 3, false, 1, 0, true, none⟩] }

example : C01.WFT pa ∧ C01.WFT pb ∧ SameLineage pa pb ∧ C01.SharedHead pa pb ∧ Consistent pa.genes pb.genes ∧
    GenesSorted pa.genes ∧ GenesSorted pb.genes ∧ LinksDistinct pa.genes ∧ LinksDistinct pb.genes ∧
    FitOrdered (2 : Int) 1 ∧ FitOrdered (1 : Int) 1 ∧ CrossDistinct pa.genes pb.genes := by decide

def showG (r : Except Stop (Genome Int × List Nat)) := r.toOption.map
    (fun r => (r.1.genes.map (fun x => (x.inn, x.w, x.mnum, x.en)), r.1.nodes.map (·.id), r.1.traits.map (·.params), r.2))

example : showG (mateMultipointAvg pa pb 9 (2 : Int) 1 [9,9,9,9, 9,9,9,9,80,7]) =
    some ([(1, 3, 1, true), (2, 6, 0, true), (3, 6, 0, false)], [1, 2, 3, 4], [[3]], [7]) := by
  simp [showG, mateMultipointAvg, matePrologue, mateTraits, traitAvg, ioNodes, childTraitRef, nodeInsert, insertAt, insertIndex,
    multipointAvgWalk, p1Better, pa, pb, Kind.input, Kind.output, Kind.hidden, Kind.bias,
    Except.toOption, List.zipWith, avgChosen, disableDraw, Rand.float64, addChosen, ensureNode, chooseFrom, nodeById,
    Gene.sameLink, Scalar.avg, Scalar.gt, Scalar.lt, Scalar.eq, Scalar.div, Scalar.add, Scalar.ofInt, Scalar.ofDec, Scalar.ofUnit63, Scalar.one]

example : Rand.intn (shorter pa pb).genes.length [1 <<< 32, 9] = .ok (1, [9]) := by
  simp [Rand.intn, Rand.int31nLoop, Rand.int31OfRaw, shorter, pa, pb]

example : (((spPlan 1 (shorter pa pb).genes (longer pa pb).genes 0 false).map Origin.link).Pairwise (· ≠ ·)) ∧
   ((spPlan 1 (shorter pa pb).genes (longer pa pb).genes 0 false).map Origin.inn = [1, 2]) := by
  simp [spPlan, shorter, longer, pa, pb, Origin.link, Origin.inn, Gene.link]

example : (∀ a : Int, (fun a b => decide (a = b)) a a = true) ∧
    (∀ a b : Int, (fun a b => decide (a = b)) (avg a b) (avg b a) = true) := by
  refine ⟨by simp, fun a b => ?_⟩
  simp [Scalar.avg, Scalar.div, Scalar.add, Int.add_comm]


/-- single point, crossing point 1 of the second parent (equal gene counts): gene 1 copied from it, gene 2 averaged
    (disabled: the first operand is), gene 3 of the first parent skipped, gene 4 (behind the point in the shorter
    parent) never taken -/
example : showG (mateSinglePoint pa pb 9 [1 <<< 32, 9,9,9,9,70,7]) =
    some ([(1, 4, 2, true), (2, 6, 0, false)], [1, 2, 3], [[3]], [70, 7]) := by
  simp [showG, mateSinglePoint, matePrologue, mateTraits, traitAvg, ioNodes, childTraitRef, nodeInsert, insertAt, insertIndex,
    Rand.intn, Rand.int31nLoop, Rand.int31OfRaw, singlePointWalk, pa, pb, Kind.input, Kind.output, Kind.hidden, Kind.bias,
    Except.toOption, List.zipWith, avgChosen, disableDraw, Rand.float64, addChosen, ensureNode, chooseFrom, nodeById,
    Gene.sameLink, Scalar.avg, Scalar.gt, Scalar.lt, Scalar.eq, Scalar.div, Scalar.add, Scalar.ofInt, Scalar.ofDec, Scalar.ofUnit63, Scalar.one]

/-- multipoint on a full tie: the second parent's genes; gene 2 (disabled there, enabled in the first) stays disabled
    because the 75 % draw (70 < 75) says so -/
example : showG (mateMultipoint pa pb 9 (1 : Int) 1 [9, 9, 70, 7]) =
    some ([(1, 4, 2, true), (2, 8, 0, false), (4, 1, 0, true)], [1, 2, 3, 4], [[3]], [7]) := by
  simp [showG, mateMultipoint, matePrologue, mateTraits, traitAvg, ioNodes, childTraitRef, nodeInsert, insertAt, insertIndex,
    multipointWalk, p1Better, pa, pb, Kind.input, Kind.output, Kind.hidden, Kind.bias,
    Except.toOption, List.zipWith, disableDraw, Rand.float64, addChosen, ensureNode, chooseFrom, nodeById,
    Gene.sameLink, Scalar.avg, Scalar.gt, Scalar.lt, Scalar.eq, Scalar.div, Scalar.add, Scalar.ofInt, Scalar.ofDec, Scalar.ofUnit63, Scalar.one]

/-- K1 at the level of C04: parents of one lineage whose first genes differ ([2,3] × [1,2,3]) - the single-point
    child has no gene although both parents carry genes 2 and 3 -/
def pk1 : Genome Int :=
  { id := 1, traits := [⟨1, [2]⟩], nodes := [⟨1, Kind.input, 4, some 1⟩, ⟨2, Kind.bias, 4, none⟩, ⟨3, Kind.output, 4, some 1⟩],
    genes := [⟨2, 2, 3, false, 4, 0, true, none⟩, ⟨3, 1, 3, true, 6, 0, true, none⟩] }
def pk2 : Genome Int :=
  { pk1 with genes := [⟨1, 1, 3, false, 4, 0, true, none⟩, ⟨2, 2, 3, false, 4, 0, true, none⟩, ⟨3, 1, 3, true, 6, 0, true, none⟩] }
example : C01.WFT pk1 ∧ C01.WFT pk2 ∧ SameLineage pk1 pk2 ∧ ¬ C01.SharedHead pk1 pk2 := by decide
theorem C04_singlepoint_K1 : showG (mateSinglePoint pk1 pk2 9 [0]) = some ([], [1, 2, 3], [[2]], []) := by
  simp [showG, mateSinglePoint, matePrologue, mateTraits, traitAvg, ioNodes, childTraitRef, nodeInsert, insertAt, insertIndex,
    Rand.intn, Rand.int31OfRaw, singlePointWalk, pk1, pk2, Kind.input, Kind.output, Kind.bias,
    Except.toOption, List.zipWith, Scalar.avg, Scalar.div, Scalar.add, Scalar.ofInt]
end Examples

end GoNeat.C04
