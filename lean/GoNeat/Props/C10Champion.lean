/-
  Property C10, the library's own champion queries (Model/Champion.lean): what `Species.FindChampion` (public) and
  `Species.findChampion` (sort in place, first element) return, and that they name the same organism - the one whose
  genome `nextEpoch` preserves (`C10.nextEpoch_keeps_fittest`).

  Kind A (every scalar type whose `<` is a strict weak order - `C08.StrictWeak`; `==` as equivalence of that order
  where the two-key `Organisms.Less` is involved - `EqLaw`):
    `findLoop_spec`              the running-maximum loop: either nothing exceeds the start value, or the result is the
                                 FIRST organism that no organism of the list exceeds (every earlier one is strictly less);
    `findChampionPublic_none_iff`  `FindChampion` answers nil exactly when no member's fitness exceeds -1.0
                                 (an empty species, or a species whose members all sit at or below -1: OBSERVATION - the
                                 start value -1.0 makes the query blind below it);
    `findChampionPublic_spec`    otherwise it answers a member whose fitness exceeds -1 and that no member exceeds, the first such;
    `findChampionSort_spec`      `findChampion` answers the head of the re-sorted list: a member no member exceeds, and
                                 leaves the species a permutation of itself; `findChampionSort_error_iff`: index panic
                                 exactly on the empty species;
    `findChampion_agree`         members pairwise different in fitness, all above -1: both queries answer the same organism;
    `checkChampionChildDamaged_spec`.
  Kind B (exact ordered field) is in Props/C10ChampionExact.lean.
-/
import GoNeat.Model.Champion
import GoNeat.Props.C10Sort

namespace GoNeat.C10
open GoNeat Scalar Champion

variable {W : Type} [Scalar W]

theorem lt_asymm' (hw : C08.StrictWeak W) (a b : W) (h : lt a b = true) : lt b a = false := by
  cases hb : lt b a with
  | false => rfl
  | true => have := hw.trans a b a h hb; rw [hw.irrefl a] at this; cases this

/-- the running-maximum loop of `FindChampion` -/
theorem findLoop_spec (hw : C08.StrictWeak W) (l : List (Org W)) (mx : W) (ch : Option (Org W)) :
    (findLoop l mx ch = ch ∧ ∀ x ∈ l, lt mx x.fitness = false) ∨
    (∃ pre y post, l = pre ++ y :: post ∧ findLoop l mx ch = some y ∧ lt mx y.fitness = true ∧
      (∀ x ∈ pre, lt x.fitness y.fitness = true) ∧ (∀ x ∈ post, lt y.fitness x.fitness = false)) := by
  induction l generalizing mx ch with
  | nil => left; exact ⟨rfl, by simp⟩
  | cons o os ih =>
    unfold findLoop
    by_cases hgt : gt o.fitness mx = true
    · rw [if_pos hgt]
      have hlt : lt mx o.fitness = true := hgt
      right
      rcases ih o.fitness (some o) with ⟨hr, hall⟩ | ⟨pre, y, post, hl, hr, hly, hpre, hpost⟩
      · exact ⟨[], o, os, rfl, hr, hlt, by simp, hall⟩
      · refine ⟨o :: pre, y, post, by rw [hl]; rfl, hr, hw.trans _ _ _ hlt hly, ?_, hpost⟩
        intro x hx
        rcases List.mem_cons.mp hx with rfl | hx
        · exact hly
        · exact hpre x hx
    · rw [if_neg hgt]
      have hnlt : lt mx o.fitness = false := by
        cases h : lt mx o.fitness with
        | false => rfl
        | true => exact absurd h hgt
      rcases ih mx ch with ⟨hr, hall⟩ | ⟨pre, y, post, hl, hr, hly, hpre, hpost⟩
      · left
        refine ⟨hr, ?_⟩
        intro x hx
        rcases List.mem_cons.mp hx with rfl | hx
        · exact hnlt
        · exact hall x hx
      · right
        refine ⟨o :: pre, y, post, by rw [hl]; rfl, hr, hly, ?_, hpost⟩
        intro x hx
        rcases List.mem_cons.mp hx with rfl | hx
        · rcases hw.weak mx y.fitness x.fitness hly with h | h
          · rw [hnlt] at h; cases h
          · exact h
        · exact hpre x hx

/-- `FindChampion` answers nil exactly when no member's fitness exceeds -1.0 -/
theorem findChampionPublic_none_iff (hw : C08.StrictWeak W) (s : Species W) :
    findChampionPublic s = none ↔ ∀ x ∈ s.orgs, lt (minusOne : W) x.fitness = false := by
  unfold findChampionPublic
  rcases findLoop_spec hw s.orgs (minusOne : W) none with ⟨hr, hall⟩ | ⟨pre, y, post, hl, hr, hly, _, _⟩
  · exact ⟨fun _ => hall, fun _ => hr⟩
  · constructor
    · intro h; rw [hr] at h; cases h
    · intro h
      have : y ∈ s.orgs := by rw [hl]; simp
      rw [h y this] at hly; cases hly

/-- otherwise `FindChampion` answers a member above -1.0 that no member exceeds - the FIRST such member -/
theorem findChampionPublic_spec (hw : C08.StrictWeak W) (s : Species W) (y : Org W)
    (h : findChampionPublic s = some y) :
    y ∈ s.orgs ∧ lt (minusOne : W) y.fitness = true ∧ (∀ x ∈ s.orgs, lt y.fitness x.fitness = false) ∧
    ∃ pre post, s.orgs = pre ++ y :: post ∧ ∀ x ∈ pre, lt x.fitness y.fitness = true := by
  unfold findChampionPublic at h
  rcases findLoop_spec hw s.orgs (minusOne : W) none with ⟨hr, _⟩ | ⟨pre, y', post, hl, hr, hly, hpre, hpost⟩
  · rw [hr] at h; cases h
  · rw [hr] at h
    cases h
    refine ⟨by rw [hl]; simp, hly, ?_, pre, post, hl, hpre⟩
    intro x hx
    rw [hl] at hx
    rcases List.mem_append.mp hx with hx | hx
    · exact lt_asymm' hw _ _ (hpre x hx)
    · rcases List.mem_cons.mp hx with rfl | hx
      · exact hw.irrefl _
      · exact hpost x hx

/-- `findChampion` panics (index out of range) exactly on the empty species -/
theorem findChampionSort_error_iff (s : Species W) :
    (∃ e, findChampionSort s = .error e) ↔ s.orgs = [] := by
  unfold findChampionSort
  have hp := sortOrgsDesc_perm s.orgs
  constructor
  · rintro ⟨e, h⟩
    cases hs : sortOrgsDesc s.orgs with
    | nil => rw [hs] at hp; exact (List.Perm.nil_eq hp).symm ▸ rfl
    | cons t r => rw [hs] at h; cases h
  · intro he
    rw [he] at hp ⊢
    have : sortOrgsDesc ([] : List (Org W)) = [] := List.Perm.eq_nil hp
    rw [this]; exact ⟨_, rfl⟩

/-- `findChampion`: the head of the re-sorted member list - a member that no member exceeds (in the two-key order and in
    fitness); the species is left a permutation of itself, nothing else changes -/
theorem findChampionSort_spec (hw : C08.StrictWeak W) (he : EqLaw W) (s s' : Species W) (top : Org W)
    (h : findChampionSort s = .ok (top, s')) :
    s'.orgs = sortOrgsDesc s.orgs ∧ s'.orgs.head? = some top ∧ s'.orgs.Perm s.orgs ∧ top ∈ s.orgs ∧
    { s' with orgs := s.orgs } = s ∧
    ∀ x ∈ s.orgs, orgLess top x = false ∧ lt top.fitness x.fitness = false := by
  unfold findChampionSort at h
  cases hs : sortOrgsDesc s.orgs with
  | nil => rw [hs] at h; cases h
  | cons t r =>
    rw [hs] at h
    simp only [Except.ok.injEq, Prod.mk.injEq] at h
    obtain ⟨rfl, rfl⟩ := h
    have hp := sortOrgsDesc_perm s.orgs
    rw [hs] at hp
    refine ⟨rfl, rfl, hp, hp.subset (by simp), rfl, ?_⟩
    exact sortOrgsDesc_head_fittest hw he s.orgs t r hs

/-- members pairwise different in fitness and all above -1.0: the public running-maximum query and the sorting query
    answer the same organism -/
theorem findChampion_agree (hw : C08.StrictWeak W) (he : EqLaw W) (s s' : Species W) (top : Org W)
    (hd : ∀ a ∈ s.orgs, ∀ b ∈ s.orgs, a = b ∨ lt a.fitness b.fitness = true ∨ lt b.fitness a.fitness = true)
    (hpos : ∀ x ∈ s.orgs, lt (minusOne : W) x.fitness = true)
    (h : findChampionSort s = .ok (top, s')) : findChampionPublic s = some top := by
  obtain ⟨_, _, _, htop, _, hmax⟩ := findChampionSort_spec hw he s s' top h
  cases hp : findChampionPublic s with
  | none =>
    have := (findChampionPublic_none_iff hw s).mp hp top htop
    rw [hpos top htop] at this; cases this
  | some y =>
    obtain ⟨hy, _, hymax, _⟩ := findChampionPublic_spec hw s y hp
    rcases hd y hy top htop with rfl | h1 | h1
    · rfl
    · rw [hymax top htop] at h1; cases h1
    · rw [(hmax y hy).2] at h1; cases h1

theorem checkChampionChildDamaged_spec (o : Org W) :
    checkChampionChildDamaged o = true ↔ o.isPopChampionChild = true ∧ lt o.fitness o.highestFitness = true := by
  simp [checkChampionChildDamaged, gt]

theorem size_eq (s : Species W) : size s = s.orgs.length := rfl

/-! non-vacuity over the exact integer scalar: a species whose members differ in fitness, queried both ways -/
section NonVacuity
open GoNeat.ExactInt

private def g0 : Genome Int := { id := 1, traits := [], nodes := [], genes := [], modules := [] }
private def mkOrg (u : Nat) (f : Int) : Org Int :=
  { uid := u, fitness := f, genome := g0, expectedOffspring := 0, generation := 0, originalFitness := 0, highestFitness := 0 }
private def sp0 : Species Int :=
  { id := 1, age := 1, maxFitnessEver := 0, expectedOffspring := 0, isNovel := false,
    orgs := [mkOrg 0 3, mkOrg 1 7, mkOrg 2 5], ageOfLastImprovement := 0 }

example : (findChampionPublic sp0).map (·.uid) = some 1 := by decide
example : (match findChampionSort sp0 with | .ok (t, s') => some (t.uid, s'.orgs.map (·.uid)) | .error _ => none) = some (1, [1, 2, 0]) := by
  decide
/-- blind below -1.0: a species whose members all have fitness -2 has no public champion, but a sorted one -/
example : findChampionPublic { sp0 with orgs := [mkOrg 0 (-2), mkOrg 1 (-2)] } = none := by decide
end NonVacuity

end GoNeat.C10
