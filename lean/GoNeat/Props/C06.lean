/-
  Property C06 — duplicating a genome gives an exact, independent copy.

  Kind A: every theorem holds for every scalar type `W` (no arithmetic law is used).
  Independence ("sharing no mutable state") is a heap property: the functional model has no sharing by
  construction; on the implementation it is decided by the ownership bits and pointer-set comparison of
  the harness dump (ops `duplicate`, `dupThenMutate`).
-/
import GoNeat.Spec.WF

namespace GoNeat.C06
open GoNeat
variable {W : Type}

/-- all references of a genome resolve inside the genome (the part of well-formedness duplication needs):
    trait references are nil or ids (≠ 0) of the genome's traits, gene and module-wire endpoints are node ids -/
structure RefsOk (g : Genome W) : Prop where
  traitRefs : TraitRefsOwned g
  endpoints : EndpointsOwned g
  modCtrl : ∀ m ∈ g.modules, TraitRefOk g m.ctrl.trait
  modWires : ∀ m ∈ g.modules, (∀ w ∈ m.ins, w.node ∈ nodeIds g) ∧ (∀ w ∈ m.outs, w.node ∈ nodeIds g)

theorem find_some_of_mem {α} (p : α → Bool) (l : List α) (h : ∃ a ∈ l, p a = true) :
    ∃ b, l.find? p = some b ∧ p b = true := by
  induction l with
  | nil => obtain ⟨a, ha, _⟩ := h; cases ha
  | cons x xs ih =>
    by_cases hx : p x = true
    · exact ⟨x, by simp [List.find?, hx], hx⟩
    · obtain ⟨a, ha, hpa⟩ := h
      have : a ∈ xs := by
        rcases List.mem_cons.mp ha with rfl | h'
        · exact absurd hpa hx
        · exact h'
      obtain ⟨b, hb, hpb⟩ := ih ⟨a, this, hpa⟩
      exact ⟨b, by simp [List.find?, hx, hb], hpb⟩

/-- a resolvable trait reference is copied unchanged -/
theorem dupTraitRef_ok (g : Genome W) (t : Option Int) (h : TraitRefOk g t) : dupTraitRef g.traits t = t := by
  cases t with
  | none => rfl
  | some id =>
    obtain ⟨h0, hmem⟩ := h
    unfold dupTraitRef traitWithId
    simp only [h0, ↓reduceIte]
    have : ∃ a ∈ g.traits, (a.id == id) = true := by
      unfold traitIds at hmem
      obtain ⟨a, ha, hid⟩ := List.mem_map.mp hmem
      exact ⟨a, ha, by simp [hid]⟩
    obtain ⟨b, hb, hpb⟩ := find_some_of_mem _ _ this
    simp only [hb, Option.map_some]
    simp at hpb
    rw [hpb]

theorem dupNode_ok (g : Genome W) (n : Node) (h : TraitRefOk g n.trait) : dupNode g.traits n = n := by
  unfold dupNode
  rw [dupTraitRef_ok g n.trait h]

theorem map_dupNode_ok (g : Genome W) (ns : List Node) (h : ∀ n ∈ ns, TraitRefOk g n.trait) :
    ns.map (dupNode g.traits) = ns := by
  induction ns with
  | nil => rfl
  | cons n ns ih =>
    simp only [List.map_cons]
    rw [dupNode_ok g n (h n (by simp)), ih (fun m hm => h m (by simp [hm]))]

/-- the id → node map finds every listed id -/
theorem nodeById_isSome (nodes : List Node) (id : Int) (h : id ∈ nodes.map (·.id)) : (nodeById nodes id).isSome = true := by
  unfold nodeById
  obtain ⟨a, ha, hid⟩ := List.mem_map.mp h
  obtain ⟨b, hb, _⟩ := find_some_of_mem (fun n : Node => n.id == id) nodes.reverse ⟨a, by simp [ha], by simp [hid]⟩
  simp [hb]

theorem nodeById_isNone (nodes : List Node) (id : Int) (h : id ∉ nodes.map (·.id)) : (nodeById nodes id).isNone = true := by
  unfold nodeById
  rw [Option.isNone_iff_eq_none, List.find?_eq_none]
  intro x hx hxid
  apply h
  simp at hxid
  exact List.mem_map.mpr ⟨x, by simpa using hx, hxid⟩

theorem dupGenes_ok (g : Genome W) (gs : List (Gene W))
    (he : ∀ x ∈ gs, x.src ∈ nodeIds g ∧ x.dst ∈ nodeIds g) (ht : ∀ x ∈ gs, TraitRefOk g x.trait) :
    dupGenes g.traits g.nodes gs = .ok gs := by
  induction gs with
  | nil => rfl
  | cons x xs ih =>
    have hs := nodeById_isSome g.nodes x.src (he x (by simp)).1
    have hd := nodeById_isSome g.nodes x.dst (he x (by simp)).2
    unfold dupGenes
    have hs' : (nodeById g.nodes x.src).isNone = false := by
      cases h : nodeById g.nodes x.src <;> simp_all
    have hd' : (nodeById g.nodes x.dst).isNone = false := by
      cases h : nodeById g.nodes x.dst <;> simp_all
    simp only [hs', hd', Bool.false_eq_true, ↓reduceIte]
    rw [ih (fun y hy => he y (by simp [hy])) (fun y hy => ht y (by simp [hy]))]
    simp only
    rw [dupTraitRef_ok g x.trait (ht x (by simp))]

theorem dupWires_ok (g : Genome W) (err : String) (ws : List (Wire W)) (h : ∀ w ∈ ws, w.node ∈ nodeIds g) :
    dupWires g.nodes err ws = .ok ws := by
  induction ws with
  | nil => rfl
  | cons w ws ih =>
    have hs := nodeById_isSome g.nodes w.node (h w (by simp))
    have hs' : (nodeById g.nodes w.node).isNone = false := by
      cases h' : nodeById g.nodes w.node <;> simp_all
    unfold dupWires
    simp only [hs', Bool.false_eq_true, ↓reduceIte]
    rw [ih (fun y hy => h y (by simp [hy]))]

theorem dupModules_ok (g : Genome W) (ms : List (Module W))
    (hc : ∀ m ∈ ms, TraitRefOk g m.ctrl.trait)
    (hw : ∀ m ∈ ms, (∀ w ∈ m.ins, w.node ∈ nodeIds g) ∧ (∀ w ∈ m.outs, w.node ∈ nodeIds g)) :
    dupModules g.traits g.nodes ms = .ok ms := by
  induction ms with
  | nil => rfl
  | cons m ms ih =>
    unfold dupModules
    rw [dupWires_ok g _ m.ins (hw m (by simp)).1, dupWires_ok g _ m.outs (hw m (by simp)).2]
    simp only
    rw [ih (fun y hy => hc y (by simp [hy])) (fun y hy => hw y (by simp [hy]))]
    simp only
    rw [dupNode_ok g m.ctrl (hc m (by simp))]

/-- **C06 (exact copy).** Duplicating a genome whose references resolve yields the same genome under the
    new id: traits, nodes (ids, roles, activation types, trait references), genes (innovation and mutation
    numbers, endpoints, weights, recurrence and enabled flags, trait references) and modules are all equal. -/
theorem duplicate_exact (g : Genome W) (newId : Int) (h : RefsOk g) :
    g.duplicate newId = .ok { g with id := newId } := by
  unfold Genome.duplicate
  have hn : g.nodes.map (dupNode g.traits) = g.nodes := map_dupNode_ok g g.nodes h.traitRefs.2
  simp only [hn]
  rw [dupGenes_ok g g.genes h.endpoints h.traitRefs.1, dupModules_ok g g.modules h.modCtrl h.modWires]

/-- the enabled flag of every gene survives duplication (the clause broken by the repaired `NewGeneCopy` defect) -/
theorem duplicate_keeps_enabled (g d : Genome W) (newId : Int) (h : RefsOk g) (hd : g.duplicate newId = .ok d) :
    d.genes.map (·.en) = g.genes.map (·.en) := by
  rw [duplicate_exact g newId h] at hd
  cases hd; rfl

/-- duplication never errs on a genome whose references resolve, and conversely a gene endpoint that is not
    a node of the genome makes it fail (the model rejects what the code rejects) -/
theorem duplicate_rejects_dangling (g : Genome W) (newId : Int)
    (h : ∃ x ∈ g.genes, x.src ∉ nodeIds g ∨ x.dst ∉ nodeIds g) : ∃ e, g.duplicate newId = .error e := by
  unfold Genome.duplicate
  have hids : (g.nodes.map (dupNode g.traits)).map (·.id) = g.nodes.map (·.id) := by
    simp [dupNode, Function.comp_def]
  have key : ∀ gs : List (Gene W), (∃ x ∈ gs, x.src ∉ nodeIds g ∨ x.dst ∉ nodeIds g) →
      ∃ e, dupGenes g.traits (g.nodes.map (dupNode g.traits)) gs = .error e := by
    intro gs
    induction gs with
    | nil => intro ⟨x, hx, _⟩; cases hx
    | cons y ys ih =>
      intro ⟨x, hx, hbad⟩
      unfold dupGenes
      by_cases h1 : (nodeById (g.nodes.map (dupNode g.traits)) y.src).isNone = true
      · simp [h1]
      · by_cases h2 : (nodeById (g.nodes.map (dupNode g.traits)) y.dst).isNone = true
        · simp [h1, h2]
        · simp only [h1, h2, Bool.false_eq_true, ↓reduceIte]
          have hx' : x ∈ ys := by
            rcases List.mem_cons.mp hx with rfl | h'
            · exfalso
              rcases hbad with hb | hb
              · exact h1 (nodeById_isNone _ _ (by rw [hids]; exact hb))
              · exact h2 (nodeById_isNone _ _ (by rw [hids]; exact hb))
            · exact h'
          obtain ⟨e, he⟩ := ih ⟨x, hx', hbad⟩
          exact ⟨e, by rw [he]⟩
  obtain ⟨e, he⟩ := key g.genes h
  exact ⟨e, by simp only [he]⟩

/-! ### non-vacuity: a concrete genome with a disabled gene, a recurrent gene, a nil trait and a module
    satisfies the hypothesis -/

def sample : Genome Int :=
  { id := 7,
    traits := [⟨1, [1, 2]⟩, ⟨2, [3]⟩],
    nodes := [⟨1, Kind.bias, 4, none⟩, ⟨2, Kind.input, 4, some 1⟩, ⟨3, Kind.output, 5, some 2⟩, ⟨4, Kind.hidden, 5, some 1⟩],
    genes := [⟨1, 1, 3, false, 5, 5, true, some 1⟩, ⟨2, 2, 4, false, 6, 6, false, none⟩, ⟨5, 4, 4, true, 7, 7, true, some 2⟩],
    modules := [⟨9, 0, true, ⟨10, Kind.hidden, 20, none⟩, [⟨2, 1, false, none⟩], [⟨3, 1, false, none⟩]⟩] }

example : RefsOk sample :=
  ⟨by decide, by decide, by decide, by decide⟩

example : sample.duplicate 8 = .ok { sample with id := 8 } := duplicate_exact _ _ ⟨by decide, by decide, by decide, by decide⟩

end GoNeat.C06
