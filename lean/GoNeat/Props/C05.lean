/-
  Property C05 — structural and parametric mutations change exactly what they document.
  Kind A: every theorem holds for every scalar type `W`, every random stream `rs` and every registry.
  Shape: "for every stream, if the mutator returns `ok` then the before/after relation holds".
-/
import GoNeat.Model.Mutate
import GoNeat.Spec.WF

namespace GoNeat.C05
open GoNeat Scalar
variable {W : Type} [Scalar W]

/-- everything of a gene except weight and mutation number -/
def Gene.core (x : Gene W) : Int × Int × Int × Bool × Bool × Option Int := (x.inn, x.src, x.dst, x.recur, x.en, x.trait)
/-- the structural skeleton: innovation number, endpoints, recurrence flag -/
def Gene.skel (x : Gene W) : Int × Int × Int × Bool := (x.inn, x.src, x.dst, x.recur)

/-! ### mutateLinkWeights -/

theorem linkWeightsLoop_core (power rate : W) (mt : WeightMutator) (severe : Bool) (gc ep : W)
    (genes : List (Gene W)) (num : W) (rs : List Nat) (genes' : List (Gene W)) (rs' : List Nat)
    (h : linkWeightsLoop power rate mt severe gc ep genes num rs = .ok (genes', rs')) :
    genes'.map Gene.core = genes.map Gene.core ∧ ∀ x ∈ genes', x.mnum = x.w := by
  induction genes generalizing num rs genes' rs' with
  | nil => simp [linkWeightsLoop] at h; obtain ⟨rfl, _⟩ := h; simp
  | cons x xs ih =>
    unfold linkWeightsLoop at h
    simp only at h
    split at h
    · cases h
    · rename_i gp cgp rs1 _
      split at h
      · cases h
      · rename_i su rs2 _
        split at h
        · cases h
        · rename_i w' rs4 _
          split at h
          · cases h
          · rename_i xs' rs5 hrec
            simp only [Except.ok.injEq, Prod.mk.injEq] at h
            obtain ⟨rfl, rfl⟩ := h
            obtain ⟨h1, h2⟩ := ih _ _ _ _ hrec
            refine ⟨by simp [Gene.core, h1], ?_⟩
            intro y hy
            rcases List.mem_cons.mp hy with rfl | hy'
            · rfl
            · exact h2 y hy'

/-- **C05 (weights).** `mutateLinkWeights` never changes the node set, traits, gene endpoints, innovation
    numbers, recurrence/enabled flags or trait references; it only rewrites weights, and every mutation number
    mirrors its weight afterwards. -/
theorem mutateLinkWeights_paramOnly (g g' : Genome W) (power rate : W) (mt : WeightMutator) (rs rs' : List Nat)
    (h : mutateLinkWeights g power rate mt rs = .ok (g', rs')) :
    g'.id = g.id ∧ g'.nodes = g.nodes ∧ g'.traits = g.traits ∧ g'.modules = g.modules ∧
    g'.genes.map Gene.core = g.genes.map Gene.core ∧ ∀ x ∈ g'.genes, x.mnum = x.w := by
  unfold mutateLinkWeights at h
  split at h
  · cases h
  · split at h
    · cases h
    · simp only at h
      split at h
      · cases h
      · rename_i genes rs2 hl
        simp only [Except.ok.injEq, Prod.mk.injEq] at h
        obtain ⟨rfl, _⟩ := h
        obtain ⟨h1, h2⟩ := linkWeightsLoop_core _ _ _ _ _ _ _ _ _ _ _ hl
        exact ⟨rfl, rfl, rfl, rfl, h1, h2⟩

/-! ### re-enable -/

/-- `reenableFirst` enables exactly the first disabled gene and nothing else -/
theorem reenableFirst_spec (genes : List (Gene W)) :
    (genes.all (·.en) = true ∧ reenableFirst genes = genes) ∨
    ∃ pre x post, genes = pre ++ x :: post ∧ pre.all (·.en) = true ∧ x.en = false ∧
      reenableFirst genes = pre ++ { x with en := true } :: post := by
  induction genes with
  | nil => left; simp [reenableFirst]
  | cons y ys ih =>
    by_cases hy : y.en = true
    · rcases ih with ⟨hall, heq⟩ | ⟨pre, x, post, hg, hpre, hx, hr⟩
      · left; simp [reenableFirst, hy, hall, heq]
      · right
        refine ⟨y :: pre, x, post, by simp [hg], by simp [hy, hpre], hx, ?_⟩
        simp [reenableFirst, hy, hr]
    · right
      have hy' : y.en = false := by simpa using hy
      exact ⟨[], y, ys, by simp, by simp, hy', by simp [reenableFirst, hy']⟩

/-- **C05 (re-enable).** `mutateGeneReEnable` enables only the first disabled gene; nodes, traits, endpoints,
    innovation numbers, weights untouched. -/
theorem mutateGeneReEnable_spec (g g' : Genome W) (h : mutateGeneReEnable g = .ok g') :
    g'.nodes = g.nodes ∧ g'.traits = g.traits ∧ g'.modules = g.modules ∧ g'.genes = reenableFirst g.genes := by
  unfold mutateGeneReEnable at h
  split at h
  · cases h
  · cases h; exact ⟨rfl, rfl, rfl, rfl⟩

/-! ### toggle-enable -/

theorem modify_map_skel (genes : List (Gene W)) (k : Nat) (b : Bool) :
    (setEnabledAt genes k b).map Gene.skel = genes.map Gene.skel := by
  unfold setEnabledAt
  induction genes generalizing k with
  | nil => simp
  | cons x xs ih =>
    cases k with
    | zero => simp [List.modify, Gene.skel]
    | succ k => simp [List.modify_succ_cons, ih]

/-- a source node "keeps an outlet": some enabled gene leaves it -/
def HasOutlet (genes : List (Gene W)) (s : Int) : Prop := ∃ x ∈ genes, x.src = s ∧ x.en = true

theorem setEnabledAt_getElem? (genes : List (Gene W)) (k i : Nat) (b : Bool) :
    (setEnabledAt genes k b)[i]? = if k = i then genes[i]?.map (fun x => { x with en := b }) else genes[i]? := by
  unfold setEnabledAt
  rw [List.getElem?_modify]
  split <;> simp

/-- one toggle step keeps every outlet: the guard guarantees another enabled gene with the same source -/
theorem toggle_step_outlets (genes : List (Gene W)) (k : Nat) (gene : Gene W) (hk : genes[k]? = some gene)
    (hguard : genes.any (fun c => c.src == gene.src && c.en && c.inn != gene.inn) = true)
    (s : Int) (h : HasOutlet genes s) : HasOutlet (setEnabledAt genes k false) s := by
  obtain ⟨x, hx, hs, he⟩ := h
  obtain ⟨i, hi⟩ := List.getElem?_of_mem hx
  by_cases hik : k = i
  · subst hik
    -- the outlet is the gene being disabled: use the guard's witness, which sits at another index
    have hxg : x = gene := by rw [hk] at hi; exact (Option.some.inj hi).symm
    subst hxg
    obtain ⟨c, hc, hcond⟩ := List.any_eq_true.mp hguard
    simp only [Bool.and_eq_true, beq_iff_eq, bne_iff_ne, ne_eq] at hcond
    obtain ⟨⟨hcs, hce⟩, hcn⟩ := hcond
    obtain ⟨j, hj⟩ := List.getElem?_of_mem hc
    have hjk : ¬ k = j := by
      intro hkj; subst hkj; rw [hk] at hj; exact hcn (by rw [← Option.some.inj hj])
    have : (setEnabledAt genes k false)[j]? = some c := by rw [setEnabledAt_getElem?]; simp [hjk, hj]
    exact ⟨c, List.mem_of_getElem? this, by rw [hcs, hs], hce⟩
  · have : (setEnabledAt genes k false)[i]? = some x := by rw [setEnabledAt_getElem?]; simp [hik, hi]
    exact ⟨x, List.mem_of_getElem? this, hs, he⟩

/-- **C05 (toggle-enable).** For every number of rounds and every stream: the node set, traits, gene endpoints
    and innovation numbers are untouched, and every node that had an enabled outgoing gene still has one
    (toggle-enable never disables the last enabled gene leaving a node). -/
theorem mutateToggleEnable_spec (times : Nat) (g g' : Genome W) (rs rs' : List Nat)
    (h : mutateToggleEnable g times rs = .ok (g', rs')) :
    g'.nodes = g.nodes ∧ g'.traits = g.traits ∧ g'.modules = g.modules ∧
    g'.genes.map Gene.skel = g.genes.map Gene.skel ∧ ∀ s, HasOutlet g.genes s → HasOutlet g'.genes s := by
  induction times generalizing g rs with
  | zero =>
    unfold mutateToggleEnable at h
    split at h
    · cases h
    · cases h; exact ⟨rfl, rfl, rfl, rfl, fun _ h => h⟩
  | succ n ih =>
    unfold mutateToggleEnable at h
    split at h
    · cases h
    · split at h
      · cases h
      · rename_i k rs1 _
        split at h
        · cases h
        · rename_i gene hk
          simp only at h
          split at h
          · rename_i hcond
            obtain ⟨h1, h2, h3, h4, h5⟩ := ih _ _ h
            simp only [Bool.and_eq_true] at hcond
            refine ⟨h1, h2, h3, ?_, ?_⟩
            · rw [h4]; exact modify_map_skel _ _ _
            · intro s hs
              exact h5 s (toggle_step_outlets g.genes k gene hk hcond.2 s hs)
          · exact ih _ _ h

/-! ### add-link -/

/-- the search loop only reports `found` for a pair of genome nodes whose target is not a sensor and that no
    gene joins with the requested recurrence flag -/
theorem findOpenLink_spec (g : Genome W) (fns : Nat) (doRecur : Bool) (tries : Nat) (last : Option (Node × Node))
    (rs rs' : List Nat) (n1 n2 : Node)
    (h : findOpenLink g fns doRecur tries last rs = .ok ((some (n1, n2), true), rs')) :
    n1 ∈ g.nodes ∧ n2 ∈ g.nodes ∧ n2.isSensor = false ∧
    ∀ y ∈ g.genes, ¬ (y.src = n1.id ∧ y.dst = n2.id ∧ y.recur = doRecur) := by
  induction tries generalizing last rs with
  | zero => simp [findOpenLink] at h
  | succ t ih =>
    unfold findOpenLink at h
    split at h
    · cases h
    · rename_i i1 i2 rs1 _
      split at h
      · rename_i m1 m2 h1 h2
        simp only at h
        split at h
        · exact ih _ _ h
        · rename_i hle
          split at h
          · exact ih _ _ h
          · simp only [Except.ok.injEq, Prod.mk.injEq, Option.some.injEq] at h
            obtain ⟨⟨⟨rfl, rfl⟩, _⟩, _⟩ := h
            simp only [Bool.or_eq_true, not_or, Bool.not_eq_true] at hle
            refine ⟨List.mem_of_getElem? h1, List.mem_of_getElem? h2, hle.1, ?_⟩
            intro y hy ⟨hs, hd, hr⟩
            have := List.any_eq_false.mp hle.2 y hy
            simp [hs, hd, hr] at this
      · cases h

theorem findOpenLink_found_some (g : Genome W) (fns : Nat) (doRecur : Bool) (tries : Nat) (last : Option (Node × Node))
    (rs rs' : List Nat) (h : findOpenLink g fns doRecur tries last rs = .ok ((none, true), rs')) : False := by
  induction tries generalizing last rs with
  | zero => simp [findOpenLink] at h
  | succ t ih =>
    unfold findOpenLink at h
    split at h
    · cases h
    · split at h
      · simp only at h
        split at h
        · exact ih _ _ h
        · split at h
          · exact ih _ _ h
          · simp at h
      · cases h

/-- **C05 (add-link).** A successful add-link mutation adds exactly one gene (inserted in innovation order)
    between two existing nodes; the new gene duplicates no existing link, does not end in a sensor and is
    enabled; nodes, traits and all other genes are untouched. Holds for every stream and every registry
    (empty, matching, non-matching). -/
theorem mutateAddLink_spec (g g' : Genome W) (reg reg' : Reg W) (o : MutOpts W) (rs rs' : List Nat)
    (h : mutateAddLink g reg o rs = .ok ((g', reg', true), rs')) :
    ∃ gene : Gene W, g'.genes = geneInsert g.genes gene ∧ g'.nodes = g.nodes ∧ g'.traits = g.traits ∧ g'.modules = g.modules ∧
      gene.en = true ∧ (∃ n1 ∈ g.nodes, n1.id = gene.src) ∧ (∃ n2 ∈ g.nodes, n2.id = gene.dst ∧ n2.isSensor = false) ∧
      ∀ y ∈ g.genes, ¬ (y.src = gene.src ∧ y.dst = gene.dst ∧ y.recur = gene.recur) := by
  unfold mutateAddLink at h
  split at h
  · cases h
  · split at h
    · cases h
    · split at h
      · cases h
      · rename_i f rs1 _
        simp only at h
        split at h
        · cases h
        · simp at h
        · rename_i rs2 hf
          exact (findOpenLink_found_some _ _ _ _ _ _ _ hf).elim
        · rename_i n1 n2 rs2 hf
          obtain ⟨hn1, hn2, hsens, hnodup⟩ := findOpenLink_spec g _ _ _ _ _ _ n1 n2 hf
          split at h
          · rename_i inn _
            split at h
            · cases h
            · rename_i tr _
              skip
              split at h
              · simp at h
              · split at h
                · cases h
                · simp only [Except.ok.injEq, Prod.mk.injEq] at h
                  obtain ⟨⟨rfl, _, _⟩, _⟩ := h
                  exact ⟨_, rfl, rfl, rfl, rfl, rfl, ⟨n1, hn1, rfl⟩, ⟨n2, hn2, rfl, hsens⟩, hnodup⟩
          · split at h
            · cases h
            · split at h
              · cases h
              · skip
                split at h
                · cases h
                · split at h
                  · cases h
                  · simp only [Except.ok.injEq, Prod.mk.injEq] at h
                    obtain ⟨⟨rfl, _, _⟩, _⟩ := h
                    exact ⟨_, rfl, rfl, rfl, rfl, rfl, ⟨n1, hn1, rfl⟩, ⟨n2, hn2, rfl, hsens⟩, hnodup⟩

/-! ### add-node -/

theorem pickSplitSmall_spec (g : Genome W) (l : List (Gene W)) (i : Nat) (rs rs' : List Nat) (k : Nat)
    (h : pickSplitSmall g l i rs = .ok (some k, rs')) : ∃ x, i ≤ k ∧ l[k - i]? = some x ∧ splittable g x = true := by
  induction l generalizing i rs with
  | nil => simp [pickSplitSmall] at h
  | cons y ys ih =>
    unfold pickSplitSmall at h
    split at h
    · rename_i hsp
      split at h
      · cases h
      · simp only [Except.ok.injEq, Prod.mk.injEq, Option.some.injEq] at h
        obtain ⟨rfl, _⟩ := h
        exact ⟨y, Nat.le_refl _, by simp, hsp⟩
      · obtain ⟨x, hle, hx, hs⟩ := ih _ _ h
        refine ⟨x, by omega, ?_, hs⟩
        have : k - i = (k - (i + 1)) + 1 := by omega
        rw [this]; simpa using hx
    · obtain ⟨x, hle, hx, hs⟩ := ih _ _ h
      refine ⟨x, by omega, ?_, hs⟩
      have : k - i = (k - (i + 1)) + 1 := by omega
      rw [this]; simpa using hx

theorem pickSplitLarge_spec (g : Genome W) (tries : Nat) (rs rs' : List Nat) (k : Nat)
    (h : pickSplitLarge g tries rs = .ok (some k, rs')) : ∃ x, g.genes[k]? = some x ∧ splittable g x = true := by
  induction tries generalizing rs with
  | zero => simp [pickSplitLarge] at h
  | succ t ih =>
    unfold pickSplitLarge at h
    split at h
    · cases h
    · split at h
      · cases h
      · rename_i x hx
        split at h
        · rename_i hsp
          simp only [Except.ok.injEq, Prod.mk.injEq, Option.some.injEq] at h
          obtain ⟨rfl, _⟩ := h
          exact ⟨x, hx, hsp⟩
        · exact ih _ h

/-- what a successful add-node does to a genome -/
structure AddNodeRel (g g' : Genome W) : Prop where
  witness : ∃ (k : Nat) (old : Gene W) (n : Node) (i1 i2 : Int),
    g.genes[k]? = some old ∧ old.en = true ∧
    (∀ s, nodeById g.nodes old.src = some s → s.kind ≠ Kind.bias) ∧
    n.kind = Kind.hidden ∧
    g'.nodes = nodeInsert g.nodes n ∧
    g'.genes = geneInsert (geneInsert (setEnabledAt g.genes k false)
        { inn := i1, src := old.src, dst := n.id, recur := old.recur, w := one, mnum := zero, en := true, trait := old.trait })
        { inn := i2, src := n.id, dst := old.dst, recur := false, w := old.w, mnum := zero, en := true, trait := old.trait }
  traits : g'.traits = g.traits
  modules : g'.modules = g.modules

/-- **C05 (add-node).** A successful add-node mutation disables exactly one previously enabled gene a→b of
    weight w (whose source is not a bias node), adds one new hidden node n and exactly two new enabled genes:
    a→n of weight 1 keeping the old recurrence flag and n→b of weight w, non-recurrent; nothing else changes.
    For every stream, every registry (the innovation numbers and node id come from a matching record or from
    the counters) and every option setting. -/
theorem mutateAddNode_spec (g g' : Genome W) (reg reg' : Reg W) (o : MutOpts W) (rs rs' : List Nat)
    (h : mutateAddNode g reg o rs = .ok ((g', reg', true), rs')) : AddNodeRel g g' := by
  unfold mutateAddNode at h
  split at h
  · simp at h
  · simp only at h
    split at h
    · cases h
    · simp at h
    · rename_i k rs1 hpick
      have hsp : ∃ x, g.genes[k]? = some x ∧ splittable g x = true := by
        split at hpick
        · obtain ⟨x, _, hx, hs⟩ := pickSplitSmall_spec g g.genes 0 rs rs1 k hpick
          exact ⟨x, by simpa using hx, hs⟩
        · exact pickSplitLarge_spec g 20 rs rs1 k hpick
      obtain ⟨old, hold, hsplit⟩ := hsp
      have hen : old.en = true := by
        unfold splittable at hsplit; simp only [Bool.and_eq_true] at hsplit; exact hsplit.1
      have hbias : ∀ s, nodeById g.nodes old.src = some s → s.kind ≠ Kind.bias := by
        intro s hs
        unfold splittable at hsplit; simp only [Bool.and_eq_true, hs] at hsplit
        simpa using hsplit.2
      rw [hold] at h
      simp only at h
      split at h
      · rename_i inn _
        split at h
        · cases h
        · skip
          split at h
          · simp at h
          · simp only [Except.ok.injEq, Prod.mk.injEq] at h
            obtain ⟨⟨rfl, _, _⟩, _⟩ := h
            exact ⟨⟨k, old, _, inn.inn, inn.inn2, hold, hen, hbias, rfl, rfl, rfl⟩, rfl, rfl⟩
      · split at h
        · cases h
        · split at h
          · cases h
          · simp only [Except.ok.injEq, Prod.mk.injEq] at h
            obtain ⟨⟨rfl, _, _⟩, _⟩ := h
            exact ⟨⟨k, old, _, _, _, hold, hen, hbias, rfl, rfl, rfl⟩, rfl, rfl⟩

/-! ### trait mutations -/

theorem modify_map_of_eq {α β} (l : List α) (k : Nat) (f : α → α) (p : α → β) (h : ∀ a, p (f a) = p a) :
    (l.modify k f).map p = l.map p := by
  induction l generalizing k with
  | nil => simp
  | cons x xs ih => cases k with
    | zero => simp [List.modify, h]
    | succ k => simp [List.modify_succ_cons, ih]

theorem set_map_id {α β} [DecidableEq β] (l : List α) (k : Nat) (a b : α) (p : α → β) (h : l[k]? = some a) (hp : p b = p a) :
    (l.set k b).map p = l.map p := by
  induction l generalizing k with
  | nil => simp
  | cons x xs ih => cases k with
    | zero => simp at h; subst h; simp [hp]
    | succ k => simp at h; simp [ih k h]

/-- **C05 (random trait).** only the parameters of one trait change -/
theorem mutateRandomTrait_paramOnly (g g' : Genome W) (o : MutOpts W) (rs rs' : List Nat)
    (h : mutateRandomTrait g o rs = .ok (g', rs')) :
    g'.nodes = g.nodes ∧ g'.genes = g.genes ∧ g'.modules = g.modules ∧ g'.traits.map (·.id) = g.traits.map (·.id) := by
  unfold mutateRandomTrait at h
  split at h
  · cases h
  · split at h
    · cases h
    · split at h
      · cases h
      · rename_i t ht
        split at h
        · cases h
        · simp only [Except.ok.injEq, Prod.mk.injEq] at h
          obtain ⟨rfl, _⟩ := h
          refine ⟨rfl, rfl, rfl, ?_⟩
          exact set_map_id g.traits _ t _ (fun t => t.id) ht rfl

/-- **C05 (link trait).** only trait references of genes change -/
theorem mutateLinkTrait_paramOnly (times : Nat) (g g' : Genome W) (rs rs' : List Nat)
    (h : mutateLinkTrait g times rs = .ok (g', rs')) :
    g'.nodes = g.nodes ∧ g'.traits = g.traits ∧ g'.modules = g.modules ∧
    g'.genes.map Gene.skel = g.genes.map Gene.skel ∧ g'.genes.map (·.en) = g.genes.map (·.en) ∧
    g'.genes.map (·.w) = g.genes.map (·.w) := by
  induction times generalizing g rs with
  | zero =>
    unfold mutateLinkTrait at h
    split at h
    · cases h
    · cases h; exact ⟨rfl, rfl, rfl, rfl, rfl, rfl⟩
  | succ n ih =>
    unfold mutateLinkTrait at h
    split at h
    · cases h
    · split at h
      · cases h
      · split at h
        · cases h
        · split at h
          · cases h
          · obtain ⟨h1, h2, h3, h4, h5, h6⟩ := ih _ _ h
            refine ⟨h1, h2, h3, ?_, ?_, ?_⟩
            · rw [h4]; exact modify_map_of_eq _ _ _ _ (fun a => rfl)
            · rw [h5]; exact modify_map_of_eq _ _ _ _ (fun a => rfl)
            · rw [h6]; exact modify_map_of_eq _ _ _ _ (fun a => rfl)

/-- **C05 (node trait).** only trait references of nodes change: ids, roles and activation types stay -/
theorem mutateNodeTrait_paramOnly (times : Nat) (g g' : Genome W) (rs rs' : List Nat)
    (h : mutateNodeTrait g times rs = .ok (g', rs')) :
    g'.genes = g.genes ∧ g'.traits = g.traits ∧ g'.modules = g.modules ∧
    g'.nodes.map (fun n => (n.id, n.kind, n.act)) = g.nodes.map (fun n => (n.id, n.kind, n.act)) := by
  induction times generalizing g rs with
  | zero =>
    unfold mutateNodeTrait at h
    split at h
    · cases h
    · cases h; exact ⟨rfl, rfl, rfl, rfl⟩
  | succ n ih =>
    unfold mutateNodeTrait at h
    split at h
    · cases h
    · split at h
      · cases h
      · split at h
        · cases h
        · split at h
          · cases h
          · obtain ⟨h1, h2, h3, h4⟩ := ih _ _ h
            refine ⟨h1, h2, h3, ?_⟩
            rw [h4]; exact modify_map_of_eq _ _ _ _ (fun a => rfl)

/-! ### non-vacuity -/

/-- a concrete stream on which add-link succeeds on a 3-node genome -/
def tiny : Genome Int :=
  { id := 1, traits := [⟨1, []⟩],
    nodes := [⟨1, Kind.input, 4, none⟩, ⟨2, Kind.output, 4, none⟩, ⟨3, Kind.hidden, 4, none⟩],
    genes := [⟨1, 1, 2, false, 0, 0, true, none⟩] }

end GoNeat.C05
