/-
  C11, graph view in the presence of ENABLED modules (closes the part that Props/C11.lean leaves to the
  correspondence): on every network that `expresses` a well-formed genome - any number of modules, enabled or not -
  `Edge` / `WeightedEdge` / `Weight` / `HasEdgeFromTo` / `HasEdgeBetween` / `From` / `To` answer what the genome says.

  Genome-level specification (Spec/Genesis.lean, unchanged): `dirEdges g` lists the enabled connection genes in gene
  order, then per enabled module (module order) its input wires `node → control node` and its output wires
  `control node → node`, each with the wire's weight and recurrence flag false; `specEdge g u v` is the FIRST entry
  `u → v`, `specHasEdge` says whether there is one (`hasEdge_iff` below spells it out), `specFrom` / `specTo`
  enumerate successors / predecessors including control nodes.

  Hypothesis `GenomeOk g` (decidable, evaluated by the driver on every generated genome): ordinary node ids and the
  control-node ids of ALL modules are pairwise different, every gene endpoint and module wire names an ordinary node.
  Nothing else is needed: a module may list a node several times, as input and as output, modules may share nodes.
  Model: `edgeBetween` as repaired by 513f15a; the pre-repair behaviour is refuted in Props/C11.lean
  (`ctrl_overlap_legacy_counterexample`).  Helper lemmas: Proofs/GraphViewMod.lean.
-/
import GoNeat.Proofs.GraphViewMod
import GoNeat.Props.C11

namespace GoNeat.C11
open GoNeat GoNeat.Genesis

variable {W : Type} [DecidableEq W]

/-- `Edge` / `WeightedEdge` / `Weight` / `HasEdgeFromTo` for ALL ordered pairs of ids, modules included: the edge
    returned is the first entry `u → v` of `dirEdges` - the first enabled gene `u → v`, else the first input wire
    `u → ctrl v` resp. output wire `ctrl u → v` of the enabled module with that control node - with its endpoints
    and weight; nil / (·, false) / false exactly when there is none (disabled gene, disabled module, absent id) -/
theorem edge_spec_modular (g : Genome W) (netId : Int) (net : Net W) (hok : GenomeOk g = true)
    (hx : expresses g netId net = true) (u v : Int) :
    (edge? net u v).map (elink net) = specEdge g u v ∧
    weight? net u v = (specEdge g u v).map (·.w) ∧
    hasEdgeFromTo net u v = specHasEdge g u v := by
  have hd := edgeBetween_directed_mod ((ok_iff g).mp hok) ((expressed_iff g netId net).mp hx) u v
  have hs : specEdge g u v = (dirEdges g).find? (edgeP u v) := rfl
  refine ⟨by rw [hs]; exact hd, ?_, ?_⟩
  · unfold weight?
    rw [hs, ← hd]
    cases edgeBetween net u v true <;> rfl
  · unfold hasEdgeFromTo specHasEdge
    rw [any_eq_isSome_find, show (fun e : ELink W => e.src == some u && e.dst == some v) = edgeP u v from rfl, ← hd]
    cases edgeBetween net u v true <;> rfl

/-- `HasEdgeBetween(x, y)` is the symmetric closure of `HasEdgeFromTo`, modules included -/
theorem hasEdgeBetween_spec_modular (g : Genome W) (netId : Int) (net : Net W) (hok : GenomeOk g = true)
    (hx : expresses g netId net = true) (u v : Int) :
    hasEdgeBetween net u v = (specHasEdge g u v || specHasEdge g v u) := by
  have hd := edgeBetween_undirected_mod ((ok_iff g).mp hok) ((expressed_iff g netId net).mp hx) u v
  have hs : ∀ a b, specHasEdge g a b = ((dirEdges g).find? (edgeP a b)).isSome := by
    intro a b
    unfold specHasEdge
    rw [any_eq_isSome_find]; rfl
  unfold hasEdgeBetween
  rw [hs, hs, hd]

/-- `From(id)` / `To(id)`, modules included: for an ordinary node the targets (sources) of the enabled genes leaving
    (entering) it in gene order, then the control nodes of the enabled modules that list it as input (output), in
    module order; for the control node of an enabled module its output (input) nodes in wire order; empty for every
    other id -/
theorem from_to_spec_modular (g : Genome W) (netId : Int) (net : Net W) (hok : GenomeOk g = true)
    (hx : expresses g netId net = true) (u : Int) : fromIds net u = specFrom g u ∧ toIds net u = specTo g u :=
  ⟨from_spec_mod ((ok_iff g).mp hok) ((expressed_iff g netId net).mp hx) u,
   to_spec_mod ((ok_iff g).mp hok) ((expressed_iff g netId net).mp hx) u⟩

omit [DecidableEq W] in
/-- what `specHasEdge` says, in words: an edge `u → v` exists iff an enabled connection gene `u → v` exists, or `u` is
    an input node of an enabled module with control node `v`, or `u` is the control node of an enabled module and
    `v` one of its outputs -/
theorem hasEdge_iff (g : Genome W) (u v : Int) :
    specHasEdge g u v = true ↔
      (∃ x ∈ g.genes, x.en = true ∧ x.src = u ∧ x.dst = v) ∨
      (∃ m ∈ g.modules, m.en = true ∧ m.ctrl.id = v ∧ ∃ w ∈ m.ins, w.node = u) ∨
      (∃ m ∈ g.modules, m.en = true ∧ m.ctrl.id = u ∧ ∃ w ∈ m.outs, w.node = v) := by
  unfold specHasEdge dirEdges enabledGenes enabledMods
  rw [List.any_eq_true]
  constructor
  · rintro ⟨e, he, hp⟩
    simp only [Bool.and_eq_true, beq_iff_eq] at hp
    rcases List.mem_append.mp he with h | h
    · obtain ⟨x, hx, rfl⟩ := List.mem_map.mp h
      obtain ⟨hxg, hxe⟩ := List.mem_filter.mp hx
      simp only [elinkOfGene, Option.some.injEq] at hp
      exact Or.inl ⟨x, hxg, hxe, hp.1, hp.2⟩
    · obtain ⟨m, hm, hem⟩ := List.mem_flatMap.mp h
      obtain ⟨hmg, hme⟩ := List.mem_filter.mp hm
      rcases List.mem_append.mp hem with h1 | h1
      · obtain ⟨w, hw, hs, hd⟩ := mem_modIns h1
        rw [hs, hd] at hp
        simp only [Option.some.injEq] at hp
        exact Or.inr (Or.inl ⟨m, hmg, hme, hp.2, w, hw, hp.1⟩)
      · obtain ⟨w, hw, hs, hd⟩ := mem_modOuts h1
        rw [hs, hd] at hp
        simp only [Option.some.injEq] at hp
        exact Or.inr (Or.inr ⟨m, hmg, hme, hp.1, w, hw, hp.2⟩)
  · rintro (⟨x, hxg, hxe, rfl, rfl⟩ | ⟨m, hmg, hme, rfl, w, hw, rfl⟩ | ⟨m, hmg, hme, rfl, w, hw, rfl⟩)
    · exact ⟨elinkOfGene x, List.mem_append_left _ (List.mem_map.mpr ⟨x, List.mem_filter.mpr ⟨hxg, hxe⟩, rfl⟩),
        by simp [elinkOfGene]⟩
    · refine ⟨⟨some w.node, some m.ctrl.id, w.w, false⟩, List.mem_append_right _ ?_, by simp⟩
      exact List.mem_flatMap.mpr ⟨m, List.mem_filter.mpr ⟨hmg, hme⟩,
        List.mem_append_left _ (List.mem_map.mpr ⟨w, hw, rfl⟩)⟩
    · refine ⟨⟨some m.ctrl.id, some w.node, w.w, false⟩, List.mem_append_right _ ?_, by simp⟩
      exact List.mem_flatMap.mpr ⟨m, List.mem_filter.mpr ⟨hmg, hme⟩,
        List.mem_append_right _ (List.mem_map.mpr ⟨w, hw, rfl⟩)⟩

/-- an id that is neither a node id nor the control id of an ENABLED module: every query reports nil / empty / false
    (in particular the control id of a disabled module) -/
theorem absent_id_modular (g : Genome W) (netId : Int) (net : Net W) (hok : GenomeOk g = true)
    (hx : expresses g netId net = true) (u : Int) (hu : u ∉ specNodes g) :
    node? net u = none ∧ fromIds net u = [] ∧ toIds net u = [] ∧
    ∀ v, edge? net u v = none ∧ edge? net v u = none ∧ weight? net u v = none ∧ weight? net v u = none ∧
      hasEdgeFromTo net u v = false ∧ hasEdgeFromTo net v u = false ∧ hasEdgeBetween net u v = false ∧
      hasEdgeBetween net v u = false := by
  have hok' := (ok_iff g).mp hok
  have hxe := (expressed_iff g netId net).mp hx
  have hu1 : u ∉ nodeIds' g := fun h => hu (by unfold specNodes; exact List.mem_append_left _ h)
  have hu2 : ∀ m ∈ enabledMods g, m.ctrl.id ≠ u := fun m hm h =>
    hu (by unfold specNodes; exact List.mem_append_right _ (List.mem_map.mpr ⟨m, hm, h⟩))
  -- no edge of the genome touches `u`
  have hno : ∀ a b, (a = u ∨ b = u) → specHasEdge g a b = false := by
    intro a b hab
    cases hs : specHasEdge g a b with
    | false => rfl
    | true =>
      exfalso
      rcases (hasEdge_iff g a b).mp hs with ⟨x, hxg, _, rfl, rfl⟩ | ⟨m, hmg, hme, rfl, w, hw, rfl⟩ | ⟨m, hmg, hme, rfl, w, hw, rfl⟩
      · rcases hab with h | h
        · exact hu1 (h ▸ (hok'.genes x hxg).1)
        · exact hu1 (h ▸ (hok'.genes x hxg).2)
      · rcases hab with h | h
        · exact hu1 (h ▸ (hok'.wires m hmg).1 w hw)
        · exact hu2 m (List.mem_filter.mpr ⟨hmg, hme⟩) h
      · rcases hab with h | h
        · exact hu2 m (List.mem_filter.mpr ⟨hmg, hme⟩) h
        · exact hu1 (h ▸ (hok'.wires m hmg).2 w hw)
  have hedge : ∀ a b, (a = u ∨ b = u) → edgeBetween net a b true = none := by
    intro a b hab
    have h3 := (edge_spec_modular g netId net hok hx a b).2.2
    rw [hno a b hab] at h3
    unfold hasEdgeFromTo at h3
    cases h : edgeBetween net a b true with
    | none => rfl
    | some l => simp [h] at h3
  have hbet : ∀ a b, (a = u ∨ b = u) → hasEdgeBetween net a b = false := by
    intro a b hab
    rw [hasEdgeBetween_spec_modular g netId net hok hx a b, hno a b hab, hno b a hab.symm]; rfl
  have hfind : (enabledMods g).find? (fun m => m.ctrl.id == u) = none := by
    rw [List.find?_eq_none]
    intro m hm hp
    exact hu2 m hm (by simpa using hp)
  refine ⟨?_, ?_, ?_, ?_⟩
  · rw [(node_spec g netId net hx u).1]
    unfold specNode
    rw [List.find?_eq_none]
    intro t ht hp
    apply hu
    unfold specNodes nodeIds'
    rcases List.mem_append.mp ht with h | h
    · obtain ⟨n, hn, rfl⟩ := List.mem_map.mp h
      exact List.mem_append_left _ (List.mem_map.mpr ⟨n, hn, by simpa using hp⟩)
    · obtain ⟨m, hm, rfl⟩ := List.mem_map.mp h
      exact List.mem_append_right _ (List.mem_map.mpr ⟨m, hm, by simpa using hp⟩)
  · rw [(from_to_spec_modular g netId net hok hx u).1]
    unfold specFrom
    simp [hu1, hfind]
  · rw [(from_to_spec_modular g netId net hok hx u).2]
    unfold specTo
    simp [hu1, hfind]
  · intro v
    simp [edge?, weight?, hasEdgeFromTo, hedge u v (Or.inl rfl), hedge v u (Or.inr rfl),
      hbet u v (Or.inl rfl), hbet v u (Or.inr rfl)]

/-- everything for the phenotype `Genesis` builds, any number of modules -/
theorem phenotype_graph_view_modular (g : Genome W) (netId : Int) (net : Net W) (hok : GenomeOk g = true)
    (h : genesis g netId = .ok net) (u v : Int) :
    node? net u = specNode g u ∧ nodeIds net = specNodes g ∧
    (edge? net u v).map (elink net) = specEdge g u v ∧ weight? net u v = (specEdge g u v).map (·.w) ∧
    hasEdgeFromTo net u v = specHasEdge g u v ∧
    hasEdgeBetween net u v = (specHasEdge g u v || specHasEdge g v u) ∧
    fromIds net u = specFrom g u ∧ toIds net u = specTo g u := by
  have hx := genesis_expresses g netId net hok h
  obtain ⟨e1, e2, e3⟩ := edge_spec_modular g netId net hok hx u v
  exact ⟨(node_spec g netId net hx u).1, (node_spec g netId net hx u).2, e1, e2, e3,
    hasEdgeBetween_spec_modular g netId net hok hx u v,
    (from_to_spec_modular g netId net hok hx u).1, (from_to_spec_modular g netId net hok hx u).2⟩

/-! ## non-vacuity -/
section Examples

private def nd (id : Int) (kind : Kind) : Node := { id := id, kind := kind, act := 5, trait := none }
private def gene (inn src dst : Int) (w : Nat) (en recur : Bool) : Gene Nat :=
  { inn := inn, src := src, dst := dst, recur := recur, w := w, mnum := 0, en := en, trait := none }

/-- bias 1, input 2, output 3, hidden 4 and 5, with enabled / disabled / recurrent / self-loop genes; module 10 lists
    node 4 TWICE as input (weights 21, 25) and writes 4 (its own input) and 5; module 12 shares nodes 4 and 5 with it;
    module 11 is disabled -/
private def twoMods : Genome Nat :=
  { id := 1, traits := [],
    nodes := [nd 1 Kind.bias, nd 2 Kind.input, nd 3 Kind.output, nd 4 Kind.hidden, nd 5 Kind.hidden],
    genes := [gene 1 1 4 11 true false, gene 2 2 4 12 false false, gene 3 4 3 13 true false, gene 4 4 4 14 true true,
              gene 5 3 4 15 true true, gene 6 5 3 16 false false, gene 7 2 5 17 true false],
    modules :=
      [{ inn := 8, mnum := 0, en := true, ctrl := nd 10 Kind.hidden,
         ins := [⟨4, 21, false, none⟩, ⟨2, 24, false, none⟩, ⟨4, 25, false, none⟩],
         outs := [⟨4, 22, false, none⟩, ⟨5, 23, false, none⟩] },
       { inn := 9, mnum := 0, en := false, ctrl := nd 11 Kind.hidden, ins := [⟨1, 31, false, none⟩], outs := [⟨3, 32, false, none⟩] },
       { inn := 10, mnum := 0, en := true, ctrl := nd 12 Kind.hidden, ins := [⟨5, 41, false, none⟩, ⟨4, 42, false, none⟩],
         outs := [⟨3, 43, false, none⟩] }] }

private def netOf (g : Genome Nat) : Net Nat :=
  match genesis g 7 with
  | .ok n => n
  | .error _ => { id := 0, nodes := [], inputs := [], outputs := [] }

/-- the hypotheses hold and every kind of query is exercised on a genome with several modules -/
example : GenomeOk twoMods = true ∧ expresses twoMods 7 (netOf twoMods) = true ∧ (enabledMods twoMods).length = 2 := by
  decide
example :
    -- wires into / out of control nodes, first weight wins for the doubled input
    weight? (netOf twoMods) 4 10 = some 21 ∧ weight? (netOf twoMods) 10 4 = some 22 ∧
    weight? (netOf twoMods) 2 10 = some 24 ∧ weight? (netOf twoMods) 10 5 = some 23 ∧
    weight? (netOf twoMods) 4 12 = some 42 ∧ weight? (netOf twoMods) 12 3 = some 43 ∧
    -- no wire the other way round, none at the disabled module, none between control nodes
    hasEdgeFromTo (netOf twoMods) 10 2 = false ∧ hasEdgeFromTo (netOf twoMods) 3 12 = false ∧
    hasEdgeFromTo (netOf twoMods) 1 11 = false ∧ hasEdgeFromTo (netOf twoMods) 11 3 = false ∧
    hasEdgeFromTo (netOf twoMods) 10 12 = false ∧ node? (netOf twoMods) 11 = none ∧
    hasEdgeBetween (netOf twoMods) 10 2 = true ∧ hasEdgeBetween (netOf twoMods) 3 12 = true ∧
    hasEdgeBetween (netOf twoMods) 10 12 = false ∧ hasEdgeBetween (netOf twoMods) 11 3 = false ∧
    -- genes are untouched by the modules
    weight? (netOf twoMods) 4 3 = some 13 ∧ hasEdgeFromTo (netOf twoMods) 5 3 = false ∧
    -- successors / predecessors with control nodes
    fromIds (netOf twoMods) 4 = [some 3, some 4, some 10, some 12] ∧ fromIds (netOf twoMods) 10 = [some 4, some 5] ∧
    toIds (netOf twoMods) 4 = [some 1, some 4, some 3, some 10] ∧ toIds (netOf twoMods) 10 = [some 4, some 2, some 4] ∧
    toIds (netOf twoMods) 3 = [some 4, some 12] ∧ fromIds (netOf twoMods) 11 = [] ∧ toIds (netOf twoMods) 11 = [] := by
  decide

end Examples

end GoNeat.C11
